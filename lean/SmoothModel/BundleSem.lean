/-
  BundleSem.lean — the FIXED TABLE giving a meaning to the constructs of `include/smooth/detail/bundle.hpp`
  (`BundleImpl<GsImpl...>`), of the array helpers of `detail/utils.hpp` it uses (`array_psum`, `static_for`) and of
  the part accessors of `include/smooth/bundle.hpp`.  tools/gen_bundle.py (fourth entry of `vlib.run_translators`)
  transliterates those sources into `SmoothModel/Gen/BundleSrc.lean`; `SmoothProps/SrcTieBundle.lean` proves the
  result equal to the hand-written `Bundle.psum / Bundle.prod / Bundle.bundle / hessPlace` (Bundle.lean) the
  theorems of C06 (and C01–C05 for Bundles) are about.  Part of the trusted base, like EigenSem.lean / BaseSem.lean.

  The parameter pack `GsImpl...` is a LIST `Gs : List (LieModel α)` (one record of implementation functions per
  part, as in BaseSem.lean: for a commutative part the fields `Ad … d2r_expinv` hold the short-cut constants, and
  the generated code never calls them because the source guards those calls by `!PartImpl<i>::IsCommutative`).

  Memory.  An `Eigen::Ref` parameter is a BUFFER, a total function of the index (`VBuf` / `MBuf`): the bound
  object's coefficients inside its static size, arbitrary outside.  Nothing in this file knows a dimension that
  the C++ text does not state: every size and offset is an argument that the translator copies from the source
  (`segment<LEN>(OFF)`, `block<NR, NC>(R0, C0)`, `middleCols<N>(C0)`, the declared size of a temporary, the size
  of the `Ref` type for `setZero()`).
      `x.template segment<LEN>(OFF)`           as an argument read by the callee   `viewSegment x LEN OFF`
      `X.template block<NR, NC>(R0, C0)`        …                                  `viewBlock X NR NC R0 C0`
      `H.template middleCols<N>(C0)`  (H declared with R rows)                     `viewBlock H R N 0 C0`
      `f(ins…, OUT)` with OUT a segment/block  the callee assigns EVERY coefficient of its output parameter (that
            is the definite-assignment obligation discharged for each `*Impl` by tools/gen_impl.py) and nothing
            else:                                                                  `copySegment x LEN OFF (ofVec (f ins…))`
      `A = B` between fixed-size blocks        coefficient-wise copy               `copyBlock`
      `X.setZero()`  (X a Ref of R × C)        zero inside R × C                   `setZeroM R C X`
      `B.setIdentity()` on a block             Kronecker delta inside the block    `copyBlock … identBuf`
      passing a view where the callee expects a static size `m`                    `asVec` / `asMat` (the first m
            coefficients; C++ rejects a static-size mismatch at compile time, here a mismatch leaves zeros and
            the tie theorem does not prove)
  Control.
      `utils::static_for<N>(λ)`   = `(λ(0), λ(1), …, λ(N−1))`, a comma fold, left to right (utils.hpp, pinned
            textually by the translator)                                           `staticFor N λ`
      `for (auto j = 0u; j < B; ++j)`                                              `forRange B`
      `std::get<i>(arr)`, `arr[i]`, `arr.back()`, `sizeof...(pack)`                `stdGet i arr`, `back arr`, `sizeofPack`
      `std::partial_sum(first, last, d_first)` (libstdc++ `stl_numeric.h`: `*d = acc = x₀; acc = acc + xₖ; *++d = acc`)
                                                                                   `partialSum`
      `std::tuple_element_t<Idx, std::tuple<Gs...>>`                               `tupleElement Idx Gs`
      `(Gs::IsCommutative && ...)`  (right fold over `&&`, `true` for the empty pack)   `foldAnd`
  Public class (bundle.hpp).
      `MapDispatch<[const] PartType<Idx>>(data() + e)`                             `mapDispatch (PartType Gs Idx) e writable`
      `part<i>() = value`                                                          `assignView`
  No Mathlib import.
-/
import SmoothModel.Lin
import SmoothModel.Group
import SmoothModel.Bundle

open Scalar Lin

namespace BundleSem
variable {α : Type} [Scalar α]

abbrev VBuf (α : Type) := Nat → α
abbrev MBuf (α : Type) := Nat → Nat → α

/-! ### integer arrays -/

/-- `std::get<i>(arr)` / `arr[i]` (out of range: ill-formed in C++; 0 here) -/
def stdGet : (i : Nat) → (arr : List Nat) → Nat
  | _, [] => 0
  | 0, x :: _ => x
  | i + 1, _ :: xs => stdGet i xs
/-- `arr.back()` -/
def back (arr : List Nat) : Nat := arr.getLastD 0
/-- `sizeof...(pack)` -/
def sizeofPack {β : Type} (pack : List β) : Nat := pack.length
/-- `std::array<T, n> ret;` — not initialised (every entry is written before it is read: checked by the tie) -/
def newArray (n : Nat) : List Nat := List.replicate n 0
/-- `ret[k] = v` -/
def setAt (ret : List Nat) (k v : Nat) : List Nat := ret.set k v
/-- `std::partial_sum`: the running sums `[x₀, x₀+x₁, …]`, accumulated from the left -/
def partialSumFrom : Nat → List Nat → List Nat
  | _, [] => []
  | acc, x :: xs => (acc + x) :: partialSumFrom (acc + x) xs
def partialSum : List Nat → List Nat
  | [] => []
  | x :: xs => x :: partialSumFrom x xs
/-- output iterator `std::next(ret.begin(), k)`: the values `vs` are written to `ret[k], ret[k+1], …` -/
def writeFrom (ret : List Nat) (k : Nat) : List Nat → List Nat
  | [] => ret
  | v :: vs => writeFrom (ret.set k v) (k + 1) vs
/-- `(pack && ...)` -/
def foldAnd : List Bool → Bool
  | [] => true
  | b :: bs => b && foldAnd bs
/-- `std::tuple_element_t<Idx, std::tuple<Gs...>>` (out of range: ill-formed in C++; the empty bundle here) -/
def tupleElement : (Idx : Nat) → (Gs : List (LieModel α)) → LieModel α
  | _, [] => Bundle.unit
  | 0, G :: _ => G
  | Idx + 1, _ :: Gs => tupleElement Idx Gs

/-! ### control -/

/-- `utils::static_for<n>(f)`: `f(0), f(1), …, f(n−1)` in this order -/
def staticFor {S : Type} : (n : Nat) → (f : Nat → S → S) → S → S
  | 0, _, s => s
  | n + 1, f, s => staticFor n (fun i => f (i + 1)) (f 0 s)

/-- `for (auto j = 0u; j < n; ++j)` -/
def forRange {S : Type} (n : Nat) (f : Nat → S → S) (s : S) : S := staticFor n f s

/-! ### buffers -/

/-- a fixed-size vector object seen through a `Ref` -/
def ofVec {n : Nat} (v : Vec α n) : VBuf α := fun k => if h : k < n then v ⟨k, h⟩ else nat 0
def ofMat {n m : Nat} (M : Mat α n m) : MBuf α :=
  fun r c => if h : r < n ∧ c < m then M ⟨r, h.1⟩ ⟨c, h.2⟩ else nat 0
/-- a view handed to a callee whose parameter has static size `m` -/
def asVec {m : Nat} (v : VBuf α) : Vec α m := .of (fun k => v k.val)
def asMat {n m : Nat} (M : MBuf α) : Mat α n m := .of (fun i j => M i.val j.val)

/-- `x.template segment<len>(off)` read -/
def viewSegment (x : VBuf α) (len off : Nat) : VBuf α := fun k => if k < len then x (off + k) else nat 0
/-- `X.template block<nr, nc>(r0, c0)` read -/
def viewBlock (X : MBuf α) (nr nc r0 c0 : Nat) : MBuf α :=
  fun i j => if i < nr ∧ j < nc then X (r0 + i) (c0 + j) else nat 0
/-- `x.template segment<len>(off) = src` -/
def copySegment (x : VBuf α) (len off : Nat) (src : VBuf α) : VBuf α :=
  fun k => if off ≤ k ∧ k < off + len then src (k - off) else x k
/-- `X.template block<nr, nc>(r0, c0) = src` -/
def copyBlock (X : MBuf α) (nr nc r0 c0 : Nat) (src : MBuf α) : MBuf α :=
  fun r c => if r0 ≤ r ∧ r < r0 + nr ∧ c0 ≤ c ∧ c < c0 + nc then src (r - r0) (c - c0) else X r c
/-- `x.setZero()` on a `Ref` of static size `n` -/
def setZeroV (n : Nat) (x : VBuf α) : VBuf α := fun k => if k < n then nat 0 else x k
/-- `X.setZero()` on a `Ref` of static size `nr × nc` -/
def setZeroM (nr nc : Nat) (X : MBuf α) : MBuf α := fun r c => if r < nr ∧ c < nc then nat 0 else X r c
/-- the source of `B.setIdentity()` -/
def identBuf : MBuf α := fun i j => if i = j then nat 1 else nat 0
/-- `Eigen::Matrix<Scalar, R, C> H;` — not initialised (whole-object output of the next call) -/
def newMat : MBuf α := fun _ _ => nat 0

/-! ### part accessors of the public class (include/smooth/bundle.hpp) -/

/-- the object returned by `MapDispatch<T>(ptr)` (`smooth::Map<T>` for a group type, `Eigen::Map<T>` for an Eigen vector —
    lie_group_base.hpp): the type `T` (`const` stripped), the offset of `ptr` from `data()` of the enclosing object, and
    whether `T` is non-const -/
structure PartView (α : Type) where
  G : LieModel α
  off : Nat
  writable : Bool

def mapDispatch (G : LieModel α) (off : Nat) (writable : Bool) : PartView α := ⟨G, off, writable⟩

/-- `view = value`: a Map covers the `RepSize` coefficients of its type starting at its pointer; assignment copies them
    (a `Map<const T>` has no assignment operator: ill-formed, no write here) -/
def assignView (self : VBuf α) (v : PartView α) (src : VBuf α) : VBuf α :=
  if v.writable = true then copySegment self v.G.rep v.off src else self

end BundleSem
