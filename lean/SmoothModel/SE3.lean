/-
  SE3.lean — detail/se3.hpp (SE3Impl) and public extras of se3.hpp.
  Layout: group (x y z qx qy qz qw); tangent (vx vy vz Ωx Ωy Ωz).
-/
import SmoothModel.Lin
import SmoothModel.Trig
import SmoothModel.SO3
import SmoothModel.Derivs
import SmoothModel.Gen.SE3dQ

open Scalar Lin
namespace SE3
variable {α : Type} [Scalar α]

def so3 (g : Vec α 7) : Vec α 4 := mk4 (g 3) (g 4) (g 5) (g 6)
def r3 (g : Vec α 7) : Vec α 3 := mk3 (g 0) (g 1) (g 2)
def mk7 (t : Vec α 3) (q : Vec α 4) : Vec α 7 := (.of (fun i =>
  match i with | 0 => t 0 | 1 => t 1 | 2 => t 2 | 3 => q 0 | 4 => q 1 | 5 => q 2 | 6 => q 3))
def tv (a : Vec α 6) : Vec α 3 := mk3 (a 0) (a 1) (a 2)
def tw (a : Vec α 6) : Vec α 3 := mk3 (a 3) (a 4) (a 5)
def mk6 (v w : Vec α 3) : Vec α 6 := (.of (fun i =>
  match i with | 0 => v 0 | 1 => v 1 | 2 => v 2 | 3 => w 0 | 4 => w 1 | 5 => w 2))

/-- 2×2 block matrix of 3×3 blocks -/
def blk22 (A B C D : Mat α 3 3) : Mat α 6 6 := (.of (fun i j =>
  if hi : i.val < 3 then
    if hj : j.val < 3 then A ⟨i.val, hi⟩ ⟨j.val, hj⟩ else B ⟨i.val, hi⟩ ⟨j.val - 3, by omega⟩
  else
    if hj : j.val < 3 then C ⟨i.val - 3, by omega⟩ ⟨j.val, hj⟩
    else D ⟨i.val - 3, by omega⟩ ⟨j.val - 3, by omega⟩))

def identity : Vec α 7 := mk7 (vzero 3) SO3.identity

def matrix (g : Vec α 7) : Mat α 4 4 :=
  let R := SO3.matrix (so3 g)
  (.of (fun i j =>
    if hi : i.val < 3 then
      if hj : j.val < 3 then R ⟨i.val, hi⟩ ⟨j.val, hj⟩ else g ⟨i.val, by omega⟩
    else if j.val < 3 then nat 0 else nat 1))

def composition (a b : Vec α 7) : Vec α 7 :=
  let q := SO3.composition (so3 a) (so3 b)
  let R1 := memoM (SO3.matrix (so3 a))
  mk7 (vadd (mulVec R1 (r3 b)) (r3 a)) q

def inverse (g : Vec α 7) : Vec α 7 :=
  let qi := memoV (SO3.inverse (so3 g))
  let Rinv := memoM (SO3.matrix qi)
  mk7 (mulVec (mneg Rinv) (r3 g)) qi

def log (g : Vec α 7) : Vec α 6 :=
  let w := memoV (SO3.log (so3 g))
  let J := SO3.dr_expinv w
  let M := SO3.ad w
  let T := memoM (madd (mneg M) J)
  mk6 (mulVec T (r3 g)) w

def Ad (g : Vec α 7) : Mat α 6 6 :=
  let R := memoM (SO3.matrix (so3 g))
  let P := mmul (SO3.hat (r3 g)) R
  blk22 R P (mzero 3 3) R

def exp (a : Vec α 6) : Vec α 7 :=
  let q := memoV (SO3.exp (tw a))
  let J := memoM (SO3.dr_exp (tw a))
  let R := memoM (SO3.Ad q)
  let RJ := memoM (mmul R J)
  mk7 (mulVec RJ (tv a)) q

def hat (a : Vec α 6) : Mat α 4 4 :=
  let W := SO3.hat (tw a)
  (.of (fun i j =>
    if hi : i.val < 3 then
      if hj : j.val < 3 then W ⟨i.val, hi⟩ ⟨j.val, hj⟩ else a ⟨i.val, by omega⟩
    else nat 0))

def vee (A : Mat α 4 4) : Vec α 6 :=
  let w := SO3.vee (.of (fun i j => A ⟨i.val, by omega⟩ ⟨j.val, by omega⟩))
  mk6 (mk3 (A 0 3) (A 1 3) (A 2 3)) w

def ad (a : Vec α 6) : Mat α 6 6 :=
  let W := SO3.hat (tw a)
  blk22 W (SO3.hat (tv a)) (mzero 3 3) W

/-- `calculate_q(v, w)` (se3.hpp:149-168; the same expression is SE_K_3Impl::calculate_q) -/
def calculate_q (v w : Vec α 3) : Mat α 3 3 :=
  let th2 := sqNorm w
  let V := SO3.hat v
  let W := SO3.hat w
  let vdw := dot v w
  let WV := memoM (mmul W V)
  let VW := memoM (mmul V W)
  let WW := memoM (mmul W W)
  let s3 := Trig.sin_3 th2
  let c4 := Trig.cos_4 th2
  let s5 := Trig.sin_5 th2
  let WWV := memoM (mmul W WV)
  let VWW := memoM (mmul VW W)
  (.of (fun i j =>
    (((nat 1 / nat 2) * V i j
      + s3 * ((-(WV i j) - VW i j) + vdw * W i j))
      + c4 * ((WWV i j + VWW i j) + vdw * (nat 3 * W i j - WW i j)))
      + ((s5 * nat 3) * vdw) * WW i j))

/-- `(dA_over_th, dB_over_th, dC_over_th)` of `calculate_Q_dQ` -/
def dQCoef (th2 : α) : α × α × α :=
  if th2 < Scalar.eps2 then
    (-(nat 1) / nat 60, -(nat 1) / nat 360, nat 1 / nat 2520)
  else
    let th := Scalar.sqrt th2
    let th3 := th2 * th
    let th4 := th2 * th2
    let th5 := th3 * th2
    let th6 := th3 * th3
    let th7 := th4 * th3
    let sTh := Scalar.sin th
    let cTh := Scalar.cos th
    (-cTh / th4 - nat 2 / th4 + nat 3 * sTh / th5,
     -(nat 1) / th4 - sTh / th5 - nat 4 * cTh / th6 + nat 4 / th6,
     nat 1 / (nat 3 * th4) - cTh / th6 - nat 4 / th6 + nat 5 * sTh / th7)

/-- the three polynomial matrices `PA, PB, PC` of `calculate_Q_dQ` -/
def PABC (v w : Vec α 3) : Mat α 3 3 × Mat α 3 3 × Mat α 3 3 :=
  let V := SO3.hat v
  let W := SO3.hat w
  let vdw := dot v w
  let WV := memoM (mmul W V)
  let VW := memoM (mmul V W)
  let WW := memoM (mmul W W)
  let WWV := memoM (mmul W WV)
  let VWW := memoM (mmul VW W)
  (memoM (.of (fun i j => (WV i j + VW i j) - vdw * W i j)),
   memoM (.of (fun i j => (WWV i j + VWW i j) + vdw * (nat 3 * W i j - WW i j))),
   memoM (.of (fun i j => (-(nat 3) * vdw) * WW i j)))

/-- `calculate_Q_dQ(a)`: returns `(Q, dQ)` -/
def calculate_Q_dQ (a : Vec α 6) : Mat α 3 3 × Mat α 3 18 :=
  let v := tv a
  let w := tw a
  let th2 := sqNorm w
  let A := -(Trig.sin_3 th2)
  let B := Trig.cos_4 th2
  let C := -(Trig.sin_5 th2)
  let dco := dQCoef th2
  let P := PABC v w
  let PA := P.1; let PB := P.2.1; let PC := P.2.2
  let V := SO3.hat v
  let Q : Mat α 3 3 := (.of (fun i j => ((V i j / nat 2 + A * PA i j) + B * PB i j) + C * PC i j))
  let tab := SE3Gen.dQtab A B C v w
  let dQ : Mat α 3 18 := (.of (fun r c =>
    let cc := c.val % 6
    if h : 3 ≤ cc then
      let i : Fin 3 := ⟨cc - 3, by omega⟩
      let j : Fin 3 := ⟨c.val / 6, by have := c.isLt; omega⟩
      tab r c + (((dco.1 * w i) * PA j r + (dco.2.1 * w i) * PB j r) + (dco.2.2 * w i) * PC j r)
    else tab r c))
  (Q, dQ)

def dr_exp (a : Vec α 6) : Mat α 6 6 :=
  let J := memoM (SO3.dr_exp (tw a))
  let Q := memoM (calculate_q (vneg (tv a)) (vneg (tw a)))
  blk22 J Q (mzero 3 3) J

def dr_expinv (a : Vec α 6) : Mat α 6 6 :=
  let J := memoM (SO3.dr_expinv (tw a))
  let Q := memoM (calculate_q (vneg (tv a)) (vneg (tw a)))
  let P := memoM (mmul (memoM (mmul (mneg J) Q)) J)
  blk22 J P (mzero 3 3) J

/-- place the SO3 Hessian blocks into the 6×36 SE3 Hessian -/
def placeSO3 (Hso3 : Mat α 3 9) (lower : Mat α 3 18) : Mat α 6 36 := (.of (fun R C =>
  let blk := C.val / 6   -- which Jacobian column block (0..5)
  let k := C.val % 6     -- derivative variable
  if hR : R.val < 3 then
    -- rows 0..2: H[0:3, 6 i + 3 + k'] = Hso3[:, 3 i + k'] for i < 3 (blocks 0..2), k' < 3
    if hb : blk < 3 then
      if hk : 3 ≤ k then Hso3 ⟨R.val, hR⟩ ⟨3 * blk + (k - 3), by omega⟩ else nat 0
    else nat 0
  else
    -- rows 3..5: columns 0..17 come from `lower`; columns 18 + 6 i + 3 + k' = Hso3[:, 3 i + k']
    if hb : blk < 3 then lower ⟨R.val - 3, by omega⟩ ⟨C.val, by have := C.isLt; omega⟩
    else
      if hk : 3 ≤ k then Hso3 ⟨R.val - 3, by omega⟩ ⟨3 * (blk - 3) + (k - 3), by have := C.isLt; omega⟩
      else nat 0))

def d2r_exp (a : Vec α 6) : Mat α 6 36 :=
  let Hso3 := memoM (SO3.d2r_exp (tw a))
  let QdQ := calculate_Q_dQ (vneg a)
  let dQ := memoM QdQ.2
  placeSO3 Hso3 (mneg dQ)

def d2r_expinv (a : Vec α 6) : Mat α 6 36 :=
  let Hso3 := memoM (SO3.d2r_expinv (tw a))
  let QdQ := calculate_Q_dQ (vneg a)
  let Q := memoM QdQ.1
  let dQ := memoM (.of (fun i j => QdQ.2 i j * (-(nat 1))))
  let Jso3 := memoM (SO3.dr_expinv (tw a))
  let Hexp : Mat α 3 (3 * 6) := memoM (.of (fun r c =>
    let k := c.val % 6
    let i := c.val / 6
    if hk : 3 ≤ k then Hso3 r ⟨3 * i + (k - 3), by have := c.isLt; omega⟩ else nat 0))
  let Jtmp := memoM (mmul Jso3 Q)
  let Htmp := memoM (Derivs.d_matrix_product (n := 3) (nvar := 6) Jso3 Hexp Q dQ)
  let low := memoM (Derivs.d_matrix_product (n := 3) (nvar := 6) Jtmp Htmp Jso3 Hexp)
  placeSO3 Hso3 (mneg low)

/-- se3.hpp `operator*(Vector3)`: `so3() * v + r3()` -/
def act (g : Vec α 7) (v : Vec α 3) : Vec α 3 := vadd (SO3.act (so3 g) v) (r3 g)

/-- se3.hpp `dr_action(v)`: `[R, −R·hat(v)]` -/
def dr_action (g : Vec α 7) (v : Vec α 3) : Mat α 3 6 :=
  let R := memoM (SO3.matrix (so3 g))
  let D := memoM (SO3.dr_action (so3 g) v)
  (.of (fun i j => if hj : j.val < 3 then R i ⟨j.val, hj⟩ else D i ⟨j.val - 3, by omega⟩))

end SE3
