/-
  CSplineJac.lean — spline/detail/cumulative_spline_impl.hpp: `cspline_eval_dg_dvs` (:77-153) and
  `cspline_eval_dg_dgs` (:170-226), transcribed loop by loop with all optional outputs.

  A `SplineJacobian<G, K−1>` (`dof × dof·K`) is kept as the list of its `K` square blocks
  (`middleCols<Dof>(i·Dof)`), in column order; `leftCols(n·Dof)` is the first `n` blocks.
  Compared with the implementation by harness/cspline.cpp (tie T1, ops cs_dg_dvs / cs_dg_dgs).
-/
import SmoothModel.Lin
import SmoothModel.Group
import SmoothModel.CSpline

open Scalar Lin
namespace CSpline
variable {α : Type} [Scalar α]

/-- loop state of `cspline_eval_dg_dvs` after `j` iterations: the first `j` blocks of the three
    Jacobians and the running `vel`, `acc` -/
structure JSt (α : Type) (G : LieModel α) where
  dg : List (Mat α G.dof G.dof)
  dvel : List (Mat α G.dof G.dof)
  dacc : List (Mat α G.dof G.dof)
  vel : Vec α G.dof
  acc : Vec α G.dof

variable (G : LieModel α)

/-- one iteration of the loop of `cspline_eval_dg_dvs` (lines 112-149) -/
def jstep (Bj dBj d2Bj : α) (vj : Vec α G.dof) (s : JSt α G) : JSt α G :=
  let d := G.dof
  let mBv := memoV (vsmul (-Bj) vj)                    -- `-Bj * vj`
  let Adj := memoM (G.Ad (memoV (G.exp mBv)))          -- Ad(exp(-Bj vj))
  let DrExp := memoM (G.dr_exp mBv)                    -- dr_exp(-Bj vj)
  let Z : Mat α d d := mzero d d
  let I : Mat α d d := ident d
  -- dg_dvs.leftCols((j-1)Dof).applyOnTheLeft(Adj); middle block += Bj * dr_exp(Bj vj)
  let dgNew := memoM (madd Z (msmul Bj (G.dr_exp (memoV (vsmul Bj vj)))))
  let dg' := s.dg.map (fun D => memoM (mmul Adj D)) ++ [dgNew]
  -- dvel_dvs: left blocks ← Adj·; middle += Bj*Adj*ad(vel)*DrExp; middle += dBj*I   (old `vel`)
  let BA := memoM (msmul Bj Adj)
  let T := memoM (mmul BA (G.ad s.vel))
  let dvelOld := s.dvel.map (fun D => memoM (mmul Adj D))
  let dvelNew := memoM (madd (madd Z (mmul T DrExp)) (msmul dBj I))
  let dvel' := dvelOld ++ [dvelNew]
  -- vel.applyOnTheLeft(Adj); vel += dBj * vj
  let v1 := mulVec Adj s.vel
  let vel' := memoV (.of (fun i => v1 i + dBj * vj i))
  -- dacc_dvs: left blocks ← Adj·; leftCols(j Dof) −= dBj*ad(vj)*dvel_dvs.leftCols(j Dof);
  --           middle += Bj*Adj*ad(acc)*DrExp (old `acc`); += dBj*ad(vel) (new `vel`); += d2Bj*I
  let P := memoM (msmul dBj (G.ad vj))
  let daccOld := List.zipWith (fun A V => memoM (msub A (mmul P V)))
                   (s.dacc.map (fun D => memoM (mmul Adj D))) dvelOld
  let T2 := memoM (mmul BA (G.ad s.acc))
  let adv := memoM (G.ad vel')
  let daccNew := memoM (madd (madd (madd (msub Z (mmul P dvelNew)) (mmul T2 DrExp)) (msmul dBj adv))
                   (msmul d2Bj I))
  let dacc' := daccOld ++ [daccNew]
  -- acc.applyOnTheLeft(Adj); acc += dBj * ad(vel) * vj + d2Bj * vj
  let a1 := mulVec Adj s.acc
  let t1 := mulVec (msmul dBj adv) vj
  let acc' := memoV (.of (fun i => a1 i + (t1 i + d2Bj * vj i)))
  ⟨dg', dvel', dacc', vel', acc'⟩

/-- `cspline_eval_dg_dvs<K>(vs, Bcum, u, dvel_dvs, dacc_dvs)`; the three outputs are the fields
    `dg`, `dvel`, `dacc` (each `K` blocks) -/
def eval_dg_dvs {K : Nat} (vs : Fin K → Vec α G.dof) (Bcum : Mat α (K + 1) (K + 1)) (u : α) : JSt α G :=
  let U0 := memoV (monomial_derivative K u 0)
  let U1 := memoV (monomial_derivative K u 1)
  let U2 := memoV (monomial_derivative K u 2)
  let init : JSt α G := ⟨[], [], [], vzero _, vzero _⟩
  (List.finRange K).foldl (fun s j =>
    let jj : Fin (K + 1) := ⟨j.val + 1, by omega⟩
    jstep G (bdot U0 Bcum jj) (bdot U1 Bcum jj) (bdot U2 Bcum jj) (vs j) s) init

/-- `DlExpinv = -ad(vj) + DrExpinv` ("cheaper formula", line 200) -/
def dlExpinvCheap (v : Vec α G.dof) : Mat α G.dof G.dof := madd (mneg (G.ad v)) (G.dr_expinv v)

/-- the loop of `cspline_eval_dg_dgs` on one Jacobian (lines 198-213): iteration `j` finishes
    block `j` (`−= D_j · DlExpinv(v_j)`) and starts block `j+1` (`+= D_j · DrExpinv(v_j)`);
    `cur` is block `j` as left by iteration `j−1`. -/
def chainAux : List (Mat α G.dof G.dof × Vec α G.dof) → Mat α G.dof G.dof → List (Mat α G.dof G.dof)
  | [], cur => [cur]
  | (D, v) :: rest, cur =>
    let Dr := memoM (G.dr_expinv v)
    let Dl := memoM (madd (mneg (G.ad v)) Dr)
    memoM (msub cur (mmul D Dl)) :: chainAux rest (memoM (madd (mzero _ _) (mmul D Dr)))

def chain (Ds : List (Mat α G.dof G.dof)) (vs : List (Vec α G.dof)) : List (Mat α G.dof G.dof) :=
  chainAux G (Ds.zip vs) (mzero _ _)

/-- `exp_series = ∏ exp(B̃_{1+j}(u) v_j)` of lines 215-216 -/
def expSeries {K : Nat} (vs : Fin K → Vec α G.dof) (Bcum : Mat α (K + 1) (K + 1)) (u : α) : Vec α G.rep :=
  let U0 := memoV (monomial_derivative K u 0)
  (List.finRange K).foldl (fun g j =>
    let jj : Fin (K + 1) := ⟨j.val + 1, by omega⟩
    memoV (G.composition g (memoV (G.exp (vsmul (bdot U0 Bcum jj) (vs j)))))) G.identity

/-- add `A` to the first block (`dg_dgs.leftCols<Dof>() += Ad(inverse(exp_series))`) -/
def addFirst (A : Mat α G.dof G.dof) : List (Mat α G.dof G.dof) → List (Mat α G.dof G.dof)
  | [] => []
  | B :: r => memoM (madd B A) :: r

/-- outputs of `cspline_eval_dg_dgs`: `K+1` blocks each -/
structure GJac (α : Type) (G : LieModel α) where
  dg : List (Mat α G.dof G.dof)
  dvel : List (Mat α G.dof G.dof)
  dacc : List (Mat α G.dof G.dof)

/-- `cspline_eval_dg_dgs<K>(gs, Bcum, u, dvel_dgs, dacc_dgs)` -/
def eval_dg_dgs {K : Nat} (gs : Fin (K + 1) → Vec α G.rep) (Bcum : Mat α (K + 1) (K + 1)) (u : α) : GJac α G :=
  let vs : Fin K → Vec α G.dof := diffs G gs
  let vsl : List (Vec α G.dof) := (List.finRange K).map (fun i => memoV (vs i))
  let vsm : Fin K → Vec α G.dof := fun i => vsl.getD i.val (vzero _)
  let J := eval_dg_dvs G vsm Bcum u
  let es := expSeries G vsm Bcum u
  let A := memoM (G.Ad (memoV (G.inverse es)))
  ⟨addFirst G A (chain G J.dg vsl), chain G J.dvel vsl, chain G J.dacc vsl⟩

/-- row-major flattening of the wide matrix whose column blocks are `bs` -/
def blocksToArray (d : Nat) (bs : List (Mat α d d)) : Array α := Id.run do
  let mut out : Array α := #[]
  for r in List.finRange d do
    for B in bs do
      for c in List.finRange d do
        out := out.push (B r c)
  return out

end CSpline
