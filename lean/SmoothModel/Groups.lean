/-
  Groups.lean — `LieModel` records for the concrete groups, and the group descriptor language
  used by the driver and the harness (`SO2 SO3 SE2 SE3 C1 GAL T<n> SEK<k> B[...]`).
-/
import SmoothModel.Group
import SmoothModel.SO2
import SmoothModel.SO3
import SmoothModel.SE2
import SmoothModel.SE3
import SmoothModel.C1
import SmoothModel.Tn
import SmoothModel.Galilei
import SmoothModel.SEK3
import SmoothModel.Bundle

open Scalar Lin
variable {α : Type} [Scalar α]

def SO2.model : LieModel α where
  rep := 2
  dof := 1
  dim := 2
  comm := true
  identity := SO2.identity
  matrix := SO2.matrix
  composition := SO2.composition
  inverse := SO2.inverse
  log := SO2.log
  exp := SO2.exp
  hat := SO2.hat
  vee := SO2.vee
  Ad := fun _ => ident 1
  ad := fun _ => mzero 1 1
  dr_exp := fun _ => ident 1
  dr_expinv := fun _ => ident 1
  d2r_exp := fun _ => mzero 1 1
  d2r_expinv := fun _ => mzero 1 1

def C1.model : LieModel α where
  rep := 2
  dof := 2
  dim := 2
  comm := true
  identity := C1.identity
  matrix := C1.matrix
  composition := C1.composition
  inverse := C1.inverse
  log := C1.log
  exp := C1.exp
  hat := C1.hat
  vee := C1.vee
  Ad := fun _ => ident 2
  ad := fun _ => mzero 2 2
  dr_exp := fun _ => ident 2
  dr_expinv := fun _ => ident 2
  d2r_exp := fun _ => mzero 2 4
  d2r_expinv := fun _ => mzero 2 4

def Tn.model (n : Nat) : LieModel α where
  rep := n
  dof := n
  dim := n + 1
  comm := true
  identity := Tn.identity n
  matrix := Tn.matrix
  composition := Tn.composition
  inverse := Tn.inverse
  log := Tn.log
  exp := Tn.exp
  hat := Tn.hat
  vee := Tn.vee
  Ad := fun _ => ident n
  ad := fun _ => mzero n n
  dr_exp := fun _ => ident n
  dr_expinv := fun _ => ident n
  d2r_exp := fun _ => mzero n (n * n)
  d2r_expinv := fun _ => mzero n (n * n)

def SO3.model : LieModel α where
  rep := 4
  dof := 3
  dim := 3
  comm := false
  identity := SO3.identity
  matrix := SO3.matrix
  composition := SO3.composition
  inverse := SO3.inverse
  log := SO3.log
  exp := SO3.exp
  hat := SO3.hat
  vee := SO3.vee
  Ad := SO3.Ad
  ad := SO3.ad
  dr_exp := SO3.dr_exp
  dr_expinv := SO3.dr_expinv
  d2r_exp := SO3.d2r_exp
  d2r_expinv := SO3.d2r_expinv

def SE2.model : LieModel α where
  rep := 4
  dof := 3
  dim := 3
  comm := false
  identity := SE2.identity
  matrix := SE2.matrix
  composition := SE2.composition
  inverse := SE2.inverse
  log := SE2.log
  exp := SE2.exp
  hat := SE2.hat
  vee := SE2.vee
  Ad := SE2.Ad
  ad := SE2.ad
  dr_exp := SE2.dr_exp
  dr_expinv := SE2.dr_expinv
  d2r_exp := SE2.d2r_exp
  d2r_expinv := SE2.d2r_expinv

def SE3.model : LieModel α where
  rep := 7
  dof := 6
  dim := 4
  comm := false
  identity := SE3.identity
  matrix := SE3.matrix
  composition := SE3.composition
  inverse := SE3.inverse
  log := SE3.log
  exp := SE3.exp
  hat := SE3.hat
  vee := SE3.vee
  Ad := SE3.Ad
  ad := SE3.ad
  dr_exp := SE3.dr_exp
  dr_expinv := SE3.dr_expinv
  d2r_exp := SE3.d2r_exp
  d2r_expinv := SE3.d2r_expinv

/-- Galilei: the C++ has no `d2r_exp`/`d2r_expinv` (the members do not compile); zero here and
    never exercised. -/
def Galilei.model : LieModel α where
  rep := 11
  dof := 10
  dim := 5
  comm := false
  identity := Galilei.identity
  matrix := Galilei.matrix
  composition := Galilei.composition
  inverse := Galilei.inverse
  log := Galilei.log
  exp := Galilei.exp
  hat := Galilei.hat
  vee := Galilei.vee
  Ad := Galilei.Ad
  ad := Galilei.ad
  dr_exp := Galilei.dr_exp
  dr_expinv := Galilei.dr_expinv
  d2r_exp := fun _ => mzero 10 100
  d2r_expinv := fun _ => mzero 10 100

def SEK3.model (k : Nat) : LieModel α where
  rep := 4 + 3 * k
  dof := 3 + 3 * k
  dim := 3 + k
  comm := false
  identity := SEK3.identity k
  matrix := SEK3.matrix k
  composition := SEK3.composition k
  inverse := SEK3.inverse k
  log := SEK3.log k
  exp := SEK3.exp k
  hat := SEK3.hat k
  vee := SEK3.vee k
  Ad := SEK3.Ad k
  ad := SEK3.ad k
  dr_exp := SEK3.dr_exp k
  dr_expinv := SEK3.dr_expinv k
  d2r_exp := fun _ => mzero _ _
  d2r_expinv := fun _ => mzero _ _

/-- group descriptors -/
inductive GDesc where
  | so2 | so3 | se2 | se3 | c1 | gal
  | tn (n : Nat)
  | sek3 (k : Nat)
  | bundle (ps : List GDesc)
  deriving Repr, Inhabited

mutual
  def GDesc.model : GDesc → LieModel α
    | .so2 => SO2.model
    | .so3 => SO3.model
    | .se2 => SE2.model
    | .se3 => SE3.model
    | .c1 => C1.model
    | .gal => Galilei.model
    | .tn n => Tn.model n
    | .sek3 k => SEK3.model k
    | .bundle ps => Bundle.bundle (GDesc.models ps)
  def GDesc.models : List GDesc → List (LieModel α)
    | [] => []
    | p :: ps => GDesc.model p :: GDesc.models ps
end

namespace GDesc

/-- recursive-descent parser for `SO3`, `T4`, `SEK2`, `B[SO3,T2,B[SE2,C1]]` -/
partial def parseAux (cs : List Char) : Option (GDesc × List Char) :=
  let takeNat (cs : List Char) : Nat × List Char :=
    let ds := cs.takeWhile Char.isDigit
    (ds.foldl (fun a c => 10 * a + (c.toNat - '0'.toNat)) 0, cs.dropWhile Char.isDigit)
  match cs with
  | 'B' :: '[' :: rest =>
    let rec items (cs : List Char) (acc : List GDesc) : Option (List GDesc × List Char) :=
      match cs with
      | ']' :: r => some (acc.reverse, r)
      | _ =>
        match parseAux cs with
        | some (d, ',' :: r) => items r (d :: acc)
        | some (d, ']' :: r) => some ((d :: acc).reverse, r)
        | _ => none
    match items rest [] with
    | some (ps, r) => some (.bundle ps, r)
    | none => none
  | 'S' :: 'O' :: '2' :: r => some (.so2, r)
  | 'S' :: 'O' :: '3' :: r => some (.so3, r)
  | 'S' :: 'E' :: '2' :: r => some (.se2, r)
  | 'S' :: 'E' :: '3' :: r => some (.se3, r)
  | 'S' :: 'E' :: 'K' :: r => let (n, r') := takeNat r; some (.sek3 n, r')
  | 'C' :: '1' :: r => some (.c1, r)
  | 'G' :: 'A' :: 'L' :: r => some (.gal, r)
  | 'T' :: r => let (n, r') := takeNat r; some (.tn n, r')
  | _ => none

def parse (s : String) : Option GDesc :=
  match parseAux s.toList with
  | some (d, []) => some d
  | _ => none

end GDesc
