/-
  Sparse.lean — model of lie_sparse.hpp / detail/lie_group_sparse_impl.hpp (property C19).

  * `SpMat α`: a column-major sparse matrix `(rows, cols, entries, compressed)`; `entries` is the
    stored pattern with its values, sorted column-major (the order of Eigen's outer/inner iteration);
    `pattern = entries.map fst`, `vals = entries.map snd`.
  * `coeffRef r c := v` overwrites an existing entry; on a MISSING entry it inserts (Eigen 3.4
    `SparseMatrix::coeffRef → insert`), which changes the structure and leaves the matrix
    uncompressed — the theorems of C19 expose that failure mode instead of hiding it.
  * published patterns as decidable predicates `inAd / inD / inD2 : GDesc → Nat → Nat → Bool`
    (hand-written SE2/SE3 tables of lie_group_sparse_impl.hpp:113-178, identity / empty for
    commutative groups, dense fallback otherwise, Bundles composed part by part) and as
    column-major lists (`adPattern dPattern d2Pattern`) — the latter are compared with the patterns
    dumped from the running code (Gen/SparsePatterns.lean).
  * the routines as lists of `coeffRef` calls in the order the C++ issues them (`dWrites`,
    `d2Writes`): dispatch `IsCommutative` / Bundle specialisation / dense fallback over the
    published pattern; index shifts `row = i0 + r`, `col = i0 + c` and, for Hessians,
    `col = sp.rows()·(i0 + c / Dof) + i0 + c % Dof` (lie_group_sparse_impl.hpp:89-97);
    `adSparse` = `coeffs().setZero(); sp += a(k)·generator_k` (k = 0..Dof-1).
  Dense values come from the `LieModel` of the descriptor.
-/
import SmoothModel.Groups
import SmoothModel.Mem

open Scalar Lin

namespace Sparse

open Mem (repSize dofSize dofSizeL isComm isCommL)

abbrev Key := Nat × Nat   -- (row, col)

/-- column-major order of Eigen's iteration -/
def keyLt (a b : Key) : Bool := a.2 < b.2 || (a.2 == b.2 && a.1 < b.1)

structure SpMat (α : Type) where
  rows : Nat
  cols : Nat
  entries : List (Key × α)
  compressed : Bool

namespace SpMat
variable {α : Type}

def pattern (m : SpMat α) : List Key := m.entries.map Prod.fst
def vals (m : SpMat α) : List α := m.entries.map Prod.snd
def nonZeros (m : SpMat α) : Nat := m.entries.length

def hasKey (k : Key) : List (Key × α) → Bool
  | [] => false
  | e :: es => e.1 == k || hasKey k es

def setEntry (k : Key) (v : α) : List (Key × α) → List (Key × α)
  | [] => []
  | e :: es => if e.1 == k then (k, v) :: es else e :: setEntry k v es

def insertSorted (k : Key) (v : α) : List (Key × α) → List (Key × α)
  | [] => [(k, v)]
  | e :: es => if keyLt k e.1 then (k, v) :: e :: es else e :: insertSorted k v es

/-- value stored at `k` (none: not in the pattern) -/
def find? (k : Key) : List (Key × α) → Option α
  | [] => none
  | e :: es => if e.1 == k then some e.2 else find? k es

def get? (m : SpMat α) (r c : Nat) : Option α := find? (r, c) m.entries

/-- `sp.coeffRef(r, c) = v` -/
def coeffRef (m : SpMat α) (r c : Nat) (v : α) : SpMat α :=
  if hasKey (r, c) m.entries then { m with entries := setEntry (r, c) v m.entries }
  else { m with entries := insertSorted (r, c) v m.entries, compressed := false }

/-- a sequence of `coeffRef` assignments -/
def blockWrite (m : SpMat α) (ws : List (Nat × Nat × α)) : SpMat α :=
  ws.foldl (fun m w => m.coeffRef w.1 w.2.1 w.2.2) m

end SpMat

/-! ### published patterns as predicates -/

mutual
  /-- `ad_sparse_pattern<G>`: union of the supports of `ad(e_k)` -/
  def inAd : GDesc → Nat → Nat → Bool
    | .so2, _, _ => false
    | .c1, _, _ => false
    | .tn _, _, _ => false
    | .so3, r, c => r != c
    | .se2, r, c => r < 2 && r != c
    | .se3, r, c => (r < 3 || 3 ≤ c) && r % 3 != c % 3
    | .gal, r, c =>
      if r < 3 then (if c < 3 then r != c else 7 ≤ c && r != c - 7)   -- W | hat b
      else if r < 6 then
        if c < 3 then r - 3 == c                               -- −s·I
        else if c < 6 then r != c                              -- W
        else if c == 6 then true                               -- b
        else r - 3 != c - 7                                    -- hat q
      else if r == 6 then false
      else 7 ≤ c && r != c
    | .sek3 k, r, c => (r / 3 == c / 3 || c / 3 == k) && r % 3 != c % 3
    | .bundle ps, r, c => inAdL ps r c
  def inAdL : List GDesc → Nat → Nat → Bool
    | [], _, _ => false
    | p :: ps, r, c =>
      if r < dofSize p then c < dofSize p && inAd p r c
      else dofSize p ≤ c && inAdL ps (r - dofSize p) (c - dofSize p)
end

mutual
  /-- `d_exp_sparse_pattern<G>` -/
  def inD : GDesc → Nat → Nat → Bool
    | .so2, r, c => r == c
    | .c1, r, c => r == c
    | .tn _, r, c => r == c
    | .so3, _, _ => true
    | .se2, r, c => r < 2 || c == 2
    | .se3, r, c => r < 3 || 3 ≤ c
    | .gal, _, _ => true
    | .sek3 _, _, _ => true
    | .bundle ps, r, c => inDL ps r c
  def inDL : List GDesc → Nat → Nat → Bool
    | [], _, _ => false
    | p :: ps, r, c =>
      if r < dofSize p then c < dofSize p && inD p r c
      else dofSize p ≤ c && inDL ps (r - dofSize p) (c - dofSize p)
end

mutual
  /-- `d2_exp_sparse_pattern<G>` (`Dof × Dof²`, horizontally stacked) -/
  def inD2 : GDesc → Nat → Nat → Bool
    | .so2, _, _ => false
    | .c1, _, _ => false
    | .tn _, _, _ => false
    | .so3, _, _ => true
    | .se2, r, c => c == 2 || c == 5 || (r == 2 && c < 6)
    | .se3, r, c => (3 ≤ r && c < 18) || (r < 3 && c < 18 && 3 ≤ c % 6) || (3 ≤ r && 18 ≤ c && 3 ≤ c % 6)
    | .gal, _, _ => true
    | .sek3 _, _, _ => true
    | .bundle ps, r, c => inD2L ps r c
  /-- Bundle: part Hessian `(r', d·j + k)` sits at `(off + r', D·(off + j) + off + k)`;
      written along the nested `prod` structure of `Bundle.bundle` -/
  def inD2L : List GDesc → Nat → Nat → Bool
    | [], _, _ => false
    | p :: ps, r, c =>
      let d := dofSize p
      let D := d + dofSizeL ps
      let J := c / D
      let K := c % D
      if r < d then J < d && K < d && inD2 p r (J * d + K)
      else d ≤ J && d ≤ K && inD2L ps (r - d) ((J - d) * (D - d) + (K - d))
end

/-- all `(r, c)` with `r < rows`, `c < cols` satisfying `p`, column-major -/
def gridFilter (rows cols : Nat) (p : Nat → Nat → Bool) : List Key :=
  (List.range cols).flatMap (fun c => (List.range rows).filterMap (fun r => if p r c then some (r, c) else none))

def adPattern (d : GDesc) : List Key := gridFilter (dofSize d) (dofSize d) (inAd d)
def dPattern (d : GDesc) : List Key := gridFilter (dofSize d) (dofSize d) (inD d)
def d2Pattern (d : GDesc) : List Key := gridFilter (dofSize d) (dofSize d * dofSize d) (inD2 d)

/-! ### the routines -/

section routines
variable {α : Type} [Scalar α]

/-- entry of a dense matrix with natural-number indices (0 outside) -/
def getN {n m : Nat} (M : Mat α n m) (r c : Nat) : α :=
  if h : r < n ∧ c < m then M ⟨r, h.1⟩ ⟨c, h.2⟩ else nat 0

/-- identity writes of the `IsCommutative` branch: `sp.coeffRef(i0+i, i0+i) = 1` -/
def identWrites (n i0 : Nat) : List (Nat × Nat × α) :=
  (List.range n).map (fun i => (i0 + i, i0 + i, nat 1))

/-- dense-fallback branch: `for (r,c) in pattern: sp.coeffRef(i0+r, i0+c) = D(r,c)` -/
def denseWrites (d : GDesc) (inv : Bool) (a : Array α) (ao i0 : Nat) : List (Nat × Nat × α) :=
  let G : LieModel α := GDesc.model d
  let v : Vec α G.dof := memoV (ofArray G.dof a ao)
  let D := memoM (if inv then G.dr_expinv v else G.dr_exp v)
  (dPattern d).map (fun k => (i0 + k.1, i0 + k.2, getN D k.1 k.2))

mutual
  /-- `dr_exp_sparse<G, Inv>(sp, a.segment(ao, Dof), i0)` as its sequence of `coeffRef` calls -/
  def dWrites (inv : Bool) : GDesc → Array α → Nat → Nat → List (Nat × Nat × α)
    | .bundle ps, a, ao, i0 =>
      if isCommL ps then identWrites (dofSizeL ps) i0 else dWritesL inv ps a ao i0
    | .so2, _, _, i0 => identWrites 1 i0
    | .c1, _, _, i0 => identWrites 2 i0
    | .tn n, _, _, i0 => identWrites n i0
    | .so3, a, ao, i0 => denseWrites .so3 inv a ao i0
    | .se2, a, ao, i0 => denseWrites .se2 inv a ao i0
    | .se3, a, ao, i0 => denseWrites .se3 inv a ao i0
    | .gal, a, ao, i0 => denseWrites .gal inv a ao i0
    | .sek3 k, a, ao, i0 => denseWrites (.sek3 k) inv a ao i0
  def dWritesL (inv : Bool) : List GDesc → Array α → Nat → Nat → List (Nat × Nat × α)
    | [], _, _, _ => []
    | p :: ps, a, ao, i0 =>
      dWrites inv p a ao i0 ++ dWritesL inv ps a (ao + dofSize p) (i0 + dofSize p)
end

/-- dense-fallback branch of `d2r_exp_sparse`; `rows = sp.rows()` -/
def denseWrites2 (d : GDesc) (inv : Bool) (rows : Nat) (a : Array α) (ao i0 : Nat) : List (Nat × Nat × α) :=
  let G : LieModel α := GDesc.model d
  let v : Vec α G.dof := memoV (ofArray G.dof a ao)
  let H := memoM (if inv then G.d2r_expinv v else G.d2r_exp v)
  let n := dofSize d
  (d2Pattern d).map (fun k => (i0 + k.1, rows * (i0 + k.2 / n) + (i0 + k.2 % n), getN H k.1 k.2))

mutual
  def d2Writes (inv : Bool) (rows : Nat) : GDesc → Array α → Nat → Nat → List (Nat × Nat × α)
    | .bundle ps, a, ao, i0 => if isCommL ps then [] else d2WritesL inv rows ps a ao i0
    | .so2, _, _, _ => []
    | .c1, _, _, _ => []
    | .tn _, _, _, _ => []
    | .so3, a, ao, i0 => denseWrites2 .so3 inv rows a ao i0
    | .se2, a, ao, i0 => denseWrites2 .se2 inv rows a ao i0
    | .se3, a, ao, i0 => denseWrites2 .se3 inv rows a ao i0
    | .gal, a, ao, i0 => denseWrites2 .gal inv rows a ao i0
    | .sek3 k, a, ao, i0 => denseWrites2 (.sek3 k) inv rows a ao i0
  def d2WritesL (inv : Bool) (rows : Nat) : List GDesc → Array α → Nat → Nat → List (Nat × Nat × α)
    | [], _, _, _ => []
    | p :: ps, a, ao, i0 =>
      d2Writes inv rows p a ao i0 ++ d2WritesL inv rows ps a (ao + dofSize p) (i0 + dofSize p)
end

/-- `dr_exp_sparse<G>(sp, a, i0)` / `dr_expinv_sparse` -/
def drExpSparse (d : GDesc) (inv : Bool) (m : SpMat α) (a : Array α) (i0 : Nat) : SpMat α :=
  m.blockWrite (dWrites inv d a 0 i0)

/-- `d2r_exp_sparse<G>(sp, a, i0)` / `d2r_expinv_sparse` -/
def d2rExpSparse (d : GDesc) (inv : Bool) (m : SpMat α) (a : Array α) (i0 : Nat) : SpMat α :=
  m.blockWrite (d2Writes inv m.rows d a 0 i0)

/-- the same block write with the dense matrix supplied by the caller (used by the tie: the
    implementation's own dense result is fed in, so that the comparison is bit-exact) -/
def patternWrites (pat : List Key) (Dof rows : Nat) (hess : Bool) (i0 : Nat) (dense : Nat → Nat → α) :
    List (Nat × Nat × α) :=
  pat.map (fun k =>
    if hess then (i0 + k.1, rows * (i0 + k.2 / Dof) + (i0 + k.2 % Dof), dense k.1 k.2)
    else (i0 + k.1, i0 + k.2, dense k.1 k.2))

/-! #### ad_sparse -/

def nonzero (x : α) : Bool := decide (x < nat 0) || decide (nat 0 < x)

/-- `generators_sparse<G>[k] = ad(e_k).sparseView()`, column-major -/
def generator (d : GDesc) (k : Nat) : List (Key × α) :=
  let G : LieModel α := GDesc.model d
  let M := memoM (G.ad (.of (fun i => if i.val = k then nat 1 else nat 0)))
  let n := dofSize d
  (List.range n).flatMap (fun c => (List.range n).filterMap (fun r =>
    let x := getN M r c
    if nonzero x then some ((r, c), x) else none))

/-- Eigen's sparse `lhs + s·rhs` (union of the two patterns): both `l + s·r`, lhs only `l + 0`,
    rhs only `0 + s·r` -/
def mergeAdd (s : α) : List (Key × α) → List (Key × α) → List (Key × α)
  | [], [] => []
  | l :: ls, [] => (l.1, l.2 + nat 0) :: mergeAdd s ls []
  | [], r :: rs => (r.1, nat 0 + s * r.2) :: mergeAdd s [] rs
  | l :: ls, r :: rs =>
    if l.1 == r.1 then (l.1, l.2 + s * r.2) :: mergeAdd s ls rs
    else if keyLt l.1 r.1 then (l.1, l.2 + nat 0) :: mergeAdd s ls (r :: rs)
    else (r.1, nat 0 + s * r.2) :: mergeAdd s (l :: ls) rs
termination_by l r => l.length + r.length

/-- `ad_sparse<G>(sp, a)`: `sp.coeffs().setZero(); for k: sp += a(k) * generators_sparse<G>[k]`.
    `none` when the dimensions differ from `Dof × Dof` (Eigen asserts). -/
def adSparse (d : GDesc) (m : SpMat α) (a : Array α) : Option (SpMat α) :=
  let n := dofSize d
  if m.rows ≠ n ∨ m.cols ≠ n then none
  else
    let z := m.entries.map (fun e => (e.1, (nat 0 : α)))
    let es := (List.range n).foldl (fun es k =>
      mergeAdd (a.getD k (nat 0)) es (generator d k)) z
    some { m with entries := es, compressed := true }

end routines

end Sparse
