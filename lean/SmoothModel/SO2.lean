/-
  SO2.lean — detail/so2.hpp (SO2Impl) and the public extras of so2.hpp.
  Layout: group (qz, qw); tangent (Ωz).
-/
import SmoothModel.Lin

open Scalar Lin
namespace SO2
variable {α : Type} [Scalar α]

def identity : Vec α 2 := mk2 (nat 0) (nat 1)

def matrix (g : Vec α 2) : Mat α 2 2 := mat2 (g 1) (-(g 0)) (g 0) (g 1)

def composition (a b : Vec α 2) : Vec α 2 :=
  mk2 (a 0 * b 1 + a 1 * b 0) (a 1 * b 1 - a 0 * b 0)

def inverse (g : Vec α 2) : Vec α 2 := mk2 (-(g 0)) (g 1)

def log (g : Vec α 2) : Vec α 1 := mk1 (Scalar.atan2 (g 0) (g 1))

def exp (a : Vec α 1) : Vec α 2 := mk2 (Scalar.sin (a 0)) (Scalar.cos (a 0))

def hat (a : Vec α 1) : Mat α 2 2 := mat2 (nat 0) (-(a 0)) (a 0) (nat 0)

def vee (A : Mat α 2 2) : Vec α 1 := mk1 ((A 1 0 - A 0 1) / nat 2)

/-- so2.hpp `operator*(Vector2)`: `matrix() * x` -/
def act (g : Vec α 2) (x : Vec α 2) : Vec α 2 := mulVec (matrix g) x

end SO2
