/-
  SE2.lean — detail/se2.hpp (SE2Impl) and public extras of se2.hpp.
  Layout: group (x y qz qw); tangent (vx vy Ωz).
-/
import SmoothModel.Lin
import SmoothModel.Trig
import SmoothModel.SO2

open Scalar Lin
namespace SE2
variable {α : Type} [Scalar α]

def so2 (g : Vec α 4) : Vec α 2 := mk2 (g 2) (g 3)
def r2 (g : Vec α 4) : Vec α 2 := mk2 (g 0) (g 1)

def identity : Vec α 4 := mk4 (nat 0) (nat 0) (nat 0) (nat 1)

def matrix (g : Vec α 4) : Mat α 3 3 :=
  let R := SO2.matrix (so2 g)
  mat3 (R 0 0) (R 0 1) (g 0) (R 1 0) (R 1 1) (g 1) (nat 0) (nat 0) (nat 1)

def composition (a b : Vec α 4) : Vec α 4 :=
  let q := SO2.composition (so2 a) (so2 b)
  let R1 := SO2.matrix (so2 a)
  let t := vadd (mulVec R1 (r2 b)) (r2 a)
  mk4 (t 0) (t 1) (q 0) (q 1)

def inverse (g : Vec α 4) : Vec α 4 :=
  let qi := SO2.inverse (so2 g)
  let Rinv := SO2.matrix qi
  let t := mulVec (mneg Rinv) (r2 g)
  mk4 (t 0) (t 1) (qi 0) (qi 1)

def logA (th2 B : α) : α :=
  if th2 < Scalar.eps2 then nat 1 - th2 / nat 12 else B / Scalar.tan B

def log (g : Vec α 4) : Vec α 3 :=
  let th := (SO2.log (so2 g)) 0
  let th2 := th * th
  let B := th / nat 2
  let A := logA th2 B
  let Sinv := mat2 A B (-B) A
  let t := mulVec Sinv (r2 g)
  mk3 (t 0) (t 1) th

def Ad (g : Vec α 4) : Mat α 3 3 :=
  let R := SO2.matrix (so2 g)
  mat3 (R 0 0) (R 0 1) (g 1) (R 1 0) (R 1 1) (-(g 0)) (nat 0) (nat 0) (nat 1)

def expAB (th th2 : α) : α × α :=
  if th2 < Scalar.eps2 then
    (nat 1 - th2 / nat 6, -th / nat 2 + th * th2 / nat 24)
  else
    (Scalar.sin th / th, (Scalar.cos th - nat 1) / th)

def exp (a : Vec α 3) : Vec α 4 :=
  let th := a 2
  let th2 := th * th
  let AB := expAB th th2
  let S := mat2 AB.1 AB.2 (-AB.2) AB.1
  let t := mulVec S (mk2 (a 0) (a 1))
  let q := SO2.exp (mk1 th)
  mk4 (t 0) (t 1) (q 0) (q 1)

def hat (a : Vec α 3) : Mat α 3 3 :=
  mat3 (nat 0) (-(a 2)) (a 0) (a 2) (nat 0) (a 1) (nat 0) (nat 0) (nat 0)

def vee (A : Mat α 3 3) : Vec α 3 :=
  mk3 (A 0 2) (A 1 2) ((A 1 0 - A 0 1) / nat 2)

def ad (a : Vec α 3) : Mat α 3 3 :=
  mat3 (nat 0) (-(a 2)) (a 1) (a 2) (nat 0) (-(a 0)) (nat 0) (nat 0) (nat 0)

/-- `I + cos_2·ad − sin_3·ad·ad`; the last term is `(sin_3·ad)·ad` as the C++ parses it -/
def dr_exp (a : Vec α 3) : Mat α 3 3 :=
  let th2 := a 2 * a 2
  let ad_a := ad a
  let c2 := Trig.cos_2 th2
  let s3 := Trig.sin_3 th2
  let sad2 := memoM (mmul (msmul s3 ad_a) ad_a)
  (.of (fun i j => (ident 3 i j + c2 * ad_a i j) - sad2 i j))

def drExpinvA (th th2 : α) : α :=
  if th2 < Scalar.eps2 then nat 1 / nat 12 + th2 / nat 720
  else (nat 1 / th2) - (nat 1 + Scalar.cos th) / (nat 2 * th * Scalar.sin th)

def dr_expinv (a : Vec α 3) : Mat α 3 3 :=
  let th := a 2
  let th2 := th * th
  let A := drExpinvA th th2
  let ad_a := ad a
  let Aad2 := memoM (mmul (msmul A ad_a) ad_a)
  (.of (fun i j => (ident 3 i j + ad_a i j / nat 2) + Aad2 i j))

/-- `(A, B, dA_dwz, dB_dwz)` of `d2r_exp` -/
def d2rExpCoef (wz : α) : α × α × α × α :=
  let wz2 := wz * wz
  if wz2 < Scalar.eps2 then
    (nat 1 / nat 2 - wz2 / nat 24, nat 1 / nat 6 - wz2 / nat 120, -wz / nat 12, -wz / nat 60)
  else
    let sTh := Scalar.sin wz
    let cTh := Scalar.cos wz
    let wz3 := wz2 * wz
    let wz4 := wz2 * wz2
    ((nat 1 - cTh) / wz2, (wz - sTh) / wz3,
      sTh / wz2 + nat 2 * cTh / wz3 - nat 2 / wz3,
      -cTh / wz3 - nat 2 / wz3 + nat 3 * sTh / wz4)

def mk9 (a0 a1 a2 a3 a4 a5 a6 a7 a8 : α) : Vec α 9 := (.of (fun i =>
  match i with
  | 0 => a0 | 1 => a1 | 2 => a2 | 3 => a3 | 4 => a4 | 5 => a5 | 6 => a6 | 7 => a7 | 8 => a8))
def tab39 (r0 r1 r2 : Vec α 9) : Mat α 3 9 := (.of (fun i => match i with | 0 => r0 | 1 => r1 | 2 => r2))

def d2r_exp (a : Vec α 3) : Mat α 3 9 :=
  let co := d2rExpCoef (a 2)
  let A := co.1; let B := co.2.1; let dA := co.2.2.1; let dB := co.2.2.2
  let x := a 0; let y := a 1; let z := a 2
  let o : α := nat 0
  let H0 : Mat α 3 9 := tab39
    (mk9 o o (-(nat 2) * B * z) o o (-A) o o o)
    (mk9 o o A o o (-(nat 2) * B * z) o o o)
    (mk9 (B * z) (-A) (B * x) A (B * z) (B * y) o o o)
  let ad_a := ad a
  let ad_a2 := memoM (mmul ad_a ad_a)
  (.of (fun r c =>
    if c.val % 3 = 2 then
      let j : Fin 3 := ⟨c.val / 3, by have := c.isLt; omega⟩
      (H0 r c - dA * ad_a j r) + dB * ad_a2 j r
    else H0 r c))

def d2rExpinvCoef (wz : α) : α × α :=
  let wz2 := wz * wz
  if wz2 < Scalar.eps2 then
    (nat 1 / nat 12 + wz2 / nat 720, nat 1 / nat 360)
  else
    let sTh := Scalar.sin wz
    let cTh := Scalar.cos wz
    let wz3 := wz2 * wz
    (nat 1 / wz2 - (nat 1 + cTh) / (nat 2 * wz * sTh),
      nat 1 / (nat 2 * wz) + cTh * cTh / (nat 2 * wz * sTh * sTh) + cTh / (nat 2 * wz * sTh * sTh)
        + cTh / (nat 2 * wz2 * sTh) + nat 1 / (nat 2 * wz2 * sTh) - nat 2 / wz3)

def d2r_expinv (a : Vec α 3) : Mat α 3 9 :=
  let co := d2rExpinvCoef (a 2)
  let A := co.1; let dA := co.2
  let x := a 0; let y := a 1; let z := a 2
  let o : α := nat 0
  let h : α := nat 1 / nat 2
  let H0 : Mat α 3 9 := tab39
    (mk9 o o (-(nat 2) * A * z) o o h o o o)
    (mk9 o o (-h) o o (-(nat 2) * A * z) o o o)
    (mk9 (A * z) h (A * x) (-h) (A * z) (A * y) o o o)
  let ad_a := ad a
  let ad_a2 := memoM (mmul ad_a ad_a)
  (.of (fun r c =>
    if c.val % 3 = 2 then
      let j : Fin 3 := ⟨c.val / 3, by have := c.isLt; omega⟩
      H0 r c + dA * ad_a2 j r
    else H0 r c))

/-- se2.hpp `operator*(Vector2)`: `so2() * v + r2()` -/
def act (g : Vec α 4) (v : Vec α 2) : Vec α 2 := vadd (SO2.act (so2 g) v) (r2 g)

end SE2
