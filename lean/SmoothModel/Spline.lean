/-
  Spline.lean — spline/spline.hpp + spline/detail/spline_impl.hpp: the `Spline<K,G>` segment state
  machine (C12).  `crop` exists twice: `cropIdx` (literal index transcription) and `crop` (the same
  arithmetic by list recursion, the object of the theorems); the driver checks them against each other.

  A spline is `{g0, segs}`; `segs` zips the five parallel vectors `m_end_t m_end_g m_Vs m_seg_T0
  m_seg_Del` (spline.hpp:260-273).  Everything is written once over

    * a time type `τ` with `[TimeOps τ]` (`+ - * /`, `<`, `≤`, constants 0 1 3) — `Float` in the
      driver, any linearly ordered field in the theorems (SmoothProofs/C12Base.lean);
    * a kernel `Ker τ G W`: the group operations on `G`, tangent operations on `W`, and the segment
      curve `cev V u = (c_V(u), c_V'(u), c_V''(u))` — `CSpline.eval_vs` with the cumulative
      Bernstein basis in the driver (`kerOf`), an ABSTRACT function in the theorems.

  No Mathlib import: this file links into `smoothdrv`.
-/
import SmoothModel.Lin
import SmoothModel.Group
import SmoothModel.CSpline
import SmoothModel.Poly

namespace SplineSM

/-- what `spline_impl.hpp` needs from `double` -/
class TimeOps (τ : Type) extends Add τ, Sub τ, Mul τ, Div τ, LT τ, LE τ where
  zero : τ
  one : τ
  /-- `double(n)` for an integer constant / template parameter -/
  ofNat : Nat → τ
  decLt : ∀ a b : τ, Decidable (a < b)
  decLe : ∀ a b : τ, Decidable (a ≤ b)

namespace TimeOps
variable {τ : Type} [TimeOps τ]
instance (a b : τ) : Decidable (a < b) := TimeOps.decLt a b
instance (a b : τ) : Decidable (a ≤ b) := TimeOps.decLe a b
/-- `std::max<double>(a, b)` = `(a < b) ? b : a` -/
def tmax (a b : τ) : τ := if a < b then b else a
/-- `std::min<double>(a, b)` = `(b < a) ? b : a` -/
def tmin (a b : τ) : τ := if b < a then b else a
/-- `std::clamp(x, 0., 1.)` = `(x < 0) ? 0 : (1 < x) ? 1 : x` (a NaN passes through) -/
def clamp01 (x : τ) : τ := if x < zero then zero else if one < x then one else x
/-- `a == b` on doubles (false on NaN) -/
def teq (a b : τ) : Bool := decide (a ≤ b) && decide (b ≤ a)
end TimeOps

open TimeOps

instance timeOpsOfScalar {α : Type} [Scalar α] : TimeOps α where
  zero := Scalar.nat 0
  one := Scalar.nat 1
  ofNat := fun n => Scalar.nat n
  decLt := Scalar.decLt
  decLe := Scalar.decLe

/-- group / tangent / segment-curve operations the spline code uses -/
structure Ker (τ G W : Type) where
  /-- spline degree (number of control velocities per segment) -/
  K : Nat
  one : G
  mul : G → G → G
  inv : G → G
  exp : W → G
  log : G → W
  wzero : W
  wneg : W → W
  wadd : W → W → W
  /-- `s * v` (Eigen scalar·vector) -/
  wsmul : τ → W → W
  /-- `v / s` (Eigen vector/scalar) -/
  wdivs : W → τ → W
  /-- `cspline_eval_vs<K,G>(V.colwise(), kMappedBasisFunction<K>, u, vel, acc)` -/
  cev : List W → τ → G × W × W
  /-- one term of `arclength`: per component `integrate_absolute_polynomial(ua, ub, 3a₃, 2a₂, a₁)`
      (`Poly.integrateAbs`, the model of the C20 unit) of the monomial coefficients `Bcum.rightCols(K) · Vᵀ` -/
  absint : List W → τ → τ → W

structure Seg (τ G W : Type) where
  tEnd : τ
  gEnd : G
  V : List W
  T0 : τ
  Del : τ

structure Spline (τ G W : Type) where
  g0 : G
  segs : List (Seg τ G W)

variable {τ G W : Type} [TimeOps τ] (C : Ker τ G W)

/-- segment curve value `c_V(u)` -/
def Ker.c (V : List W) (u : τ) : G := (C.cev V u).1

/-! ### list helpers -/
def modLast {α : Type} (f : α → α) : List α → List α
  | [] => []
  | [a] => [f a]
  | a :: b :: r => a :: modLast f (b :: r)

def modAt {α : Type} (f : α → α) : Nat → List α → List α
  | _, [] => []
  | 0, a :: r => f a :: r
  | n + 1, a :: r => a :: modAt f n r

/-! ### constructors -/

/-- `Spline(const G & ga)` -/
def empty (ga : G) : Spline τ G W := ⟨ga, []⟩

/-- `Spline(double T, Matrix && V, G && ga)` and the `MatrixBase` overload -/
def ctor (T : τ) (V : List W) (ga : G) : Spline τ G W :=
  ⟨ga, [⟨T, C.mul ga (C.c V one), V, zero, one⟩]⟩

/-- `Spline(double T, const Rv & vs, const G & ga)` (range of tangents): same state -/
def ctorVs (T : τ) (vs : List W) (ga : G) : Spline τ G W := ctor C T vs ga

/-- `ConstantVelocity(v, T, ga)`: `V = (T / K) * v.replicate(1, K)`;
    `T ≤ 0` returns `Spline()` (start at the IDENTITY, not at `ga`). -/
def constantVelocity (v : W) (T : τ) (ga : G) : Spline τ G W :=
  if T ≤ zero then empty C.one
  else ctor C T (List.replicate C.K (C.wsmul (T / ofNat C.K) v)) ga

/-- `ConstantVelocityGoal(gb, T, ga) = ConstantVelocity((gb - ga) / T, T, ga)` -/
def constantVelocityGoal (gb : G) (T : τ) (ga : G) : Spline τ G W :=
  constantVelocity C (C.wdivs (C.log (C.mul (C.inv ga) gb)) T) T ga

/-- `FixedCubic(gb, va, vb, T, ga)` (K = 3) -/
def fixedCubic (gb : G) (va vb : W) (T : τ) (ga : G) : Spline τ G W :=
  let V0 := C.wdivs (C.wsmul T va) (ofNat 3)
  let V2 := C.wdivs (C.wsmul T vb) (ofNat 3)
  let V1 := C.log (C.mul (C.mul (C.exp (C.wneg V0)) (C.mul (C.inv ga) gb)) (C.exp (C.wneg V2)))
  ctor C T [V0, V1, V2] ga

/-! ### accessors -/
def size (s : Spline τ G W) : Nat := s.segs.length

/-- `t_max()` -/
def tMax (s : Spline τ G W) : τ :=
  match s.segs.getLast? with
  | none => zero
  | some sg => sg.tEnd

def start (s : Spline τ G W) : G := s.g0

/-- `end()` -/
def endG (s : Spline τ G W) : G :=
  match s.segs.getLast? with
  | none => s.g0
  | some sg => sg.gEnd

/-- `make_local()`: ONLY `m_g0 = Identity` (the stored `m_end_g` are not moved) -/
def makeLocal (s : Spline τ G W) : Spline τ G W := ⟨C.one, s.segs⟩

/-! ### concatenation -/

/-- `concat_global(other)` -/
def concatGlobal (s o : Spline τ G W) : Spline τ G W :=
  let tend := tMax s
  let head : Spline τ G W :=
    match s.segs with
    | [] => ⟨o.g0, []⟩
    | _ => ⟨s.g0, modLast (fun sg => { sg with gEnd := o.g0 }) s.segs⟩
  ⟨head.g0, head.segs ++ o.segs.map (fun sg => { sg with tEnd := tend + sg.tEnd })⟩

/-- `concat_local(other)` / `operator+=` -/
def concatLocal (s o : Spline τ G W) : Spline τ G W :=
  let tend := tMax s
  let gend := endG s
  let head : Spline τ G W :=
    match s.segs with
    | [] => ⟨C.mul s.g0 o.g0, []⟩
    | _ => ⟨s.g0, modLast (fun sg => { sg with gEnd := C.mul sg.gEnd o.g0 }) s.segs⟩
  ⟨head.g0, head.segs ++ o.segs.map (fun sg =>
      { sg with tEnd := tend + sg.tEnd, gEnd := C.mul gend sg.gEnd })⟩

/-! ### evaluation -/

/-- body of `operator()` once the segment `istar` is known: `gPrev`/`tPrev` are
    `istar == 0 ? m_g0 : m_end_g[istar-1]` and `istar == 0 ? 0 : m_end_t[istar-1]` -/
def evalSeg (gPrev : G) (tPrev : τ) (sg : Seg τ G W) (t : τ) : G × W × W :=
  let T := sg.tEnd - tPrev
  let u := clamp01 (sg.T0 + sg.Del * (t - tPrev) / T)
  let g0 := if zero < sg.T0 then C.mul gPrev (C.inv (C.c sg.V sg.T0)) else gPrev
  let r := C.cev sg.V u
  (C.mul g0 r.1, C.wsmul (sg.Del / T) r.2.1, C.wsmul (sg.Del * sg.Del / (T * T)) r.2.2)

/-- segment lookup of `find_idx` fused with the evaluation: the first segment with `t < tEnd`,
    the last one if there is none -/
def evalFrom : G → τ → List (Seg τ G W) → τ → G × W × W
  | g, _, [], _ => (g, C.wzero, C.wzero)
  | g, tp, [sg], t => evalSeg C g tp sg t
  | g, tp, sg :: sg' :: rest, t =>
    if t < sg.tEnd then evalSeg C g tp sg t else evalFrom sg.gEnd sg.tEnd (sg' :: rest) t

/-- `operator()(t, vel, acc)` -/
def eval (s : Spline τ G W) (t : τ) : G × W × W :=
  match s.segs with
  | [] => (s.g0, C.wzero, C.wzero)
  | _ =>
    if t < zero then (s.g0, C.wzero, C.wzero)
    else if tMax s < t then (endG s, C.wzero, C.wzero)
    else evalFrom C s.g0 zero s.segs t

/-- value only -/
def val (s : Spline τ G W) (t : τ) : G := (eval C s t).1

/-! ### find_idx, crop -/

/-- `find_idx(t)`: `binary_interval_search` on the sorted `m_end_t` = first index with `t < end_t[i]`,
    `size()-1` if there is none, 0 for an empty spline -/
def findIdxFrom (t : τ) : List (Seg τ G W) → Nat → Nat
  | [], i => i - 1
  | sg :: rest, i => if t < sg.tEnd then i else findIdxFrom t rest (i + 1)

def findIdx (s : Spline τ G W) (t : τ) : Nat := findIdxFrom t s.segs 0

/-- `m_end_t[i]` -/
def endT (s : Spline τ G W) (i : Nat) : τ :=
  match s.segs[i]? with
  | some sg => sg.tEnd
  | none => zero

/-- `crop(ta, tb, localize)`, LITERAL index transcription of the code (spline_impl.hpp:301-371):
    `i0 = find_idx(ta)`, `Nseg = find_idx(tb) + 1 - i0` (minus one when `m_end_t[i0+Nseg-2] == tb`),
    first-segment re-parameterisation with `tta = i0 == 0 ? 0 : m_end_t[i0-1]`, last-segment with
    `m_end_t[i0+Nseg-2]`, `m_end_t[i0+Nseg-1]`; end points multiplied by `ga⁻¹` iff `localize`.
    The driver evaluates this next to the structural `crop` below and refuses to answer if they differ. -/
def cropIdx (s : Spline τ G W) (ta tb : τ) (localize : Bool) : Spline τ G W :=
  let ta := tmax ta zero
  let tb := tmin tb (tMax s)
  if tb ≤ ta then empty C.one
  else
    let i0 := findIdx s ta
    let Nseg0 := findIdx s tb + 1 - i0
    let Nseg := if 2 ≤ Nseg0 && teq (endT s (i0 + Nseg0 - 2)) tb then Nseg0 - 1 else Nseg0
    if Nseg = 0 then empty C.one
    else
      let ga := val C s ta
      let gb := val C s tb
      let adj : G → G := fun g => if localize then C.mul (C.inv ga) g else g
      -- copy over all relevant segments
      let src := (s.segs.drop i0).take Nseg
      let l0 := src.map (fun sg => { sg with tEnd := sg.tEnd - ta, gEnd := adj sg.gEnd })
      let l1 := modAt (fun sg => { sg with tEnd := tb - ta, gEnd := adj gb }) (Nseg - 1) l0
      -- crop first segment
      let tta : τ := if i0 = 0 then zero else endT s (i0 - 1)
      let ttb := endT s i0
      let sa := ta
      let sb := ttb
      let l2 := modAt (fun sg =>
        { sg with T0 := sg.T0 + sg.Del * (sa - tta) / (ttb - tta),
                  Del := sg.Del * ((sb - sa) / (ttb - tta)) }) 0 l1
      -- crop last segment
      let tta := if Nseg = 1 then ta else endT s (i0 + Nseg - 2)
      let ttb := endT s (i0 + Nseg - 1)
      let sa := tta
      let sb := tb
      let l3 := modAt (fun sg =>
        { sg with T0 := sg.T0 + sg.Del * (sa - tta) / (ttb - tta),
                  Del := sg.Del * ((sb - sa) / (ttb - tta)) }) (Nseg - 1) l2
      ⟨if localize then C.one else ga, l3⟩

/-- segments after the first one of a crop; `tp` = end time of the previous SOURCE segment.
    A segment is the last one iff `tb ≤ tEnd` (`find_idx(tb)` and the `m_end_t[i0+Nseg-2] == tb` rule), or
    it is the last segment there is.  Last-segment block: `tta = m_end_t[i0+Nseg-2] = tp`, `sa = tta`, `sb = tb`. -/
def cropTail (adj : G → G) (ta tb : τ) (gb : G) : τ → List (Seg τ G W) → List (Seg τ G W)
  | _, [] => []
  | tp, sg :: rest =>
    if tb ≤ sg.tEnd ∨ rest = [] then
      [⟨tb - ta, adj gb, sg.V, sg.T0 + sg.Del * (tp - tp) / (sg.tEnd - tp), sg.Del * ((tb - tp) / (sg.tEnd - tp))⟩]
    else ⟨sg.tEnd - ta, adj sg.gEnd, sg.V, sg.T0, sg.Del⟩ :: cropTail adj ta tb gb sg.tEnd rest

/-- `find_idx(ta)` fused with the construction: skip the segments with `tEnd ≤ ta`, re-parameterise the
    one that contains `ta` (first-segment block: `tta = tp`, `ttb = tEnd`, `sa = ta`, `sb = ttb`; when it is
    also the last one the last-segment block follows with `tta = ta`), then `cropTail`. -/
def cropFrom (adj : G → G) (ta tb : τ) (gb : G) : τ → List (Seg τ G W) → List (Seg τ G W)
  | _, [] => []
  | tp, sg :: rest =>
    if ta < sg.tEnd ∨ rest = [] then
      let T0' := sg.T0 + sg.Del * (ta - tp) / (sg.tEnd - tp)
      let Del' := sg.Del * ((sg.tEnd - ta) / (sg.tEnd - tp))
      if tb ≤ sg.tEnd ∨ rest = [] then
        [⟨tb - ta, adj gb, sg.V, T0' + Del' * (ta - ta) / (sg.tEnd - ta), Del' * ((tb - ta) / (sg.tEnd - ta))⟩]
      else ⟨sg.tEnd - ta, adj sg.gEnd, sg.V, T0', Del'⟩ :: cropTail adj ta tb gb sg.tEnd rest
    else cropFrom adj ta tb gb sg.tEnd rest

/-- `crop(ta, tb, localize)` in list form (same arithmetic as `cropIdx`, indices replaced by recursion) -/
def crop (s : Spline τ G W) (ta tb : τ) (localize : Bool) : Spline τ G W :=
  let ta := tmax ta zero
  let tb := tmin tb (tMax s)
  if tb ≤ ta then empty C.one
  else
    let ga := val C s ta
    let gb := val C s tb
    let adj : G → G := fun g => if localize then C.mul (C.inv ga) g else g
    ⟨if localize then C.one else ga, cropFrom adj ta tb gb zero s.segs⟩

/-! ### arclength (K = 3) -/

/-- loop of `arclength(t)`; `first` ⇔ `i == 0`, `tp` = `i == 0 ? 0 : m_end_t[i-1]` -/
def arcFrom (t : τ) : Bool → τ → List (Seg τ G W) → W → W
  | _, _, [], acc => acc
  | first, tp, sg :: rest, acc =>
    if !first && decide (t ≤ tp) then acc
    else
      let ua := sg.T0
      let ub := ua + sg.Del * (tmin t sg.tEnd - tp) / (sg.tEnd - tp)
      arcFrom t false sg.tEnd rest (C.wadd acc (C.absint sg.V ua ub))

/-- `arclength(t)`: `t = std::max<double>(t, 0)` first -/
def arclength (s : Spline τ G W) (t : τ) : W := arcFrom C (tmax t zero) true zero s.segs C.wzero

/-! ### the concrete kernel of the driver: a `LieModel` and the cumulative basis matrix -/
section Concrete
open Scalar Lin
variable {α : Type} [Scalar α]

/-- the literal `1e-9` of `integrate_absolute_polynomial` -/
def absThr : α := nat 1 / nat 1000000000

/-- control velocity `j` of a segment (missing entries are 0; the driver checks sizes) -/
def colOf {n : Nat} (V : List (Vec α n)) (j : Nat) : Vec α n := V.getD j (vzero n)

/-- `coefs(r, k)` of `kMappedBasisFunction<K>.rightCols(K) * m_Vs[i].transpose()` -/
def coefAt (L : LieModel α) {K : Nat} (Bcum : Mat α (K + 1) (K + 1)) (V : List (Vec α L.dof))
    (r : Nat) (k : Fin L.dof) : α :=
  if hr : r < K + 1 then
    vsum K (fun j => Bcum ⟨r, hr⟩ ⟨j.val + 1, by omega⟩ * (colOf V j.val) k)
  else nat 0

def absintOf (L : LieModel α) {K : Nat} (Bcum : Mat α (K + 1) (K + 1)) (V : List (Vec α L.dof))
    (ua ub : α) : Vec α L.dof :=
  memoV (.of (fun k =>
    Poly.integrateAbs absThr ua ub (nat 3 * coefAt L Bcum V 3 k) (nat 2 * coefAt L Bcum V 2 k)
      (coefAt L Bcum V 1 k)))

def cevOf (L : LieModel α) {K : Nat} (Bcum : Mat α (K + 1) (K + 1)) (V : List (Vec α L.dof)) (u : α) :
    Vec α L.rep × Vec α L.dof × Vec α L.dof :=
  let s := CSpline.eval_vs L (fun j : Fin K => colOf V j.val) Bcum u
  (s.g, s.vel, s.acc)

/-- the kernel the driver runs: group `L`, degree `K`, cumulative basis `Bcum` -/
def kerOf (L : LieModel α) (K : Nat) (Bcum : Mat α (K + 1) (K + 1)) :
    Ker α (Vec α L.rep) (Vec α L.dof) where
  K := K
  one := L.identity
  mul := fun a b => memoV (L.composition a b)
  inv := fun a => memoV (L.inverse a)
  exp := fun a => memoV (L.exp a)
  log := fun g => memoV (L.log g)
  wzero := vzero _
  wneg := fun v => memoV (vneg v)
  wadd := fun a b => memoV (vadd a b)
  wsmul := fun s v => memoV (vsmul s v)
  wdivs := fun v s => memoV (.of (fun i => v i / s))
  cev := cevOf L Bcum
  absint := absintOf L Bcum

end Concrete

end SplineSM
