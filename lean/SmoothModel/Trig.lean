/-
  Trig.lean — detail/trig.hpp: Taylor tails of sin and cos, argument is x².
  src: include/smooth/detail/trig.hpp
-/
import SmoothModel.Scalar

open Scalar
namespace Trig
variable {α : Type} [Scalar α]

def cos_2 (x2 : α) : α :=
  if Scalar.eps2 < x2 then
    let x := Scalar.sqrt x2
    (Scalar.cos x - nat 1) / x2
  else
    -(nat 1) / nat 2 + x2 / nat 24 - x2 * x2 / nat 720

def sin_3 (x2 : α) : α :=
  if Scalar.eps2 < x2 then
    let x := Scalar.sqrt x2
    (Scalar.sin x - x) / (x2 * x)
  else
    -(nat 1) / nat 6 + x2 / nat 120 - x2 * x2 / nat 5040

def cos_4 (x2 : α) : α :=
  if Scalar.eps2 < x2 then
    let x := Scalar.sqrt x2
    (Scalar.cos x - nat 1 + x2 / nat 2) / (x2 * x2)
  else
    nat 1 / nat 24 - x2 / nat 720 + (x2 * x2) / nat 40320

def sin_5 (x2 : α) : α :=
  if Scalar.eps2 < x2 then
    let x := Scalar.sqrt x2
    (Scalar.sin x - x + x2 * x / nat 6) / (x2 * x2 * x)
  else
    nat 1 / nat 120 - x2 / nat 5040 + x2 * x2 / nat 362880

def cos_6 (x2 : α) : α :=
  let x4 := x2 * x2
  if Scalar.eps2 < x2 then
    let x := Scalar.sqrt x2
    (Scalar.cos x - nat 1 + x2 / nat 2 - x4 / nat 24) / (x4 * x2)
  else
    -(nat 1) / nat 720 + x2 / nat 40320 - x4 / nat 3628800

end Trig
