/-
  Diff.lean — diff.hpp / detail/diff_impl.hpp: `dr_numerical<1>`, `dr_numerical<2>` as executed,
  the `dr<K, D>` dispatch and the index-subset wrapper (property C08).

  The argument tuple `x_nc` is ONE state `x : X`; argument `i` is a `Slot` (its dof, its in-place
  `w ← rplus(w, a)` as a map `X → X` that leaves the other arguments alone, and — for arguments
  whose type derives from `Eigen::MatrixBase` — the coordinate read `w[j]` used by the step rule).
  `f : X → Y` is a parameter, `rm` is `rminus<Result>`.

  The Jacobian / Hessian are returned as WRITE LOGS in execution order (`J.col(c) = …`,
  `H(r, c) = …`); a later write to the same place wins (`lookupCol`, `lookupH`).  The logs make the
  placement formulas `I0 + j` and `H(I0+k0, j·nx + I1+k1)` objects the theorems can talk about.

  No Mathlib import: this file links into the driver.
-/
import SmoothModel.Lin

open Scalar Lin

namespace Diff
variable {α : Type} [Scalar α] {X Y : Type}

structure Slot (α X : Type) where
  dof : X → Nat
  /-- `w = rplus<W>(w, a)` on this argument, in place -/
  rplus : X → List α → X
  /-- `w[j]` for Eigen vector arguments (`std::is_base_of_v<Eigen::MatrixBase<W>, W>`), else none -/
  coord : Option (X → Nat → α)

/-- `e == Scalar(0.)` -/
def isZero (e : α) : Bool := decide (e ≤ nat 0) && decide (nat 0 ≤ e)

/-- `s * Eigen::Vector<Scalar, N>::Unit(n, j)` -/
def unitVec (n j : Nat) (s : α) : List α :=
  (List.range n).map (fun i => s * (if i = j then nat 1 else nat 0))

/-- the step rule: `eps_j = base`, for Eigen vectors `eps_j *= abs(w[j])`, reset to `base` if 0 -/
def stepSize (base : α) (s : Slot α X) (x : X) (j : Nat) : α :=
  match s.coord with
  | none => base
  | some c =>
    let e := base * Scalar.abs (c x j)
    if isZero e then base else e

/-- `const Scalar eps = sqrt(NumTraits<Scalar>::epsilon())` -/
def eps1 (α : Type) [Scalar α] : α := sqrt (macheps : α)
/-- `const auto sqrteps = sqrt(eps)` (K = 2) -/
def eps2K (α : Type) [Scalar α] : α := sqrt (eps1 α)

/-! ### K = 1 -/

structure R1 (α X Y : Type) where
  fval : Y
  /-- `J.col(c) = col` in execution order -/
  J : List (Nat × List α)
  /-- the argument tuple after the call (what a caller who passed non-const references sees) -/
  x : X
  /-- `nx`, computed before the loops -/
  nx : Nat
  /-- the states at which `f` was evaluated, in order (for the schedule correspondence) -/
  trace : List X

section k1
variable (base : α) (rm : Y → Y → List α) (f : X → Y) (fval : Y)

/-- one coordinate: perturb, evaluate, difference quotient into column `I0 + j`, restore -/
def coordStep1 (s : Slot α X) (n I0 : Nat) (st : X × List (Nat × List α) × List X) (j : Nat) :
    X × List (Nat × List α) × List X :=
  let x := st.1
  let e := stepSize base s x j
  let x1 := s.rplus x (unitVec n j e)
  let col := (rm (f x1) fval).map (fun v => v / e)
  let x2 := s.rplus x1 (unitVec n j (-e))
  (x2, st.2.1 ++ [(I0 + j, col)], st.2.2 ++ [x1])

/-- one argument: `nx_j = dof(w)` once, then all its coordinates; `I0 += nx_j` -/
def slotStep1 (st : X × Nat × List (Nat × List α) × List X) (s : Slot α X) :
    X × Nat × List (Nat × List α) × List X :=
  let n := s.dof st.1
  let r := (List.range n).foldl (coordStep1 base rm f fval s n st.2.1) (st.1, st.2.2.1, st.2.2.2)
  (r.1, st.2.1 + n, r.2.1, r.2.2)

end k1

/-- `dr_numerical<1>(f, x)`; `x` is already the copy-if-const tuple `x_nc` -/
def drNumerical1 (base : α) (rm : Y → Y → List α) (f : X → Y) (slots : List (Slot α X)) (x : X) :
    R1 α X Y :=
  let fval := f x
  let nx := (slots.map (fun s => s.dof x)).foldl (· + ·) 0
  let r := slots.foldl (slotStep1 base rm f fval) (x, 0, [], [x])
  ⟨fval, r.2.2.1, r.1, nx, r.2.2.2⟩

/-! ### K = 2 -/

structure R2 (α X Y : Type) where
  fval : Y
  J : List (Nat × List α)
  /-- `H(r, c) = v` in execution order -/
  H : List ((Nat × Nat) × α)
  x : X
  nx : Nat
  trace : List X

structure St2 (α X : Type) where
  x : X
  J : List (Nat × List α)
  H : List ((Nat × Nat) × α)
  trace : List X

section k2
variable (base : α) (rm : Y → Y → List α) (f : X → Y) (fval : Y) (nx : Nat)

/-- innermost body: the interleaved schedule `w1+, w0+, w0−, w1−` and the second difference -/
def innerStep2 (s0 s1 : Slot α X) (n0 n1 I0 I1 k0 : Nat) (eps0 : α) (d1 : List α)
    (st : St2 α X) (k1 : Nat) : St2 α X :=
  let e1 := stepSize base s1 st.x k1
  let xa := s1.rplus st.x (unitVec n1 k1 e1)
  let F01 := f xa
  let xb := s0.rplus xa (unitVec n0 k0 eps0)
  let F11 := f xb
  let xc := s0.rplus xb (unitVec n0 k0 (-eps0))
  let xd := s1.rplus xc (unitVec n1 k1 (-e1))
  let d2 := (List.zipWith (fun a b => a - b) (rm F11 F01) d1).map (fun v => v / eps0 / e1)
  { x := xd, J := st.J,
    H := st.H ++ d2.mapIdx (fun j v => ((I0 + k0, j * nx + I1 + k1), v)),
    trace := st.trace ++ [xa, xb] }

/-- the `k0` loop body: first difference along `k0`, then all `k1` -/
def midStep2 (s0 s1 : Slot α X) (n0 n1 I0 I1 : Nat) (st : St2 α X) (k0 : Nat) : St2 α X :=
  let eps0 := stepSize base s0 st.x k0
  let x1 := s0.rplus st.x (unitVec n0 k0 eps0)
  let F10 := f x1
  let x2 := s0.rplus x1 (unitVec n0 k0 (-eps0))
  let d1 := rm F10 fval
  let st' : St2 α X :=
    { x := x2, J := st.J ++ [(I0 + k0, d1.map (fun v => v / eps0))], H := st.H,
      trace := st.trace ++ [x1] }
  (List.range n1).foldl (innerStep2 base rm f nx s0 s1 n0 n1 I0 I1 k0 eps0 d1) st'

/-- the `i1` loop body (`nx_i1 = dof(w1)` at entry, `I1 += nx_i1`) -/
def slot1Step2 (s0 : Slot α X) (n0 I0 : Nat) (st : St2 α X × Nat) (s1 : Slot α X) : St2 α X × Nat :=
  let n1 := s1.dof st.1.x
  ((List.range n0).foldl (midStep2 base rm f fval nx s0 s1 n0 n1 I0 st.2) st.1, st.2 + n1)

/-- the `i0` loop body (`nx_i0 = dof(w0)` at entry, `I0 += nx_i0`) -/
def slot0Step2 (slots : List (Slot α X)) (st : St2 α X × Nat) (s0 : Slot α X) : St2 α X × Nat :=
  let n0 := s0.dof st.1.x
  ((slots.foldl (slot1Step2 base rm f fval nx s0 n0 st.2) (st.1, 0)).1, st.2 + n0)

end k2

/-- `dr_numerical<2>(f, x)` -/
def drNumerical2 (base : α) (rm : Y → Y → List α) (f : X → Y) (slots : List (Slot α X)) (x : X) :
    R2 α X Y :=
  let fval := f x
  let nx := (slots.map (fun s => s.dof x)).foldl (· + ·) 0
  let r := (slots.foldl (slot0Step2 base rm f fval nx slots) (⟨x, [], [], [x]⟩, 0)).1
  ⟨fval, r.J, r.H, r.x, nx, r.trace⟩

/-! ### reading the logs -/

/-- last write to column `c` -/
def lookupCol (log : List (Nat × List α)) (c : Nat) : Option (List α) :=
  (log.reverse.find? (fun w => w.1 == c)).map (·.2)

/-- last write to `H(r, c)` -/
def lookupH (log : List ((Nat × Nat) × α)) (r c : Nat) : Option α :=
  (log.reverse.find? (fun w => w.1.1 == r && w.1.2 == c)).map (·.2)

/-! ### `dr<K, D>` dispatch -/

inductive Mode where
  | numerical | analytic | default
  deriving DecidableEq, Repr

/-- a callable: `operator()` and, optionally, member functions `jacobian` / `hessian` whose
    results have whatever types `JT` / `HT` the user chose -/
structure Callable (X Y JT HT : Type) where
  f : X → Y
  jacobian : Option (X → JT)
  hessian : Option (X → HT)

inductive DrOut (α X Y JT HT : Type) where
  | value (fval : Y)
  | num1 (r : R1 α X Y)
  | num2 (r : R2 α X Y)
  | ana1 (fval : Y) (J : JT)
  | ana2 (fval : Y) (J : JT) (H : HT)

variable {JT HT : Type}

/-- `diff::dr<K, D>(f, x)`.  Autodiff / Ceres are not built.  "ill-formed" = does not compile. -/
def dr (K : Nat) (mode : Mode) (c : Callable X Y JT HT) (rm : Y → Y → List α)
    (slots : List (Slot α X)) (x : X) : Except String (DrOut α X Y JT HT) :=
  match K, mode with
  | 0, _ => .ok (.value (c.f x))
  | 1, .numerical => .ok (.num1 (drNumerical1 (eps1 α) rm c.f slots x))
  | 2, .numerical => .ok (.num2 (drNumerical2 (eps2K α) rm c.f slots x))
  | 1, .analytic =>
    match c.jacobian with
    | some j => .ok (.ana1 (c.f x) (j x))
    | none => .error "ill-formed: no member jacobian"
  | 2, .analytic =>
    match c.jacobian, c.hessian with
    | some j, some h => .ok (.ana2 (c.f x) (j x) (h x))
    | _, _ => .error "ill-formed: no member jacobian/hessian"
  | 1, .default =>
    match c.jacobian with
    | some j => .ok (.ana1 (c.f x) (j x))
    | none => .ok (.num1 (drNumerical1 (eps1 α) rm c.f slots x))
  | 2, .default =>
    match c.jacobian, c.hessian with
    | some j, some h => .ok (.ana2 (c.f x) (j x) (h x))
    | _, _ => .ok (.num2 (drNumerical2 (eps2K α) rm c.f slots x))
  | _, _ => .error "ill-formed: K > 2"

/-! ### index-subset wrapper `dr<K, D>(f, x, std::index_sequence<Idx...>)` -/

/-- `f_wrapped(arg_red...)`: cast the whole tuple `x` (`wrt_cast<ArgScalar>(x)`), overwrite the
    positions `Idx` with the reduced arguments, apply `f`.  In the state model the reduced
    arguments are the `Idx` components of the current state `y` and the other components of `y`
    are those of `x`, so the wrapped function is `y ↦ f (overwrite (cast y) y)`; `overwrite z y`
    copies the `Idx` components of `y` into `z`.  The wrapper is a lambda: it has no `jacobian`. -/
def wrapSubset (c : Callable X Y JT HT) (castAll : X → X) (overwrite : X → X → X) :
    Callable X Y JT HT :=
  { f := fun y => c.f (overwrite (castAll y) y), jacobian := none, hessian := none }

def drSubset (K : Nat) (mode : Mode) (c : Callable X Y JT HT) (rm : Y → Y → List α)
    (slots : List (Slot α X)) (castAll : X → Except String X) (overwrite : X → X → X)
    (idx : List Nat) (x : X) : Except String (DrOut α X Y JT HT) :=
  match castAll x with
  | .error e => .error e   -- the cast throws on the first evaluation (e.g. an AnyManifold argument)
  | .ok _ =>
    dr K mode (wrapSubset c (fun y => match castAll y with | .ok z => z | .error _ => y) overwrite)
      rm (idx.filterMap (fun i => slots[i]?)) x

end Diff
