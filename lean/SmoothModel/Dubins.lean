/-
  Dubins.lean — spline/detail/dubins_impl.hpp: `dubins_angle`, `dubins_csc`, `dubins_ccc`, the
  six-word scan of `dubins` (strict `<` against the running minimum, starting from +∞) and the
  segment emission of `dubins_curve`.  Executable on Float (tie T1, op `dub_word`); the scan and
  the emission are the objects of `C14.dubins_argmin` / `dubins_unit_speed_curvature`.
  Layouts: SO2 (qz, qw); SE2 (x, y, qz, qw).
-/
import SmoothModel.Lin
import SmoothModel.SO2
import SmoothModel.SE2

open Scalar Lin

namespace Dubins
variable {α : Type} [Scalar α]

inductive Seg | L | S | R
  deriving DecidableEq, Repr, Inhabited

def Seg.code : Seg → Nat
  | .L => 0 | .S => 1 | .R => 2

def inf : α := nat 1 / nat 0

/-- `SO2d(qz, qw)`: the normalising constructor -/
def so2norm (qz qw : α) : Vec α 2 :=
  let n := Scalar.sqrt (qw * qw + qz * qz)
  mk2 (qz / n) (qw / n)

/-- `(x2 - x1).x()` = `log(x1⁻¹ ∘ x2)` -/
def so2minus (x2 x1 : Vec α 2) : α := (SO2.log (SO2.composition (SO2.inverse x1) x2)) 0

/-- `dubins_angle(x1, x2, s)`: positive angular distance for the turning direction `s` -/
def angle (x1 x2 : Vec α 2) (s : Seg) : α :=
  let d0 := so2minus x2 x1
  let d := if s = .R then -d0 else d0
  if nat 0 ≤ d then d else nat 2 * Scalar.pi + d

/-- `(C3 − C1).norm()` -/
def norm2 (v : Vec α 2) : α := Scalar.sqrt (v 0 * v 0 + v 1 * v 1)

/-- Eigen `normalized()` -/
def normalized (v : Vec α 2) : Vec α 2 :=
  let n2 := v 0 * v 0 + v 1 * v 1
  if nat 0 < n2 then (let n := Scalar.sqrt n2; mk2 (v 0 / n) (v 1 / n)) else v

def sideR (s : Seg) (R : α) : α := if s = .R then -R else R

/-- `dubins_csc(target, R, c1, c3)` → `(a1, d2, a3)` -/
def csc (target : Vec α 4) (R : α) (c1 c3 : Seg) : α × α × α :=
  let C1 : Vec α 2 := mk2 (nat 0) (sideR c1 R)
  let C3 : Vec α 2 := memoV (SE2.act target (mk2 (nat 0) (sideR c3 R)))
  let dv : Vec α 2 := memoV (vsub C3 C1)
  let d13 := norm2 dv
  let tq := SE2.so2 target
  if d13 < Scalar.macheps then
    if c1 = c3 then (angle SO2.identity tq c1, nat 0, nat 0) else (inf, inf, inf)
  else
    let n := memoV (normalized dv)
    let theta0 := memoV (so2norm (n 1) (n 0))
    if c1 ≠ c3 ∧ d13 < nat 2 * R then (inf, inf, inf) else
    let theta :=
      if c1 ≠ c3 then
        let diff := memoV (so2norm (nat 2 * R / d13) (Scalar.sqrt (nat 1 - nat 4 * R * R / (d13 * d13))))
        if c1 = .R ∧ c3 = .L then memoV (SO2.composition theta0 (SO2.inverse diff))
        else memoV (SO2.composition theta0 diff)
      else theta0
    (angle SO2.identity theta c1, dv 0 * theta 1 + dv 1 * theta 0, angle theta tq c3)

/-- `dubins_ccc(target, R, c13, c2)` → `(a1, a2, a3)` -/
def ccc (target : Vec α 4) (R : α) (c13 c2 : Seg) : α × α × α :=
  let C1 : Vec α 2 := mk2 (nat 0) (sideR c13 R)
  let C3 : Vec α 2 := memoV (SE2.act target C1)
  let dv : Vec α 2 := memoV (vsub C3 C1)
  let d13 := norm2 dv
  let tq := SE2.so2 target
  if d13 < Scalar.macheps then (angle SO2.identity tq c13, nat 0, nat 0)
  else if nat 4 * R < d13 then (inf, inf, inf)
  else
    let A1312 := memoV (so2norm (Scalar.sqrt (nat 1 - d13 * d13 / (nat 16 * R * R))) (d13 / (nat 4 * R)))
    let Ainv := SO2.inverse A1312
    let A1232 := memoV (SO2.composition (SO2.composition (SO2.exp (mk1 Scalar.pi)) Ainv) Ainv)
    let alpha0 : Vec α 2 :=
      if c13 = .R then SO2.exp (mk1 (-Scalar.pi / nat 2)) else SO2.exp (mk1 (Scalar.pi / nat 2))
    let n := memoV (normalized dv)
    let dir := memoV (so2norm (n 1) (n 0))
    let theta1 :=
      if c13 = .R then memoV (SO2.composition (SO2.composition alpha0 dir) Ainv)
      else memoV (SO2.composition (SO2.composition alpha0 dir) A1312)
    let theta2 :=
      if c13 = .R then memoV (SO2.composition theta1 (SO2.inverse A1232))
      else memoV (SO2.composition theta1 A1232)
    (angle SO2.identity theta1 c13, angle theta1 theta2 c2, angle theta2 tq c13)

/-- a candidate word: three segment types with their lengths and the total length -/
structure Cand (β : Type) where
  w : Seg × Seg × Seg
  l : β × β × β
  len : β

/-- the six candidates in the scan order of `dubins`: LSL LSR RSL RSR RLR LRL -/
def candidates (target : Vec α 4) (R : α) : List (Cand α) :=
  let mkCsc (a b : Seg) : Cand α :=
    let r := csc target R a b
    ⟨(a, .S, b), r, r.2.1 + R * (r.1 + r.2.2)⟩
  let mkCcc (a b : Seg) : Cand α :=
    let r := ccc target R a b
    ⟨(a, b, a), r, R * ((r.1 + r.2.1) + r.2.2)⟩
  [mkCsc .L .L, mkCsc .L .R, mkCsc .R .L, mkCsc .R .R, mkCcc .R .L, mkCcc .L .R]

/-- the scan `if (len < min_length) { min_length = len; ret = … }` over any ordered type;
    `none` = nothing accepted yet (`min_length = +∞`, `ret` unset) -/
def scan {β : Type} (lt : β → β → Bool) (top : β) (cs : List (Cand β)) : β × Option (Cand β) :=
  cs.foldl (fun st c => if lt c.len st.1 then (c.len, some c) else st) (top, none)

def dubins (target : Vec α 4) (R : α) : Option (Cand α) :=
  (scan (fun a b => decide (a < b)) inf (candidates target R)).2

/-- an emitted constant-velocity segment `ConstantVelocity((vx, vy, κ), T)` -/
structure Emit (β : Type) where
  vx : β
  vy : β
  kappa : β
  T : β

/-- the `+=` calls of `dubins_curve` (a segment with `T ≤ 0` contributes the empty spline) -/
def emit (R : α) (c : Cand α) : List (Emit α) :=
  let one (s : Seg) (l : α) : Emit α :=
    match s with
    | .L => ⟨nat 1, nat 0, nat 1 / R, R * l⟩
    | .R => ⟨nat 1, nat 0, -(nat 1) / R, R * l⟩
    | .S => ⟨nat 1, nat 0, nat 0, l⟩
  [one c.w.1 c.l.1, one c.w.2.1 c.l.2.1, one c.w.2.2 c.l.2.2]

/-- end pose of the concatenation `ret += ConstantVelocity(v, T)` (C12: a constant-velocity
    segment from the identity ends at `exp(T·v)`; `+=` composes on the right); segments with
    `T ≤ 0` contribute nothing -/
def endPose (es : List (Emit α)) : Vec α 4 :=
  es.foldl (fun g e =>
    if nat 0 < e.T then SE2.composition g (SE2.exp (mk3 (e.T * e.vx) (e.T * e.vy) (e.T * e.kappa))) else g)
    SE2.identity

/-- `t_max` of the concatenation: running sum over the non-empty segments -/
def totalTime (es : List (Emit α)) : α :=
  es.foldl (fun t e => if nat 0 < e.T then t + e.T else t) (nat 0)

end Dubins
