/-
  Bundle.lean — detail/bundle.hpp (BundleImpl<GsImpl...>) as a fold of binary direct products.

  `prod A B` lays `B` after `A` in every layout (coefficients, tangent, matrix) — exactly the
  prefix-sum layout (`RepSizesPsum`, `DofsPsum`, `DimsPsum`) of the C++; `bundle [p₁,…,pₙ] =
  prod p₁ (prod p₂ (… unit))`.  `psum` is `utils::array_psum`; `Bundle.offsets_eq_psum` (proofs)
  relates the two, and the driver/T2 compares `psum` with the arrays dumped from the code.
-/
import SmoothModel.Lin
import SmoothModel.Group

open Scalar Lin
namespace Bundle
variable {α : Type} [Scalar α]

/-- `utils::array_psum`: `[0, x₀, x₀+x₁, …]` (length n+1) -/
def psum (l : List Nat) : List Nat := l.foldl (fun acc x => acc ++ [acc.getLast! + x]) [0]

def fst {n m : Nat} (v : Vec α (n + m)) : Vec α n := (.of (fun i => v ⟨i.val, by omega⟩))
def snd {n m : Nat} (v : Vec α (n + m)) : Vec α m := (.of (fun i => v ⟨n + i.val, by omega⟩))

/-- block-diagonal arrangement, zero elsewhere -/
def bdiag {n m n' m' : Nat} (A : Mat α n n') (B : Mat α m m') : Mat α (n + m) (n' + m') := (.of (fun i j =>
  if hi : i.val < n then
    if hj : j.val < n' then A ⟨i.val, hi⟩ ⟨j.val, hj⟩ else nat 0
  else
    if hj : j.val < n' then nat 0 else B ⟨i.val - n, by omega⟩ ⟨j.val - n', by omega⟩))

def tl {n m : Nat} (M : Mat α (n + m) (n + m)) : Mat α n n := (.of (fun i j => M ⟨i.val, by omega⟩ ⟨j.val, by omega⟩))
def br {n m : Nat} (M : Mat α (n + m) (n + m)) : Mat α m m :=
  (.of (fun i j => M ⟨n + i.val, by omega⟩ ⟨n + j.val, by omega⟩))

/-- Hessian placement (bundle.hpp:194-223): part Hessian `Hi` (`d × d²`) with block start `off`
    inside a `D × D²` Hessian: `H[off+r, D·(off+j) + off+k] = Hi[r, d·j + k]`. -/
def hessPlace {d : Nat} (D off : Nat) (Hi : Mat α d (d * d)) (R : Fin D) (C : Fin (D * D)) : α :=
  let J := C.val / D
  let K := C.val % D
  if h : off ≤ R.val ∧ R.val < off + d ∧ off ≤ J ∧ J < off + d ∧ off ≤ K ∧ K < off + d then
    Hi ⟨R.val - off, by omega⟩ ⟨(J - off) * d + (K - off), by
      have h1 : J - off < d := by omega
      have h2 : K - off < d := by omega
      calc (J - off) * d + (K - off) < (J - off) * d + d := by omega
        _ = (J - off + 1) * d := by rw [Nat.add_mul, Nat.one_mul]
        _ ≤ d * d := Nat.mul_le_mul_right d h1⟩
  else nat 0

/- The fields of `prod` are top-level definitions on purpose: Lean's compiler merges a lambda
   written inside a structure instance with the closure it returns, which would re-evaluate the
   `let`-bound part results for every entry read. -/
section
variable (A B : LieModel α)

def prodMatrix (g : Vec α (A.rep + B.rep)) : Mat α (A.dim + B.dim) (A.dim + B.dim) :=
  bdiag (A.matrix (fst g)) (B.matrix (snd g))
def prodComposition (a b : Vec α (A.rep + B.rep)) : Vec α (A.rep + B.rep) :=
  vcat (A.composition (fst a) (fst b)) (B.composition (snd a) (snd b))
def prodInverse (g : Vec α (A.rep + B.rep)) : Vec α (A.rep + B.rep) :=
  vcat (A.inverse (fst g)) (B.inverse (snd g))
def prodLog (g : Vec α (A.rep + B.rep)) : Vec α (A.dof + B.dof) :=
  vcat (A.log (fst g)) (B.log (snd g))
def prodExp (a : Vec α (A.dof + B.dof)) : Vec α (A.rep + B.rep) :=
  vcat (A.exp (fst a)) (B.exp (snd a))
def prodHat (a : Vec α (A.dof + B.dof)) : Mat α (A.dim + B.dim) (A.dim + B.dim) :=
  bdiag (A.hat (fst a)) (B.hat (snd a))
def prodVee (M : Mat α (A.dim + B.dim) (A.dim + B.dim)) : Vec α (A.dof + B.dof) :=
  vcat (A.vee (tl M)) (B.vee (br M))
def prodAd (g : Vec α (A.rep + B.rep)) : Mat α (A.dof + B.dof) (A.dof + B.dof) :=
  bdiag (A.Ad (fst g)) (B.Ad (snd g))
def prodad (a : Vec α (A.dof + B.dof)) : Mat α (A.dof + B.dof) (A.dof + B.dof) :=
  bdiag (A.ad (fst a)) (B.ad (snd a))
def prodDrExp (a : Vec α (A.dof + B.dof)) : Mat α (A.dof + B.dof) (A.dof + B.dof) :=
  bdiag (A.dr_exp (fst a)) (B.dr_exp (snd a))
def prodDrExpinv (a : Vec α (A.dof + B.dof)) : Mat α (A.dof + B.dof) (A.dof + B.dof) :=
  bdiag (A.dr_expinv (fst a)) (B.dr_expinv (snd a))
/- The two Hessians: bundle.hpp ZEROES the output and each part WRITES its placed block (rows `[off, off+d)`); nothing is
   added.  A row below `A.dof` can only be in `A`'s block, a row from `A.dof` on only in `B`'s — so the entry is the one
   placement or the other (and `nat 0` when the placement has nothing there).  (Until the source tie of tools/gen_bundle.py
   the model summed the two placements: equal over ℝ, but `x + 0` is arithmetic the code does not perform and it turned a
   `-0.0` entry of a part Hessian into `+0.0`.) -/
def prodD2rExp (a : Vec α (A.dof + B.dof)) :
    Mat α (A.dof + B.dof) ((A.dof + B.dof) * (A.dof + B.dof)) :=
  let HA := memoM (A.d2r_exp (fst a))
  let HB := memoM (B.d2r_exp (snd a))
  (.of (fun R C => if R.val < A.dof then hessPlace (A.dof + B.dof) 0 HA R C else hessPlace (A.dof + B.dof) A.dof HB R C))
def prodD2rExpinv (a : Vec α (A.dof + B.dof)) :
    Mat α (A.dof + B.dof) ((A.dof + B.dof) * (A.dof + B.dof)) :=
  let HA := memoM (A.d2r_expinv (fst a))
  let HB := memoM (B.d2r_expinv (snd a))
  (.of (fun R C => if R.val < A.dof then hessPlace (A.dof + B.dof) 0 HA R C else hessPlace (A.dof + B.dof) A.dof HB R C))

def prod : LieModel α where
  rep := A.rep + B.rep
  dof := A.dof + B.dof
  dim := A.dim + B.dim
  comm := A.comm && B.comm
  identity := vcat A.identity B.identity
  matrix := prodMatrix A B
  composition := prodComposition A B
  inverse := prodInverse A B
  log := prodLog A B
  exp := prodExp A B
  hat := prodHat A B
  vee := prodVee A B
  Ad := prodAd A B
  ad := prodad A B
  dr_exp := prodDrExp A B
  dr_expinv := prodDrExpinv A B
  d2r_exp := prodD2rExp A B
  d2r_expinv := prodD2rExpinv A B
end

/-- the empty bundle -/
def unit : LieModel α where
  rep := 0
  dof := 0
  dim := 0
  comm := true
  identity := vzero 0
  matrix := fun _ => mzero 0 0
  composition := fun _ _ => vzero 0
  inverse := fun _ => vzero 0
  log := fun _ => vzero 0
  exp := fun _ => vzero 0
  hat := fun _ => mzero 0 0
  vee := fun _ => vzero 0
  Ad := fun _ => mzero 0 0
  ad := fun _ => mzero 0 0
  dr_exp := fun _ => mzero 0 0
  dr_expinv := fun _ => mzero 0 0
  d2r_exp := fun _ => mzero 0 0
  d2r_expinv := fun _ => mzero 0 0

def bundle : List (LieModel α) → LieModel α
  | [] => unit
  | p :: ps => prod p (bundle ps)

end Bundle
