/-
  Search.lean — model of `smooth::utils::binary_interval_search` (detail/utils.hpp).

  The range is an index function `r : Nat → α` with a length `n`; iterators are indices, `end = n`.
  The comparison `wo(x, t)` of the C++ is used in two ways only: `wo(x,t) > 0` (modelled `t < x`) and
  `wo(x,t) <= 0` (modelled `x ≤ t`).

  The pivot is supplied by a PARAMETER function `pv left rght` (any function: the model clamps its
  value to `[left, rght-2]`, which is the identity on admissible pivot functions — exactly what
  `std::ranges::next(left, n, rght - 2)` does for `n ≥ 0`).  The interpolation pivot of the C++
  (`alpha * dist` truncated) is one such function (`interpPivot`).  Termination is by the decreasing
  measure `rght - left` (well-founded recursion — no fuel).
-/
import SmoothModel.Scalar

open Scalar

namespace Search

section generic
variable {α : Type} [LT α] [LE α] [DecidableLT α] [DecidableLE α]

/-- clamp a proposed pivot to the admissible window `[left, rght-2]` -/
def clampPivot (left rght p : Nat) : Nat := Nat.min (Nat.max p left) (rght - 2)

/-- result of the loop: (returned index, number of loop iterations, number of `wo` calls in the loop) -/
structure LoopOut where
  idx : Nat
  iters : Nat
  calls : Nat
  /-- checksum of the pivot sequence: Σ (iteration number) * (pivot + 1) -/
  chk : Nat
  deriving Repr, DecidableEq

/-- the `while (left + 1 < rght)` loop.  `pivot` is the current value of the variable `pivot`. -/
def loop (r : Nat → α) (t : α) (pv : Nat → Nat → Nat) (left rght pivot iters calls chk : Nat) : LoopOut :=
  if h : left + 1 < rght then
    let p := clampPivot left rght (pv left rght)
    if r (p + 1) ≤ t then
      loop r t pv (p + 1) rght p (iters + 1) (calls + 1) (chk + (iters + 1) * (p + 1))
    else if t < r p then
      loop r t pv left (p + 1) p (iters + 1) (calls + 2) (chk + (iters + 1) * (p + 1))
    else ⟨p, iters + 1, calls + 2, chk + (iters + 1) * (p + 1)⟩
  else ⟨pivot, iters, calls, chk⟩
termination_by rght - left
decreasing_by
  all_goals simp only [clampPivot, Nat.min_def, Nat.max_def]
  all_goals (repeat' split) <;> omega

/-- `binary_interval_search(r, t, wo)`; `n` is `end` -/
def search (r : Nat → α) (n : Nat) (t : α) (pv : Nat → Nat → Nat) : LoopOut :=
  if n = 0 then ⟨n, 0, 0, 0⟩
  else if t < r 0 then ⟨n, 0, 1, 0⟩
  else if r (n - 1) ≤ t then ⟨n - 1, 0, 2, 0⟩
  else
    let o := loop r t pv 0 n 0 0 0 0
    ⟨o.idx, o.iters, o.calls + 2, o.chk⟩

end generic

section concrete
variable {α : Type} [Scalar α]

/-- largest `k ≤ bound` with `(k : α) ≤ x` (0 if there is none): `static_cast<intptr_t>(x)` for
    `0 ≤ x`, already limited to `bound` (the C++ limits afterwards through `ranges::next(…, rght-2)`).
    For negative or NaN `x` the C++ cast/advance is undefined; the model returns 0. -/
def floorNat (x : α) : (bound : Nat) → Nat
  | 0 => 0
  | b+1 => if nat (b+1) ≤ x then b+1 else floorNat x b

/-- the interpolation pivot of the C++:
    `alpha = (t - *left) / (*(rght-1) - *left)`, `dist = rght-1-left`, `left + (intptr_t)(alpha*dist)` -/
def interpPivot (r : Nat → α) (t : α) (left rght : Nat) : Nat :=
  let alpha : α := (t - r left) / (r (rght - 1) - r left)
  let dist : α := nat (rght - 1 - left)
  left + floorNat (alpha * dist) (rght - 2 - left)

/-- the search as the C++ runs it on a `vector<double>` with the default comparison -/
def searchInterp (xs : Array α) (t : α) : LoopOut :=
  let r : Nat → α := fun i => xs.getD i (nat 0)
  search r xs.size t (interpPivot r t)

end concrete

end Search
