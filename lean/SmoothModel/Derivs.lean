/-
  Derivs.lean — detail/derivatives_impl.hpp: d_matrix_product (square factors of equal size),
  d2_fog, dr_rminus, d2r_rminus, dr_rminus_squarednorm, d2r_rminus_squarednorm.

  "Horizontally stacked" layout of the derivative of an n×n matrix function `A(x)`, x ∈ ℝ^nvar:
  `dA : n × (n·nvar)`, `dA[j, i·nvar + k] = ∂A[i,j]/∂x_k`.
  Hessian layout of `f : ℝ^nx → ℝ^no`: `Hf : nx × (no·nx)`, `Hf[k, i·nx + l] = ∂²f_i/∂x_k∂x_l`.
-/
import SmoothModel.Lin
import SmoothModel.Group

open Scalar Lin
namespace Derivs
variable {α : Type} [Scalar α]

theorem idx_lt {a b n m : Nat} (ha : a < n) (hb : b < m) : a * m + b < n * m := by
  calc a * m + b < a * m + m := by omega
    _ = (a + 1) * m := by rw [Nat.add_mul, Nat.one_mul]
    _ ≤ n * m := Nat.mul_le_mul_right m ha

theorem div_lt_of {c n m : Nat} (h : c < n * m) : c / m < n := by
  rcases Nat.eq_zero_or_pos m with hm | hm
  · subst hm; simp at h
  · exact (Nat.div_lt_iff_lt_mul hm).2 h

theorem mod_lt_of {c n m : Nat} (h : c < n * m) : c % m < m := by
  rcases Nat.eq_zero_or_pos m with hm | hm
  · subst hm; simp at h
  · exact Nat.mod_lt _ hm

/-- running sum `((init + f 0) + f 1) + …` — the order of the C++ `+=` loop -/
def accum : (n : Nat) → α → (Fin n → α) → α
  | 0, init, _ => init
  | n+1, init, f => accum n init (fun i => f i.castSucc) + f (Fin.last n)

/-- `d_matrix_product(A, dA, B, dB)` (derivatives_impl.hpp:9-43) for n×n factors:
    `dAB = Bᵀ·dA; for i, j: dAB.middleCols(i·nvar, nvar) += A(i,j)·dB.middleCols(j·nvar, nvar)` -/
def d_matrix_product {n nvar : Nat} (A : Mat α n n) (dA : Mat α n (n * nvar))
    (B : Mat α n n) (dB : Mat α n (n * nvar)) : Mat α n (n * nvar) :=
  (.of (fun r c =>
    let i : Fin n := ⟨c.val / nvar, div_lt_of c.isLt⟩
    let k : Fin nvar := ⟨c.val % nvar, mod_lt_of c.isLt⟩
    accum n (vsum n (fun l => B l r * dA l c))
      (fun j => A i j * dB r ⟨j.val * nvar + k.val, idx_lt j.isLt k.isLt⟩)))

/-- `d2_fog(Jf, Hf, Jg, Hg)` (derivatives_impl.hpp:45-83), dense `Jf`:
    block i = `Jgᵀ·Hf_i·Jg + Σ_j Jf(i,j)·Hg_j` -/
def d2_fog {no ny nx : Nat} (Jf : Mat α no ny) (Hf : Mat α ny (no * ny)) (Jg : Mat α ny nx)
    (Hg : Mat α nx (ny * nx)) : Mat α nx (no * nx) :=
  (.of (fun r c =>
    let i : Fin no := ⟨c.val / nx, div_lt_of c.isLt⟩
    let l : Fin nx := ⟨c.val % nx, mod_lt_of c.isLt⟩
    let Hfi : Mat α ny ny := (.of (fun p q => Hf p ⟨i.val * ny + q.val, idx_lt i.isLt q.isLt⟩))
    let first := (mmul (mmul (transpose Jg) Hfi) Jg) r l
    accum ny (nat 0 + first)
      (fun j => Jf i j * Hg r ⟨j.val * nx + l.val, idx_lt j.isLt l.isLt⟩)))

variable (G : LieModel α)

def dr_rminus (e : Vec α G.dof) : Mat α G.dof G.dof := G.dr_expinv e

/-- `res = d2r_expinv(e); each Dof×Dof block ·= J` -/
def d2r_rminus (e : Vec α G.dof) : Mat α G.dof (G.dof * G.dof) :=
  let J := memoM (G.dr_expinv e)
  let H := memoM (G.d2r_expinv e)
  (.of (fun r c =>
    let j : Fin G.dof := ⟨c.val / G.dof, div_lt_of c.isLt⟩
    let k : Fin G.dof := ⟨c.val % G.dof, mod_lt_of c.isLt⟩
    vsum G.dof (fun l => H r ⟨j.val * G.dof + l.val, idx_lt j.isLt l.isLt⟩ * J l k)))

def dr_rminus_squarednorm (e : Vec α G.dof) : Vec α G.dof :=
  let J := G.dr_expinv e
  (.of (fun j => vsum G.dof (fun l => e l * J l j)))

def d2r_rminus_squarednorm (e : Vec α G.dof) : Mat α G.dof G.dof :=
  let J1 := memoM (dr_rminus G e)
  let H1 := memoM (d2r_rminus G e)
  let Jf : Mat α 1 G.dof := (.of (fun _ j => e j))
  let Hf : Mat α G.dof (1 * G.dof) := (.of (fun p q => ident G.dof p ⟨q.val, by have := q.isLt; omega⟩))
  let R := d2_fog Jf Hf J1 H1
  (.of (fun r c => R r ⟨c.val, by have := c.isLt; omega⟩))

end Derivs
