/-
  ManifSem.lean — the FIXED TABLE giving a meaning to the constructs of the Manifold adaptors of pettni/smooth
  (include/smooth/concepts/lie_group.hpp `traits::man<LieGroup>`, manifolds/vector.hpp, variant.hpp, submanifold.hpp,
  any.hpp) as emitted by tools/gen_bundle.py into `SmoothModel/Gen/ManifSrc.lean`.  Tie theorems: SmoothProps/SrcTieManif.lean
  (property C07).  Part of the trusted base, independent of the hand-written model SmoothModel/Manifold.lean except for the
  record type `Manif.Man` (what `traits::man<M>` offers) and the value types `Manif.SubMan`, `Σ i, Ms i`.

  Values.  `Eigen::VectorX<Scalar>` / `Tangent<M>` = `List α`; `std::vector<M>` = `List M`; `Eigen::VectorXi` = `List Nat`
  (the constructor asserts the entries are in `[0, dof)`); `Eigen::Index`, `std::size_t`, `int` counters = `Nat`;
  `std::variant<Ms...>` and the object wrapped by `AnyManifold` = `Σ i, Ms i`.
      `traits::man<M>::Dof` (an `int`, −1 = dynamic)                       `staticDof A : Int`
      `a.template segment<N>(off, len)`                                     `segment a off len`
      `ret.template segment<N>(off, len) = d`                               `writeSeg ret off len d`
      `Eigen::VectorX<Scalar> ret(n);`  (NOT initialised)                   `uninitVec uninit n`   (`uninit i` = what memory holds)
      `v.setZero(n)`                                                        `zeros n`
      `v(i) = x`, `v(i)`                                                    `setAtT v i x`, `getT v i`
      `m.push_back(x)`                                                      `m ++ [x]`
      `std::accumulate(first, last, init, f)`                               `List.foldl f init`
      `PlainObject(size, value)`  (std::vector fill constructor)            `List.replicate size value`
      `m | std::views::transform(f)` materialised by `std::vector(begin, end)`   `List.mapM f` (in order; the first throw wins)
      range-`for (init; const auto & x : r)`, `utils::zip(r1, r2)` (stops at the shorter range)   `List.foldl` / `List.foldlM` over
            `r` / `List.zip r1 r2` with the tuple of the variables the body assigns as state
      `for (auto i = 0u; i != n; ++i)`, `for (auto i = 0, j = 0, k = 0; i < n; ++i)`   the same over `List.range n`
      `std::sort(first, last)` on a `VectorXi`                              `sortNat` (insertion sort: the sorted rearrangement)
      `std::visit(visitor, v)`                                              the visitor applied to the alternative held (`v.1`, `v.2`)
      `std::get<Mi>(w)`                                                     `variantGet`: `bad_variant_access` unless `w` holds `Mi`
      `static_cast<const wrapper<M> *>(o.get())->m_val`                     `anyCast`: undefined unless `o` wraps an `M` — reported as an error
      `throw std::runtime_error(msg)`                                       `Except.error msg`
  A call that can throw (`traits::man<M>::rminus / cast / Default`, `std::get`) makes the enclosing function monadic in
  `Except String` (an exception propagates = `bind`).  `assert(...)`, `reserve(...)` have no value-level effect and are
  pinned textually by the translator.
  No Mathlib import.
-/
import SmoothModel.Lin
import SmoothModel.Group
import SmoothModel.Manifold

open Scalar Lin

namespace ManifSem
variable {α : Type} [Scalar α]

/-- `traits::man<M>::Dof` as the C++ `int` (−1 = dynamic size) -/
def staticDof {M : Type} (A : Manif.Man α M) : Int :=
  match A.sdof with
  | some d => (d : Int)
  | none => -1

def segment (a : List α) (off len : Nat) : List α := (a.drop off).take len

def writeSeg (buf : List α) (off len : Nat) (d : List α) : List α :=
  buf.mapIdx (fun i b => if off ≤ i ∧ i < off + len then d.getD (i - off) (nat 0) else b)

def uninitVec (uninit : Nat → α) (n : Nat) : List α := (List.range n).map uninit
def zeros (n : Nat) : List α := List.replicate n (nat 0)
def getT (v : List α) (i : Nat) : α := v.getD i (nat 0)
def setAtT (v : List α) (i : Nat) (x : α) : List α := v.set i x
def getN (v : List Nat) (i : Nat) : Nat := v.getD i 0

def insertNat (x : Nat) : List Nat → List Nat
  | [] => [x]
  | y :: ys => if x ≤ y then x :: y :: ys else y :: insertNat x ys
def sortNat : List Nat → List Nat
  | [] => []
  | x :: xs => insertNat x (sortNat xs)

/-- a Lie-group tangent list seen as the fixed-size vector the group functions take, and back -/
def tanOfList {n : Nat} (l : List α) : Vec α n := memoV (.of (fun i => l.getD i.val (nat 0)))
def listOfTan {n : Nat} (v : Vec α n) : List α := List.ofFn v.get

section variant
variable {ι : Type} [DecidableEq ι] {Ms : ι → Type}

/-- `std::get<Mi>(w)` -/
def variantGet (Mi : ι) (w : Σ i, Ms i) : Except String (Ms Mi) :=
  if h : w.1 = Mi then .ok (h ▸ w.2) else .error "bad_variant_access"

/-- `static_cast<const wrapper<M> *>(o.get())->m_val` -/
def anyCast (Mi : ι) (w : Σ i, Ms i) : Except String (Ms Mi) :=
  if h : w.1 = Mi then .ok (h ▸ w.2) else .error "undefined: wrapped types differ"
end variant

end ManifSem
