/-
  Fit.lean — spline/detail/fit_impl.hpp: `fit_spline_1d` (constraint rows, KKT assembly; the sparse
  linear solves are PARAMETERS), `fit_spline` (differences, per-coordinate fit, cumulative
  coefficients, middle-coefficient re-solve, `concat_global` chain) and `fit_bspline` sizes.

  Tables.  `B_s` (Bernstein → monomial coefficient matrix), `U0_s = monomial_derivatives(0.)`,
  `U1_s = monomial_derivatives(1.)` and their products have integer entries; they are modelled by
  closed forms over `Int` (`bernI`, `u0tBI`, `u1tBI`) and injected with `ofInt`.  Tie T1 compares
  them, entry by entry and exactly, with the tables the running code computes (op `fit_tab`).
  The cost matrix `P_s = B_sᵀ · monomial_integral · B_s` has rational entries and is modelled with
  the code's operation order (`StaticMatrix::operator*` accumulates left to right from 0).
-/
import SmoothModel.Lin
import SmoothModel.Group
import SmoothModel.CSpline

open Scalar Lin

namespace Fit
variable {α : Type} [Scalar α]

/-- integer literal in the scalar type -/
def ofInt (z : Int) : α := if z < 0 then -(nat z.natAbs) else nat z.toNat

/-- left-to-right sum `((0 + a₀) + a₁) + …` -/
def lsum (l : List α) : α := l.foldl (· + ·) (nat 0)

/-- `x·x·…` (`d` factors, left to right) — stands for `std::pow(x, d)` with a small integer `d`
    (libm's `pow` is the correctly rounded power; the product differs by at most 1–2 ulp) -/
def ipow (x : α) : Nat → α
  | 0 => nat 1
  | 1 => x
  | d+1 => ipow x d * x

-- ---------------------------------------------------------------- integer tables

/-- binomial coefficient (Pascal recursion; no Mathlib here) -/
def choose : Nat → Nat → Nat
  | _, 0 => 1
  | 0, _+1 => 0
  | n+1, k+1 => choose n k + choose n (k+1)

def fact : Nat → Nat
  | 0 => 1
  | n+1 => (n+1) * fact n

/-- `n·(n−1)·…·(n−k+1)` -/
def descFact : Nat → Nat → Nat
  | _, 0 => 1
  | n, k+1 => (n - k) * descFact n k

/-- `B_s[i][j]`: coefficient of `uⁱ` in the Bernstein polynomial `b_{j,K}(u) = C(K,j) uʲ (1−u)^{K−j}` -/
def bernI (K i j : Nat) : Int :=
  if j ≤ i ∧ i ≤ K then (-1) ^ (i - j) * ((choose K j * choose (K - j) (i - j) : Nat) : Int) else 0

/-- `U0tB_s[d][j] = Σᵢ U0[d][i]·B[i][j]`, `U0[d][i] = dᵈ/duᵈ uⁱ |_{u=0} = d!·[i = d]` -/
def u0tBI (K d j : Nat) : Int := (fact d : Int) * bernI K d j

/-- `U1tB_s[d][j] = Σᵢ U1[d][i]·B[i][j]`, `U1[d][i] = dᵈ/duᵈ uⁱ |_{u=1} = i!/(i−d)!` -/
def u1tBI (K d j : Nat) : Int :=
  (List.range (K + 1)).foldl (fun acc i => acc + (descFact i d : Int) * bernI K i j) 0

/-- cumulative Bernstein basis `polynomial_cumulative_basis<Bernstein,K>`: suffix sums over columns -/
def bernCumI (K i j : Nat) : Int :=
  (List.range (K + 1 - j)).foldl (fun acc c => acc + bernI K i (j + c)) 0

def bern (K : Nat) : Mat α (K + 1) (K + 1) := .of (fun i j => ofInt (bernI K i.val j.val))
def bernCum (K : Nat) : Mat α (K + 1) (K + 1) := .of (fun i j => ofInt (bernCumI K i.val j.val))
def u0tB (K d j : Nat) : α := ofInt (u0tBI K d j)
def u1tB (K d j : Nat) : α := ofInt (u1tBI K d j)

/-- `monomial_integral<K,P>()[i][j] = c / (i + j − 2P + 1)` with
    `c = (i−P+1)…i · (j−P+1)…j` (a `size_t` product), zero unless `i, j ≥ P` -/
def monoIntegral (K P : Nat) : Mat α (K + 1) (K + 1) := .of (fun i j =>
  if P ≤ i.val ∧ P ≤ j.val then
    nat (descFact i.val P * descFact j.val P) / nat (i.val + j.val - 2 * P + 1)
  else nat 0)

/-- `P_s = B_sᵀ * Mmat * B_s` (left-associated `StaticMatrix` products) -/
def costP (K P : Nat) : Mat α (K + 1) (K + 1) :=
  memoM (mmul (memoM (mmul (transpose (bern K)) (monoIntegral K P))) (bern K))

-- ---------------------------------------------------------------- spline specifications

structure Spec where
  /-- `Degree` -/
  K : Nat
  /-- `OptDeg` (`none` = −1: no optimisation) -/
  optDeg : Option Nat
  /-- `InnCnt` (−1 for `PiecewiseConstant`) -/
  innCnt : Int
  leftDeg : List Nat
  rghtDeg : List Nat
  deriving Repr

/-- `detail::splinespec_max_deriv` -/
def Spec.D (s : Spec) : Nat :=
  (s.leftDeg ++ s.rghtDeg).foldl Nat.max s.innCnt.toNat

def piecewiseLinear : Spec := ⟨1, none, 0, [], []⟩
def fixedDerCubic (p1 p2 : Nat) : Spec := ⟨3, none, 2, [p1], [p2]⟩
/-- `MinDerivative<G, K, O, P>`: `LeftDeg = RghtDeg = 1 … P−1` -/
def minDerivative (K O P : Nat) : Spec :=
  ⟨K, some O, P, (List.range (P - 1)).map (· + 1), (List.range (P - 1)).map (· + 1)⟩

def Spec.ofName : String → Option Spec
  | "PL" => some piecewiseLinear
  | "FDC11" => some (fixedDerCubic 1 1)
  | "FDC22" => some (fixedDerCubic 2 2)
  | "FDC12" => some (fixedDerCubic 1 2)
  | "FDC21" => some (fixedDerCubic 2 1)
  | "MD5" => some (minDerivative 5 3 3)
  | "MD6" => some (minDerivative 6 3 3)
  | _ => none

-- ---------------------------------------------------------------- constraint rows

/-- one row of the sparse constraint matrix: the `A.insert(M, col) = val` calls, and `b(M)` -/
structure Row (α : Type) where
  ent : List (Nat × α)
  rhs : α

/-- entries `(i·(K+1)+j, f j)`, `j = 0..K`: a row touching the coefficients of segment `i` -/
def segEnt (K i : Nat) (f : Nat → α) : List (Nat × α) :=
  (List.range (K + 1)).map (fun j => (i * (K + 1) + j, f j))

/-- `row · x` -/
def rowDot (r : Row α) (x : Nat → α) : α := lsum (r.ent.map (fun e => e.2 * x e.1))

/-- number of segments: `min(size(dt_r), size(dx_r))` -/
def nSeg (dt dx : List α) : Nat := min dt.length dx.length

def Spec.nCoef (s : Spec) (N : Nat) : Nat := (s.K + 1) * N

/-- `N_eq` as the code counts it -/
def Spec.nEq (s : Spec) (N : Nat) : Nat :=
  s.leftDeg.length + N + (if 0 ≤ s.innCnt then N else 0)
    + (if 0 < s.innCnt then (N - 1) * s.innCnt.toNat else 0) + s.rghtDeg.length

/-- curve-begin derivative constraints: `U0tB(LeftDeg[i], ·)` on segment 0, rhs `left_values[i]`
    (the derivative is with respect to the NORMALISED parameter `u = t/dt₀`: no `1/dt^d` factor) -/
def leftRows (s : Spec) (lv : List α) : List (Row α) :=
  (s.leftDeg.zip lv).map (fun p => ⟨segEnt s.K 0 (fun j => u0tB s.K p.1 j), p.2⟩)

/-- interval begin and end value constraints `pᵢ(0) = 0`, `pᵢ(dtᵢ) = dxᵢ` (segment by segment) -/
def valueRows (s : Spec) (N : Nat) (dx : List α) : List (Row α) :=
  (List.range N).flatMap (fun i =>
    (⟨segEnt s.K i (fun j => u0tB s.K 0 j), nat 0⟩ : Row α) ::
      (if 0 ≤ s.innCnt then [⟨segEnt s.K i (fun j => u1tB s.K 0 j), dx.getD i (nat 0)⟩] else []))

/-- the continuity row of order `d` at the knot between segments `k` and `k+1` -/
def contRow (s : Spec) (k d : Nat) (dtk dtk1 : α) : Row α :=
  let fac1 := nat 1 / ipow dtk d
  let fac2 := nat 1 / ipow dtk1 d
  ⟨segEnt s.K k (fun j => u1tB s.K d j * fac1) ++ segEnt s.K (k + 1) (fun j => -(u0tB s.K d j) * fac2), nat 0⟩

/-- inner derivative continuity constraints, knot by knot, `d = 1..InnCnt` -/
def contRows (s : Spec) (N : Nat) (dt : List α) : List (Row α) :=
  (List.range (N - 1)).flatMap (fun k =>
    (List.range s.innCnt.toNat).map (fun d' =>
      contRow s k (d' + 1) (dt.getD k (nat 0)) (dt.getD (k + 1) (nat 0))))

/-- curve-end derivative constraints on the last segment -/
def rightRows (s : Spec) (N : Nat) (rv : List α) : List (Row α) :=
  (s.rghtDeg.zip rv).map (fun p => ⟨segEnt s.K (N - 1) (fun j => u1tB s.K p.1 j), p.2⟩)

/-- all rows in the order of the row counter `M` -/
def rows (s : Spec) (dt dx lv rv : List α) : List (Row α) :=
  let N := nSeg dt dx
  leftRows s lv ++ valueRows s N dx ++ contRows s N dt ++ rightRows s N rv

/-- `A.prune(1e-9)`: Eigen's `prune(reference, epsilon = dummy_precision = 1e-12)` keeps an entry
    iff `|v| > |reference|·epsilon`; `τ` is that product (1e-21) -/
def pruneRow (τ : α) (r : Row α) : Row α := ⟨r.ent.filter (fun e => τ < Scalar.abs e.2), r.rhs⟩

/-- `x` satisfies every row exactly -/
def RowsSat (rs : List (Row α)) (x : Nat → α) : Prop := ∀ r ∈ rs, rowDot r x = r.rhs

-- ---------------------------------------------------------------- KKT system (OptDeg ≥ 0)

/-- the cost-block factor the code uses: `pow(dt, 1 − 2·D)` with `D = splinespec_max_deriv`
    (NOT `OptDeg`) -/
def costFac (s : Spec) (dt : α) : α := nat 1 / ipow dt (2 * s.D - 1)

/-- the regularisation added on the diagonal of every cost block -/
def regEps : α := nat 1 / nat 1000000

/-- `H.insert(r, c) = v` calls: cost blocks, then every entry of the pruned `A` below them AND
    mirrored above them (the full symmetric matrix `[Q Aᵀ; A 0]`) -/
def kktEntries (s : Spec) (O : Nat) (τ : α) (dt dx lv rv : List α) : List (Nat × Nat × α) :=
  let N := nSeg dt dx
  let nC := s.nCoef N
  let P : Mat α (s.K + 1) (s.K + 1) := costP s.K O
  let Q := ((List.range N).zip dt).flatMap (fun p =>
    let fac := costFac s p.2
    (List.finRange (s.K + 1)).flatMap (fun ki => (List.finRange (s.K + 1)).map (fun kj =>
      (p.1 * (s.K + 1) + ki.val, p.1 * (s.K + 1) + kj.val,
        (if ki = kj then regEps else nat 0) + fac * P ki kj))))
  let A := ((List.range (s.nEq N)).zip ((rows s dt dx lv rv).map (pruneRow τ))).flatMap (fun p =>
    p.2.ent.flatMap (fun e => [(nC + p.1, e.1, e.2), (e.1, nC + p.1, e.2)]))
  Q ++ A

/-- `rhs = [0; b]` -/
def kktRhs (s : Spec) (dt dx lv rv : List α) : List α :=
  List.replicate (s.nCoef (nSeg dt dx)) (nat 0) ++ (rows s dt dx lv rv).map (·.rhs)

/-- `fit_spline_1d`.  `solveLU n A b` stands for `SparseLU(A).solve(b)` on the square constraint
    system, `solveKKT n H rhs` for `SparseLU(H).solve(rhs)` on the full symmetric KKT matrix; both
    are parameters with the contract "returns the solution of the linear system" (audited, not
    proved). -/
def fit1d (s : Spec) (τ : α) (dt dx lv rv : List α)
    (solveLU : Nat → List (Row α) → (Nat → α))
    (solveKKT : Nat → List (Nat × Nat × α) → List α → (Nat → α)) : List α :=
  let N := nSeg dt dx
  let nC := s.nCoef N
  match s.optDeg with
  | none =>
    let x := solveLU nC ((rows s dt dx lv rv).map (pruneRow τ))
    (List.range nC).map x
  | some O =>
    let z := solveKKT (nC + s.nEq N) (kktEntries s O τ dt dx lv rv) (kktRhs s dt dx lv rv)
    (List.range nC).map z

-- ---------------------------------------------------------------- fit_spline

section Glue
variable (G : LieModel α)

/-- one constructed segment: `Spline<K,G>(dt, cum_coefs, g)` -/
structure SegOut (α : Type) (G : LieModel α) (K : Nat) where
  dt : α
  cum : Fin K → Vec α G.dof
  g0 : Vec α G.rep

/-- `cum_coefs = V.block(0, i(K+1)+1, ·, K) − V.block(0, i(K+1), ·, K)`; `V k c` is the solution of
    the 1-d problem of tangent coordinate `k`; column `c` (only `c < K` is used) -/
def cumCoefs (K i : Nat) (V : Fin G.dof → Nat → α) : Nat → Vec α G.dof :=
  fun c => memoV (.of (fun k => V k (i * (K + 1) + 1 + c) - V k (i * (K + 1) + c)))

/-- the two loops before the `log`:
    `midval = g⁻¹·g_next; for k = 0..mid−1: midval = exp(−v_k)·midval;
     for k = K−1 down to mid+1: midval = midval·exp(−v_k)` -/
def midValue (K : Nat) (cum : Nat → Vec α G.dof) (g gnext : Vec α G.rep) : Vec α G.rep :=
  let mid := K / 2
  let h := memoV (G.composition (memoV (G.inverse g)) gnext)
  let m1 := (List.range mid).foldl (fun m k => memoV (G.composition (memoV (G.exp (vneg (cum k)))) m)) h
  ((List.range (K - 1 - mid)).map (· + (mid + 1))).reverse.foldl
    (fun m k => memoV (G.composition m (memoV (G.exp (vneg (cum k)))))) m1

/-- `if constexpr (K > 2) cum_coefs.col(K/2) = log(midval)` -/
def resolveMid (K : Nat) (cum : Nat → Vec α G.dof) (g gnext : Vec α G.rep) : Nat → Vec α G.dof :=
  if 2 < K then
    let v := memoV (G.log (midValue G K cum g gnext))
    fun k => if k = K / 2 then v else cum k
  else cum

/-- the segments `fit_spline` passes to `concat_global`, in order -/
def fitSegs (K : Nat) (ts : List α) (gs : List (Vec α G.rep)) (V : Fin G.dof → Nat → α) :
    List (SegOut α G K) :=
  let dts := (ts.zip (ts.drop 1)).map (fun p => p.2 - p.1)
  ((List.range dts.length).zip (dts.zip (gs.zip (gs.drop 1)))).map (fun p =>
    let cum := resolveMid G K (cumCoefs G K p.1 V) p.2.2.1 p.2.2.2
    ⟨p.2.1, fun c => cum c.val, p.2.2.1⟩)

/-- the end value of a segment as `Spline(T, V, ga)` computes it:
    `g ∘ exp(v₁) ∘ … ∘ exp(v_K)` (`cspline_eval_vs` at `u = 1`, where every `B̃ⱼ(1) = 1`) -/
def segEnd (K : Nat) (cum : Nat → Vec α G.dof) (g : Vec α G.rep) : Vec α G.rep :=
  (List.range K).foldl (fun m k => G.composition m (G.exp (cum k))) g

/-- `m_end_t` after the `concat_global` chain: running sums `tend + dt` -/
def endTimes (dts : List α) : List α :=
  (dts.foldl (fun (acc : α × List α) d => (acc.1 + d, acc.2 ++ [acc.1 + d])) (nat 0, [])).2

/-- value of the fitted curve inside segment `seg` at time `t` (`Spline::operator()` with
    `seg_T0 = 0`, `seg_Del = 1`): `g0 ∘ cspline_eval_vs(cum, B̃, clamp(0 + 1·(t − ta)/T))` -/
def evalSeg {K : Nat} (seg : SegOut α G K) (ta tb t : α) : Vec α G.rep :=
  let T := tb - ta
  let u0 := nat 0 + nat 1 * (t - ta) / T
  let u := if u0 < nat 0 then nat 0 else if nat 1 < u0 then nat 1 else u0
  G.composition seg.g0 (CSpline.eval_vs G seg.cum (bernCum K) u).g

end Glue

-- ---------------------------------------------------------------- fit_bspline sizes

/-- `NumPts = K + 1 + static_cast<Index>((t1 − t0)/dt)`: the window of the last data point starts
    at `istar = trunc((t1 − t0)/dt)` — the very expression the objective and `BSpline::operator()`
    evaluate — and needs `K + 1` control points; `trunc` is the float→integer conversion -/
def bsplineNumPts (trunc : α → Nat) (K : Nat) (t0 t1 dt : α) : Nat := K + 1 + trunc ((t1 - t0) / dt)

/-- `BSpline::t_max = t0 + (ctrl_pts.size() − K)·dt` -/
def bsplineTmax (trunc : α → Nat) (K : Nat) (t0 t1 dt : α) : α :=
  t0 + nat (bsplineNumPts trunc K t0 t1 dt - K) * dt

end Fit
