/-
  Oracle.lean — independent, exact evaluation used only by the audit (never by a theorem):

  * IEEE bit patterns → exact `Rat`;
  * dense `Rat` matrices (products, Gauss–Jordan inverse);
  * `BigFix`: 320-bit fixed point (`Int` scaled by 2^320) with matrix exponential by
    scaling-and-squaring of the Taylor series, `J(a) = Σ (−1)^k ad^k/(k+1)!`, and its inverse;
  * error measures returned as `Float`.

  These are *definitions of the mathematical objects* (series), deliberately not the closed forms
  the library uses, so that an error common to the library's functions cannot cancel.
-/
import SmoothModel.Lin

namespace Oracle

/-- exact value of an IEEE-754 binary64 bit pattern (finite inputs; inf/nan → 0) -/
def ratOfBits64 (b : UInt64) : Rat :=
  let sign : Int := if (b >>> 63) == 1 then -1 else 1
  let e := ((b >>> 52) &&& 0x7FF).toNat
  let m := (b &&& 0xFFFFFFFFFFFFF).toNat
  if e == 0x7FF then 0
  else if e == 0 then (sign * (m : Int) : Int) / ((2 : Rat) ^ 1074)
  else
    let mant : Int := sign * ((m + 2 ^ 52 : Nat) : Int)
    if e ≥ 1075 then (mant * (2 ^ (e - 1075) : Nat) : Int)
    else (mant : Rat) / ((2 : Rat) ^ (1075 - e))

def ratOfBits32 (b : UInt32) : Rat :=
  let sign : Int := if (b >>> 31) == 1 then -1 else 1
  let e := ((b >>> 23) &&& 0xFF).toNat
  let m := (b &&& 0x7FFFFF).toNat
  if e == 0xFF then 0
  else if e == 0 then (sign * (m : Int) : Int) / ((2 : Rat) ^ 149)
  else
    let mant : Int := sign * ((m + 2 ^ 23 : Nat) : Int)
    if e ≥ 150 then (mant * (2 ^ (e - 150) : Nat) : Int)
    else (mant : Rat) / ((2 : Rat) ^ (150 - e))

def isFinite64 (b : UInt64) : Bool := ((b >>> 52) &&& 0x7FF) != 0x7FF
def isFinite32 (b : UInt32) : Bool := ((b >>> 23) &&& 0xFF) != 0xFF

/-- rational → nearest-ish Float (good to ~1e-15 relative; used only for reporting errors) -/
def ratToFloat (q : Rat) : Float :=
  if q.num == 0 then 0.0 else
  let neg := q.num < 0
  let n := q.num.natAbs
  let d := q.den
  -- scale so that the quotient has ~64 significant bits
  let ln := n.log2
  let ld := d.log2
  let shift : Int := 64 - ((ln : Int) - (ld : Int))
  let qq : Nat := if shift ≥ 0 then (n <<< shift.toNat) / d else n / (d <<< (-shift).toNat)
  let f := Float.ofScientific qq false 0  -- exact for < 2^64 up to rounding
  let r := f * Float.exp2 (Float.ofInt (-shift))
  if neg then -r else r

-- ---------------------------------------------------------------- Rat matrices (arrays, row-major)
structure RMat where
  n : Nat
  m : Nat
  a : Array Rat
  deriving Inhabited

namespace RMat
def get (A : RMat) (i j : Nat) : Rat := A.a.getD (i * A.m + j) 0
def ofFn (n m : Nat) (f : Nat → Nat → Rat) : RMat :=
  ⟨n, m, Array.ofFn (n := n * m) (fun k => f (k.val / m) (k.val % m))⟩
def ident (n : Nat) : RMat := ofFn n n (fun i j => if i == j then 1 else 0)
def zero (n m : Nat) : RMat := ofFn n m (fun _ _ => 0)
def mul (A B : RMat) : RMat :=
  ofFn A.n B.m (fun i j => (List.range A.m).foldl (fun s k => s + A.get i k * B.get k j) 0)
def add (A B : RMat) : RMat := ofFn A.n A.m (fun i j => A.get i j + B.get i j)
def sub (A B : RMat) : RMat := ofFn A.n A.m (fun i j => A.get i j - B.get i j)
def smul (c : Rat) (A : RMat) : RMat := ofFn A.n A.m (fun i j => c * A.get i j)
def transpose (A : RMat) : RMat := ofFn A.m A.n (fun i j => A.get j i)
def maxAbs (A : RMat) : Rat := A.a.foldl (fun s x => if s < x.abs then x.abs else s) 0
def ofMat {n m : Nat} (A : Mat Rat n m) : RMat :=
  ofFn n m (fun i j => if h : i < n ∧ j < m then A ⟨i, h.1⟩ ⟨j, h.2⟩ else 0)

/-- Gauss–Jordan inverse with partial (first non-zero) pivoting; `none` if singular -/
def inverse (A : RMat) : Option RMat := Id.run do
  let n := A.n
  let mut M : Array (Array Rat) := Array.ofFn (n := n) (fun i =>
    Array.ofFn (n := 2 * n) (fun j => if j.val < n then A.get i.val j.val else if j.val - n == i.val then 1 else 0))
  for c in [0:n] do
    -- find pivot
    let mut p := c
    let mut found := false
    for r in [c:n] do
      if !found && (M[r]!)[c]! != 0 then
        p := r; found := true
    if !found then return none
    let rowp := M[p]!
    let rowc := M[c]!
    M := (M.set! p rowc).set! c rowp
    let piv := (M[c]!)[c]!
    let prow := (M[c]!).map (· / piv)
    M := M.set! c prow
    for r in [0:n] do
      if r != c then
        let f := (M[r]!)[c]!
        if f != 0 then
          let nr := Array.ofFn (n := 2 * n) (fun j => (M[r]!)[j.val]! - f * prow[j.val]!)
          M := M.set! r nr
  return some (ofFn n n (fun i j => (M[i]!)[n + j]!))
end RMat

-- ---------------------------------------------------------------- BigFix
/-- number of fractional bits -/
def FB : Nat := 320

/-- fixed point: value = v / 2^FB -/
abbrev BigFix := Int

namespace BigFix
def ofRat (q : Rat) : BigFix := (q.num * (2 ^ FB : Nat)) / (q.den : Int)
def toRat (x : BigFix) : Rat := (x : Rat) / ((2 : Rat) ^ FB)
def mul (a b : BigFix) : BigFix := (a * b) >>> FB
def one : BigFix := (2 ^ FB : Nat)
end BigFix

structure BMat where
  n : Nat
  a : Array Int
  deriving Inhabited

namespace BMat
def get (A : BMat) (i j : Nat) : Int := A.a.getD (i * A.n + j) 0
def ofFn (n : Nat) (f : Nat → Nat → Int) : BMat :=
  ⟨n, Array.ofFn (n := n * n) (fun k => f (k.val / n) (k.val % n))⟩
def ident (n : Nat) : BMat := ofFn n (fun i j => if i == j then BigFix.one else 0)
def mul (A B : BMat) : BMat :=
  ofFn A.n (fun i j => ((List.range A.n).foldl (fun s k => s + A.get i k * B.get k j) (0 : Int)) >>> FB)
def add (A B : BMat) : BMat := ofFn A.n (fun i j => A.get i j + B.get i j)
def sub (A B : BMat) : BMat := ofFn A.n (fun i j => A.get i j - B.get i j)
def neg (A : BMat) : BMat := ofFn A.n (fun i j => - A.get i j)
def divNat (A : BMat) (k : Nat) : BMat := ofFn A.n (fun i j => A.get i j / (k : Int))
def shr (A : BMat) (s : Nat) : BMat := ofFn A.n (fun i j => A.get i j >>> s)
def ofRMat (A : RMat) : BMat := ofFn A.n (fun i j => BigFix.ofRat (A.get i j))
def toRMat (A : BMat) : RMat := RMat.ofFn A.n A.n (fun i j => BigFix.toRat (A.get i j))
def maxAbs (A : BMat) : Int := A.a.foldl (fun s x => if s < x.natAbs then x.natAbs else s) 0

/-- matrix exponential: scale by 2^-s so that ‖A‖∞ ≤ 1/2, 60 Taylor terms (tail < 2^-300),
    square s times.  Squaring loses ≤ s bits out of 320; s ≤ ~20 for the inputs used. -/
def exp (A : BMat) : BMat := Id.run do
  -- infinity-norm bound (row sums)
  let mut nrm : Int := 0
  for i in [0:A.n] do
    let mut rs : Int := 0
    for j in [0:A.n] do rs := rs + (A.get i j).natAbs
    if rs > nrm then nrm := rs
  let mut s := 0
  let half : Int := BigFix.one / 2
  let mut t := nrm
  while t > half do
    t := t / 2; s := s + 1
  let As := A.shr s
  let mut term := ident A.n
  let mut sum := ident A.n
  for k in [1:45] do
    term := (term.mul As).divNat k
    sum := sum.add term
  let mut R := sum
  for _ in [0:s] do R := R.mul R
  return R

/-- `Σ_{k≥0} (−1)^k X^k/(k+1)!` (right Jacobian series with `X = ad a`), by the same scaling:
    `J(X) = ½ (1 + exp(−X/2)) J(X/2)` -/
def jacSeries (X : BMat) : BMat := Id.run do
  let mut nrm : Int := 0
  for i in [0:X.n] do
    let mut rs : Int := 0
    for j in [0:X.n] do rs := rs + (X.get i j).natAbs
    if rs > nrm then nrm := rs
  let mut s := 0
  let half : Int := BigFix.one / 2
  let mut t := nrm
  while t > half do
    t := t / 2; s := s + 1
  let Xs := X.shr s
  -- series at the scaled argument
  let mut term := ident X.n       -- (−Xs)^k / (k+1)!  built incrementally: t_k = t_{k-1}·(−Xs)/(k+1)
  let mut sum := ident X.n
  for k in [1:45] do
    term := ((term.mul Xs).neg).divNat (k + 1)
    sum := sum.add term
  -- undo the scaling: J(2Y) = ½ (1 + exp(−Y)) J(Y)
  let mut J := sum
  let mut Y := Xs
  for _ in [0:s] do
    let E := exp Y.neg
    J := ((ident X.n).add E).mul J |>.shr 1
    Y := ofFn Y.n (fun i j => 2 * Y.get i j)
  return J

/-- Gauss–Jordan inverse in fixed point with partial pivoting (largest magnitude) -/
def inverse (A : BMat) : Option BMat := Id.run do
  let n := A.n
  let mut M : Array (Array Int) := Array.ofFn (n := n) (fun i =>
    Array.ofFn (n := 2 * n) (fun j => if j.val < n then A.get i.val j.val else if j.val - n == i.val then BigFix.one else 0))
  for c in [0:n] do
    let mut p := c
    let mut best : Nat := 0
    for r in [c:n] do
      let v := ((M[r]!)[c]!).natAbs
      if v > best then
        p := r; best := v
    if best == 0 then return none
    let rowp := M[p]!
    let rowc := M[c]!
    M := (M.set! p rowc).set! c rowp
    let piv := (M[c]!)[c]!
    let prow := (M[c]!).map (fun (x : Int) => (x * ((2 ^ FB : Nat) : Int)) / piv)
    M := M.set! c prow
    for r in [0:n] do
      if r != c then
        let f := (M[r]!)[c]!
        if f != 0 then
          let nr := Array.ofFn (n := 2 * n) (fun j => (M[r]!)[j.val]! - ((f * prow[j.val]!) >>> FB))
          M := M.set! r nr
  return some (ofFn n (fun i j => (M[i]!)[n + j]!))
end BMat

end Oracle
