/-
  BaseSem.lean — the FIXED TABLE giving a meaning to the constructs of the GENERIC layer of
  pettni/smooth: include/smooth/lie_group_base.hpp (class `LieGroupBase<Derived>`, the operations every
  group type inherits) and include/smooth/detail/derivatives_impl.hpp (free functions `dr_rminus`, …).

  tools/gen_base.py (run through tools/gen_src.py on every check) transliterates the bodies of those
  members into `SmoothModel/Gen/BaseSrc.lean` as terms over an ABSTRACT record of implementation
  functions; SmoothProps/SrcTieImplC01..C05.lean prove them equal to the derived operations of the
  hand-written `LieModel` record (Group.lean) and of Derivs.lean, which the property theorems are about.

  The record of implementation functions.  `typename traits::Impl` offers `LieGroupBase` the static
  functions `setIdentity matrix composition inverse log Ad exp hat vee ad dr_exp dr_expinv d2r_exp
  d2r_expinv` (output parameter last) and the constants `RepSize Dof Dim IsCommutative`.  The structure
  `LieModel α` (Group.lean) has exactly these fields (`identity` = the value written by `setIdentity`,
  `comm` = `IsCommutative`), so the generated definitions take `(I : LieModel α)` in the role of `Impl`.
  A value of a group type is its coefficient vector (`coeffs()`):
      `cderived().coeffs()`, `*this`                        self : Vec α I.rep
      `static_cast<const OtherDerived &>(o).coeffs()`, `o`  o    : Vec α I.rep
      `PlainObject ret; … ret.coeffs()`                     a fresh value, written by the Impl call
      `Impl::f(x…, ret)`                                    `let ret := I.f x…`
      `if constexpr (IsCommutative) A else B`               `if I.comm then A else B`
      `TangentMap::Identity() ::Zero()`, `Hessian::Zero()`, `Tangent::Zero()`   ident mzero vzero
      `-a` (tangent), `-H` (Hessian), `M * b`               vneg mneg mulVec
      `x * y` on group values, `x.inverse()`, `x.log()`, `exp(a)` …   the generated member of that name
  What CANNOT be said at value level — writes through `derived().coeffs()`, the temporary of
  `operator*=` that protects against aliasing, `noexcept`, `requires`, constness, `[[nodiscard]]` — is
  PINNED TEXTUALLY by the translator (normalised token sequences stored in tools/gen_base.py; a
  difference is a hard error naming the member).

  No Mathlib import.
-/
import SmoothModel.Group
import SmoothModel.Derivs
import SmoothModel.EigenSem

open Scalar Lin EigenSem

namespace LieModel
variable {α : Type} [Scalar α]

/-- the record applies the `if constexpr (IsCommutative)` short-cuts of `LieGroupBase`: for a commutative
    group its `Ad`, `ad`, `dr_exp`, `dr_expinv`, `d2r_exp`, `d2r_expinv` fields ARE the constants the base
    class returns (vacuous for the non-commutative groups, whose fields are the `Impl` functions) -/
structure ShortCut (G : LieModel α) : Prop where
  Ad : G.comm = true → ∀ g, G.Ad g = ident G.dof
  ad : G.comm = true → ∀ a, G.ad a = mzero G.dof G.dof
  dr_exp : G.comm = true → ∀ a, G.dr_exp a = ident G.dof
  dr_expinv : G.comm = true → ∀ a, G.dr_expinv a = ident G.dof
  d2r_exp : G.comm = true → ∀ a, G.d2r_exp a = mzero G.dof (G.dof * G.dof)
  d2r_expinv : G.comm = true → ∀ a, G.d2r_expinv a = mzero G.dof (G.dof * G.dof)

end LieModel

namespace BaseSem
variable {α : Type} [Scalar α]

/-- `e.transpose() * J` — a row vector times a matrix, `Σ_l e(l)·J(l,j)` summed left to right from 0
    (the product convention of EigenSem), returned as a vector (`Eigen::RowVector`) -/
def rowMul {n m : Nat} (e : Vec α n) (J : Mat α n m) : Vec α m :=
  .of (fun j => vsum n (fun l => e l * J l j))

/-- `e.transpose()` passed as a `1 × n` matrix -/
def rowMat {n : Nat} (e : Vec α n) : Mat α 1 n := .of (fun _ j => e j)

/-- an `n × n` matrix passed where `d2_fog` expects the Hessian of ONE output, `n × (1·n)` -/
def asHess1 {n : Nat} (A : Mat α n n) : Mat α n (1 * n) :=
  .of (fun p q => A p ⟨q.val, by have := q.isLt; omega⟩)

/-- the `n × (1·n)` result of `d2_fog` for one output, returned as `n × n` -/
def ofHess1 {n : Nat} (A : Mat α n (1 * n)) : Mat α n n :=
  .of (fun r c => A r ⟨c.val, by have := c.isLt; omega⟩)

/-- `res.block<d, d>(0, j·d, d, d).applyOnTheRight(J)` — the `j`-th `d × d` column block of `res` is
    replaced by `block · J` (MatrixBase::applyOnTheRight: `B = B * J`); other entries unchanged -/
def applyRightBlock {d : Nat} (res : Mat α d (d * d)) (j : Nat) (hj : j < d) (J : Mat α d d) :
    Mat α d (d * d) :=
  .of (fun r c =>
    if c.val / d = j then
      vsum d (fun l => res r ⟨j * d + l.val, Derivs.idx_lt hj l.isLt⟩ *
        J l ⟨c.val % d, Derivs.mod_lt_of c.isLt⟩)
    else res r c)

end BaseSem
