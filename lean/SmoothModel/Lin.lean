/-
  Lin.lean — fixed-size vectors and matrices as functions on `Fin`, with the handful of
  operations the C++ uses from Eigen (dense products, blocks, segments).

  `Vec α n` wraps `Fin n → α`, `Mat α n m` wraps `Fin n → Fin m → α`; `M.get` is definitionally a
  Mathlib `Matrix (Fin n) (Fin m) α`, so the proofs can use Mathlib's matrix algebra on model terms.
  Sums are left-to-right (`vsum`), the order of a plain scalar loop.
-/
import SmoothModel.Scalar

open Scalar

/-- A vector is a wrapped function.  The wrapper is what makes the model executable: Lean's
    compiler eta-expands definitions whose result type is a function, so `let`-bound
    intermediate results would be recomputed for every entry that is read; a structure-valued
    definition evaluates them once and the closure captures the values. -/
structure Vec (α : Type) (n : Nat) where
  get : Fin n → α
  /-- dummy second field: keeps the structure from being a "trivial structure" that the compiler
      represents by its only field (a function, which would be eta-expanded again) -/
  tag : Unit := ()

structure Mat (α : Type) (n m : Nat) where
  get : Fin n → Fin m → α
  tag : Unit := ()

@[inline] def Vec.of {α : Type} {n : Nat} (f : Fin n → α) : Vec α n := ⟨f, ()⟩
@[inline] def Mat.of {α : Type} {n m : Nat} (f : Fin n → Fin m → α) : Mat α n m := ⟨f, ()⟩

instance {α : Type} {n : Nat} : CoeFun (Vec α n) (fun _ => Fin n → α) := ⟨Vec.get⟩
instance {α : Type} {n m : Nat} : CoeFun (Mat α n m) (fun _ => Fin n → Fin m → α) := ⟨Mat.get⟩

@[ext] theorem Vec.ext' {α : Type} {n : Nat} {a b : Vec α n} (h : ∀ i, a i = b i) : a = b := by
  cases a; cases b; congr; funext i; exact h i

@[ext] theorem Mat.ext' {α : Type} {n m : Nat} {a b : Mat α n m} (h : ∀ i j, a i j = b i j) : a = b := by
  cases a; cases b; congr; funext i j; exact h i j

namespace Lin
variable {α : Type} [Scalar α]

/-- left-to-right sum `((0 + f 0) + f 1) + …` -/
def vsum : (n : Nat) → (Fin n → α) → α
  | 0, _ => nat 0
  | n+1, f => vsum n (fun i => f i.castSucc) + f (Fin.last n)

/-- execution helper: evaluate all entries once (semantically the identity, `memoV_eq`) -/
@[noinline] def memoV {n : Nat} (f : Vec α n) : Vec α n :=
  let v := Vector.ofFn f.get
  .of (fun i => v[i])

omit [Scalar α] in
theorem memoV_eq {n : Nat} (f : Vec α n) : memoV f = f := by
  cases f; simp [memoV, Vec.of]

@[noinline] def memoM {n m : Nat} (f : Mat α n m) : Mat α n m :=
  let v := Vector.ofFn (fun i => Vector.ofFn (f.get i))
  .of (fun i j => (v[i])[j])

omit [Scalar α] in
theorem memoM_eq {n m : Nat} (f : Mat α n m) : memoM f = f := by
  cases f; simp [memoM, Mat.of]

def mk1 (a : α) : Vec α 1 := .of (fun _ => a)
def mk2 (a b : α) : Vec α 2 := .of (fun i => match i with | 0 => a | 1 => b)
def mk3 (a b c : α) : Vec α 3 := .of (fun i => match i with | 0 => a | 1 => b | 2 => c)
def mk4 (a b c d : α) : Vec α 4 := .of (fun i => match i with | 0 => a | 1 => b | 2 => c | 3 => d)

def mat2 (a b c d : α) : Mat α 2 2 := .of (fun i j =>
  match i, j with | 0, 0 => a | 0, 1 => b | 1, 0 => c | 1, 1 => d)

def mat3 (a b c d e f g h k : α) : Mat α 3 3 := .of (fun i j =>
  match i, j with
  | 0, 0 => a | 0, 1 => b | 0, 2 => c
  | 1, 0 => d | 1, 1 => e | 1, 2 => f
  | 2, 0 => g | 2, 1 => h | 2, 2 => k)

def vzero (n : Nat) : Vec α n := .of (fun _ => nat 0)
def mzero (n m : Nat) : Mat α n m := .of (fun _ _ => nat 0)
def ident (n : Nat) : Mat α n n := .of (fun i j => if i = j then nat 1 else nat 0)

def vadd {n} (a b : Vec α n) : Vec α n := .of (fun i => a i + b i)
def vsub {n} (a b : Vec α n) : Vec α n := .of (fun i => a i - b i)
def vneg {n} (a : Vec α n) : Vec α n := .of (fun i => - a i)
def vsmul {n} (s : α) (a : Vec α n) : Vec α n := .of (fun i => s * a i)
def dot {n} (a b : Vec α n) : α := vsum n (fun i => a i * b i)
def sqNorm {n} (a : Vec α n) : α := dot a a

def madd {n m} (A B : Mat α n m) : Mat α n m := .of (fun i j => A i j + B i j)
def msub {n m} (A B : Mat α n m) : Mat α n m := .of (fun i j => A i j - B i j)
def mneg {n m} (A : Mat α n m) : Mat α n m := .of (fun i j => - A i j)
def msmul {n m} (s : α) (A : Mat α n m) : Mat α n m := .of (fun i j => s * A i j)
def mdivs {n m} (A : Mat α n m) (s : α) : Mat α n m := .of (fun i j => A i j / s)
def mmul {n k m} (A : Mat α n k) (B : Mat α k m) : Mat α n m :=
  .of (fun i j => vsum k (fun l => A i l * B l j))
def mulVec {n m} (A : Mat α n m) (v : Vec α m) : Vec α n :=
  .of (fun i => vsum m (fun l => A i l * v l))
def transpose {n m} (A : Mat α n m) : Mat α m n := .of (fun i j => A j i)

/-- `v.segment(off, len)` -/
def seg {n} (v : Vec α n) (off len : Nat) (h : off + len ≤ n) : Vec α len :=
  .of (fun i => v ⟨off + i.val, by omega⟩)

/-- `M.block(r0, c0, nr, nc)` -/
def block {n m} (M : Mat α n m) (r0 c0 nr nc : Nat) (hr : r0 + nr ≤ n) (hc : c0 + nc ≤ m) :
    Mat α nr nc :=
  .of (fun i j => M ⟨r0 + i.val, by omega⟩ ⟨c0 + j.val, by omega⟩)

/-- concatenation of two vectors -/
def vcat {n m} (a : Vec α n) (b : Vec α m) : Vec α (n + m) :=
  .of (fun i => if h : i.val < n then a ⟨i.val, h⟩ else b ⟨i.val - n, by omega⟩)

/-- 3-vector cross product `a × b` -/
def cross (a b : Vec α 3) : Vec α 3 :=
  mk3 (a 1 * b 2 - a 2 * b 1) (a 2 * b 0 - a 0 * b 2) (a 0 * b 1 - a 1 * b 0)

@[noinline] def toArray {n} (v : Vec α n) : Array α := Array.ofFn v.get
@[noinline] def matToArray {n m} (A : Mat α n m) : Array α :=
  -- row-major
  Array.ofFn (n := n * m) (fun k =>
    A ⟨k.val / m, by
        have hk := k.isLt
        have hm : 0 < m := by
          rcases Nat.eq_zero_or_pos m with h | h
          · subst h; simp at hk
          · exact h
        exact (Nat.div_lt_iff_lt_mul hm).2 hk⟩
      ⟨k.val % m, by
        have hk := k.isLt
        have hm : 0 < m := by
          rcases Nat.eq_zero_or_pos m with h | h
          · subst h; simp at hk
          · exact h
        exact Nat.mod_lt _ hm⟩)

/-- read a vector out of an array (missing entries are 0; the driver checks sizes) -/
def ofArray (n : Nat) (a : Array α) (off : Nat := 0) : Vec α n :=
  .of (fun i => a.getD (off + i.val) (nat 0))

def matOfArray (n m : Nat) (a : Array α) (off : Nat := 0) : Mat α n m :=
  .of (fun i j => a.getD (off + i.val * m + j.val) (nat 0))

end Lin
