/-
  EigenSem.lean — the FIXED TABLE giving a meaning to the Eigen 3.4 constructs that occur in the
  bodies of the `*Impl` classes of pettni/smooth (include/smooth/detail/{so2,c1,tn,se2,so3,se3,galilei,
  se_k_3}.hpp).

  tools/gen_impl.py (run through tools/gen_src.py on every check) transliterates those bodies
  statement by statement into `SmoothModel/Gen/ImplSrc.lean`; every Eigen construct is mapped to one
  definition of `Lin` (Lin.lean) or of this file.  The table is part of the trusted base: it says
  WHICH arithmetic Eigen performs for a construct, in which order.  It is hand-written from the Eigen
  3.4.0 sources (file and line given at each entry) and is independent of the hand-written group
  models SmoothModel/SO3.lean …: the tie theorems of SmoothProps/SrcTieImpl.lean compare the two.

  Dense expressions (Eigen/src/Core):
    `A + B`, `A - B`, `-A`, `s * A`, `A * s`, `A / s`   coefficient-wise           madd msub mneg msmul msmulR mdivs
    `A * B`, `A * v`                                   Σ_l A(i,l)·B(l,j), summed   mmul mulVec
         left to right starting from 0 (`Lin.vsum`).  NOTE Eigen's reduction order for an inner
         dimension of 3 depends on the scalar type and the instruction set (packet path: left to
         right; scalar path `redux_novec_unroller`: x0 + (x1 + x2)); that difference is a rounding
         matter covered by the execution tie T1, not by this table.
    `(s * A) * B`                                      is NOT `s * (A * B)`: Eigen multiplies the
         entries of A by s first (CwiseBinaryOp nested in the lazy product, ProductEvaluators.h).
    `v.squaredNorm()`, `v.dot(w)`                      sqNorm dot (same remark on the order)
    `Identity()`, `Zero()`, `setIdentity()`, `setZero()`   ident mzero vzero
    `x *= s` (vector/matrix times scalar)              entries `x(i) * s`          vscaleR mscaleR
    `B *= M` (block times matrix, MatrixBase::operator*=, MatrixBase.h:  `B = B * M`)
    `.head<k>() .tail<k>() .segment<k>(o) .block<r,c>(i,j) .topLeftCorner<r,c>() … .col(j) .row(i)
     .middleCols<k>(j) .transpose()`                   index arithmetic only
    `x << e0, e1, …`                                   row-major fill (CommaInitializer.h)
    `Eigen::Ref<[const] T> x = <block>`                a VIEW of the block, not a copy (Ref.h): later
         writes to the viewed object are seen through x; writes through a non-const x go to it
    `B.setIdentity()` on a 1×1 block                   the scalar 1
    `for (auto i = 0u; i < K; ++i)`, K a template parameter   forLoop (below)
  Geometry (Eigen/src/Geometry/Quaternion.h), coefficient order (x y z w):
    `q.toRotationMatrix()`   lines 592–624                                         quatToRot
    `q1 * q2`                lines 487–498, the generic `quat_product`             quatMul
    `q.inverse()`            lines 720–731 (`conjugate().coeffs() / n2`, zero when n2 = 0)   quatInverse
    `q.conjugate()`          lines 735–741                                         quatConj

  No Mathlib import (links into the driver like the rest of SmoothModel/).
-/
import SmoothModel.Lin

open Scalar Lin
namespace EigenSem
variable {α : Type} [Scalar α]

/-! ### declared-but-unassigned objects
The translator performs a definite-assignment analysis (all indices are static): it is a hard error
if an entry of such an object is read before it is written or survives into a result.  Hence the
value chosen here is irrelevant. -/
def uninitV (n : Nat) : Vec α n := vzero n
def uninitM (n m : Nat) : Mat α n m := mzero n m

/-! ### coefficient-wise operations missing from Lin -/
/-- `A * s` -/
def msmulR {n m} (A : Mat α n m) (s : α) : Mat α n m := .of (fun i j => A i j * s)
/-- `v * s` -/
def vsmulR {n} (v : Vec α n) (s : α) : Vec α n := .of (fun i => v i * s)
/-- `v / s` -/
def vdivs {n} (v : Vec α n) (s : α) : Vec α n := .of (fun i => v i / s)
/-- `v *= s` -/
def vscaleR {n} (v : Vec α n) (s : α) : Vec α n := .of (fun i => v i * s)
/-- `A *= s` -/
def mscaleR {n m} (A : Mat α n m) (s : α) : Mat α n m := .of (fun i j => A i j * s)

/-! ### literals (comma initialiser, nested braces): row-major -/
def vecLit (n : Nat) (l : List α) : Vec α n := .of (fun i => l.getD i.val (nat 0))
def matLit (n m : Nat) (l : List α) : Mat α n m := .of (fun i j => l.getD (i.val * m + j.val) (nat 0))

/-! ### read access -/
def head {n} (k : Nat) (v : Vec α n) (h : k ≤ n := by omega) : Vec α k :=
  .of (fun i => v ⟨i.val, by omega⟩)
def tail {n} (k : Nat) (v : Vec α n) (h : k ≤ n := by omega) : Vec α k :=
  .of (fun i => v ⟨n - k + i.val, by omega⟩)
def segment {n} (k off : Nat) (v : Vec α n) (h : off + k ≤ n := by omega) : Vec α k :=
  .of (fun i => v ⟨off + i.val, by omega⟩)
/-- `M.block<nr,nc>(r0,c0)` and the corner forms -/
def blockM {n m} (nr nc r0 c0 : Nat) (M : Mat α n m) (hr : r0 + nr ≤ n := by omega)
    (hc : c0 + nc ≤ m := by omega) : Mat α nr nc :=
  .of (fun i j => M ⟨r0 + i.val, by omega⟩ ⟨c0 + j.val, by omega⟩)
/-- a block with ONE column, as a vector: `M.block<nr,1>(r0,c0)`, `M.col(c0)` -/
def blockCol {n m} (nr r0 c0 : Nat) (M : Mat α n m) (hr : r0 + nr ≤ n := by omega)
    (hc : c0 < m := by omega) : Vec α nr :=
  .of (fun i => M ⟨r0 + i.val, by omega⟩ ⟨c0, hc⟩)
/-- `M.row(r).transpose()` as a vector -/
def rowT {n m} (r : Nat) (M : Mat α n m) (hr : r < n := by omega) : Vec α m :=
  .of (fun j => M ⟨r, hr⟩ j)

/-! ### write access (functional update) -/
def setCoeffV {n} (v : Vec α n) (k : Nat) (x : α) : Vec α n :=
  .of (fun i => if i.val = k then x else v i)
def setCoeffM {n m} (M : Mat α n m) (r c : Nat) (x : α) : Mat α n m :=
  .of (fun i j => if i.val = r ∧ j.val = c then x else M i j)
def setSegment {n k} (v : Vec α n) (off : Nat) (w : Vec α k) : Vec α n :=
  .of (fun i => if h : off ≤ i.val ∧ i.val < off + k then w ⟨i.val - off, by omega⟩ else v i)
def setBlock {n m nr nc} (M : Mat α n m) (r0 c0 : Nat) (B : Mat α nr nc) : Mat α n m :=
  .of (fun i j =>
    if h : (r0 ≤ i.val ∧ i.val < r0 + nr) ∧ (c0 ≤ j.val ∧ j.val < c0 + nc) then
      B ⟨i.val - r0, by omega⟩ ⟨j.val - c0, by omega⟩
    else M i j)
/-- assign a vector to a one-column block -/
def setBlockCol {n m nr} (M : Mat α n m) (r0 c0 : Nat) (w : Vec α nr) : Mat α n m :=
  .of (fun i j =>
    if h : (r0 ≤ i.val ∧ i.val < r0 + nr) ∧ j.val = c0 then w ⟨i.val - r0, by omega⟩ else M i j)

/-! ### loops whose bound is a symbolic template parameter (`for (auto i = 0u; i < K; ++i) { … }`)
The translator unrolls loops with a literal bound; a loop over the template parameter `K` of
`SE_K_3Impl<Scalar, K>` is kept as a loop: the body becomes a state transformer (the state is the
one variable the body assigns), applied for `i = 0, 1, …, K − 1` in this order.  The body receives
`i < K`, which the index-bound proofs (`by omega`) of the block reads inside it use. -/

/-- the state after the first `j` iterations -/
def forLoopAux {σ : Type} (K : Nat) (body : (i : Nat) → i < K → σ → σ) (init : σ) :
    (j : Nat) → j ≤ K → σ
  | 0, _ => init
  | j + 1, h => body j (by omega) (forLoopAux K body init j (by omega))

/-- `for (auto i = 0u; i < K; ++i) s = body i s;` -/
def forLoop {σ : Type} (K : Nat) (body : (i : Nat) → i < K → σ → σ) (init : σ) : σ :=
  forLoopAux K body init K (Nat.le_refl K)

/-! ### quaternions: a quaternion is its coefficient vector (x y z w) -/

/-- Quaternion.h 592–624 `QuaternionBase::toRotationMatrix` -/
def quatToRot (q : Vec α 4) : Mat α 3 3 :=
  let tx := nat 2 * q 0
  let ty := nat 2 * q 1
  let tz := nat 2 * q 2
  let twx := tx * q 3
  let twy := ty * q 3
  let twz := tz * q 3
  let txx := tx * q 0
  let txy := ty * q 0
  let txz := tz * q 0
  let tyy := ty * q 1
  let tyz := tz * q 1
  let tzz := tz * q 2
  mat3 (nat 1 - (tyy + tzz)) (txy - twz) (txz + twy)
       (txy + twz) (nat 1 - (txx + tzz)) (tyz - twx)
       (txz - twy) (tyz + twx) (nat 1 - (txx + tyy))

/-- Quaternion.h 487–498 generic `quat_product::run`; the constructor takes (w, x, y, z) -/
def quatMul (a b : Vec α 4) : Vec α 4 :=
  mk4 (a 3 * b 0 + a 0 * b 3 + a 1 * b 2 - a 2 * b 1)
      (a 3 * b 1 + a 1 * b 3 + a 2 * b 0 - a 0 * b 2)
      (a 3 * b 2 + a 2 * b 3 + a 0 * b 1 - a 1 * b 0)
      (a 3 * b 3 - a 0 * b 0 - a 1 * b 1 - a 2 * b 2)

/-- Quaternion.h 735–741 generic `quat_conj::run` -/
def quatConj (q : Vec α 4) : Vec α 4 := mk4 (-(q 0)) (-(q 1)) (-(q 2)) (q 3)

/-- Quaternion.h 720–731 `QuaternionBase::inverse` -/
def quatInverse (q : Vec α 4) : Vec α 4 :=
  let n2 := sqNorm q
  if nat 0 < n2 then vdivs (quatConj q) n2 else vzero 4

end EigenSem
