/-
  Scalar.lean — the scalar abstraction the whole model is written against.

  The model of pettni/smooth is written ONCE over `[Scalar α]`:
  * at `α := Float` / `Float32` it is the executable model run by the driver and compared
    bit-for-bit (up to a few ulp) with the C++ implementation (tie T1);
  * at `α := Rat` (algebraic operations only) it is the exact oracle used by the audit;
  * at `α := ℝ` (instance in SmoothProofs/Real.lean) it is the object of the theorems.

  No Mathlib import here: everything under SmoothModel/ links into the `smoothdrv` executable.
  Literals are written through `NatCast` (`nat 2`) — a global `OfNat α n` instance from this class
  would loop with Mathlib's numeral simp lemmas at `α := ℝ`.
-/

class Scalar (α : Type) extends Add α, Sub α, Mul α, Div α, Neg α, NatCast α, LT α, LE α where
  sin : α → α
  cos : α → α
  tan : α → α
  sqrt : α → α
  atan2 : α → α → α
  exp : α → α
  log : α → α
  /-- the library constant `eps2` (detail/common.hpp) converted to the scalar type, `S(eps2)` -/
  eps2 : α
  /-- machine epsilon of the scalar type (`Eigen::NumTraits<S>::epsilon()`) -/
  macheps : α
  pi : α
  decLt : ∀ a b : α, Decidable (a < b)
  decLe : ∀ a b : α, Decidable (a ≤ b)

namespace Scalar
variable {α : Type} [Scalar α]

instance (a b : α) : Decidable (a < b) := Scalar.decLt a b
instance (a b : α) : Decidable (a ≤ b) := Scalar.decLe a b

/-- numeric literal `n` in the scalar type -/
@[reducible] def nat (n : Nat) : α := ((n : Nat) : α)

/-- `|x|` as the C++ `std::abs` / `Eigen abs` computes it for finite x -/
def abs (x : α) : α := if x < nat 0 then -x else x

def max (a b : α) : α := if a < b then b else a
def min (a b : α) : α := if b < a then b else a

end Scalar

open Scalar

instance : Scalar Float where
  natCast := Float.ofNat
  sin := Float.sin
  cos := Float.cos
  tan := Float.tan
  sqrt := Float.sqrt
  atan2 := Float.atan2
  exp := Float.exp
  log := Float.log
  eps2 := 1e-8
  macheps := 2.220446049250313e-16
  pi := 3.14159265358979323846
  decLt := fun a b => inferInstanceAs (Decidable (a < b))
  decLe := fun a b => inferInstanceAs (Decidable (a ≤ b))

instance : Scalar Float32 where
  natCast := Float32.ofNat
  sin := Float32.sin
  cos := Float32.cos
  tan := Float32.tan
  sqrt := Float32.sqrt
  atan2 := Float32.atan2
  exp := Float32.exp
  log := Float32.log
  eps2 := (1e-8 : Float).toFloat32
  macheps := (1.1920928955078125e-7 : Float).toFloat32
  pi := (3.14159265358979323846 : Float).toFloat32
  decLt := fun a b => inferInstanceAs (Decidable (a < b))
  decLe := fun a b => inferInstanceAs (Decidable (a ≤ b))

/-- Exact rationals: algebraic operations only.  The transcendental fields are never reached by
    the oracle (it only evaluates `matrix`, `hat`, products); they return 0. -/
instance : Scalar Rat where
  natCast := fun n => (n : Rat)
  sin := fun _ => 0
  cos := fun _ => 0
  tan := fun _ => 0
  sqrt := fun _ => 0
  atan2 := fun _ _ => 0
  exp := fun _ => 0
  log := fun _ => 0
  eps2 := (1 : Rat) / 100000000
  macheps := 0
  pi := 0
  decLt := fun a b => inferInstanceAs (Decidable (a < b))
  decLe := fun a b => inferInstanceAs (Decidable (a ≤ b))
