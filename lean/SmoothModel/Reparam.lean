/-
  Reparam.lean — spline/detail/reparameterize_impl.hpp: bookkeeping of `reparameterize_spline`.
  The curve enters only through the recorded values `(vel, acc)` at the grid points (the harness
  observes them through the callable it passes), the RESULTS of the 2-d linear programme `lp2d::solve` are a
  PARAMETER (`(y_opt, a_opt, status)` per grid point, status 0 = Optimal, 1 = PrimaryInfeasible,
  2 = DualInfeasible); `lpRows` are the rows the code hands to it.  Emitted segments are `Spline<2,double>{dt, (dt·vi/2, dt·(dt·ai+vi)/2), si}`.
-/
import SmoothModel.Lin

open Scalar Lin

namespace Reparam
variable {α : Type} [Scalar α]

/-- `eps = 1e-8` of reparameterize_impl.hpp -/
def eps : α := nat 1 / nat 100000000
def inf : α := nat 1 / nat 0

structure Bounds (α : Type) (n : Nat) where
  vmin : Vec α n
  vmax : Vec α n
  amin : Vec α n
  amax : Vec α n

/-- velocity and acceleration of the curve at one grid point -/
structure Sample (α : Type) (n : Nat) where
  vel : Vec α n
  acc : Vec α n

/-- `v2max(N)`: squared end velocity made feasible with zero acceleration -/
def endV2 {n : Nat} (b : Bounds α n) (endVel : α) (p : Sample α n) : α :=
  (List.finRange n).foldl (fun ret j =>
    if eps < p.vel j then
      Scalar.min (Scalar.min ret (Scalar.sqrt (b.vmax j / p.vel j))) (b.amax j / p.vel j)
    else if p.vel j < -eps then
      Scalar.min (Scalar.min ret (Scalar.sqrt (b.vmin j / p.vel j))) (b.amin j / p.vel j)
    else ret) (endVel * endVel)

/-- the `1 + 3·Dof` rows `(a_y, a_a, c)` of the linear programme at one grid point:
    `[1]  y + 2 ds a ≤ y_{i+1}`, `[2]  vel² y ≤ vmax²|vmin²`, `[3]  ± (acc y + vel a) ≤ ± bound` -/
def lpRows {n : Nat} (b : Bounds α n) (ds v2next : α) (p : Sample α n) : List (α × α × α) :=
  [(nat 1, nat 2 * ds, v2next)]
  ++ (List.finRange n).map (fun j =>
      if eps < p.vel j then (p.vel j * p.vel j, nat 0, b.vmax j * b.vmax j)
      else if p.vel j < -eps then (p.vel j * p.vel j, nat 0, b.vmin j * b.vmin j)
      else (nat 0, nat 0, nat 0))
  ++ (List.finRange n).map (fun j => (p.acc j, p.vel j, b.amax j))
  ++ (List.finRange n).map (fun j => (-(p.acc j), -(p.vel j), -(b.amin j)))

/-- reverse pass with the LP results as a parameter: `lpres i = (y_opt, a_opt, status)` is what
    `lp2d::solve(-1, 0, rows_i)` returned at grid point `i = 0..N−1`; returns `v2max(0..N)`:
    `max(0, y_opt)` when Optimal (`(0,0)` is always feasible), `inf` when DualInfeasible, `0` otherwise -/
def backward (lpres : List (α × α × Nat)) (v2end : α) : List α :=
  lpres.foldr (fun r acc =>
    (if r.2.2 = 0 then Scalar.max (nat 0) r.1 else if r.2.2 = 2 then inf else nat 0) :: acc) [v2end]

/-- the rows handed to the LP at every grid point, given `v2max` -/
def lpRowsAll {n : Nat} (b : Bounds α n) (ds : α) (v2max : List α) (samples : List (Sample α n)) :
    List (List (α × α × α)) :=
  ((List.range samples.length).zip samples).map (fun p => lpRows b ds (v2max.getD (p.1 + 1) (nat 0)) p.2)

/-- the results are those of an LP solver `lp` applied to the model's rows -/
def LpConsistent {n : Nat} (lp : List (α × α × α) → α × α × Nat) (b : Bounds α n) (ds : α)
    (v2max : List α) (samples : List (Sample α n)) (lpres : List (α × α × Nat)) : Prop :=
  lpres = (lpRowsAll b ds v2max samples).map lp

/-- maximal allowed acceleration at `(si, vi²)` -/
def maxAcc {n : Nat} (b : Bounds α n) (ds v2next vi2 : α) (p : Sample α n) : α :=
  (List.finRange n).foldl (fun r j =>
    if eps < p.vel j then Scalar.min r ((b.amax j - p.acc j * vi2) / p.vel j)
    else if p.vel j < -eps then Scalar.min r ((b.amin j - p.acc j * vi2) / p.vel j)
    else r) ((v2next - vi2) / (nat 2 * ds))

/-- an emitted segment -/
structure SegOut (α : Type) where
  dt : α
  c1 : α
  c2 : α
  s0 : α

/-- duration of the segment started at speed `vi` with acceleration `ai` over arclength `ds` -/
def segDt (ds vi vi2 ai : α) : α :=
  if Scalar.abs ai < eps then ds / vi
  else (-vi + Scalar.sqrt (Scalar.max eps (vi2 + nat 2 * ds * ai))) / ai

def mkSeg (si vi ai dt : α) : SegOut α := ⟨dt, dt * vi / nat 2, dt * (dt * ai + vi) / nat 2, si⟩

/-- one forward step: state `v2m`, returns the new state and the emitted segment (if any) -/
def fwdStep {n : Nat} (b : Bounds α n) (ds si v2next v2m : α) (p : Sample α n) : α × Option (SegOut α) :=
  let vi2 := v2m
  let vi := Scalar.sqrt vi2
  let ai := maxAcc b ds v2next vi2 p
  if inf ≤ ai then (v2m, none)   -- `ai != inf` fails
  else
    let dt := segDt ds vi vi2 ai
    -- a segment is emitted only `if (dt > 0)`: a clamped speed that is decelerated further takes no time
    (Scalar.max eps (vi2 + nat 2 * ai * ds), if nat 0 < dt then some (mkSeg si vi ai dt) else none)

/-- loop body of the forward pass: state = (`v2m`, grid index `i`, segments emitted so far) -/
def fstep {n : Nat} (b : Bounds α n) (s0 ds : α) (v2max : List α)
    (st : α × Nat × List (SegOut α)) (p : Sample α n) : α × Nat × List (SegOut α) :=
  let i := st.2.1
  let si := s0 + ds * nat i
  let r := fwdStep b ds si (v2max.getD (i + 1) (nat 0)) st.1 p
  (r.1, i + 1, match r.2 with | some sg => st.2.2 ++ [sg] | none => st.2.2)

/-- forward pass over the grid points `i = 0..N−1` given `v2max(0..N)` -/
def forward {n : Nat} (b : Bounds α n) (s0 ds startVel : α) (v2max : List α)
    (samples : List (Sample α n)) : List (SegOut α) :=
  (samples.foldl (fstep b s0 ds v2max) (Scalar.min (startVel * startVel) (v2max.headD (nat 0)), 0, [])).2.2

/-- `t_max` of the returned map: running sum of the segment durations -/
def totalTime (segs : List (SegOut α)) : α := segs.foldl (fun t sg => t + sg.dt) (nat 0)

end Reparam
