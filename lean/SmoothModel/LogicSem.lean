/-
  LogicSem.lean — FIXED MEANING of the few Eigen / STL constructs that tools/gen_logic2.py emits as a named
  operation rather than inline (part of the trusted base of the source tie, next to EigenSem.lean which serves
  tools/gen_impl.py; listed in DESIGN.md §8.1).  Mathlib-free.
-/
import SmoothModel.Lin

open Scalar Lin

namespace LogicSem
variable {α : Type} [Scalar α]

/-- Eigen `v.normalized()` (Dense/Dot.h): `z = v.squaredNorm(); z > 0 ? v / sqrt(z) : v` -/
def normalized {n : Nat} (v : Vec α n) : Vec α n :=
  if nat 0 < sqNorm v then .of (fun i => v i / sqrt (sqNorm v)) else v

end LogicSem
