/-
  Galilei.lean — detail/galilei.hpp (GalileiImpl) and public extras of galilei.hpp.
  Layout: group (v[3] p[3] tau q[4]); tangent (b[3] q[3] s Ω[3]).
-/
import SmoothModel.Lin
import SmoothModel.Trig
import SmoothModel.SO3
import SmoothModel.SE3

open Scalar Lin
namespace Galilei
variable {α : Type} [Scalar α]

def gv (g : Vec α 11) : Vec α 3 := mk3 (g 0) (g 1) (g 2)
def gp (g : Vec α 11) : Vec α 3 := mk3 (g 3) (g 4) (g 5)
def gt (g : Vec α 11) : α := g 6
def gq (g : Vec α 11) : Vec α 4 := mk4 (g 7) (g 8) (g 9) (g 10)
def mkG (v p : Vec α 3) (t : α) (q : Vec α 4) : Vec α 11 := (.of (fun i =>
  if h : i.val < 3 then v ⟨i.val, h⟩
  else if h2 : i.val < 6 then p ⟨i.val - 3, by omega⟩
  else if i.val = 6 then t
  else q ⟨i.val - 7, by omega⟩))

def tb (a : Vec α 10) : Vec α 3 := mk3 (a 0) (a 1) (a 2)
def tq (a : Vec α 10) : Vec α 3 := mk3 (a 3) (a 4) (a 5)
def ts (a : Vec α 10) : α := a 6
def tw (a : Vec α 10) : Vec α 3 := mk3 (a 7) (a 8) (a 9)
def mkT (b q : Vec α 3) (s : α) (w : Vec α 3) : Vec α 10 := (.of (fun i =>
  if h : i.val < 3 then b ⟨i.val, h⟩
  else if h2 : i.val < 6 then q ⟨i.val - 3, by omega⟩
  else if i.val = 6 then s
  else w ⟨i.val - 7, by omega⟩))

def identity : Vec α 11 := mkG (vzero 3) (vzero 3) (nat 0) SO3.identity

def matrix (g : Vec α 11) : Mat α 5 5 :=
  let R := SO3.matrix (gq g)
  (.of (fun i j =>
    if hi : i.val < 3 then
      if hj : j.val < 3 then R ⟨i.val, hi⟩ ⟨j.val, hj⟩
      else if j.val = 3 then g ⟨i.val, by omega⟩          -- v
      else g ⟨3 + i.val, by omega⟩                         -- p
    else if i.val = 3 then
      (if j.val = 3 then nat 1 else if j.val = 4 then g 6 else nat 0)
    else (if j.val = 4 then nat 1 else nat 0)))

def composition (a b : Vec α 11) : Vec α 11 :=
  let q := SO3.composition (gq a) (gq b)
  let R1 := memoM (SO3.matrix (gq a))
  let v := vadd (mulVec R1 (gv b)) (gv a)
  let R1p := mulVec R1 (gp b)
  let p : Vec α 3 := (.of (fun i => (R1p i + gv a i * gt b) + gp a i))
  mkG v p (gt a + gt b) q

def inverse (g : Vec α 11) : Vec α 11 :=
  let qi := memoV (SO3.inverse (gq g))
  let Rinv := memoM (SO3.matrix qi)
  let v := mulVec (mneg Rinv) (gv g)
  let p := mulVec Rinv (.of (fun i => -(gp g i) + gt g * gv g i))
  mkG v p (-(gt g)) qi

def log (g : Vec α 11) : Vec α 10 :=
  let w := memoV (SO3.log (gq g))
  let S1inv := memoM (SO3.calc_S1inv w)
  let S2 := memoM (SO3.calc_S2 w)
  let b := memoV (mulVec S1inv (gv g))
  let S2b := mulVec S2 b
  let q := mulVec S1inv (.of (fun i => gp g i - S2b i * gt g))
  mkT b q (gt g) w

def blockSet (M : Mat α 10 10) (r0 c0 : Nat) (B : Mat α 3 3) : Mat α 10 10 := (.of (fun i j =>
  if h : r0 ≤ i.val ∧ i.val < r0 + 3 ∧ c0 ≤ j.val ∧ j.val < c0 + 3 then
    B ⟨i.val - r0, by omega⟩ ⟨j.val - c0, by omega⟩
  else M i j))

def Ad (g : Vec α 11) : Mat α 10 10 :=
  let v := gv g
  let p := gp g
  let t := gt g
  let R := memoM (SO3.matrix (gq g))
  let hvR := memoM (mmul (SO3.hat v) R)
  let hpR := memoM (mmul (SO3.hat (.of (fun i => p i - v i * t))) R)
  let mRt : Mat α 3 3 := (.of (fun i j => -(R i j) * t))
  let Z : Mat α 10 10 := mzero 10 10
  let M1 := blockSet (blockSet Z 0 0 R) 0 7 hvR
  let M2 := blockSet (blockSet (blockSet M1 3 0 mRt) 3 3 R) 3 7 hpR
  let M3 := blockSet M2 7 7 R
  (.of (fun i j =>
    if hi : 3 ≤ i.val ∧ i.val < 6 ∧ j.val = 6 then v ⟨i.val - 3, by omega⟩
    else if i.val = 6 ∧ j.val = 6 then nat 1
    else M3 i j))

def exp (a : Vec α 10) : Vec α 11 :=
  let q := SO3.exp (tw a)
  let S1 := memoM (SO3.calc_S1 (tw a))
  let S2 := memoM (SO3.calc_S2 (tw a))
  let v := mulVec S1 (tb a)
  let S1q := mulVec S1 (tq a)
  let S2b := mulVec S2 (tb a)
  let p : Vec α 3 := (.of (fun i => S1q i + S2b i * ts a))
  mkG v p (ts a) q

def hat (a : Vec α 10) : Mat α 5 5 :=
  let W := SO3.hat (tw a)
  (.of (fun i j =>
    if hi : i.val < 3 then
      if hj : j.val < 3 then W ⟨i.val, hi⟩ ⟨j.val, hj⟩
      else if j.val = 3 then a ⟨i.val, by omega⟩
      else a ⟨3 + i.val, by omega⟩
    else if i.val = 3 then (if j.val = 4 then a 6 else nat 0)
    else nat 0))

def vee (A : Mat α 5 5) : Vec α 10 :=
  let w := SO3.vee (.of (fun i j => A ⟨i.val, by omega⟩ ⟨j.val, by omega⟩))
  mkT (mk3 (A 0 3) (A 1 3) (A 2 3)) (mk3 (A 0 4) (A 1 4) (A 2 4)) (A 3 4) w

def ad (a : Vec α 10) : Mat α 10 10 :=
  let b := tb a
  let q := tq a
  let s := ts a
  let W := SO3.hat (tw a)
  let mS : Mat α 3 3 := (.of (fun i j => (-s) * ident 3 i j))
  let Z : Mat α 10 10 := mzero 10 10
  let M1 := blockSet (blockSet Z 0 0 W) 0 7 (SO3.hat b)
  let M2 := blockSet (blockSet (blockSet M1 3 0 mS) 3 3 W) 3 7 (SO3.hat q)
  let M3 := blockSet M2 7 7 W
  (.of (fun i j =>
    if hi : 3 ≤ i.val ∧ i.val < 6 ∧ j.val = 6 then b ⟨i.val - 3, by omega⟩
    else M3 i j))

/-- `calculate_r(v, w)` (galilei.hpp:209-229) -/
def calculate_r (v w : Vec α 3) : Mat α 3 3 :=
  let th2 := sqNorm w
  let V := SO3.hat v
  let W := SO3.hat w
  let vdw := dot v w
  let WV := memoM (mmul W V)
  let VW := memoM (mmul V W)
  let WW := memoM (mmul W W)
  let WWV := memoM (mmul W WV)
  let VWW := memoM (mmul V WW)
  -- `Scalar(2) * W * WV` is `(2·W)·WV` in the source (tied by SrcTieImpl.galilei_calculate_r)
  let W2WV := memoM (mmul (msmul (nat 2) W) WV)
  let s3 := Trig.sin_3 th2
  let c4 := Trig.cos_4 th2
  let s5 := Trig.sin_5 th2
  let c6 := Trig.cos_6 th2
  let h : α := nat 1 / nat 2
  (.of (fun i j =>
    (((V i j / nat 6
      + s3 * (-(WV i j) + (h * vdw) * W i j))
      + c4 * ((((VW i j + WWV i j) - nat 2 * WV i j) - (h * vdw) * WW i j) + (nat 2 * vdw) * W i j))
      + s5 * ((VWW i j - W2WV i j) + (nat 2 * vdw) * (WW i j - W i j)))
      + c6 * ((nat 2 * vdw) * WW i j)))

def dr_exp (a : Vec α 10) : Mat α 10 10 :=
  let b := tb a; let q := tq a; let s := ts a; let w := tw a
  let nw := vneg w
  let S1 := memoM (SO3.calc_S1 nw)
  let S2 := memoM (SO3.calc_S2 nw)
  let Qb := memoM (SE3.calculate_q (vneg b) nw)
  let Qq := memoM (SE3.calculate_q (vneg q) nw)
  let R := memoM (calculate_r (vneg b) nw)
  let B30 : Mat α 3 3 := (.of (fun i j => s * (S1 i j - S2 i j)))
  let B37 : Mat α 3 3 := (.of (fun i j => s * R i j + Qq i j))
  let mS2b := mulVec (mneg S2) b
  let Z : Mat α 10 10 := mzero 10 10
  let M1 := blockSet (blockSet Z 0 0 S1) 0 7 Qb
  let M2 := blockSet (blockSet (blockSet M1 3 0 B30) 3 3 S1) 3 7 B37
  let M3 := blockSet M2 7 7 S1
  (.of (fun i j =>
    if hi : 3 ≤ i.val ∧ i.val < 6 ∧ j.val = 6 then mS2b ⟨i.val - 3, by omega⟩
    else if i.val = 6 ∧ j.val = 6 then nat 1
    else M3 i j))

def dr_expinv (a : Vec α 10) : Mat α 10 10 :=
  let b := tb a; let q := tq a; let s := ts a; let w := tw a
  let nw := vneg w
  let I : Mat α 3 3 := ident 3
  let S1inv := memoM (SO3.calc_S1inv nw)
  let S2 := memoM (SO3.calc_S2 nw)
  let Qb := memoM (SE3.calculate_q (vneg b) nw)
  let Qq := memoM (SE3.calculate_q (vneg q) nw)
  let R := memoM (calculate_r (vneg b) nw)
  let B07 := memoM (mmul (memoM (mmul (mneg S1inv) Qb)) S1inv)
  let S1iS2 := memoM (mmul S1inv S2)
  let B30 := memoM (mmul (memoM (.of (fun i j => (-s) * (I i j - S1iS2 i j)))) S1inv)
  let B36 := mulVec S1iS2 b
  let S2S1i := memoM (mmul S2 S1inv)
  let T1 := memoM (mmul (memoM (.of (fun i j => s * (I i j - S2S1i i j)))) Qb)
  let mid := memoM (.of (fun i j => ((-s) * R i j - Qq i j) + T1 i j))
  let B37 := memoM (mmul (memoM (mmul S1inv mid)) S1inv)
  let Z : Mat α 10 10 := mzero 10 10
  let M1 := blockSet (blockSet Z 0 0 S1inv) 0 7 B07
  let M2 := blockSet (blockSet (blockSet M1 3 0 B30) 3 3 S1inv) 3 7 B37
  let M3 := blockSet M2 7 7 S1inv
  (.of (fun i j =>
    if hi : 3 ≤ i.val ∧ i.val < 6 ∧ j.val = 6 then B36 ⟨i.val - 3, by omega⟩
    else if i.val = 6 ∧ j.val = 6 then nat 1
    else M3 i j))

/-- galilei.hpp `operator*(Vector4)` -/
def act (g : Vec α 11) (x : Vec α 4) : Vec α 4 :=
  let r := SO3.act (gq g) (mk3 (x 0) (x 1) (x 2))
  mk4 ((r 0 + gv g 0 * x 3) + gp g 0) ((r 1 + gv g 1 * x 3) + gp g 1)
      ((r 2 + gv g 2 * x 3) + gp g 2) (x 3 + gt g)

/-- galilei.hpp `dr_action(x)` : 4×10 -/
def dr_action (g : Vec α 11) (x : Vec α 4) : Mat α 4 10 :=
  let R := memoM (SO3.matrix (gq g))
  let D := memoM (SO3.dr_action (gq g) (mk3 (x 0) (x 1) (x 2)))
  (.of (fun i j =>
    if hi : i.val < 3 then
      if hj : j.val < 3 then x 3 * R ⟨i.val, hi⟩ ⟨j.val, hj⟩
      else if hj2 : j.val < 6 then R ⟨i.val, hi⟩ ⟨j.val - 3, by omega⟩
      else if j.val = 6 then gv g ⟨i.val, hi⟩
      else D ⟨i.val, hi⟩ ⟨j.val - 7, by omega⟩
    else (if j.val = 6 then nat 1 else nat 0)))

end Galilei
