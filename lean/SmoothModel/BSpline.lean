/-
  BSpline.lean — spline/bspline.hpp + spline/detail/bspline_impl.hpp (`BSpline<K, G>`):
  `t_min`, `t_max`, and `operator()(t, vel, acc)`: interval index, the three clamp branches, the
  window of `K+1` control points, `cspline_eval_gs` with the cumulative B-spline basis, scaling of
  the derivatives.  The basis matrix is a PARAMETER (`Bcum`); the harness sends the table the code
  uses (`polynomial_cumulative_basis<Bspline, K>`), C20 proves facts about those tables.

  -- src: spline/detail/bspline_impl.hpp:30-46 (dt, t_min, t_max), :55-101 (operator())
-/
import SmoothModel.Lin
import SmoothModel.Group
import SmoothModel.CSpline

open Scalar Lin

/-- `static_cast<int64_t>(x)`: truncation toward zero (the argument is clamped to `[−1, N]` first,
    see `BSpline.clampQ`; NaN is out of scope). -/
class ScalarTrunc (α : Type) where
  trunc : α → Int

/-- exact truncation toward zero of a finite binary64 (NaN/inf → 0) -/
def BSpline.floatTruncInt (x : Float) : Int :=
  let b := x.toBits
  let e := ((b >>> 52) &&& 0x7FF).toNat
  let m := (b &&& 0xFFFFFFFFFFFFF).toNat
  let neg := (b >>> 63) == 1
  if e == 0x7FF then 0
  else if e < 1023 then 0
  else
    let mant : Nat := m + 2 ^ 52
    -- value = mant · 2^(e − 1075)
    let v : Nat := if e ≥ 1075 then mant <<< (e - 1075) else mant >>> (1075 - e)
    if neg then -(v : Int) else (v : Int)

instance : ScalarTrunc Float := ⟨BSpline.floatTruncInt⟩
instance : ScalarTrunc Float32 := ⟨fun x => BSpline.floatTruncInt x.toFloat⟩
instance : ScalarTrunc Rat := ⟨fun q => if q < 0 then -((-q).floor) else q.floor⟩

namespace BSpline
variable {α : Type} [Scalar α] [ScalarTrunc α]

/-- `t_min() = m_t0` -/
def t_min (t0 : α) : α := t0

/-- `t_max() = m_t0 + static_cast<double>(m_ctrl_pts.size() − K) * m_dt` (`N ≥ K`) -/
def t_max (K N : Nat) (t0 dt : α) : α := t0 + nat (N - K) * dt

/-- `std::clamp(v, lo, hi)` = `(v < lo) ? lo : (hi < v) ? hi : v` -/
def clamp (v lo hi : α) : α := if v < lo then lo else if hi < v then hi else v

/-- What happens to the quotient `(t − t0)/dt` before the `int64_t` cast: it is clamped to
    `[−1, N]` (`std::clamp<double>(q, -1., static_cast<double>(m_ctrl_pts.size()))`,
    bspline_impl.hpp:59-60 — the fix of the int64 overflow for `|(t−t0)/dt| ≥ 2^63`), so the cast
    never leaves the range of `int64_t`.  (Before the fix this was the identity.) -/
def clampQ (N : Nat) (q : α) : α := clamp q (-(nat 1)) (nat N)

/-- the raw interval index `static_cast<int64_t>((t − t0) / dt)` -/
def rawIndex (N : Nat) (t0 dt t : α) : Int := ScalarTrunc.trunc (clampQ N ((t - t0) / dt))

/-- interval index and local parameter after the three clamp branches (lines 57-69):
    `istar < 0 → (0, 0)`;  `istar + K + 1 > N → (N − K − 1, 1)`;
    otherwise `(istar, clamp((t − t0 − istar·dt)/dt, 0, 1))`. -/
def select (K N : Nat) (t0 dt t : α) : Nat × α :=
  let q := rawIndex N t0 dt t
  if q < 0 then (0, nat 0)
  else if q + ((K : Int) + 1) > (N : Int) then (N - K - 1, nat 1)
  else (q.toNat, clamp ((t - t0 - nat q.toNat * dt) / dt) (nat 0) (nat 1))

/-- the window `ctrl | drop(istar) | take(K+1)` -/
def window {β : Type} (dflt : β) (K : Nat) (ctrl : List β) (istar : Nat) : Fin (K + 1) → β :=
  fun i => ctrl.getD (istar + i.val) dflt

variable (G : LieModel α)

/-- result of `operator()(t, vel, acc)` -/
structure Out (α : Type) (G : LieModel α) where
  g : Vec α G.rep
  vel : Vec α G.dof
  acc : Vec α G.dof

/-- `BSpline<K,G>::operator()(t, vel, acc)` with control points `ctrl` (`N = ctrl.length`) -/
def eval (K : Nat) (Bcum : Mat α (K + 1) (K + 1)) (t0 dt : α) (ctrl : List (Vec α G.rep)) (t : α) : Out α G :=
  let sel := select K ctrl.length t0 dt t
  let s := CSpline.eval_gs G (window G.identity K ctrl sel.1) Bcum sel.2
  -- vel /= dt; acc /= dt*dt
  let dt2 := dt * dt
  ⟨s.g, .of (fun i => s.vel i / dt), .of (fun i => s.acc i / dt2)⟩

end BSpline
