/-
  SO3.lean — detail/so3.hpp (SO3Impl) and the public extras of so3.hpp.
  Layout: group (qx qy qz qw) — Eigen quaternion coefficient order; tangent (Ωx Ωy Ωz).
  Eigen 3.4 routines used by the C++ are written out as the formulas Eigen implements:
  `Quaternion::operator*` (generic path), `toRotationMatrix`, `inverse`, `_transformVector`,
  `normalized`.
-/
import SmoothModel.Lin
import SmoothModel.Trig

open Scalar Lin
namespace SO3
variable {α : Type} [Scalar α]

def hat (a : Vec α 3) : Mat α 3 3 :=
  mat3 (nat 0) (-(a 2)) (a 1) (a 2) (nat 0) (-(a 0)) (-(a 1)) (a 0) (nat 0)

def vee (A : Mat α 3 3) : Vec α 3 :=
  mk3 ((A 2 1 - A 1 2) / nat 2) ((A 0 2 - A 2 0) / nat 2) ((A 1 0 - A 0 1) / nat 2)

def ad (a : Vec α 3) : Mat α 3 3 := hat a

/-- `S1 = Σ ŵ^k/(k+1)!` — `I − cos_2·M − sin_3·M·M`.  The C++ `sin_3(th2) * M * M` parses (and Eigen
    evaluates) as `(sin_3·M)·M`: the scalar multiplies the entries of the LEFT factor first
    (tied to the source by SrcTieImpl.so3_calc_S1). -/
def calc_S1 (a : Vec α 3) : Mat α 3 3 :=
  let th2 := sqNorm a
  let M := hat a
  let c2 := Trig.cos_2 th2
  let s3 := Trig.sin_3 th2
  let sMM := memoM (mmul (msmul s3 M) M)
  (.of (fun i j => (ident 3 i j - c2 * M i j) - sMM i j))

/-- `S2 = Σ ŵ^k/(k+2)!` — `I/2 − sin_3·M + cos_4·M·M` -/
def calc_S2 (a : Vec α 3) : Mat α 3 3 :=
  let th2 := sqNorm a
  let M := hat a
  let s3 := Trig.sin_3 th2
  let c4 := Trig.cos_4 th2
  let cMM := memoM (mmul (msmul c4 M) M)
  (.of (fun i j => (ident 3 i j / nat 2 - s3 * M i j) + cMM i j))

/-- coefficient `A` of `calc_S1inv` / `d2r_expinv` -/
def S1invA (th2 : α) : α :=
  if th2 < Scalar.eps2 then
    nat 1 / nat 12 + th2 / nat 720
  else
    let th := Scalar.sqrt th2
    nat 1 / th2 - (nat 1 + Scalar.cos th) / (nat 2 * th * Scalar.sin th)

def calc_S1inv (a : Vec α 3) : Mat α 3 3 :=
  let th2 := sqNorm a
  let A := S1invA th2
  let M := hat a
  let AMM := memoM (mmul (msmul A M) M)
  (.of (fun i j => (ident 3 i j - M i j / nat 2) + AMM i j))

def identity : Vec α 4 := mk4 (nat 0) (nat 0) (nat 0) (nat 1)

/-- canonical sign: `if (g[3] < 0) g *= -1` -/
def canon (g : Vec α 4) : Vec α 4 :=
  if g 3 < nat 0 then (.of (fun i => g i * (-(nat 1)))) else g

/-- `Eigen::Quaternion::toRotationMatrix` -/
def matrix (g : Vec α 4) : Mat α 3 3 :=
  let x := g 0; let y := g 1; let z := g 2; let w := g 3
  let tx := nat 2 * x; let ty := nat 2 * y; let tz := nat 2 * z
  let twx := tx * w; let twy := ty * w; let twz := tz * w
  let txx := tx * x; let txy := ty * x; let txz := tz * x
  let tyy := ty * y; let tyz := tz * y; let tzz := tz * z
  mat3 (nat 1 - (tyy + tzz)) (txy - twz) (txz + twy)
       (txy + twz) (nat 1 - (txx + tzz)) (tyz - twx)
       (txz - twy) (tyz + twx) (nat 1 - (txx + tyy))

/-- Eigen generic quaternion product (coefficients x y z w) -/
def qmul (a b : Vec α 4) : Vec α 4 :=
  let ax := a 0; let ay := a 1; let az := a 2; let aw := a 3
  let bx := b 0; let by' := b 1; let bz := b 2; let bw := b 3
  mk4 (aw * bx + ax * bw + ay * bz - az * by')
      (aw * by' + ay * bw + az * bx - ax * bz)
      (aw * bz + az * bw + ax * by' - ay * bx)
      (aw * bw - ax * bx - ay * by' - az * bz)

def composition (a b : Vec α 4) : Vec α 4 := canon (qmul a b)

/-- `Eigen::Quaternion::inverse`: `conjugate / squaredNorm` (zero quaternion → zero) -/
def inverse (g : Vec α 4) : Vec α 4 :=
  let n2 := sqNorm g
  if nat 0 < n2 then
    mk4 (-(g 0) / n2) (-(g 1) / n2) (-(g 2) / n2) (g 3 / n2)
  else vzero 4

def logPhi (xyz2 w : α) : α :=
  if xyz2 < Scalar.eps2 then
    nat 2 / w - nat 2 * xyz2 / (nat 3 * w * w * w)
  else
    let xyz := Scalar.sqrt xyz2
    nat 2 * Scalar.atan2 xyz w / xyz

def log (g : Vec α 4) : Vec α 3 :=
  let xyz2 := g 0 * g 0 + g 1 * g 1 + g 2 * g 2
  let phi := logPhi xyz2 (g 3)
  mk3 (g 0 * phi) (g 1 * phi) (g 2 * phi)

def Ad (g : Vec α 4) : Mat α 3 3 := matrix g

/-- coefficients (A, B) of `exp` -/
def expAB (th2 : α) : α × α :=
  if th2 < Scalar.eps2 then
    (nat 1 / nat 2 - th2 / nat 48, nat 1 - th2 / nat 8)
  else
    let th := Scalar.sqrt th2
    (Scalar.sin (th / nat 2) / th, Scalar.cos (th / nat 2))

def exp (a : Vec α 3) : Vec α 4 :=
  let th2 := sqNorm a
  let AB := expAB th2
  canon (mk4 (AB.1 * a 0) (AB.1 * a 1) (AB.1 * a 2) AB.2)

def dr_exp (a : Vec α 3) : Mat α 3 3 := calc_S1 (vneg a)

def dr_expinv (a : Vec α 3) : Mat α 3 3 := madd (calc_S1inv a) (ad a)

/-- `(A, B, dA_over_th, dB_over_th)` of `d2r_exp` -/
def d2rExpCoef (th2 : α) : α × α × α × α :=
  let th := Scalar.sqrt th2
  if th2 < Scalar.eps2 then
    (nat 1 / nat 2 - th2 / nat 24, nat 1 / nat 6 - th2 / nat 120, -(nat 1) / nat 12, -(nat 1) / nat 60)
  else
    let sTh := Scalar.sin th
    let cTh := Scalar.cos th
    let th3 := th2 * th
    let th4 := th2 * th2
    let th5 := th3 * th2
    ((nat 1 - cTh) / th2, (th - sTh) / th3,
      sTh / th3 + nat 2 * cTh / th4 - nat 2 / th4,
      -cTh / th4 - nat 2 / th4 + nat 3 * sTh / th5)

/-- rows of a 3×9 table given as three lists of nine entries -/
def tab39 (r0 r1 r2 : Vec α 9) : Mat α 3 9 := (.of (fun i => match i with | 0 => r0 | 1 => r1 | 2 => r2))

def mk9 (a0 a1 a2 a3 a4 a5 a6 a7 a8 : α) : Vec α 9 := (.of (fun i =>
  match i with
  | 0 => a0 | 1 => a1 | 2 => a2 | 3 => a3 | 4 => a4 | 5 => a5 | 6 => a6 | 7 => a7 | 8 => a8))

/-- `H.col(i + 3 j) ∓= c_i * M.row(j)ᵀ`: entry `(r, i + 3 j)` receives `c_i * M j r` -/
def d2r_exp (a : Vec α 3) : Mat α 3 9 :=
  let th2 := sqNorm a
  let co := d2rExpCoef th2
  let A := co.1; let B := co.2.1; let dA := co.2.2.1; let dB := co.2.2.2
  let x := a 0; let y := a 1; let z := a 2
  let H0 : Mat α 3 9 := tab39
    (mk9 (nat 0) (-(nat 2) * B * y) (-(nat 2) * B * z) (B * y) (B * x) (-A) (B * z) A (B * x))
    (mk9 (B * y) (B * x) A (-(nat 2) * B * x) (nat 0) (-(nat 2) * B * z) (-A) (B * z) (B * y))
    (mk9 (B * z) (-A) (B * x) A (B * z) (B * y) (-(nat 2) * B * x) (-(nat 2) * B * y) (nat 0))
  let ad_a := ad a
  let ad_a2 := memoM (mmul ad_a ad_a)
  (.of (fun r c =>
    let i : Fin 3 := ⟨c.val % 3, Nat.mod_lt _ (by decide)⟩
    let j : Fin 3 := ⟨c.val / 3, by have := c.isLt; omega⟩
    (H0 r c - (dA * a i) * ad_a j r) + (dB * a i) * ad_a2 j r))

/-- `(A, dA_over_th)` of `d2r_expinv` -/
def d2rExpinvCoef (th2 : α) : α × α :=
  let th := Scalar.sqrt th2
  if th2 < Scalar.eps2 then
    (nat 1 / nat 12 + th2 / nat 720, nat 1 / nat 360)
  else
    let th3 := th2 * th
    let th4 := th2 * th2
    let sTh := Scalar.sin th
    let cTh := Scalar.cos th
    (nat 1 / th2 - (nat 1 + cTh) / (nat 2 * th * sTh),
      nat 1 / (nat 2 * th2) + cTh * cTh / (nat 2 * th2 * sTh * sTh) + cTh / (nat 2 * th2 * sTh * sTh)
        + cTh / (nat 2 * th3 * sTh) + nat 1 / (nat 2 * th3 * sTh) - nat 2 / th4)

def d2r_expinv (a : Vec α 3) : Mat α 3 9 :=
  let th2 := sqNorm a
  let co := d2rExpinvCoef th2
  let A := co.1; let dA := co.2
  let x := a 0; let y := a 1; let z := a 2
  let h : α := nat 1 / nat 2
  let H0 : Mat α 3 9 := tab39
    (mk9 (nat 0) (-(nat 2) * A * y) (-(nat 2) * A * z) (A * y) (A * x) h (A * z) (-h) (A * x))
    (mk9 (A * y) (A * x) (-h) (-(nat 2) * A * x) (nat 0) (-(nat 2) * A * z) h (A * z) (A * y))
    (mk9 (A * z) h (A * x) (-h) (A * z) (A * y) (-(nat 2) * A * x) (-(nat 2) * A * y) (nat 0))
  let ad_a := ad a
  let ad_a2 := memoM (mmul ad_a ad_a)
  (.of (fun r c =>
    let i : Fin 3 := ⟨c.val % 3, Nat.mod_lt _ (by decide)⟩
    let j : Fin 3 := ⟨c.val / 3, by have := c.isLt; omega⟩
    H0 r c + (dA * a i) * ad_a2 j r))

/-- so3.hpp `operator*(Vector3)`: Eigen `_transformVector`:
    `uv = 2 (q.vec × v); v + w·uv + q.vec × uv` -/
def act (g : Vec α 4) (v : Vec α 3) : Vec α 3 :=
  let u := mk3 (g 0) (g 1) (g 2)
  let c := cross u v
  let uv := memoV (vadd c c)
  let c2 := cross u uv
  (.of (fun i => (v i + g 3 * uv i) + c2 i))

/-- so3.hpp `dr_action(v) = −matrix()·hat(v)` -/
def dr_action (g : Vec α 4) (v : Vec α 3) : Mat α 3 3 :=
  mmul (mneg (matrix g)) (hat v)

/-- Eigen `normalized()` followed by the canonical sign — `SO3(quaternion)` constructor -/
def ofQuat (q : Vec α 4) : Vec α 4 :=
  let n := Scalar.sqrt (sqNorm q)
  canon (.of (fun i => q i / n))

def rot_x (t : α) : Vec α 4 :=
  canon (mk4 (Scalar.sin (t / nat 2)) (nat 0) (nat 0) (Scalar.cos (t / nat 2)))
def rot_y (t : α) : Vec α 4 :=
  canon (mk4 (nat 0) (Scalar.sin (t / nat 2)) (nat 0) (Scalar.cos (t / nat 2)))
def rot_z (t : α) : Vec α 4 :=
  canon (mk4 (nat 0) (nat 0) (Scalar.sin (t / nat 2)) (Scalar.cos (t / nat 2)))

end SO3
