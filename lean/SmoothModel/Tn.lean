/-
  Tn.lean — detail/tn.hpp (TnImpl<N>): translations; also `traits::lie` for Eigen vectors and
  built-in scalars (lie_groups/rn.hpp, lie_groups/scalar.hpp), which behave identically.
-/
import SmoothModel.Lin

open Scalar Lin
namespace Tn
variable {α : Type} [Scalar α]

def identity (n : Nat) : Vec α n := vzero n
def matrix {n : Nat} (g : Vec α n) : Mat α (n + 1) (n + 1) := (.of (fun i j =>
  if j.val < n then (if i.val = j.val then nat 1 else nat 0)
  else if hi : i.val < n then g ⟨i.val, hi⟩ else nat 1))
def composition {n : Nat} (a b : Vec α n) : Vec α n := vadd a b
def inverse {n : Nat} (g : Vec α n) : Vec α n := vneg g
def log {n : Nat} (g : Vec α n) : Vec α n := g
def exp {n : Nat} (a : Vec α n) : Vec α n := a
def hat {n : Nat} (a : Vec α n) : Mat α (n + 1) (n + 1) := (.of (fun i j =>
  if j.val < n then nat 0
  else if hi : i.val < n then a ⟨i.val, hi⟩ else nat 0))
def vee {n : Nat} (A : Mat α (n + 1) (n + 1)) : Vec α n := (.of (fun i =>
  A ⟨i.val, by omega⟩ ⟨n, by omega⟩))

end Tn
