/-
  Convert.lean — relations and conversions between the group types (property C17):
  the public-class extras of so2.hpp, so3.hpp, se2.hpp, se3.hpp, c1.hpp that move between
  representations, and the coefficient embeddings SE_K_3<1> ↔ SE3, SE_K_3<2> → Galilei.

  Everything is written over `[Scalar α]` like the rest of the model and mirrors the expression
  trees of the headers (operation order matters: the executable model is compared with the
  implementation to the ulp).  `SO3.ofQuat`, `SO3.rot_x/y/z` (so3.hpp) and `C1.so2 / scaling /
  angle / ofScalingAngle` (c1.hpp) already live next to their groups.

  NOT modelled (parameters with a contract, audited on the implementation only):
  `Eigen::Matrix3::eulerAngles` and `Eigen::Quaternion(Matrix3)`.
-/
import SmoothModel.Lin
import SmoothModel.SO2
import SmoothModel.SO3
import SmoothModel.SE2
import SmoothModel.SE3
import SmoothModel.C1
import SmoothModel.Galilei
import SmoothModel.SEK3

open Scalar Lin

namespace Conv
variable {α : Type} [Scalar α]

/-! ### SO2: constructors (so2.hpp:197-239) -/

/-- `SO2(qz, qw)`: `n = sqrt(qw*qw + qz*qz)`, coefficients `(qz/n, qw/n)` -/
def so2OfCoeffs (qz qw : α) : Vec α 2 :=
  let n := Scalar.sqrt (qw * qw + qz * qz)
  mk2 (qz / n) (qw / n)

/-- `SO2(angle)`: `(sin angle, cos angle)` -/
def so2OfAngle (a : α) : Vec α 2 := mk2 (Scalar.sin a) (Scalar.cos a)

/-- `SO2(std::complex c)`: `n = sqrt(im*im + re*re)`, coefficients `(im/n, re/n)` -/
def so2OfComplex (re im : α) : Vec α 2 :=
  let n := Scalar.sqrt (im * im + re * re)
  mk2 (im / n) (re / n)

/-! ### SO2: angle representations (so2.hpp:72-105) -/

/-- `angle()`: `log().x()` = `atan2(qz, qw)` -/
def angle (g : Vec α 2) : α := (SO2.log g) 0

/-- `angle_cw()` (so2.hpp, after fix 38a157c): `x = coeffs.y (= qw)`, `y = coeffs.x (= qz)`;
    `a = atan2(y, x)`; `a > 0 ? a - Scalar(2*M_PI) : a` — every strictly positive principal angle
    (incl. the `+π` of `atan2(+0, x<0)`) is moved one turn down. -/
def angle_cw (g : Vec α 2) : α :=
  let a := Scalar.atan2 (g 0) (g 1)
  if nat 0 < a then a - nat 2 * Scalar.pi else a

/-- `angle_ccw()`: `a = atan2(y, x)`; `a < 0 ? a + Scalar(2*M_PI) : a` -/
def angle_ccw (g : Vec α 2) : α :=
  let a := Scalar.atan2 (g 0) (g 1)
  if a < nat 0 then a + nat 2 * Scalar.pi else a

/-- `unit_complex()` / `u1()`: `(re, im) = (qw, qz)` — a coefficient permutation -/
def u1 (g : Vec α 2) : Vec α 2 := mk2 (g 1) (g 0)

/-! ### SO2 ↔ SO3, SE2 ↔ SE3 (so2.hpp:151-157, so3.hpp project_so2, se2.hpp lift_se3, se3.hpp project_se2) -/

/-- `lift_so3()`: `yaw = log().x()`, `SO3(Quaternion(w = cos(yaw/2), 0, 0, z = sin(yaw/2)))`
    (the quaternion constructor normalises and fixes the sign) -/
def lift_so3 (g : Vec α 2) : Vec α 4 :=
  let yaw := (SO2.log g) 0
  SO3.ofQuat (mk4 (nat 0) (nat 0) (Scalar.sin (yaw / nat 2)) (Scalar.cos (yaw / nat 2)))

/-- the yaw extracted by `project_so2()`:
    `atan2(2 (w z + x y), 1 − 2 (y y + z z))` -/
def yawOf (q : Vec α 4) : α :=
  let x := q 0; let y := q 1; let z := q 2; let w := q 3
  Scalar.atan2 (nat 2 * (w * z + x * y)) (nat 1 - nat 2 * (y * y + z * z))

/-- `project_so2()`: `SO2(yaw)` -/
def project_so2 (q : Vec α 4) : Vec α 2 := so2OfAngle (yawOf q)

/-- `lift_se3()`: `SE3(so2().lift_so3(), (x, y, 0))` -/
def lift_se3 (g : Vec α 4) : Vec α 7 :=
  SE3.mk7 (mk3 (g 0) (g 1) (nat 0)) (lift_so3 (SE2.so2 g))

/-- `project_se2()`: `SE2(so3().project_so2(), r3().head<2>())` -/
def project_se2 (g : Vec α 7) : Vec α 4 :=
  let q := project_so2 (SE3.so3 g)
  mk4 (g 0) (g 1) (q 0) (q 1)

/-! ### C1 (c1.hpp) -/

/-- `c1()`: `(re, im) = (coeffs.y, coeffs.x)` -/
def c1 (g : Vec α 2) : Vec α 2 := mk2 (g 1) (g 0)

/-- `C1(std::complex c)`: coefficients `(im, re)`, no normalisation -/
def c1OfComplex (re im : α) : Vec α 2 := mk2 im re

/-- `so2()` as the code computes it: `SO2(c1())` — the complex constructor of SO2 applied to
    `(re, im) = (g.y, g.x)` -/
def c1_so2 (g : Vec α 2) : Vec α 2 := so2OfComplex (g 1) (g 0)

/-! ### SO3 quaternion view (so3.hpp quat()) -/

/-- `quat()` maps the coefficient memory as an `Eigen::Quaternion` (coefficient order x y z w):
    the identity on coefficients.  `(w, x, y, z)` is the argument order of Eigen's constructor. -/
def quat (g : Vec α 4) : Vec α 4 := g
def quatWXYZ (g : Vec α 4) : Vec α 4 := mk4 (g 3) (g 0) (g 1) (g 2)
def ofWXYZ (c : Vec α 4) : Vec α 4 := mk4 (c 1) (c 2) (c 3) (c 0)

/-! ### Isometries (se2.hpp / se3.hpp) -/

/-- `SE2::isometry()`: `Translation(r2) * Rotation2D(so2().angle())`; homogeneous 3×3 matrix with
    the rotation block `[[cos a, −sin a], [sin a, cos a]]`, `a = atan2(qz, qw)` -/
def se2_isometry (g : Vec α 4) : Mat α 3 3 :=
  let a := angle (SE2.so2 g)
  let s := Scalar.sin a
  let c := Scalar.cos a
  mat3 c (-s) (g 0) s c (g 1) (nat 0) (nat 0) (nat 1)

/-- `SE2(Isometry2 t)`: `(t.translation().x, .y, rotmat(1,0), rotmat(0,0))` -/
def se2_ofIsometry (T : Mat α 3 3) : Vec α 4 := mk4 (T 0 2) (T 1 2) (T 1 0) (T 0 0)

/-- `SE3::isometry()`: `Translation(r3) * so3().quat()`: homogeneous 4×4 with
    `quat.toRotationMatrix()` and the translation — the same entries as `SE3.matrix` -/
def se3_isometry (g : Vec α 7) : Mat α 4 4 := SE3.matrix g

/-- `SE3(Isometry3 t)`: `SO3(Quaternion(t.rotation()))`, `t.translation()`.
    `quatOfMat` stands for `Eigen::Quaternion(Matrix3)` (parameter; contract:
    `SO3.matrix (ofQuat (quatOfMat R)) = R` for rotation matrices `R`). -/
def se3_ofIsometry (quatOfMat : Mat α 3 3 → Vec α 4) (T : Mat α 4 4) : Vec α 7 :=
  let R : Mat α 3 3 := (.of (fun i j => T ⟨i.val, by omega⟩ ⟨j.val, by omega⟩))
  SE3.mk7 (mk3 (T 0 3) (T 1 3) (T 2 3)) (SO3.ofQuat (quatOfMat R))

/-- the smooth-side glue of `SE3(Isometry3)` once Eigen's quaternion `qe` is given -/
def se3_ofIsometryGlue (T : Mat α 4 4) (qe : Vec α 4) : Vec α 7 :=
  SE3.mk7 (mk3 (T 0 3) (T 1 3) (T 2 3)) (SO3.ofQuat qe)

/-- `eulerAngles(i1 = 2, i2 = 1, i3 = 0)`: `quat().toRotationMatrix().eulerAngles(2, 1, 0)`;
    `euler` stands for Eigen's routine (parameter; contract: the returned `(e0,e1,e2)` satisfy
    `R = Rz(e0) Ry(e1) Rx(e2)`). -/
def eulerAngles (euler : Mat α 3 3 → Vec α 3) (g : Vec α 4) : Vec α 3 := euler (SO3.matrix g)

/-- the rotation `Rz(e0) Ry(e1) Rx(e2)` as a composition of `rot_z`, `rot_y`, `rot_x` -/
def ofEuler (e : Vec α 3) : Vec α 4 :=
  SO3.composition (SO3.composition (SO3.rot_z (e 0)) (SO3.rot_y (e 1))) (SO3.rot_x (e 2))

/-! ### `t · e_i` for `rot_x/y/z` vs `exp` -/
def axisTangent (i : Fin 3) (t : α) : Vec α 3 := (.of (fun j => if j = i then t else nat 0))

/-! ### SE_K_3<1> ↔ SE3 : identity on coefficients and tangents -/

def sek1_to_se3 (g : Vec α (4 + 3 * 1)) : Vec α 7 := (.of (fun i => g ⟨i.val, by omega⟩))
def se3_to_sek1 (g : Vec α 7) : Vec α (4 + 3 * 1) := (.of (fun i => g ⟨i.val, by omega⟩))
def sek1T_to_se3 (a : Vec α (3 + 3 * 1)) : Vec α 6 := (.of (fun i => a ⟨i.val, by omega⟩))
def se3T_to_sek1 (a : Vec α 6) : Vec α (3 + 3 * 1) := (.of (fun i => a ⟨i.val, by omega⟩))

/-! ### SE_K_3<2> → Galilei : `(p1, p2, q) ↦ (v = p1, p = p2, τ = 0, q)` -/

/-- index embedding of group coefficients: `0..5 ↦ 0..5`, `6..9 ↦ 7..10` (slot 6 is τ) -/
def eG (i : Fin 10) : Fin 11 := if h : i.val < 6 then ⟨i.val, by omega⟩ else ⟨i.val + 1, by omega⟩
/-- index embedding of tangents: `0..5 ↦ 0..5`, `6..8 ↦ 7..9` (slot 6 is s) -/
def eT (i : Fin 9) : Fin 10 := if h : i.val < 6 then ⟨i.val, by omega⟩ else ⟨i.val + 1, by omega⟩

def sek2_to_gal (g : Vec α (4 + 3 * 2)) : Vec α 11 := (.of (fun i =>
  if h : i.val < 6 then g ⟨i.val, by omega⟩
  else if h2 : i.val = 6 then nat 0
  else g ⟨i.val - 1, by omega⟩))

def sek2T_to_gal (a : Vec α (3 + 3 * 2)) : Vec α 10 := (.of (fun i =>
  if h : i.val < 6 then a ⟨i.val, by omega⟩
  else if h2 : i.val = 6 then nat 0
  else a ⟨i.val - 1, by omega⟩))

/-- the left inverse on the image (drops τ / s) -/
def gal_to_sek2 (g : Vec α 11) : Vec α (4 + 3 * 2) := (.of (fun i =>
  if h : i.val < 6 then g ⟨i.val, by omega⟩ else g ⟨i.val + 1, by omega⟩))
def galT_to_sek2 (a : Vec α 10) : Vec α (3 + 3 * 2) := (.of (fun i =>
  if h : i.val < 6 then a ⟨i.val, by omega⟩ else a ⟨i.val + 1, by omega⟩))

/-- restriction of a Galilei 10×10 tangent map to the `s = 0` subspace -/
def restrictT (M : Mat α 10 10) : Mat α (3 + 3 * 2) (3 + 3 * 2) :=
  (.of (fun i j => M (eT ⟨i.val, by omega⟩) (eT ⟨j.val, by omega⟩)))

end Conv
