/-
  Api.lean — model functions for PUBLIC API paths that the first build phase did not model because no harness
  drove them (tools/dev/api_inventory.py, DESIGN §8.10).  Each mirrors its source text.

  Deliberately NOT imported by the root `SmoothModel.lean`: every proof file depends on that root through
  `SmoothProofs/Real.lean`, so touching it re-elaborates all of SmoothProofs/SmoothProps.  This file is imported by
  `Driver/Ops.lean` only (it is executable-model code, Mathlib-free like the rest of SmoothModel/).  When a theorem
  about one of these functions is wanted, move the definition next to its siblings (Group.lean, SO2.lean, SE2.lean).
-/
import SmoothModel.Group
import SmoothModel.SO2
import SmoothModel.SE2

open Scalar Lin

namespace LieModel
variable {α : Type} [Scalar α] (G : LieModel α)

/-- concepts/lie_group.hpp, free function `lplus(g, a) = composition(::smooth::exp<G>(a), g)` -/
def lplus (g : Vec α G.rep) (a : Vec α G.dof) : Vec α G.rep := G.composition (G.exp a) g

/-- concepts/lie_group.hpp, free function `lminus(g1, g2) = log(composition(g1, inverse(g2)))` -/
def lminus (g1 g2 : Vec α G.rep) : Vec α G.dof := G.log (G.composition g1 (G.inverse g2))

/-- `LieGroupBase::isApprox(o, eps)` = `coeffs().isApprox(o.coeffs(), eps)` (also `traits::lie<G>::isApprox` and the free
    `isApprox`), i.e. Eigen's `DenseBase::isApprox` for vectors:
    `(a − b).cwiseAbs2().sum() ≤ eps·eps·min(a.cwiseAbs2().sum(), b.cwiseAbs2().sum())` -/
def isApprox (a b : Vec α G.rep) (eps : α) : Bool :=
  let d := sqNorm (vsub a b)
  let na := sqNorm a
  let nb := sqNorm b
  decide (d ≤ eps * eps * (if na < nb then na else nb))

end LieModel

namespace SO2
variable {α : Type} [Scalar α]

/-- so2.hpp `dr_action(v) = Base::matrix() * Base::hat(Vector1::Ones()) * v`; Eigen evaluates `(matrix·hat)·v` -/
def dr_action (g : Vec α 2) (v : Vec α 2) : Vec α 2 :=
  mulVec (memoM (mmul (matrix g) (hat (mk1 (nat 1))))) v

end SO2

namespace SE2
variable {α : Type} [Scalar α]

/-- se2.hpp `dr_action(v)`: `ret.leftCols<2>() = so2().matrix(); ret.rightCols<1>() = so2().dr_action(v)` (2×3) -/
def dr_action (g : Vec α 4) (v : Vec α 2) : Mat α 2 3 :=
  let R := memoM (SO2.matrix (so2 g))
  let d := memoV (SO2.dr_action (so2 g) v)
  (.of (fun i j => if hj : j.val < 2 then R i ⟨j.val, hj⟩ else d i))

end SE2
