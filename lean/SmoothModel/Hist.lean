/-
  Hist.lean — operation histories (property C15).

  * `OdeAlg`, `scaleSum`, `Tableau`, `rkStep`: the boost::odeint adaptor of compat/odeint.hpp.
    `BoostOdeintOps::scale_sum(α₁,…,αₙ)(y, x, a₁,…)` computes `y = rplus(x, Σᵢ α_{i+1}·aᵢ)` — the
    weight `α₁` (always 1) is skipped (`std::get<Is + 1>(m_alpha)`, odeint.hpp:49) and the sum is
    the C++ unary right fold `α₂a₁ + (α₃a₂ + (… ))` (`sumr`).  Explicit Runge–Kutta steppers are
    Butcher tableaux driving it exactly as boost's `generic_rk_algorithm` does: stage `i` is
    evaluated at `scale_sum(1, a_{i1}·dt, …)(x_tmp, x, k₁, …)`, the result at `scale_sum(1, b₁·dt, …)`.
  * `Op`, `State`, `step`, `run`: a register machine over a `LieModel`; registers hold group
    elements and tangents; ops are the LieGroupBase operations of the property
    (`compose inverse exp rplus *= += cast<S> lift project lift∘project odeint-step`).
  * `opWeight`: size of the expression tree of a register (every primitive op counts 1).
  * `Lifting`: the companion type of a group — target of `lift_so3()` / `lift_se3()`, source of
    `project_so2()` / `project_se2()` (so2.hpp:153, so3.hpp:125, se2.hpp:142, se3.hpp:142; the
    models are `Conv.lift_so3 …` of SmoothModel/Convert.lean).  The machine is two-sorted: element
    registers `E` of the group, lifted registers `L` of the companion type; `lift : E → L`,
    `project : L → E`, `liftproj = project ∘ lift`.  Groups without lifts carry `Lifting.triv`.

  Mathlib-free; instantiated at `Float`/`Float32` by the driver (T1) and at `ℝ` by SmoothProps/C15.
-/
import SmoothModel.Lin
import SmoothModel.Group
import SmoothModel.SO2
import SmoothModel.SO3
import SmoothModel.Convert
import SmoothModel.Groups

open Scalar Lin

namespace Hist

-- ---------------------------------------------------------------- odeint adaptor
/-- what the adaptor needs: a state type with `rplus`, a derivative type with `+` and scalar `*`,
    and the arithmetic of the time/value type -/
structure OdeAlg (X V α : Type) where
  rplus : X → V → X
  smul : α → V → V
  add : V → V → V
  zero : V
  mul : α → α → α
  addt : α → α → α
  one : α

section
variable {X V α : Type}

/-- C++ unary right fold `(e₁ + (e₂ + (… + eₙ)))` -/
def sumr (A : OdeAlg X V α) : List V → V
  | [] => A.zero
  | [v] => v
  | v :: w :: rest => A.add v (sumr A (w :: rest))

/-- the tangent handed to `rplus` by `scale_sum(alphas…)(y, x, as…)`: weights are taken from
    index 1 on (`alphas.tail`) -/
def scaleTangent (A : OdeAlg X V α) (alphas : List α) (as : List V) : V :=
  sumr A (List.zipWith A.smul alphas.tail as)

/-- `scale_sum(alphas…)(y, x, as…)`: the new value of `y` -/
def scaleSum (A : OdeAlg X V α) (alphas : List α) (x : X) (as : List V) : X :=
  A.rplus x (scaleTangent A alphas as)

/-- explicit Butcher tableau: `rows` = `(cᵢ, [a_{i1},…,a_{i,i-1}])` for stages 2…s, `b` = weights -/
structure Tableau (α : Type) where
  rows : List (α × List α)
  b : List α

/-- stage derivatives `k₁…k_s` (system `f t x`), accumulated left to right -/
def stages (A : OdeAlg X V α) (f : α → X → V) (t h : α) (x : X) : List (α × List α) → List V → List V
  | [], ks => ks
  | (c, row) :: rest, ks =>
    stages A f t h x rest
      (ks ++ [f (A.addt t (A.mul c h)) (scaleSum A (A.one :: row.map (fun a => A.mul a h)) x ks)])

/-- the tangent of the final `scale_sum` of one step -/
def rkTangent (A : OdeAlg X V α) (f : α → X → V) (tab : Tableau α) (t h : α) (x : X) : V :=
  scaleTangent A (A.one :: tab.b.map (fun b => A.mul b h)) (stages A f t h x tab.rows [f t x])

/-- one fixed step `do_step(system, x, t, dt)` -/
def rkStep (A : OdeAlg X V α) (f : α → X → V) (tab : Tableau α) (t h : α) (x : X) : X :=
  A.rplus x (rkTangent A f tab t h x)

/-- `integrate_n_steps` with a fixed-step stepper -/
def rkSteps (A : OdeAlg X V α) (f : α → X → V) (tab : Tableau α) (h : α) : Nat → α → X → X
  | 0, _, x => x
  | n + 1, t, x => rkSteps A f tab h n (A.addt t h) (rkStep A f tab t h x)

end

section
variable {α : Type} [Scalar α]

/-- the adaptor instantiated at a Lie group model: `smooth::rplus`, Eigen `scalar * vector`, `+` -/
def alg (G : LieModel α) : OdeAlg (Vec α G.rep) (Vec α G.dof) α where
  rplus := G.rplus
  smul := vsmul
  add := vadd
  zero := vzero _
  mul := fun a b => a * b
  addt := fun a b => a + b
  one := nat 1

def q (n d : Nat) : α := nat n / nat d
def qn (n d : Nat) : α := -(nat n) / nat d

/-- a tableau of which only the weights are given (stage states of an autonomous constant
    system do not enter the result) -/
def Tableau.ofB (b : List α) : Tableau α :=
  ⟨(List.range (b.length - 1)).map (fun i => (nat 0, List.replicate (i + 1) (nat 0))), b⟩

def euler : Tableau α := ⟨[], [nat 1]⟩

/-- boost `runge_kutta4` (rk4_coefficients_a1..a3, _b, _c) -/
def rk4 : Tableau α :=
  ⟨[(q 1 2, [q 1 2]), (q 1 2, [nat 0, q 1 2]), (nat 1, [nat 0, nat 0, nat 1])],
   [q 1 6, q 1 3, q 1 3, q 1 6]⟩

/-- boost `runge_kutta_cash_karp54` (5th-order weights) -/
def cashKarp54 : Tableau α :=
  ⟨[(q 1 5, [q 1 5]),
    (q 3 10, [q 3 40, q 9 40]),
    (q 3 5, [q 3 10, qn 9 10, q 6 5]),
    (nat 1, [qn 11 54, q 5 2, qn 70 27, q 35 27]),
    (q 7 8, [q 1631 55296, q 175 512, q 575 13824, q 44275 110592, q 253 4096])],
   [q 37 378, nat 0, q 250 621, q 125 594, nat 0, q 512 1771]⟩

/-- boost `runge_kutta_dopri5` (the six stages that enter the solution; the seventh is FSAL) -/
def dopri5 : Tableau α :=
  ⟨[(q 1 5, [q 1 5]),
    (q 3 10, [q 3 40, q 9 40]),
    (q 4 5, [q 44 45, qn 56 15, q 32 9]),
    (q 8 9, [q 19372 6561, qn 25360 2187, q 64448 6561, qn 212 729]),
    (nat 1, [q 9017 3168, qn 355 33, q 46732 5247, q 49 176, qn 5103 18656])],
   [q 35 384, nat 0, q 500 1113, q 125 192, qn 2187 6784, q 11 84]⟩

/-- boost `runge_kutta_fehlberg78`: 8th-order weights (rk78_coefficients_b); stage rows not modelled -/
def fehlberg78 : Tableau α :=
  Tableau.ofB [nat 0, nat 0, nat 0, nat 0, nat 0, q 34 105, q 9 35, q 9 35, q 9 280, q 9 280, nat 0,
    q 41 840, q 41 840]

/-- stepper catalogue of the harness -/
def stepperOf (id : Nat) : Tableau α :=
  match id with
  | 0 => euler
  | 1 => rk4
  | 2 => cashKarp54
  | 3 => dopri5
  | _ => fehlberg78

-- ---------------------------------------------------------------- companion types (lift / project)
/-- the companion type of a group: `lrep` coefficients, `lift : G → companion`,
    `project : companion → G`, `lid` = the companion's identity (default register content) -/
structure Lifting (α : Type) [Scalar α] (G : LieModel α) where
  lrep : Nat
  lift : Vec α G.rep → Vec α lrep
  project : Vec α lrep → Vec α G.rep
  lid : Vec α lrep

/-- groups without lifts: the companion is the group itself, `lift = project = id` -/
def Lifting.triv (G : LieModel α) : Lifting α G := ⟨G.rep, id, id, G.identity⟩

/-- SO2 → SO3: `lift_so3()` (so2.hpp:153), `project_so2()` (so3.hpp:125) -/
def so2Lifting : Lifting α (SO2.model : LieModel α) :=
  ⟨4, fun g => Conv.lift_so3 (α := α) g, fun q => Conv.project_so2 (α := α) q, SO3.identity⟩

/-- SE2 → SE3: `lift_se3()` (se2.hpp:142), `project_se2()` (se3.hpp:142) -/
def se2Lifting : Lifting α (SE2.model : LieModel α) :=
  ⟨7, fun g => Conv.lift_se3 (α := α) g, fun q => Conv.project_se2 (α := α) q, SE3.identity⟩

/-- `E[a].lift().project()` -/
def Lifting.lp {G : LieModel α} (C : Lifting α G) (g : Vec α G.rep) : Vec α G.rep :=
  C.project (memoV (C.lift g))

-- ---------------------------------------------------------------- register machine
inductive Op (α : Type) (dof : Nat) where
  | compose (d a b : Nat)        -- E[d] = E[a] * E[b]
  | inverse (d a : Nat)          -- E[d] = E[a].inverse()
  | exp (d t : Nat)              -- E[d] = exp(T[t])
  | rplus (d a t : Nat)          -- E[d] = E[a] + T[t]
  | mulAssign (d a : Nat)        -- E[d] *= E[a]
  | plusAssign (d t : Nat)       -- E[d] += T[t]
  | castSame (d a : Nat)         -- E[d] = E[a].cast<Scalar>()
  | liftproj (d a : Nat)         -- E[d] = E[a].lift().project()
  | setTan (d : Nat) (v : Vec α dof)
  | ode (d a t : Nat) (tab : Tableau α) (h : α)   -- E[d] = do_step from E[a], ẋ = x·T[t]^
  | lift (d a : Nat)             -- L[d] = E[a].lift()
  | project (d a : Nat)          -- E[d] = L[a].project()

structure State (α : Type) [Scalar α] (G : LieModel α) (C : Lifting α G) where
  E : Nat → Vec α G.rep
  T : Nat → Vec α G.dof
  L : Nat → Vec α C.lrep

def upd {β : Type} (f : Nat → β) (d : Nat) (v : β) : Nat → β := fun i => if i = d then v else f i

/-- the tangent an `ode` op hands to `exp` in its final `scale_sum` -/
def odeTangent (G : LieModel α) (tab : Tableau α) (h : α) (v : Vec α G.dof) (x : Vec α G.rep) : Vec α G.dof :=
  rkTangent (alg G) (fun _ _ => v) tab (nat 0) h x

/-- semantics of one op (`C` = the group's companion type; `Lifting.triv` where there is none) -/
def step (G : LieModel α) (C : Lifting α G) (s : State α G C) : Op α G.dof → State α G C
  | .compose d a b => { s with E := upd s.E d (memoV (G.composition (s.E a) (s.E b))) }
  | .inverse d a => { s with E := upd s.E d (memoV (G.inverse (s.E a))) }
  | .exp d t => { s with E := upd s.E d (memoV (G.exp (s.T t))) }
  | .rplus d a t => { s with E := upd s.E d (memoV (G.rplus (s.E a) (s.T t))) }
  | .mulAssign d a => { s with E := upd s.E d (memoV (G.composition (s.E d) (s.E a))) }
  | .plusAssign d t => { s with E := upd s.E d (memoV (G.rplus (s.E d) (s.T t))) }
  | .castSame d a => { s with E := upd s.E d (s.E a) }
  | .liftproj d a => { s with E := upd s.E d (memoV (C.lp (s.E a))) }
  | .setTan d v => { s with T := upd s.T d v }
  | .ode d a t tab h => { s with E := upd s.E d (memoV (G.rplus (s.E a) (odeTangent G tab h (s.T t) (s.E a)))) }
  | .lift d a => { s with L := upd s.L d (memoV (C.lift (s.E a))) }
  | .project d a => { s with E := upd s.E d (memoV (C.project (s.L a))) }

def run (G : LieModel α) (C : Lifting α G) (ops : List (Op α G.dof)) (s : State α G C) : State α G C :=
  ops.foldl (step G C) s

/-- the tangents one op hands to `exp` (the exp arguments of the stage evaluations of `ode` ops
    are not listed: their results are discarded by a constant system) -/
def expArgsOp (G : LieModel α) {C : Lifting α G} (s : State α G C) : Op α G.dof → List (Vec α G.dof)
  | .exp _ t => [s.T t]
  | .rplus _ _ t => [s.T t]
  | .plusAssign _ t => [s.T t]
  | .ode _ a t tab h => [odeTangent G tab h (s.T t) (s.E a)]
  | _ => []

/-- every tangent that reaches `exp` during a history -/
def expArgs (G : LieModel α) (C : Lifting α G) : List (Op α G.dof) → State α G C → List (Vec α G.dof)
  | [], _ => []
  | o :: rest, s => expArgsOp G s o ++ expArgs G C rest (step G C s o)

/-- expression-tree sizes of the element registers (`.1`) and of the lifted registers (`.2`) -/
abbrev Weights := (Nat → Nat) × (Nat → Nat)

def W0 : Weights := (fun _ => 0, fun _ => 0)

/-- expression-tree size of the registers: every primitive operation counts 1
    (`rplus = compose ∘ exp` and `liftproj = project ∘ lift` count 2) -/
def opWeightStep {dof : Nat} (w : Weights) : Op α dof → Weights
  | .compose d a b => (upd w.1 d (w.1 a + w.1 b + 1), w.2)
  | .inverse d a => (upd w.1 d (w.1 a + 1), w.2)
  | .exp d _ => (upd w.1 d 1, w.2)
  | .rplus d a _ => (upd w.1 d (w.1 a + 1 + 1), w.2)
  | .mulAssign d a => (upd w.1 d (w.1 d + w.1 a + 1), w.2)
  | .plusAssign d _ => (upd w.1 d (w.1 d + 1 + 1), w.2)
  | .castSame d a => (upd w.1 d (w.1 a), w.2)
  | .liftproj d a => (upd w.1 d (w.1 a + 1 + 1), w.2)
  | .setTan _ _ => w
  | .ode d a _ _ _ => (upd w.1 d (w.1 a + 1 + 1), w.2)
  | .lift d a => (w.1, upd w.2 d (w.1 a + 1))
  | .project d a => (upd w.1 d (w.2 a + 1), w.2)

def opWeights {dof : Nat} (ops : List (Op α dof)) (w0 : Weights) : Weights :=
  ops.foldl opWeightStep w0

/-- tree size of element register `r` after the history -/
def opWeight {dof : Nat} (ops : List (Op α dof)) (w0 : Weights) : Nat → Nat := (opWeights ops w0).1

/-- tree size of lifted register `r` after the history -/
def opWeightL {dof : Nat} (ops : List (Op α dof)) (w0 : Weights) : Nat → Nat := (opWeights ops w0).2

end

end Hist
