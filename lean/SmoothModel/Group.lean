/-
  Group.lean — the LieGroupBase-level interface (lie_group_base.hpp) as a record of functions.

  A `LieModel α` holds, for one group type, exactly what the public static/const members of
  `LieGroupBase<Derived>` return: the `Impl` function, or — `if constexpr (IsCommutative)` —
  the short-cut (`Ad = I`, `ad = 0`, `dr_exp = dr_expinv = I`, `d2r_* = 0`).
  BundleImpl applies the same short-cuts per part, so the Bundle model is built from these.
-/
import SmoothModel.Lin

open Scalar Lin

structure LieModel (α : Type) where
  rep : Nat
  dof : Nat
  dim : Nat
  comm : Bool
  identity : Vec α rep
  matrix : Vec α rep → Mat α dim dim
  composition : Vec α rep → Vec α rep → Vec α rep
  inverse : Vec α rep → Vec α rep
  log : Vec α rep → Vec α dof
  exp : Vec α dof → Vec α rep
  hat : Vec α dof → Mat α dim dim
  vee : Mat α dim dim → Vec α dof
  Ad : Vec α rep → Mat α dof dof
  ad : Vec α dof → Mat α dof dof
  dr_exp : Vec α dof → Mat α dof dof
  dr_expinv : Vec α dof → Mat α dof dof
  d2r_exp : Vec α dof → Mat α dof (dof * dof)
  d2r_expinv : Vec α dof → Mat α dof (dof * dof)

namespace LieModel
variable {α : Type} [Scalar α] (G : LieModel α)

/-- `lie_bracket(a,b) = ad(a)·b` (zero for commutative groups — `ad` already is) -/
def bracket (a b : Vec α G.dof) : Vec α G.dof := mulVec (G.ad a) b

def dl_exp (a : Vec α G.dof) : Mat α G.dof G.dof := G.dr_exp (vneg a)
def dl_expinv (a : Vec α G.dof) : Mat α G.dof G.dof := G.dr_expinv (vneg a)
def d2l_exp (a : Vec α G.dof) : Mat α G.dof (G.dof * G.dof) := mneg (G.d2r_exp (vneg a))
def d2l_expinv (a : Vec α G.dof) : Mat α G.dof (G.dof * G.dof) := mneg (G.d2r_expinv (vneg a))

/-- `operator+` / `rplus`: `g ∘ exp(a)` -/
def rplus (g : Vec α G.rep) (a : Vec α G.dof) : Vec α G.rep := G.composition g (G.exp a)
/-- `operator-` / `rminus`: `log(g2⁻¹ ∘ g1)` -/
def rminus (g1 g2 : Vec α G.rep) : Vec α G.dof := G.log (G.composition (G.inverse g2) g1)

end LieModel
