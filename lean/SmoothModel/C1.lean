/-
  C1.lean — detail/c1.hpp (C1Impl) and public extras of c1.hpp.
  Layout: group (a b) = scaling·(sin θ, cos θ); tangent (log-scale, angle).
-/
import SmoothModel.Lin
import SmoothModel.SO2

open Scalar Lin
namespace C1
variable {α : Type} [Scalar α]

def identity : Vec α 2 := mk2 (nat 0) (nat 1)
def matrix (g : Vec α 2) : Mat α 2 2 := mat2 (g 1) (-(g 0)) (g 0) (g 1)
def composition (a b : Vec α 2) : Vec α 2 :=
  mk2 (a 0 * b 1 + a 1 * b 0) (a 1 * b 1 - a 0 * b 0)
def inverse (g : Vec α 2) : Vec α 2 :=
  let t := g 0 * g 0 + g 1 * g 1
  mk2 (-(g 0) / t) (g 1 / t)
def log (g : Vec α 2) : Vec α 2 :=
  let t := Scalar.sqrt (g 0 * g 0 + g 1 * g 1)
  mk2 (Scalar.log t) (Scalar.atan2 (g 0) (g 1))
def exp (a : Vec α 2) : Vec α 2 :=
  let t := Scalar.exp (a 0)
  mk2 (t * Scalar.sin (a 1)) (t * Scalar.cos (a 1))
def hat (a : Vec α 2) : Mat α 2 2 := mat2 (a 0) (-(a 1)) (a 1) (a 0)
def vee (A : Mat α 2 2) : Vec α 2 := mk2 ((A 0 0 + A 1 1) / nat 2) ((A 1 0 - A 0 1) / nat 2)

def angle (g : Vec α 2) : α := Scalar.atan2 (g 0) (g 1)
def scaling (g : Vec α 2) : α := Scalar.sqrt (g 0 * g 0 + g 1 * g 1)
/-- `so2()`: `SO2(std::complex(re = g.y, im = g.x))`, normalised inside -/
def so2 (g : Vec α 2) : Vec α 2 :=
  let n := Scalar.sqrt (g 0 * g 0 + g 1 * g 1)
  mk2 (g 0 / n) (g 1 / n)
def act (g : Vec α 2) (v : Vec α 2) : Vec α 2 := mulVec (matrix g) v
/-- `C1(scaling, angle)` -/
def ofScalingAngle (s t : α) : Vec α 2 := mk2 (s * Scalar.sin t) (s * Scalar.cos t)

end C1
