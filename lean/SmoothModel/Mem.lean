/-
  Mem.lean — buffer / view model of `Map<G>` storage (property C16) and the pure size functions of
  group descriptors (C06 layout part).

  * `Buf := Array Word`; a word is the bit pattern of ONE scalar (f32 words live in the low 32 bits).
  * a `Map<G>` / `Map<const G>` / value object is a `Loc`: absolute offset into the state buffer plus
    a `writable` flag (value objects are private regions of the same state buffer).
  * sub-part accessors (`so2() so3() r2() r3() r3_v() r3_p() r1_t() r3<k>() part<i>()`) are rows of
    the sub-view table `subview`, read off the headers:
      se2.hpp:75-97     r2 = data()+0 (2), so2 = data()+2 (2)
      se3.hpp:76-101    r3 = data()+0 (3), so3 = data()+3 (4)
      galilei.hpp:76-135  r3_v = +0 (3), r3_p = +3 (3), r1_t = +6 (1), so3 = +7 (4)
      se_k_3.hpp:84-142 r3<k> = +3k (3), so3 = +3K (4)
      bundle.hpp:81-96  part<i> = data() + RepSizesPsum[i]  (RepSize of part i)
  * every mutating operation is `Buf → Buf` through `write`, touching exactly the words
    `[off + sub.off, off + sub.off + sub.len)` of the resolved target.

  No Mathlib import (links into `smoothdrv`).
-/
import SmoothModel.Groups

open Scalar Lin

namespace Mem

abbrev Word := UInt64
abbrev Buf := Array Word

/-- `Map` view over caller-owned memory -/
structure View where
  off : Nat
  len : Nat
  writable : Bool
  deriving Repr, DecidableEq

/-! ### sizes of descriptors (Nat level; `Mem.model_rep` etc. tie them to `GDesc.model`) -/

mutual
  def repSize : GDesc → Nat
    | .so2 => 2 | .so3 => 4 | .se2 => 4 | .se3 => 7 | .c1 => 2 | .gal => 11
    | .tn n => n
    | .sek3 k => 4 + 3 * k
    | .bundle ps => repSizeL ps
  def repSizeL : List GDesc → Nat
    | [] => 0
    | p :: ps => repSize p + repSizeL ps
end

mutual
  def dofSize : GDesc → Nat
    | .so2 => 1 | .so3 => 3 | .se2 => 3 | .se3 => 6 | .c1 => 2 | .gal => 10
    | .tn n => n
    | .sek3 k => 3 + 3 * k
    | .bundle ps => dofSizeL ps
  def dofSizeL : List GDesc → Nat
    | [] => 0
    | p :: ps => dofSize p + dofSizeL ps
end

mutual
  def dimSize : GDesc → Nat
    | .so2 => 2 | .so3 => 3 | .se2 => 3 | .se3 => 4 | .c1 => 2 | .gal => 5
    | .tn n => n + 1
    | .sek3 k => 3 + k
    | .bundle ps => dimSizeL ps
  def dimSizeL : List GDesc → Nat
    | [] => 0
    | p :: ps => dimSize p + dimSizeL ps
end

mutual
  /-- `Impl::IsCommutative` -/
  def isComm : GDesc → Bool
    | .so2 => true | .c1 => true | .tn _ => true
    | .so3 => false | .se2 => false | .se3 => false | .gal => false | .sek3 _ => false
    | .bundle ps => isCommL ps
  def isCommL : List GDesc → Bool
    | [] => true
    | p :: ps => isComm p && isCommL ps
end

/-- the three prefix-sum arrays of `BundleImpl` for a list of parts -/
def repPsum (ps : List GDesc) : List Nat := Bundle.psum (ps.map repSize)
def dofPsum (ps : List GDesc) : List Nat := Bundle.psum (ps.map dofSize)
def dimPsum (ps : List GDesc) : List Nat := Bundle.psum (ps.map dimSize)

/-- offset of part `i` in the layout that `Bundle.bundle` (nested `prod`) uses -/
def nestedOffset (sizes : List Nat) (i : Nat) : Nat := (sizes.take i).foldr (· + ·) 0

/-! ### accessors and the sub-view table -/

inductive Acc where
  | r2 | so2 | r3 | so3 | r3_v | r3_p | r1_t
  | r3k (k : Nat)
  | part (i : Nat)
  deriving Repr, DecidableEq, Inhabited

/-- `(offset, length, descriptor of the sub-part)` of accessor `a` on a `G`-typed view -/
def subview : GDesc → Acc → Option (Nat × Nat × GDesc)
  | .se2, .r2 => some (0, 2, .tn 2)
  | .se2, .so2 => some (2, 2, .so2)
  | .se3, .r3 => some (0, 3, .tn 3)
  | .se3, .so3 => some (3, 4, .so3)
  | .gal, .r3_v => some (0, 3, .tn 3)
  | .gal, .r3_p => some (3, 3, .tn 3)
  | .gal, .r1_t => some (6, 1, .tn 1)
  | .gal, .so3 => some (7, 4, .so3)
  | .sek3 k, .r3k i => if i < k then some (3 * i, 3, .tn 3) else none
  | .sek3 k, .so3 => some (3 * k, 4, .so3)
  | .bundle ps, .part i =>
    match ps[i]? with
    | some p => some ((repPsum ps).getD i 0, repSize p, p)
    | none => none
  | _, _ => none

/-- the accessors of a group type, in memory order -/
def accessors : GDesc → List Acc
  | .se2 => [.r2, .so2]
  | .se3 => [.r3, .so3]
  | .gal => [.r3_v, .r3_p, .r1_t, .so3]
  | .sek3 k => (List.range k).map .r3k ++ [.so3]
  | .bundle ps => (List.range ps.length).map .part
  | _ => []

/-- the table `(off, len)` of all sub-views of a group type, in memory order -/
def subviews (d : GDesc) : List (Nat × Nat) :=
  (accessors d).filterMap (fun a => (subview d a).map (fun t => (t.1, t.2.1)))

/-- a closed form of the same table, used by the partition theorem -/
def subviewsSpec : GDesc → List (Nat × Nat)
  | .se2 => [(0, 2), (2, 2)]
  | .se3 => [(0, 3), (3, 4)]
  | .gal => [(0, 3), (3, 3), (6, 1), (7, 4)]
  | .sek3 k => (List.range k).map (fun i => (3 * i, 3)) ++ [(3 * k, 4)]
  | .bundle ps => (List.range ps.length).map (fun i => ((repPsum ps).getD i 0, repSize (ps.getD i .so2)))
  | _ => []

/-- resolve an accessor chain (`part<1>().so3()` = `[.part 1, .so3]`) relative to a `G` view -/
def resolvePath : GDesc → List Acc → Option (Nat × Nat × GDesc)
  | d, [] => some (0, repSize d, d)
  | d, a :: rest =>
    match subview d a with
    | none => none
    | some (o, _, sd) =>
      match resolvePath sd rest with
      | none => none
      | some (o', l', d') => some (o + o', l', d')

/-! ### buffers -/

/-- write the words `vs` at `off, off+1, …` (out-of-range positions are dropped) -/
def write (b : Buf) (off : Nat) : List Word → Buf
  | [] => b
  | w :: ws => write (b.setIfInBounds off w) (off + 1) ws

/-- read `len` words starting at `off` (0 outside the buffer) -/
def load (b : Buf) (off len : Nat) : List Word :=
  (List.range len).map (fun j => b.getD (off + j) 0)

/-- storage location of a `G`-typed object: a `Map<G>` (`writable`), a `Map<const G>` or a value -/
structure Loc where
  off : Nat
  writable : Bool
  deriving Repr, DecidableEq, Inhabited

/-- a resolved write target -/
structure Target where
  off : Nat
  len : Nat
  desc : GDesc
  writable : Bool

def Target.view (t : Target) : View := ⟨t.off, t.len, t.writable⟩

def resolve (d : GDesc) (l : Loc) (path : List Acc) : Option Target :=
  match resolvePath d path with
  | none => none
  | some (o, len, sd) => some ⟨l.off + o, len, sd, l.writable⟩

/-! ### scalar ↔ word -/

class WordRep (α : Type) where
  toWord : α → Word
  ofWord : Word → α

instance : WordRep Float where
  toWord x := x.toBits
  ofWord w := Float.ofBits w

instance : WordRep Float32 where
  toWord x := x.toBits.toUInt64
  ofWord w := Float32.ofBits w.toUInt32

section ops
variable {α : Type} [Scalar α] [WordRep α]

def vecOfWords (n : Nat) (ws : List Word) : Vec α n :=
  let a := ws.toArray
  memoV (.of (fun i => WordRep.ofWord (a.getD i.val 0)))

def wordsOfVec {n : Nat} (v : Vec α n) : List Word :=
  (toArray v).toList.map WordRep.toWord

/-- `setIdentity()` at the value level -/
def valIdentity (G : LieModel α) : List Word := wordsOfVec G.identity

/-- `operator*=`: `coeffs() = (*this * o).coeffs()` -/
def valCompose (G : LieModel α) (x y : List Word) : List Word :=
  wordsOfVec (G.composition (vecOfWords G.rep x) (vecOfWords G.rep y))

/-- `operator+=`: `*this *= exp(a)` -/
def valPlus (G : LieModel α) (x a : List Word) : List Word :=
  wordsOfVec (G.composition (vecOfWords G.rep x) (memoV (G.exp (vecOfWords G.dof a))))

end ops

/-! ### op scripts -/

inductive Op where
  /-- `target.setIdentity()` (Eigen-vector targets: `setZero()`) -/
  | setIdentity (l : Loc) (path : List Acc)
  /-- `target.coeffs() = ws` / `part<i>() = value(ws)` / `so3() = value(ws)` / `r3() = ws` … -/
  | setCoeffs (l : Loc) (path : List Acc) (ws : List Word)
  /-- cross-storage `operator=` / construction: `dst = src` -/
  | assign (dst src : Loc)
  /-- `target *= value(ws)` -/
  | mulLit (l : Loc) (path : List Acc) (ws : List Word)
  /-- `dst *= src` between two views -/
  | mulLoc (dst src : Loc)
  /-- `target += a` -/
  | plusLit (l : Loc) (path : List Acc) (a : List Word)
  /-- `dst = src.cast<Other>().cast<S>()` : each coefficient through `conv`, order kept -/
  | castRt (dst src : Loc)
  /-- read through the CONST overload of an accessor chain: the coefficients of the sub-part
      `src.path` (of a `Map<const G>`, a const value or `std::as_const(Map<G>)`) are copied out into
      the first words of `dst` -/
  | readSub (dst src : Loc) (path : List Acc)
  /-- `log()` of the sub-part seen through the const accessor chain, stored in the first words of `dst` -/
  | readLog (dst src : Loc) (path : List Acc)
  deriving Inhabited

/-- the location and accessor path an op writes through -/
def Op.dst : Op → Loc × List Acc
  | .setIdentity l p => (l, p)
  | .setCoeffs l p _ => (l, p)
  | .assign d _ => (d, [])
  | .mulLit l p _ => (l, p)
  | .mulLoc d _ => (d, [])
  | .plusLit l p _ => (l, p)
  | .castRt d _ => (d, [])
  | .readSub d _ _ => (d, [])
  | .readLog d _ _ => (d, [])

/-- the second operand location, if any -/
def Op.src : Op → Option Loc
  | .assign _ s => some s
  | .mulLoc _ s => some s
  | .castRt _ s => some s
  | .readSub _ s _ => some s
  | .readLog _ s _ => some s
  | _ => none

/-- the words the second operand is read from: a whole `G` view, or — for the const sub-view reads —
    the sub-range the accessor chain resolves to -/
def Op.srcRange (d : GDesc) : Op → Option (Nat × Nat)
  | .assign _ s => some (s.off, repSize d)
  | .mulLoc _ s => some (s.off, repSize d)
  | .castRt _ s => some (s.off, repSize d)
  | .readSub _ s p => (resolve d s p).map (fun t => (t.off, t.len))
  | .readLog _ s p => (resolve d s p).map (fun t => (t.off, t.len))
  | _ => none

/-- the resolved target of an op, provided the destination is writable (a `Map<const G>` has
    no mutating member: such an op does not exist in C++ and is the identity here) -/
def Op.target (d : GDesc) (op : Op) : Option Target :=
  match op with
  | .readSub dst s p =>
    match resolve d s p with
    | some t => if dst.writable then some ⟨dst.off, t.len, t.desc, true⟩ else none
    | none => none
  | .readLog dst s p =>
    match resolve d s p with
    | some t => if dst.writable then some ⟨dst.off, dofSize t.desc, t.desc, true⟩ else none
    | none => none
  | op =>
    match resolve d op.dst.1 op.dst.2 with
    | some t => if t.writable then some t else none
    | none => none

/-- the words an op writes: the views `[off, off+len)` it is allowed to touch -/
def Op.writeSet (d : GDesc) (op : Op) : List (Nat × Nat) :=
  match op.target d with
  | some t => [(t.off, t.len)]
  | none => []

section step
variable {α : Type} [Scalar α] [WordRep α]

/-- value-level semantics: new coefficients of the target from its current coefficients `cur`
    and the coefficients `src` of the second operand; `conv` is the scalar round-trip of `cast` -/
def opValue (conv : Word → Word) (G : LieModel α) (op : Op) (cur src : List Word) : List Word :=
  match op with
  | .setIdentity _ _ => valIdentity G
  | .setCoeffs _ _ ws => ws
  | .assign _ _ => src
  | .mulLit _ _ ws => valCompose G cur ws
  | .mulLoc _ _ => valCompose G cur src
  | .plusLit _ _ a => valPlus G cur a
  | .castRt _ _ => src.map conv
  | .readSub _ _ _ => src
  | .readLog _ _ _ => wordsOfVec (G.log (vecOfWords G.rep src))

/-- one step of the script interpreter -/
def step (conv : Word → Word) (d : GDesc) (op : Op) (b : Buf) : Buf :=
  match op.target d with
  | none => b
  | some t =>
    let cur := load b t.off t.len
    let src := match op.srcRange d with
      | some r => load b r.1 r.2
      | none => []
    write b t.off ((opValue (α := α) conv (GDesc.model t.desc) op cur src).take t.len)

/-- run a script, returning the buffer after each op -/
def runTrace (conv : Word → Word) (d : GDesc) : List Op → Buf → List Buf
  | [], _ => []
  | op :: ops, b =>
    let b' := step (α := α) conv d op b
    b' :: runTrace conv d ops b'

/-- run a script, returning the final buffer -/
def run (conv : Word → Word) (d : GDesc) (ops : List Op) (b : Buf) : Buf :=
  ops.foldl (fun b op => step (α := α) conv d op b) b

end step

/-- `cast<NewScalar>()`: coefficient-wise conversion, order kept -/
def castWords (conv : Word → Word) (ws : List Word) : List Word := ws.map conv

def f64to32 (w : Word) : Word := (Float.ofBits w).toFloat32.toBits.toUInt64
def f32to64 (w : Word) : Word := (Float32.ofBits w.toUInt32).toFloat.toBits
/-- `double → float → double` and `float → double → float` (the latter is the identity on
    non-NaN words) -/
def rt64 (w : Word) : Word := f32to64 (f64to32 w)
def rt32 (w : Word) : Word := f64to32 (f32to64 w)

end Mem
