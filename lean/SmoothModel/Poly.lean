/-
  Poly.lean — executable model of smooth/polynomial/{basis,quadrature,static_matrix}.hpp.

  Everything is written once over `[Scalar α]`:
  * `α := Float`  : mirrors the C++ expression trees operation by operation (tie T1, 0 ulp);
  * `α := Rat`    : exact tables (tie T2: compared by the kernel with the tables dumped from the code);
  * `α := ℝ`      : object of the general theorems (SmoothProofs/C20*.lean, SmoothProps/C20.lean).

  Variable-size tables are lists of rows (`Tab α := List (List α)`), read with `Tab.get` (0 outside).
  A `StaticMatrix<S,R,C>` of the C++ is a `Tab` with R rows of length C; "row-major matrix B such that
  p(x) = [1 x … x^K] B β": `B.get i k` is the coefficient of x^i in basis polynomial number k.

  Only structural recursion / `List.range` folds are used so that the kernel can evaluate the
  definitions (`decide +kernel` at `Rat`).
-/
import SmoothModel.Scalar

open Scalar

namespace Poly
variable {α : Type} [Scalar α]

abbrev Tab (α : Type) := List (List α)

/-- list read with default 0 -/
def rget (l : List α) (i : Nat) : α := l.getD i (nat 0)

/-- table read, 0 outside the table -/
def Tab.get (M : Tab α) (i j : Nat) : α := rget (M.getD i []) j

/-- `r × c` table from an entry function -/
def ofFn (r c : Nat) (f : Nat → Nat → α) : Tab α :=
  (List.range r).map fun i => (List.range c).map fun j => f i j

def rowFn (c : Nat) (f : Nat → α) : List α := (List.range c).map f

/-- left-to-right sum `((0 + f 0) + f 1) + … + f (n-1)`: the accumulation order of the scalar loops
    `ret[i][j] += …` of `StaticMatrix::operator*` (ret starts at 0) -/
def sumTo : Nat → (Nat → α) → α
  | 0, _ => nat 0
  | n+1, f => sumTo n f + f n

/-- `StaticMatrix::operator*` : `(r×n) * (n×c)` -/
def mmul (r n c : Nat) (A B : Tab α) : Tab α :=
  ofFn r c fun i j => sumTo n fun k => A.get i k * B.get k j

/-- `StaticMatrix::operator+` -/
def madd (r c : Nat) (A B : Tab α) : Tab α := ofFn r c fun i j => A.get i j + B.get i j

/-- `StaticMatrix::transpose` (square use only in the C++) -/
def transpose (r c : Nat) (A : Tab α) : Tab α := ofFn c r fun i j => A.get j i

def zeros (r c : Nat) : Tab α := ofFn r c fun _ _ => nat 0

/-- functional update of one list cell -/
def modAt : List α → Nat → (α → α) → List α
  | [], _, _ => []
  | x :: xs, 0, f => f x :: xs
  | x :: xs, i+1, f => x :: modAt xs i f

def modRow : Tab α → Nat → (List α → List α) → Tab α
  | [], _, _ => []
  | x :: xs, 0, f => f x :: xs
  | x :: xs, i+1, f => x :: modRow xs i f

/-- `M[i][j] = f(M[i][j])` -/
def modRC (M : Tab α) (i j : Nat) (f : α → α) : Tab α := modRow M i fun row => modAt row j f

def setRC (M : Tab α) (i j : Nat) (v : α) : Tab α := modRC M i j fun _ => v

/-- `for (k = lo; k < hi; ++k) s = f k s` -/
def forRange {σ : Type} (lo hi : Nat) (s : σ) (f : Nat → σ → σ) : σ :=
  (List.range (hi - lo)).foldl (fun s d => f (lo + d) s) s

/-! ## monomial_derivative(s) -/

/-- the loop of `monomial_derivative` from index `i` on: state `P1 = u^(i-1-p)`, `P2 = (i-1)!/(i-1-p)!`;
    `fuel` = number of remaining entries -/
def monoDerivLoop (u : α) (p : Nat) : (fuel i : Nat) → (P1 : α) → (P2 : Nat) → List α
  | 0, _, _, _ => []
  | fuel+1, i, P1, P2 =>
    let P1' := P1 * u
    let P2' := (P2 * i) / (i - p)
    (P1' * nat P2') :: monoDerivLoop u p fuel (i+1) P1' P2'

def factorial : Nat → Nat
  | 0 => 1
  | n+1 => (n+1) * factorial n

/-- `monomial_derivative<K>(u, p)` : row `U` with `U_k = d^p/du^p u^k`, k = 0..K.
    `P2` is a `std::size_t` in the C++ (no overflow for the degrees in use: K ≤ 20) -/
def monoDeriv (K : Nat) (u : α) (p : Nat) : List α :=
  if K < p then List.replicate (K+1) (nat 0)
  else
    List.replicate p (nat 0) ++ ((nat 1 * nat (factorial p)) :: monoDerivLoop u p (K - p) (p+1) (nat 1) (factorial p))

/-- `monomial_derivatives<K,P>(u)` : rows p = 0..P -/
def monoDerivs (K P : Nat) (u : α) : Tab α := (List.range (P+1)).map fun p => monoDeriv K u p

/-! ## basis coefficient matrices (namespace detail of basis.hpp) -/

/-- `detail::bernstein_basis<K>()` -/
def bernstein : Nat → Tab α
  | 0 => [[nat 1]]
  | K+1 =>
    let prev : Tab α := bernstein K
    let n := K+1
    let low : Tab α := ofFn (n+1) n fun i j => if i < n then prev.get i j else nat 0
    let high : Tab α := ofFn (n+1) n fun i j => if 0 < i then prev.get (i-1) j else nat 0
    let left : Tab α := ofFn n (n+1) fun k j => if j = k then nat 1 else nat 0
    let right : Tab α := ofFn n (n+1) fun k j => if j = k then -(nat 1) else if j = k+1 then nat 1 else nat 0
    madd (n+1) (n+1) (mmul (n+1) n (n+1) low left) (mmul (n+1) n (n+1) high right)

/-- `detail::bspline_basis<K>()` -/
def bspline : Nat → Tab α
  | 0 => [[nat 1]]
  | K+1 =>
    let prev : Tab α := bspline K
    let n := K+1
    let low : Tab α := ofFn (n+1) n fun i j => if i < n then prev.get i j else nat 0
    let high : Tab α := ofFn (n+1) n fun i j => if 0 < i then prev.get (i-1) j else nat 0
    let left : Tab α := ofFn n (n+1) fun k j =>
      if j = k+1 then nat (n - (k+1)) / nat n
      else if j = k then nat 1 - nat (n - (k+1)) / nat n else nat 0
    let right : Tab α := ofFn n (n+1) fun k j =>
      if j = k+1 then nat 1 / nat n
      else if j = k then -(nat 1 / nat n) else nat 0
    madd (n+1) (n+1) (mmul (n+1) n (n+1) low left) (mmul (n+1) n (n+1) high right)

/-- `detail::hermite_basis<K>()` (physicists' Hermite polynomials) -/
def hermite (K : Nat) : Tab α :=
  let M0 : Tab α := setRC (zeros (K+1) (K+1)) 0 0 (nat 1)
  let M1 : Tab α := if 0 < K then setRC M0 1 1 (nat 2) else M0
  forRange 2 (K+1) M1 fun k M =>
    let M := forRange 0 k M fun i M => modRC M (i+1) k fun x => x + nat 2 * M.get i (k-1)
    forRange 0 (k-1) M fun i M => modRC M i k fun x => x - nat (2 * (k-1)) * M.get i (k-2)

/-- `detail::laguerre_basis<K>()` -/
def laguerre (K : Nat) : Tab α :=
  let M0 : Tab α := setRC (zeros (K+1) (K+1)) 0 0 (nat 1)
  let M1 : Tab α := if 0 < K then setRC (setRC M0 0 1 (nat 1)) 1 1 (-(nat 1)) else M0
  forRange 2 (K+1) M1 fun k M =>
    let M := forRange 0 k M fun i M =>
      let M := modRC M i k fun x => x + (nat (2*k-1) * M.get i (k-1)) / nat k
      modRC M (i+1) k fun x => x - M.get i (k-1) / nat k
    forRange 0 (k-1) M fun i M => modRC M i k fun x => x - (nat (k-1) * M.get i (k-2)) / nat k

/-- `detail::jacobi_basis<K>(alpha, beta)` (all coefficient arithmetic in `double`) -/
def jacobi (K : Nat) (a b : α) : Tab α :=
  let M0 : Tab α := setRC (zeros (K+1) (K+1)) 0 0 (nat 1)
  let M1 : Tab α :=
    if 0 < K then setRC (setRC M0 0 1 ((a + nat 1) - ((a + b) + nat 2) / nat 2)) 1 1 (((a + b) + nat 2) / nat 2) else M0
  forRange 2 (K+1) M1 fun k M =>
    let s : α := (nat (2*k) + a) + b                       -- 2k + alpha + beta
    let frac : α := nat 1 / ((nat (2*k) * ((nat k + a) + b)) * (s - nat 2))
    let c1 : α := (s - nat 1) * (a * a - b * b)
    let c2 : α := ((s - nat 1) * s) * (s - nat 2)
    let c3 : α := ((nat 2 * ((nat k + a) - nat 1)) * ((nat k + b) - nat 1)) * s
    let M := forRange 0 k M fun i M =>
      let M := modRC M i k fun x => x + (c1 * M.get i (k-1)) * frac
      modRC M (i+1) k fun x => x + (c2 * M.get i (k-1)) * frac
    forRange 0 (k-1) M fun i M => modRC M i k fun x => x - (c3 * M.get i (k-2)) * frac

def monomial (K : Nat) : Tab α := ofFn (K+1) (K+1) fun i j => if i = j then nat 1 else nat 0

def legendre (K : Nat) : Tab α := jacobi K (nat 0) (nat 0)

/-- `-0.5` -/
def mhalf : α := -(nat 1 / nat 2)
def half : α := nat 1 / nat 2

/-- `polynomial_basis<Chebyshev1st,K>()`: Jacobi(-1/2,-1/2) rescaled to `T_k(1) = 1` -/
def chebyshev1 (K : Nat) : Tab α :=
  let J : Tab α := jacobi K mhalf mhalf
  let fac : Tab α := mmul 1 (K+1) (K+1) [monoDeriv K (nat 1) 0] J
  ofFn (K+1) (K+1) fun r k => J.get r k / fac.get 0 k

/-- `polynomial_basis<Chebyshev2nd,K>()`: Jacobi(1/2,1/2) rescaled to `U_k(1) = k+1` -/
def chebyshev2 (K : Nat) : Tab α :=
  let J : Tab α := jacobi K half half
  let fac : Tab α := mmul 1 (K+1) (K+1) [monoDeriv K (nat 1) 0] J
  ofFn (K+1) (K+1) fun r k => J.get r k * (nat (k+1) / fac.get 0 k)

inductive Basis | Bernstein | Bspline | Chebyshev1st | Chebyshev2nd | Hermite | Laguerre | Legendre | Monomial
  deriving DecidableEq, Repr

def Basis.ofString? : String → Option Basis
  | "Bernstein" => some .Bernstein | "Bspline" => some .Bspline
  | "Chebyshev1st" => some .Chebyshev1st | "Chebyshev2nd" => some .Chebyshev2nd
  | "Hermite" => some .Hermite | "Laguerre" => some .Laguerre
  | "Legendre" => some .Legendre | "Monomial" => some .Monomial
  | _ => none

/-- `polynomial_basis<Basis,K>()` -/
def basis : Basis → Nat → Tab α
  | .Bernstein, K => bernstein K
  | .Bspline, K => bspline K
  | .Chebyshev1st, K => chebyshev1 K
  | .Chebyshev2nd, K => chebyshev2 K
  | .Hermite, K => hermite K
  | .Laguerre, K => laguerre K
  | .Legendre, K => legendre K
  | .Monomial, K => monomial K

/-- suffix sums of a row, accumulated from the right: `M[i][K-1-j] += M[i][K-j]`, j = 0..K-1 -/
def cumRow : List α → List α
  | [] => []
  | [x] => [x]
  | x :: y :: r =>
    match cumRow (y :: r) with
    | [] => [x]
    | s :: t => (x + s) :: s :: t

/-- `polynomial_cumulative_basis<Basis,K>()` applied to a basis table -/
def cumulative (M : Tab α) : Tab α := M.map cumRow

def cumulativeBasis (b : Basis) (K : Nat) : Tab α := cumulative (basis b K)

/-- product `lo * (lo+1) * … * hi` over `std::size_t`, starting from `c` -/
def prodRange (c lo hi : Nat) : Nat := forRange lo (hi+1) c fun k c => c * k

/-- `monomial_integral<K,P>()` -/
def monomialIntegral (K P : Nat) : Tab α :=
  ofFn (K+1) (K+1) fun i j =>
    let lo := Nat.min i j
    let hi := Nat.max i j
    if P ≤ lo then
      nat (prodRange (prodRange 1 (lo - P + 1) lo) (hi - P + 1) hi) / nat (lo + hi - 2*P + 1)
    else nat 0

/-- `polynomial_basis_derivatives<K,N>(B, ts)` : `D[i][j] = d/dt p_i(t_j)` -/
def basisDerivatives (K : Nat) (B : Tab α) (ts : List α) : Tab α :=
  let cols : List (List α) := ts.map fun t =>
    let UB : Tab α := mmul 1 (K+1) (K+1) [monoDeriv K t 1] B
    UB.getD 0 []
  ofFn (K+1) ts.length fun i j => rget (cols.getD j []) i

/-! ## lagrange_basis -/

/-- one row of `lagrange_basis` before the final transpose -/
def lagrangeRow (K : Nat) (ts : List α) (row : Nat) : List α :=
  let r0 : List α := rowFn (K+1) fun i => if i = 0 then nat 1 else nat 0
  forRange 0 (K+1) r0 fun col r =>
    if col = row then r
    else
      let rc := r
      let d : α := rget ts row - rget ts col
      let z : List α := rowFn (K+1) fun _ => nat 0
      forRange 0 (col - (if row < col then 1 else 0) + 1) z fun i r =>
        let r := modAt r (i+1) fun x => x + rget rc i / d
        modAt r i fun x => x - (rget ts col * rget rc i) / d

/-- `lagrange_basis<K>(ts)` -/
def lagrange (K : Nat) (ts : List α) : Tab α :=
  transpose (K+1) (K+1) ((List.range (K+1)).map fun row => lagrangeRow K ts row)

/-! ## integrate_absolute_polynomial -/

/-- `std::clamp(v, lo, hi)` as libstdc++ computes it: `min(max(v, lo), hi)` -/
def clamp (v lo hi : α) : α :=
  let m := if v < lo then lo else v
  if hi < m then hi else m

/-- antiderivative `A u³/3 + B u²/2 + C u` in the C++ operation order -/
def integ (A B C u : α) : α := (((A * u) * u) * u) / nat 3 + ((B * u) * u) / nat 2 + C * u

/-- the two (optional) sign-change locations; `none` is the C++ `+infinity` -/
def absPolyMids (thr t0 t1 A B C : α) : Option α × Option α :=
  if Scalar.abs A < thr ∧ thr < Scalar.abs B then
    (some (clamp (-C / B) t0 t1), none)
  else if thr ≤ Scalar.abs A then
    let res : α := (B * B) / ((nat 4 * A) * A) - C / A
    if nat 0 < res then
      (some (-B / (nat 2 * A) - Scalar.sqrt res), some (-B / (nat 2 * A) + Scalar.sqrt res))
    else (none, none)
  else (none, none)

/-- `integrate_absolute_polynomial(t0, t1, A, B, C)`; `thr` is the literal `1e-9`.
    `clamp(+inf, t0, t1) = t1`. -/
def integrateAbs (thr t0 t1 A B C : α) : α :=
  let m := absPolyMids thr t0 t1 A B C
  let mid1cl : α := match m.1 with | none => t1 | some x => clamp x t0 t1
  let mid2cl : α := match m.2 with | none => t1 | some x => clamp x t0 t1
  Scalar.abs (((integ A B C t1 - integ A B C t0) + nat 2 * integ A B C mid1cl) - nat 2 * integ A B C mid2cl)

/-! ## quadrature.hpp -/

/-- `detail::pow_s<K>(x)` : right fold `x * (x * (… * (x * 1.)))` -/
def powS : Nat → α → α
  | 0, _ => nat 1
  | k+1, x => x * powS k x

/-- `detail::factorial_s<K>()` : right fold `1 * (2 * (… * (K * 1.)))` -/
def factSFrom : (fuel j : Nat) → α
  | 0, _ => nat 1
  | fuel+1, j => nat j * factSFrom fuel (j+1)

def factS (k : Nat) : α := factSFrom k 1

/-- `detail::cos_s(x)` : 8 Taylor terms, right fold `t0 + (t1 + (… + t7))` -/
def cosS (x : α) : α :=
  let term : Nat → α := fun n => (powS n (-(nat 1)) * powS (2*n) x) / factS (2*n)
  let rec go : (fuel n : Nat) → α
    | 0, n => term n
    | fuel+1, n => term n + go fuel (n+1)
  go 7 0

/-- `cgr_nodes<K>()` -/
def cgrNodes (K : Nat) : List α :=
  rowFn K fun i => -(cosS (((nat 2 * Scalar.pi) * nat i) / nat (2*K - 1)))

/-- one LGR node: `iters` Newton steps on `p_{K-1} + p_K`; returns the node and the last `U_B[0][0]`
    (evaluated before the last update, as in the C++) -/
def lgrNewton (K : Nat) (B : Tab α) : (iters : Nat) → (x ub0 : α) → α × α
  | 0, x, ub0 => (x, ub0)
  | it+1, x, _ =>
    let UB : Tab α := mmul 1 (K+1) 2 [monoDeriv K x 0] B
    let dUB : Tab α := mmul 1 (K+1) 2 [monoDeriv K x 1] B
    let f : α := UB.get 0 0 + UB.get 0 1
    let df : α := dUB.get 0 0 + dUB.get 0 1
    lgrNewton K B it (x - f / df) (UB.get 0 0)

/-- `lgr_nodes<K,I>()` : (nodes, weights) -/
def lgrNodes (K : Nat) (I : Nat := 8) : List α × List α :=
  let L : Tab α := legendre K
  let B : Tab α := ofFn (K+1) 2 fun i j => L.get i (K - 1 + j)
  let x0 : List α := cgrNodes K
  let res : List (α × α) := (List.range K).map fun i =>
    if i = 0 then (rget x0 0, nat 2 / nat (K*K))
    else
      let r := lgrNewton K B I (rget x0 i) (nat 0)
      (r.1, (nat 1 - r.1) / ((nat (K*K) * r.2) * r.2))
  (res.map (·.1), res.map (·.2))

/-! ## evaluation helpers (used by driver, audit and theorems) -/

/-- `Σ_i M[i][j] u^i` (left-to-right): value of basis polynomial `j` at `u` -/
def evalCol (M : Tab α) (rows : Nat) (j : Nat) (u : α) : α :=
  sumTo rows fun i => M.get i j * powS i u

def flatten (M : Tab α) : List α := M.foldr (· ++ ·) []

end Poly
