/-
  CSpline.lean — spline/detail/cumulative_spline_impl.hpp: `cspline_eval_vs`, `cspline_eval_gs`
  (value, velocity, acceleration, jerk), and `monomial_derivative(s)` of polynomial/basis.hpp as
  used by them.  The Jacobian routines `cspline_eval_dg_dvs/dgs` live in CSplineJac.lean.

  -- src: spline/detail/cumulative_spline_impl.hpp:9-75 (eval_vs), :155-168 (eval_gs);
  --      polynomial/basis.hpp:26-66 (monomial_derivative(s))
  Compared with the implementation by harness/cspline.cpp (tie T1, ops cs_eval_vs / cs_eval_gs).
-/
import SmoothModel.Lin
import SmoothModel.Group

open Scalar Lin
namespace CSpline
variable {α : Type} [Scalar α]

/-- `monomial_derivative<K>(u, p)`: entry `i` is `d^p/du^p u^i`, computed as the code does:
    `P1` = running product `((1·u)·u)…` (i−p factors), `P2` = integer `i!/(i−p)!`
    (`P2 = p!`, then `P2 *= i; P2 /= i − p` for i = p+1.. in `size_t` arithmetic). -/
def monoDerivP2 (p : Nat) : Nat → Nat
  | i => if i < p then 0 else (List.range (i - p)).foldl (fun acc t => acc * (p + 1 + t) / (t + 1))
           ((List.range p).foldl (fun acc t => acc * (t + 1)) 1)

def monoDerivP1 (u : α) : Nat → α
  | 0 => nat 1
  | n+1 => monoDerivP1 u n * u

def monomial_derivative (K : Nat) (u : α) (p : Nat) : Vec α (K + 1) :=
  .of (fun i =>
    if p > K then nat 0
    else if i.val < p then nat 0
    else monoDerivP1 u (i.val - p) * nat (monoDerivP2 p i.val))

/-- Eigen's completely unrolled scalar reduction (`redux_novec_unroller<Start, Length>`): the
    range is split in halves, `sum(s, n) = sum(s, n/2) + sum(s + n/2, n − n/2)`.  This is the
    order in which `uvec.dot(Bcum.col(j))` adds its `K+1` products (a column of a row-major map
    has no packet access, so the reduction is the scalar one). -/
def treeSum (f : Nat → α) (s n : Nat) : α :=
  if n = 0 then nat 0
  else if n = 1 then f s
  else treeSum f s (n / 2) + treeSum f (s + n / 2) (n - n / 2)
termination_by n
decreasing_by all_goals omega

/-- loop state of `cspline_eval_vs` -/
structure St (α : Type) (G : LieModel α) where
  g : Vec α G.rep
  vel : Vec α G.dof
  acc : Vec α G.dof
  jer : Vec α G.dof

variable (G : LieModel α)

/-- one iteration `j` of the loop body (all optional outputs requested) -/
def step (Bj dBj d2Bj d3Bj : α) (vj : Vec α G.dof) (s : St α G) : St α G :=
  let e := memoV (G.exp (vsmul Bj vj))
  let g' := memoV (G.composition s.g e)
  let Adj := memoM (G.Ad (memoV (G.inverse e)))
  -- vel.applyOnTheLeft(Adj); vel += dBj * vj
  let v1 := mulVec Adj s.vel
  let vel' := memoV (.of (fun i => v1 i + dBj * vj i))
  -- acc
  let vbv := memoV (mulVec (G.ad vel') vj)          -- vel_bracket_vj = ad(vel)·vj
  let a1 := mulVec Adj s.acc
  let acc' := memoV (.of (fun i => (a1 i + dBj * vbv i) + d2Bj * vj i))
  -- jerk
  let j1 := mulVec Adj s.jer
  let t1 := mulVec (msmul (nat 2 * dBj) (G.ad acc')) vj
  let t2 := mulVec (msmul (dBj * dBj) (G.ad vbv)) vj
  let jer' := memoV (.of (fun i => (((j1 i + t1 i) - t2 i) + d2Bj * vbv i) + d3Bj * vj i))
  ⟨g', vel', acc', jer'⟩

/-- `uvec.dot(Bcum.col(j))` -/
def bdot {K : Nat} (U : Vec α (K + 1)) (Bcum : Mat α (K + 1) (K + 1)) (j : Fin (K + 1)) : α :=
  treeSum (fun r => if h : r < K + 1 then U ⟨r, h⟩ * Bcum ⟨r, h⟩ j else nat 0) 0 (K + 1)

/-- the four basis values `(B̃ⱼ, B̃ⱼ', B̃ⱼ'', B̃ⱼ''')(u)` of column `j` -/
def bvals {K : Nat} (Bcum : Mat α (K + 1) (K + 1)) (u : α) : Fin (K + 1) → α × α × α × α :=
  let U0 := memoV (monomial_derivative K u 0)
  let U1 := memoV (monomial_derivative K u 1)
  let U2 := memoV (monomial_derivative K u 2)
  let U3 := memoV (monomial_derivative K u 3)
  fun jj => (bdot U0 Bcum jj, bdot U1 Bcum jj, bdot U2 Bcum jj, bdot U3 Bcum jj)

/-- `cspline_eval_vs<K>(vs, Bcum, u, vel, acc, jer)` -/
def eval_vs {K : Nat} (vs : Fin K → Vec α G.dof) (Bcum : Mat α (K + 1) (K + 1)) (u : α) : St α G :=
  let U0 := memoV (monomial_derivative K u 0)
  let U1 := memoV (monomial_derivative K u 1)
  let U2 := memoV (monomial_derivative K u 2)
  let U3 := memoV (monomial_derivative K u 3)
  let init : St α G := ⟨G.identity, vzero _, vzero _, vzero _⟩
  (List.finRange K).foldl (fun s j =>
    let jj : Fin (K + 1) := ⟨j.val + 1, by omega⟩
    step G (bdot U0 Bcum jj) (bdot U1 Bcum jj) (bdot U2 Bcum jj) (bdot U3 Bcum jj) (vs j) s) init

/-- the differences `v_i = rminus(g_i, g_{i−1})` of `cspline_eval_gs` / `cspline_eval_dg_dgs` -/
def diffs {K : Nat} (gs : Fin (K + 1) → Vec α G.rep) : Fin K → Vec α G.dof := fun i =>
  G.rminus (gs ⟨i.val + 1, by omega⟩) (gs ⟨i.val, by omega⟩)

/-- `cspline_eval_gs<K>(gs, …)`: `v_i = rminus(g_i, g_{i−1})`, result `g_0 ∘ eval_vs` -/
def eval_gs {K : Nat} (gs : Fin (K + 1) → Vec α G.rep) (Bcum : Mat α (K + 1) (K + 1)) (u : α) : St α G :=
  let vs : Fin K → Vec α G.dof := diffs G gs
  let vsm : Fin K → Vec α G.dof := fun i => memoV (vs i)
  let s := eval_vs G vsm Bcum u
  ⟨G.composition (gs ⟨0, by omega⟩) s.g, s.vel, s.acc, s.jer⟩

end CSpline
