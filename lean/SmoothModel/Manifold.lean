/-
  Manifold.lean — the Manifold interface (concepts/manifold.hpp: `traits::man<M>`) and the adaptors
  that make other types Manifolds (property C07):

    concepts/lie_group.hpp   man<LieGroup>         `ofLie`      rplus = g ∘ exp a, rminus = log(g₂⁻¹ ∘ g₁)
    lie_groups/rn.hpp        Eigen::VectorX        `vecX`       (dynamic size; static sizes are `Tn n`)
    lie_groups/scalar.hpp    double / float        `scalar`
    manifolds/vector.hpp     std::vector<M>        `vector`     dof counter, consecutive segments, zip
    manifolds/variant.hpp    std::variant<Ms...>   `variant`    visit; rminus across alternatives throws
    manifolds/submanifold.hpp SubManifold<M>       `sub`        sorted fixed dims, scatter / gather, cast
    manifolds/any.hpp        AnyManifold           `any` + `AnyHeap` (clone on copy)

  A `Man α M` is the record of what `traits::man<M>` offers.  Tangent vectors are `List α`
  (`Eigen::VectorX`; the static-size cases are the lists of that length).  Operations that THROW in
  the C++ (`std::get` on the wrong alternative, AnyManifold default/cast) return `Except.error`;
  operations whose misuse is an `assert` / undefined behaviour (tangent of the wrong length) are
  total here and the theorems carry the guard explicitly.

  No Mathlib import: everything here links into the driver.
-/
import SmoothModel.Lin
import SmoothModel.Group

open Scalar Lin

namespace Manif
variable {α : Type} [Scalar α]

/-- what `traits::man<M>` provides (`cast` is the cast to the SAME scalar type) -/
structure Man (α : Type) (M : Type) where
  /-- compile-time `Dof` (`none` = −1, dynamic) -/
  sdof : Option Nat
  dof : M → Nat
  rplus : M → List α → M
  rminus : M → M → Except String (List α)
  cast : M → Except String M
  default : Nat → Except String M

/-! ### conversions between tangent lists and fixed-size vectors -/

def vecOfList {n : Nat} (l : List α) : Vec α n := .of (fun i => l.getD i.val (nat 0))
def listOfVec {n : Nat} (v : Vec α n) : List α := List.ofFn v.get

/-! ### `traits::man<G>` for a Lie group (concepts/lie_group.hpp:100-133) -/

def lieRplus (G : LieModel α) (g : Vec α G.rep) (a : List α) : Vec α G.rep :=
  G.rplus g (memoV (vecOfList a))
def lieRminus (G : LieModel α) (g1 g2 : Vec α G.rep) : Except String (List α) :=
  .ok (listOfVec (G.rminus g1 g2))

def ofLie (G : LieModel α) : Man α (Vec α G.rep) where
  sdof := some G.dof
  dof := fun _ => G.dof
  rplus := lieRplus G
  rminus := lieRminus G
  cast := fun g => .ok g
  default := fun _ => .ok G.identity

/-! ### dynamic Eigen vectors (lie_groups/rn.hpp with `Dof = -1`) and built-in scalars -/

def vecxRplus (v a : List α) : List α := List.zipWith (fun x y => x + y) v a
/-- `log(inverse(g2) ∘ g1) = (−g2) + g1` -/
def vecxRminus (x y : List α) : Except String (List α) :=
  .ok (List.zipWith (fun yi xi => (-yi) + xi) y x)

def vecX : Man α (List α) where
  sdof := none
  dof := List.length
  rplus := vecxRplus
  rminus := vecxRminus
  cast := fun v => .ok v
  default := fun n => .ok (List.replicate n (nat 0))

def scalar : Man α α where
  sdof := some 1
  dof := fun _ => 1
  rplus := fun x a => x + a.headD (nat 0)
  rminus := fun x y => .ok [(-y) + x]
  cast := fun x => .ok x
  default := fun _ => .ok (nat 0)

/-! ### `std::vector<M>` (manifolds/vector.hpp) -/

/-- `a.segment(off, len)` -/
def segment (a : List α) (off len : Nat) : List α := (a.drop off).take len

/-- `ret.segment(off, len) = d` (entries of `d` beyond `len` do not exist in a well-formed call;
    missing ones read as 0) -/
def writeSeg (buf : List α) (off len : Nat) (d : List α) : List α :=
  buf.mapIdx (fun i b => if off ≤ i ∧ i < off + len then d.getD (i - off) (nat 0) else b)

section vector
variable {M : Type} (A : Man α M)

/-- `dof`: `size · Dof` for static element sizes, `accumulate` otherwise -/
def vectorDof (ms : List M) : Nat :=
  match A.sdof with
  | some d => ms.length * d
  | none => ms.foldl (fun s m => s + A.dof m) 0

/-- the loop of `rplus`: `dof_cntr` runs over consecutive segments of `a` -/
def vectorRplusLoop : List M → Nat → List α → List M
  | [], _, _ => []
  | m :: ms, cntr, a =>
    A.rplus m (segment a cntr (A.dof m)) :: vectorRplusLoop ms (cntr + A.dof m) a

def vectorRplus (ms : List M) (a : List α) : List M := vectorRplusLoop A ms 0 a

/-- size of the return vector of `rminus` (`dof_cnts`) -/
def vectorRminusSize (m1 : List M) : Nat :=
  match A.sdof with
  | some d => d * m1.length
  | none => m1.foldl (fun s m => s + A.dof m) 0

/-- the loop of `rminus` over `utils::zip(m1, m2)` (stops at the shorter range) -/
def vectorRminusLoop : List M → List M → Nat → List α → Except String (List α)
  | m1 :: r1, m2 :: r2, idx, ret => do
    let d ← A.rminus m1 m2
    vectorRminusLoop r1 r2 (idx + A.dof m1) (writeSeg ret idx (A.dof m1) d)
  | _, _, _, ret => pure ret

/-- `rminus`: `ret` is allocated UNINITIALISED (`Eigen::VectorX ret(dof_cnts)`); `uninit i` is
    whatever the memory holds.  When `m1` is longer than `m2` the tail keeps those values. -/
def vectorRminus (uninit : Nat → α) (m1 m2 : List M) : Except String (List α) :=
  vectorRminusLoop A m1 m2 0 ((List.range (vectorRminusSize A m1)).map uninit)

def vectorCast : List M → Except String (List M)
  | [] => pure []
  | m :: ms => do
    let c ← A.cast m
    let cs ← vectorCast ms
    pure (c :: cs)

def vectorDefault (dof : Nat) : Except String (List M) := do
  let mdof := A.sdof.getD 1
  let e ← A.default mdof
  pure (List.replicate (dof / mdof) e)

def vector (uninit : Nat → α := fun _ => nat 0) : Man α (List M) where
  sdof := none
  dof := vectorDof A
  rplus := vectorRplus A
  rminus := vectorRminus A uninit
  cast := vectorCast A
  default := vectorDefault A

end vector

/-! ### `std::variant<Ms...>` (manifolds/variant.hpp) -/

section variant
variable {ι : Type} [DecidableEq ι] {Ms : ι → Type} (A : ∀ i, Man α (Ms i))

/-- `std::visit` with `std::get<Mi>(m2)`: throws `bad_variant_access` when `m2` holds another
    alternative -/
def variantRminus (v w : Σ i, Ms i) : Except String (List α) :=
  if h : w.1 = v.1 then (A v.1).rminus v.2 (h ▸ w.2) else .error "bad_variant_access"

def variantCast (v : Σ i, Ms i) : Except String (Σ i, Ms i) := do
  let x ← (A v.1).cast v.2
  pure ⟨v.1, x⟩

def variantDefault (first : ι) (d : Nat) : Except String (Σ i, Ms i) := do
  let x ← (A first).default d
  pure ⟨first, x⟩

/-- `first` is the first alternative (`Default` returns it) -/
def variant (first : ι) : Man α (Σ i, Ms i) where
  sdof := none
  dof := fun v => (A v.1).dof v.2
  rplus := fun v a => ⟨v.1, (A v.1).rplus v.2 a⟩
  rminus := variantRminus A
  cast := variantCast A
  default := variantDefault A first

/-! ### `AnyManifold` (manifolds/any.hpp), value level: a wrapped object of some type `Ms i`.
    `rminus` `static_cast`s the other wrapper to `wrapper<M>` (undefined behaviour when the wrapped
    types differ: the model reports it); `Default` and `cast` throw. -/
def anyRminus (v w : Σ i, Ms i) : Except String (List α) :=
  if h : w.1 = v.1 then (A v.1).rminus v.2 (h ▸ w.2)
  else .error "undefined: wrapped types differ"

def any : Man α (Σ i, Ms i) where
  sdof := none
  dof := fun v => (A v.1).dof v.2
  rplus := fun v a => ⟨v.1, (A v.1).rplus v.2 a⟩
  rminus := anyRminus A
  cast := fun _ => .error "AnyManifold: cast not supported"
  default := fun _ => .error "AnyManifold: default not supported"

/-- `AnyManifold()` -/
def anyDefaultCtor : Except String (Σ i, Ms i) := .error "Can not default-construct"

end variant

/-! ### `SubManifold<M>` (manifolds/submanifold.hpp) -/

structure SubMan (M : Type) where
  m0 : M
  m : M
  fixed : List Nat

def insertSorted (x : Nat) : List Nat → List Nat
  | [] => [x]
  | y :: ys => if x ≤ y then x :: y :: ys else y :: insertSorted x ys

/-- `std::sort(m_fixed_dims)` (the sorted rearrangement; which algorithm produces it is immaterial) -/
def isort : List Nat → List Nat
  | [] => []
  | x :: xs => insertSorted x (isort xs)

/-- the constructor `SubManifold(m0, m, fixed_dims)` -/
def SubMan.ctor {M : Type} (m0 m : M) (fixed : List Nat) : SubMan M := ⟨m0, m, isort fixed⟩

/-- the loop of `SubManifold::rplus` (`m_calc.setZero; if (k >= size || i != fixed(k)) m_calc(i) =
    a(j++) else ++k`): `rem` full indices remain, `i` is the full index, `fixed` the fixed dims from
    index `k` on, `a` the tangent from index `j` on. -/
def scatterLoop (zero : α) : (rem i : Nat) → (fixed : List Nat) → (a : List α) → List α
  | 0, _, _, _ => []
  | rem+1, i, [], a => a.headD zero :: scatterLoop zero rem (i+1) [] a.tail
  | rem+1, i, f :: fs, a =>
    if i ≠ f then a.headD zero :: scatterLoop zero rem (i+1) (f :: fs) a.tail
    else zero :: scatterLoop zero rem (i+1) fs a

def scatter (n : Nat) (fixed : List Nat) (a : List α) : List α := scatterLoop (nat 0) n 0 fixed a

/-- the loop of `SubManifold::rminus` (`ret(j++) = m_calc(i)` on free indices) -/
def gatherLoop : (i : Nat) → (fixed : List Nat) → (x : List α) → List α
  | _, _, [] => []
  | i, [], c :: cs => c :: gatherLoop (i+1) [] cs
  | i, f :: fs, c :: cs =>
    if i ≠ f then c :: gatherLoop (i+1) (f :: fs) cs else gatherLoop (i+1) fs cs

def gather (fixed : List Nat) (x : List α) : List α := gatherLoop 0 fixed x

/-- `ret.setZero(n)` followed by writes at `0,1,…` -/
def fitZero (n : Nat) (l : List α) : List α := (l ++ List.replicate n (nat 0)).take n

section sub
variable {M : Type} (A : Man α M)

def subDof (s : SubMan M) : Nat := A.dof s.m0 - s.fixed.length

def subRplus (s : SubMan M) (a : List α) : SubMan M :=
  SubMan.ctor s.m0 (A.rplus s.m (scatter (A.dof s.m0) s.fixed a)) s.fixed

def subRminus (s o : SubMan M) : Except String (List α) := do
  let c ← A.rminus s.m o.m
  pure (fitZero (subDof A s) (gather s.fixed c))

/-- `traits::man<SubManifold<M>>::cast`: `(cast m0, cast m, fixed)` handed to the
    `(m0, m, fixed)` constructor -/
def subCast (s : SubMan M) : Except String (SubMan M) := do
  let cm0 ← A.cast s.m0
  let cm ← A.cast s.m
  pure (SubMan.ctor cm0 cm s.fixed)

/-- the argument order of the tree before commit 9680871 (origin and value exchanged); kept only
    as the object of the negative theorem `C07.swapped_cast_is_not_identity` -/
def subCastSwapped (s : SubMan M) : Except String (SubMan M) := do
  let cm ← A.cast s.m
  let cm0 ← A.cast s.m0
  pure (SubMan.ctor cm cm0 s.fixed)

/-- `Default(dof)` calls a one-argument constructor that does not exist: ill-formed when
    instantiated -/
def subDefault (_ : Nat) : Except String (SubMan M) := .error "ill-formed: no matching constructor"

def sub : Man α (SubMan M) where
  sdof := none
  dof := subDof A
  rplus := subRplus A
  rminus := subRminus A
  cast := subCast A
  default := subDefault

end sub

/-! ### ownership model of `AnyManifold` objects: `std::unique_ptr<wrapper_base>` into a heap -/

namespace AnyHeap
variable {V : Type}

structure Heap (V : Type) where
  cells : List V

/-- `m_val`: `none` is the moved-from null pointer -/
structure Handle where
  ptr : Option Nat
  deriving DecidableEq

def alloc (h : Heap V) (v : V) : Heap V × Handle := (⟨h.cells ++ [v]⟩, ⟨some h.cells.length⟩)

def read (h : Heap V) (a : Handle) : Option V := a.ptr.bind (fun p => h.cells[p]?)

/-- mutation through `get<M>()` -/
def write (h : Heap V) (a : Handle) (v : V) : Heap V :=
  match a.ptr with
  | some p => ⟨h.cells.set p v⟩
  | none => h

/-- copy constructor / copy assignment: `m_val(m.m_val->clone())` -/
def copy (h : Heap V) (a : Handle) : Option (Heap V × Handle) := (read h a).map (alloc h)

/-- move constructor: the new object takes the pointer, the source is left null -/
def move (a : Handle) : Handle × Handle := (⟨a.ptr⟩, ⟨none⟩)

/-- what a pointer-sharing copy would be (for contrast in the proofs) -/
def shallowCopy (h : Heap V) (a : Handle) : Heap V × Handle := (h, a)

end AnyHeap

end Manif
