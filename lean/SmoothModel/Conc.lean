/-
  SmoothModel/Conc.lean — interleaving model used by property C18 (core Lean only).

  Shared state: plain cells `mem : Cell → Val` (members, globals, scratch buffers) and write-once
  cells `once : Cell → Option Val` (function-local statics / lazily initialised tables: `none` =
  "initialiser has not run yet").  A thread is a list of atomic steps; its private state is the log
  `loc : List Val` of everything it has observed/computed (results, thread-private outputs).

    read c        push the current content of shared cell c
    write c v     store `v loc` into shared cell c
    loc f         thread-private computation  (`local` is a Lean keyword)
    initOnce c f  C++ "magic static": the first executor stores `f ()`, every executor reads the cell

  A schedule is ANY list of thread ids (ids without a thread and exhausted threads are no-ops), so
  `run` covers every interleaving of any number of threads, including partial executions.
-/
namespace Conc

abbrev Cell := Nat
abbrev Val := Nat

inductive Step where
  | read (c : Cell)
  | write (c : Cell) (v : List Val → Val)
  | loc (f : List Val → List Val)
  | initOnce (c : Cell) (f : Unit → Val)

structure Shared where
  mem : Cell → Val
  once : Cell → Option Val

/-- per-thread state: remaining steps and the private log -/
structure TState where
  todo : List Step
  loc : List Val

structure Config where
  sh : Shared
  th : Nat → TState

def upd {α : Type} (f : Nat → α) (i : Nat) (a : α) : Nat → α := fun j => if j = i then a else f j

/-- one atomic step of one thread against the shared state -/
def stepThread (sh : Shared) (t : TState) : Shared × TState :=
  match t.todo with
  | [] => (sh, t)
  | .read c :: r => (sh, ⟨r, sh.mem c :: t.loc⟩)
  | .write c v :: r => (⟨upd sh.mem c (v t.loc), sh.once⟩, ⟨r, t.loc⟩)
  | .loc f :: r => (sh, ⟨r, f t.loc⟩)
  | .initOnce c f :: r =>
    match sh.once c with
    | some v => (sh, ⟨r, v :: t.loc⟩)
    | none => (⟨sh.mem, upd sh.once c (some (f ()))⟩, ⟨r, f () :: t.loc⟩)

def Config.step (cfg : Config) (i : Nat) : Config :=
  ⟨(stepThread cfg.sh (cfg.th i)).1, upd cfg.th i (stepThread cfg.sh (cfg.th i)).2⟩

/-- initial configuration: thread `i` runs `threads[i]`; ids beyond the list have nothing to do -/
def init (threads : List (List Step)) (s0 : Shared) : Config :=
  ⟨s0, fun i => ⟨threads.getD i [], []⟩⟩

def runFrom (sched : List Nat) (cfg : Config) : Config := sched.foldl Config.step cfg

/-- `run sched threads s0`: execute the interleaving `sched` from the initial shared state -/
def run (sched : List Nat) (threads : List (List Step)) (s0 : Shared) : Config :=
  runFrom sched (init threads s0)

/-- a thread executing its first `n` steps alone from `s0` -/
def solo (steps : List Step) (s0 : Shared) : Nat → Shared × TState
  | 0 => (s0, ⟨steps, []⟩)
  | n + 1 => stepThread (solo steps s0 n).1 (solo steps s0 n).2

/-- the private result (log) of a thread that runs to completion alone (sequential reference) -/
def soloResult (steps : List Step) (s0 : Shared) : List Val := (solo steps s0 steps.length).2.loc

/-- the private log of thread `i` after the interleaving -/
def result (sched : List Nat) (threads : List (List Step)) (s0 : Shared) (i : Nat) : List Val :=
  ((run sched threads s0).th i).loc

/-- steps allowed to a non-mutating operation: no `write`; every `initOnce c f` uses the cell's own
    initialiser `ini c` (in C++ the initialiser belongs to the variable, not to the caller) -/
def Step.admissible (ini : Cell → Val) : Step → Prop
  | .read _ => True
  | .write _ _ => False
  | .loc _ => True
  | .initOnce c f => f () = ini c

def WriteFree (ini : Cell → Val) (steps : List Step) : Prop := ∀ s ∈ steps, s.admissible ini

/-- the all-zero shared state with every once-cell uninitialised -/
def zeroShared : Shared := ⟨fun _ => 0, fun _ => none⟩

/-- shape of a const member that uses a shared scratch cell (SubManifold::rplus today):
    store the argument into the scratch, then read the scratch back to compute the result -/
def scratchOp (c : Cell) (a : Val) : List Step := [.write c (fun _ => a), .read c]

end Conc
