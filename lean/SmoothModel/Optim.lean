/-
  Optim.lean — model of the optimizer layer (C09, C10), Mathlib-free, over `[Scalar α]`.

  * `minimize` (include/smooth/optim.hpp) as an explicit state machine.  The residual function and
    the trust-region step solver are PARAMETERS (`Problem`): the machine only sees the norms the
    C++ loop computes (`‖r‖`, `‖f(x ⊕ dx)‖`, `‖r + J dx‖`, `‖D dx‖`, `dx.size()`), so the same
    decision logic (`advance`) can be (a) reasoned about over ℝ for an arbitrary problem and
    (b) replayed in `Float` on the observables logged from a run of the real code, decision by
    decision (`replay`, used by the driver op `opt_replay`).
  * `CeresStrategy`, `DisneyStrategy` (optim/tr_strategy.hpp) with their constants.
  * the specification of `solve_linear_ldlt` / `solve_trust_region` (optim/tr_solver.hpp) as normal
    equations over `Mat`/`Vec`, the `dphi` expression, `colwise_norm` (detail/math.hpp, dense and
    sparse branch) and the diagonal-scaling clamp of `minimize`.

  IEEE corner cases.  `rho = actu_red / pred_red` can be `±inf` or NaN in the C++ (`pred_red = 0`,
  `r_n = 0`).  Lean's `ℝ` has `x / 0 = 0`, so the quotient is modelled by the explicit extended value
  `Rho` whose comparisons follow IEEE (every comparison with NaN is false).  At `α := Float` the
  explicit case analysis agrees with what the hardware does — this is checked on every logged run.
-/
import SmoothModel.Lin

open Scalar Lin

namespace Optim

variable {α : Type} [Scalar α]

/-! ### extended quotient -/

/-- value of `actu_red / pred_red` as IEEE arithmetic produces it -/
inductive Rho (α : Type) where
  | fin (x : α)
  | pinf
  | ninf
  | nan

/-- `a == 0` for IEEE values (true for `±0`, false for NaN); over ℝ it is `a = 0` -/
@[reducible] def IsZero (a : α) : Prop := a ≤ nat 0 ∧ nat 0 ≤ a

/-- `a / b` with IEEE semantics for `b = +0` (`pred_red = 1 − t` is never `−0`) -/
def quot (a b : α) : Rho α :=
  if IsZero b then
    (if nat 0 < a then .pinf else if a < nat 0 then .ninf else .nan)
  else .fin (a / b)

/-- `rho > c` -/
def Rho.gt (r : Rho α) (c : α) : Bool :=
  match r with
  | .fin x => decide (c < x)
  | .pinf => true
  | .ninf => false
  | .nan => false

/-- `rho <= c` -/
def Rho.le (r : Rho α) (c : α) : Bool :=
  match r with
  | .fin x => decide (x ≤ c)
  | .pinf => false
  | .ninf => true
  | .nan => false

/-! ### trust-region strategies (optim/tr_strategy.hpp) -/

inductive StratKind where
  | ceres
  | disney
  deriving DecidableEq, Repr

/-- state of a strategy object: `m_delta`, and `m_reduce` (Ceres only) -/
structure Strat (α : Type) where
  kind : StratKind
  delta : α
  reduce : α

/-- `CeresStrategy{}`: `m_delta{10000}`, `m_reduce{2}` -/
def Strat.ceresInit : Strat α := ⟨.ceres, nat 10000, nat 2⟩
/-- `DisneyStrategy{}`: `m_delta{1000}` -/
def Strat.disneyInit : Strat α := ⟨.disney, nat 1000, nat 2⟩

/-- `std::max(1. / 3, 1 - two_rho_min_1 * two_rho_min_1 * two_rho_min_1)` with
    `two_rho_min_1 = 2 * rho - 1`; for `rho = +inf` the second argument is `−inf` -/
def ceresDiv (rho : Rho α) : α :=
  match rho with
  | .fin x =>
    let t := nat 2 * x - nat 1
    Scalar.max (nat 1 / nat 3) (nat 1 - t * t * t)
  | _ => nat 1 / nat 3

/-- `step_and_update(rho)`: new state and `take_step` -/
def Strat.stepAndUpdate (s : Strat α) (rho : Rho α) : Strat α × Bool :=
  match s.kind with
  | .ceres =>
    if rho.gt (nat 1 / nat 1000) then
      ({ s with delta := s.delta / ceresDiv rho, reduce := nat 2 }, true)
    else
      ({ s with delta := s.delta / s.reduce, reduce := s.reduce * nat 2 }, false)
  | .disney =>
    if rho.gt (nat 0) then
      ({ s with delta := nat 1000 }, true)
    else
      ({ s with delta := s.delta / nat 10 }, false)

/-- the virtual interface `TrustRegionStrategy` -/
structure StrategyOps (σ α : Type) where
  getDelta : σ → α
  update : σ → Rho α → σ × Bool

def builtinOps : StrategyOps (Strat α) α := ⟨Strat.delta, Strat.stepAndUpdate⟩

/-! ### one loop iteration of `minimize` -/

inductive Status where
  | Ftol
  | Ptol
  | MaxIters
  deriving DecidableEq, Repr

structure Opts (α : Type) where
  ftol : α
  ptol : α
  maxIter : Nat

/-- what one loop iteration computes from the residual function and the step solver -/
structure Obs (α : Type) where
  /-- `r.stableNorm()` -/
  rn : α
  /-- `f(xp).stableNorm()` -/
  fxpn : α
  /-- `(r + J * dx).stableNorm()` -/
  linn : α
  /-- `d.cwiseProduct(dx).stableNorm()` -/
  ddxn : α
  /-- `dx.size()` -/
  n : Nat

/-- `fpow<2>(x) = (1 * x) * x` -/
def sq (x : α) : α := nat 1 * x * x

def actuRed (o : Obs α) : α := nat 1 - sq (o.fxpn / o.rn)
def predRed (o : Obs α) : α := nat 1 - sq (o.linn / o.rn)

/-- `rho = actu_red / pred_red`; NaN whenever `r_n == 0` (then both reductions are NaN or `−inf`) -/
def rhoOf (o : Obs α) : Rho α :=
  if IsZero o.rn then .nan else quot (actuRed o) (predRed o)

/-- `r_n == 0 || pred_red <= 0 || take_step` -/
def acceptRule (o : Obs α) (take : Bool) : Bool :=
  decide (IsZero o.rn) || decide (predRed o ≤ nat 0) || take

/-- `std::abs(actu_red) < ftol && pred_red < ftol && rho <= 2.`  (false when `r_n == 0`: the
    reductions are then NaN / `−inf`) -/
def ftolTest (opts : Opts α) (o : Obs α) (rho : Rho α) : Bool :=
  !decide (IsZero o.rn) && decide (Scalar.abs (actuRed o) < opts.ftol) && decide (predRed o < opts.ftol)
    && rho.le (nat 2)

/-- ONE-LINE SWITCH tracking the repair of optim.hpp (/repo commit 04fbd01 "minimize treats an exactly zero
    residual as converged"): `true` = the repaired loop, where an accepted iteration with `r_n == 0` sets
    `status = Ftol`: `if (r_n == 0 || (std::abs(actu_red) < opts.ftol && pred_red < opts.ftol && rho <= 2.))`;
    `false` = the code before the repair (a zero residual did not stop the loop: with `ptol = 0` it ran on, `Δ`
    shrank every iteration until `1/Δ` overflowed in `double` and a NaN step was accepted by the `r_n == 0` clause).
    The theorems of C09 are stated so that they hold for either value; the T1 replay tells which one the code is. -/
def zeroResidualConverged : Bool := true

/-- `d.cwiseProduct(dx).stableNorm() < ptol * static_cast<double>(dx.size())` -/
def ptolTest (opts : Opts α) (o : Obs α) : Bool := decide (o.ddxn < opts.ptol * nat o.n)

/-- loop state.  `log` is the list of points handed to the callback, most recent first. -/
structure State (X σ : Type) where
  x : X
  strat : σ
  iter : Nat
  status : Option Status
  log : List X

/-- everything decided in one iteration (reported by the replay) -/
structure Decision (α : Type) where
  rho : Rho α
  take : Bool
  accepted : Bool

/-- loop guard `iter < opts.max_iter && !status.has_value()` -/
def loopGuard (opts : Opts α) {X σ : Type} (s : State X σ) : Bool :=
  decide (s.iter < opts.maxIter) && s.status.isNone

/-- The loop body after `r`, `J`, `dx`, `xp` are available: `xp` is `wrt_rplus(x, dx)`, `xafter` is
    what the arguments hold after differentiation (`x` itself for analytic Jacobians; numerical
    differentiation perturbs and restores the arguments in place). -/
def advance {X σ : Type} (ops : StrategyOps σ α) (opts : Opts α) (s : State X σ) (o : Obs α) (xp xafter : X) :
    State X σ × Decision α :=
  let rho := rhoOf o
  let upd := ops.update s.strat rho
  let take := upd.2
  if acceptRule o take then
    let st : Option Status :=
      if ftolTest opts o rho || (zeroResidualConverged && decide (IsZero o.rn)) then some .Ftol
      else if ptolTest opts o then some .Ptol
      else s.status
    ({ x := xp, strat := upd.1, iter := s.iter + 1, status := st, log := xp :: s.log }, ⟨rho, take, true⟩)
  else
    ({ x := xafter, strat := upd.1, iter := s.iter + 1, status := s.status, log := s.log }, ⟨rho, take, false⟩)

/-! ### the optimisation problem as parameters -/

/-- result of the step computation at a point for a trust-region size -/
structure StepOut (X α : Type) where
  /-- `xp = wrt_rplus(x, dx)` -/
  xp : X
  /-- the arguments after `diff::dr` returned -/
  xafter : X
  linn : α
  ddxn : α
  n : Nat

/-- residual function and step solver, seen through the quantities the loop uses -/
structure Problem (X α : Type) where
  /-- `‖f(x)‖` -/
  cost : X → α
  /-- `x, Δ ↦` step (`diff::dr`, `colwise_norm`, `solve_trust_region`, `wrt_rplus`) -/
  step : X → α → StepOut X α

def obsOf {X : Type} (P : Problem X α) (x : X) (so : StepOut X α) : Obs α :=
  ⟨P.cost x, P.cost so.xp, so.linn, so.ddxn, so.n⟩

def body {X σ : Type} (P : Problem X α) (ops : StrategyOps σ α) (opts : Opts α) (s : State X σ) : State X σ :=
  let so := P.step s.x (ops.getDelta s.strat)
  (advance ops opts s (obsOf P s.x so) so.xp so.xafter).1

/-- `for (; iter < max_iter && !status; ++iter) body`; `fuel` bounds the recursion (`max_iter` is enough:
    `C09.loop_exit`) -/
def loop {X σ : Type} (P : Problem X α) (ops : StrategyOps σ α) (opts : Opts α) : Nat → State X σ → State X σ
  | 0, s => s
  | k + 1, s => if loopGuard opts s then loop P ops opts k (body P ops opts s) else s

structure Result (X σ : Type) where
  status : Status
  iter : Nat
  /-- final value of the arguments -/
  x : X
  /-- callback points in chronological order -/
  callbacks : List X
  /-- state of the (shared) strategy object after the call -/
  strat : σ

def initState {X σ : Type} (x0 : X) (st : σ) : State X σ := ⟨x0, st, 0, none, [x0]⟩

def finish {X σ : Type} (s : State X σ) : Result X σ :=
  ⟨s.status.getD .MaxIters, s.iter, s.x, s.log.reverse, s.strat⟩

/-- `smooth::minimize(f, x, cb, opts)` -/
def minimize {X σ : Type} (P : Problem X α) (ops : StrategyOps σ α) (opts : Opts α) (x0 : X) (st : σ) : Result X σ :=
  finish (loop P ops opts opts.maxIter (initState x0 st))

/-! ### replay of a logged run (decision logic only) -/

structure IterTrace (α : Type) where
  deltaBefore : α
  rho : Rho α
  take : Bool
  accepted : Bool
  deltaAfter : α

/-- run the loop on logged observables; stops when the guard fails or the log is exhausted -/
def replay {σ : Type} (ops : StrategyOps σ α) (opts : Opts α) :
    List (Obs α) → State Unit σ → List (IterTrace α) → State Unit σ × List (IterTrace α)
  | [], s, acc => (s, acc.reverse)
  | o :: rest, s, acc =>
    if loopGuard opts s then
      let r := advance ops opts s o () ()
      replay ops opts rest r.1
        (⟨ops.getDelta s.strat, r.2.rho, r.2.take, r.2.accepted, ops.getDelta r.1.strat⟩ :: acc)
    else (s, acc.reverse)

/-! ### C10: specification of the step solver (optim/tr_solver.hpp) -/

/-- `H = JᵀJ`, then `H(i,i) += lambda * d(i) * d(i)` -/
def hessian {m n : Nat} (J : Mat α m n) (d : Vec α n) (lam : α) : Mat α n n :=
  .of (fun i j => if i = j then vsum m (fun k => J k i * J k j) + lam * d i * d i
                  else vsum m (fun k => J k i * J k j))

/-- `-J.transpose() * r` -/
def negJtr {m n : Nat} (J : Mat α m n) (r : Vec α m) : Vec α n :=
  .of (fun i => vsum m (fun k => (- J k i) * r k))

/-- the contract of `ldlt.solve`: `x` solves `H x = −Jᵀ r` -/
def IsStep {m n : Nat} (J : Mat α m n) (d : Vec α n) (r : Vec α m) (lam : α) (x : Vec α n) : Prop :=
  ∀ i, (mulVec (hessian J d lam) x) i = (negJtr J r) i

/-- `solve_trust_region`: `lambda = 1. / Delta` -/
def lambdaOf (delta : α) : α := nat 1 / delta

/-- the `dphi` output: `Dx = −d∘x`, `d_q = d∘Dx`, `y = ldlt.solve(d_q)`,
    `dphi = −(d∘(Dx/‖Dx‖))·y` (`normalized()` leaves a zero vector unchanged) -/
def dphiExpr {n : Nat} (d x y : Vec α n) : α :=
  let Dx : Vec α n := .of (fun i => - (d i * x i))
  let nrm := sqrt (sqNorm Dx)
  let u : Vec α n := if nat 0 < sqNorm Dx then .of (fun i => Dx i / nrm) else Dx
  Neg.neg (dot (.of (fun i => d i * u i)) y)

/-- right-hand side of the second solve: `d_q = d∘Dx` -/
def dphiRhs {n : Nat} (d x : Vec α n) : Vec α n := .of (fun i => d i * (-(d i * x i)))

/-- `colwise_norm`, dense branch: `M.colwise().norm()` -/
def colNormDense {m n : Nat} (M : Mat α m n) : Vec α n :=
  .of (fun j => sqrt (vsum m (fun i => M i j * M i j)))

/-- `colwise_norm`, sparse branch: `ret(col) += fpow<2>(value)` over the STORED entries, then
    `cwiseSqrt`.  A sparse matrix is its dense content plus the set of stored positions. -/
def colNormSparse {m n : Nat} (M : Mat α m n) (stored : Fin m → Fin n → Bool) : Vec α n :=
  .of (fun j => sqrt (vsum m (fun i => if stored i j then sq (M i j) else nat 0)))

/-- `std::clamp(el, 1e-6, 1e32)` -/
def clampScale (x : α) : α :=
  let lo : α := nat 1 / nat 1000000
  let hi : α := nat (10 ^ 32)
  if x < lo then lo else if hi < x then hi else x

/-- `d = colwise_norm(J).unaryExpr(clamper)` -/
def scaling {m n : Nat} (J : Mat α m n) : Vec α n := .of (fun j => clampScale (colNormDense J j))

end Optim
