/-
  SEK3.lean — detail/se_k_3.hpp (SE_K_3Impl<Scalar, K>).
  Layout: group (p1[3] … pK[3] q[4]); tangent (v1[3] … vK[3] Ω[3]).
  `d2r_exp`/`d2r_expinv` are not implemented by the C++ for this group.
-/
import SmoothModel.Lin
import SmoothModel.SO3
import SmoothModel.SE3

open Scalar Lin
namespace SEK3
variable {α : Type} [Scalar α]

def gq (k : Nat) (g : Vec α (4 + 3 * k)) : Vec α 4 := (.of (fun i => g ⟨3 * k + i.val, by omega⟩))
def gp (k : Nat) (g : Vec α (4 + 3 * k)) (i : Fin k) : Vec α 3 :=
  (.of (fun c => g ⟨3 * i.val + c.val, by have := i.isLt; omega⟩))
def mkG (k : Nat) (p : Fin k → Vec α 3) (q : Vec α 4) : Vec α (4 + 3 * k) := (.of (fun i =>
  if h : i.val < 3 * k then p ⟨i.val / 3, by omega⟩ ⟨i.val % 3, Nat.mod_lt _ (by decide)⟩
  else q ⟨i.val - 3 * k, by omega⟩))

def tw (k : Nat) (a : Vec α (3 + 3 * k)) : Vec α 3 := (.of (fun i => a ⟨3 * k + i.val, by omega⟩))
def tv (k : Nat) (a : Vec α (3 + 3 * k)) (i : Fin k) : Vec α 3 :=
  (.of (fun c => a ⟨3 * i.val + c.val, by have := i.isLt; omega⟩))
def mkT (k : Nat) (v : Fin k → Vec α 3) (w : Vec α 3) : Vec α (3 + 3 * k) := (.of (fun i =>
  if h : i.val < 3 * k then v ⟨i.val / 3, by omega⟩ ⟨i.val % 3, Nat.mod_lt _ (by decide)⟩
  else w ⟨i.val - 3 * k, by omega⟩))

def identity (k : Nat) : Vec α (4 + 3 * k) := mkG k (fun _ => vzero 3) SO3.identity

def matrix (k : Nat) (g : Vec α (4 + 3 * k)) : Mat α (3 + k) (3 + k) :=
  let R := SO3.matrix (gq k g)
  (.of (fun i j =>
    if hi : i.val < 3 then
      if hj : j.val < 3 then R ⟨i.val, hi⟩ ⟨j.val, hj⟩
      else g ⟨3 * (j.val - 3) + i.val, by have := j.isLt; omega⟩
    else if i.val = j.val then nat 1 else nat 0))

def composition (k : Nat) (a b : Vec α (4 + 3 * k)) : Vec α (4 + 3 * k) :=
  let q := SO3.composition (gq k a) (gq k b)
  let R1 := memoM (SO3.matrix (gq k a))
  mkG k (fun i => vadd (mulVec R1 (gp k b i)) (gp k a i)) q

def inverse (k : Nat) (g : Vec α (4 + 3 * k)) : Vec α (4 + 3 * k) :=
  let qi := memoV (SO3.inverse (gq k g))
  let Rinv := memoM (SO3.matrix qi)
  let mR := memoM (mneg Rinv)
  mkG k (fun i => mulVec mR (gp k g i)) qi

def log (k : Nat) (g : Vec α (4 + 3 * k)) : Vec α (3 + 3 * k) :=
  let w := memoV (SO3.log (gq k g))
  let T := memoM (madd (mneg (SO3.ad w)) (SO3.dr_expinv w))
  mkT k (fun i => mulVec T (gp k g i)) w

/-- 3×3 block `(bi, bj)` of a `(3+3k)`-square matrix given by a function on block indices -/
def ofBlocks (k : Nat) (B : Fin (k + 1) → Fin (k + 1) → Mat α 3 3) : Mat α (3 + 3 * k) (3 + 3 * k) :=
  (.of (fun i j =>
    B ⟨i.val / 3, by have := i.isLt; omega⟩ ⟨j.val / 3, by have := j.isLt; omega⟩
      ⟨i.val % 3, Nat.mod_lt _ (by decide)⟩ ⟨j.val % 3, Nat.mod_lt _ (by decide)⟩))

def Ad (k : Nat) (g : Vec α (4 + 3 * k)) : Mat α (3 + 3 * k) (3 + 3 * k) :=
  let R := memoM (SO3.matrix (gq k g))
  ofBlocks k (fun bi bj =>
    if bi.val = bj.val then R
    else if h : bj.val = k ∧ bi.val < k then mmul (SO3.hat (gp k g ⟨bi.val, h.2⟩)) R
    else mzero 3 3)

def exp (k : Nat) (a : Vec α (3 + 3 * k)) : Vec α (4 + 3 * k) :=
  let q := memoV (SO3.exp (tw k a))
  let J := memoM (SO3.dr_exp (tw k a))
  let R := memoM (SO3.Ad q)
  let P := memoM (mmul R J)
  mkG k (fun i => mulVec P (tv k a i)) q

def hat (k : Nat) (a : Vec α (3 + 3 * k)) : Mat α (3 + k) (3 + k) :=
  let W := SO3.hat (tw k a)
  (.of (fun i j =>
    if hi : i.val < 3 then
      if hj : j.val < 3 then W ⟨i.val, hi⟩ ⟨j.val, hj⟩
      else a ⟨3 * (j.val - 3) + i.val, by have := j.isLt; omega⟩
    else nat 0))

def vee (k : Nat) (A : Mat α (3 + k) (3 + k)) : Vec α (3 + 3 * k) :=
  let w := SO3.vee (.of (fun i j => A ⟨i.val, by omega⟩ ⟨j.val, by omega⟩))
  mkT k (fun i => (.of (fun c => A ⟨c.val, by omega⟩ ⟨3 + i.val, by have := i.isLt; omega⟩))) w

def ad (k : Nat) (a : Vec α (3 + 3 * k)) : Mat α (3 + 3 * k) (3 + 3 * k) :=
  let W := SO3.hat (tw k a)
  ofBlocks k (fun bi bj =>
    if bi.val = bj.val then W
    else if h : bj.val = k ∧ bi.val < k then SO3.hat (tv k a ⟨bi.val, h.2⟩)
    else mzero 3 3)

def dr_exp (k : Nat) (a : Vec α (3 + 3 * k)) : Mat α (3 + 3 * k) (3 + 3 * k) :=
  let J := memoM (SO3.dr_exp (tw k a))
  let nw := vneg (tw k a)
  ofBlocks k (fun bi bj =>
    if bi.val = bj.val then J
    else if h : bj.val = k ∧ bi.val < k then SE3.calculate_q (vneg (tv k a ⟨bi.val, h.2⟩)) nw
    else mzero 3 3)

def dr_expinv (k : Nat) (a : Vec α (3 + 3 * k)) : Mat α (3 + 3 * k) (3 + 3 * k) :=
  let J := memoM (SO3.dr_expinv (tw k a))
  let mJ := memoM (mneg J)
  let nw := vneg (tw k a)
  ofBlocks k (fun bi bj =>
    if bi.val = bj.val then J
    else if h : bj.val = k ∧ bi.val < k then
      mmul (memoM (mmul mJ (memoM (SE3.calculate_q (vneg (tv k a ⟨bi.val, h.2⟩)) nw)))) J
    else mzero 3 3)

end SEK3
