import SmoothProps.C01
