import SmoothProps.C01
import SmoothProps.C18
