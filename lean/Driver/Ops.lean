/-
  Driver/Ops.lean — op dispatch of the driver.
-/
import SmoothModel
import SmoothModel.Api

open Scalar Lin

namespace Drv

def hexDigit (c : Char) : UInt64 :=
  if '0' ≤ c ∧ c ≤ '9' then (c.toNat - '0'.toNat).toUInt64
  else if 'a' ≤ c ∧ c ≤ 'f' then (c.toNat - 'a'.toNat + 10).toUInt64
  else if 'A' ≤ c ∧ c ≤ 'F' then (c.toNat - 'A'.toNat + 10).toUInt64
  else 0

def parseHex (s : String) : UInt64 := s.foldl (fun acc c => acc * 16 + hexDigit c) 0

def hexChars : Array Char := "0123456789abcdef".toList.toArray

def toHexN (v : UInt64) (n : Nat) : String := Id.run do
  let mut s := ""
  for i in [0:n] do
    let sh := (4 * (n - 1 - i)).toUInt64
    let d := ((v >>> sh) &&& 0xF).toNat
    s := s.push (hexChars[d]!)
  return s

class Bits (α : Type) where
  ofHex : String → α
  toHex : α → String

instance : Bits Float where
  ofHex s := Float.ofBits (parseHex s)
  toHex x := toHexN x.toBits 16

instance : Bits Float32 where
  ofHex s := Float32.ofBits (parseHex s).toUInt32
  toHex x := toHexN x.toBits.toUInt64 8

variable {α : Type} [Scalar α]

/-- group descriptor string → model -/
@[specialize] def groupOf (name : String) : Option (LieModel α) :=
  (GDesc.parse name).map GDesc.model

def need (args : Array α) (n : Nat) : Except String Unit :=
  if args.size = n then .ok () else .error s!"arity: got {args.size} want {n}"

def g0' (x : Array α) (i : Nat) : α := x.getD i (nat 0)

/-- API paths beside the plain member functions (tools/dev/api_inventory.py, DESIGN 8.10): the free-function interface of
    concepts/lie_group.hpp (`f…`), receivers that are const views (`…_cmap`), in-place operators through views or with
    aliased operands.  Each is, by the text of lie_group_base.hpp / concepts/lie_group.hpp, the same value-level function
    as a member op above; what differs is the C++ path that reaches it. -/
@[specialize] def runApiOp (G : LieModel α) (op : String) (x : Array α) : Except String (Array α) := do
  match op with
  | "fcompose3" =>
    need x (3 * G.rep)
    return toArray (G.composition (memoV (G.composition (ofArray _ x) (ofArray _ x G.rep))) (ofArray _ x (2 * G.rep)))
  | "compose_cmap" => need x (2 * G.rep); return toArray (G.composition (ofArray _ x) (ofArray _ x G.rep))
  | "inverse_cmap" => need x G.rep; return toArray (G.inverse (ofArray _ x))
  | "mulassign_mapself" | "mulassign_mapmap" => need x G.rep; return toArray (G.composition (ofArray _ x) (ofArray _ x))
  | "random_elem" => need x G.rep; return #[]   -- a drawn element in the input slot: nothing to predict (audited by the check)
  | "identity_free" => need x 0; return toArray G.identity
  | "set_identity" | "set_identity_map" => need x G.rep; return toArray G.identity
  | "consts" =>
    need x 0
    let c : α := if G.comm then nat 1 else nat 0
    return #[nat G.rep, nat G.dof, nat G.dim, c, nat G.dof, nat G.dof, nat G.dof, c]
  | "isapprox" | "fisapprox" =>
    need x (2 * G.rep + 1)
    return #[if G.isApprox (ofArray _ x) (ofArray _ x G.rep) (g0' x (2 * G.rep)) then nat 1 else nat 0]
  | "isapprox_default" =>
    -- member and free isApprox called WITHOUT eps; the last input word is the default the caller expects
    -- (Eigen::NumTraits<Scalar>::dummy_precision()), outputs = (member, free function)
    need x (2 * G.rep + 1)
    let r : α := if G.isApprox (ofArray _ x) (ofArray _ x G.rep) (g0' x (2 * G.rep)) then nat 1 else nat 0
    return #[r, r]
  | "stream" => need x G.rep; return x
  | "fexp" => need x G.dof; return toArray (G.exp (ofArray _ x))
  | "flog" | "log_cmap" => need x G.rep; return toArray (G.log (ofArray _ x))
  | "frplus" | "pluseq" | "pluseq_map" => need x (G.rep + G.dof); return toArray (G.rplus (ofArray _ x) (ofArray _ x G.rep))
  | "frminus" | "rminus_cmap" => need x (2 * G.rep); return toArray (G.rminus (ofArray _ x) (ofArray _ x G.rep))
  | "lplus" => need x (G.rep + G.dof); return toArray (G.lplus (ofArray _ x) (ofArray _ x G.rep))
  | "lminus" => need x (2 * G.rep); return toArray (G.lminus (ofArray _ x) (ofArray _ x G.rep))
  | "pluseq_log" =>
    need x G.rep
    let g : Vec α G.rep := ofArray _ x
    return toArray (G.rplus g (memoV (G.log g)))
  | "fAd" | "Ad_cmap" => need x G.rep; return matToArray (G.Ad (ofArray _ x))
  | "fad" => need x G.dof; return matToArray (G.ad (ofArray _ x))
  | "fdr_exp" => need x G.dof; return matToArray (G.dr_exp (ofArray _ x))
  | "fdr_expinv" => need x G.dof; return matToArray (G.dr_expinv (ofArray _ x))
  | "fdl_exp" => need x G.dof; return matToArray (G.dl_exp (ofArray _ x))
  | "fdl_expinv" => need x G.dof; return matToArray (G.dl_expinv (ofArray _ x))
  | "fd2r_exp" => need x G.dof; return matToArray (G.d2r_exp (ofArray _ x))
  | "fd2r_expinv" => need x G.dof; return matToArray (G.d2r_expinv (ofArray _ x))
  | "fd2l_exp" => need x G.dof; return matToArray (G.d2l_exp (ofArray _ x))
  | "fd2l_expinv" => need x G.dof; return matToArray (G.d2l_expinv (ofArray _ x))
  | _ => .error s!"unknown-op {op}"

@[specialize] def runGroupOp (G : LieModel α) (op : String) (x : Array α) : Except String (Array α) := do
  match op with
  | "identity" => need x 0; return toArray G.identity
  | "matrix" => need x G.rep; return matToArray (G.matrix (ofArray _ x))
  | "compose" => need x (2 * G.rep); return toArray (G.composition (ofArray _ x) (ofArray _ x G.rep))
  | "mulassign" => need x (2 * G.rep); return toArray (G.composition (ofArray _ x) (ofArray _ x G.rep))
  | "fcompose" => need x (2 * G.rep); return toArray (G.composition (ofArray _ x) (ofArray _ x G.rep))
  | "sqassign" => need x G.rep; return toArray (G.composition (ofArray _ x) (ofArray _ x))
  | "mulassign_map" => need x G.rep; return toArray (G.composition (ofArray _ x) (ofArray _ x))
  | "finverse" => need x G.rep; return toArray (G.inverse (ofArray _ x))
  | "compose3l" =>
    need x (3 * G.rep)
    return toArray (G.composition (memoV (G.composition (ofArray _ x) (ofArray _ x G.rep))) (ofArray _ x (2 * G.rep)))
  | "compose3r" =>
    need x (3 * G.rep)
    return toArray (G.composition (ofArray _ x) (memoV (G.composition (ofArray _ x G.rep) (ofArray _ x (2 * G.rep)))))
  | "logexp" => need x G.dof; return toArray (G.log (memoV (G.exp (ofArray _ x))))
  | "Adexp" => need x G.dof; return matToArray (G.Ad (memoV (G.exp (ofArray _ x))))
  | "inverse" => need x G.rep; return toArray (G.inverse (ofArray _ x))
  | "log" => need x G.rep; return toArray (G.log (ofArray _ x))
  | "exp" => need x G.dof; return toArray (G.exp (ofArray _ x))
  | "hat" => need x G.dof; return matToArray (G.hat (ofArray _ x))
  | "vee" => need x (G.dim * G.dim); return toArray (G.vee (matOfArray _ _ x))
  | "Ad" => need x G.rep; return matToArray (G.Ad (ofArray _ x))
  | "ad" => need x G.dof; return matToArray (G.ad (ofArray _ x))
  | "bracket" => need x (2 * G.dof); return toArray (G.bracket (ofArray _ x) (ofArray _ x G.dof))
  | "dr_exp" => need x G.dof; return matToArray (G.dr_exp (ofArray _ x))
  | "dr_expinv" => need x G.dof; return matToArray (G.dr_expinv (ofArray _ x))
  | "dl_exp" => need x G.dof; return matToArray (G.dl_exp (ofArray _ x))
  | "dl_expinv" => need x G.dof; return matToArray (G.dl_expinv (ofArray _ x))
  | "d2r_exp" => need x G.dof; return matToArray (G.d2r_exp (ofArray _ x))
  | "d2r_expinv" => need x G.dof; return matToArray (G.d2r_expinv (ofArray _ x))
  | "d2l_exp" => need x G.dof; return matToArray (G.d2l_exp (ofArray _ x))
  | "d2l_expinv" => need x G.dof; return matToArray (G.d2l_expinv (ofArray _ x))
  | "rplus" => need x (G.rep + G.dof); return toArray (G.rplus (ofArray _ x) (ofArray _ x G.rep))
  | "rminus" => need x (2 * G.rep); return toArray (G.rminus (ofArray _ x) (ofArray _ x G.rep))
  | _ => runApiOp G op x

def g0 (x : Array α) (i : Nat) : α := x.getD i (nat 0)

/-- ops that are not part of the uniform LieGroupBase interface -/
@[specialize] def runSpecial (op grp : String) (x : Array α) : Option (Except String (Array α)) :=
  match op, grp with
  | "cos_2", "-" => some (do need x 1; return #[Trig.cos_2 (g0 x 0)])
  | "sin_3", "-" => some (do need x 1; return #[Trig.sin_3 (g0 x 0)])
  | "cos_4", "-" => some (do need x 1; return #[Trig.cos_4 (g0 x 0)])
  | "sin_5", "-" => some (do need x 1; return #[Trig.sin_5 (g0 x 0)])
  | "cos_6", "-" => some (do need x 1; return #[Trig.cos_6 (g0 x 0)])
  | "calc_S1", "SO3" => some (do need x 3; return matToArray (SO3.calc_S1 (ofArray 3 x)))
  | "calc_S2", "SO3" => some (do need x 3; return matToArray (SO3.calc_S2 (ofArray 3 x)))
  | "calc_S1inv", "SO3" => some (do need x 3; return matToArray (SO3.calc_S1inv (ofArray 3 x)))
  | "calculate_q", "SE3" => some (do need x 6; return matToArray (SE3.calculate_q (ofArray 3 x) (ofArray 3 x 3)))
  | "calculate_r", "GAL" => some (do need x 6; return matToArray (Galilei.calculate_r (ofArray 3 x) (ofArray 3 x 3)))
  | "dr_action", "SO2" => some (do need x 4; return toArray (SO2.dr_action (ofArray 2 x) (ofArray 2 x 2)))
  | "dr_action", "SE2" => some (do need x 6; return matToArray (SE2.dr_action (ofArray 4 x) (ofArray 2 x 4)))
  | "act", "SO2" => some (do need x 4; return toArray (SO2.act (ofArray 2 x) (ofArray 2 x 2)))
  | "act", "C1" => some (do need x 4; return toArray (C1.act (ofArray 2 x) (ofArray 2 x 2)))
  | "act", "SO3" => some (do need x 7; return toArray (SO3.act (ofArray 4 x) (ofArray 3 x 4)))
  | "act", "SE2" => some (do need x 6; return toArray (SE2.act (ofArray 4 x) (ofArray 2 x 4)))
  | "act", "SE3" => some (do need x 10; return toArray (SE3.act (ofArray 7 x) (ofArray 3 x 7)))
  | "act", "GAL" => some (do need x 15; return toArray (Galilei.act (ofArray 11 x) (ofArray 4 x 11)))
  | "dr_action", "SO3" => some (do need x 7; return matToArray (SO3.dr_action (ofArray 4 x) (ofArray 3 x 4)))
  | "dr_action", "SE3" => some (do need x 10; return matToArray (SE3.dr_action (ofArray 7 x) (ofArray 3 x 7)))
  | "dr_action", "GAL" => some (do need x 15; return matToArray (Galilei.dr_action (ofArray 11 x) (ofArray 4 x 11)))
  | _, _ => none

def parseDims (g : String) : List Nat := (g.splitOn "x").map (fun t => t.toNat?.getD 0)

/-- generic-size helpers of derivatives.hpp: group token carries the sizes, e.g. `dmp 3x4` (n × nvar),
    `d2fog 2x3x4` (no × ny × nx); inputs row-major in the order of the C++ arguments -/
def runDerivGeneric (op grp : String) (x : Array α) : Option (Except String (Array α)) :=
  match op, parseDims grp with
  | "dmp", [n, nvar] => some (do
      need x (2 * n * n + 2 * n * (n * nvar))
      let A : Mat α n n := matOfArray n n x 0
      let dA : Mat α n (n * nvar) := matOfArray n (n * nvar) x (n * n)
      let B : Mat α n n := matOfArray n n x (n * n + n * (n * nvar))
      let dB : Mat α n (n * nvar) := matOfArray n (n * nvar) x (2 * n * n + n * (n * nvar))
      return matToArray (Derivs.d_matrix_product A dA B dB))
  | "d2fog", [no, ny, nx] => some (do
      need x (no * ny + ny * (no * ny) + ny * nx + nx * (ny * nx))
      let Jf : Mat α no ny := matOfArray no ny x 0
      let Hf : Mat α ny (no * ny) := matOfArray ny (no * ny) x (no * ny)
      let Jg : Mat α ny nx := matOfArray ny nx x (no * ny + ny * (no * ny))
      let Hg : Mat α nx (ny * nx) := matOfArray nx (ny * nx) x (no * ny + ny * (no * ny) + ny * nx)
      return matToArray (Derivs.d2_fog Jf Hf Jg Hg))
  | _, _ => none

/-- derivative helpers of derivatives.hpp on a group -/
@[specialize] def runDerivOp (G : LieModel α) (op : String) (x : Array α) : Option (Except String (Array α)) :=
  match op with
  | "dr_rminus" => some (do need x G.dof; return matToArray (Derivs.dr_rminus G (ofArray _ x)))
  | "d2r_rminus" => some (do need x G.dof; return matToArray (Derivs.d2r_rminus G (ofArray _ x)))
  | "dr_rminus_sqn" => some (do need x G.dof; return toArray (Derivs.dr_rminus_squarednorm G (ofArray _ x)))
  | "d2r_rminus_sqn" => some (do need x G.dof; return matToArray (Derivs.d2r_rminus_squarednorm G (ofArray _ x)))
  | _ => none

@[specialize] def runOp (op grp : String) (x : Array α) : Except String (Array α) :=
  -- actions through a const view (`Map<const G>` receiver) are the same value-level functions
  let ops := if op == "act_cmap" then "act" else if op == "dr_action_cmap" then "dr_action" else op
  match runSpecial ops grp x with
  | some r => r
  | none =>
  match runDerivGeneric op grp x with
  | some r => r
  | none =>
    match groupOf (α := α) grp with
    | some G =>
      match runDerivOp G op x with
      | some r => r
      | none => runGroupOp G op x
    | none => .error s!"unknown-group {grp}"

end Drv
