/-
  Driver/OpsHist.lean — driver ops of the operation-history unit (C15) (stub).
-/
import SmoothModel
import Driver.Ops

namespace Drv

def runHist (_op _grp _prec : String) (_args : Array String) : Option String := none

end Drv
