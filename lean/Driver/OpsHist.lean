/-
  Driver/OpsHist.lean — driver ops of the operation-history unit (C15).

  model ops (prec f64 | f32), T1:
    hist_cast G g                     → g                       (same-scalar cast)
    hist_liftproj G g                 → lift∘project round trip (SO2, SE2)
    hist_lift G g                     → `lift_so3()` / `lift_se3()` of an SO2 / SE2 element (4 / 7 coefficients)
    hist_project G q                  → `project_so2()` / `project_se2()` of an SO3 / SE3 element (group G = SO2 / SE2)
    hist_ode G id h g v               → one fixed step of stepper `id` through the adaptor model
    hist_run G <program> <checkpts>   → `Hist.step` folded over the program (teacher-forced with the implementation's
                                        checkpoints); destination register after every op
  audit ops (prec f64a | f32a), exact oracle (rationals / 320-bit fixed point):
    hist_step G code ins… outs…       → per-op ε: [matrix error, norm² error, largest operand constraint defect]
    hist_audit G <program> <checkpts> → per checkpoint [err, defect, min q_w, scale, finite, k]
  program entries `code d a b (+extras)`: 0..10 as in harness/hist.cpp; 11 lift `L[d] = E[a].lift()`,
  12 project `E[d] = L[a].project()`, 13 initial content of lifted register `L[d]` (extras: its
  coefficients; a header extension, not an executed op).  Checkpoints `k r coeffs`: `r < 100` element
  register `E[r]`, `r ≥ 100` lifted register `L[r−100]` (coefficients of the companion type).
  The exact value of a lift is the block embedding `diag(M, 1)` of the exact matrix of the element
  (C15.lift_of_history), of a projection the rotation by the yaw `atan2(R₁₀, R₀₀)` (normalised with
  a 320-bit square root) and the first two translation coordinates.
    hist_odefinal G id n h x0 v xf    → [err vs x0·exp(n·h·v^), defect, min q_w, finite]
    hist_odestage G t x0 v xs         → same with T = t
-/
import SmoothModel
import SmoothModel.Hist
import Driver.Ops

open Scalar Lin Oracle

namespace Drv
namespace HistOps

-- ---------------------------------------------------------------- word decoding
def isA (prec : String) : Bool := prec == "f64a" || prec == "f32a"
def is32 (prec : String) : Bool := prec == "f32" || prec == "f32a"

def ratW (prec : String) (w : String) : Rat :=
  if is32 prec then ratOfBits32 (parseHex w).toUInt32 else ratOfBits64 (parseHex w)
def finW (prec : String) (w : String) : Bool :=
  if is32 prec then isFinite32 (parseHex w).toUInt32 else isFinite64 (parseHex w)
def natW (prec : String) (w : String) : Nat :=
  let r := ratW prec w
  if r.num < 0 then 0 else r.num.natAbs / r.den
def fhex (x : Float) : String := toHexN x.toBits 16
def replyF (xs : Array Float) : String := " ".intercalate (xs.toList.map fhex)

-- ---------------------------------------------------------------- flattened group structure
mutual
  def flat : GDesc → List GDesc
    | .bundle ps => flatL ps
    | .so2 => [.so2] | .so3 => [.so3] | .se2 => [.se2] | .se3 => [.se3] | .c1 => [.c1] | .gal => [.gal]
    | .tn n => [.tn n] | .sek3 k => [.sek3 k]
  def flatL : List GDesc → List GDesc
    | [] => []
    | p :: ps => flat p ++ flatL ps
end

/-- (offset, length, quaternion with canonical sign) of the unit-constrained coefficients -/
def unitBlock : GDesc → Option (Nat × Nat × Bool)
  | .so2 => some (0, 2, false)
  | .so3 => some (0, 4, true)
  | .se2 => some (2, 2, false)
  | .se3 => some (3, 4, true)
  | .gal => some (7, 4, true)
  | .sek3 k => some (3 * k, 4, true)
  | _ => none

/-- companion type of a group with lifts (`lift_so3` / `lift_se3`) -/
def liftedDesc : GDesc → Option GDesc
  | .so2 => some .so3
  | .se2 => some .se3
  | _ => none

structure Part where
  d : GDesc
  rep : Nat
  dof : Nat
  dim : Nat
  repOff : Nat
  dofOff : Nat
  deriving Inhabited

def partsOf (d : GDesc) : Array Part := Id.run do
  let mut out : Array Part := #[]
  let mut ro := 0
  let mut to := 0
  for p in flat d do
    let G : LieModel Rat := GDesc.model p
    out := out.push ⟨p, G.rep, G.dof, G.dim, ro, to⟩
    ro := ro + G.rep
    to := to + G.dof
  return out

def partMatrix (p : Part) (x : Array Rat) (off : Nat) : RMat :=
  let G : LieModel Rat := GDesc.model p.d
  RMat.ofMat (G.matrix (ofArray G.rep x (off + p.repOff)))

def partHat (p : Part) (x : Array Rat) (off : Nat) (scale : Rat := 1) : RMat :=
  let G : LieModel Rat := GDesc.model p.d
  (RMat.ofMat (G.hat (ofArray G.dof x (off + p.dofOff)))).smul scale

def bOf (A : RMat) : BMat := BMat.ofRMat A

/-- exact matrices (one per primitive factor) of the element stored at `off` -/
def elemB (ps : Array Part) (x : Array Rat) (off : Nat) : Array BMat :=
  ps.map (fun p => bOf (partMatrix p x off))

def expB (ps : Array Part) (x : Array Rat) (off : Nat) (scale : Rat := 1) : Array BMat :=
  ps.map (fun p => BMat.exp (bOf (partHat p x off scale)))

def mulB (A B : Array BMat) : Array BMat := (A.zip B).map (fun (a, b) => a.mul b)

def invB (A : Array BMat) : Option (Array BMat) :=
  A.foldl (fun acc a => match acc, a.inverse with
    | some l, some ai => some (l.push ai)
    | _, _ => none) (some #[])

def bdiv (a b : Int) : Int := (a * ((2 ^ FB : Nat) : Int)) / b
def bsqrt (a : Int) : Int := if a ≤ 0 then 0 else ((a.toNat * 2 ^ FB).sqrt : Nat)

/-- exact lift: SO2 `R (2×2)` ↦ `diag(R, 1)`; SE2 `[R t; 0 1] (3×3)` ↦ `[diag(R,1) (t,0); 0 1] (4×4)` -/
def liftB (d : GDesc) (A : Array BMat) : Array BMat :=
  match d, A[0]? with
  | .so2, some M => #[BMat.ofFn 3 (fun i j => if i < 2 && j < 2 then M.get i j else if i == j then BigFix.one else 0)]
  | .se2, some M =>
    let src (i : Nat) : Nat := if i < 2 then i else 2      -- 4×4 index → 3×3 index (3 ↦ 2)
    #[BMat.ofFn 4 (fun i j =>
      if i == 2 || j == 2 then (if i == j then BigFix.one else 0)
      else M.get (src i) (src j))]
  | _, _ => A

/-- exact projection: yaw rotation `(R₀₀, R₁₀)/ρ` of an SO3 matrix (3×3) resp. the same with the
    translation `(t_x, t_y)` of an SE3 matrix (4×4); `none` at the singularity `ρ = 0` -/
def projectB (d : GDesc) (A : Array BMat) : Option (Array BMat) :=
  match A[0]? with
  | none => none
  | some M =>
    let c0 := M.get 0 0; let s0 := M.get 1 0
    let rho := bsqrt (BigFix.mul c0 c0 + BigFix.mul s0 s0)
    if rho == 0 then none else
    let c := bdiv c0 rho; let s := bdiv s0 rho
    match d with
    | .so2 => some #[BMat.ofFn 2 (fun i j => if i == j then c else if i == 1 then s else -s)]
    | .se2 => some #[BMat.ofFn 3 (fun i j =>
        if i == 2 then (if j == 2 then BigFix.one else 0)
        else if j == 2 then M.get i 3
        else if i == j then c else if i == 1 then s else -s)]
    | _ => none

/-- conditioning of the projection: `ρ = ‖(R₀₀, R₁₀)‖` (1 for planar rotations, 0 at the singularity) -/
def projectRho (A : Array BMat) : Rat :=
  match A[0]? with
  | none => 0
  | some M => BigFix.toRat (bsqrt (BigFix.mul (M.get 0 0) (M.get 0 0) + BigFix.mul (M.get 1 0) (M.get 1 0)))

def maxAbsB (A : Array BMat) : Rat :=
  A.foldl (fun s a => let m := BigFix.toRat (a.maxAbs); if s < m then m else s) 0

/-- `max_parts ‖M(coeffs) − X‖max` (absolute) -/
def distB (ps : Array Part) (x : Array Rat) (off : Nat) (X : Array BMat) : Rat := Id.run do
  let mut worst : Rat := 0
  for i in [0:ps.size] do
    let M := partMatrix ps[i]! x off
    let d := (M.sub (X[i]!).toRMat).maxAbs
    if d > worst then worst := d
  return worst

def sqnAt (x : Array Rat) (off len : Nat) : Rat :=
  (List.range len).foldl (fun s i => s + (x.getD (off + i) 0) ^ 2) 0

/-- (max |‖q‖²−1| over constrained parts, min q_w over quaternion parts (1 if none)) -/
def constraint (ps : Array Part) (x : Array Rat) (off : Nat) : Rat × Rat := Id.run do
  let mut defect : Rat := 0
  let mut minw : Rat := 1
  for p in ps do
    match unitBlock p.d with
    | some (o, len, isq) =>
      let n2 := sqnAt x (off + p.repOff + o) len
      let d := (n2 - 1).abs
      if d > defect then defect := d
      if isq then
        let w := x.getD (off + p.repOff + o + 3) 0
        if w < minw then minw := w
    | none => pure ()
  return (defect, minw)

/-- product over constrained parts is not meaningful; per part list of norms² -/
def sqns (ps : Array Part) (x : Array Rat) (off : Nat) : Array Rat :=
  ps.filterMap (fun p => match unitBlock p.d with
    | some (o, len, _) => some (sqnAt x (off + p.repOff + o) len)
    | none => none)

def max1 (a : Rat) : Rat := if a < 1 then 1 else a
def rmax (a b : Rat) : Rat := if a < b then b else a

-- ---------------------------------------------------------------- per-step audit
/-- `hist_step G code ins… outs…` → [matrix error relative to max(1, ‖operands‖, ‖exact‖), norm² error,
    largest constraint defect |‖q‖²−1| among the element operands] -/
def stepAudit (d : GDesc) (x : Array Rat) : Except String (Array Float) := do
  let ps := partsOf d
  let rep := ps.foldl (fun s p => s + p.rep) 0
  let dof := ps.foldl (fun s p => s + p.dof) 0
  let code := (x.getD 0 0).num.natAbs
  let b := 1
  let opDefect (offs : List Nat) : Rat :=
    offs.foldl (fun m o => rmax m ((sqns ps x o).foldl (fun m' n => rmax m' (n - 1).abs) 0)) 0
  let finish (exact : Array BMat) (outOff : Nat) (opScale : Rat) (expectN : Array Rat) (elemOffs : List Nat := []) : Except String (Array Float) := do
    let dist := distB ps x outOff exact
    let sc := max1 (rmax opScale (maxAbsB exact))
    let got := sqns ps x outOff
    let mut ne : Rat := 0
    for i in [0:got.size] do
      let e := expectN.getD i 1
      let v := if e == 0 then (got[i]! - e).abs else ((got[i]! - e) / e).abs
      if v > ne then ne := v
    return #[ratToFloat (dist / sc), ratToFloat ne, ratToFloat (opDefect elemOffs)]
  match code with
  | 0 =>
    if x.size != b + 3 * rep then throw "arity"
    let A := elemB ps x b; let B := elemB ps x (b + rep)
    let na := sqns ps x b; let nb := sqns ps x (b + rep)
    finish (mulB A B) (b + 2 * rep) (rmax (maxAbsB A) (maxAbsB B)) ((na.zip nb).map (fun (p, q) => p * q)) [b, b + rep]
  | 1 =>
    if x.size != b + 2 * rep then throw "arity"
    let A := elemB ps x b
    match invB A with
    | none => throw "singular"
    | some Ai =>
      -- conj/‖q‖² (SO3 family) has norm² 1/‖q‖², conj (SO2 family) keeps ‖q‖²: accept the closer
      let na := sqns ps x b
      let got := sqns ps x (b + rep)
      let ex := (na.zip got).map (fun (n, g) =>
        if n == 0 then n else if (g - n).abs ≤ (g - 1 / n).abs then n else 1 / n)
      finish Ai (b + rep) (maxAbsB A) ex [b]
  | 2 =>
    if x.size != b + dof + rep then throw "arity"
    finish (expB ps x b) (b + dof) 1 ((sqns ps x (b + dof)).map (fun _ => 1))
  | 3 =>
    if x.size != b + rep + dof + rep then throw "arity"
    let A := elemB ps x b
    finish (mulB A (expB ps x (b + rep))) (b + rep + dof) (maxAbsB A) (sqns ps x b) [b]
  | 6 | 7 =>
    if x.size != b + 2 * rep then throw "arity"
    let A := elemB ps x b
    finish A (b + rep) (maxAbsB A) (sqns ps x b) [b]
  | 11 =>
    -- ins: g (rep)  outs: q (lrep)
    match liftedDesc d with
    | none => throw "no-lift"
    | some ld =>
      let lps := partsOf ld
      let lrep := lps.foldl (fun s p => s + p.rep) 0
      if x.size != b + rep + lrep then throw "arity"
      let A := elemB ps x b
      let exact := liftB d A
      let dist := distB lps x (b + rep) exact
      let sc := max1 (rmax (maxAbsB A) (maxAbsB exact))
      let got := sqns lps x (b + rep)
      let ne := got.foldl (fun m n => rmax m (n - 1).abs) 0
      return #[ratToFloat (dist / sc), ratToFloat ne, ratToFloat (opDefect [b])]
  | 12 =>
    -- ins: q (lrep)  outs: g (rep); 4th reply word: conditioning ρ of the projection
    match liftedDesc d with
    | none => throw "no-lift"
    | some ld =>
      let lps := partsOf ld
      let lrep := lps.foldl (fun s p => s + p.rep) 0
      if x.size != b + lrep + rep then throw "arity"
      let A := elemB lps x b
      match projectB d A with
      | none => throw "projection-singular"
      | some exact =>
        let dist := distB ps x (b + lrep) exact
        let sc := max1 (rmax (maxAbsB A) (maxAbsB exact))
        let got := sqns ps x (b + lrep)
        let ne := got.foldl (fun m n => rmax m (n - 1).abs) 0
        let opd := (sqns lps x b).foldl (fun m n => rmax m (n - 1).abs) 0
        return #[ratToFloat (dist / sc), ratToFloat ne, ratToFloat opd, ratToFloat (projectRho A)]
  | 9 =>
    -- ins: id h g v
    if x.size != b + 2 + rep + dof + rep then throw "arity"
    let h := x.getD (b + 1) 0
    let A := elemB ps x (b + 2)
    finish (mulB A (expB ps x (b + 2 + rep) h)) (b + 2 + rep + dof) (maxAbsB A) (sqns ps x (b + 2)) [b + 2]
  | _ => throw "unknown-step-code"

-- ---------------------------------------------------------------- odeint law
/-- `x0 (rep) v (dof) xf (rep)` at offsets; exact `x0·exp(T·v^)` -/
def odeAudit (d : GDesc) (x : Array Rat) (T : Rat) (off : Nat) (fin : Bool) : Array Float :=
  let ps := partsOf d
  let rep := ps.foldl (fun s p => s + p.rep) 0
  let dof := ps.foldl (fun s p => s + p.dof) 0
  let A := elemB ps x off
  let ex := mulB A (expB ps x (off + rep) T)
  let dist := distB ps x (off + rep + dof) ex
  let sc := max1 (rmax (maxAbsB A) (maxAbsB ex))
  let (defect, minw) := constraint ps x (off + rep + dof)
  #[ratToFloat (dist / sc), ratToFloat defect, ratToFloat minw, if fin then 1.0 else 0.0]

-- ---------------------------------------------------------------- whole-history audit
structure OpW where
  code : Nat
  d : Nat
  a : Nat
  b : Nat
  extra : Nat      -- offset of the extra words in the word array
  deriving Inhabited

/-- parse `NE NT NOPS init… ops…`; returns (ne, nt, elemOff, tanOff, ops, offset after ops) -/
def parseProgram (x : Array Rat) (rep dof : Nat) (lrep : Nat := 0) : Except String (Nat × Nat × Nat × Nat × Array OpW × Nat) := do
  let nat (i : Nat) : Nat := let r := x.getD i 0; if r.num < 0 then 0 else r.num.natAbs / r.den
  if x.size < 3 then throw "short"
  let ne := nat 0; let nt := nat 1; let nops := nat 2
  let eo := 3
  let to := eo + ne * rep
  let mut off := to + nt * dof
  let mut ops : Array OpW := #[]
  for _ in [0:nops] do
    if off + 4 > x.size then throw "short-ops"
    let code := nat off
    let o : OpW := ⟨code, nat (off + 1), nat (off + 2), nat (off + 3), off + 4⟩
    off := off + 4 + (if code == 8 then dof else if code == 9 then 2 else if code == 13 then lrep else 0)
    ops := ops.push o
  if off > x.size then throw "short-extra"
  return (ne, nt, eo, to, ops, off)

structure HState where
  X : Array (Array BMat)          -- exact registers
  S : Array Rat                   -- running magnitude scale per register
  XL : Array (Array BMat)         -- exact lifted registers (groups with lifts)
  SL : Array Rat
  T : Array (Array Rat)           -- tangent registers
  cache : Array (Option (Array BMat))
  ocache : Option (Nat × Rat × Array BMat)   -- last (tangent register, h, exp(h·v^)) of an ode op
  k : Nat
  ck : Nat                        -- offset of the next checkpoint
  out : Array Float
  err : Option String

def histAudit (d : GDesc) (x : Array Rat) (fin : Array Bool) : Except String (Array Float) := do
  let ps := partsOf d
  let rep := ps.foldl (fun s p => s + p.rep) 0
  let dof := ps.foldl (fun s p => s + p.dof) 0
  let lps : Array Part := match liftedDesc d with | some ld => partsOf ld | none => #[]
  let lrep := lps.foldl (fun s p => s + p.rep) 0
  let lident : Array BMat := lps.map (fun p => BMat.ident p.dim)
  let (ne, nt, eo, to, ops, ckOff) ← parseProgram x rep dof lrep
  let nat (i : Nat) : Nat := let r := x.getD i 0; if r.num < 0 then 0 else r.num.natAbs / r.den
  let X0 : Array (Array BMat) := Array.ofFn (n := ne) (fun i => elemB ps x (eo + i.val * rep))
  let st0 : HState := {
    X := X0, S := X0.map (fun A => max1 (maxAbsB A)),
    XL := Array.replicate 8 lident, SL := Array.replicate 8 1,
    T := Array.ofFn (n := nt) (fun i => x.extract (to + i.val * dof) (to + (i.val + 1) * dof)),
    cache := Array.replicate nt none, ocache := none, k := 0, ck := ckOff, out := #[], err := none }
  -- one primitive op
  let prim (st : HState) (o : OpW) : HState := Id.run do
    if st.err.isSome then return st
    let mut st := st
    let getE (st : HState) (t : Nat) : HState × Array BMat :=
      match st.cache.getD t none with
      | some e => (st, e)
      | none =>
        let e := expB ps (st.T.getD t #[]) 0
        ({ st with cache := st.cache.setIfInBounds t (some e) }, e)
    let setR (st : HState) (dst : Nat) (V : Array BMat) (sc : Rat) : HState :=
      { st with X := st.X.setIfInBounds dst V, S := st.S.setIfInBounds dst (rmax sc (max1 (maxAbsB V))) }
    let Xa := st.X.getD o.a #[]; let Sa := st.S.getD o.a 1
    match o.code with
    | 0 => st := setR st o.d (mulB Xa (st.X.getD o.b #[])) (rmax Sa (st.S.getD o.b 1))
    | 1 =>
      match invB Xa with
      | some Ai => st := setR st o.d Ai Sa
      | none => st := { st with err := some "singular" }
    | 2 =>
      let (st', e) := getE st o.a
      st := setR st' o.d e 1
    | 3 =>
      let (st', e) := getE st o.b
      st := setR st' o.d (mulB Xa e) Sa
    | 4 => st := setR st o.d (mulB (st.X.getD o.d #[]) Xa) (rmax (st.S.getD o.d 1) Sa)
    | 5 =>
      let (st', e) := getE st o.a
      st := setR st' o.d (mulB (st.X.getD o.d #[]) e) (st.S.getD o.d 1)
    | 6 | 7 => st := setR st o.d Xa Sa
    | 8 =>
      st := { st with T := st.T.setIfInBounds o.d (x.extract o.extra (o.extra + dof)),
                      cache := st.cache.setIfInBounds o.d none, ocache := none }
    | 9 =>
      let h := x.getD (o.extra + 1) 0
      let e := match st.ocache with
        | some (t, h', e') => if t == o.b && h' == h then e' else expB ps (st.T.getD o.b #[]) 0 h
        | none => expB ps (st.T.getD o.b #[]) 0 h
      st := { st with ocache := some (o.b, h, e) }
      st := setR st o.d (mulB Xa e) Sa
    | 11 =>
      let V := liftB d Xa
      st := { st with XL := st.XL.setIfInBounds o.d V, SL := st.SL.setIfInBounds o.d (rmax Sa (max1 (maxAbsB V))) }
    | 12 =>
      match projectB d (st.XL.getD o.a #[]) with
      | some V => st := setR st o.d V (st.SL.getD o.a 1)
      | none => st := { st with err := some "projection-singular" }
    | _ => st := { st with err := some "bad-op" }
    st := { st with k := st.k + 1 }
    -- checkpoints recorded for this k
    let mut go := true
    while go do
      if st.ck + 2 ≤ x.size && nat st.ck == st.k && nat (st.ck + 1) ≥ 100 then
        -- lifted register L[r − 100]
        let r := nat (st.ck + 1) - 100
        let off := st.ck + 2
        if off + lrep > x.size || lrep == 0 then
          st := { st with err := some "short-lifted-checkpoint" }
          go := false
        else
          let isFin := (List.range lrep).all (fun i => fin.getD (off + i) true)
          let dist := distB lps x off (st.XL.getD r #[])
          let sc := st.SL.getD r 1
          let (defect, minw) := constraint lps x off
          st := { st with ck := st.ck + 2 + lrep,
                          out := st.out ++ #[ratToFloat (dist / sc), ratToFloat defect, ratToFloat minw,
                                              ratToFloat sc, (if isFin then 1.0 else 0.0), st.k.toFloat] }
      else if st.ck + 2 + rep ≤ x.size && nat st.ck == st.k then
        let r := nat (st.ck + 1)
        let off := st.ck + 2
        let isFin := (List.range rep).all (fun i => fin.getD (off + i) true)
        let dist := distB ps x off (st.X.getD r #[])
        let sc := st.S.getD r 1
        let (defect, minw) := constraint ps x off
        st := { st with ck := st.ck + 2 + rep,
                        out := st.out ++ #[ratToFloat (dist / sc), ratToFloat defect, ratToFloat minw,
                                            ratToFloat sc, (if isFin then 1.0 else 0.0), st.k.toFloat] }
      else go := false
    return st
  let mut st := st0
  let mut i := 0
  while i < ops.size do
    let o := ops[i]!
    if o.code == 10 then
      let len := o.d
      let cnt := o.a
      for _ in [0:cnt] do
        for j in [1:len + 1] do
          if i + j < ops.size then st := prim st ops[i + j]!
      i := i + len + 1
    else if o.code == 13 then
      -- initial content of a lifted register (header extension, not an executed op)
      let V := elemB lps x o.extra
      st := { st with XL := st.XL.setIfInBounds o.d V, SL := st.SL.setIfInBounds o.d (max1 (maxAbsB V)) }
      i := i + 1
    else
      st := prim st o
      i := i + 1
  match st.err with
  | some e => throw e
  | none => return st.out

-- ---------------------------------------------------------------- model ops
section
variable {α : Type} [Scalar α]

/-- the companion type of the group named `grp` (`Lifting.triv` for groups without lifts) -/
def liftingOf (grp : String) (G : LieModel α) : Hist.Lifting α G :=
  if h : G.rep = 2 ∧ grp == "SO2" then
    ⟨4, fun g => Conv.lift_so3 (h.1 ▸ g), fun q => h.1 ▸ Conv.project_so2 q, SO3.identity⟩
  else if h : G.rep = 4 ∧ grp == "SE2" then
    ⟨7, fun g => Conv.lift_se3 (h.1 ▸ g), fun q => h.1 ▸ Conv.project_se2 q, SE3.identity⟩
  else Hist.Lifting.triv G

def hasLift (grp : String) : Bool := grp == "SO2" || grp == "SE2"

instance {dof : Nat} : Inhabited (Hist.Op α dof) := ⟨.castSame 0 0⟩

def natOfRat (r : Rat) : Nat := if r.num < 0 then 0 else r.num.natAbs / r.den

/-- decode the op list of a program into `Hist.Op`s (loops unrolled) -/
def decodeOps (G : LieModel α) (x : Array α) (ints : Array Nat) (off nops : Nat) (lrep : Nat := 0) :
    Array (Hist.Op α G.dof) × Nat × Array (Nat × Nat) := Id.run do
  let mut linit : Array (Nat × Nat) := #[]              -- (lifted register, word offset) of code-13 entries
  let mut raw : Array (Hist.Op α G.dof × Nat) := #[]   -- op, loop marker (0 = plain; else (len,cnt) encoded separately)
  let mut loops : Array (Nat × Nat × Nat) := #[]      -- (index in raw, len, cnt)
  let mut off := off
  for _ in [0:nops] do
    let code := ints.getD off 0
    let d := ints.getD (off + 1) 0; let a := ints.getD (off + 2) 0; let b := ints.getD (off + 3) 0
    off := off + 4
    match code with
    | 0 => raw := raw.push (.compose d a b, 0)
    | 1 => raw := raw.push (.inverse d a, 0)
    | 2 => raw := raw.push (.exp d a, 0)
    | 3 => raw := raw.push (.rplus d a b, 0)
    | 4 => raw := raw.push (.mulAssign d a, 0)
    | 5 => raw := raw.push (.plusAssign d a, 0)
    | 6 => raw := raw.push (.castSame d a, 0)
    | 7 => raw := raw.push (.liftproj d a, 0)
    | 8 =>
      raw := raw.push (.setTan d (ofArray G.dof x off), 0)
      off := off + G.dof
    | 9 =>
      raw := raw.push (.ode d a b (Hist.stepperOf (ints.getD off 0)) (x.getD (off + 1) (nat 0)), 0)
      off := off + 2
    | 11 => raw := raw.push (.lift d a, 0)
    | 12 => raw := raw.push (.project d a, 0)
    | 13 =>
      linit := linit.push (d, off)
      off := off + lrep
    | _ =>
      loops := loops.push (raw.size, d, a)
  -- unroll
  let mut out : Array (Hist.Op α G.dof) := #[]
  let mut i := 0
  let mut li := 0
  while i < raw.size do
    match loops[li]? with
    | some (idx, len, cnt) =>
      if idx == i then
        for _ in [0:cnt] do
          for j in [0:len] do
            if h : i + j < raw.size then out := out.push (raw[i + j]).1
        i := i + len
        li := li + 1
      else
        out := out.push (raw[i]!).1
        i := i + 1
    | none =>
      out := out.push (raw[i]!).1
      i := i + 1
  return (out, off, linit)

/-- destination of an op: `(lifted?, register)` -/
def destOf {dof : Nat} : Hist.Op α dof → Option (Bool × Nat)
  | .compose d _ _ => some (false, d) | .inverse d _ => some (false, d) | .exp d _ => some (false, d)
  | .rplus d _ _ => some (false, d) | .mulAssign d _ => some (false, d) | .plusAssign d _ => some (false, d)
  | .castSame d _ => some (false, d) | .liftproj d _ => some (false, d)
  | .setTan _ _ => none | .ode d _ _ _ _ => some (false, d)
  | .lift d _ => some (true, d) | .project d _ => some (false, d)

/-- `hist_run`: fold `Hist.step` over the program, report the destination register after every op.
    Teacher forcing: when the request carries the implementation's checkpoint `k r coeffs` for the
    op just executed, the model's destination register is overwritten with it after reporting, so
    that every reported value is ONE model op applied to operands fetched by the model's own
    register semantics from the implementation's register contents. -/
def histRun (grp : String) (x : Array α) (ints : Array Nat) : Except String (Array α) := do
  match groupOf (α := α) grp with
  | none => throw "unknown-group"
  | some G =>
    let ne := ints.getD 0 0; let nt := ints.getD 1 0; let nops := ints.getD 2 0
    let eo := 3
    let to := eo + ne * G.rep
    let oo := to + nt * G.dof
    let C := liftingOf grp G
    let (ops, ckOff, linit) := decodeOps G x ints oo nops (if hasLift grp then C.lrep else 0)
    if ops.size > 2000 then throw "too-long"
    let Es : Array (Vec α G.rep) := Array.ofFn (n := ne) (fun i => memoV (ofArray G.rep x (eo + i.val * G.rep)))
    let Ts : Array (Vec α G.dof) := Array.ofFn (n := nt) (fun i => memoV (ofArray G.dof x (to + i.val * G.dof)))
    let Ls : Array (Vec α C.lrep) := linit.foldl (fun acc (d, off) =>
      acc.setIfInBounds d (memoV (ofArray C.lrep x off))) (Array.replicate 8 C.lid)
    let mut s : Hist.State α G C := ⟨fun i => Es.getD i G.identity, fun i => Ts.getD i (vzero _), fun i => Ls.getD i C.lid⟩
    let mut out : Array α := #[]
    let mut k := 0
    let mut ck := ckOff
    for o in ops do
      s := Hist.step G C s o
      k := k + 1
      match destOf o with
      | some (false, d) =>
        out := out ++ toArray (s.E d)
        if ck + 2 + G.rep ≤ x.size && ints.getD ck 0 == k && ints.getD (ck + 1) 0 == d then
          let forced : Vec α G.rep := memoV (ofArray G.rep x (ck + 2))
          s := { s with E := Hist.upd s.E d forced }
          ck := ck + 2 + G.rep
      | some (true, d) =>
        out := out ++ toArray (s.L d)
        if ck + 2 + C.lrep ≤ x.size && ints.getD ck 0 == k && ints.getD (ck + 1) 0 == 100 + d then
          let forced : Vec α C.lrep := memoV (ofArray C.lrep x (ck + 2))
          s := { s with L := Hist.upd s.L d forced }
          ck := ck + 2 + C.lrep
      | none => pure ()
    return out

def modelOp (op grp : String) (x : Array α) (ints : Array Nat) : Option (Except String (Array α)) :=
  match op with
  | "hist_cast" => some (.ok x)
  | "hist_liftproj" =>
    some (match groupOf (α := α) grp with
      | none => .error "unknown-group"
      | some G =>
        if !hasLift grp then .error "no-lift" else
        if x.size != G.rep then .error "arity" else .ok (toArray ((liftingOf grp G).lp (ofArray G.rep x))))
  | "hist_lift" =>
    some (match groupOf (α := α) grp with
      | none => .error "unknown-group"
      | some G =>
        if !hasLift grp then .error "no-lift" else
        if x.size != G.rep then .error "arity" else .ok (toArray (memoV ((liftingOf grp G).lift (ofArray G.rep x)))))
  | "hist_project" =>
    some (match groupOf (α := α) grp with
      | none => .error "unknown-group"
      | some G =>
        if !hasLift grp then .error "no-lift" else
        let C := liftingOf grp G
        if x.size != C.lrep then .error "arity" else .ok (toArray (memoV (C.project (memoV (ofArray C.lrep x))))))
  | "hist_ode" =>
    some (match groupOf (α := α) grp with
      | none => .error "unknown-group"
      | some G =>
        if x.size != 2 + G.rep + G.dof then .error "arity" else
        let v : Vec α G.dof := memoV (ofArray G.dof x (2 + G.rep))
        let g : Vec α G.rep := memoV (ofArray G.rep x 2)
        .ok (toArray (Hist.rkStep (Hist.alg G) (fun _ _ => v) (Hist.stepperOf (ints.getD 0 0)) (nat 0) (x.getD 1 (nat 0)) g)))
  | "hist_run" => some (histRun grp x ints)
  | _ => none
end

end HistOps

open HistOps in
def runHist (op grp prec : String) (args : Array String) : Option String :=
  if !(op.startsWith "hist_") then none else
  if isA prec then
    match GDesc.parse grp with
    | none => some "ERR unknown-group"
    | some d =>
      let x := args.map (ratW prec)
      let fin := args.map (finW prec)
      let res : Except String (Array Float) :=
        match op with
        | "hist_step" => stepAudit d x
        | "hist_audit" => histAudit d x fin
        | "hist_odefinal" =>
          -- id n h x0 v xf
          let n := x.getD 1 0; let h := x.getD 2 0
          .ok (odeAudit d x (n * h) 3 (fin.all id))
        | "hist_odestage" => .ok (odeAudit d x (x.getD 0 0) 1 (fin.all id))
        | _ => .error "unknown-hist-audit-op"
      match res with
      | .ok out => some (replyF out)
      | .error e => some ("ERR " ++ e)
  else
    let ints := args.map (natW prec)
    if prec == "f64" then
      match modelOp (α := Float) op grp (args.map Bits.ofHex) ints with
      | some (.ok out) => some (" ".intercalate (out.toList.map Bits.toHex))
      | some (.error e) => some ("ERR " ++ e)
      | none => some "ERR unknown-hist-op"
    else if prec == "f32" then
      match modelOp (α := Float32) op grp (args.map Bits.ofHex) ints with
      | some (.ok out) => some (" ".intercalate (out.toList.map Bits.toHex))
      | some (.error e) => some ("ERR " ++ e)
      | none => some "ERR unknown-hist-op"
    else some "ERR bad-prec"

end Drv
