/-
  Driver/OpsSparse.lean — driver ops of the "Sparse" unit (stub: serves nothing yet).
  Interface: return `none` for requests this unit does not serve, `some reply` otherwise.
-/
import SmoothModel
import Driver.Ops

namespace Drv

def runSparse (_op _grp _prec : String) (_args : Array String) : Option String := none

end Drv
