/-
  Driver/OpsSparse.lean — driver ops of the "Sparse" unit (property C19).

  sp_ad | sp_dr_exp | sp_dr_expinv | sp_d2r_exp | sp_d2r_expinv
        <G> <prec> <rows> <cols> <i0> <nnz> (r c w)×nnz <na> a×na [D <nd> w×nd]
      host matrix as a column-major triplet list (compressed), tangent `a`, block offset `i0`;
      optional `D`: the dense Dof×Dof (Dof×Dof²) matrix, row-major, to be written instead of the
      model's own dense value (bit-exact comparison of the block write itself).
      Reply: `<isCompressed 0|1> <nonZeros> (r c w)×nonZeros`   (column-major iteration order)
  sp_pattern <G> - ad|d|d2       → `r c` pairs of the published pattern, column-major
-/
import SmoothModel
import Driver.Ops
import Driver.OpsMem

namespace Drv
open Sparse

variable {α : Type} [Scalar α] [Bits α]

def spReply (m : SpMat α) : String :=
  let head := s!"{if m.compressed then 1 else 0} {m.nonZeros}"
  let body := m.entries.map (fun e => s!"{e.1.1} {e.1.2} {Bits.toHex e.2}")
  " ".intercalate (head :: body)

def Cur.triplets (c : Cur) (n : Nat) : Except String (List (Key × α) × Cur) := do
  let mut c := c
  let mut out : Array (Key × α) := #[]
  for _ in [0:n] do
    let (r, c1) ← c.nat
    let (cc, c2) ← c1.nat
    let (w, c3) ← c2.next
    out := out.push ((r, cc), Bits.ofHex w)
    c := c3
  return (out.toList, c)

def Cur.scalars (c : Cur) (n : Nat) : Except String (Array α × Cur) :=
  if c.pos + n ≤ c.toks.size then
    .ok ((c.toks.extract c.pos (c.pos + n)).map Bits.ofHex, { c with pos := c.pos + n })
  else .error "sparse: not enough words"

def sorted (l : List (Key × α)) : Bool :=
  match l with
  | [] => true
  | [_] => true
  | a :: b :: r => keyLt a.1 b.1 && sorted (b :: r)

@[specialize] def spCall (routine grp : String) (args : Array String) : Except String String := do
  let some d := GDesc.parse grp | .error s!"unknown-group {grp}"
  let n := Mem.dofSize d
  let c : Cur := ⟨args, 0⟩
  let (rows, c) ← c.nat
  let (cols, c) ← c.nat
  let (i0, c) ← c.nat
  let (nnz, c) ← c.nat
  let (es, c) ← Cur.triplets (α := α) c nnz
  if !sorted es then .error "sparse: triplets not column-major sorted"
  let (na, c) ← c.nat
  if na ≠ n then .error "sparse: tangent size"
  let (a, c) ← Cur.scalars (α := α) c na
  let m : SpMat α := ⟨rows, cols, es, true⟩
  -- optional dense override
  let dense? : Option (Array α) ←
    if c.pos < c.toks.size then do
      let (t, c1) ← c.next
      if t ≠ "D" then .error "sparse: expected D"
      let (nd, c2) ← c1.nat
      let (ws, _) ← Cur.scalars (α := α) c2 nd
      pure (some ws)
    else pure none
  let hess := routine == "sp_d2r_exp" || routine == "sp_d2r_expinv"
  let inv := routine == "sp_dr_expinv" || routine == "sp_d2r_expinv"
  if routine == "sp_ad" then
    match adSparse d m a with
    | some m' => return spReply m'
    | none => .error "sparse: ad_sparse needs a Dof×Dof matrix"
  else
    -- the asserts of the C++ (lie_group_sparse_impl.hpp:31-33, 70-72)
    if rows < i0 + n then .error "sparse: sp.rows() < i0 + Dof"
    if !hess && cols < i0 + n then .error "sparse: sp.cols() < i0 + Dof"
    if hess && cols < rows * (i0 + n) then .error "sparse: sp.cols() < sp.rows()·(i0 + Dof)"
    match dense? with
    | some ws =>
      let w := if hess then n * n else n
      if ws.size ≠ n * w then .error "sparse: dense override size"
      let pat := if hess then d2Pattern d else dPattern d
      let wr := patternWrites pat n rows hess i0 (fun r cc => ws.getD (r * w + cc) (Scalar.nat 0))
      return spReply (m.blockWrite wr)
    | none =>
      if hess then return spReply (d2rExpSparse d inv m a i0)
      else return spReply (drExpSparse d inv m a i0)

def spPattern (grp which : String) : Except String String := do
  let some d := GDesc.parse grp | .error s!"unknown-group {grp}"
  let pat ← match which with
    | "ad" => pure (adPattern d)
    | "d" => pure (dPattern d)
    | "d2" => pure (d2Pattern d)
    | _ => .error "sparse: which ∈ ad|d|d2"
  return " ".intercalate (pat.map (fun k => s!"{k.1} {k.2}"))

def runSparse (op grp prec : String) (args : Array String) : Option String :=
  let wrap (r : Except String String) : Option String :=
    match r with
    | .ok s => some s
    | .error e => some ("ERR " ++ e)
  if op == "sp_pattern" then wrap (spPattern grp (args.getD 0 ""))
  else if op == "sp_ad" || op == "sp_dr_exp" || op == "sp_dr_expinv" || op == "sp_d2r_exp" || op == "sp_d2r_expinv" then
    if prec == "f64" then wrap (spCall (α := Float) op grp args)
    else if prec == "f32" then wrap (spCall (α := Float32) op grp args)
    else some "ERR bad-prec"
  else none

end Drv
