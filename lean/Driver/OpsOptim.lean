/-
  Driver/OpsOptim.lean — driver ops of the optimizer unit (C09, C10).

  * `opt_replay <ceres|disney> f64 δ0 reduce0 ncalls (ftol ptol max_iter K (rn fxpn linn ddxn n)^K)^ncalls`
      re-executes the decision logic of the model (`Optim.replay`: rho, strategy update, acceptance
      rule, Ftol/Ptol tests, loop guard, counters) in `Float` on the observables logged from a run
      of the real `smooth::minimize`; the strategy state is carried from one call to the next (a
      strategy object shared across calls).  Reply per call:
      `(Δbefore rho take accepted Δafter)^iters  iter status ncallbacks`   (status 0 Ftol 1 Ptol 2 MaxIters)
  * `opt_colnorm - f64 m n J`  → model `colwise_norm` (dense) and the clamped scaling `d`.
  * `opt_tr <kind> f64a m n J d r Δ λ  dxT_d λT_d dxT_s λT_s dxL_d dphi_d dxL_s dphi_s cn_d cn_s cn_r`
      exact audit of the implementation's outputs (Rat / 320-bit fixed point).  Reply (f64 words):
       0 non-finite flag            1..4 normal-equation backward error of dxL_d dxL_s dxT_d dxT_s
       5 descent excess (‖Jx+r‖²−‖r‖²)/‖r‖², exact sign, max over the four solutions (≤ 0 required)
       6 λ ≠ fl(1/Δ) flag           7 colwise_norm relative error (dense, sparse col-major, sparse row-major)
       8 dense-vs-sparse relative difference (L)      9 the same (T)
      10 cond∞(H(λ))               11 cond∞(H(λT))
      12 dphi relative error dense  13 sparse          14 forward error of dxL_d
      15 T≠L flag when λT = λ bitwise                  16 exact dphi          17 zero-step flag violation
      18 cond∞(D⁻¹H(λ)D⁻¹)        19 gradient cancellation ‖|J|ᵀ|r|‖/‖Jᵀr‖      20 data-relative residual (max of four)
-/
import SmoothModel
import SmoothModel.Optim
import Driver.Ops

open Scalar Lin Oracle

namespace Drv

-- ------------------------------------------------------------------------------------ opt_replay
def rhoToFloat : Optim.Rho Float → Float
  | .fin x => x
  | .pinf => 1.0 / 0.0
  | .ninf => -1.0 / 0.0
  | .nan => 0.0 / 0.0

def b2f (b : Bool) : Float := if b then 1.0 else 0.0

def statusCode : Option Optim.Status → Float
  | some .Ftol => 0.0
  | some .Ptol => 1.0
  | _ => 2.0

/-- parse the per-call blocks; returns the reply words -/
partial def replayCalls (x : Array Float) (pos : Nat) (ncalls : Nat) (st : Optim.Strat Float) (acc : Array Float) :
    Except String (Array Float) :=
  if ncalls == 0 then
    if pos == x.size then .ok acc else .error s!"trailing words {x.size - pos}"
  else
    if pos + 4 > x.size then .error "short call header" else
    let ftol := x[pos]!
    let ptol := x[pos + 1]!
    let maxIter := x[pos + 2]!.toUInt64.toNat
    let k := x[pos + 3]!.toUInt64.toNat
    if pos + 4 + 5 * k > x.size then .error "short call body" else
    let obs : List (Optim.Obs Float) := (List.range k).map (fun i =>
      let o := pos + 4 + 5 * i
      ⟨x[o]!, x[o + 1]!, x[o + 2]!, x[o + 3]!, x[o + 4]!.toUInt64.toNat⟩)
    let opts : Optim.Opts Float := ⟨ftol, ptol, maxIter⟩
    let s0 : Optim.State Unit (Optim.Strat Float) := Optim.initState () st
    let (sf, tr) := Optim.replay Optim.builtinOps opts obs s0 []
    let words := tr.foldl (fun (a : Array Float) t =>
      a ++ #[t.deltaBefore, rhoToFloat t.rho, b2f t.take, b2f t.accepted, t.deltaAfter]) acc
    let res := Optim.finish sf
    let words := words ++ #[res.iter.toFloat, statusCode (some res.status), res.callbacks.length.toFloat]
    replayCalls x (pos + 4 + 5 * k) (ncalls - 1) sf.strat words

def optReplay (grp : String) (x : Array Float) : Except String (Array Float) := do
  if x.size < 3 then throw "short"
  -- "ceres"/"disney": a freshly constructed strategy object (the MODEL's initial constants; the words δ0,
  -- reduce0 are ignored, so the first logged `get_delta()` of the real object is compared with them);
  -- "ceres_from"/"disney_from": explicit initial state δ0, reduce0
  let st : Optim.Strat Float ← match grp with
    | "ceres" => pure Optim.Strat.ceresInit
    | "disney" => pure Optim.Strat.disneyInit
    | "ceres_from" => pure ⟨Optim.StratKind.ceres, x[0]!, x[1]!⟩
    | "disney_from" => pure ⟨Optim.StratKind.disney, x[0]!, x[1]!⟩
    | _ => throw s!"unknown strategy {grp}"
  replayCalls x 3 x[2]!.toUInt64.toNat st #[]

-- ------------------------------------------------------------------------------------ opt_colnorm
def optColnorm (x : Array Float) : Except String (Array Float) := do
  if x.size < 2 then throw "short"
  let m := x[0]!.toUInt64.toNat
  let n := x[1]!.toUInt64.toNat
  if x.size != 2 + m * n then throw s!"arity: got {x.size} want {2 + m * n}"
  let J : Mat Float m n := memoM (matOfArray m n x 2)
  let cn := memoV (Optim.colNormDense J)
  return toArray cn ++ toArray (Optim.scaling J)

-- ------------------------------------------------------------------------------------ opt_tr (audit)
/-- fixed-point Gauss–Jordan inverse with partial pivoting; entries are `value · 2^FB` -/
def bfInverse (n : Nat) (A : Array (Array Int)) : Option (Array (Array Int)) := Id.run do
  let one : Int := BigFix.one
  let mut M : Array (Array Int) := Array.ofFn (n := n) (fun i =>
    Array.ofFn (n := 2 * n) (fun j =>
      if j.val < n then (A[i.val]!)[j.val]! else if j.val - n == i.val then one else 0))
  for c in [0:n] do
    let mut p := c
    let mut best : Nat := 0
    for r in [c:n] do
      let v := ((M[r]!)[c]!).natAbs
      if v > best then
        best := v; p := r
    if best == 0 then return none
    let rowp := M[p]!
    let rowc := M[c]!
    M := (M.set! p rowc).set! c rowp
    let piv := (M[c]!)[c]!
    let prow := (M[c]!).map (fun v => (v * one) / piv)
    M := M.set! c prow
    for r in [0:n] do
      if r != c then
        let f := (M[r]!)[c]!
        if f != 0 then
          let row := M[r]!
          let nr := Array.ofFn (n := 2 * n) (fun j => row[j.val]! - (f * prow[j.val]!) / one)
          M := M.set! r nr
  return some (Array.ofFn (n := n) (fun i => Array.ofFn (n := n) (fun j => (M[i.val]!)[n + j.val]!)))

def bf2f (x : Int) : Float := ratToFloat (BigFix.toRat x)

def rabs (q : Rat) : Rat := if q < 0 then -q else q
def vmaxAbs (v : Array Rat) : Rat := v.foldl (fun s x => if s < rabs x then rabs x else s) 0
def rowSumNorm (n : Nat) (g : Nat → Nat → Rat) : Rat :=
  (List.range n).foldl (fun s i =>
    let rs := (List.range n).foldl (fun t j => t + rabs (g i j)) 0
    if s < rs then rs else s) 0

structure TrCtx where
  m : Nat
  n : Nat
  J : Array Rat      -- row-major
  d : Array Rat
  r : Array Rat
  JtJ : Array Rat    -- n×n
  Jtr : Array Rat    -- n
  rr : Rat           -- ‖r‖²

def TrCtx.Jij (c : TrCtx) (i j : Nat) : Rat := c.J[i * c.n + j]!
def TrCtx.H (c : TrCtx) (lam : Rat) (i j : Nat) : Rat :=
  c.JtJ[i * c.n + j]! + (if i == j then lam * c.d[i]! * c.d[i]! else 0)

def mkCtx (m n : Nat) (J d r : Array Rat) : TrCtx :=
  let JtJ := Array.ofFn (n := n * n) (fun k =>
    let i := k.val / n
    let j := k.val % n
    (List.range m).foldl (fun s l => s + J[l * n + i]! * J[l * n + j]!) 0)
  let Jtr := Array.ofFn (n := n) (fun i => (List.range m).foldl (fun s l => s + J[l * n + i.val]! * r[l]!) 0)
  ⟨m, n, J, d, r, JtJ, Jtr, r.foldl (fun s v => s + v * v) 0⟩

/-- ‖Hx + Jᵀr‖∞ / (‖H‖∞‖x‖∞ + ‖Jᵀr‖∞) -/
def backwardErr (c : TrCtx) (lam : Rat) (x : Array Rat) : Float :=
  let res := Array.ofFn (n := c.n) (fun i =>
    (List.range c.n).foldl (fun s j => s + c.H lam i.val j * x[j]!) 0 + c.Jtr[i.val]!)
  let hn := rowSumNorm c.n (c.H lam)
  let den := hn * vmaxAbs x + vmaxAbs c.Jtr
  if den == 0 then (if vmaxAbs res == 0 then 0.0 else 1e300) else ratToFloat (vmaxAbs res / den)

/-- (‖Jx + r‖² − ‖r‖²)/‖r‖² with the exact sign (0 when the difference is ≤ 0 … reported as is) -/
def descentExcess (c : TrCtx) (x : Array Rat) : Float :=
  let lin := Array.ofFn (n := c.m) (fun i =>
    (List.range c.n).foldl (fun s j => s + c.Jij i.val j * x[j]!) 0 + c.r[i.val]!)
  let ll := lin.foldl (fun s v => s + v * v) 0
  let diff := ll - c.rr
  if diff ≤ 0 then
    (if c.rr == 0 then 0.0 else ratToFloat (diff / c.rr))
  else
    (if c.rr == 0 then 1e300 else
      let v := ratToFloat (diff / c.rr)
      if v > 0.0 then v else 1e-300)

/-- data-relative residual `‖Hx + Jᵀr‖∞ / (‖H‖∞‖x‖∞ + ‖|J|ᵀ|r|‖∞)`: what a backward-stable method achieves when the
    right-hand side `Jᵀr` itself suffers cancellation -/
def backwardErrData (c : TrCtx) (lam : Rat) (x : Array Rat) : Float :=
  let res := Array.ofFn (n := c.n) (fun i =>
    (List.range c.n).foldl (fun s j => s + c.H lam i.val j * x[j]!) 0 + c.Jtr[i.val]!)
  let hn := rowSumNorm c.n (c.H lam)
  let ajr := Array.ofFn (n := c.n) (fun i => (List.range c.m).foldl (fun s l => s + rabs (c.Jij l i.val) * rabs c.r[l]!) 0)
  let den := hn * vmaxAbs x + vmaxAbs ajr
  if den == 0 then (if vmaxAbs res == 0 then 0.0 else 1e300) else ratToFloat (vmaxAbs res / den)

/-- cancellation in the gradient: `‖|J|ᵀ|r|‖∞ / ‖Jᵀr‖∞` (1 = none, large = r nearly orthogonal to range J) -/
def gradCancellation (c : TrCtx) : Float :=
  let ajr := Array.ofFn (n := c.n) (fun i => (List.range c.m).foldl (fun s l => s + rabs (c.Jij l i.val) * rabs c.r[l]!) 0)
  let a := vmaxAbs ajr
  let b := vmaxAbs c.Jtr
  if a == 0 then 1.0 else if b == 0 then 1e300 else ratToFloat (a / b)

def relDiff (a b : Array Rat) : Float :=
  let d := vmaxAbs (Array.ofFn (n := a.size) (fun i => a[i.val]! - b[i.val]!))
  let s := vmaxAbs a
  if d == 0 then 0.0 else if s == 0 then 1e300 else ratToFloat (d / s)

/-- relative error of the column norms against the exact `√Σ J_ij²` (compared through the squares) -/
def colnormErr (c : TrCtx) (cn : Array Rat) : Float :=
  (List.range c.n).foldl (fun (worst : Float) j =>
    let s := c.JtJ[j * c.n + j]!
    let v := cn[j]!
    let e : Float :=
      if s == 0 then (if v == 0 then 0.0 else 1e300)
      else ratToFloat (rabs (v * v - s) / (2 * s))
    if e > worst then e else worst) 0.0

structure ExactSol where
  cond : Float
  /-- cond∞ of the diagonally scaled matrix `D⁻¹ H D⁻¹ = D⁻¹JᵀJD⁻¹ + λI` (governs the accuracy of `D dx` and `dphi`) -/
  condS : Float
  x : Array Int        -- BigFix
  dphi : Float
  ok : Bool

/-- exact (320-bit) solution of the regularised normal equations, condition number, dphi -/
def exactSol (c : TrCtx) (lam : Rat) : ExactSol :=
  let n := c.n
  let A : Array (Array Int) := Array.ofFn (n := n) (fun i => Array.ofFn (n := n) (fun j => BigFix.ofRat (c.H lam i.val j.val)))
  match bfInverse n A with
  | none => ⟨1e300, 1e300, #[], 0.0, false⟩
  | some Hi =>
    let hn := ratToFloat (rowSumNorm n (c.H lam))
    let hin : Int := (List.range n).foldl (fun s i =>
      let rs : Int := (List.range n).foldl (fun t j => t + ((Hi[i]!)[j]!).natAbs) 0
      if s < rs then rs else s) 0
    let hsn := ratToFloat (rowSumNorm n (fun i j => c.H lam i j / (c.d[i]! * c.d[j]!)))
    let dBf : Array Int := c.d.map BigFix.ofRat
    let hsin : Int := (List.range n).foldl (fun s i =>
      let rs : Int := (List.range n).foldl (fun t j =>
        t + (BigFix.mul (BigFix.mul dBf[i]! ((Hi[i]!)[j]!)) dBf[j]!).natAbs) 0
      if s < rs then rs else s) 0
    let b : Array Int := c.Jtr.map (fun v => BigFix.ofRat (-v))
    let x : Array Int := Array.ofFn (n := n) (fun i =>
      (List.range n).foldl (fun s j => s + BigFix.mul ((Hi[i.val]!)[j]!) b[j]!) 0)
    -- D²x, ‖Dx‖², (D²x)ᵀ H⁻¹ (D²x)
    let dB : Array Int := c.d.map BigFix.ofRat
    let d2x : Array Int := Array.ofFn (n := n) (fun i => BigFix.mul (BigFix.mul dB[i.val]! dB[i.val]!) x[i.val]!)
    let dx2 : Int := (List.range n).foldl (fun s i => let t := BigFix.mul dB[i]! x[i]!; s + BigFix.mul t t) 0
    let hd : Array Int := Array.ofFn (n := n) (fun i =>
      (List.range n).foldl (fun s j => s + BigFix.mul ((Hi[i.val]!)[j]!) d2x[j]!) 0)
    let q : Int := (List.range n).foldl (fun s i => s + BigFix.mul d2x[i]! hd[i]!) 0
    let dphi : Float :=
      if dx2 == 0 then 0.0
      else
        -- −q/√dx2 : scale to keep the Float conversion in range
        let qf := BigFix.toRat q
        let sf := BigFix.toRat dx2
        -- √(sf) via Float on a rational scaled by an even power of two
        let e : Int := ((sf.num.natAbs.log2 : Int) - (sf.den.log2 : Int)) / 2
        let scale : Rat := if e ≥ 0 then (2 : Rat) ^ e.toNat else 1 / (2 : Rat) ^ (-e).toNat
        let root := Float.sqrt (ratToFloat (sf / (scale * scale)))   -- in [~0.5, ~4)
        Float.neg (ratToFloat (qf / scale) / root)
    ⟨hn * bf2f hin, hsn * bf2f hsin, x, dphi, true⟩

def relErrF (a ref : Float) : Float :=
  if ref == 0.0 then a.abs else ((a - ref) / ref).abs

def optTrAudit (args : Array String) : Except String (Array Float) := do
  if args.size < 2 then throw "short"
  let bits := args.map parseHex
  let m := (Float.ofBits bits[0]!).toUInt64.toNat
  let n := (Float.ofBits bits[1]!).toUInt64.toNat
  let nin := 2 + m * n + n + m + 2
  let nout := 7 * n + 4
  if args.size != nin + nout then throw s!"arity: got {args.size} want {nin + nout}"
  let finite := bits.all isFinite64
  let q := bits.map ratOfBits64
  let J := q.extract 2 (2 + m * n)
  let d := q.extract (2 + m * n) (2 + m * n + n)
  let r := q.extract (2 + m * n + n) (2 + m * n + n + m)
  let deltaBits := bits[nin - 2]!
  let lam := q[nin - 1]!
  let o := nin
  let dxTd := q.extract o (o + n)
  let lamTdBits := bits[o + n]!
  let dxTs := q.extract (o + n + 1) (o + 2 * n + 1)
  let lamTsBits := bits[o + 2 * n + 1]!
  let dxLd := q.extract (o + 2 * n + 2) (o + 3 * n + 2)
  let dphid := Float.ofBits bits[o + 3 * n + 2]!
  let dxLs := q.extract (o + 3 * n + 3) (o + 4 * n + 3)
  let dphis := Float.ofBits bits[o + 4 * n + 3]!
  let cnd := q.extract (o + 4 * n + 4) (o + 5 * n + 4)
  let cns := q.extract (o + 5 * n + 4) (o + 6 * n + 4)
  let cnr := q.extract (o + 6 * n + 4) (o + 7 * n + 4)
  if !finite then
    return #[1.0] ++ Array.replicate 20 0.0
  let c := mkCtx m n J d r
  let lamT := ratOfBits64 lamTdBits
  let e1 := backwardErr c lam dxLd
  let e2 := backwardErr c lam dxLs
  let e3 := backwardErr c lamT dxTd
  let e4 := backwardErr c lamT dxTs
  let fmax (a b : Float) : Float := if a > b then a else b
  let e5 := fmax (fmax (descentExcess c dxLd) (descentExcess c dxLs)) (fmax (descentExcess c dxTd) (descentExcess c dxTs))
  let lamModel : Float := Optim.lambdaOf (Float.ofBits deltaBits)
  let e6 : Float := if lamModel.toBits == lamTdBits && lamModel.toBits == lamTsBits then 0.0 else 1.0
  let e7 := fmax (colnormErr c cnd) (fmax (colnormErr c cns) (colnormErr c cnr))
  let e8 := relDiff dxLd dxLs
  let e9 := relDiff dxTd dxTs
  let exL := exactSol c lam
  let exT := if lamT == lam then exL else exactSol c lamT
  let e12 := relErrF dphid exL.dphi
  let e13 := relErrF dphis exL.dphi
  let xr : Array Rat := exL.x.map BigFix.toRat
  let e14 := if exL.ok then relDiff xr dxLd else 1e300
  let sameLam := lamTdBits == bits[nin - 1]!
  let e15 : Float :=
    if sameLam then
      (if (List.range n).all (fun i => bits[o + i]! == bits[o + 2 * n + 2 + i]!) then 0.0 else 1.0)
    else 0.0
  -- zero residual / zero gradient ⇒ the step must be exactly zero
  let gradZero := c.Jtr.all (· == 0)
  let e17 : Float :=
    if gradZero && !(dxLd.all (· == 0) && dxLs.all (· == 0) && dxTd.all (· == 0) && dxTs.all (· == 0)) then 1.0 else 0.0
  return #[0.0, e1, e2, e3, e4, e5, e6, e7, e8, e9, exL.cond, exT.cond, e12, e13, e14, e15, exL.dphi, e17, exL.condS, gradCancellation c,
    fmax (fmax (backwardErrData c lam dxLd) (backwardErrData c lam dxLs)) (fmax (backwardErrData c lamT dxTd) (backwardErrData c lamT dxTs))]

-- ------------------------------------------------------------------------------------ dispatch
def fwords (r : Except String (Array Float)) : String :=
  match r with
  | .ok out => " ".intercalate (out.toList.map Bits.toHex)
  | .error e => "ERR " ++ e

def runOptim (op grp prec : String) (args : Array String) : Option String :=
  match op with
  | "opt_replay" =>
    if prec == "f64" then some (fwords (optReplay grp (args.map Bits.ofHex))) else some "ERR opt_replay needs f64"
  | "opt_colnorm" =>
    if prec == "f64" then some (fwords (optColnorm (args.map Bits.ofHex))) else some "ERR opt_colnorm needs f64"
  | "opt_tr" =>
    if prec == "f64a" then some (fwords (optTrAudit args)) else some "ERR opt_tr needs f64a"
  | _ => none

end Drv
