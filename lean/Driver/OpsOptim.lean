/-
  Driver/OpsOptim.lean — driver ops of the "Optim" unit (stub: serves nothing yet).
  Interface: return `none` for requests this unit does not serve, `some reply` otherwise.
-/
import SmoothModel
import Driver.Ops

namespace Drv

def runOptim (_op _grp _prec : String) (_args : Array String) : Option String := none

end Drv
