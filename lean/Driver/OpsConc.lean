/-
  Driver/OpsConc.lean — driver ops of the "Conc" unit (stub: serves nothing yet).
  Interface: return `none` for requests this unit does not serve, `some reply` otherwise.
-/
import SmoothModel
import Driver.Ops

namespace Drv

def runConc (_op _grp _prec : String) (_args : Array String) : Option String := none

end Drv
