/-
  Driver/OpsPoly.lean — driver ops of the "Poly" unit (property C20).

    poly_monoderiv   K<k>          u p                 → row (K+1)
    poly_monoderivs  K<k>P<p>      u                   → (P+1)x(K+1)
    poly_lagrange    K<k>          ts (K+1)            → (K+1)x(K+1)
    poly_basisderivs K<k>N<n>      B (K+1)^2, ts (N)   → (K+1)xN
    poly_intabs      -             t0 t1 A B C         → value
    search_f64 / search_int  -         t r…                → idx iters calls chk   (as f64 words)
    poly_basis / poly_cumbasis  <Basis>:<K>            → (K+1)x(K+1)
    poly_monint      <K>:<P>                           → (K+1)x(K+1)
    poly_lgr         <K>                               → K nodes, K weights
  All at `prec = f64` (the C++ utilities are `double` code).
-/
import SmoothModel
import Driver.Ops

open Scalar

namespace Drv

namespace PolyOps

def hex (x : Float) : String := Bits.toHex x
def reply (xs : List Float) : String := " ".intercalate (xs.map hex)

/-- "K7" → 7, "K7P2" → (7,2) with the given letters -/
def parse1 (g : String) (c : Char) : Option Nat :=
  match g.toList with
  | c' :: rest => if c' = c then (String.ofList rest).toNat? else none
  | [] => none

def parse2 (g : String) (c1 c2 : Char) : Option (Nat × Nat) :=
  match g.toList with
  | c' :: rest =>
    if c' = c1 then
      match (String.ofList rest).splitOn (String.singleton c2) with
      | [a, b] => do let x ← a.toNat?; let y ← b.toNat?; pure (x, y)
      | _ => none
    else none
  | [] => none

def parseColon (g : String) : Option (String × Nat) :=
  match g.splitOn ":" with
  | [a, b] => do let y ← b.toNat?; pure (a, y)
  | _ => none

def thr : Float := 1e-9

/-- Float → Nat for small non-negative integer-valued words -/
def toNat (x : Float) : Nat := x.toUInt64.toNat

def run (op grp : String) (x : Array Float) : Option String :=
  match op with
  | "poly_monoderiv" => some <|
    match parse1 grp 'K' with
    | some K => if x.size = 2 then reply (Poly.monoDeriv K x[0]! (toNat x[1]!)) else "ERR arity"
    | none => "ERR grp"
  | "poly_monoderivs" => some <|
    match parse2 grp 'K' 'P' with
    | some (K, P) => if x.size = 1 then reply (Poly.flatten (Poly.monoDerivs K P x[0]!)) else "ERR arity"
    | none => "ERR grp"
  | "poly_lagrange" => some <|
    match parse1 grp 'K' with
    | some K => if x.size = K + 1 then reply (Poly.flatten (Poly.lagrange K x.toList)) else "ERR arity"
    | none => "ERR grp"
  | "poly_basisderivs" => some <|
    match parse2 grp 'K' 'N' with
    | some (K, N) =>
      if x.size = (K+1)*(K+1) + N then
        let B : Poly.Tab Float := Poly.ofFn (K+1) (K+1) fun i j => x[i*(K+1)+j]!
        let ts : List Float := (List.range N).map fun j => x[(K+1)*(K+1)+j]!
        reply (Poly.flatten (Poly.basisDerivatives K B ts))
      else "ERR arity"
    | none => "ERR grp"
  | "poly_intabs" => some <|
    if x.size = 5 then reply [Poly.integrateAbs thr x[0]! x[1]! x[2]! x[3]! x[4]!] else "ERR arity"
  | "search_f64" | "search_int" => some <|
    if x.size = 0 then "ERR arity"
    else
      let o := Search.searchInterp (x.extract 1 x.size) x[0]!
      reply [Float.ofNat o.idx, Float.ofNat o.iters, Float.ofNat o.calls, Float.ofNat o.chk]
  | "search2_f64" | "search2_int" => some <|
    if x.size = 0 then "ERR arity"
    else reply [Float.ofNat (Search.searchInterp (x.extract 1 x.size) x[0]!).idx]
  | "poly_basis" => some <|
    match parseColon grp with
    | some (b, K) =>
      match Poly.Basis.ofString? b with
      | some bb => reply (Poly.flatten (Poly.basis (α := Float) bb K))
      | none => "ERR basis"
    | none => "ERR grp"
  | "poly_cumbasis" => some <|
    match parseColon grp with
    | some (b, K) =>
      match Poly.Basis.ofString? b with
      | some bb => reply (Poly.flatten (Poly.cumulativeBasis (α := Float) bb K))
      | none => "ERR basis"
    | none => "ERR grp"
  | "poly_monint" => some <|
    match grp.splitOn ":" with
    | [a, b] =>
      match a.toNat?, b.toNat? with
      | some K, some P => reply (Poly.flatten (Poly.monomialIntegral (α := Float) K P))
      | _, _ => "ERR grp"
    | _ => "ERR grp"
  | "poly_lgr" => some <|
    match grp.toNat? with
    | some K => let r := Poly.lgrNodes (α := Float) K; reply (r.1 ++ r.2)
    | none => "ERR grp"
  | _ => none

end PolyOps

def runPoly (op grp prec : String) (args : Array String) : Option String :=
  if op.startsWith "poly_" || op == "search_f64" || op == "search_int" || op == "search2_f64" || op == "search2_int" then
    if prec == "f64" then PolyOps.run op grp (args.map Bits.ofHex) else some "ERR bad-prec"
  else none

end Drv
