/-
  Driver/OpsFit.lean — driver ops of the "Fit" unit (property C14): `fit_*`, `dub_*`, `rep_*`.
  All ops are served at `f64` (the implementation is `double` only).

    fit_tab   <spec>           -                              → U0tB, U1tB ((D+1)×(K+1)) [, P ((K+1)²)]
    fit_rows  <spec>:<N>       dt[N] dx[N] left[nl] right[nr] → N_eq N_coef, A dense row-major, b
    fit_resid <spec>:<N>       dt dx left right x[N_coef]     → (row·x − rhs) for every row
    fit_kkt   <spec>:<N>       dt dx left right               → n, H dense (n×n, as inserted: full symmetric), rhs
    fit_glue  <G>:<spec>:<N>   ts[N] gs[N·rep] V[dof·(K+1)(N−1)] → per segment: t_mid, c(t_mid)[rep]
    fit_bsp   <K>              t0 t1 dt                       → NumPts t_min t_max
    dub_word  3                x y qz qw R                    → six candidates (3 each), word(3), lengths(3),
                                                                 emitted (vx vy κ T)×3, total time
    rep_run   <dof>:<N>        s0 sf, (vel acc)[N+1 grid points 0..N], vmin vmax amin amax, start end,
                               (y_opt status)[N]              → T, n_seg, v2end, v2max[0..N], LP rows (3·(1+3·dof) per
                                                                 grid point), (dt c1 c2 s0)*
    rep_lp    <n>              rows (a b c)[n]                → exact optimum of max y s.t. a·y + b·a' ≤ c, status
  `rep_run` takes the LP results as the parameter (the plugin obtains them from the implementation's
  `lp2d::solve` on exactly the rows this model emits); `rep_lp` is the exact rational LP used to
  audit `lp2d::solve` (vertex enumeration).
-/
import SmoothModel
import SmoothModel.Fit
import SmoothModel.Dubins
import SmoothModel.Reparam
import Driver.Ops

open Scalar Lin

namespace Drv
namespace FitOps

abbrev F := Float

def hexs (xs : List F) : String := " ".intercalate (xs.map Bits.toHex)

def parseArgs (args : Array String) : Array F := args.map Bits.ofHex

def slice (x : Array F) (off len : Nat) : List F := (List.range len).map (fun i => x.getD (off + i) 0.0)

def tau : F := 1e-21

def specNb (s : Fit.Spec) : Nat × Nat := (s.leftDeg.length, s.rghtDeg.length)

/-- split the common input block `dt dx left right` -/
def splitIn (s : Fit.Spec) (N : Nat) (x : Array F) : List F × List F × List F × List F :=
  let (nl, nr) := specNb s
  (slice x 0 N, slice x N N, slice x (2 * N) nl, slice x (2 * N + nl) nr)

def fitTab (s : Fit.Spec) : List F :=
  let D := s.D
  let K := s.K
  let u0 := (List.range (D + 1)).flatMap (fun d => (List.range (K + 1)).map (fun j => (Fit.u0tB K d j : F)))
  let u1 := (List.range (D + 1)).flatMap (fun d => (List.range (K + 1)).map (fun j => (Fit.u1tB K d j : F)))
  let p := match s.optDeg with
    | some O => (matToArray (Fit.costP (α := F) K O)).toList
    | none => []
  u0 ++ u1 ++ p

def denseRow (nC : Nat) (r : Fit.Row F) : List F :=
  let a := r.ent.foldl (fun (acc : Array F) e => if e.1 < nC then acc.set! e.1 (acc[e.1]! + e.2) else acc)
    (Array.replicate nC 0.0)
  a.toList

def fitRows (s : Fit.Spec) (N : Nat) (x : Array F) : List F :=
  let (dt, dx, lv, rv) := splitIn s N x
  let rs := (Fit.rows s dt dx lv rv).map (Fit.pruneRow tau)
  let nC := s.nCoef N
  [Float.ofNat (s.nEq N), Float.ofNat nC, Float.ofNat rs.length]
    ++ rs.flatMap (denseRow nC) ++ rs.map (·.rhs)

def fitResid (s : Fit.Spec) (N : Nat) (x : Array F) : List F :=
  let (dt, dx, lv, rv) := splitIn s N x
  let (nl, nr) := specNb s
  let off := 2 * N + nl + nr
  let xv : Nat → F := fun c => x.getD (off + c) 0.0
  (Fit.rows s dt dx lv rv).map (fun r => Fit.rowDot (Fit.pruneRow tau r) xv - r.rhs)

def fitKkt (s : Fit.Spec) (N : Nat) (x : Array F) : Except String (List F) :=
  match s.optDeg with
  | none => .error "spec has no optimisation"
  | some O =>
    let (dt, dx, lv, rv) := splitIn s N x
    let n := s.nCoef N + s.nEq N
    let ents := Fit.kktEntries s O tau dt dx lv rv
    let H := ents.foldl (fun (acc : Array F) e =>
      let (r, c, v) := e
      if r < n ∧ c < n then acc.set! (r * n + c) v else acc) (Array.replicate (n * n) 0.0)
    .ok ([Float.ofNat n] ++ H.toList ++ Fit.kktRhs s dt dx lv rv)

/-- fit_glue over a group model -/
def fitGlue (G : LieModel F) (s : Fit.Spec) (N : Nat) (x : Array F) : Except String (List F) := do
  let K := s.K
  let nV := G.dof * (K + 1) * (N - 1)
  if x.size ≠ N + N * G.rep + nV then throw s!"arity: got {x.size} want {N + N * G.rep + nV}"
  let ts := slice x 0 N
  let gs : List (Vec F G.rep) := (List.range N).map (fun i => memoV (ofArray G.rep x (N + i * G.rep)))
  let offV := N + N * G.rep
  let V : Fin G.dof → Nat → F := fun k c => x.getD (offV + k.val * ((K + 1) * (N - 1)) + c) 0.0
  let segs := Fit.fitSegs G K ts gs V
  let ends := Fit.endTimes (segs.map (·.dt))
  let starts := (0.0 : F) :: ends
  let out := ((segs.zip (starts.zip ends))).flatMap (fun p =>
    let ta := p.2.1
    let tb := p.2.2
    let tm := ta + 0.5 * (tb - ta)
    tm :: (toArray (Fit.evalSeg G p.1 ta tb tm)).toList)
  return out

def truncF (x : F) : Nat := x.toUInt64.toNat

def fitBsp (K : Nat) (x : Array F) : Except String (List F) := do
  if x.size ≠ 3 then throw "arity"
  let t0 := x[0]!
  let t1 := x[1]!
  let dt := x[2]!
  return [Float.ofNat (Fit.bsplineNumPts truncF K t0 t1 dt), t0, Fit.bsplineTmax truncF K t0 t1 dt]

def t3 (p : F × F × F) : List F := [p.1, p.2.1, p.2.2]

def dubWord (x : Array F) : Except String (List F) := do
  if x.size ≠ 5 then throw "arity"
  let target : Vec F 4 := memoV (ofArray 4 x)
  let R := x[4]!
  let cs := Dubins.candidates target R
  let six := cs.flatMap (fun c => t3 c.l)
  match (Dubins.scan (fun a b => decide (a < b)) (Dubins.inf : F) cs).2 with
  | none => return six ++ [0.0 / 0.0]
  | some c =>
    let em := Dubins.emit R c
    return six ++ [Float.ofNat c.w.1.code, Float.ofNat c.w.2.1.code, Float.ofNat c.w.2.2.code] ++ t3 c.l
      ++ em.flatMap (fun e => [e.vx, e.vy, e.kappa, e.T]) ++ [Dubins.totalTime em]

-- ---------------------------------------------------------------- exact 2-d LP (parameter of rep_run)

def ratOf (x : F) : Rat := Oracle.ratOfBits64 x.toBits

/-- is there an `a` with all rows satisfied at this `y`? -/
def feasibleAt (rows : List (Rat × Rat × Rat)) (y : Rat) : Bool :=
  let ok0 := rows.all (fun r => r.2.1 != (0 : Rat) || decide (r.1 * y ≤ r.2.2))
  let ub := rows.foldl (fun (acc : Option Rat) r =>
    if (0 : Rat) < r.2.1 then
      let v := (r.2.2 - r.1 * y) / r.2.1
      match acc with | none => some v | some u => some (if v < u then v else u)
    else acc) none
  let lb := rows.foldl (fun (acc : Option Rat) r =>
    if r.2.1 < (0 : Rat) then
      let v := (r.2.2 - r.1 * y) / r.2.1
      match acc with | none => some v | some u => some (if v > u then v else u)
    else acc) none
  ok0 && (match lb, ub with | some l, some u => decide (l ≤ u) | _, _ => true)

/-- maximise `y` subject to `a_k y + b_k a ≤ c_k`; (0,0) is assumed feasible.
    Returns (y*, status) with status 0 = optimal, 2 = unbounded. -/
def lpExact (rows : List (Rat × Rat × Rat)) : Rat × Nat :=
  -- unbounded iff a recession direction (1, t) exists
  let rec0 := rows.all (fun r => r.2.1 != (0 : Rat) || decide (r.1 ≤ (0 : Rat)))
  let ubT := rows.foldl (fun (acc : Option Rat) r =>
    if (0 : Rat) < r.2.1 then let v := -r.1 / r.2.1
      match acc with | none => some v | some u => some (if v < u then v else u) else acc) none
  let lbT := rows.foldl (fun (acc : Option Rat) r =>
    if r.2.1 < (0 : Rat) then let v := -r.1 / r.2.1
      match acc with | none => some v | some u => some (if v > u then v else u) else acc) none
  let unb := rec0 && (match lbT, ubT with | some l, some u => decide (l ≤ u) | _, _ => true)
  if unb then ((0 : Rat), 2) else
  let singles := rows.filterMap (fun r => if r.2.1 == (0 : Rat) && r.1 != (0 : Rat) then some (r.2.2 / r.1) else none)
  let pairs := rows.flatMap (fun r1 => rows.filterMap (fun r2 =>
    let det := r1.1 * r2.2.1 - r2.1 * r1.2.1
    if det == (0 : Rat) then none else some ((r1.2.2 * r2.2.1 - r2.2.2 * r1.2.1) / det)))
  let best := (singles ++ pairs).foldl (fun (acc : Rat) y =>
    if y > acc && feasibleAt rows y then y else acc) (0 : Rat)
  (best, 0)

def rowsOfArray (x : Array F) (n : Nat) : List (Rat × Rat × Rat) :=
  (List.range n).map (fun i => (ratOf (x.getD (3 * i) 0.0), ratOf (x.getD (3 * i + 1) 0.0), ratOf (x.getD (3 * i + 2) 0.0)))

/-- `rep_lp <n>`: exact optimum of `max y` over the rows → (y*, status) -/
def repLp (n : Nat) (x : Array F) : Except String (List F) := do
  if x.size ≠ 3 * n then throw "arity"
  let r := lpExact (rowsOfArray x n)
  return [Oracle.ratToFloat r.1, Float.ofNat r.2]

def repRun (dof N : Nat) (x : Array F) : Except String (List F) := do
  let want := 2 + (N + 1) * 2 * dof + 4 * dof + 2 + 2 * N
  if x.size ≠ want then throw s!"arity: got {x.size} want {want}"
  let s0 := x[0]!
  let sf := x[1]!
  let samples : List (Reparam.Sample F dof) := (List.range (N + 1)).map (fun i =>
    ⟨memoV (ofArray dof x (2 + i * 2 * dof)), memoV (ofArray dof x (2 + i * 2 * dof + dof))⟩)
  let ob := 2 + (N + 1) * 2 * dof
  let b : Reparam.Bounds F dof :=
    ⟨memoV (ofArray dof x ob), memoV (ofArray dof x (ob + dof)), memoV (ofArray dof x (ob + 2 * dof)),
     memoV (ofArray dof x (ob + 3 * dof))⟩
  let sv := x[ob + 4 * dof]!
  let ev := x[ob + 4 * dof + 1]!
  let ol := ob + 4 * dof + 2
  let lpres : List (F × F × Nat) := (List.range N).map (fun i =>
    (x.getD (ol + 2 * i) 0.0, 0.0, truncF (x.getD (ol + 2 * i + 1) 0.0)))
  let ds := (sf - s0) / Float.ofNat N
  match samples.getLast? with
  | none => throw "no samples"
  | some pEnd =>
    let grid := samples.take N
    let v2end := Reparam.endV2 b ev pEnd
    let v2max := Reparam.backward lpres v2end
    let rows := Reparam.lpRowsAll b ds v2max grid
    let segs := Reparam.forward b s0 ds sv v2max grid
    return [Reparam.totalTime segs, Float.ofNat segs.length, v2end] ++ v2max
      ++ rows.flatMap (fun rs => rs.flatMap t3)
      ++ segs.flatMap (fun sg => [sg.dt, sg.c1, sg.c2, sg.s0])

def natOf (s : String) : Nat := s.toNat?.getD 0

def reply (r : Except String (List F)) : String :=
  match r with
  | .ok xs => hexs xs
  | .error e => "ERR " ++ e

end FitOps

open FitOps in
def runFit (op grp prec : String) (args : Array String) : Option String :=
  if !(op.startsWith "fit_" || op.startsWith "dub_" || op.startsWith "rep_") then none
  else if prec != "f64" then some "ERR bad-prec"
  else
    let x := parseArgs args
    let parts := grp.splitOn ":"
    match op with
    | "fit_tab" =>
      match Fit.Spec.ofName grp with
      | some s => some (hexs (fitTab s))
      | none => some "ERR unknown-spec"
    | "fit_rows" | "fit_resid" | "fit_kkt" =>
      match parts with
      | [sn, n] =>
        match Fit.Spec.ofName sn with
        | some s =>
          let N := natOf n
          let (nl, nr) := specNb s
          let base := 2 * N + nl + nr
          if op == "fit_resid" then
            if x.size ≠ base + s.nCoef N then some "ERR arity" else some (hexs (fitResid s N x))
          else if x.size ≠ base then some "ERR arity"
          else if op == "fit_rows" then some (hexs (fitRows s N x))
          else some (reply (fitKkt s N x))
        | none => some "ERR unknown-spec"
      | _ => some "ERR bad-grp"
    | "fit_glue" =>
      match parts with
      | [g, sn, n] =>
        match Fit.Spec.ofName sn, groupOf (α := Float) g with
        | some s, some G => some (reply (fitGlue G s (natOf n) x))
        | _, _ => some "ERR unknown-spec-or-group"
      | _ => some "ERR bad-grp"
    | "fit_bsp" => some (reply (fitBsp (natOf grp) x))
    | "dub_word" => some (reply (dubWord x))
    | "rep_run" =>
      match parts with
      | [d, n] => some (reply (repRun (natOf d) (natOf n) x))
      | _ => some "ERR bad-grp"
    | "rep_lp" => some (reply (repLp (natOf grp) x))
    | _ => some "ERR unknown-op"

end Drv
