/-
  Driver/OpsSpline.lean — driver ops of the cumulative-spline / BSpline unit (C11, C13).

  Model ops (prec f64 | f32), words are IEEE bit patterns, `K`, `N` are sent as floating words:
    cs_eval_vs  G  K Bcum[(K+1)²] u vs[K·dof]        → g vel acc jer
    cs_eval_gs  G  K Bcum u gs[(K+1)·rep]            → g vel acc jer vs[K·dof]
    cs_dg_dvs   G  K Bcum u vs[K·dof]                → dg_dvs dvel_dvs dacc_dvs   (row-major, dof × dof·K)
    cs_dg_dgs   G  K Bcum u gs[(K+1)·rep]            → dg_dgs dvel_dgs dacc_dgs   (dof × dof·(K+1))
    bs_eval     G  K Bcum t0 dt t ctrl[N·rep]        → g vel acc
    bs_tminmax  _  K N t0 dt                         → t_min t_max
    bs_select   _  K N t0 dt t                       → istar u              (diagnostic)
  Audit ops (prec f64a) are in the second half of the file.
-/
import SmoothModel
import Driver.Ops
import Driver.Audit

open Scalar Lin

namespace Drv
namespace Spl

variable {α : Type} [Scalar α] [ScalarTrunc α]

def natOf (x : α) : Nat := (ScalarTrunc.trunc x).toNat

def flat3 {G : LieModel α} (a b c : List (Mat α G.dof G.dof)) : Array α :=
  CSpline.blocksToArray G.dof a ++ CSpline.blocksToArray G.dof b ++ CSpline.blocksToArray G.dof c

@[specialize] def runModel (G : LieModel α) (op : String) (x : Array α) : Option (Except String (Array α)) :=
  let K := natOf (g0 x 0)
  let nb := (K + 1) * (K + 1)
  let B : Mat α (K + 1) (K + 1) := memoM (matOfArray (K + 1) (K + 1) x 1)
  match op with
  | "cs_eval_vs" => some (do
      if K = 0 then throw "K=0"
      need x (2 + nb + K * G.dof)
      let vs : Fin K → Vec α G.dof := fun j => memoV (ofArray G.dof x (2 + nb + j.val * G.dof))
      let s := CSpline.eval_vs G vs B (g0 x (1 + nb))
      return toArray s.g ++ toArray s.vel ++ toArray s.acc ++ toArray s.jer)
  | "cs_dg_dvs" => some (do
      if K = 0 then throw "K=0"
      need x (2 + nb + K * G.dof)
      let vs : Fin K → Vec α G.dof := fun j => memoV (ofArray G.dof x (2 + nb + j.val * G.dof))
      let s := CSpline.eval_dg_dvs G vs B (g0 x (1 + nb))
      return flat3 s.dg s.dvel s.dacc)
  | "cs_eval_gs" => some (do
      if K = 0 then throw "K=0"
      need x (2 + nb + (K + 1) * G.rep)
      let gs : Fin (K + 1) → Vec α G.rep := fun j => memoV (ofArray G.rep x (2 + nb + j.val * G.rep))
      let s := CSpline.eval_gs G gs B (g0 x (1 + nb))
      let vs := (List.finRange K).foldl (fun a j => a ++ toArray (CSpline.diffs G gs j)) #[]
      return toArray s.g ++ toArray s.vel ++ toArray s.acc ++ toArray s.jer ++ vs)
  | "cs_dg_dgs" => some (do
      if K = 0 then throw "K=0"
      need x (2 + nb + (K + 1) * G.rep)
      let gs : Fin (K + 1) → Vec α G.rep := fun j => memoV (ofArray G.rep x (2 + nb + j.val * G.rep))
      let s := CSpline.eval_dg_dgs G gs B (g0 x (1 + nb))
      return flat3 s.dg s.dvel s.dacc)
  | "bs_eval" => some (do
      if K = 0 then throw "K=0"
      let rem := x.size - (4 + nb)
      if x.size < 4 + nb + (K + 1) * G.rep || rem % G.rep ≠ 0 then throw "arity"
      let N := rem / G.rep
      let ctrl : List (Vec α G.rep) := (List.range N).map (fun j => memoV (ofArray G.rep x (4 + nb + j * G.rep)))
      let o := BSpline.eval G K B (g0 x (1 + nb)) (g0 x (2 + nb)) ctrl (g0 x (3 + nb))
      return toArray o.g ++ toArray o.vel ++ toArray o.acc)
  | "bs_tminmax" => some (do
      need x 4
      let N := natOf (g0 x 1)
      return #[BSpline.t_min (g0 x 2), BSpline.t_max K N (g0 x 2) (g0 x 3)])
  | "bs_select" => some (do
      need x 5
      let N := natOf (g0 x 1)
      let s := BSpline.select K N (g0 x 2) (g0 x 3) (g0 x 4)
      return #[nat s.1, s.2])
  | _ => none

@[specialize] def runNum (op grp : String) (x : Array α) : Option (Except String (Array α)) :=
  if !(op.startsWith "cs_" || op.startsWith "bs_") then none else
  match groupOf (α := α) grp with
  | none => some (.error s!"unknown-group {grp}")
  | some G => runModel G op x

end Spl

/-!
## Audit ops (prec `f64a`): exact oracle, independent of the code's recursions

Inputs AND the implementation's outputs come in as bit patterns.  The curve is evaluated from its
definition: `g(u) = [g₀] ∏ⱼ exp(b̃ⱼ(u) v̂ⱼ)` with `b̃ⱼ` the exact rational polynomial given by the
basis matrix, matrix exponentials by power series in 320-bit fixed point (`Oracle.BMat.exp`).
Derivatives with respect to `u` are taken by Leibniz on the product in jet form
(`exp(b(u+h)V) = exp(b(u)V)·exp((b(u+h)−b(u))V)`, truncated at `h³`); body velocity, acceleration,
jerk are the Taylor coefficients of `g⁻¹g'`.  Jacobians are central differences of that oracle
(step `2⁻⁴⁸`, so the truncation error is ~`2⁻⁹⁶`).  The logarithms needed for control points are
solved by a chord-Newton iteration on `exp(ŵ) = g_{i-1}⁻¹ g_i` in fixed point (seed: the Float
model's `rminus`; the seed only selects the branch).

    a_cs_vs   G  K Bcum u vs | g vel acc jer            → err_g err_vel err_acc err_jer
    a_cs_gs   G  K Bcum u gs | g vel acc jer …          → err_g err_vel err_acc err_jer maxRot²
    a_cs_dvs  G  K Bcum u vs | dg dvel dacc             → err_dg err_dvel err_dacc
    a_cs_dgs  G  K Bcum u gs | dg dvel dacc             → err_dg err_dvel err_dacc
    a_bs_val  G  K Bcum t0 dt t ctrl | g vel acc        → err_g err_vel err_acc sameWindow istar u
    a_bs_equiv G h g vel acc g' vel' acc' (dt)          → err_g err_vel err_acc
  Errors are `max|·| / max(1, max|expected|)`; velocities/accelerations of `a_bs_val` are compared
  in `u`-units (multiplied by `dt`, `dt²`).
-/
namespace SplA
open Oracle

abbrev Jet := Array BMat     -- coefficients of h^0 … h^3

def bsmul (c : Int) (A : BMat) : BMat := BMat.ofFn A.n (fun i j => (c * A.get i j) >>> FB)
def bscale (A : BMat) (k : Int) : BMat := BMat.ofFn A.n (fun i j => k * A.get i j)
def bshl (A : BMat) (s : Nat) : BMat := BMat.ofFn A.n (fun i j => A.get i j <<< s)
def fx (q : Rat) : Int := BigFix.ofRat q

def jetMul (a b : Jet) : Jet :=
  let n := (a.getD 0 default).n
  Array.ofFn (n := 4) (fun d =>
    (List.range (d.val + 1)).foldl (fun s p => s.add ((a.getD p default).mul (b.getD (d.val - p) default)))
      (BMat.ofFn n (fun _ _ => 0)))

def jetConst (A : BMat) : Jet :=
  let Z := BMat.ofFn A.n (fun _ _ => 0)
  #[A, Z, Z, Z]

/-- `d^p/du^p` of the polynomial `Σ_r u^r B[r][j]` at `u`, exactly -/
def polyDeriv (K : Nat) (B : Array Rat) (j p : Nat) (u : Rat) : Rat :=
  (List.range (K + 1)).foldl (fun s r =>
    if r < p then s else
      let ff : Nat := (List.range p).foldl (fun a t => a * (r - t)) 1
      s + (ff : Rat) * u ^ (r - p) * B.getD (r * (K + 1) + j) 0) 0

def hatB (G : LieModel Rat) (w : Array Rat) : BMat :=
  BMat.ofRMat (RMat.ofMat (G.hat (ofArray G.dof w)))

/-- jet of `exp(b(u+h) V)` given `b^{(0..3)}(u)` and `v` -/
def factorJet (G : LieModel Rat) (b : Array Rat) (v : Array Rat) : Jet :=
  let V := hatB G v
  let E0 := BMat.exp (hatB G (v.map (· * b.getD 0 0)))
  let c1 := b.getD 1 0
  let c2 := b.getD 2 0 / 2
  let c3 := b.getD 3 0 / 6
  let V2 := V.mul V
  let V3 := V2.mul V
  let j1 := bsmul (fx c1) V
  let j2 := (bsmul (fx c2) V).add (bsmul (fx (c1 * c1 / 2)) V2)
  let j3 := ((bsmul (fx c3) V).add (bsmul (fx (c1 * c2)) V2)).add (bsmul (fx (c1 * c1 * c1 / 6)) V3)
  #[E0, E0.mul j1, E0.mul j2, E0.mul j3]

/-- `exp(−b v̂)` -/
def factorInv (G : LieModel Rat) (b0 : Rat) (v : Array Rat) : BMat :=
  BMat.exp (hatB G (v.map (· * (-b0))))

/-- Taylor coefficients `Ω₀, Ω₁, Ω₂` of `g⁻¹g'` from the jet of `g` and `g₀⁻¹`:
    body velocity `Ω₀`, acceleration `Ω₁`, jerk `2Ω₂` -/
def omegas (g : Jet) (g0inv : BMat) : BMat × BMat × BMat :=
  let A1 := g0inv.mul (g.getD 1 default)
  let A2 := g0inv.mul (g.getD 2 default)
  let A3 := g0inv.mul (g.getD 3 default)
  let A11 := A1.mul A1
  let O0 := A1
  let O1 := (bscale A2 2).sub A11
  let O2 := (((bscale A3 3).sub (bscale (A1.mul A2) 2)).sub (A2.mul A1)).add (A11.mul A1)
  (O0, O1, bscale O2 2)

def errM (A : RMat) (B : BMat) (scale : Rat := 1) : Float :=
  let Br := B.toRMat
  let d := (A.sub Br).maxAbs
  let s := Br.maxAbs
  let s := if s < scale then scale else s
  ratToFloat (d / s)

def hatR (G : LieModel Rat) (x : Array Rat) (off : Nat) : RMat := RMat.ofMat (G.hat (ofArray G.dof x off))
def matR (G : LieModel Rat) (x : Array Rat) (off : Nat) : RMat := RMat.ofMat (G.matrix (ofArray G.rep x off))

/-- everything the oracle knows about the curve with differences `vs` (and an optional anchor) -/
structure Curve where
  jets : Array Jet          -- factor jets
  invs : Array BMat         -- exp(−b_j v̂_j)
  pre : Array Jet           -- pre[j] = ∏_{i<j} jets[i]   (size K+1)
  suf : Array Jet           -- suf[j] = ∏_{i≥j} jets[i]   (size K+1)
  preInv : Array BMat       -- preInv[j] = (∏_{i<j} E_i)⁻¹ = E_{j-1}⁻¹ ⋯ E_0⁻¹
  sufInv : Array BMat       -- sufInv[j] = (∏_{i≥j} E_i)⁻¹
  deriving Inhabited

def bvalsR (K : Nat) (B : Array Rat) (u : Rat) (j : Nat) : Array Rat :=
  #[polyDeriv K B (j + 1) 0 u, polyDeriv K B (j + 1) 1 u, polyDeriv K B (j + 1) 2 u, polyDeriv K B (j + 1) 3 u]

def mkCurve (G : LieModel Rat) (K : Nat) (B : Array Rat) (u : Rat) (vs : Array (Array Rat)) : Curve := Id.run do
  let n := G.dim
  let I := BMat.ident n
  let jets : Array Jet := Array.ofFn (n := K) (fun j => factorJet G (bvalsR K B u j.val) (vs.getD j.val #[]))
  let invs : Array BMat := Array.ofFn (n := K) (fun j => factorInv G (polyDeriv K B (j.val + 1) 0 u) (vs.getD j.val #[]))
  let mut pre : Array Jet := #[jetConst I]
  let mut preInv : Array BMat := #[I]
  for j in [0:K] do
    pre := pre.push (jetMul (pre.getD j default) (jets.getD j default))
    preInv := preInv.push ((invs.getD j default).mul (preInv.getD j default))
  let mut sufR : Array Jet := #[jetConst I]       -- reversed: sufR[k] = ∏_{i ≥ K-k}
  let mut sufInvR : Array BMat := #[I]
  for k in [0:K] do
    let j := K - 1 - k
    sufR := sufR.push (jetMul (jets.getD j default) (sufR.getD k default))
    sufInvR := sufInvR.push ((sufInvR.getD k default).mul (invs.getD j default))
  let suf := Array.ofFn (n := K + 1) (fun j => sufR.getD (K - j.val) default)
  let sufInv := Array.ofFn (n := K + 1) (fun j => sufInvR.getD (K - j.val) default)
  return ⟨jets, invs, pre, suf, preInv, sufInv⟩

def Curve.g (c : Curve) : Jet := c.suf.getD 0 default
def Curve.ginv (c : Curve) : BMat := c.sufInv.getD 0 default

/-- the curve with factor `j` replaced by differences `v'` -/
def Curve.replace (c : Curve) (G : LieModel Rat) (K : Nat) (B : Array Rat) (u : Rat) (j : Nat) (v : Array Rat) :
    Jet × BMat :=
  let F := factorJet G (bvalsR K B u j) v
  let Fi := factorInv G (polyDeriv K B (j + 1) 0 u) v
  (jetMul (jetMul (c.pre.getD j default) F) (c.suf.getD (j + 1) default),
   ((c.sufInv.getD (j + 1) default).mul Fi).mul (c.preInv.getD j default))

def splitVs (x : Array Rat) (off K dof : Nat) : Array (Array Rat) :=
  Array.ofFn (n := K) (fun j => x.extract (off + j.val * dof) (off + (j.val + 1) * dof))

-- ------------------------------------------------------------------ logarithm by chord iteration
def logNear (X : BMat) : BMat := Id.run do
  -- log(I + X) = Σ_{k≥1} (−1)^{k+1} X^k / k, 14 terms (‖X‖ ≲ 1e-6 at the last iterations)
  let mut P := X
  let mut S := X
  for k in [2:15] do
    P := P.mul X
    let T := P.divNat k
    S := if k % 2 == 0 then S.sub T else S.add T
  return S

def gridR (q : Rat) : Rat := BigFix.toRat (BigFix.ofRat q)

def veeR (G : LieModel Rat) (L : BMat) : Array Rat :=
  let Lr := L.toRMat
  toArray (G.vee (.of (fun i j => Lr.get i.val j.val)))

/-- `J_r(w)⁻¹` by the oracle's own series -/
def jrInv (G : LieModel Rat) (w : Array Rat) : RMat :=
  let J := (BMat.jacSeries (BMat.ofRMat (RMat.ofMat (G.ad (ofArray G.dof w))))).toRMat
  match J.inverse with
  | some Ji => RMat.ofFn Ji.n Ji.m (fun i j => gridR (Ji.get i j))
  | none => RMat.ident G.dof

/-- solve `exp(ŵ) = T` near `w0` -/
def chordLog (G : LieModel Rat) (Jinv : RMat) (T : BMat) (w0 : Array Rat) (iters : Nat) : Array Rat := Id.run do
  let mut w := w0
  let I := BMat.ident T.n
  for _ in [0:iters] do
    let E := BMat.exp (hatB G (w.map (fun x => -x)))
    let X := (E.mul T).sub I
    let d := veeR G (logNear X)
    let step := (Jinv.mul (colVec d)).a
    w := Array.ofFn (n := w.size) (fun i => gridR (w.getD i.val 0 + step.getD i.val 0))
  return w

def bInverse (M : RMat) : BMat :=
  match M.inverse with
  | some Mi => BMat.ofRMat Mi
  | none => BMat.ident M.n

/-- high-precision differences `w_j = log(M_{j-1}⁻¹ M_j)`, seeds from the Float model -/
structure Logs where
  Ms : Array BMat
  Minvs : Array BMat
  Ts : Array BMat
  ws : Array (Array Rat)
  Jinvs : Array RMat
  deriving Inhabited

def floatSeeds (d : GDesc) (nPts : Nat) (xf : Array Float) (off : Nat) : Array (Array Rat) :=
  let Gf : LieModel Float := GDesc.model d
  Array.ofFn (n := nPts - 1) (fun j =>
    let a : Vec Float Gf.rep := ofArray Gf.rep xf (off + j.val * Gf.rep)
    let b : Vec Float Gf.rep := ofArray Gf.rep xf (off + (j.val + 1) * Gf.rep)
    (toArray (Gf.rminus b a)).map (fun f => ratOfBits64 f.toBits))

def mkLogs (G : LieModel Rat) (nPts : Nat) (x : Array Rat) (off : Nat) (seeds : Array (Array Rat)) : Logs :=
  let Mr : Array RMat := Array.ofFn (n := nPts) (fun j => matR G x (off + j.val * G.rep))
  let Ms := Mr.map BMat.ofRMat
  let Minvs := Mr.map bInverse
  let Ts : Array BMat := Array.ofFn (n := nPts - 1) (fun j => (Minvs.getD j.val default).mul (Ms.getD (j.val + 1) default))
  let Jinvs : Array RMat := Array.ofFn (n := nPts - 1) (fun j => jrInv G (seeds.getD j.val #[]))
  let ws : Array (Array Rat) := Array.ofFn (n := nPts - 1) (fun j =>
    chordLog G (Jinvs.getD j.val default) (Ts.getD j.val default) (seeds.getD j.val #[]) 3)
  ⟨Ms, Minvs, Ts, ws, Jinvs⟩

/-- squared norm of each rotation part of a tangent vector (injectivity-radius report) -/
def maxRot2 (d : GDesc) (w : Array Rat) : Rat :=
  (rotIdx d 0).foldl (fun m idx =>
    let s := idx.foldl (fun s i => s + (w.getD i 0) ^ 2) 0
    if m < s then s else m) 0

def HSTEP : Nat := 48     -- h = 2^-48

def wideCol (x : Array Rat) (off dof nblk c : Nat) : Array Rat :=
  -- column c of a row-major dof × (dof·nblk) matrix stored at `off`
  Array.ofFn (n := dof) (fun r => x.getD (off + r.val * (dof * nblk) + c) 0)

def maxF (a b : Float) : Float := if a < b then b else a

/-- scale-aware error of a set of matrix differences: max|got − want| / max(1, max|want|) -/
structure ErrAcc where
  d : Rat := 0
  s : Rat := 0
def ErrAcc.add (e : ErrAcc) (got : RMat) (want : BMat) : ErrAcc :=
  let W := want.toRMat
  let dd := (got.sub W).maxAbs
  let ss := W.maxAbs
  ⟨if e.d < dd then dd else e.d, if e.s < ss then ss else e.s⟩
def ErrAcc.val (e : ErrAcc) : Float := ratToFloat (e.d / (if e.s < 1 then 1 else e.s))

def runAuditD (op : String) (d : GDesc) (x : Array Rat) (xf : Array Float) : Except String (Array Float) := do
  let G : LieModel Rat := GDesc.model d
  let K := (x.getD 0 0).floor.toNat
  let nb := (K + 1) * (K + 1)
  let B := x.extract 1 (1 + nb)
  let dof := G.dof
  let rep := G.rep
  match op with
  | "a_cs_vs" =>
    if x.size ≠ 2 + nb + K * dof + rep + 3 * dof then throw "arity"
    let u := x.getD (1 + nb) 0
    let vs := splitVs x (2 + nb) K dof
    let c := mkCurve G K B u vs
    let o := 2 + nb + K * dof
    let (O0, O1, O2) := omegas c.g c.ginv
    return #[errM (matR G x o) (c.g.getD 0 default), errM (hatR G x (o + rep)) O0,
             errM (hatR G x (o + rep + dof)) O1, errM (hatR G x (o + rep + 2 * dof)) O2]
  | "a_cs_gs" =>
    if x.size < 2 + nb + (K + 1) * rep + rep + 3 * dof then throw "arity"
    let u := x.getD (1 + nb) 0
    let off := 2 + nb
    let L := mkLogs G (K + 1) x off (floatSeeds d (K + 1) xf off)
    let c := mkCurve G K B u L.ws
    let o := off + (K + 1) * rep
    let (O0, O1, O2) := omegas c.g c.ginv
    let val := (L.Ms.getD 0 default).mul (c.g.getD 0 default)
    let mr := L.ws.foldl (fun m w => let r := maxRot2 d w; if m < r then r else m) 0
    return #[errM (matR G x o) val, errM (hatR G x (o + rep)) O0,
             errM (hatR G x (o + rep + dof)) O1, errM (hatR G x (o + rep + 2 * dof)) O2, ratToFloat mr]
  | "a_cs_dvs" =>
    if x.size ≠ 2 + nb + K * dof + 3 * dof * dof * K then throw "arity"
    let u := x.getD (1 + nb) 0
    let vs := splitVs x (2 + nb) K dof
    let c := mkCurve G K B u vs
    let o := 2 + nb + K * dof
    let blk := dof * dof * K
    let h : Rat := 1 / (2 : Rat) ^ HSTEP
    let mut eg : ErrAcc := {}
    let mut ev : ErrAcc := {}
    let mut ea : ErrAcc := {}
    for j in [0:K] do
      for k in [0:dof] do
        let vj := vs.getD j #[]
        let vp := vj.mapIdx (fun i a => if i == k then a + h else a)
        let vm := vj.mapIdx (fun i a => if i == k then a - h else a)
        let (gp, gpi) := c.replace G K B u j vp
        let (gm, gmi) := c.replace G K B u j vm
        let W := bshl (c.ginv.mul ((gp.getD 0 default).sub (gm.getD 0 default))) (HSTEP - 1)
        let (P0, P1, _) := omegas gp gpi
        let (M0, M1, _) := omegas gm gmi
        let col := j * dof + k
        eg := eg.add (RMat.ofMat (G.hat (ofArray dof (wideCol x o dof K col)))) W
        ev := ev.add (RMat.ofMat (G.hat (ofArray dof (wideCol x (o + blk) dof K col)))) (bshl (P0.sub M0) (HSTEP - 1))
        ea := ea.add (RMat.ofMat (G.hat (ofArray dof (wideCol x (o + 2 * blk) dof K col)))) (bshl (P1.sub M1) (HSTEP - 1))
    return #[eg.val, ev.val, ea.val]
  | "a_cs_dgs" =>
    if x.size ≠ 2 + nb + (K + 1) * rep + 3 * dof * dof * (K + 1) then throw "arity"
    let u := x.getD (1 + nb) 0
    let off := 2 + nb
    let L := mkLogs G (K + 1) x off (floatSeeds d (K + 1) xf off)
    let c := mkCurve G K B u L.ws
    let o := off + (K + 1) * rep
    let blk := dof * dof * (K + 1)
    let M0 := L.Ms.getD 0 default
    let M0inv := L.Minvs.getD 0 default
    let F0inv := c.ginv.mul M0inv
    let h : Rat := 1 / (2 : Rat) ^ HSTEP
    let mut eg : ErrAcc := {}
    let mut ev : ErrAcc := {}
    let mut ea : ErrAcc := {}
    for i in [0:K + 1] do
      for k in [0:dof] do
        let ek : Array Rat := Array.ofFn (n := dof) (fun t => if t.val == k then h else 0)
        let Ep := BMat.exp (hatB G ek)
        let Em := BMat.exp (hatB G (ek.map (fun a => -a)))
        -- signs: s = +1 uses (Ep on the right of T_i, Em on the left of T_{i+1})
        let eval1 (Er El : BMat) : Jet × BMat × BMat := Id.run do
          -- returns (jet of ∏, its inverse at h=0, anchor matrix)
          let mut ws := L.ws
          if i ≥ 1 then
            let T := (L.Ts.getD (i - 1) default).mul Er
            ws := ws.set! (i - 1) (chordLog G (L.Jinvs.getD (i - 1) default) T (L.ws.getD (i - 1) #[]) 4)
          if i + 1 ≤ K then
            let T := El.mul (L.Ts.getD i default)
            ws := ws.set! i (chordLog G (L.Jinvs.getD i default) T (L.ws.getD i #[]) 4)
          -- rebuild the product (at most two factors changed)
          let c2 := mkCurveFrom c G K B u ws i
          let A := if i == 0 then M0.mul Er else M0
          return (c2.1, c2.2, A)
        let (gp, gpi, Ap) := eval1 Ep Em
        let (gm, gmi, Am) := eval1 Em Ep
        let W := bshl (F0inv.mul ((Ap.mul (gp.getD 0 default)).sub (Am.mul (gm.getD 0 default)))) (HSTEP - 1)
        let (P0, P1, _) := omegas gp gpi
        let (Q0, Q1, _) := omegas gm gmi
        let col := i * dof + k
        eg := eg.add (RMat.ofMat (G.hat (ofArray dof (wideCol x o dof (K + 1) col)))) W
        ev := ev.add (RMat.ofMat (G.hat (ofArray dof (wideCol x (o + blk) dof (K + 1) col)))) (bshl (P0.sub Q0) (HSTEP - 1))
        ea := ea.add (RMat.ofMat (G.hat (ofArray dof (wideCol x (o + 2 * blk) dof (K + 1) col)))) (bshl (P1.sub Q1) (HSTEP - 1))
    return #[eg.val, ev.val, ea.val]
  | "a_bs_val" =>
    -- x = K Bcum t0 dt t ctrl[N·rep] | g vel acc
    let t0 := x.getD (1 + nb) 0
    let dt := x.getD (2 + nb) 0
    let t := x.getD (3 + nb) 0
    let off := 4 + nb
    let rem := x.size - off - (rep + 2 * dof)
    if x.size < off + (K + 1) * rep + rep + 2 * dof || rem % rep ≠ 0 then throw "arity"
    let N := rem / rep
    let sel := BSpline.select (α := Rat) K N t0 dt t
    let selF := BSpline.select (α := Float) K N (xf.getD (1 + nb) 0) (xf.getD (2 + nb) 0) (xf.getD (3 + nb) 0)
    let woff := off + sel.1 * rep
    let L := mkLogs G (K + 1) x woff (floatSeeds d (K + 1) xf woff)
    let c := mkCurve G K B sel.2 L.ws
    let o := off + N * rep
    let (O0, O1, _) := omegas c.g c.ginv
    let val := (L.Ms.getD 0 default).mul (c.g.getD 0 default)
    -- compare in u-units: vel·dt, acc·dt²
    let velU : Array Rat := (x.extract (o + rep) (o + rep + dof)).map (· * dt)
    let accU : Array Rat := (x.extract (o + rep + dof) (o + rep + 2 * dof)).map (· * (dt * dt))
    return #[errM (matR G x o) val, errM (hatR G velU 0) O0, errM (hatR G accU 0) O1,
             (if selF.1 == sel.1 then 1.0 else 0.0), Float.ofNat sel.1, ratToFloat sel.2]
  | "a_bs_equiv" =>
    -- x = h g vel acc g' vel' acc' : M(g') = M(h) M(g), vel' = vel, acc' = acc
    if x.size ≠ 3 * rep + 4 * dof then throw "arity"
    let Mh := matR G x 0
    let Mg := matR G x rep
    let Mg' := matR G x (2 * rep + 2 * dof)
    let v := colVec (x.extract (2 * rep) (2 * rep + dof))
    let a := colVec (x.extract (2 * rep + dof) (2 * rep + 2 * dof))
    let v' := colVec (x.extract (3 * rep + 2 * dof) (3 * rep + 3 * dof))
    let a' := colVec (x.extract (3 * rep + 3 * dof) (3 * rep + 4 * dof))
    return #[relErr Mg' (Mh.mul Mg), relErr v' v, relErr a' a]
  | _ => throw s!"unknown-audit-op {op}"
where
  /-- product jet and inverse for differences `ws` that differ from the base curve `c` only in
      factors `i−1` and `i` -/
  mkCurveFrom (c : Curve) (G : LieModel Rat) (K : Nat) (B : Array Rat) (u : Rat) (ws : Array (Array Rat)) (i : Nat) :
      Jet × BMat :=
    let lo := if i ≥ 1 then i - 1 else 0
    let hi := if i + 1 ≤ K then i + 1 else K      -- factors lo … hi−1 are recomputed
    let mid : Jet × BMat := (List.range (hi - lo)).foldl (fun (acc : Jet × BMat) t =>
      let j := lo + t
      let F := factorJet G (bvalsR K B u j) (ws.getD j #[])
      let Fi := factorInv G (polyDeriv K B (j + 1) 0 u) (ws.getD j #[])
      (jetMul acc.1 F, Fi.mul acc.2)) (jetConst (BMat.ident G.dim), BMat.ident G.dim)
    (jetMul (jetMul (c.pre.getD lo default) mid.1) (c.suf.getD hi default),
     ((c.sufInv.getD hi default).mul mid.2).mul (c.preInv.getD lo default))

end SplA

def runSpline (op grp prec : String) (args : Array String) : Option String :=
  if !(op.startsWith "cs_" || op.startsWith "bs_" || op.startsWith "a_cs_" || op.startsWith "a_bs_") then none else
  if prec == "f64" then
    match Spl.runNum (α := Float) op grp (args.map Bits.ofHex) with
    | some (.ok out) => some (" ".intercalate (out.toList.map Bits.toHex))
    | some (.error e) => some ("ERR " ++ e)
    | none => none
  else if prec == "f32" then
    match Spl.runNum (α := Float32) op grp (args.map Bits.ofHex) with
    | some (.ok out) => some (" ".intercalate (out.toList.map Bits.toHex))
    | some (.error e) => some ("ERR " ++ e)
    | none => none
  else if prec == "f64a" then
    if !op.startsWith "a_" then none else
    if !allFinite prec args then some "NONFINITE" else
    match GDesc.parse grp with
    | none => some "ERR unknown-group"
    | some d =>
      match SplA.runAuditD op d (ratWords prec args) (args.map Bits.ofHex) with
      | .ok out => some (" ".intercalate (out.toList.map fhex))
      | .error e => some ("ERR " ++ e)
  else none

end Drv
