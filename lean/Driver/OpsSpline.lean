/-
  Driver/OpsSpline.lean — driver ops of the "Spline" unit (stub: serves nothing yet).
  Interface: return `none` for requests this unit does not serve, `some reply` otherwise.
-/
import SmoothModel
import Driver.Ops

namespace Drv

def runSpline (_op _grp _prec : String) (_args : Array String) : Option String := none

end Drv
