/-
  Driver/OpsSpline.lean — driver ops of the cumulative-spline / BSpline unit (C11, C13).

  Model ops (prec f64 | f32), words are IEEE bit patterns, `K`, `N` are sent as floating words:
    cs_eval_vs  G  K Bcum[(K+1)²] u vs[K·dof]        → g vel acc jer
    cs_eval_gs  G  K Bcum u gs[(K+1)·rep]            → g vel acc jer vs[K·dof]
    cs_dg_dvs   G  K Bcum u vs[K·dof]                → dg_dvs dvel_dvs dacc_dvs   (row-major, dof × dof·K)
    cs_dg_dgs   G  K Bcum u gs[(K+1)·rep]            → dg_dgs dvel_dgs dacc_dgs   (dof × dof·(K+1))
    bs_eval     G  K Bcum t0 dt t ctrl[N·rep]        → g vel acc
    bs_tminmax  _  K N t0 dt                         → t_min t_max
    bs_select   _  K N t0 dt t                       → istar u              (diagnostic)
  Audit ops (prec f64a) are in the second half of the file.
-/
import SmoothModel
import Driver.Ops
import Driver.Audit

open Scalar Lin

namespace Drv
namespace Spl

variable {α : Type} [Scalar α] [ScalarTrunc α]

def natOf (x : α) : Nat := (ScalarTrunc.trunc x).toNat

def flat3 {G : LieModel α} (a b c : List (Mat α G.dof G.dof)) : Array α :=
  CSpline.blocksToArray G.dof a ++ CSpline.blocksToArray G.dof b ++ CSpline.blocksToArray G.dof c

@[specialize] def runModel (G : LieModel α) (op : String) (x : Array α) : Option (Except String (Array α)) :=
  let K := natOf (g0 x 0)
  let nb := (K + 1) * (K + 1)
  let B : Mat α (K + 1) (K + 1) := memoM (matOfArray (K + 1) (K + 1) x 1)
  match op with
  | "cs_eval_vs" => some (do
      if K = 0 then throw "K=0"
      need x (2 + nb + K * G.dof)
      let vs : Fin K → Vec α G.dof := fun j => memoV (ofArray G.dof x (2 + nb + j.val * G.dof))
      let s := CSpline.eval_vs G vs B (g0 x (1 + nb))
      return toArray s.g ++ toArray s.vel ++ toArray s.acc ++ toArray s.jer)
  | "cs_dg_dvs" => some (do
      if K = 0 then throw "K=0"
      need x (2 + nb + K * G.dof)
      let vs : Fin K → Vec α G.dof := fun j => memoV (ofArray G.dof x (2 + nb + j.val * G.dof))
      let s := CSpline.eval_dg_dvs G vs B (g0 x (1 + nb))
      return flat3 s.dg s.dvel s.dacc)
  | "cs_eval_gs" => some (do
      if K = 0 then throw "K=0"
      need x (2 + nb + (K + 1) * G.rep)
      let gs : Fin (K + 1) → Vec α G.rep := fun j => memoV (ofArray G.rep x (2 + nb + j.val * G.rep))
      let s := CSpline.eval_gs G gs B (g0 x (1 + nb))
      let vs := (List.finRange K).foldl (fun a j => a ++ toArray (CSpline.diffs G gs j)) #[]
      return toArray s.g ++ toArray s.vel ++ toArray s.acc ++ toArray s.jer ++ vs)
  | "cs_dg_dgs" => some (do
      if K = 0 then throw "K=0"
      need x (2 + nb + (K + 1) * G.rep)
      let gs : Fin (K + 1) → Vec α G.rep := fun j => memoV (ofArray G.rep x (2 + nb + j.val * G.rep))
      let s := CSpline.eval_dg_dgs G gs B (g0 x (1 + nb))
      return flat3 s.dg s.dvel s.dacc)
  | "bs_eval" => some (do
      if K = 0 then throw "K=0"
      let rem := x.size - (4 + nb)
      if x.size < 4 + nb + (K + 1) * G.rep || rem % G.rep ≠ 0 then throw "arity"
      let N := rem / G.rep
      let ctrl : List (Vec α G.rep) := (List.range N).map (fun j => memoV (ofArray G.rep x (4 + nb + j * G.rep)))
      let o := BSpline.eval G K B (g0 x (1 + nb)) (g0 x (2 + nb)) ctrl (g0 x (3 + nb))
      return toArray o.g ++ toArray o.vel ++ toArray o.acc)
  | "bs_tminmax" => some (do
      need x 4
      let N := natOf (g0 x 1)
      return #[BSpline.t_min (g0 x 2), BSpline.t_max K N (g0 x 2) (g0 x 3)])
  | "bs_select" => some (do
      need x 5
      let N := natOf (g0 x 1)
      let s := BSpline.select K N (g0 x 2) (g0 x 3) (g0 x 4)
      return #[nat s.1, s.2])
  | _ => none

@[specialize] def runNum (op grp : String) (x : Array α) : Option (Except String (Array α)) :=
  if !(op.startsWith "cs_" || op.startsWith "bs_") then none else
  match groupOf (α := α) grp with
  | none => some (.error s!"unknown-group {grp}")
  | some G => runModel G op x

end Spl

def runSpline (op grp prec : String) (args : Array String) : Option String :=
  if !(op.startsWith "cs_" || op.startsWith "bs_") then none else
  if prec == "f64" then
    match Spl.runNum (α := Float) op grp (args.map Bits.ofHex) with
    | some (.ok out) => some (" ".intercalate (out.toList.map Bits.toHex))
    | some (.error e) => some ("ERR " ++ e)
    | none => none
  else if prec == "f32" then
    match Spl.runNum (α := Float32) op grp (args.map Bits.ofHex) with
    | some (.ok out) => some (" ".intercalate (out.toList.map Bits.toHex))
    | some (.error e) => some ("ERR " ++ e)
    | none => none
  else none

end Drv
