/-
  Driver/OpsDiff.lean — driver ops of the Diff unit (property C08): `diff_dr`, `diff_trace`.

  TYPE token  <family>:<group>:k<K>:<mode>:i<subset|all>:c<const mask>   (see harness/diff.cpp).
  The argument tuple is `X = Array (Array α)`: one flat word array per argument, encoded as in
  Driver/OpsManif.lean (`MT.encode`).  The callable families are modelled with the group models of
  SmoothModel (the same functions C01–C04 are about); `SmoothModel/Diff.lean` runs the schedule.
    diff_dr    → fval ++ J (row-major) [++ H (row-major)] ++ arguments after the call
    diff_trace → the argument tuple at every evaluation of f, in order
-/
import SmoothModel
import SmoothModel.Manifold
import SmoothModel.Diff
import Driver.Ops
import Driver.OpsManif

open Scalar Lin Manif Diff

namespace Drv
variable {α : Type} [Scalar α]

abbrev DX (α : Type) := Array (Array α)

def dxGet (x : DX α) (i : Nat) : Array α := x.getD i #[]

/-- argument `i` of kind `t` as a slot of the tuple -/
def mkSlot (t : MT) (i : Nat) : Slot α (DX α) where
  dof := fun x =>
    match t.decode (dxGet x i) 0 with
    | some (v, _) => (t.man (α := α)).dof v
    | none => 0
  rplus := fun x a =>
    match t.decode (dxGet x i) 0 with
    | some (v, _) => x.setIfInBounds i (t.encode ((t.man (α := α)).rplus v a))
    | none => x
  coord :=
    match t with
    | .grp (.tn _) => some (fun x j => (dxGet x i).getD j (nat 0))      -- Eigen::Vector<N>
    | .vecx => some (fun x j => (dxGet x i).getD (j + 1) (nat 0))        -- Eigen::VectorX (word 0 = size)
    | _ => none

/-- the result type: a Lie group (rminus = log(b⁻¹ ∘ a)) or a vector / scalar ((−b) + a) -/
inductive OutKind where
  | group (d : GDesc)
  | vec

def rmOf (k : OutKind) (a b : Array α) : List α :=
  match k with
  | .group d =>
    let G : LieModel α := GDesc.model d
    listOfVec (G.rminus (memoV (ofArray G.rep a)) (memoV (ofArray G.rep b)))
  | .vec => List.zipWith (fun bi ai => (-bi) + ai) b.toList a.toList

structure Family (α : Type) where
  kinds : List MT
  out : OutKind
  f : DX α → Array α

def half (α : Type) [Scalar α] : α := (nat 1 : α) / (nat 2 : α)

/-- polynomial map of harness/diff.cpp (`Poly`), same operation order -/
def polyEval (m : Nat) (p : Array α) (x : DX α) : Array α :=
  let t := dxGet x 0
  let u := dxGet x 1
  let w := (dxGet x 2).extract 1 (dxGet x 2).size
  let z := t ++ u ++ w
  let N := z.size
  let A (i j : Nat) : α := p.getD (i * N + j) (nat 0)
  let q (i : Nat) : α := p.getD (m * N + i) (nat 0)
  let c (i : Nat) : α := p.getD (m * N + m + i) (nat 0)
  let zz (k : Nat) : α := z.getD (k % N) (nat 0)
  Array.ofFn (n := m) (fun i =>
    let s := (List.range N).foldl (fun s j => s + A i.val j * zz j) (nat 0 : α)
    s / nat 10 + q i.val * zz i.val * zz (i.val + 1) / nat 100
      + c i.val * zz (i.val + 2) * zz (i.val + 2) * zz (i.val + 2) / nat 1000)

def sumLog (G : LieModel α) (a : Array α) : Array α :=
  let n := natOfScalar (a.getD 0 (nat 0))
  let s := (List.range n).foldl
    (fun (s : Vec α G.dof) i => memoV (vadd s (G.log (memoV (ofArray G.rep a (1 + i * G.rep)))))) (vzero G.dof)
  toArray s

def mkFamily (fam grp : String) (params : Array α) : Option (Family α) :=
  if fam == "poly" then
    let m := natOfScalar (params.getD 0 (nat 0))
    some ⟨[.scal, .grp (.tn 3), .vecx], .vec, polyEval m (params.extract 1 params.size)⟩
  else
    match GDesc.parse grp with
    | none => none
    | some d =>
      let G : LieModel α := GDesc.model d
      let g (x : DX α) (i : Nat) : Vec α G.rep := memoV (ofArray G.rep (dxGet x i))
      match fam with
      | "prod" => some ⟨[.grp d, .grp d], .group d, fun x => toArray (G.composition (g x 0) (g x 1))⟩
      | "log" => some ⟨[.grp d], .vec, fun x => toArray (G.log (g x 0))⟩
      | "rminus" => some ⟨[.grp d, .grp d], .vec, fun x => toArray (G.rminus (g x 0) (g x 1))⟩
      | "sqn" => some ⟨[.grp d, .grp d], .vec,
          fun x => #[half α * sqNorm (memoV (G.rminus (g x 0) (g x 1)))]⟩
      | "sumlog" => some ⟨[.vector (.grp d)], .vec, fun x => sumLog G (dxGet x 0)⟩
      | "act" =>
        match grp with
        | "SO3" => some ⟨[.grp .so3, .grp (.tn 3)], .vec,
            fun x => toArray (SO3.act (memoV (ofArray 4 (dxGet x 0))) (ofArray 3 (dxGet x 1)))⟩
        | "SE2" => some ⟨[.grp .se2, .grp (.tn 2)], .vec,
            fun x => toArray (SE2.act (memoV (ofArray 4 (dxGet x 0))) (ofArray 2 (dxGet x 1)))⟩
        | "SE3" => some ⟨[.grp .se3, .grp (.tn 3)], .vec,
            fun x => toArray (SE3.act (memoV (ofArray 7 (dxGet x 0))) (ofArray 3 (dxGet x 1)))⟩
        | _ => none
      | "chain" => some ⟨[.grp .so3, .grp .so3, .grp (.tn 3)], .vec,
          fun x => toArray (SO3.act (memoV (SO3.composition (memoV (ofArray 4 (dxGet x 0)))
            (memoV (ofArray 4 (dxGet x 1))))) (ofArray 3 (dxGet x 2)))⟩
      | _ => none

/-- split the input words into the argument arrays (re-encoded) and the parameters -/
def splitArgs (kinds : List MT) (x : Array α) : Option (DX α × Array α) :=
  let rec go (ks : List MT) (o : Nat) (acc : DX α) : Option (DX α × Nat) :=
    match ks with
    | [] => some (acc, o)
    | t :: r =>
      match t.decode x o with
      | some (v, o1) => go r o1 (acc.push (t.encode v))
      | none => none
  match go kinds 0 #[] with
  | some (a, o) => some (a, x.extract o x.size)
  | none => none

def flatten (x : DX α) : Array α := x.foldl (· ++ ·) #[]

/-- row-major `ny × nx` matrix from the column write log (unwritten entries: NaN) -/
def jacArray (log : List (Nat × List α)) (ny nx : Nat) : Array α :=
  let init : Array α := Array.replicate (ny * nx) (nanOf α)
  log.foldl (fun arr w =>
    (List.range ny).foldl (fun arr i => arr.setIfInBounds (i * nx + w.1) (w.2.getD i (nanOf α))) arr) init

def hessArray (log : List ((Nat × Nat) × α)) (rows cols : Nat) : Array α :=
  let init : Array α := Array.replicate (rows * cols) (nanOf α)
  log.foldl (fun arr w => if w.1.2 < cols then arr.setIfInBounds (w.1.1 * cols + w.1.2) w.2 else arr) init

def parseDigits (s : String) : List Nat := s.toList.map (fun c => c.toNat - '0'.toNat)

@[specialize] def runDiffAt (op : String) (tok : List String) (x : Array α) : Except String (Array α) := do
  match tok with
  | [fam, grp, kS, mode, idxS, _cm] =>
    let K := (kS.drop 1).toString.toNat!
    -- the family's argument kinds do not depend on the parameters
    let some F0 := mkFamily (α := α) fam grp #[] | .error "unknown-family"
    let some (args, params) := splitArgs F0.kinds x | .error "decode-args"
    let some F := mkFamily fam grp params | .error "unknown-family"
    let slotsAll := F.kinds.mapIdx (fun i t => mkSlot (α := α) t i)
    let idxBody := (idxS.drop 1).toString
    let subset := idxBody != "all"
    let idx := if subset then parseDigits idxBody else List.range F.kinds.length
    let analytic := K ≥ 1 && !subset && (mode == "ana" || mode == "def")
    if analytic then .error "analytic-passthrough-not-modelled-here"
    let c : Callable (DX α) (Array α) Unit Unit := { f := F.f, jacobian := none, hessian := none }
    let overwrite (z y : DX α) : DX α := idx.foldl (fun acc i => acc.setIfInBounds i (dxGet y i)) z
    let r ←
      if subset then
        drSubset (α := α) K (if mode == "num" then .numerical else .default) c (rmOf F.out) slotsAll
          (fun y => .ok y) overwrite idx args
      else
        dr (α := α) K (if mode == "num" then .numerical else .default) c (rmOf F.out) slotsAll args
    match r with
    | .value fv =>
      if op == "diff_dr" then return fv ++ flatten args else return flatten args
    | .num1 r1 =>
      if op == "diff_trace" then return r1.trace.foldl (fun a s => a ++ flatten s) #[]
      let ny := match F.out with | .group d => (GDesc.model (α := α) d).dof | .vec => r1.fval.size
      return r1.fval ++ jacArray r1.J ny r1.nx ++ flatten r1.x
    | .num2 r2 =>
      if op == "diff_trace" then return r2.trace.foldl (fun a s => a ++ flatten s) #[]
      let ny := match F.out with | .group d => (GDesc.model (α := α) d).dof | .vec => r2.fval.size
      return r2.fval ++ jacArray r2.J ny r2.nx ++ hessArray r2.H r2.nx (r2.nx * ny) ++ flatten r2.x
    | _ => .error "unexpected-analytic"
  | _ => .error "bad-type-token"

def runDiff (op grp prec : String) (args : Array String) : Option String :=
  if op != "diff_dr" && op != "diff_trace" then none
  else if prec == "f64" then
    match runDiffAt (α := Float) op (grp.splitOn ":") (args.map Bits.ofHex) with
    | .ok out => some (" ".intercalate (out.toList.map Bits.toHex))
    | .error e => some ("ERR " ++ e)
  else if prec == "f32" then
    match runDiffAt (α := Float32) op (grp.splitOn ":") (args.map Bits.ofHex) with
    | .ok out => some (" ".intercalate (out.toList.map Bits.toHex))
    | .error e => some ("ERR " ++ e)
  else some "ERR bad-prec"

end Drv
