/-
  Driver/All.lean — dispatch over all op families.  Each unit owns its `Driver/Ops<Name>.lean`.
-/
import Driver.Ops
import Driver.Audit
import Driver.OpsPoly
import Driver.OpsOptim
import Driver.OpsSpline
import Driver.OpsSplineSM
import Driver.OpsFit
import Driver.OpsMem
import Driver.OpsSparse
import Driver.OpsManif
import Driver.OpsDiff
import Driver.OpsConc
import Driver.OpsConv
import Driver.OpsHist

namespace Drv

/-- numeric helper for unit files: run a polymorphic op at the requested precision -/
def numericReply (prec : String) (args : Array String)
    (f64 : Array Float → Except String (Array Float))
    (f32 : Array Float32 → Except String (Array Float32)) : String :=
  if prec == "f64" then
    match f64 (args.map Bits.ofHex) with
    | .ok out => " ".intercalate (out.toList.map Bits.toHex)
    | .error e => "ERR " ++ e
  else if prec == "f32" then
    match f32 (args.map Bits.ofHex) with
    | .ok out => " ".intercalate (out.toList.map Bits.toHex)
    | .error e => "ERR " ++ e
  else "ERR bad-prec"

def firstSome (fs : List (Unit → Option String)) : Option String :=
  match fs with
  | [] => none
  | f :: r => match f () with
    | some s => some s
    | none => firstSome r

def runAll (op grp prec : String) (args : Array String) : String :=
  match firstSome [
      fun _ => runPoly op grp prec args, fun _ => runOptim op grp prec args,
      fun _ => runSpline op grp prec args, fun _ => runSplineSM op grp prec args, fun _ => runFit op grp prec args,
      fun _ => runMem op grp prec args, fun _ => runSparse op grp prec args,
      fun _ => runManif op grp prec args, fun _ => runDiff op grp prec args,
      fun _ => runConc op grp prec args, fun _ => runConv op grp prec args, fun _ => runHist op grp prec args] with
  | some s => s
  | none =>
    if prec == "f64" then
      match runOp (α := Float) op grp (args.map Bits.ofHex) with
      | .ok out => " ".intercalate (out.toList.map Bits.toHex)
      | .error e => "ERR " ++ e
    else if prec == "f32" then
      match runOp (α := Float32) op grp (args.map Bits.ofHex) with
      | .ok out => " ".intercalate (out.toList.map Bits.toHex)
      | .error e => "ERR " ++ e
    else if prec == "f64a" || prec == "f32a" then
      runAudit op grp prec args
    else "ERR bad-prec"

end Drv
