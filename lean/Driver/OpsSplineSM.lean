/-
  Driver/OpsSplineSM.lean — driver ops of the Spline state-machine unit (C12) (stub).
-/
import SmoothModel
import Driver.Ops

namespace Drv

def runSplineSM (_op _grp _prec : String) (_args : Array String) : Option String := none

end Drv
