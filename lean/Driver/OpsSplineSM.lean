/-
  Driver/OpsSplineSM.lean — driver ops of the Spline state-machine unit (C12).

  One request line = one whole SCRIPT (an operation sequence on a register file of splines):

    spl_script <grp> f64 <K> <(K+1)² words: cumulative basis, row-major> { ; <stmt> }*

  statements (registers are `r<n>`; every operation writes a NEW or overwritten register `dst`):
    empty dst ga | ctor_V dst T V ga | ctor_vs dst T V ga | cv dst v T ga | cvgoal dst gb T ga
    fixedcubic dst gb va vb T ga | concat_local dst a b | concat_global dst a b
    crop dst a ta tb <0|1> | make_local dst a | copy dst a
  probes (each appends one group of words to the reply, groups separated by ` ; `):
    eval a t  → g vel acc | t_max a | start a | end a | size a | arclength a t
  `V` = K control velocities (K·dof words, velocity by velocity), group elements = `rep` words.
  Reply: `w* { ; w* }*` or `ERR msg`.
-/
import SmoothModel
import SmoothModel.Spline
import Driver.Ops

open Scalar Lin

namespace Drv
namespace SplSM

abbrev Spl (L : LieModel Float) := SplineSM.Spline Float (Vec Float L.rep) (Vec Float L.dof)

structure St (L : LieModel Float) where
  regs : List (Nat × Spl L) := []
  out : Array String := #[]

def regOf (s : String) : Except String Nat :=
  match s.toList with
  | 'r' :: ds => if ds.all Char.isDigit && !ds.isEmpty then .ok (String.ofList ds).toNat! else .error s!"bad-register {s}"
  | _ => .error s!"bad-register {s}"

def getReg {L : LieModel Float} (st : St L) (r : Nat) : Except String (Spl L) :=
  match st.regs.find? (fun p => p.1 == r) with
  | some p => .ok p.2
  | none => .error s!"unset-register r{r}"

def setReg {L : LieModel Float} (st : St L) (r : Nat) (s : Spl L) : St L :=
  { st with regs := (r, s) :: st.regs.filter (fun p => p.1 != r) }

def words {n : Nat} (v : Vec Float n) : String := " ".intercalate ((toArray v).toList.map Bits.toHex)

def emit {L : LieModel Float} (st : St L) (s : String) : St L := { st with out := st.out.push s }

/-- the whole state of a spline as text (bit patterns), to compare two model results -/
def dump {L : LieModel Float} (s : Spl L) : String :=
  words s.g0 ++ " | " ++ " | ".intercalate (s.segs.map fun sg =>
    Bits.toHex sg.tEnd ++ " " ++ words sg.gEnd ++ " " ++ " ".intercalate (sg.V.map words) ++ " " ++
      Bits.toHex sg.T0 ++ " " ++ Bits.toHex sg.Del)

def nums (toks : List String) : Array Float := (toks.map (Bits.ofHex (α := Float))).toArray

def needN (a : Array Float) (n : Nat) (what : String) : Except String Unit :=
  if a.size = n then .ok () else .error s!"arity {what}: got {a.size} want {n}"

/-- K control velocities from `K·dof` words -/
def readV (L : LieModel Float) (K : Nat) (a : Array Float) (off : Nat) : List (Vec Float L.dof) :=
  (List.range K).map (fun j => memoV (ofArray L.dof a (off + j * L.dof)))

def step (L : LieModel Float) (K : Nat) (C : SplineSM.Ker Float (Vec Float L.rep) (Vec Float L.dof))
    (st : St L) (stmt : List String) : Except String (St L) := do
  let rep := L.rep
  let dof := L.dof
  match stmt with
  | [] => return st
  | "empty" :: d :: r =>
    let d ← regOf d; let a := nums r; needN a rep "empty"
    return setReg st d (SplineSM.empty (memoV (ofArray rep a)))
  | "ctor_V" :: d :: r =>
    let d ← regOf d; let a := nums r; needN a (1 + K * dof + rep) "ctor_V"
    return setReg st d (SplineSM.ctor C (g0 a 0) (readV L K a 1) (memoV (ofArray rep a (1 + K * dof))))
  | "ctor_vs" :: d :: r =>
    let d ← regOf d; let a := nums r; needN a (1 + K * dof + rep) "ctor_vs"
    return setReg st d (SplineSM.ctorVs C (g0 a 0) (readV L K a 1) (memoV (ofArray rep a (1 + K * dof))))
  | "cv" :: d :: r =>
    let d ← regOf d; let a := nums r; needN a (dof + 1 + rep) "cv"
    return setReg st d (SplineSM.constantVelocity C (memoV (ofArray dof a)) (g0 a dof) (memoV (ofArray rep a (dof + 1))))
  | "cvgoal" :: d :: r =>
    let d ← regOf d; let a := nums r; needN a (rep + 1 + rep) "cvgoal"
    return setReg st d (SplineSM.constantVelocityGoal C (memoV (ofArray rep a)) (g0 a rep) (memoV (ofArray rep a (rep + 1))))
  | "fixedcubic" :: d :: r =>
    let d ← regOf d; let a := nums r; needN a (rep + 2 * dof + 1 + rep) "fixedcubic"
    if K != 3 then throw "fixedcubic needs K=3"
    return setReg st d (SplineSM.fixedCubic C (memoV (ofArray rep a)) (memoV (ofArray dof a rep))
      (memoV (ofArray dof a (rep + dof))) (g0 a (rep + 2 * dof)) (memoV (ofArray rep a (rep + 2 * dof + 1))))
  | ["concat_local", d, x, y] =>
    let d ← regOf d; let x ← getReg st (← regOf x); let y ← getReg st (← regOf y)
    return setReg st d (SplineSM.concatLocal C x y)
  | ["concat_global", d, x, y] =>
    let d ← regOf d; let x ← getReg st (← regOf x); let y ← getReg st (← regOf y)
    return setReg st d (SplineSM.concatGlobal x y)
  | ["crop", d, x, ta, tb, loc] =>
    let d ← regOf d; let x ← getReg st (← regOf x)
    let y := SplineSM.crop C x (Bits.ofHex ta) (Bits.ofHex tb) (loc == "1")
    let y' := SplineSM.cropIdx C x (Bits.ofHex ta) (Bits.ofHex tb) (loc == "1")
    if dump y != dump y' then throw "crop: list form and index form of the model disagree"
    return setReg st d y
  | ["make_local", d, x] =>
    let d ← regOf d; let x ← getReg st (← regOf x)
    return setReg st d (SplineSM.makeLocal C x)
  | ["copy", d, x] =>
    let d ← regOf d; let x ← getReg st (← regOf x)
    return setReg st d x
  | ["eval", x, t] =>
    let x ← getReg st (← regOf x)
    let r := SplineSM.eval C x (Bits.ofHex t)
    return emit st (words r.1 ++ " " ++ words r.2.1 ++ " " ++ words r.2.2)
  | ["t_max", x] =>
    let x ← getReg st (← regOf x)
    return emit st (Bits.toHex (SplineSM.tMax x))
  | ["start", x] =>
    let x ← getReg st (← regOf x)
    return emit st (words (SplineSM.start x))
  | ["end", x] =>
    let x ← getReg st (← regOf x)
    return emit st (words (SplineSM.endG x))
  | ["size", x] =>
    let x ← getReg st (← regOf x)
    return emit st (Bits.toHex (Float.ofNat (SplineSM.size x)))
  | ["arclength", x, t] =>
    let x ← getReg st (← regOf x)
    if K != 3 then throw "arclength needs K=3"
    return emit st (words (SplineSM.arclength C x (Bits.ofHex t)))
  | op :: _ => throw s!"bad-stmt {op}"

/-- split a token list at `;` -/
def splitStmts (toks : List String) : List (List String) :=
  let (cur, acc) := toks.foldl (fun (p : List String × List (List String)) t =>
    if t == ";" then ([], p.1.reverse :: p.2) else (t :: p.1, p.2)) ([], [])
  (cur.reverse :: acc).reverse.filter (fun s => !s.isEmpty)

def runScript (grp : String) (args : Array String) : String :=
  match groupOf (α := Float) grp with
  | none => s!"ERR unknown-group {grp}"
  | some L =>
    match args.toList with
    | [] => "ERR no-K"
    | k :: rest =>
      let K := k.toNat!
      if K == 0 || K > 8 then "ERR bad-K" else
      let nB := (K + 1) * (K + 1)
      let bw := (rest.take nB)
      if bw.length != nB then "ERR short-basis" else
      let B : Mat Float (K + 1) (K + 1) := memoM (matOfArray (K + 1) (K + 1) (nums bw))
      let C := SplineSM.kerOf L K B
      let stmts := splitStmts (rest.drop nB)
      let res := stmts.foldlM (step L K C) ({} : St L)
      match res with
      | .ok st => " ; ".intercalate st.out.toList
      | .error e => "ERR " ++ e

end SplSM

def runSplineSM (op grp prec : String) (args : Array String) : Option String :=
  if op == "spl_script" then
    if prec == "f64" then some (SplSM.runScript grp args) else some "ERR spl_script is f64 only"
  else none

end Drv
