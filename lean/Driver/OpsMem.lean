/-
  Driver/OpsMem.lean — driver ops of the "Mem" unit (property C16 and the C06 layout tables).

  mem_script <G> <prec> <N> <NV> <w × (N + NV·R)> <op tokens …>
      state buffer = N words of caller-owned memory followed by NV value objects (R = RepSize words
      each).  Locations: `m<off>` Map<G> at word `off`, `c<off>` Map<const G>, `v<j>` value object j.
      Paths: `-` or a dot chain `part1.so3`, `r3k2`, `r3_v` ….
      Ops:  I loc path | C loc path n w×n | A dst src | K dst src | M loc path n w×n | ML dst src
            | P loc path n w×n | X dst src | R dst src path | RL dst src path
            (R / RL: coefficients / log() of the sub-part read through the CONST accessor chain → first words of dst)
      Reply: the full state buffer after EACH op (nops × (N + NV·R) words).
  mem_wsets <G> <prec> <N> <NV> <op tokens …>   → `off len` of the words each op may write
  mem_cast <G> <prec> <w × R>     → R words of the OTHER precision (`cast<NewScalar>()`)
  mem_table <G> -                 → `acc:off:len` rows of the sub-view table, `R D Dim` sizes
  mem_psum <G> -                  → `rep: … | dof: … | dim: …` prefix sums of a Bundle descriptor
-/
import SmoothModel
import Driver.Ops

namespace Drv
open Mem

def parseNat? (s : String) : Option Nat := s.toNat?

def parseAcc (s : String) : Option Acc :=
  if s == "r2" then some .r2 else if s == "so2" then some .so2
  else if s == "r3" then some .r3 else if s == "so3" then some .so3
  else if s == "r3_v" then some .r3_v else if s == "r3_p" then some .r3_p
  else if s == "r1_t" then some .r1_t
  else if s.startsWith "r3k" then (s.drop 3).toNat?.map .r3k
  else if s.startsWith "part" then (s.drop 4).toNat?.map .part
  else none

def parsePath (s : String) : Option (List Acc) :=
  if s == "-" then some []
  else (s.splitOn ".").mapM parseAcc

def accName : Acc → String
  | .r2 => "r2" | .so2 => "so2" | .r3 => "r3" | .so3 => "so3" | .r3_v => "r3_v" | .r3_p => "r3_p"
  | .r1_t => "r1_t" | .r3k k => s!"r3k{k}" | .part i => s!"part{i}"

/-- `m12`, `c3`, `v0` -/
def parseLoc (N R : Nat) (s : String) : Option Loc :=
  match s.toList with
  | 'm' :: r => (String.ofList r).toNat?.map (fun o => ⟨o, true⟩)
  | 'c' :: r => (String.ofList r).toNat?.map (fun o => ⟨o, false⟩)
  | 'v' :: r => (String.ofList r).toNat?.map (fun j => ⟨N + j * R, true⟩)
  | _ => none

structure Cur where
  toks : Array String
  pos : Nat

def Cur.next (c : Cur) : Except String (String × Cur) :=
  if h : c.pos < c.toks.size then .ok (c.toks[c.pos], { c with pos := c.pos + 1 })
  else .error "script: unexpected end"

def Cur.nat (c : Cur) : Except String (Nat × Cur) := do
  let (t, c) ← c.next
  match t.toNat? with
  | some n => return (n, c)
  | none => .error s!"script: expected a number, got {t}"

def Cur.words (c : Cur) (n : Nat) : Except String (List Word × Cur) :=
  if c.pos + n ≤ c.toks.size then
    .ok (((c.toks.extract c.pos (c.pos + n)).toList.map parseHex), { c with pos := c.pos + n })
  else .error "script: not enough words"

def Cur.loc (c : Cur) (N R : Nat) : Except String (Loc × Cur) := do
  let (t, c) ← c.next
  match parseLoc N R t with
  | some l => return (l, c)
  | none => .error s!"script: bad location {t}"

def Cur.path (c : Cur) : Except String (List Acc × Cur) := do
  let (t, c) ← c.next
  match parsePath t with
  | some p => return (p, c)
  | none => .error s!"script: bad path {t}"

partial def parseOps (N R : Nat) (c : Cur) (acc : Array Op) : Except String (Array Op) := do
  if c.pos ≥ c.toks.size then return acc
  let (t, c) ← c.next
  match t with
  | "I" =>
    let (l, c) ← c.loc N R; let (p, c) ← c.path
    parseOps N R c (acc.push (.setIdentity l p))
  | "C" =>
    let (l, c) ← c.loc N R; let (p, c) ← c.path; let (n, c) ← c.nat; let (ws, c) ← c.words n
    parseOps N R c (acc.push (.setCoeffs l p ws))
  | "A" =>
    let (d, c) ← c.loc N R; let (s, c) ← c.loc N R
    parseOps N R c (acc.push (.assign d s))
  | "K" =>
    let (d, c) ← c.loc N R; let (s, c) ← c.loc N R
    parseOps N R c (acc.push (.assign d s))
  | "M" =>
    let (l, c) ← c.loc N R; let (p, c) ← c.path; let (n, c) ← c.nat; let (ws, c) ← c.words n
    parseOps N R c (acc.push (.mulLit l p ws))
  | "ML" =>
    let (d, c) ← c.loc N R; let (s, c) ← c.loc N R
    parseOps N R c (acc.push (.mulLoc d s))
  | "P" =>
    let (l, c) ← c.loc N R; let (p, c) ← c.path; let (n, c) ← c.nat; let (ws, c) ← c.words n
    parseOps N R c (acc.push (.plusLit l p ws))
  | "X" =>
    let (d, c) ← c.loc N R; let (s, c) ← c.loc N R
    parseOps N R c (acc.push (.castRt d s))
  | "R" =>
    let (d, c) ← c.loc N R; let (s, c) ← c.loc N R; let (p, c) ← c.path
    parseOps N R c (acc.push (.readSub d s p))
  | "RL" =>
    let (d, c) ← c.loc N R; let (s, c) ← c.loc N R; let (p, c) ← c.path
    parseOps N R c (acc.push (.readLog d s p))
  | _ => .error s!"script: unknown op {t}"

/-- static checks the C++ type system / asserts make: targets resolve, are writable, fit -/
def checkOp (d : GDesc) (size : Nat) (op : Op) : Except String Unit := do
  if !op.dst.1.writable then .error "script: write through a const view"
  match op.target d with
  | none => .error "script: accessor path does not exist for this group"
  | some t =>
    if t.off + t.len > size then .error "script: target outside the buffer"
    match op.src, op.srcRange d with
    | some _, none => .error "script: source accessor path does not exist for this group"
    | _, some r => if r.1 + r.2 > size then .error "script: source outside the buffer" else pure ()
    | none, none => pure ()
    match op with
    | .setCoeffs _ _ ws => if ws.length ≠ t.len then .error "script: literal size" else pure ()
    | .mulLit _ _ ws => if ws.length ≠ t.len then .error "script: literal size" else pure ()
    | .plusLit _ _ a => if a.length ≠ dofSize t.desc then .error "script: tangent size" else pure ()
    | _ => pure ()

def hexW (prec : String) (w : Word) : String := if prec == "f64" then toHexN w 16 else toHexN w 8

def memScript (grp prec : String) (args : Array String) : Except String String := do
  let some d := GDesc.parse grp | .error s!"unknown-group {grp}"
  let R := repSize d
  let c : Cur := ⟨args, 0⟩
  let (N, c) ← c.nat
  let (NV, c) ← c.nat
  let size := N + NV * R
  let (ws, c) ← c.words size
  let ops ← parseOps N R c #[]
  for op in ops do checkOp d size op
  let b0 : Buf := ws.toArray
  let trace : List Buf ←
    if prec == "f64" then pure (runTrace (α := Float) rt64 d ops.toList b0)
    else if prec == "f32" then pure (runTrace (α := Float32) rt32 d ops.toList b0)
    else .error "bad-prec"
  return " ".intercalate (trace.flatMap (fun b => b.toList.map (hexW prec)))

/-- the write-set `off len` of every op of a script (no buffer needed) -/
def memWsets (grp : String) (args : Array String) : Except String String := do
  let some d := GDesc.parse grp | .error s!"unknown-group {grp}"
  let R := repSize d
  let c : Cur := ⟨args, 0⟩
  let (N, c) ← c.nat
  let (NV, c) ← c.nat
  let ops ← parseOps N R c #[]
  for op in ops do checkOp d (N + NV * R) op
  return " ".intercalate (ops.toList.map (fun op =>
    match op.writeSet d with
    | [(o, l)] => s!"{o} {l}"
    | _ => "- -"))

def memCast (grp prec : String) (args : Array String) : Except String String := do
  let some d := GDesc.parse grp | .error s!"unknown-group {grp}"
  if args.size ≠ repSize d then .error "arity"
  let ws := args.toList.map parseHex
  if prec == "f64" then return " ".intercalate ((castWords f64to32 ws).map (hexW "f32"))
  else if prec == "f32" then return " ".intercalate ((castWords f32to64 ws).map (hexW "f64"))
  else .error "bad-prec"

def memTable (grp : String) : Except String String := do
  let some d := GDesc.parse grp | .error s!"unknown-group {grp}"
  let rows := (accessors d).filterMap (fun a => (subview d a).map (fun t => s!"{accName a}:{t.1}:{t.2.1}"))
  return s!"{repSize d} {dofSize d} {dimSize d} " ++ " ".intercalate rows

def natList (l : List Nat) : String := " ".intercalate (l.map toString)

def memPsum (grp : String) : Except String String := do
  match GDesc.parse grp with
  | some (.bundle ps) =>
    return s!"rep: {natList (repPsum ps)} | dof: {natList (dofPsum ps)} | dim: {natList (dimPsum ps)}"
  | _ => .error s!"not-a-bundle {grp}"

def runMem (op grp prec : String) (args : Array String) : Option String :=
  let wrap (r : Except String String) : Option String :=
    match r with
    | .ok s => some s
    | .error e => some ("ERR " ++ e)
  match op with
  | "mem_script" => wrap (memScript grp prec args)
  | "mem_wsets" => wrap (memWsets grp args)
  | "mem_cast" => wrap (memCast grp prec args)
  | "mem_table" => wrap (memTable grp)
  | "mem_psum" => wrap (memPsum grp)
  | _ => none

end Drv
