/-
  Driver/OpsManif.lean — driver ops of the Manifold unit (property C07): `man_*`.

  The `grp` token is a TYPE descriptor
      <GDesc>            a Lie group (SO3, SE2, T3 = Eigen::Vector3, B[SO3,T2] …)
      R                  double / float
      X                  Eigen::VectorX
      V[t]               std::vector<t>
      W[a,b,c]           std::variant<a,b,c>
      S[t]               SubManifold<t>
      A[a,b,c,d]         AnyManifold holding one of the four listed types
  and the shape travels in the data (integers as exactly representable floating-point words):
      group: rep coefficients;  R: 1 word;  X: n, entries;  V: n, elements;  W/A: index, value;
      S: nfixed, fixed dims, m0, m.        Tangents: n, entries.
  Replies: hex words, or `THROW <what>` when the modelled operation throws.
-/
import SmoothModel
import SmoothModel.Manifold
import Driver.Ops

open Scalar Lin Manif

namespace Drv

inductive MT where
  | grp (d : GDesc)
  | scal
  | vecx
  | vector (t : MT)
  | var3 (a b c : MT)
  | sub (t : MT)
  | any4 (a b c d : MT)
  deriving Inhabited

def Fam3 (A B C : Type) : Fin 3 → Type
  | 0 => A | 1 => B | 2 => C
def Fam4 (A B C D : Type) : Fin 4 → Type
  | 0 => A | 1 => B | 2 => C | 3 => D

def MT.carrier (α : Type) [Scalar α] : MT → Type
  | .grp d => Vec α (GDesc.model (α := α) d).rep
  | .scal => α
  | .vecx => List α
  | .vector t => List (t.carrier α)
  | .var3 a b c => Σ i : Fin 3, Fam3 (a.carrier α) (b.carrier α) (c.carrier α) i
  | .sub t => SubMan (t.carrier α)
  | .any4 a b c d => Σ i : Fin 4, Fam4 (a.carrier α) (b.carrier α) (c.carrier α) (d.carrier α) i

variable {α : Type} [Scalar α]

def fam3Man {A B C : Type} (a : Man α A) (b : Man α B) (c : Man α C) : ∀ i, Man α (Fam3 A B C i)
  | 0 => a | 1 => b | 2 => c
def fam4Man {A B C D : Type} (a : Man α A) (b : Man α B) (c : Man α C) (d : Man α D) :
    ∀ i, Man α (Fam4 A B C D i)
  | 0 => a | 1 => b | 2 => c | 3 => d

/-- marker for never-written entries of an uninitialised buffer (the harness prints the same) -/
def nanOf (α : Type) [Scalar α] : α := (nat 0 : α) / (nat 0 : α)

def MT.man : (t : MT) → Man α (t.carrier α)
  | .grp d => Manif.ofLie (GDesc.model d)
  | .scal => Manif.scalar
  | .vecx => Manif.vecX
  | .vector t => Manif.vector t.man (fun _ => nanOf α)
  | .var3 a b c => Manif.variant (fam3Man a.man b.man c.man) 0
  | .sub t => Manif.sub t.man
  | .any4 a b c d => Manif.any (fam4Man a.man b.man c.man d.man)

/-! #### codec -/

def natOfScalar (x : α) : Nat :=
  ((List.range 4096).find? (fun k => !(decide ((nat k : α) < x)))).getD 0

def decodeMany {T : Type} (dec : Array α → Nat → Option (T × Nat)) :
    Nat → Array α → Nat → Option (List T × Nat)
  | 0, _, o => some ([], o)
  | n+1, x, o =>
    match dec x o with
    | none => none
    | some (v, o1) =>
      match decodeMany dec n x o1 with
      | none => none
      | some (vs, o2) => some (v :: vs, o2)

def decodeNat (x : Array α) (o : Nat) : Option (Nat × Nat) :=
  if h : o < x.size then some (natOfScalar x[o], o + 1) else none

def decodeList (x : Array α) (o : Nat) : Option (List α × Nat) :=
  match decodeNat x o with
  | none => none
  | some (n, o1) =>
    if o1 + n ≤ x.size then some ((List.range n).map (fun i => x.getD (o1 + i) (nat 0)), o1 + n) else none

def decodeNats (x : Array α) (o : Nat) : Option (List Nat × Nat) :=
  match decodeList x o with
  | none => none
  | some (l, o1) => some (l.map natOfScalar, o1)

def MT.decode : (t : MT) → Array α → Nat → Option (t.carrier α × Nat)
  | .grp d, x, o =>
    let n := (GDesc.model (α := α) d).rep
    if o + n ≤ x.size then some (memoV (ofArray n x o), o + n) else none
  | .scal, x, o => if h : o < x.size then some (x[o], o + 1) else none
  | .vecx, x, o => decodeList x o
  | .vector t, x, o =>
    match decodeNat x o with
    | none => none
    | some (n, o1) => decodeMany (MT.decode t) n x o1
  | .var3 a b c, x, o =>
    match decodeNat x o with
    | some (0, o1) => (MT.decode a x o1).map (fun (v, o2) => (⟨0, v⟩, o2))
    | some (1, o1) => (MT.decode b x o1).map (fun (v, o2) => (⟨1, v⟩, o2))
    | some (2, o1) => (MT.decode c x o1).map (fun (v, o2) => (⟨2, v⟩, o2))
    | _ => none
  | .sub t, x, o =>
    match decodeNats x o with
    | none => none
    | some (fixed, o1) =>
      match MT.decode t x o1 with
      | none => none
      | some (m0, o2) =>
        match MT.decode t x o2 with
        | none => none
        | some (m, o3) => some (⟨m0, m, fixed⟩, o3)
  | .any4 a b c d, x, o =>
    match decodeNat x o with
    | some (0, o1) => (MT.decode a x o1).map (fun (v, o2) => (⟨0, v⟩, o2))
    | some (1, o1) => (MT.decode b x o1).map (fun (v, o2) => (⟨1, v⟩, o2))
    | some (2, o1) => (MT.decode c x o1).map (fun (v, o2) => (⟨2, v⟩, o2))
    | some (3, o1) => (MT.decode d x o1).map (fun (v, o2) => (⟨3, v⟩, o2))
    | _ => none

def encodeList (l : List α) : Array α := #[(nat l.length : α)] ++ l.toArray

def MT.encode : (t : MT) → t.carrier α → Array α
  | .grp _, g => toArray g
  | .scal, x => #[x]
  | .vecx, v => encodeList v
  | .vector t, ms => ms.foldl (fun acc m => acc ++ MT.encode t m) #[(nat ms.length : α)]
  | .var3 a _ _, ⟨0, v⟩ => #[(nat 0 : α)] ++ MT.encode a v
  | .var3 _ b _, ⟨1, v⟩ => #[(nat 1 : α)] ++ MT.encode b v
  | .var3 _ _ c, ⟨2, v⟩ => #[(nat 2 : α)] ++ MT.encode c v
  | .sub t, s =>
    #[(nat s.fixed.length : α)] ++ (s.fixed.map (fun k => (nat k : α))).toArray
      ++ MT.encode t s.m0 ++ MT.encode t s.m
  | .any4 a _ _ _, ⟨0, v⟩ => #[(nat 0 : α)] ++ MT.encode a v
  | .any4 _ b _ _, ⟨1, v⟩ => #[(nat 1 : α)] ++ MT.encode b v
  | .any4 _ _ c _, ⟨2, v⟩ => #[(nat 2 : α)] ++ MT.encode c v
  | .any4 _ _ _ d, ⟨3, v⟩ => #[(nat 3 : α)] ++ MT.encode d v

/-! #### type descriptor parser -/

namespace MT

partial def parseAux (cs : List Char) : Option (MT × List Char) :=
  let rec items (cs : List Char) (acc : List MT) : Option (List MT × List Char) :=
    match parseAux cs with
    | some (d, ',' :: r) => items r (d :: acc)
    | some (d, ']' :: r) => some ((d :: acc).reverse, r)
    | _ => none
  match cs with
  | 'V' :: '[' :: rest =>
    match items rest [] with
    | some ([t], r) => some (.vector t, r)
    | _ => none
  | 'W' :: '[' :: rest =>
    match items rest [] with
    | some ([a, b, c], r) => some (.var3 a b c, r)
    | _ => none
  | 'S' :: '[' :: rest =>
    match items rest [] with
    | some ([t], r) => some (.sub t, r)
    | _ => none
  | 'A' :: '[' :: rest =>
    match items rest [] with
    | some ([a, b, c, d], r) => some (.any4 a b c d, r)
    | _ => none
  | 'R' :: r => some (.scal, r)
  | 'X' :: r => some (.vecx, r)
  | _ =>
    match GDesc.parseAux cs with
    | some (d, r) => some (.grp d, r)
    | none => none

def parse (s : String) : Option MT :=
  match parseAux s.toList with
  | some (t, []) => some t
  | _ => none

end MT

/-! #### ops -/

def throwMsg (e : String) : String := "THROW " ++ e.replace " " "_"

/-- result of an op: words or a thrown exception -/
inductive Reply (α : Type) where
  | words (w : Array α)
  | thrown (msg : String)
  | bad (msg : String)

def ofExcept {T : Type} (r : Except String T) (k : T → Reply α) : Reply α :=
  match r with
  | .ok v => k v
  | .error e => .thrown e

@[specialize] def runManifOp (t : MT) (op0 : String) (x : Array α) : Reply α :=
  let A : Man α (t.carrier α) := t.man
  -- API-coverage unit (DESIGN 8.10): the public member functions of SubManifold / AnyManifold called directly, and
  -- `Default<M>()` without argument, are by their source text the functions behind `smooth::rplus` … / `Default<M>(Dof)`
  let op := if op0 == "man_dof_member" then "man_dof" else if op0 == "man_rplus_member" then "man_rplus"
    else if op0 == "man_rminus_member" then "man_rminus" else if op0 == "man_default_static" then "man_default" else op0
  match op with
  | "man_move" =>
    -- move construction + move assignment: the value arrives unchanged
    match t.decode x 0 with
    | some (m, o) => if o = x.size then .words (t.encode m) else .bad "arity"
    | none => .bad "decode"
  | "man_dof" =>
    match t.decode x 0 with
    | some (m, o) => if o = x.size then .words #[(nat (A.dof m) : α)] else .bad "arity"
    | none => .bad "decode"
  | "man_rplus" =>
    match t.decode x 0 with
    | some (m, o) =>
      match decodeList x o with
      | some (a, o1) => if o1 = x.size then .words (t.encode (A.rplus m a)) else .bad "arity"
      | none => .bad "decode-tangent"
    | none => .bad "decode"
  | "man_rminus" =>
    match t.decode x 0 with
    | some (m1, o) =>
      match t.decode x o with
      | some (m2, o1) =>
        if o1 = x.size then ofExcept (A.rminus m1 m2) (fun d => .words (encodeList d)) else .bad "arity"
      | none => .bad "decode-2"
    | none => .bad "decode"
  | "man_cast" =>
    match t.decode x 0 with
    | some (m, o) => if o = x.size then ofExcept (A.cast m) (fun c => .words (t.encode c)) else .bad "arity"
    | none => .bad "decode"
  | "man_default" =>
    match decodeNat x 0 with
    | some (n, o) => if o = x.size then ofExcept (A.default n) (fun c => .words (t.encode c)) else .bad "arity"
    | none => .bad "decode"
  | "man_copy" =>
    -- `c(m)`, mutate c; `e = m` (copy assignment); mutate m.  Values are independent objects:
    -- reply = c (mutated) ++ e (the old m) ++ m (mutated)
    match t.decode x 0 with
    | some (m, o) =>
      match decodeList x o with
      | some (a, o1) =>
        if o1 = x.size then
          let mp := t.encode (A.rplus m a)
          .words (mp ++ t.encode m ++ mp)
        else .bad "arity"
      | none => .bad "decode-tangent"
    | none => .bad "decode"
  | _ => .bad ("unknown-op " ++ op)

/-- ops that exist for `SubManifold` only -/
@[specialize] def runSubOp (t : MT) (op : String) (x : Array α) : Reply α :=
  match op with
  | "man_subctor" =>
    -- m0, m, fixed dims as given (any order)
    match t.decode x 0 with
    | some (m0, o) =>
      match t.decode x o with
      | some (m, o1) =>
        match decodeNats x o1 with
        | some (fixed, o2) =>
          if o2 = x.size then .words ((MT.sub t).encode (SubMan.ctor m0 m fixed)) else .bad "arity"
        | none => .bad "decode-fixed"
      | none => .bad "decode-2"
    | none => .bad "decode"
  | _ => .bad ("unknown-op " ++ op)

def replyString [Bits α] (r : Reply α) : String :=
  match r with
  | .words w => " ".intercalate (w.toList.map Bits.toHex)
  | .thrown e => throwMsg e
  | .bad e => "ERR " ++ e

def runManifAt (α : Type) [Scalar α] [Bits α] (op grp : String) (args : Array String) : String :=
  match MT.parse grp with
  | none => "ERR unknown-type " ++ grp
  | some t =>
    let x : Array α := args.map Bits.ofHex
    if op == "man_anyctor" then
      match t with
      | .any4 a b c d =>
        replyString (α := α) (ofExcept
          (anyDefaultCtor (Ms := Fam4 (a.carrier α) (b.carrier α) (c.carrier α) (d.carrier α)))
          (fun _ => .bad "constructed"))
      | _ => "ERR not-an-anymanifold"
    else if op == "man_subctor" then
      match t with
      | .sub t' => replyString (runSubOp t' op x)
      | _ => "ERR not-a-submanifold"
    else replyString (runManifOp t op x)

def runManif (op grp prec : String) (args : Array String) : Option String :=
  if !op.startsWith "man_" then none
  else if prec == "f64" then some (runManifAt Float op grp args)
  else if prec == "f32" then some (runManifAt Float32 op grp args)
  else some "ERR bad-prec"

end Drv
