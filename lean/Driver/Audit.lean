/-
  Driver/Audit.lean — audit ops of the driver (`prec = f64a | f32a`): the implementation's
  inputs AND outputs come in as bit patterns, are converted to exact rationals, and the property's
  defining relation is evaluated with the independent oracle (Oracle.lean).  Replies are error
  numbers as f64 words; tools/check.py applies the property's tolerance.
-/
import SmoothModel
import Driver.Ops

open Scalar Lin Oracle

namespace Drv

def ratWords (prec : String) (ws : Array String) : Array Rat :=
  if prec == "f32a" then ws.map (fun w => ratOfBits32 (parseHex w).toUInt32)
  else ws.map (fun w => ratOfBits64 (parseHex w))

def allFinite (prec : String) (ws : Array String) : Bool :=
  if prec == "f32a" then ws.all (fun w => isFinite32 (parseHex w).toUInt32)
  else ws.all (fun w => isFinite64 (parseHex w))

def fhex (x : Float) : String := toHexN x.toBits 16

def relErr (A B : RMat) : Float :=
  -- max |A−B| / max(1, max|B|)
  let d := (A.sub B).maxAbs
  let s := B.maxAbs
  ratToFloat (d / (if s < 1 then 1 else s))

def relErrScale (A B : RMat) (extra : Rat) : Float :=
  let d := (A.sub B).maxAbs
  let s0 := B.maxAbs
  let s := if s0 < extra then extra else s0
  ratToFloat (d / (if s < 1 then 1 else s))

/-- entrywise absolute value (forward-error scale of a matrix product: `|fl(AB) − AB| ≲ n·eps·|A||B|`) -/
def absR (A : RMat) : RMat := RMat.ofFn A.n A.m (fun i j => let x := A.get i j; if x < 0 then -x else x)

def vecR {n : Nat} (x : Array Rat) (off : Nat := 0) : Vec Rat n := ofArray n x off

def colVec (v : Array Rat) : RMat := ⟨v.size, 1, v⟩

/-- tangent indices of the rotation coordinates, one list per rotation factor -/
def rotIdx : GDesc → Nat → List (List Nat)
  | .so2, o => [[o]]
  | .so3, o => [[o, o+1, o+2]]
  | .se2, o => [[o+2]]
  | .se3, o => [[o+3, o+4, o+5]]
  | .c1, o => [[o+1]]
  | .gal, o => [[o+7, o+8, o+9]]
  | .tn _, _ => []
  | .sek3 k, o => [[o+3*k, o+3*k+1, o+3*k+2]]
  | .bundle ps, o =>
    let rec go (ps : List GDesc) (o : Nat) : List (List Nat) :=
      match ps with
      | [] => []
      | p :: r => rotIdx p o ++ go r (o + (GDesc.model (α := Rat) p).dof)
    go ps o

def matExpR (A : RMat) : RMat := (BMat.exp (BMat.ofRMat A)).toRMat

/-- embed a point for the group action: `M · (v, 1…)`; returns (embedded vector, rows kept) -/
def actOracle (d : GDesc) (M : RMat) (v : Array Rat) : Option (Array Rat) :=
  match d with
  | .so2 | .so3 | .c1 =>
    some ((M.mul (colVec v)).a)
  | .se2 | .se3 =>
    let r := (M.mul (colVec (v.push 1))).a
    some (r.extract 0 (r.size - 1))
  | .gal =>
    -- point (x, t) ↦ M·(x, t, 1), rows 0..3
    let r := (M.mul (colVec (v.push 1))).a
    some (r.extract 0 4)
  | _ => none

def runAuditD (op : String) (d : GDesc) (x : Array Rat) : Except String (Array Float) := do
  let G : LieModel Rat := GDesc.model d
  let M (g : Vec Rat G.rep) : RMat := RMat.ofMat (G.matrix g)
  let H (a : Vec Rat G.dof) : RMat := RMat.ofMat (G.hat a)
  match op with
  | "a_identity" =>
    let g : Vec Rat G.rep := vecR x
    return #[relErr (M g) (RMat.ident G.dim)]
  | "a_compose" =>
    let g1 : Vec Rat G.rep := vecR x; let g2 : Vec Rat G.rep := vecR x G.rep
    let o : Vec Rat G.rep := vecR x (2 * G.rep)
    -- relative to the forward-error scale max(|M g1|·|M g2|): when the exact product cancels (g·g with a
    -- half-turn rotation: R t + t ≈ 0) the achievable accuracy is eps·(|R||t| + |t|), not eps·|R t + t|
    return #[relErrScale (M o) ((M g1).mul (M g2)) ((absR (M g1)).mul (absR (M g2))).maxAbs]
  | "a_assoc" =>
    -- inputs g1 g2 g3, out = (g1 g2) g3, out2 = g1 (g2 g3)
    let g1 : Vec Rat G.rep := vecR x; let g2 : Vec Rat G.rep := vecR x G.rep
    let g3 : Vec Rat G.rep := vecR x (2 * G.rep)
    let o1 : Vec Rat G.rep := vecR x (3 * G.rep); let o2 : Vec Rat G.rep := vecR x (4 * G.rep)
    let P := ((M g1).mul (M g2)).mul (M g3)
    let sc := (((absR (M g1)).mul (absR (M g2))).mul (absR (M g3))).maxAbs
    return #[relErrScale (M o1) P sc, relErrScale (M o2) P sc]
  | "a_inverse" =>
    let g : Vec Rat G.rep := vecR x; let o : Vec Rat G.rep := vecR x G.rep
    match (M g).inverse with
    | some Mi => return #[relErr (M o) Mi]
    | none => .error "singular"
  | "a_rplusR" | "a_rplusL" =>
    -- inputs g, a, out:  M(out) must be M(g)·expm(hat a)  (L: expm(hat a)·M(g)); forward-error scale |M g|·|expm|
    let g : Vec Rat G.rep := vecR x; let a : Vec Rat G.dof := vecR x G.rep
    let o : Vec Rat G.rep := vecR x (G.rep + G.dof)
    let E := matExpR (H a)
    let P := if op == "a_rplusR" then (M g).mul E else E.mul (M g)
    let sc := if op == "a_rplusR" then ((absR (M g)).mul (absR E)).maxAbs else ((absR E).mul (absR (M g))).maxAbs
    return #[relErrScale (M o) P sc]
  | "a_rminusR" | "a_rminusL" =>
    -- inputs g1, g2, d = g1 ⊖ g2:  expm(hat d) must be M(g2)⁻¹·M(g1)  (L: M(g1)·M(g2)⁻¹); then the rotation norms² of d
    let g1 : Vec Rat G.rep := vecR x; let g2 : Vec Rat G.rep := vecR x G.rep
    let dd : Vec Rat G.dof := vecR x (2 * G.rep)
    match (M g2).inverse with
    | none => .error "singular"
    | some Mi =>
      let T := if op == "a_rminusR" then Mi.mul (M g1) else (M g1).mul Mi
      let sc := if op == "a_rminusR" then ((absR Mi).mul (absR (M g1))).maxAbs else ((absR (M g1)).mul (absR Mi)).maxAbs
      let e := relErrScale (matExpR (H dd)) T sc
      let rn := (rotIdx d 0).map (fun idx => ratToFloat (idx.foldl (fun s i => s + (x.getD (2 * G.rep + i) 0) ^ 2) 0))
      return #[e] ++ rn.toArray
  | "a_draction" =>
    -- inputs g, v (nv), J (nv × dof):  column j must be the kept rows of M(g)·hat(e_j)·embed(v)
    -- (d/dε of (g·exp(ε e_j))·v at 0), exactly in rationals
    let g : Vec Rat G.rep := vecR x
    let rest := x.size - G.rep
    let nv := rest / (G.dof + 1)
    let v := x.extract G.rep (G.rep + nv)
    let J : RMat := ⟨nv, G.dof, x.extract (G.rep + nv) x.size⟩
    let emb : Array Rat := match d with
      | .so2 | .so3 | .c1 => v
      | _ => v.push 1
    let mut cols : Array (Array Rat) := #[]
    for j in [0:G.dof] do
      let ej : Vec Rat G.dof := .of (fun i => if i.val = j then 1 else 0)
      let c := (((M g).mul (H ej)).mul (colVec emb)).a
      cols := cols.push (c.extract 0 nv)
    let Jo : RMat := RMat.ofFn nv G.dof (fun i j => (cols.getD j #[]).getD i 0)
    return #[relErrScale J Jo ((absR (M g)).maxAbs * (colVec emb).maxAbs)]
  | "a_act" =>
    let g : Vec Rat G.rep := vecR x
    let nv := x.size - G.rep
    let nvv := nv / 2
    let v := x.extract G.rep (G.rep + nvv)
    let o := x.extract (G.rep + nvv) x.size
    match actOracle d (M g) v with
    | some r => return #[relErr (colVec o) (colVec r)]
    | none => .error "no-action"
  | "a_exp" =>
    let a : Vec Rat G.dof := vecR x; let o : Vec Rat G.rep := vecR x G.dof
    return #[relErr (M o) (matExpR (H a))]
  | "a_explog" =>
    -- inputs: g, log(g).  exp(hat(log g)) must be M(g); rotation norms² of log(g)
    let g : Vec Rat G.rep := vecR x; let a : Vec Rat G.dof := vecR x G.rep
    let e := relErr (matExpR (H a)) (M g)
    let rn := (rotIdx d 0).map (fun idx => ratToFloat (idx.foldl (fun s i => s + (x.getD (G.rep + i) 0) ^ 2) 0))
    return #[e] ++ rn.toArray
  | "a_vec" =>
    -- inputs: expected (dof), got (dof): max|got−expected|/max(1,|expected|)
    let n := x.size / 2
    -- second number: the same error relative to max|expected| without the floor at 1 ("uniformly in a,
    -- for arbitrarily small a"): 0 for 0 = 0, 1e300 when expected = 0 and got ≠ 0
    let ex := colVec (x.extract 0 n); let got := colVec (x.extract n x.size)
    let dd := (got.sub ex).maxAbs; let em := ex.maxAbs
    let rel : Float := if em == 0 then (if dd == 0 then 0 else 1e300) else ratToFloat (dd / em)
    return #[relErr got ex, rel]
  | "a_Ad" =>
    -- inputs g, a, Ad(g) (dof×dof): hat(Ad·a)·M(g) = M(g)·hat(a)
    let g : Vec Rat G.rep := vecR x; let a : Vec Rat G.dof := vecR x G.rep
    let A : RMat := ⟨G.dof, G.dof, x.extract (G.rep + G.dof) x.size⟩
    let Aa := (A.mul (colVec (toArray a))).a
    let lhs := (H (vecR Aa)).mul (M g)
    let rhs := (M g).mul (H a)
    return #[relErrScale lhs rhs (lhs.maxAbs)]
  | "a_ad" =>
    -- inputs a, b, ad(a) (dof×dof), bracket(a,b) (dof): hat(ad·b) = [hat a, hat b]; bracket = ad·b
    let a : Vec Rat G.dof := vecR x; let b : Vec Rat G.dof := vecR x G.dof
    let A : RMat := ⟨G.dof, G.dof, x.extract (2 * G.dof) (2 * G.dof + G.dof * G.dof)⟩
    let br := x.extract (2 * G.dof + G.dof * G.dof) x.size
    let Ab := (A.mul (colVec (toArray b))).a
    let comm := ((H a).mul (H b)).sub ((H b).mul (H a))
    -- third/fourth numbers: the same two errors relative to the BILINEAR scale |a|·|b| (a bracket that is
    -- wrong only for a tiny argument is invisible relative to max(1, ·))
    let am := (colVec (toArray a)).maxAbs; let bm := (colVec (toArray b)).maxAbs
    let bil (d : Rat) : Float := if am * bm == 0 then (if d == 0 then 0 else 1e300) else ratToFloat (d / (am * bm))
    return #[relErr (H (vecR Ab)) comm, relErr (colVec br) (colVec Ab),
             bil ((H (vecR Ab)).sub comm).maxAbs, bil ((colVec br).sub (colVec Ab)).maxAbs]
  | "a_Adexp" =>
    -- inputs a, Ad(exp a): must be the matrix exponential of ad(a)
    let a : Vec Rat G.dof := vecR x
    let A : RMat := ⟨G.dof, G.dof, x.extract G.dof x.size⟩
    return #[relErr A (matExpR (RMat.ofMat (G.ad a)))]
  | "a_drexp" =>
    let a : Vec Rat G.dof := vecR x
    let J : RMat := ⟨G.dof, G.dof, x.extract G.dof x.size⟩
    let Jo := (BMat.jacSeries (BMat.ofRMat (RMat.ofMat (G.ad a)))).toRMat
    return #[relErr J Jo]
  | "a_dlexp" =>
    let a : Vec Rat G.dof := vecR x
    let J : RMat := ⟨G.dof, G.dof, x.extract G.dof x.size⟩
    let adB := BMat.ofRMat (RMat.ofMat (G.ad a))
    let Jo := ((BMat.exp adB).mul (BMat.jacSeries adB)).toRMat
    return #[relErr J Jo]
  | "a_drexpinv" =>
    -- inputs a, X = dr_expinv(a): first-order distance to the exact inverse, X·(I − J·X)
    let a : Vec Rat G.dof := vecR x
    let X : RMat := ⟨G.dof, G.dof, x.extract G.dof x.size⟩
    let Jo := (BMat.jacSeries (BMat.ofRMat (RMat.ofMat (G.ad a)))).toRMat
    let R := (RMat.ident G.dof).sub (Jo.mul X)
    let E := X.mul R
    let s := X.maxAbs
    return #[ratToFloat (E.maxAbs / (if s < 1 then 1 else s))]
  | "a_dlexpinv" =>
    let a : Vec Rat G.dof := vecR x
    let X : RMat := ⟨G.dof, G.dof, x.extract G.dof x.size⟩
    let adB := BMat.ofRMat (RMat.ofMat (G.ad a))
    let Jo := ((BMat.exp adB).mul (BMat.jacSeries adB)).toRMat
    let R := (RMat.ident G.dof).sub (Jo.mul X)
    let E := X.mul R
    let s := X.maxAbs
    return #[ratToFloat (E.maxAbs / (if s < 1 then 1 else s))]
  | "a_d2rexp" | "a_d2rexpinv" | "a_d2lexp" | "a_d2lexpinv" =>
    -- inputs a, H (dof × dof²) in the layout H[r, dof·j + k] = ∂J[j,r]/∂a_k ; central differences of the
    -- oracle Jacobian with h = 2^-40 (exact dyadic step)
    let n := G.dof
    let left := op == "a_d2lexp" || op == "a_d2lexpinv"
    let inv := op == "a_d2rexpinv" || op == "a_d2lexpinv"
    let a0 : Array Rat := x.extract 0 n
    let Hin : RMat := ⟨n, n * n, x.extract n x.size⟩
    let h : Rat := 1 / (2 : Rat) ^ 40
    let jac (a : Array Rat) : Option BMat :=
      -- right Jacobian at a (left variants: dl(a) = dr(−a))
      let aa := if left then a.map (fun t => -t) else a
      let J := BMat.jacSeries (BMat.ofRMat (RMat.ofMat (G.ad (vecR aa))))
      if inv then J.inverse else some J
    let mut worst : Rat := 0
    let mut scale : Rat := 1
    for k in [0:n] do
      let ap := a0.modify k (· + h)
      let am := a0.modify k (· - h)
      match jac ap, jac am with
      | some Jp, some Jm =>
        let D := (Jp.sub Jm).toRMat.smul (1 / (2 * h))
        for j in [0:n] do
          for r in [0:n] do
            -- d2l(a) = −d2r(−a): with b = −a, ∂/∂a_k J(−a) = −(∂J/∂b_k)(b), and the code returns −d2r_exp(−a);
            -- the derivative of a ↦ dl(a) = dr(−a) w.r.t. a_k is what D holds directly.
            let e := Hin.get r (n * j + k)
            let o := D.get j r
            let d := (e - o).abs
            if d > worst then worst := d
            if o.abs > scale then scale := o.abs
            if e.abs > scale then scale := e.abs
      | _, _ => throw "singular-jacobian"
    return #[ratToFloat (worst / scale)]
  | _ => .error s!"unknown-audit-op {op}"

def runAudit (op grp prec : String) (args : Array String) : String :=
  if !allFinite prec args then "NONFINITE" else
  match GDesc.parse grp with
  | none => "ERR unknown-group"
  | some d =>
    match runAuditD op d (ratWords prec args) with
    | .ok out => " ".intercalate (out.toList.map fhex)
    | .error e => "ERR " ++ e

end Drv
