/-
  Driver/OpsConv.lean — driver ops of the "Conv" unit (property C17): `conv_*`.

  Numeric ops (`prec = f64 | f32`): the executable model of SmoothModel/Convert.lean (plus
  `SO3.ofQuat`, `rot_x/y/z`, `C1.*`) evaluated on the harness' inputs; paired ops
  `conv_p1_<op>` (SE_K_3<1> result ++ SE3 result) and `conv_p2_<op>` (SE_K_3<2> result ++
  Galilei result at τ = 0 / s = 0) on the SAME inputs.

  Audit ops (`prec = f64a | f32a`, names `conv_a_*`): the implementation's inputs and outputs are
  converted to exact rationals and the defining relation is evaluated on exact rotation /
  homogeneous matrices; replies are error numbers as f64 words.
-/
import SmoothModel
import SmoothModel.Convert
import Driver.Ops
import Driver.Audit

open Scalar Lin Oracle

namespace Drv
namespace ConvOps

variable {α : Type} [Scalar α]

def sc (x : Array α) (i : Nat) : α := x.getD i (nat 0)

def axisOf (op : String) : Fin 3 :=
  if op.endsWith "_y" then 1 else if op.endsWith "_z" then 2 else 0

def rotAxis (i : Fin 3) (t : α) : Vec α 4 :=
  match i with
  | 0 => SO3.rot_x t
  | 1 => SO3.rot_y t
  | 2 => SO3.rot_z t

/-- LieGroupBase op of a model on flat inputs (the subset exercised by the paired ops) -/
@[specialize] def pairHalf (G : LieModel α) (op : String) (gs : List (Vec α G.rep)) (ts : List (Vec α G.dof)) :
    Except String (Array α) :=
  match op, gs, ts with
  | "identity", [], [] => .ok (toArray G.identity)
  | "matrix", [g], [] => .ok (matToArray (G.matrix g))
  | "compose", [a, b], [] => .ok (toArray (G.composition a b))
  | "inverse", [g], [] => .ok (toArray (G.inverse g))
  | "log", [g], [] => .ok (toArray (G.log g))
  | "Ad", [g], [] => .ok (matToArray (G.Ad g))
  | "exp", [], [a] => .ok (toArray (G.exp a))
  | "hat", [], [a] => .ok (matToArray (G.hat a))
  | "ad", [], [a] => .ok (matToArray (G.ad a))
  | "dr_exp", [], [a] => .ok (matToArray (G.dr_exp a))
  | "dr_expinv", [], [a] => .ok (matToArray (G.dr_expinv a))
  | _, _, _ => .error s!"pair-op {op}"

def isTangentOp (op : String) : Bool :=
  op == "exp" || op == "hat" || op == "ad" || op == "dr_exp" || op == "dr_expinv"

def nGroupArgs (op : String) : Nat :=
  if op == "identity" then 0 else if op == "compose" then 2 else if isTangentOp op then 0 else 1

/-- `conv_p1_<op>`: inputs are SE_K_3<1> coefficients / tangents; reply = SEK3 1 result ++ SE3 result -/
@[specialize] def pair1 (op : String) (x : Array α) : Except String (Array α) := do
  let S : LieModel α := SEK3.model 1
  let E : LieModel α := SE3.model
  let ng := nGroupArgs op
  let nt := if isTangentOp op then 1 else 0
  need x (ng * 7 + nt * 6)
  let gsS : List (Vec α S.rep) := (List.range ng).map (fun k => ofArray _ x (7 * k))
  let tsS : List (Vec α S.dof) := (List.range nt).map (fun k => ofArray _ x (6 * k))
  let gsE : List (Vec α E.rep) := (List.range ng).map (fun k => Conv.sek1_to_se3 (ofArray _ x (7 * k)))
  let tsE : List (Vec α E.dof) := (List.range nt).map (fun k => Conv.sek1T_to_se3 (ofArray _ x (6 * k)))
  let a ← pairHalf S op gsS tsS
  let b ← pairHalf E op gsE tsE
  return a ++ b

/-- `conv_p2_<op>`: inputs are SE_K_3<2> coefficients / tangents; the Galilei half is evaluated on
    their images under `(p1,p2,q) ↦ (v,p,0,q)` / `(v1,v2,w) ↦ (b,q,0,w)` -/
@[specialize] def pair2 (op : String) (x : Array α) : Except String (Array α) := do
  let S : LieModel α := SEK3.model 2
  let E : LieModel α := Galilei.model
  let ng := nGroupArgs op
  let nt := if isTangentOp op then 1 else 0
  need x (ng * 10 + nt * 9)
  let gsS : List (Vec α S.rep) := (List.range ng).map (fun k => ofArray _ x (10 * k))
  let tsS : List (Vec α S.dof) := (List.range nt).map (fun k => ofArray _ x (9 * k))
  let gsE : List (Vec α E.rep) := (List.range ng).map (fun k => memoV (Conv.sek2_to_gal (ofArray _ x (10 * k))))
  let tsE : List (Vec α E.dof) := (List.range nt).map (fun k => memoV (Conv.sek2T_to_gal (ofArray _ x (9 * k))))
  let a ← pairHalf S op gsS tsS
  let b ← pairHalf E op gsE tsE
  return a ++ b

@[specialize] def run (op : String) (x : Array α) : Option (Except String (Array α)) :=
  if op.startsWith "conv_p1_" then some (pair1 (op.drop 8).toString x)
  else if op.startsWith "conv_p2_" then some (pair2 (op.drop 8).toString x)
  else if op.startsWith "conv_copy_" then some (.ok x)   -- value / Map / Map<const> construction and assignment: verbatim
  else match op with
  | "conv_so2_ctor" => some (do need x 2; return toArray (Conv.so2OfCoeffs (sc x 0) (sc x 1)))
  | "conv_so2_angle_ctor" => some (do need x 1; return toArray (Conv.so2OfAngle (sc x 0)))
  | "conv_so2_complex_ctor" => some (do need x 2; return toArray (Conv.so2OfComplex (sc x 0) (sc x 1)))
  | "conv_angle" => some (do need x 2; return #[Conv.angle (ofArray 2 x)])
  | "conv_angle_cw" => some (do need x 2; return #[Conv.angle_cw (ofArray 2 x)])
  | "conv_angle_ccw" => some (do need x 2; return #[Conv.angle_ccw (ofArray 2 x)])
  | "conv_u1" => some (do need x 2; return toArray (Conv.u1 (ofArray 2 x)))
  | "conv_unit_complex" => some (do need x 2; return toArray (Conv.u1 (ofArray 2 x)))
  | "conv_lift_so3" => some (do need x 2; return toArray (Conv.lift_so3 (ofArray 2 x)))
  | "conv_project_so2" => some (do need x 4; return toArray (Conv.project_so2 (ofArray 4 x)))
  | "conv_lift_se3" => some (do need x 4; return toArray (Conv.lift_se3 (ofArray 4 x)))
  | "conv_project_se2" => some (do need x 7; return toArray (Conv.project_se2 (ofArray 7 x)))
  | "conv_lift_project_so2" =>
    some (do need x 2; return toArray (Conv.project_so2 (memoV (Conv.lift_so3 (ofArray 2 x)))))
  | "conv_lift_project_se2" =>
    some (do need x 4; return toArray (Conv.project_se2 (memoV (Conv.lift_se3 (ofArray 4 x)))))
  | "conv_lift_hom_so2" =>
    -- lift(g1 g2) ++ lift(g1) lift(g2)
    some (do
      need x 4
      let g1 : Vec α 2 := ofArray 2 x; let g2 : Vec α 2 := ofArray 2 x 2
      let l12 := Conv.lift_so3 (memoV (SO2.composition g1 g2))
      let l1l2 := SO3.composition (memoV (Conv.lift_so3 g1)) (memoV (Conv.lift_so3 g2))
      return toArray l12 ++ toArray l1l2)
  | "conv_lift_hom_se2" =>
    some (do
      need x 8
      let g1 : Vec α 4 := ofArray 4 x; let g2 : Vec α 4 := ofArray 4 x 4
      let l12 := Conv.lift_se3 (memoV (SE2.composition g1 g2))
      let l1l2 := SE3.composition (memoV (Conv.lift_se3 g1)) (memoV (Conv.lift_se3 g2))
      return toArray l12 ++ toArray l1l2)
  | "conv_c1_scaling" => some (do need x 2; return #[C1.scaling (ofArray 2 x)])
  | "conv_c1_angle" => some (do need x 2; return #[C1.angle (ofArray 2 x)])
  | "conv_c1_so2" => some (do need x 2; return toArray (Conv.c1_so2 (ofArray 2 x)))
  | "conv_c1_c1" => some (do need x 2; return toArray (Conv.c1 (ofArray 2 x)))
  | "conv_c1_complex_ctor" => some (do need x 2; return toArray (Conv.c1OfComplex (sc x 0) (sc x 1)))
  | "conv_c1_sa_ctor" => some (do need x 2; return toArray (C1.ofScalingAngle (sc x 0) (sc x 1)))
  | "conv_c1_refactor" =>
    -- C1(g.scaling(), g.so2().angle())
    some (do
      need x 2
      let g : Vec α 2 := ofArray 2 x
      return toArray (C1.ofScalingAngle (C1.scaling g) (Conv.angle (memoV (Conv.c1_so2 g)))))
  | "conv_so3_quat_ctor" => some (do need x 4; return toArray (SO3.ofQuat (ofArray 4 x)))
  | "conv_so3_quat" => some (do need x 4; return toArray (Conv.quatWXYZ (ofArray 4 x)))
  | "conv_rot_x" | "conv_rot_y" | "conv_rot_z" =>
    some (do need x 1; return toArray (rotAxis (axisOf op) (sc x 0)))
  | "conv_rot_exp_x" | "conv_rot_exp_y" | "conv_rot_exp_z" =>
    some (do
      need x 1
      let i := axisOf op
      return toArray (rotAxis i (sc x 0)) ++ toArray (SO3.exp (Conv.axisTangent i (sc x 0))))
  | "conv_of_euler" => some (do need x 3; return toArray (Conv.ofEuler (ofArray 3 x)))
  | "conv_se2_isometry" => some (do need x 4; return matToArray (Conv.se2_isometry (ofArray 4 x)))
  | "conv_se2_iso_ctor" => some (do need x 9; return toArray (Conv.se2_ofIsometry (matOfArray 3 3 x)))
  | "conv_se2_iso_rt" =>
    some (do need x 4; return toArray (Conv.se2_ofIsometry (memoM (Conv.se2_isometry (ofArray 4 x)))))
  | "conv_se3_isometry" => some (do need x 7; return matToArray (Conv.se3_isometry (ofArray 7 x)))
  -- constructors from parts / between storage types (API-coverage unit): coefficient moves, no arithmetic
  | "conv_se2_parts_ctor" | "conv_se2_parts_ctor_map" =>
    some (do need x 4; return #[sc x 2, sc x 3, sc x 0, sc x 1])
  | "conv_se3_parts_ctor" | "conv_se3_parts_ctor_map" =>
    some (do need x 7; return x.extract 4 7 ++ x.extract 0 4)
  | "conv_gal_parts_ctor" => some (do need x 11; return x.extract 4 11 ++ x.extract 0 4)
  | "conv_gal_parts_ctor_dflt" => some (do need x 10; return (x.extract 4 10).push (nat 0) ++ x.extract 0 4)
  | "conv_sek2_parts_ctor" => some (do need x 10; return x.extract 4 10 ++ x.extract 0 4)
  | "conv_bundle_parts_ctor" => some (do need x 13; return x)
  | "conv_so3_quat_write" => some (do need x 4; return #[sc x 1, sc x 2, sc x 3, sc x 0])
  | "conv_of_euler_xyz" =>
    some (do
      need x 3
      return toArray (SO3.composition (memoV (SO3.composition (SO3.rot_x (sc x 0)) (SO3.rot_y (sc x 1)))) (SO3.rot_z (sc x 2))))
  | "conv_se3_iso_glue" =>
    some (do need x 20; return toArray (Conv.se3_ofIsometryGlue (matOfArray 4 4 x) (ofArray 4 x 16)))
  | _ =>
    -- `conv_of_euler_a<i1><i2><i3>`: rot_{i1}(e0) rot_{i2}(e1) rot_{i3}(e2) for ANY axis convention (seed C17e)
    if op.startsWith "conv_of_euler_a" then
      match (op.toList.drop 15).map (fun c => c.toNat - 48) with
      | [a, b, c] =>
        some (do
          need x 3
          let ra : Fin 3 := ⟨a % 3, Nat.mod_lt _ (by decide)⟩
          let rb : Fin 3 := ⟨b % 3, Nat.mod_lt _ (by decide)⟩
          let rc : Fin 3 := ⟨c % 3, Nat.mod_lt _ (by decide)⟩
          return toArray (SO3.composition (memoV (SO3.composition (rotAxis ra (sc x 0)) (rotAxis rb (sc x 1)))) (rotAxis rc (sc x 2))))
      | _ => none
    else none

/-! ### audit ops on exact rationals -/

def m3 (q : Vec Rat 4) : RMat := RMat.ofMat (SO3.matrix q)
def m2 (g : Vec Rat 2) : RMat := RMat.ofMat (SO2.matrix g)

def sqnErr (v : Array Rat) (off n : Nat) : Float :=
  let s := (List.range n).foldl (fun s i => s + (v.getD (off + i) 0) ^ 2) (0 : Rat)
  ratToFloat ((s - 1).abs)

/-- blockDiag(R2, 1) -/
def liftM (R : RMat) : RMat :=
  RMat.ofFn 3 3 (fun i j => if i < 2 ∧ j < 2 then R.get i j else if i == j then 1 else 0)

/-- SE2 homogeneous matrix embedded in SE3's: rotation about z, translation (x, y, 0) -/
def liftSE2M (M : RMat) : RMat :=
  RMat.ofFn 4 4 (fun i j =>
    if i < 2 ∧ j < 2 then M.get i j
    else if i < 2 ∧ j == 3 then M.get i 2
    else if i == j then 1 else 0)

/-- rotation matrix of a NON-normalised quaternion `(x y z w)`: the homogeneous formula divided by
    the squared norm (independent of `SO3.matrix`, which assumes unit norm) -/
def rotHom (q : Array Rat) (off : Nat) : RMat :=
  let x := q.getD off 0; let y := q.getD (off + 1) 0; let z := q.getD (off + 2) 0; let w := q.getD (off + 3) 0
  let s := x * x + y * y + z * z + w * w
  let a : Array Rat := #[w*w + x*x - y*y - z*z, 2 * (x*y - w*z), 2 * (x*z + w*y),
                         2 * (x*y + w*z), w*w - x*x + y*y - z*z, 2 * (y*z - w*x),
                         2 * (x*z - w*y), 2 * (y*z + w*x), w*w - x*x - y*y + z*z]
  ⟨3, 3, a.map (· / (if s == 0 then 1 else s))⟩

def audit (op : String) (x : Array Rat) : Except String (Array Float) :=
  match op with
  | "conv_a_quat" =>
    -- raw quaternion (4), SO3(quat) coefficients (4): same rotation, unit result
    .ok #[relErr (m3 (vecR x 4)) (rotHom x 0), sqnErr x 4 4]
  | "conv_a_rot3" =>
    -- two quaternions: same rotation?  + unit-norm defects
    .ok #[relErr (m3 (vecR x)) (m3 (vecR x 4)), sqnErr x 0 4, sqnErr x 4 4]
  | "conv_a_rot2" =>
    .ok #[relErr (m2 (vecR x)) (m2 (vecR x 2)), sqnErr x 0 2, sqnErr x 2 2]
  | "conv_a_lift" =>
    -- g (2), lift_so3 g (4): matrix(lift g) = blockDiag(matrix g, 1); unit norm of the result
    .ok #[relErr (m3 (vecR x 2)) (liftM (m2 (vecR x))), sqnErr x 2 4]
  | "conv_a_project" =>
    -- q (4) a rotation about z, project_so2 q (2): blockDiag(matrix(project q), 1) = matrix q
    .ok #[relErr (liftM (m2 (vecR x 4))) (m3 (vecR x)), sqnErr x 4 2]
  | "conv_a_se3" =>
    let A := RMat.ofMat (SE3.matrix (vecR (n := 7) x)); let B := RMat.ofMat (SE3.matrix (vecR (n := 7) x 7))
    .ok #[relErr A B, sqnErr x 3 4, sqnErr x 10 4]
  | "conv_a_se2" =>
    let A := RMat.ofMat (SE2.matrix (vecR (n := 4) x)); let B := RMat.ofMat (SE2.matrix (vecR (n := 4) x 4))
    .ok #[relErr A B, sqnErr x 2 2, sqnErr x 6 2]
  | "conv_a_lift_se" =>
    -- se2 (4), lift_se3 (7)
    let A := RMat.ofMat (SE3.matrix (vecR (n := 7) x 4)); let B := liftSE2M (RMat.ofMat (SE2.matrix (vecR (n := 4) x)))
    .ok #[relErr A B, sqnErr x 7 4]
  | "conv_a_project_se" =>
    -- se3 (7) planar, project_se2 (4)
    let A := liftSE2M (RMat.ofMat (SE2.matrix (vecR (n := 4) x 7))); let B := RMat.ofMat (SE3.matrix (vecR (n := 7) x))
    .ok #[relErr A B, sqnErr x 9 2]
  | "conv_a_c1" =>
    -- g (2), scaling (1), so2 (2): matrix g = scaling • matrix (so2 g)
    let s := x.getD 2 0
    .ok #[relErr ((RMat.ofMat (C1.matrix (vecR (n := 2) x)))) ((m2 (vecR x 3)).smul s), sqnErr x 3 2]
  | "conv_a_se2_iso" =>
    -- g (4), T (9): the isometry's matrix is the group matrix
    .ok #[relErr ⟨3, 3, x.extract 4 13⟩ (RMat.ofMat (SE2.matrix (vecR (n := 4) x)))]
  | "conv_a_se3_iso" =>
    .ok #[relErr ⟨4, 4, x.extract 7 23⟩ (RMat.ofMat (SE3.matrix (vecR (n := 7) x)))]
  | "conv_a_iso_se2" =>
    -- T (9), g (4): the constructed element has the isometry's matrix
    .ok #[relErr (RMat.ofMat (SE2.matrix (vecR (n := 4) x 9))) ⟨3, 3, x.extract 0 9⟩, sqnErr x 11 2]
  | "conv_a_iso_se3" =>
    .ok #[relErr (RMat.ofMat (SE3.matrix (vecR (n := 7) x 16))) ⟨4, 4, x.extract 0 16⟩, sqnErr x 19 4]
  | "conv_a_rotexp_x" | "conv_a_rotexp_y" | "conv_a_rotexp_z" =>
    -- t, q (4): matrix q = matrix exponential of hat (t e_i) (series oracle in 320-bit fixed point)
    let i := axisOf op
    let a : Vec Rat 3 := Conv.axisTangent i (x.getD 0 0)
    .ok #[relErr (m3 (vecR x 1)) (matExpR (RMat.ofMat (SO3.hat a))), sqnErr x 1 4]
  | "conv_a_p1" =>
    -- SE_K_3<1> element (7), SE3 element (7): same homogeneous matrix
    let A := RMat.ofMat (SEK3.matrix 1 (vecR (n := 4 + 3 * 1) x)); let B := RMat.ofMat (SE3.matrix (vecR (n := 7) x 7))
    .ok #[relErr A B]
  | "conv_a_p2" =>
    -- SE_K_3<2> element (10), Galilei element (11): same 5×5 matrix and τ = 0
    let A := RMat.ofMat (SEK3.matrix 2 (vecR (n := 4 + 3 * 2) x)); let B := RMat.ofMat (Galilei.matrix (vecR (n := 11) x 10))
    .ok #[relErr A B, ratToFloat ((x.getD 16 0).abs)]
  | _ => .error s!"unknown-audit-op {op}"

end ConvOps

def runConv (op _grp prec : String) (args : Array String) : Option String :=
  if !op.startsWith "conv_" then none
  else if prec == "f64a" || prec == "f32a" then
    if !allFinite prec args then some "NONFINITE" else
    match ConvOps.audit op (ratWords prec args) with
    | .ok out => some (" ".intercalate (out.toList.map fhex))
    | .error e => some ("ERR " ++ e)
  else if prec == "f64" then
    match ConvOps.run (α := Float) op (args.map Bits.ofHex) with
    | some (.ok out) => some (" ".intercalate (out.toList.map Bits.toHex))
    | some (.error e) => some ("ERR " ++ e)
    | none => some ("ERR unknown-op " ++ op)
  else if prec == "f32" then
    match ConvOps.run (α := Float32) op (args.map Bits.ofHex) with
    | some (.ok out) => some (" ".intercalate (out.toList.map Bits.toHex))
    | some (.error e) => some ("ERR " ++ e)
    | none => some ("ERR unknown-op " ++ op)
  else some "ERR bad-prec"

end Drv
