/-
  Driver/Main.lean — line protocol driver (`smoothdrv`).

  One request per input line:   <op> <group> <f64|f32> <hexword>*
  One reply per line:           <hexword>*      or     ERR <reason>
  Words are IEEE bit patterns (16 hex digits for f64, 8 for f32).  The C++ harness writes the
  same request lines followed by ` | ` and the implementation's reply; tools/check.py compares.
-/
import SmoothModel
import Driver.All

open Scalar Lin

def processLine (line : String) : String :=
  let toks := (line.trimAscii.toString.splitOn " ").filter (· ≠ "")
  match toks with
  | op :: grp :: prec :: args => Drv.runAll op grp prec args.toArray
  | _ => "ERR bad-line"

partial def loop (hin : IO.FS.Stream) (hout : IO.FS.Stream) : IO Unit := do
  let line ← hin.getLine
  if line.isEmpty then return ()
  -- the harness appends " | impl-output"; the driver only reads the request part
  let req := (line.splitOn " | ").head!
  hout.putStrLn (processLine req)
  loop hin hout

def main : IO Unit := do
  let hin ← IO.getStdin
  let hout ← IO.getStdout
  loop hin hout
  hout.flush
