/- aggregator: property theorems of C02 plus the source-tie theorems regenerated from the C++ -/
import SmoothProps.C02
import SmoothProps.SrcTie
import SmoothProps.SrcTieImplC02
import SmoothProps.SrcTieBundle
