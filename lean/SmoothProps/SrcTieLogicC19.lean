/-
  SrcTieLogicC19 — `detail/lie_group_sparse_impl.hpp` (generic `dr_exp_sparse<G, Inv>` / `d2r_exp_sparse<G, Inv>`) regenerated
  from the C++ source on every run (`SmoothModel/Gen/LogicSrcC19.lean`, tools/gen_logic2.py) IS the model `SmoothModel/Sparse.lean`
  of C19: the `if constexpr` dispatch (IsCommutative / specialised method / dense fallback), the identity writes, the choice
  `Inv ? …inv : …` of the dense matrix, and the index shifts `(i0 + r, i0 + c)` resp.
  `(i0 + r, sp.rows()·(i0 + c / Dof) + i0 + c % Dof)` of the `coeffRef` writes.
  NOT covered: the hand-written SE2/SE3 pattern tables (tied by the pattern dump T2, Gen/SparsePatterns.lean), the Bundle
  specialisation of `lie_sparse`, `ad_sparse` and the generators.   Theorem prefix: `sparse_`.
-/
import SmoothModel.Sparse
import SmoothModel.Gen.LogicSrcC19
set_option linter.unusedSimpArgs false

open Scalar Lin

namespace SrcTieLogic
variable {α : Type} [Scalar α]

section sparse
open Sparse

/-- commutative branch of `dr_exp_sparse`: `sp.coeffRef(i0 + i, i0 + i) = 1` for `i < a.size()` -/
theorem sparse_identWrites (n i0 : Nat) :
    (identWrites n i0 : List (Nat × Nat × α)) = (List.range n).map (fun i => LogicSrc.Sparse_d_ident i0 i) := rfl

/-- dense fallback of `dr_exp_sparse`: for every entry `(r, c)` of the published pattern (column-major),
    `sp.coeffRef(i0 + r, i0 + c) = D(r, c)` with `D = Inv ? dr_expinv(a) : dr_exp(a)` -/
theorem sparse_denseWrites (d : GDesc) (inv : Bool) (a : Array α) (ao i0 rows : Nat) :
    denseWrites d inv a ao i0 =
      (let G : LieModel α := GDesc.model d
       let v : Vec α G.dof := ofArray G.dof a ao
       let D := LogicSrc.Sparse_d_select inv (G.dr_exp v) (G.dr_expinv v)
       (dPattern d).map (fun k =>
         ((LogicSrc.Sparse_d_write rows (Mem.dofSize d) i0 k.1 k.2).1.1, (LogicSrc.Sparse_d_write rows (Mem.dofSize d) i0 k.1 k.2).1.2,
          getN D (LogicSrc.Sparse_d_write rows (Mem.dofSize d) i0 k.1 k.2).2.1 (LogicSrc.Sparse_d_write rows (Mem.dofSize d) i0 k.1 k.2).2.2))) := by
  unfold denseWrites LogicSrc.Sparse_d_select LogicSrc.Sparse_d_write
  simp only [memoV_eq, memoM_eq]

/-- dense fallback of `d2r_exp_sparse`: `block = i0 + c / Dof`, `row = i0 + r`, `col = i0 + c % Dof`,
    `sp.coeffRef(row, sp.rows() * block + col) = D(r, c)` with `D = Inv ? d2r_expinv(a) : d2r_exp(a)` -/
theorem sparse_denseWrites2 (d : GDesc) (inv : Bool) (rows : Nat) (a : Array α) (ao i0 : Nat) :
    denseWrites2 d inv rows a ao i0 =
      (let G : LieModel α := GDesc.model d
       let v : Vec α G.dof := ofArray G.dof a ao
       let H := LogicSrc.Sparse_d2_select inv (G.d2r_exp v) (G.d2r_expinv v)
       (d2Pattern d).map (fun k =>
         ((LogicSrc.Sparse_d2_write rows (Mem.dofSize d) i0 k.1 k.2).1.1, (LogicSrc.Sparse_d2_write rows (Mem.dofSize d) i0 k.1 k.2).1.2,
          getN H (LogicSrc.Sparse_d2_write rows (Mem.dofSize d) i0 k.1 k.2).2.1 (LogicSrc.Sparse_d2_write rows (Mem.dofSize d) i0 k.1 k.2).2.2))) := by
  unfold denseWrites2 LogicSrc.Sparse_d2_select LogicSrc.Sparse_d2_write
  simp only [memoV_eq, memoM_eq]

omit [Scalar α] in
/-- the driver-side block write with the implementation's dense matrix uses the same index shifts -/
theorem sparse_patternWrites (pat : List Key) (n rows : Nat) (hess : Bool) (i0 : Nat) (dense : Nat → Nat → α) :
    patternWrites pat n rows hess i0 dense =
      pat.map (fun k =>
        if hess then ((LogicSrc.Sparse_d2_write rows n i0 k.1 k.2).1.1, (LogicSrc.Sparse_d2_write rows n i0 k.1 k.2).1.2, dense k.1 k.2)
        else ((LogicSrc.Sparse_d_write rows n i0 k.1 k.2).1.1, (LogicSrc.Sparse_d_write rows n i0 k.1 k.2).1.2, dense k.1 k.2)) := rfl

/-- dispatch of `dr_exp_sparse<G, Inv>` / `d2r_exp_sparse<G, Inv>` for the non-Bundle groups (which have no specialised
    `lie_sparse` methods): identity writes / nothing iff `IsCommutative`, else the dense fallback over the published pattern -/
theorem sparse_dispatch (inv : Bool) (rows : Nat) (d : GDesc) (a : Array α) (ao i0 : Nat) (hd : ∀ ps, d ≠ .bundle ps) :
    dWrites inv d a ao i0 =
      (match LogicSrc.Sparse_d_route (Mem.isComm d) inv false false with
       | .identity => identWrites (Mem.dofSize d) i0
       | .dense => denseWrites d inv a ao i0
       | _ => []) ∧
    d2Writes inv rows d a ao i0 =
      (match LogicSrc.Sparse_d2_route (Mem.isComm d) inv false false with
       | .nothing => []
       | .dense => denseWrites2 d inv rows a ao i0
       | _ => []) := by
  cases d <;> first
    | exact absurd rfl (hd _)
    | (constructor <;> simp [dWrites, d2Writes, LogicSrc.Sparse_d_route, LogicSrc.Sparse_d2_route, Mem.isComm, Mem.dofSize])

end sparse
end SrcTieLogic
