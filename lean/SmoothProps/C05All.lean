/- aggregator: property theorems of C05 plus the source-tie theorems regenerated from the C++ -/
import SmoothProps.C05
import SmoothProps.SrcTie
import SmoothProps.SrcTieImplC05
import SmoothProps.SrcTieBundle
