/- aggregator: property theorems of C13 plus the source-tie theorems of the scalar decision logic regenerated from the C++ -/
import SmoothProps.C13
import SmoothProps.SrcTieLogic
