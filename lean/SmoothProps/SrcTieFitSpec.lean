/-
  SrcTieFitSpec — the spline specification types of `spline/fit.hpp` (namespace `spline_specs`), regenerated from the
  C++ source on every run (`SmoothModel/Gen/FitSpecSrc.lean`, written by tools/gen_fitspec.py), ARE the `Fit.Spec`
  values the theorems of C14 are about: `Degree`, `OptDeg` (−1 = no optimisation), `InnCnt`, and the boundary derivative
  orders `LeftDeg` / `RghtDeg` — for every value of the template parameters; and `detail::splinespec_max_deriv`, `N_coef`,
  `N_eq` of `spline/detail/fit_impl.hpp` are the model's `Spec.D`, `Spec.nCoef`, `Spec.nEq` for every specification.

  Theorem prefix: `fitspec_`.
-/
import SmoothModel.Fit
import SmoothModel.Gen.FitSpecSrc

namespace SrcTieFitSpec
open Fit FitSpecSrc

/-- a model specification and the compile-time members read from the source describe the same type -/
def Agree (s : Fit.Spec) (r : RawSpec) : Prop :=
  (s.K : Int) = r.Degree
  ∧ (match s.optDeg with | none => (-1 : Int) | some o => (o : Int)) = r.OptDeg
  ∧ s.innCnt = r.InnCnt
  ∧ s.leftDeg.map Int.ofNat = r.LeftDeg
  ∧ s.rghtDeg.map Int.ofNat = r.RghtDeg

/-- `PiecewiseLinear<G> = NoConstraints<G, 1>`: degree 1, no optimisation, `InnCnt = 0`, no boundary constraints -/
theorem fitspec_piecewiseLinear : Agree Fit.piecewiseLinear FitSpecSrc.PiecewiseLinear := by
  refine ⟨rfl, rfl, rfl, rfl, rfl⟩

/-- `NoConstraints<G, K>` for every degree: `InnCnt = K − 1` (so −1 for `PiecewiseConstant`) -/
theorem fitspec_noConstraints (K : Nat) :
    Agree ⟨K, none, (K : Int) - 1, [], []⟩ (FitSpecSrc.NoConstraints K) := ⟨rfl, rfl, rfl, rfl, rfl⟩

/-- `PiecewiseConstant<G> = NoConstraints<G, 0>` has `InnCnt = −1` -/
theorem fitspec_piecewiseConstant : FitSpecSrc.PiecewiseConstant.InnCnt = -1 ∧ FitSpecSrc.PiecewiseConstant.Degree = 0 := ⟨rfl, rfl⟩

/-- `FixedDerCubic<G, P1, P2>`: the LEFT boundary order is `P1` and the RIGHT one `P2`, for all `P1`, `P2` -/
theorem fitspec_fixedDerCubic (p1 p2 : Nat) : Agree (Fit.fixedDerCubic p1 p2) (FitSpecSrc.FixedDerCubic p1 p2) :=
  ⟨rfl, rfl, rfl, rfl, rfl⟩

/-- the loop of `MinDerivative::LeftDeg` reaches every index of the array: the generated list equals `1, …, P − 1` -/
theorem fitspec_range_map (P : Nat) :
    ((List.range (P - 1)).map (· + 1)).map Int.ofNat =
      (List.range (Int.toNat ((P : Int) - 1))).map (fun (_n : Nat) => let i : Int := (_n : Int); if i + 1 < (P : Int) then i + 1 else uninit) := by
  have h : Int.toNat ((P : Int) - 1) = P - 1 := by omega
  rw [h, List.map_map]
  apply List.map_congr_left
  intro n hn
  have hn' : n < P - 1 := List.mem_range.mp hn
  have : ((n : Int) + 1 < (P : Int)) := by omega
  simp only [Function.comp, this, if_true]
  rfl

/-- `MinDerivative<G, K, O, P>`: `LeftDeg = RghtDeg = (1, …, P − 1)` — every entry of the arrays is written by the loop
    (no `uninit` entry), for all `K`, `O`, `P` -/
theorem fitspec_minDerivative (K O P : Nat) : Agree (Fit.minDerivative K O P) (FitSpecSrc.MinDerivative K O P) := by
  refine ⟨rfl, rfl, rfl, ?_, ?_⟩ <;> exact fitspec_range_map P

/-- the default template arguments: `FixedDerCubic<G>` = `<G, 2, 2>` (`P2 = P1`), `MinDerivative<G>` = `<G, 6, 3, 3>` -/
theorem fitspec_defaults :
    FitSpecSrc.FixedDerCubic_defaults = [("P1", "2"), ("P2", "P1")]
    ∧ FitSpecSrc.MinDerivative_defaults = [("K", "6"), ("O", "3"), ("P", "3")] := ⟨rfl, rfl⟩

/-! ### `detail/fit_impl.hpp`: `splinespec_max_deriv`, `N_coef`, `N_eq` -/

theorem fitspec_foldl_max (l : List Nat) (a : Nat) :
    ((l.foldl Nat.max a : Nat) : Int) = (l.map Int.ofNat).foldl max (a : Int) := by
  induction l generalizing a with
  | nil => rfl
  | cons x xs ih =>
    simp only [List.foldl_cons, List.map_cons]
    rw [ih]
    congr 1
    show ((Nat.max a x : Nat) : Int) = max (a : Int) (Int.ofNat x)
    simp only [Nat.max_def, Int.ofNat_eq_natCast]
    split <;> omega

/-- `detail::splinespec_max_deriv<SS>()` is the model's `Spec.D`, for every specification type -/
theorem fitspec_maxDeriv (s : Fit.Spec) (r : RawSpec) (h : Agree s r) : (s.D : Int) = FitSpecSrc.maxDeriv r := by
  obtain ⟨_, _, hI, hL, hR⟩ := h
  unfold Fit.Spec.D FitSpecSrc.maxDeriv
  rw [List.foldl_append, fitspec_foldl_max, fitspec_foldl_max, hL, hR, ← hI]
  congr 2
  omega

/-- `N_coef` and `N_eq` of `fit_spline_1d` as the model counts them, for `N ≥ 1` segments -/
theorem fitspec_counts (s : Fit.Spec) (r : RawSpec) (h : Agree s r) (N : Nat) (hN : 1 ≤ N) :
    (s.nCoef N : Int) = FitSpecSrc.nCoef r N ∧ (s.nEq N : Int) = FitSpecSrc.nEq r N := by
  obtain ⟨hK, _, hI, hL, hR⟩ := h
  have hl : (r.LeftDeg.length : Int) = s.leftDeg.length := by rw [← hL, List.length_map]
  have hr : (r.RghtDeg.length : Int) = s.rghtDeg.length := by rw [← hR, List.length_map]
  constructor
  · unfold Fit.Spec.nCoef FitSpecSrc.nCoef
    rw [← hK]; simp only [Int.natCast_mul, Int.natCast_add, Int.cast_ofNat_Int]
  · unfold Fit.Spec.nEq FitSpecSrc.nEq
    rw [hl, hr, ← hI]
    by_cases h0 : 0 ≤ s.innCnt <;> by_cases h1 : 0 < s.innCnt <;>
      simp only [h0, h1, if_true, if_false, Int.natCast_add, Int.natCast_mul, Int.natCast_sub hN,
        Int.toNat_of_nonneg, Int.natCast_zero, Int.natCast_one] <;> try omega

end SrcTieFitSpec
