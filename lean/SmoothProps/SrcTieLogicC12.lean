/-
  SrcTieLogicC12 — `spline/detail/spline_impl.hpp` regenerated from the C++ source on every run
  (`SmoothModel/Gen/LogicSrcC12.lean`, written by tools/gen_logic2.py) IS the hand-written state machine
  `SmoothModel/Spline.lean` the theorems of C12 are about: accessors, `make_local`, `concat_global`, `concat_local`,
  `operator+=` (statement order on the evolving state), the index / offset logic and all scalar formulas of
  `operator()`, `arclength` and `crop` (the model's literal transcription `cropIdx`), and the clamp of `find_idx`.

  Everything is over an arbitrary time type `[TimeOps τ]` and an arbitrary kernel `C : Ker τ G W`; the proofs unfold, split on
  the branch conditions and use list-structure lemmas only (`modAt`/`modLast`/`map`) — no arithmetic law of `τ`.

  Theorem prefix: `spline_`.
-/
import SmoothModel.Spline
import SmoothModel.Gen.LogicSrcC12
set_option linter.unusedSimpArgs false

namespace SrcTieLogic
open SplineSM SplineSM.TimeOps
variable {τ G W : Type} [TimeOps τ] (C : Ker τ G W)

section spline

omit [TimeOps τ] in
theorem spline_size (s : Spline τ G W) : size s = LogicSrc.Spline_size s := rfl

omit [TimeOps τ] in
theorem spline_empty (s : Spline τ G W) : LogicSrc.Spline_empty s ↔ s.segs = [] := by
  unfold LogicSrc.Spline_empty size
  exact List.length_eq_zero_iff

/-- `t_max()`, `end()`, `t_min()`, `start()`: `back()` is the last segment -/
theorem spline_accessors (s : Spline τ G W) (last : Seg τ G W) (h : s.segs.getLast? = some last ∨ s.segs = []) :
    tMax s = LogicSrc.Spline_t_max s last ∧ endG s = LogicSrc.Spline_end s last ∧
    (zero : τ) = LogicSrc.Spline_t_min s last ∧ start s = LogicSrc.Spline_start s last := by
  unfold tMax endG LogicSrc.Spline_t_max LogicSrc.Spline_end size
  rcases h with h | h
  · have hne : s.segs.length ≠ 0 := by
      intro h0
      rw [List.length_eq_zero_iff.mp h0] at h
      simp at h
    refine ⟨?_, ?_, rfl, rfl⟩ <;> simp only [h, hne, if_false]
  · refine ⟨?_, ?_, rfl, rfl⟩ <;> simp only [h, List.getLast?_nil, List.length_nil, if_true]

omit [TimeOps τ] in
/-- `make_local()`: only `m_g0 = Identity<G>()` -/
theorem spline_make_local (s o : Spline τ G W) : makeLocal C s = LogicSrc.Spline_make_local C s o := rfl

omit [TimeOps τ] in
theorem spline_modAt_length_pred {α : Type} (f : α → α) (l : List α) : modAt f (l.length - 1) l = modLast f l := by
  induction l with
  | nil => rfl
  | cons a r ih =>
    cases r with
    | nil => rfl
    | cons b r' =>
      show modAt f (r'.length + 1) (a :: b :: r') = a :: modLast f (b :: r')
      rw [← ih]
      rfl

/-- `concat_global(other)`: `tend = t_max()` BEFORE the state changes, `m_end_g[N1 - 1] = other.m_g0` (or `m_g0` when
    empty), then the five vectors grow by `other`'s entries with `tend` added to the end times -/
theorem spline_concat_global (s o : Spline τ G W) : concatGlobal s o = LogicSrc.Spline_concat_global C s o := by
  unfold concatGlobal LogicSrc.Spline_concat_global size
  cases hs : s.segs with
  | nil => simp [hs]
  | cons a r =>
    have : modAt (fun sg : Seg τ G W => { sg with gEnd := o.g0 }) r.length (a :: r) =
        modLast (fun sg => { sg with gEnd := o.g0 }) (a :: r) := spline_modAt_length_pred _ (a :: r)
    simp [hs, this]

/-- `concat_local(other)`: `tend = t_max()`, `gend = end()` BEFORE the state changes -/
theorem spline_concat_local (s o : Spline τ G W) : concatLocal C s o = LogicSrc.Spline_concat_local C s o := by
  unfold concatLocal LogicSrc.Spline_concat_local size
  cases hs : s.segs with
  | nil => simp [hs]
  | cons a r => simp [hs]

/-- `operator+=(other)` is `concat_local(other)` -/
theorem spline_op_plus_assign (s o : Spline τ G W) : concatLocal C s o = LogicSrc.Spline_op_plus_assign C s o :=
  spline_concat_local C s o

/-- `operator()`: the two early returns -/
theorem spline_eval_outside (s : Spline τ G W) (t : τ) :
    eval C s t =
      if size s = 0 ∨ t < zero then (s.g0, C.wzero, C.wzero)
      else if tMax s < t then (endG s, C.wzero, C.wzero)
      else evalFrom C s.g0 zero s.segs t := by
  unfold eval size
  cases hs : s.segs with
  | nil => simp
  | cons a r =>
    by_cases h1 : t < zero <;> simp [h1]

/-- `operator()` on segment `istar`: `ta = istar == 0 ? 0 : m_end_t[istar-1]`, `T`, `u = clamp(T0 + Del (t − ta) / T, 0, 1)`,
    `g0 = istar == 0 ? m_g0 : m_end_g[istar-1]` with the compensation `g0 ∘ c(T0)⁻¹` for cropped intervals (`T0 > 0`), the
    scalings `Del / T` and `Del² / T²` — the model's `evalSeg` -/
theorem spline_eval_segment (s : Spline τ G W) (t : τ) (istar : Nat) (etp : τ) (egp : G) (sg : Seg τ G W) :
    LogicSrc.Spline_eval C s t istar etp egp sg =
      if size s = 0 ∨ t < zero then (s.g0, C.wzero, C.wzero)
      else if tMax s < t then (endG s, C.wzero, C.wzero)
      else evalSeg C (if istar = 0 then s.g0 else egp) (if istar = 0 then zero else etp) sg t := by
  unfold LogicSrc.Spline_eval evalSeg
  by_cases h1 : size s = 0 ∨ t < zero
  · simp only [h1, if_true]
  · by_cases h2 : tMax s < t
    · simp only [h1, h2, if_true, if_false]
    · simp only [h1, h2, if_false]

omit [TimeOps τ] in
/-- `find_idx`: `istar = min(distance(begin, it) + 1, size − 1)` if the search succeeds, else 0 -/
theorem spline_find_idx (n k : Nat) :
    LogicSrc.Spline_find_idx n none = 0 ∧ LogicSrc.Spline_find_idx n (some k) = min (k + 1) (n - 1) := ⟨rfl, rfl⟩

/-- `arclength(t)`: `ret = 0`, `t = max(t, 0)` -/
theorem spline_arclength_init (s : Spline τ G W) (t : τ) :
    arclength C s t = arcFrom C (LogicSrc.Spline_arclength_init C t).2 true zero s.segs (LogicSrc.Spline_arclength_init C t).1 := rfl

/-- `arclength(t)`, loop body at `i = 0` and at `i > 0`: the break test `i > 0 && t <= m_end_t[i-1]`, `ta`, `ua`,
    `ub = ua + Del (min(t, tb) − ta) / (tb − ta)` -/
theorem spline_arclength_step (t tp etp : τ) (i : Nat) (sg : Seg τ G W) (rest : List (Seg τ G W)) (acc : W) :
    arcFrom C t true zero (sg :: rest) acc =
      (match LogicSrc.Spline_arclength_step C t 0 etp sg acc with
       | none => acc
       | some r => arcFrom C t false sg.tEnd rest r) ∧
    arcFrom C t false tp (sg :: rest) acc =
      (match LogicSrc.Spline_arclength_step C t (i + 1) tp sg acc with
       | none => acc
       | some r => arcFrom C t false sg.tEnd rest r) := by
  constructor
  · rw [arcFrom]; simp [LogicSrc.Spline_arclength_step]
  · rw [arcFrom]
    by_cases h : t ≤ tp <;> simp [LogicSrc.Spline_arclength_step, h]

/-! ### crop -/

/-- map with the running index -/
def mapFrom {α β : Type} (f : Nat → α → β) : Nat → List α → List β
  | _, [] => []
  | k, a :: r => f k a :: mapFrom f (k + 1) r

omit [TimeOps τ] in
theorem spline_mapFrom_no_hit {α β : Type} (F H : α → β) (n : Nat) (l : List α) : ∀ k, n < k →
    mapFrom (fun i a => if i = n then F a else H a) k l = l.map H := by
  induction l with
  | nil => intro k _; rfl
  | cons a r ih =>
    intro k hk
    have : ¬ k = n := by omega
    simp only [mapFrom, this, if_false, List.map_cons]
    rw [ih (k + 1) (by omega)]

omit [TimeOps τ] in
theorem spline_mapFrom_hit {α β : Type} (F H : α → β) (upd : β → β) (hF : ∀ a, F a = upd (H a)) (n : Nat) (l : List α) : ∀ k, k ≤ n →
    mapFrom (fun i a => if i = n then F a else H a) k l = modAt upd (n - k) (l.map H) := by
  induction l with
  | nil => intro k _; show [] = modAt upd (n - k) []; cases (n - k) <;> rfl
  | cons a r ih =>
    intro k hk
    by_cases h : k = n
    · subst h
      rw [mapFrom, if_pos rfl, spline_mapFrom_no_hit F H k r (k + 1) (by omega), hF a, Nat.sub_self]
      rfl
    · have e : n - k = (n - (k + 1)) + 1 := by omega
      simp only [mapFrom, h, if_false, List.map_cons, e, modAt]
      rw [ih (k + 1) (by omega)]

/-- `crop(ta, tb, localize)` — the model's literal index transcription `cropIdx` assembled from the regenerated pieces:
    interval clamp and empty return; `(i0, Nseg)` incl. the `m_end_t[i0+Nseg-2] == tb` decrement and the `Nseg == 0`
    return; element `i` of the five new vectors (copy loop, last element special); the re-parameterisation of the first and
    of the last new segment; `ret.m_g0` -/
theorem spline_cropIdx (s : Spline τ G W) (ta tb : τ) (loc : Bool) :
    cropIdx C s ta tb loc =
      match LogicSrc.Spline_crop_interval s ta tb with
      | none => empty C.one
      | some (ta', tb') =>
        match LogicSrc.Spline_crop_range (endT s) (findIdx s ta') (findIdx s tb') tb' with
        | none => empty C.one
        | some (i0, Nseg) =>
          let ga := val C s ta'
          let gb := val C s tb'
          let l1 := mapFrom (fun i sg => LogicSrc.Spline_crop_copy C i Nseg sg ta' tb' ga gb loc) 0 ((s.segs.drop i0).take Nseg)
          let l2 := modAt (fun sg => { sg with T0 := (LogicSrc.Spline_crop_first (endT s) i0 Nseg ta' tb' sg.T0 sg.Del).1,
                                               Del := (LogicSrc.Spline_crop_first (endT s) i0 Nseg ta' tb' sg.T0 sg.Del).2 }) 0 l1
          let l3 := modAt (fun sg => { sg with T0 := (LogicSrc.Spline_crop_last (endT s) i0 Nseg ta' tb' sg.T0 sg.Del).1,
                                               Del := (LogicSrc.Spline_crop_last (endT s) i0 Nseg ta' tb' sg.T0 sg.Del).2 }) (Nseg - 1) l2
          ⟨LogicSrc.Spline_crop_g0 C (val C s ta') loc, l3⟩ := by
  unfold cropIdx LogicSrc.Spline_crop_interval
  by_cases h1 : tmin tb (tMax s) ≤ tmax ta zero
  · simp only [h1, if_true]
  · simp only [h1, if_false]
    unfold LogicSrc.Spline_crop_range
    generalize tmax ta zero = ta'
    generalize tmin tb (tMax s) = tb'
    simp only []
    generalize hN0 : findIdx s tb' + 1 - findIdx s ta' = N0
    have hcopy : ∀ Nseg, (fun i sg => LogicSrc.Spline_crop_copy C i Nseg sg ta' tb' (val C s ta') (val C s tb') loc) =
        (fun i (sg : Seg τ G W) => if i = Nseg - 1
          then (⟨tb' - ta', if loc then C.mul (C.inv (val C s ta')) (val C s tb') else val C s tb', sg.V, sg.T0, sg.Del⟩ : Seg τ G W)
          else ⟨sg.tEnd - ta', if loc then C.mul (C.inv (val C s ta')) sg.gEnd else sg.gEnd, sg.V, sg.T0, sg.Del⟩) := by
      intro Nseg; funext i sg
      unfold LogicSrc.Spline_crop_copy
      by_cases h : i = Nseg - 1 <;> cases loc <;> simp [h]
    have hl1 : ∀ Nseg (src : List (Seg τ G W)),
        mapFrom (fun i sg => LogicSrc.Spline_crop_copy C i Nseg sg ta' tb' (val C s ta') (val C s tb') loc) 0 src =
        modAt (fun sg => { sg with tEnd := tb' - ta', gEnd := if loc then C.mul (C.inv (val C s ta')) (val C s tb') else val C s tb' })
          (Nseg - 1) (src.map (fun sg => { sg with tEnd := sg.tEnd - ta', gEnd := if loc then C.mul (C.inv (val C s ta')) sg.gEnd else sg.gEnd })) := by
      intro Nseg src
      rw [hcopy]
      exact spline_mapFrom_hit
        (fun sg : Seg τ G W => (⟨tb' - ta', if loc then C.mul (C.inv (val C s ta')) (val C s tb') else val C s tb', sg.V, sg.T0, sg.Del⟩ : Seg τ G W))
        (fun sg => ⟨sg.tEnd - ta', if loc then C.mul (C.inv (val C s ta')) sg.gEnd else sg.gEnd, sg.V, sg.T0, sg.Del⟩)
        (fun sg => { sg with tEnd := tb' - ta', gEnd := if loc then C.mul (C.inv (val C s ta')) (val C s tb') else val C s tb' })
        (fun a => rfl) (Nseg - 1) src 0 (Nat.zero_le _)
    simp only [Bool.and_eq_true, decide_eq_true_eq, ge_iff_le]
    by_cases h2 : 2 ≤ N0 ∧ teq (endT s (findIdx s ta' + N0 - 2)) tb' = true
    · simp only [if_pos h2]
      generalize N0 - 1 = N
      by_cases h3 : N = 0
      · simp only [if_pos h3]
      · simp only [if_neg h3, hl1]
        rfl
    · simp only [if_neg h2]
      by_cases h3 : N0 = 0
      · simp only [if_pos h3]
      · simp only [if_neg h3, hl1]
        rfl

end spline
end SrcTieLogic
