/- aggregator: property theorems of C12 plus the source-tie theorems of the logic regenerated from the C++ (tools/gen_logic2.py) -/
import SmoothProps.C12
import SmoothProps.SrcTieLogicC12
