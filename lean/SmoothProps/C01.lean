/-
  C01 — Group operations realise the documented matrix group (property theorems).

  For every supported group (SO2, SO3, SE2, SE3, C1, Tn, Galilei, SE_K_3 for every K, and Bundles
  of these, nested arbitrarily) the model of the coefficient-level operations satisfies, over ℝ,

    matrix (g₁ ∘ g₂) = matrix g₁ · matrix g₂        matrix (inverse g) · matrix g = 1 = matrix g · matrix (inverse g)
    matrix identity = 1                              g * v = the point rows of matrix g · (v, 1)

  under the representation constraint of the group (unit rotation part; `a² + b² ≠ 0` for C1; none
  for Tn), and the constraint is preserved by the operations.  `mmul`, `ident`, `mulVec` are the
  model's matrix product / identity / matrix–vector product; `Lin.toM_mmul`, `Lin.toM_ident`,
  `Lin.toV_mulVec` (SmoothProofs/C01Base.lean) identify them with Mathlib's `*`, `1`, `Matrix.mulVec`.

  What is NOT needed / what fails without the constraint is stated too:
  * SO2, C1, Tn, SE2 composition: no constraint (polynomial identity).
  * SO3-based composition: `SO3.matrix` is Eigen's non-normalising `toRotationMatrix`, the constraint
    is necessary (`so3_matrix_composition_needs_unit`).
  * `SO3.act` (Eigen `_transformVector`) equals `matrix q · v` for ALL quaternions.
  * coefficient-level associativity of SO3 holds up to the sign of the quaternion
    (`so3_composition_assoc_coeffs`), exactly when `w ≠ 0` (`so3_composition_assoc_of_w_ne_zero`),
    and genuinely fails for a half-turn product (`so3_composition_not_assoc`); through `matrix`
    it always holds (`matrix_assoc`).

  Helper lemmas: SmoothProofs/C01{Base,Group,Block,Small,SO3,SE3,Bundle}.lean.
-/
import SmoothProofs.C01Bundle
import Mathlib.Tactic.NormNum

open Lin Scalar

namespace C01

/-! ## Witnesses used by the non-vacuity examples -/

/-- rotation by `2·atan2(3,4)` about x: a non-trivial unit quaternion with `w > 0` -/
noncomputable def qA : Vec ℝ 4 := mk4 (3 / 5) 0 0 (4 / 5)
/-- half turn about y (`w = 0`) -/
noncomputable def qB : Vec ℝ 4 := mk4 0 1 0 0
/-- a unit quaternion with all coefficients non-zero -/
noncomputable def qC : Vec ℝ 4 := mk4 (1 / 2) (-1 / 2) (1 / 2) (1 / 2)
/-- a unit complex number (sin, cos) = (3/5, 4/5) -/
noncomputable def zA : Vec ℝ 2 := mk2 (3 / 5) (4 / 5)

theorem qA_unit : SO3.Unit qA := by simp [SO3.Unit, qA, mk4, Vec.of]; norm_num
theorem qB_unit : SO3.Unit qB := by simp [SO3.Unit, qB, mk4, Vec.of]
theorem qC_unit : SO3.Unit qC := by simp [SO3.Unit, qC, mk4, Vec.of]; norm_num
theorem zA_unit : SO2.Unit zA := by simp [SO2.Unit, zA, mk2, Vec.of]; norm_num

/-! ## SO2 -/

/-- SO2: `matrix (g₁ ∘ g₂) = matrix g₁ · matrix g₂` for all coefficient pairs (no constraint). -/
theorem so2_matrix_composition (a b : Vec ℝ 2) :
    SO2.matrix (SO2.composition a b) = mmul (SO2.matrix a) (SO2.matrix b) :=
  SO2.matrix_composition a b

theorem so2_matrix_identity : SO2.matrix (SO2.identity : Vec ℝ 2) = ident 2 := SO2.matrix_identity

/-- SO2: `inverse` (the conjugate) gives the inverse matrix on unit elements. -/
theorem so2_matrix_inverse (g : Vec ℝ 2) (h : SO2.Unit g) :
    mmul (SO2.matrix (SO2.inverse g)) (SO2.matrix g) = ident 2 ∧
    mmul (SO2.matrix g) (SO2.matrix (SO2.inverse g)) = ident 2 :=
  ⟨SO2.matrix_inverse_left g h, SO2.matrix_inverse_right g h⟩
example : SO2.Unit zA := zA_unit

theorem so2_unit_identity : SO2.Unit (SO2.identity : Vec ℝ 2) := SO2.unit_identity
theorem so2_unit_composition (a b : Vec ℝ 2) (ha : SO2.Unit a) (hb : SO2.Unit b) :
    SO2.Unit (SO2.composition a b) := SO2.unit_composition a b ha hb
example : SO2.Unit zA ∧ SO2.Unit (SO2.composition zA zA) :=
  ⟨zA_unit, SO2.unit_composition _ _ zA_unit zA_unit⟩
theorem so2_unit_inverse (g : Vec ℝ 2) (h : SO2.Unit g) : SO2.Unit (SO2.inverse g) :=
  SO2.unit_inverse g h
example : SO2.Unit zA := zA_unit

/-- SO2: `g * v` is `matrix g · v`, i.e. `(qw x − qz y, qz x + qw y)`. -/
theorem so2_action_eq_matrix (g v : Vec ℝ 2) :
    SO2.act g v = mulVec (SO2.matrix g) v ∧
    SO2.act g v = mk2 (g 1 * v 0 - g 0 * v 1) (g 0 * v 0 + g 1 * v 1) :=
  ⟨rfl, SO2.act_eq g v⟩

/-! ## C1 -/

theorem c1_matrix_composition (a b : Vec ℝ 2) :
    C1.matrix (C1.composition a b) = mmul (C1.matrix a) (C1.matrix b) :=
  C1.matrix_composition a b

theorem c1_matrix_identity : C1.matrix (C1.identity : Vec ℝ 2) = ident 2 := C1.matrix_identity

/-- C1: `inverse` divides by `a² + b²`; it gives the inverse matrix whenever that is non-zero. -/
theorem c1_matrix_inverse (g : Vec ℝ 2) (h : C1.Valid g) :
    mmul (C1.matrix (C1.inverse g)) (C1.matrix g) = ident 2 ∧
    mmul (C1.matrix g) (C1.matrix (C1.inverse g)) = ident 2 :=
  ⟨C1.matrix_inverse_left g h, C1.matrix_inverse_right g h⟩
example : C1.Valid (mk2 3 (-4) : Vec ℝ 2) := by simp [C1.Valid, mk2, Vec.of]; norm_num

theorem c1_valid_identity : C1.Valid (C1.identity : Vec ℝ 2) := C1.valid_identity
theorem c1_valid_composition (a b : Vec ℝ 2) (ha : C1.Valid a) (hb : C1.Valid b) :
    C1.Valid (C1.composition a b) := C1.valid_composition a b ha hb
example : C1.Valid (mk2 3 (-4) : Vec ℝ 2) := by simp [C1.Valid, mk2, Vec.of]; norm_num
theorem c1_valid_inverse (g : Vec ℝ 2) (h : C1.Valid g) : C1.Valid (C1.inverse g) :=
  C1.valid_inverse g h
example : C1.Valid (mk2 3 (-4) : Vec ℝ 2) := by simp [C1.Valid, mk2, Vec.of]; norm_num

/-- the squared modulus (scaling²) is multiplicative -/
theorem c1_sqnorm_composition (a b : Vec ℝ 2) :
    (C1.composition a b) 0 ^ 2 + (C1.composition a b) 1 ^ 2
      = (a 0 ^ 2 + a 1 ^ 2) * (b 0 ^ 2 + b 1 ^ 2) := C1.sqnorm_composition a b

theorem c1_action_eq_matrix (g v : Vec ℝ 2) :
    C1.act g v = mulVec (C1.matrix g) v ∧
    C1.act g v = mk2 (g 1 * v 0 - g 0 * v 1) (g 0 * v 0 + g 1 * v 1) :=
  ⟨rfl, C1.act_eq g v⟩

/-! ## Tn n (translations; also Eigen vectors and built-in scalars), every n -/

theorem tn_matrix_composition {n : Nat} (a b : Vec ℝ n) :
    Tn.matrix (Tn.composition a b) = mmul (Tn.matrix a) (Tn.matrix b) := Tn.matrix_composition a b

theorem tn_matrix_identity (n : Nat) : Tn.matrix (Tn.identity n : Vec ℝ n) = ident (n + 1) :=
  Tn.matrix_identity n

theorem tn_matrix_inverse {n : Nat} (g : Vec ℝ n) :
    mmul (Tn.matrix (Tn.inverse g)) (Tn.matrix g) = ident (n + 1) ∧
    mmul (Tn.matrix g) (Tn.matrix (Tn.inverse g)) = ident (n + 1) :=
  ⟨Tn.matrix_inverse_left g, Tn.matrix_inverse_right g⟩

/-! ## SE2 -/

theorem se2_matrix_composition (a b : Vec ℝ 4) :
    SE2.matrix (SE2.composition a b) = mmul (SE2.matrix a) (SE2.matrix b) :=
  SE2.matrix_composition a b

theorem se2_matrix_identity : SE2.matrix (SE2.identity : Vec ℝ 4) = ident 3 := SE2.matrix_identity

noncomputable def se2A : Vec ℝ 4 := mk4 1 (-2) (3 / 5) (4 / 5)
theorem se2A_unit : SE2.Unit se2A := by simp [SE2.Unit, se2A, mk4, Vec.of]; norm_num

theorem se2_matrix_inverse (g : Vec ℝ 4) (h : SE2.Unit g) :
    mmul (SE2.matrix (SE2.inverse g)) (SE2.matrix g) = ident 3 ∧
    mmul (SE2.matrix g) (SE2.matrix (SE2.inverse g)) = ident 3 :=
  ⟨SE2.matrix_inverse_left g h, SE2.matrix_inverse_right g h⟩
example : SE2.Unit se2A := se2A_unit

theorem se2_unit_identity : SE2.Unit (SE2.identity : Vec ℝ 4) := SE2.unit_identity
theorem se2_unit_composition (a b : Vec ℝ 4) (ha : SE2.Unit a) (hb : SE2.Unit b) :
    SE2.Unit (SE2.composition a b) := SE2.unit_composition a b ha hb
example : SE2.Unit se2A := se2A_unit
theorem se2_unit_inverse (g : Vec ℝ 4) (h : SE2.Unit g) : SE2.Unit (SE2.inverse g) :=
  SE2.unit_inverse g h
example : SE2.Unit se2A := se2A_unit

/-- SE2: `matrix g · (v, 1) = (g * v, 1)` for all coefficients. -/
theorem se2_action_eq_matrix (g : Vec ℝ 4) (v : Vec ℝ 2) :
    mulVec (SE2.matrix g) (SE2.embed v) = SE2.embed (SE2.act g v) := SE2.act_eq_matrix g v

/-! ## SO3 -/

/-- the sign canonicalisation `if w < 0 then q := −q` is invisible through `matrix` (all q) -/
theorem so3_matrix_canon (q : Vec ℝ 4) : SO3.matrix (SO3.canon q) = SO3.matrix q := SO3.matrix_canon q

/-- Eigen's `toRotationMatrix` is the homogeneous rotation matrix plus `(1 − ‖q‖²)·1` (all q) -/
theorem so3_matrix_eq_rotH_add (q : Vec ℝ 4) (i j : Fin 3) :
    (SO3.matrix q) i j = (SO3.rotH q) i j + (1 - SO3.sqn q) * (ident 3 : Mat ℝ 3 3) i j :=
  SO3.matrix_eq_rotH_add q i j

/-- the homogeneous rotation matrix is multiplicative on ALL quaternions -/
theorem so3_rotH_qmul (a b : Vec ℝ 4) : SO3.rotH (SO3.qmul a b) = mmul (SO3.rotH a) (SO3.rotH b) :=
  SO3.rotH_qmul a b

theorem so3_matrix_composition (a b : Vec ℝ 4) (ha : SO3.Unit a) (hb : SO3.Unit b) :
    SO3.matrix (SO3.composition a b) = mmul (SO3.matrix a) (SO3.matrix b) :=
  SO3.matrix_composition a b ha hb
example : SO3.Unit qA ∧ SO3.Unit qB := ⟨qA_unit, qB_unit⟩

/-- the unit hypothesis is necessary: `q = (1,0,0,1)` (norm² 2) squares to `(2,0,0,0)` and entry
    (1,1) of `matrix (q∘q)` is −7 while that of `matrix q · matrix q` is −3. -/
theorem so3_matrix_composition_needs_unit :
    ∃ a b : Vec ℝ 4, SO3.matrix (SO3.composition a b) ≠ mmul (SO3.matrix a) (SO3.matrix b) := by
  refine ⟨mk4 1 0 0 1, mk4 1 0 0 1, fun h => ?_⟩
  have h11 := congrArg (fun M : Mat ℝ 3 3 => M 1 1) h
  simp [SO3.composition, SO3.canon, SO3.qmul, SO3.matrix, mmul, vsum, mat3, mk4, Vec.of, Mat.of] at h11
  norm_num at h11

theorem so3_matrix_identity : SO3.matrix (SO3.identity : Vec ℝ 4) = ident 3 := SO3.matrix_identity

/-- the quaternion norm is multiplicative (all quaternions) -/
theorem so3_sqn_qmul (a b : Vec ℝ 4) : SO3.sqn (SO3.qmul a b) = SO3.sqn a * SO3.sqn b :=
  SO3.sqn_qmul a b

theorem so3_unit_identity : SO3.Unit (SO3.identity : Vec ℝ 4) := SO3.unit_identity
theorem so3_unit_canon (q : Vec ℝ 4) (h : SO3.Unit q) : SO3.Unit (SO3.canon q) := SO3.unit_canon q h
example : SO3.Unit (vneg qA) ∧ (vneg qA) 3 < 0 :=
  ⟨SO3.unit_vneg _ qA_unit, by norm_num [vneg, qA, mk4, Vec.of]⟩
theorem so3_unit_composition (a b : Vec ℝ 4) (ha : SO3.Unit a) (hb : SO3.Unit b) :
    SO3.Unit (SO3.composition a b) := SO3.unit_composition a b ha hb
example : SO3.Unit qA ∧ SO3.Unit qC := ⟨qA_unit, qC_unit⟩
theorem so3_unit_inverse (g : Vec ℝ 4) (h : SO3.Unit g) : SO3.Unit (SO3.inverse g) :=
  SO3.unit_inverse g h
example : SO3.Unit qC := qC_unit

/-- the result of `composition` always has `w ≥ 0` -/
theorem so3_canon_composition (a b : Vec ℝ 4) : SO3.Canon (SO3.composition a b) :=
  SO3.canon_composition a b

/-- Eigen's `inverse()` (conjugate / squaredNorm) is the conjugate on unit quaternions -/
theorem so3_inverse_of_unit (g : Vec ℝ 4) (h : SO3.Unit g) : SO3.inverse g = SO3.conj g :=
  SO3.inverse_of_unit g h
example : SO3.Unit qC := qC_unit

theorem so3_matrix_inverse (g : Vec ℝ 4) (h : SO3.Unit g) :
    mmul (SO3.matrix (SO3.inverse g)) (SO3.matrix g) = ident 3 ∧
    mmul (SO3.matrix g) (SO3.matrix (SO3.inverse g)) = ident 3 :=
  ⟨SO3.matrix_inverse_left g h, SO3.matrix_inverse_right g h⟩
example : SO3.Unit qC := qC_unit

/-- Eigen's `_transformVector` (`v + w·2(u×v) + u×(2(u×v))`) equals `toRotationMatrix(q) · v` for
    ALL quaternions (both are the same non-normalising polynomial) — no unit hypothesis. -/
theorem so3_action_eq_matrix (g : Vec ℝ 4) (v : Vec ℝ 3) : SO3.act g v = mulVec (SO3.matrix g) v :=
  SO3.act_eq_matrix g v

/-- coefficient-level associativity up to the sign of the quaternion (all quaternions) -/
theorem so3_composition_assoc_coeffs (a b c : Vec ℝ 4) :
    SO3.composition (SO3.composition a b) c = SO3.composition a (SO3.composition b c) ∨
    SO3.composition (SO3.composition a b) c = vneg (SO3.composition a (SO3.composition b c)) :=
  SO3.composition_assoc_pm a b c

/-- … with equality whenever the `w` of the (unsigned) triple product is non-zero -/
theorem so3_composition_assoc_of_w_ne_zero (a b c : Vec ℝ 4)
    (hw : (SO3.qmul (SO3.qmul a b) c) 3 ≠ 0) :
    SO3.composition (SO3.composition a b) c = SO3.composition a (SO3.composition b c) :=
  SO3.composition_assoc_of_w_ne_zero a b c hw
example : (SO3.qmul (SO3.qmul qA qC) qA) 3 ≠ 0 := by
  norm_num [SO3.qmul, qA, qC, mk4, Vec.of]

/-- coefficient-level associativity genuinely fails when the triple product is a half turn:
    with `a` = half turn about x, `b = qA`, `c` = half turn about y, the two bracketings are the
    two different unit quaternions `±(0, 3/5, −4/5, 0)` of the same rotation. -/
theorem so3_composition_not_assoc :
    ∃ a b c : Vec ℝ 4, SO3.Unit a ∧ SO3.Unit b ∧ SO3.Unit c ∧
      SO3.composition (SO3.composition a b) c ≠ SO3.composition a (SO3.composition b c) := by
  refine ⟨mk4 1 0 0 0, qA, qB, by simp [SO3.Unit, mk4, Vec.of], qA_unit, qB_unit, fun h => ?_⟩
  have h1 := congrArg (fun v : Vec ℝ 4 => v 1) h
  norm_num [SO3.composition, SO3.canon, SO3.qmul, qA, qB, mk4, Vec.of] at h1

/-! ## SE3 -/

noncomputable def se3A : Vec ℝ 7 := SE3.mk7 (mk3 1 (-2) 3) qC
theorem se3A_unit : SE3.Unit se3A := by
  unfold SE3.Unit se3A; rw [SE3.so3_mk7]; exact qC_unit

theorem se3_matrix_composition (a b : Vec ℝ 7) (ha : SE3.Unit a) (hb : SE3.Unit b) :
    SE3.matrix (SE3.composition a b) = mmul (SE3.matrix a) (SE3.matrix b) :=
  SE3.matrix_composition a b ha hb
example : SE3.Unit se3A := se3A_unit

theorem se3_matrix_identity : SE3.matrix (SE3.identity : Vec ℝ 7) = ident 4 := SE3.matrix_identity

theorem se3_matrix_inverse (g : Vec ℝ 7) (h : SE3.Unit g) :
    mmul (SE3.matrix (SE3.inverse g)) (SE3.matrix g) = ident 4 ∧
    mmul (SE3.matrix g) (SE3.matrix (SE3.inverse g)) = ident 4 :=
  ⟨SE3.matrix_inverse_left g h, SE3.matrix_inverse_right g h⟩
example : SE3.Unit se3A := se3A_unit

theorem se3_unit_identity : SE3.Unit (SE3.identity : Vec ℝ 7) := SE3.unit_identity
theorem se3_unit_composition (a b : Vec ℝ 7) (ha : SE3.Unit a) (hb : SE3.Unit b) :
    SE3.Unit (SE3.composition a b) := SE3.unit_composition a b ha hb
example : SE3.Unit se3A := se3A_unit
theorem se3_unit_inverse (g : Vec ℝ 7) (h : SE3.Unit g) : SE3.Unit (SE3.inverse g) :=
  SE3.unit_inverse g h
example : SE3.Unit se3A := se3A_unit

/-- SE3: `matrix g · (v, 1) = (g * v, 1)` for all coefficients. -/
theorem se3_action_eq_matrix (g : Vec ℝ 7) (v : Vec ℝ 3) :
    mulVec (SE3.matrix g) (SE3.embed v) = SE3.embed (SE3.act g v) := SE3.act_eq_matrix g v

/-! ## Galilei -/

noncomputable def galA : Vec ℝ 11 := Galilei.mkG (mk3 1 (-2) 3) (mk3 4 5 (-6)) 7 qC
theorem galA_unit : Galilei.Unit galA := by
  unfold Galilei.Unit galA; rw [Galilei.gq_mkG]; exact qC_unit

theorem galilei_matrix_composition (a b : Vec ℝ 11) (ha : Galilei.Unit a) (hb : Galilei.Unit b) :
    Galilei.matrix (Galilei.composition a b) = mmul (Galilei.matrix a) (Galilei.matrix b) :=
  Galilei.matrix_composition a b ha hb
example : Galilei.Unit galA := galA_unit

theorem galilei_matrix_identity : Galilei.matrix (Galilei.identity : Vec ℝ 11) = ident 5 :=
  Galilei.matrix_identity

theorem galilei_matrix_inverse (g : Vec ℝ 11) (h : Galilei.Unit g) :
    mmul (Galilei.matrix (Galilei.inverse g)) (Galilei.matrix g) = ident 5 ∧
    mmul (Galilei.matrix g) (Galilei.matrix (Galilei.inverse g)) = ident 5 :=
  ⟨Galilei.matrix_inverse_left g h, Galilei.matrix_inverse_right g h⟩
example : Galilei.Unit galA := galA_unit

theorem galilei_unit_identity : Galilei.Unit (Galilei.identity : Vec ℝ 11) := Galilei.unit_identity
theorem galilei_unit_composition (a b : Vec ℝ 11) (ha : Galilei.Unit a) (hb : Galilei.Unit b) :
    Galilei.Unit (Galilei.composition a b) := Galilei.unit_composition a b ha hb
example : Galilei.Unit galA := galA_unit
theorem galilei_unit_inverse (g : Vec ℝ 11) (h : Galilei.Unit g) : Galilei.Unit (Galilei.inverse g) :=
  Galilei.unit_inverse g h
example : Galilei.Unit galA := galA_unit

/-- Galilei: `matrix g · (x, t, 1) = (R x + v t + p, t + τ, 1)` is `(g * (x,t), 1)`, all coefficients. -/
theorem galilei_action_eq_matrix (g : Vec ℝ 11) (x : Vec ℝ 4) :
    mulVec (Galilei.matrix g) (Galilei.embed x) = Galilei.embed (Galilei.act g x) :=
  Galilei.act_eq_matrix g x

/-! ## SE_K_3, every K -/

noncomputable def sekA (k : Nat) : Vec ℝ (4 + 3 * k) := SEK3.mkG k (fun i => mk3 1 (-2) (3 + i.val)) qC
theorem sekA_unit (k : Nat) : SEK3.Unit k (sekA k) := by
  unfold SEK3.Unit sekA; rw [SEK3.gq_mkG]; exact qC_unit

theorem sek3_matrix_composition (k : Nat) (a b : Vec ℝ (4 + 3 * k))
    (ha : SEK3.Unit k a) (hb : SEK3.Unit k b) :
    SEK3.matrix k (SEK3.composition k a b) = mmul (SEK3.matrix k a) (SEK3.matrix k b) :=
  SEK3.matrix_composition k a b ha hb
example (k : Nat) : SEK3.Unit k (sekA k) := sekA_unit k

theorem sek3_matrix_identity (k : Nat) :
    SEK3.matrix k (SEK3.identity k : Vec ℝ (4 + 3 * k)) = ident (3 + k) := SEK3.matrix_identity k

theorem sek3_matrix_inverse (k : Nat) (g : Vec ℝ (4 + 3 * k)) (h : SEK3.Unit k g) :
    mmul (SEK3.matrix k (SEK3.inverse k g)) (SEK3.matrix k g) = ident (3 + k) ∧
    mmul (SEK3.matrix k g) (SEK3.matrix k (SEK3.inverse k g)) = ident (3 + k) :=
  ⟨SEK3.matrix_inverse_left k g h, SEK3.matrix_inverse_right k g h⟩
example (k : Nat) : SEK3.Unit k (sekA k) := sekA_unit k

theorem sek3_unit_identity (k : Nat) : SEK3.Unit k (SEK3.identity k : Vec ℝ (4 + 3 * k)) :=
  SEK3.unit_identity k
theorem sek3_unit_composition (k : Nat) (a b : Vec ℝ (4 + 3 * k))
    (ha : SEK3.Unit k a) (hb : SEK3.Unit k b) : SEK3.Unit k (SEK3.composition k a b) :=
  SEK3.unit_composition k a b ha hb
example (k : Nat) : SEK3.Unit k (sekA k) := sekA_unit k
theorem sek3_unit_inverse (k : Nat) (g : Vec ℝ (4 + 3 * k)) (h : SEK3.Unit k g) :
    SEK3.Unit k (SEK3.inverse k g) := SEK3.unit_inverse k g h
example (k : Nat) : SEK3.Unit k (sekA k) := sekA_unit k

/-! ## Bundles: the direct product, any list of parts, any nesting -/

/-- the matrix of a product element is block diagonal in the prefix-sum layout -/
theorem bundle_matrix_block_diagonal (A B : LieModel ℝ) (g : Vec ℝ (A.rep + B.rep)) :
    (Bundle.prod A B).matrix g = Bundle.bdiag (A.matrix (Bundle.fst g)) (B.matrix (Bundle.snd g)) :=
  Bundle.prod_matrix A B g

/-- block-diagonal matrices multiply blockwise -/
theorem bundle_bdiag_mmul {n m : Nat} (A A' : Mat ℝ n n) (B B' : Mat ℝ m m) :
    mmul (Bundle.bdiag A B) (Bundle.bdiag A' B') = Bundle.bdiag (mmul A A') (mmul B B') :=
  Bundle.bdiag_mmul A A' B B'

/-- the matrix-group property is closed under the binary product of the Bundle model -/
theorem bundle_prod_isMatrixGroup {A B : LieModel ℝ} {VA : Vec ℝ A.rep → Prop} {VB : Vec ℝ B.rep → Prop}
    (hA : IsMatrixGroup A VA) (hB : IsMatrixGroup B VB) :
    IsMatrixGroup (Bundle.prod A B) (Bundle.prodValid VA VB) := Bundle.prod_isMatrixGroup hA hB
example : IsMatrixGroup (SO3.model : LieModel ℝ) SO3.Unit ∧ IsMatrixGroup (Tn.model 2 : LieModel ℝ) (fun _ => True) :=
  ⟨SO3.isMatrixGroup, Tn.isMatrixGroup 2⟩

/-- … hence it holds for `Bundle.bundle` of ANY list of matrix-group models (induction over the list;
    validity of a bundle element = validity of every part) -/
theorem bundle_isMatrixGroup (ps : List Bundle.VModel) (h : ∀ p ∈ ps, IsMatrixGroup p.G p.Valid) :
    IsMatrixGroup (Bundle.bundle (ps.map Bundle.VModel.G)) (Bundle.bundleValid ps) :=
  Bundle.bundle_isMatrixGroup ps h
example : ∀ p ∈ [Bundle.VModel.mk (SE3.model : LieModel ℝ) SE3.Unit, ⟨Tn.model 3, fun _ => True⟩, ⟨C1.model, C1.Valid⟩],
    IsMatrixGroup p.G p.Valid := by
  intro p hp
  simp only [List.mem_cons, List.not_mem_nil, or_false] at hp
  rcases hp with rfl | rfl | rfl
  · exact SE3.isMatrixGroup
  · exact Tn.isMatrixGroup 3
  · exact C1.isMatrixGroup

/-! ## Every supported group type (`GDesc`: SO2 SO3 SE2 SE3 C1 GAL T<n> SEK<k> B[…]) -/

/-- C01 for every supported group type, Bundles of arbitrary length and nesting:
    `GDesc.Valid d` is the representation constraint (of every part, for Bundles). -/
theorem every_group_isMatrixGroup (d : GDesc) :
    IsMatrixGroup (GDesc.model d : LieModel ℝ) (GDesc.Valid d) := GDesc.isMatrixGroup d

variable (d : GDesc)

theorem matrix_composition (a b : Vec ℝ (GDesc.model d : LieModel ℝ).rep)
    (ha : GDesc.Valid d a) (hb : GDesc.Valid d b) :
    (GDesc.model d).matrix ((GDesc.model d).composition a b)
      = mmul ((GDesc.model d).matrix a) ((GDesc.model d).matrix b) :=
  (GDesc.isMatrixGroup d).matrix_composition a b ha hb

/-- a valid non-trivial element of the Bundle `B[SO3, T2]`: (qA, (1, −2)) -/
noncomputable def bunA : Vec ℝ (4 + (2 + 0)) :=
  vcat qA (vcat (mk2 1 (-2) : Vec ℝ 2) (vzero 0))
theorem bunA_valid : GDesc.Valid (.bundle [.so3, .tn 2]) bunA := by
  refine ⟨?_, trivial, trivial⟩
  show SO3.Unit (Bundle.fst (n := 4) (m := 2 + 0) bunA)
  unfold bunA
  rw [Bundle.fst_vcat]; exact qA_unit
example : GDesc.Valid (.bundle [.so3, .tn 2]) bunA := bunA_valid

theorem matrix_identity : (GDesc.model d).matrix ((GDesc.model d : LieModel ℝ).identity) = ident _ :=
  (GDesc.isMatrixGroup d).matrix_identity

theorem matrix_inverse (a : Vec ℝ (GDesc.model d : LieModel ℝ).rep) (ha : GDesc.Valid d a) :
    mmul ((GDesc.model d).matrix ((GDesc.model d).inverse a)) ((GDesc.model d).matrix a) = ident _ ∧
    mmul ((GDesc.model d).matrix a) ((GDesc.model d).matrix ((GDesc.model d).inverse a)) = ident _ :=
  ⟨(GDesc.isMatrixGroup d).matrix_inverse_left a ha, (GDesc.isMatrixGroup d).matrix_inverse_right a ha⟩
example : GDesc.Valid (.bundle [.so3, .tn 2]) bunA := bunA_valid

/-- `matrix (inverse g)` is Mathlib's matrix inverse `(matrix g)⁻¹`, and `det (matrix g) ≠ 0` -/
theorem matrix_inverse_eq_inv (a : Vec ℝ (GDesc.model d : LieModel ℝ).rep) (ha : GDesc.Valid d a) :
    toM ((GDesc.model d).matrix ((GDesc.model d).inverse a)) = (toM ((GDesc.model d).matrix a))⁻¹ ∧
    (toM ((GDesc.model d).matrix a)).det ≠ 0 :=
  ⟨(GDesc.isMatrixGroup d).matrix_inverse_eq_inv a ha, (GDesc.isMatrixGroup d).matrix_det_ne_zero a ha⟩
example : GDesc.Valid (.bundle [.so3, .tn 2]) bunA := bunA_valid

/-- the constraint is preserved by the operations (so the statements chain) -/
theorem valid_closed :
    GDesc.Valid d ((GDesc.model d : LieModel ℝ).identity) ∧
    (∀ a b, GDesc.Valid d a → GDesc.Valid d b → GDesc.Valid d ((GDesc.model d).composition a b)) ∧
    (∀ a, GDesc.Valid d a → GDesc.Valid d ((GDesc.model d).inverse a)) :=
  ⟨(GDesc.isMatrixGroup d).valid_identity, (GDesc.isMatrixGroup d).valid_composition,
    (GDesc.isMatrixGroup d).valid_inverse⟩
example : GDesc.Valid (.bundle [.so3, .tn 2]) bunA := bunA_valid

/-! ### Corollaries: associativity, two-sided identity and inverse (through `matrix`) -/

theorem matrix_assoc (a b c : Vec ℝ (GDesc.model d : LieModel ℝ).rep)
    (ha : GDesc.Valid d a) (hb : GDesc.Valid d b) (hc : GDesc.Valid d c) :
    (GDesc.model d).matrix ((GDesc.model d).composition ((GDesc.model d).composition a b) c)
      = (GDesc.model d).matrix ((GDesc.model d).composition a ((GDesc.model d).composition b c)) :=
  (GDesc.isMatrixGroup d).matrix_assoc a b c ha hb hc
example : GDesc.Valid (.bundle [.so3, .tn 2]) bunA := bunA_valid

theorem matrix_left_id (a : Vec ℝ (GDesc.model d : LieModel ℝ).rep) (ha : GDesc.Valid d a) :
    (GDesc.model d).matrix ((GDesc.model d).composition (GDesc.model d).identity a)
      = (GDesc.model d).matrix a := (GDesc.isMatrixGroup d).matrix_left_id a ha
example : GDesc.Valid (.bundle [.so3, .tn 2]) bunA := bunA_valid

theorem matrix_right_id (a : Vec ℝ (GDesc.model d : LieModel ℝ).rep) (ha : GDesc.Valid d a) :
    (GDesc.model d).matrix ((GDesc.model d).composition a (GDesc.model d).identity)
      = (GDesc.model d).matrix a := (GDesc.isMatrixGroup d).matrix_right_id a ha
example : GDesc.Valid (.bundle [.so3, .tn 2]) bunA := bunA_valid

theorem matrix_left_inv (a : Vec ℝ (GDesc.model d : LieModel ℝ).rep) (ha : GDesc.Valid d a) :
    (GDesc.model d).matrix ((GDesc.model d).composition ((GDesc.model d).inverse a) a)
      = (GDesc.model d).matrix (GDesc.model d).identity := (GDesc.isMatrixGroup d).matrix_left_inv a ha
example : GDesc.Valid (.bundle [.so3, .tn 2]) bunA := bunA_valid

theorem matrix_right_inv (a : Vec ℝ (GDesc.model d : LieModel ℝ).rep) (ha : GDesc.Valid d a) :
    (GDesc.model d).matrix ((GDesc.model d).composition a ((GDesc.model d).inverse a))
      = (GDesc.model d).matrix (GDesc.model d).identity := (GDesc.isMatrixGroup d).matrix_right_inv a ha
example : GDesc.Valid (.bundle [.so3, .tn 2]) bunA := bunA_valid

/-! ### The model operations are Mathlib's matrix operations -/

theorem mmul_is_matrix_mul {n k m : Nat} (A : Mat ℝ n k) (B : Mat ℝ k m) :
    toM (mmul A B) = toM A * toM B := toM_mmul A B
theorem ident_is_one (n : Nat) : toM (ident n : Mat ℝ n n) = 1 := toM_ident n
theorem mulVec_is_matrix_mulVec {n m : Nat} (A : Mat ℝ n m) (v : Vec ℝ m) :
    toV (mulVec A v) = Matrix.mulVec (toM A) (toV v) := toV_mulVec A v

end C01
