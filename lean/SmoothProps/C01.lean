/-
  C01 — Group operations realise the documented matrix group (property theorems).
-/
import SmoothProofs.Real
import Mathlib.Tactic.Ring
import Mathlib.Tactic.FinCases
open Lin Scalar

namespace C01

/-- SO2: `matrix (g₁ ∘ g₂) = matrix g₁ * matrix g₂` for all coefficient pairs. -/
theorem so2_matrix_composition (a b : Vec ℝ 2) (i j : Fin 2) :
    (SO2.matrix (SO2.composition a b)) i j = (mmul (SO2.matrix a) (SO2.matrix b)) i j := by
  fin_cases i <;> fin_cases j <;>
    simp [SO2.matrix, SO2.composition, mmul, mat2, mk2, vsum, Mat.of, Vec.of] <;> ring

end C01
