/-
  C08 — Tangent-space differentiation returns the true derivatives (property theorems).

  Object: `Diff.drNumerical1`, `Diff.drNumerical2`, `Diff.dr`, `Diff.drSubset`
  (SmoothModel/Diff.lean) — the executable model of detail/diff_impl.hpp tied to the implementation
  by the `diff_trace` / `diff_dr` correspondence.  The argument tuple is one state `x : X`, argument
  `i` is a `Diff.Slot`.  `Restores s` is the law `rplus (rplus y (ε e_j)) (−ε e_j) = y`; it holds over
  ℝ for every Lie-group argument with `exp(δ) ∘ exp(−δ) = 1` (`lie_argument_restores`).
  Partial (audited on every run, not proved): IEEE rounding of the difference quotients and of the
  restore step.  The second-order truncation bound is proved (`second_difference_error`, in the
  Fréchet form originally posed, and `second_difference_error_explicit` with separate constants).
-/
import SmoothProofs.C08Slots
import SmoothProofs.C08Layout
import SmoothProofs.C08SecondFD
import Mathlib.Analysis.Calculus.ContDiff.Defs

open Scalar Lin Diff Manif

set_option linter.unusedSectionVars false
set_option linter.unusedSimpArgs false

namespace C08
variable {α : Type} [Scalar α] {X Y : Type}

/-! ## restoration -/

/-- **restore_exact (K = 1)**: after `dr_numerical<1>` every argument holds its original value -/
theorem restore_exact (base : α) (rm : Y → Y → List α) (f : X → Y) (slots : List (Slot α X))
    (hs : ∀ s ∈ slots, Restores s) (x : X) : (drNumerical1 base rm f slots x).x = x :=
  (drNumerical1_spec base rm f slots hs x).2.1

/-- **restore_exact (K = 2)**, including the interleaved schedule `w1+, w0+, w0−, w1−` — for any
    arguments, commutative or not, the same argument twice (`i0 = i1`) included -/
theorem restore_exact_K2 (base : α) (rm : Y → Y → List α) (f : X → Y) (slots : List (Slot α X))
    (hs : ∀ s ∈ slots, Restores s) (x : X) : (drNumerical2 base rm f slots x).x = x :=
  (drNumerical2_spec base rm f slots hs x).2.1

/-- one innermost iteration of the K = 2 schedule returns to its starting tuple -/
theorem interleaved_step_restores (base : α) (rm : Y → Y → List α) (f : X → Y) (fval : Y) (nx : Nat)
    (s0 s1 : Slot α X) (h0 : Restores s0) (h1 : Restores s1) (n0 n1 I0 I1 k0 k1 : Nat) (st : St2 α X) :
    (innerStep2 base rm f nx s0 s1 n0 n1 I0 I1 k0 (stepSize base s0 st.x k0)
      (rm (f (s0.rplus st.x (unitVec n0 k0 (stepSize base s0 st.x k0)))) fval) st k1).x = st.x := by
  rw [innerStep2_eq base rm f fval nx s0 s1 h0 h1]

/-- Lie-group arguments over ℝ satisfy the restore law: `exp(δ) exp(−δ) = 1` (C01 + C02) -/
theorem lie_argument_restores (G : LieModel ℝ) (Valid : Vec ℝ G.rep → Prop) (h : ExpNegLaws G Valid)
    (g : Vec ℝ G.rep) (hg : Valid g) (j : Nat) (e : ℝ) :
    lieRplus G (lieRplus G g (unitVec G.dof j e)) (unitVec G.dof j (-e)) = g :=
  lie_restore G Valid h g hg j e

/-- an argument inside a tuple inherits the law from its type -/
theorem tuple_argument_restores {M : Type} {s : Slot α M} (hs : Restores s) (get : X → M)
    (set : X → M → X) (hgs : ∀ x m, get (set x m) = m) (hss : ∀ x m m', set (set x m) m' = set x m')
    (hsg : ∀ x, set x (get x) = x) : Restores (liftSlot s get set) :=
  restores_liftSlot hs get set hgs hss hsg

/-- on a NON-commutative group (Heisenberg group, polynomial exp) the code's nested order returns
    to the start and the crossed order `w1+, w0+, w1−, w0−` does not -/
theorem interleaved_order_matters :
    (∀ g k0 k1 e0 e1,
      Heis.slot.rplus (Heis.slot.rplus (Heis.slot.rplus (Heis.slot.rplus g (unitVec 3 k1 e1))
        (unitVec 3 k0 e0)) (unitVec 3 k0 (-e0))) (unitVec 3 k1 (-e1)) = g) ∧
    Heis.slot.rplus (Heis.slot.rplus (Heis.slot.rplus (Heis.slot.rplus (0, 0, 0) (unitVec 3 0 1))
      (unitVec 3 1 1)) (unitVec 3 0 (-1))) (unitVec 3 1 (-1)) ≠ (0, 0, 0) :=
  ⟨Heis.nested_order_returns, Heis.crossed_order_does_not_return⟩

-- non-vacuity: vectors over ℝ satisfy the hypotheses; a two-argument tuple of them
example (n : Nat) : ExpNegLaws (Tn.model n : LieModel ℝ) (fun _ => True) := tn_expNegLaws n
example : Restores (Heis.slot) := fun y n j e => by
  obtain ⟨a, b, c⟩ := y
  simp only [Heis.slot, Heis.mul, Heis.exp, unitVec, List.getD_eq_getElem?_getD, List.getElem?_map]
  refine Prod.ext ?_ (Prod.ext ?_ ?_) <;>
    · by_cases h0 : 0 < n <;> by_cases h1 : 1 < n <;> by_cases h2 : 2 < n <;>
        simp [List.getElem?_range, h0, h1, h2] <;> split_ifs <;> simp_all <;> ring

/-! ## what the Jacobian is, column placement, index subsets -/

/-- under the restore law the Jacobian write log is: argument after argument, coordinate after
    coordinate, column `I0 + j` ← forward difference quotient at the ORIGINAL point; the columns
    written are `0, 1, …, nx − 1` in this order, each exactly once -/
theorem jacobian_columns (base : α) (rm : Y → Y → List α) (f : X → Y) (slots : List (Slot α X))
    (hs : ∀ s ∈ slots, Restores s) (x : X) :
    (drNumerical1 base rm f slots x).fval = f x ∧
    (drNumerical1 base rm f slots x).J.map Prod.fst =
      List.range' 0 (slots.map (fun s => s.dof x)).sum ∧
    (drNumerical1 base rm f slots x).J.map Prod.snd = slots.flatMap (slotCols base rm f (f x) x) := by
  obtain ⟨h1, _, h3, _⟩ := drNumerical1_spec base rm f slots hs x
  exact ⟨h1, by rw [h3, jacSpec_positions], by rw [h3, jacSpec_columns]⟩

/-- **columns_of_subset**: the derivative with respect to the arguments `idx` consists of exactly
    the column blocks that the full derivative has for these arguments, for every list `idx`
    (any order, any mix of static / dynamic sizes) -/
theorem columns_of_subset (base : α) (rm : Y → Y → List α) (f : X → Y) (slots : List (Slot α X))
    (hs : ∀ s ∈ slots, Restores s) (idx : List Nat) (x : X) :
    (drNumerical1 base rm f (idx.filterMap (fun i => slots[i]?)) x).J.map Prod.snd =
      (idx.filterMap (fun i => slots[i]?)).flatMap (slotCols base rm f (f x) x) ∧
    (drNumerical1 base rm f slots x).J.map Prod.snd = slots.flatMap (slotCols base rm f (f x) x) := by
  have hsub : ∀ s ∈ idx.filterMap (fun i => slots[i]?), Restores s := by
    intro s hmem
    obtain ⟨i, _, hi⟩ := List.mem_filterMap.1 hmem
    exact hs s (List.mem_of_getElem? hi)
  exact ⟨(jacobian_columns base rm f _ hsub x).2.2, (jacobian_columns base rm f slots hs x).2.2⟩

/-- the index-subset overload is `dr` on the sub-tuple with the wrapped callable; when the cast
    of the tuple is the identity (every argument kind except SubManifold, see C07) the wrapped
    callable is `f` itself -/
theorem subset_wrapper_is_dr_on_subtuple {JT HT : Type} (K : Nat) (mode : Mode)
    (c : Callable X Y JT HT) (rm : Y → Y → List α) (slots : List (Slot α X)) (overwrite : X → X → X)
    (hover : ∀ y, overwrite y y = y) (idx : List Nat) (x : X) :
    drSubset K mode c rm slots (fun y => .ok y) overwrite idx x =
      dr K mode { f := c.f, jacobian := none, hessian := none } rm
        (idx.filterMap (fun i => slots[i]?)) x := by
  simp only [drSubset, wrapSubset, hover]

/-! ## K = 0, Analytic and Default modes -/

variable {JT HT : Type}

/-- **K0_returns_value** -/
theorem K0_returns_value (mode : Mode) (c : Callable X Y JT HT) (rm : Y → Y → List α)
    (slots : List (Slot α X)) (x : X) : dr (α := α) 0 mode c rm slots x = .ok (.value (c.f x)) := by
  cases mode <;> rfl

/-- **analytic_passthrough**: Analytic mode returns the callable's own outputs verbatim -/
theorem analytic_passthrough (c : Callable X Y JT HT) (rm : Y → Y → List α) (slots : List (Slot α X))
    (x : X) (j : X → JT) (h : X → HT) (hj : c.jacobian = some j) (hh : c.hessian = some h) :
    dr (α := α) 1 .analytic c rm slots x = .ok (.ana1 (c.f x) (j x)) ∧
    dr (α := α) 2 .analytic c rm slots x = .ok (.ana2 (c.f x) (j x) (h x)) := by
  simp [dr, hj, hh]

/-- Default mode: pass-through when the callable provides the derivatives, numerical otherwise -/
theorem default_passthrough (c : Callable X Y JT HT) (rm : Y → Y → List α) (slots : List (Slot α X))
    (x : X) (j : X → JT) (h : X → HT) (hj : c.jacobian = some j) (hh : c.hessian = some h) :
    dr (α := α) 1 .default c rm slots x = .ok (.ana1 (c.f x) (j x)) ∧
    dr (α := α) 2 .default c rm slots x = .ok (.ana2 (c.f x) (j x) (h x)) := by
  simp [dr, hj, hh]

theorem default_without_derivatives_is_numerical (c : Callable X Y JT HT) (rm : Y → Y → List α)
    (slots : List (Slot α X)) (x : X) (hj : c.jacobian = none) :
    dr (α := α) 1 .default c rm slots x = dr (α := α) 1 .numerical c rm slots x ∧
    dr (α := α) 2 .default c rm slots x = dr (α := α) 2 .numerical c rm slots x := by
  simp [dr, hj]

/-! ## Hessian layout -/

/-- **hessian_layout**: under the restore law, an entry is in the Hessian write log iff it is
    `H(I0 + k0, j·nx + I1 + k1) = d2[j]` for arguments `p0`, `p1` (first columns `I0`, `I1`),
    coordinates `k0`, `k1` and output component `j`, where `d2` is the second difference along
    `(k0, k1)`; the place lies in block `j` of the horizontally stacked matrix `[H₀ H₁ …]`, at
    row `I0 + k0` and in-block column `I1 + k1`. -/
theorem hessian_layout (base : α) (rm : Y → Y → List α) (f : X → Y) (slots : List (Slot α X))
    (hs : ∀ s ∈ slots, Restores s) (x : X) (e : (Nat × Nat) × α) :
    e ∈ (drNumerical2 base rm f slots x).H ↔
      ∃ p0 ∈ offsets x slots 0, ∃ p1 ∈ offsets x slots 0, ∃ k0 < p0.1.dof x, ∃ k1 < p1.1.dof x,
        ∃ j v, (d2Spec base rm f (f x) p0.1 p1.1 x (p0.1.dof x) (p1.1.dof x) k0 k1)[j]? = some v ∧
          e = ((p0.2 + k0, j * totalDof slots x + p1.2 + k1), v) := by
  rw [(drNumerical2_spec base rm f slots hs x).2.2.1, mem_hessSpec]
  simp only [mem_pairH, mem_hessEntries]

/-- the places are inside the `nx × nx·ny` matrix in the documented block structure, and two
    different (row, component, column) triples never share a place -/
theorem hessian_places (slots : List (Slot α X)) (x : X) (p0 p1 : Slot α X × Nat)
    (h0 : p0 ∈ offsets x slots 0) (h1 : p1 ∈ offsets x slots 0) (k0 k1 j : Nat)
    (hk0 : k0 < p0.1.dof x) (hk1 : k1 < p1.1.dof x) :
    p0.2 + k0 < totalDof slots x ∧ p1.2 + k1 < totalDof slots x ∧
    (j * totalDof slots x + (p1.2 + k1)) / totalDof slots x = j ∧
    (j * totalDof slots x + (p1.2 + k1)) % totalDof slots x = p1.2 + k1 := by
  have b0 := offsets_bound x slots 0 p0 h0
  have b1 := offsets_bound x slots 0 p1 h1
  rw [totalDof_eq_sum]
  have hc : p1.2 + k1 < (slots.map (fun s => s.dof x)).sum := by omega
  exact ⟨by omega, hc, (stacked_block _ j _ hc).1, (stacked_block _ j _ hc).2⟩

theorem hessian_places_injective (nx r r' j j' c c' : Nat) (hc : c < nx) (hc' : c' < nx)
    (h : (r, j * nx + c) = (r', j' * nx + c')) : r = r' ∧ j = j' ∧ c = c' :=
  stacked_injective nx r r' j j' c c' hc hc' h

/-! ## accuracy of the forward difference -/

/-- **forward_difference_error**: under the restore law the `j`-th column of the numerical
    Jacobian for argument `s` is the difference quotient of `g(t) = f(x ⊕ t e_j) ⊖ f(x)` at the
    code's step `ε_j`; if component `i` of `g` is twice differentiable on `[0, ε_j]` with
    `|g_i''| ≤ L`, it differs from the true right-derivative `J(i, j) = g_i'(0)` by at most
    `L ε_j / 2`. -/
theorem forward_difference_error (base : ℝ) (rm : Y → Y → List ℝ) (f : X → Y) (s : Slot ℝ X) (x : X)
    (n j i : Nat) (dg d2g : ℝ → ℝ) (L : ℝ)
    (hpos : 0 < stepSize base s x j)
    (hg : ∀ t ∈ Set.Icc 0 (stepSize base s x j),
      HasDerivAt (fun t => (rm (f (s.rplus x (unitVec n j t))) (f x)).getD i 0) (dg t) t)
    (hdg : ∀ t ∈ Set.Icc 0 (stepSize base s x j), HasDerivAt dg (d2g t) t)
    (hL : ∀ t ∈ Set.Icc 0 (stepSize base s x j), |d2g t| ≤ L)
    (h0 : (rm (f (s.rplus x (unitVec n j 0))) (f x)).getD i 0 = 0)
    (hi : i < (rm (f (pert base s x n j)) (f x)).length) :
    |(colSpec base rm f (f x) s x n j).getD i 0 - dg 0| ≤ L * stepSize base s x j / 2 := by
  have hq := forward_quotient_bound
    (fun t => (rm (f (s.rplus x (unitVec n j t))) (f x)).getD i 0) dg d2g (stepSize base s x j) L
    hpos hg hdg hL h0
  have hcol : (colSpec base rm f (f x) s x n j).getD i 0 =
      (rm (f (s.rplus x (unitVec n j (stepSize base s x j)))) (f x)).getD i 0 / stepSize base s x j := by
    simp only [colSpec, pert, List.getD_eq_getElem?_getD, List.getElem?_map]
    simp only [pert] at hi
    rw [List.getElem?_eq_getElem hi]
    simp
  rw [hcol]
  exact hq

/-- exact for affine `f`: if `f(x ⊕ t e_j) ⊖ f(x) = t·c` the column is `c` -/
theorem forward_difference_exact_for_affine (base : ℝ) (rm : Y → Y → List ℝ) (f : X → Y)
    (s : Slot ℝ X) (x : X) (n j : Nat) (c : List ℝ) (hne : stepSize base s x j ≠ 0)
    (haff : ∀ t, rm (f (s.rplus x (unitVec n j t))) (f x) = c.map (fun v => t * v)) :
    colSpec base rm f (f x) s x n j = c := by
  simp only [colSpec, pert, haff, List.map_map]
  conv_rhs => rw [← List.map_id c]
  apply List.map_congr_left
  intro v _
  simp only [Function.comp, id]
  field_simp

/-- with the code's step rule and the property's input class (coordinates 0 or of magnitude
    0.1 … 10) the step is at most `10·√ε`: truncation error ≤ `5·√ε·L` -/
theorem step_bound (base : ℝ) (s : Slot ℝ X) (x : X) (j : Nat) (hb : 0 < base)
    (hc : ∀ c, s.coord = some c → |c x j| ≤ 10) : stepSize base s x j ≤ 10 * base := by
  unfold stepSize
  cases hs : s.coord with
  | none => simp only; linarith
  | some c =>
    simp only
    have habs : Scalar.abs (c x j) = |c x j| := by
      simp only [Scalar.abs, Scalar.nat_real, Nat.cast_zero]
      split
      · rename_i h; exact (abs_of_neg h).symm
      · rename_i h; exact (abs_of_nonneg (not_lt.1 h)).symm
    split
    · linarith
    · rw [habs]
      have := hc c hs
      nlinarith [abs_nonneg (c x j)]

/-- **second_difference_error** (K = 2), explicit form with separate constants.  `φ(s, t)` stands
    for a component of `f(x ⊕ s e_k1 ⊕ t e_k0) ⊖ f(x ⊕ s e_k1)` (so `φ(s, 0) = 0`).  With
    `φt = ∂ₜφ`, `φtt = ∂ₜ∂ₜφ`, `φstt = ∂ₛ∂ₜ∂ₜφ` on `[0, ε₁] × [0, ε₀]`, `φst = ∂ₛ∂ₜφ(·, 0)`,
    `φsst = ∂ₛ∂ₛ∂ₜφ(·, 0)` on the edge `t = 0`, `|∂ₛ∂ₜ∂ₜφ| ≤ A` on the rectangle and `|∂ₛ∂ₛ∂ₜφ| ≤ B`
    on the edge: the Hessian entry `(φ(ε₁, ε₀) − φ(0, ε₀))/ε₀/ε₁` is within `A ε₀/2 + B ε₁/2` of
    `∂ₛ∂ₜφ(0, 0)`.  (Two applications of `forward_quotient_bound`: in `t` to
    `φ(ε₁, ·) − φ(0, ·)`, whose second derivative is `≤ A ε₁` by the mean value theorem, and in `s`
    to `∂ₜφ(·, 0)`.)  The constants are sharp for `φ = s t²` resp. `φ = s² t`. -/
theorem second_difference_error_explicit (φ φt φtt φstt : ℝ → ℝ → ℝ) (φst φsst : ℝ → ℝ)
    (e0 e1 A B : ℝ) (h0 : 0 < e0) (h1 : 0 < e1)
    (ht : ∀ s ∈ Set.Icc 0 e1, ∀ t ∈ Set.Icc 0 e0, HasDerivAt (fun t => φ s t) (φt s t) t)
    (htt : ∀ s ∈ Set.Icc 0 e1, ∀ t ∈ Set.Icc 0 e0, HasDerivAt (fun t => φt s t) (φtt s t) t)
    (hstt : ∀ s ∈ Set.Icc 0 e1, ∀ t ∈ Set.Icc 0 e0, HasDerivAt (fun s => φtt s t) (φstt s t) s)
    (hA : ∀ s ∈ Set.Icc 0 e1, ∀ t ∈ Set.Icc 0 e0, |φstt s t| ≤ A)
    (hst : ∀ s ∈ Set.Icc 0 e1, HasDerivAt (fun s => φt s 0) (φst s) s)
    (hsst : ∀ s ∈ Set.Icc 0 e1, HasDerivAt φst (φsst s) s)
    (hB : ∀ s ∈ Set.Icc 0 e1, |φsst s| ≤ B)
    (hz : ∀ s, φ s 0 = 0) :
    |(φ e1 e0 - φ 0 e0) / e0 / e1 - φst 0| ≤ A * e0 / 2 + B * e1 / 2 :=
  second_quotient_bound φ φt φtt φstt φst φsst e0 e1 A B h0 h1 ht htt hstt hA hst hsst hB hz

/-- **second_difference_error**, as originally posed: `φ` of class C³ with the (operator) norm of
    the third Fréchet derivative bounded by `L₃` on `[0, ε₁] × [0, ε₀]` (sup norm on `ℝ × ℝ`, so the
    mixed partials `∂ₛ∂ₜ∂ₜφ`, `∂ₛ∂ₛ∂ₜφ` are values of it on unit vectors): the Hessian entry
    `(φ(ε₁, ε₀) − φ(0, ε₀))/ε₀/ε₁` is within `L₃ (ε₀ + ε₁)/2` of `∂ₛ∂ₜ φ(0, 0)`.
    Bridge (SmoothProofs/C08SecondFD.lean): `D_a D_b D_c F p = iteratedFDeriv ℝ 3 F p ![a, b, c]`. -/
theorem second_difference_error (φ : ℝ → ℝ → ℝ) (L3 e0 e1 : ℝ) (h0 : 0 < e0) (h1 : 0 < e1)
    (hC : ContDiff ℝ 3 (Function.uncurry φ))
    (hL : ∀ p ∈ Set.Icc (0 : ℝ) e1 ×ˢ Set.Icc (0 : ℝ) e0, ‖iteratedFDeriv ℝ 3 (Function.uncurry φ) p‖ ≤ L3)
    (hz : ∀ s, φ s 0 = 0) :
    |(φ e1 e0 - φ 0 e0) / e0 / e1 - deriv (fun s => deriv (fun t => φ s t) 0) 0| ≤ L3 * (e0 + e1) / 2 :=
  second_difference_fd φ L3 e0 e1 h0 h1 hC hL hz

/-- the statement kept under its historical name; now a theorem -/
def second_difference_error_statement : Prop :=
  ∀ (φ : ℝ → ℝ → ℝ) (L3 e0 e1 : ℝ), 0 < e0 → 0 < e1 →
    ContDiff ℝ 3 (Function.uncurry φ) →
    (∀ p ∈ Set.Icc (0 : ℝ) e1 ×ˢ Set.Icc (0 : ℝ) e0, ‖iteratedFDeriv ℝ 3 (Function.uncurry φ) p‖ ≤ L3) →
    (∀ s, φ s 0 = 0) →
    |(φ e1 e0 - φ 0 e0) / e0 / e1 - deriv (fun s => deriv (fun t => φ s t) 0) 0| ≤ L3 * (e0 + e1) / 2

theorem second_difference_error_statement_holds : second_difference_error_statement :=
  fun φ L3 e0 e1 h0 h1 hC hL hz => second_difference_error φ L3 e0 e1 h0 h1 hC hL hz

/-- **the Hessian entry of the model is that quotient**: component `j` of `d2Spec` (what
    `hessian_layout` says is written at `H(I0 + k0, j·nx + I1 + k1)`) is
    `(φ(ε₁, ε₀) − φ(0, ε₀))/ε₀/ε₁` for
    `φ(s, t) = (f(x ⊕₁ s e_k1 ⊕₀ t e_k0) ⊖ f(x ⊕₁ s e_k1))_j`, provided `x ⊕₁ 0 = x`; hence
    it is within `A ε₀/2 + B ε₁/2` of `∂ₛ∂ₜφ(0, 0)` under the hypotheses above. -/
theorem hessian_entry_error (base : ℝ) (rm : Y → Y → List ℝ) (f : X → Y) (s0 s1 : Slot ℝ X) (x : X)
    (n0 n1 k0 k1 j : Nat) (φt φtt φstt : ℝ → ℝ → ℝ) (φst φsst : ℝ → ℝ) (A B : ℝ)
    (h0 : 0 < stepSize base s0 x k0) (h1 : 0 < stepSize base s1 x k1)
    (hx0 : s1.rplus x (unitVec n1 k1 0) = x)
    (hj1 : j < (rm (f (s0.rplus (s1.rplus x (unitVec n1 k1 (stepSize base s1 x k1)))
        (unitVec n0 k0 (stepSize base s0 x k0))))
        (f (s1.rplus x (unitVec n1 k1 (stepSize base s1 x k1))))).length)
    (hj2 : j < (rm (f (s0.rplus x (unitVec n0 k0 (stepSize base s0 x k0)))) (f x)).length)
    (ht : ∀ s ∈ Set.Icc 0 (stepSize base s1 x k1), ∀ t ∈ Set.Icc 0 (stepSize base s0 x k0),
      HasDerivAt (fun t => (rm (f (s0.rplus (s1.rplus x (unitVec n1 k1 s)) (unitVec n0 k0 t)))
        (f (s1.rplus x (unitVec n1 k1 s)))).getD j 0) (φt s t) t)
    (htt : ∀ s ∈ Set.Icc 0 (stepSize base s1 x k1), ∀ t ∈ Set.Icc 0 (stepSize base s0 x k0),
      HasDerivAt (fun t => φt s t) (φtt s t) t)
    (hstt : ∀ s ∈ Set.Icc 0 (stepSize base s1 x k1), ∀ t ∈ Set.Icc 0 (stepSize base s0 x k0),
      HasDerivAt (fun s => φtt s t) (φstt s t) s)
    (hA : ∀ s ∈ Set.Icc 0 (stepSize base s1 x k1), ∀ t ∈ Set.Icc 0 (stepSize base s0 x k0), |φstt s t| ≤ A)
    (hst : ∀ s ∈ Set.Icc 0 (stepSize base s1 x k1), HasDerivAt (fun s => φt s 0) (φst s) s)
    (hsst : ∀ s ∈ Set.Icc 0 (stepSize base s1 x k1), HasDerivAt φst (φsst s) s)
    (hB : ∀ s ∈ Set.Icc 0 (stepSize base s1 x k1), |φsst s| ≤ B)
    (hz : ∀ s, (rm (f (s0.rplus (s1.rplus x (unitVec n1 k1 s)) (unitVec n0 k0 0)))
        (f (s1.rplus x (unitVec n1 k1 s)))).getD j 0 = 0) :
    |(d2Spec base rm f (f x) s0 s1 x n0 n1 k0 k1).getD j 0 - φst 0|
      ≤ A * stepSize base s0 x k0 / 2 + B * stepSize base s1 x k1 / 2 := by
  have key := second_quotient_bound
    (fun s t => (rm (f (s0.rplus (s1.rplus x (unitVec n1 k1 s)) (unitVec n0 k0 t)))
        (f (s1.rplus x (unitVec n1 k1 s)))).getD j 0)
    φt φtt φstt φst φsst _ _ A B h0 h1 ht htt hstt hA hst hsst hB hz
  have hent : (d2Spec base rm f (f x) s0 s1 x n0 n1 k0 k1).getD j 0 =
      ((rm (f (s0.rplus (s1.rplus x (unitVec n1 k1 (stepSize base s1 x k1)))
          (unitVec n0 k0 (stepSize base s0 x k0))))
          (f (s1.rplus x (unitVec n1 k1 (stepSize base s1 x k1))))).getD j 0
        - (rm (f (s0.rplus x (unitVec n0 k0 (stepSize base s0 x k0)))) (f x)).getD j 0)
        / stepSize base s0 x k0 / stepSize base s1 x k1 := by
    simp only [d2Spec, List.getD_eq_getElem?_getD, List.getElem?_map, List.getElem?_zipWith,
      List.getElem?_eq_getElem hj1, List.getElem?_eq_getElem hj2]
    simp
  rw [hent]
  simpa only [hx0] using key

-- non-vacuity of the forward-difference hypotheses: g(t) = t², dg = 2t, d2g = 2, L = 2
example : |(fun t : ℝ => t ^ 2) (1 / 4) / (1 / 4) - (fun t : ℝ => 2 * t) 0| ≤ 2 * (1 / 4) / 2 :=
  forward_quotient_bound (fun t => t ^ 2) (fun t => 2 * t) (fun _ => 2) (1 / 4) 2 (by norm_num)
    (fun t _ => by simpa using hasDerivAt_pow 2 t)
    (fun t _ => by simpa using (hasDerivAt_id' t).const_mul (2 : ℝ))
    (fun _ _ => by norm_num) (by norm_num)

-- non-vacuity of the second-difference hypotheses (explicit form): φ = s t² + s² t,
-- ∂ₛ∂ₜ∂ₜφ = ∂ₛ∂ₛ∂ₜφ = 2, ε₀ = 1/4, ε₁ = 1/8; the quotient is ε₀ + ε₁ = 3/8, the bound is 3/8
example : |((fun s t : ℝ => s * t ^ 2 + s ^ 2 * t) (1 / 8) (1 / 4) - (fun s t : ℝ => s * t ^ 2 + s ^ 2 * t) 0 (1 / 4))
      / (1 / 4) / (1 / 8) - (fun s : ℝ => 2 * s) 0| ≤ 2 * (1 / 4) / 2 + 2 * (1 / 8) / 2 :=
  second_difference_error_explicit (fun s t => s * t ^ 2 + s ^ 2 * t) (fun s t => s * (2 * t) + s ^ 2)
    (fun s _ => s * 2) (fun _ _ => 2) (fun s => 2 * s) (fun _ => 2) (1 / 4) (1 / 8) 2 2
    (by norm_num) (by norm_num)
    (fun s _ t _ =>
      (((hasDerivAt_pow 2 t).const_mul s).add ((hasDerivAt_id' t).const_mul (s ^ 2))).congr_deriv
        (by norm_num))
    (fun s _ t _ =>
      ((((hasDerivAt_id' t).const_mul (2 : ℝ)).const_mul s).add_const (s ^ 2)).congr_deriv (by ring))
    (fun s _ t _ => ((hasDerivAt_id' s).mul_const (2 : ℝ)).congr_deriv (by ring))
    (fun _ _ _ _ => by norm_num)
    (fun s _ =>
      (((hasDerivAt_id' s).mul_const ((2 : ℝ) * 0)).add (hasDerivAt_pow 2 s)).congr_deriv (by norm_num))
    (fun s _ => by simpa using (hasDerivAt_id' s).const_mul (2 : ℝ))
    (fun _ _ => by norm_num) (fun s => by simp)

-- non-vacuity of the Fréchet form: for EVERY C³ function (here φ = s t² + s² t) a bound `L₃` on the
-- rectangle exists (continuity of the third derivative on a compact set)
example : ∃ L3, ContDiff ℝ 3 (Function.uncurry (fun s t : ℝ => s * t ^ 2 + s ^ 2 * t)) ∧
    (∀ p ∈ Set.Icc (0 : ℝ) (1 / 8) ×ˢ Set.Icc (0 : ℝ) (1 / 4),
      ‖iteratedFDeriv ℝ 3 (Function.uncurry (fun s t : ℝ => s * t ^ 2 + s ^ 2 * t)) p‖ ≤ L3) ∧
    (∀ s : ℝ, (fun s t : ℝ => s * t ^ 2 + s ^ 2 * t) s 0 = 0) := by
  have hC : ContDiff ℝ 3 (Function.uncurry (fun s t : ℝ => s * t ^ 2 + s ^ 2 * t)) := by
    show ContDiff ℝ 3 (fun p : ℝ × ℝ => p.1 * p.2 ^ 2 + p.1 ^ 2 * p.2)
    fun_prop
  have hcont : Continuous (iteratedFDeriv ℝ 3 (Function.uncurry (fun s t : ℝ => s * t ^ 2 + s ^ 2 * t))) :=
    hC.continuous_iteratedFDeriv (m := 3) le_rfl
  obtain ⟨L3, hL3⟩ := (isCompact_Icc.prod isCompact_Icc).exists_bound_of_continuousOn
    (s := Set.Icc (0 : ℝ) (1 / 8) ×ˢ Set.Icc (0 : ℝ) (1 / 4)) hcont.continuousOn
  exact ⟨L3, hC, hL3, fun s => by simp⟩

end C08
