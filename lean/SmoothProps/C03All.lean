/- aggregator: property theorems of C03 plus the source-tie theorems regenerated from the C++
   (whole functions Ad, ad, hat, vee), plus hat / vee / Ad / ad / lie_bracket in the standard model of floating-point
   arithmetic (C03Round) -/
import SmoothProps.C03
import SmoothProps.C03Round
import SmoothProps.SrcTieImplC03
