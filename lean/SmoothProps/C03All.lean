/- aggregator: property theorems of C03 plus the source-tie theorems regenerated from the C++
   (whole functions Ad, ad, hat, vee) -/
import SmoothProps.C03
import SmoothProps.SrcTieImplC03
