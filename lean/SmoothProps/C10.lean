/-
  C10 — The trust-region step solver returns the regularised least-squares minimiser
  (property theorems; helper lemmas in SmoothProofs/C10Lin.lean, C10Model.lean, C10Deriv.lean).

  Setting: `J : Matrix (Fin m) (Fin n) ℝ` of ANY shape and rank, `d` entrywise positive, `lam > 0`.
  `H = JᵀJ + lam·diag(d)²`, `NormalEq J d r lam x :⇔ H x = −Jᵀ r` (the contract of `ldlt.solve` in
  `solve_linear_ldlt`), `φ z = ‖J z + r‖² + lam ‖D z‖²`, `nsq v = ‖v‖² = v ⬝ᵥ v`.
  `Eigen::LDLT` / `SimplicialLDLT` themselves are not modelled: that their output satisfies the
  contract to 1e-8 backward error is audited on every run (driver op `opt_tr`), not proved.
-/
import SmoothProofs.C10Lin
import SmoothProofs.C10Model
import SmoothProofs.C10Deriv

open Matrix

namespace C10

open C10Lin

variable {m n : ℕ}

/-- `H = JᵀJ + λ·diag(d)²` is positive definite for every `J` (rank-deficient included). -/
theorem H_posDef (J : Matrix (Fin m) (Fin n) ℝ) {d : Fin n → ℝ} {lam : ℝ} (hd : ∀ j, 0 < d j) (hl : 0 < lam) :
    (H J d lam).PosDef := C10Lin.H_posDef hd hl

/-- The normal equations have exactly one solution. -/
theorem exists_unique_solution (J : Matrix (Fin m) (Fin n) ℝ) {d : Fin n → ℝ} (r : Fin m → ℝ) {lam : ℝ}
    (hd : ∀ j, 0 < d j) (hl : 0 < lam) : ∃! x, NormalEq J d r lam x :=
  C10Lin.exists_unique_solution hd hl _

/-- `φ y − φ x = ‖J (y−x)‖² + λ ‖D (y−x)‖²` for the solution `x` of the normal equations. -/
theorem phi_gap {J : Matrix (Fin m) (Fin n) ℝ} {d : Fin n → ℝ} {r : Fin m → ℝ} {lam : ℝ} {x : Fin n → ℝ}
    (hx : NormalEq J d r lam x) (y : Fin n → ℝ) :
    phi J d r lam y - phi J d r lam x = nsq (J *ᵥ (y - x)) + lam * nsq (scale d (y - x)) :=
  phi_sub_of_normalEq hx y

/-- The solution of the normal equations is THE minimiser of `‖J z + r‖² + λ‖D z‖²`:
    it is a minimiser and every minimiser equals it. -/
theorem is_minimiser {J : Matrix (Fin m) (Fin n) ℝ} {d : Fin n → ℝ} {r : Fin m → ℝ} {lam : ℝ} {x : Fin n → ℝ}
    (hd : ∀ j, 0 < d j) (hl : 0 < lam) (hx : NormalEq J d r lam x) :
    (∀ y, phi J d r lam x ≤ phi J d r lam y) ∧ (∀ y, phi J d r lam y = phi J d r lam x → y = x) :=
  ⟨C10Lin.is_minimiser hl hx, fun _ hy => minimiser_unique hd hl hx (le_of_eq hy)⟩

/-- The step never increases the linearised cost: `‖J x + r‖ ≤ ‖r‖`. -/
theorem descent {J : Matrix (Fin m) (Fin n) ℝ} {d : Fin n → ℝ} {r : Fin m → ℝ} {lam : ℝ} {x : Fin n → ℝ}
    (hl : 0 < lam) (hx : NormalEq J d r lam x) :
    Real.sqrt (nsq (J *ᵥ x + r)) ≤ Real.sqrt (nsq r) :=
  Real.sqrt_le_sqrt (C10Lin.descent hl hx)

/-- `r = 0 ⇒ dx = 0`. -/
theorem zero_residual_zero_step {J : Matrix (Fin m) (Fin n) ℝ} {d : Fin n → ℝ} {lam : ℝ} {x : Fin n → ℝ}
    (hd : ∀ j, 0 < d j) (hl : 0 < lam) (hx : NormalEq J d 0 lam x) : x = 0 :=
  C10Lin.zero_residual_zero_step hd hl hx

/-- The predicted reduction vanishes exactly when the step is zero (used by C09):
    `‖r‖ ≤ ‖J x + r‖ ↔ x = 0`. -/
theorem pred_zero_iff_dx_zero {J : Matrix (Fin m) (Fin n) ℝ} {d : Fin n → ℝ} {r : Fin m → ℝ} {lam : ℝ}
    {x : Fin n → ℝ} (hd : ∀ j, 0 < d j) (hl : 0 < lam) (hx : NormalEq J d r lam x) :
    Real.sqrt (nsq r) ≤ Real.sqrt (nsq (J *ᵥ x + r)) ↔ x = 0 := by
  constructor
  · intro h
    exact step_zero_of_no_reduction hd hl hx ((Real.sqrt_le_sqrt_iff (nsq_nonneg _)).1 h)
  · intro h
    subst h
    rw [mulVec_zero, zero_add]

/-- The contract does not mention the storage of `J`: the dense (`LDLT`) and the sparse
    (`SimplicialLDLT`) code path refine the same vector. -/
theorem dense_sparse_same {J : Matrix (Fin m) (Fin n) ℝ} {d : Fin n → ℝ} {r : Fin m → ℝ} {lam : ℝ}
    {xd xs : Fin n → ℝ} (hd : ∀ j, 0 < d j) (hl : 0 < lam)
    (hxd : NormalEq J d r lam xd) (hxs : NormalEq J d r lam xs) : xd = xs :=
  solution_unique hd hl hxd hxs

/-- `solve_trust_region(J, d, r, Δ)` for the MODEL objects (`Optim.IsStep` over `Mat`/`Vec` with the
    code's summation order, `lambda = 1/Δ`, `d = clamp(colwise_norm J)`): the model contract is the normal
    equation with positive `λ` and positive `d`, so all theorems above apply to it. -/
theorem trust_region_model {J : Mat ℝ m n} {r : Vec ℝ m} {delta : ℝ} {x : Vec ℝ n} (hΔ : 0 < delta)
    (hx : Optim.IsStep J (Optim.scaling J) r (Optim.lambdaOf delta) x) :
    NormalEq (C10Model.toM J) (Optim.scaling J).get r.get (Optim.lambdaOf delta) x.get
      ∧ (∀ j, 0 < (Optim.scaling J).get j) ∧ 0 < Optim.lambdaOf delta :=
  ⟨(C10Model.isStep_iff _ _ _ _ _).1 hx, C10Model.scaling_pos J, C10Model.lambdaOf_pos hΔ⟩

/-- Both branches of `colwise_norm` (dense `colwise().norm()`, sparse accumulation over the stored
    entries followed by `cwiseSqrt`) return `√Σᵢ M[i,j]²`. -/
theorem colwise_norm_spec (M : Mat ℝ m n) (stored : Fin m → Fin n → Bool)
    (hst : ∀ i j, stored i j = false → M i j = 0) (j : Fin n) :
    (Optim.colNormDense M) j = Real.sqrt (∑ i, (M i j) ^ 2)
      ∧ (Optim.colNormSparse M stored) j = Real.sqrt (∑ i, (M i j) ^ 2) :=
  ⟨C10Model.colNormDense_spec M j, C10Model.colNormSparse_spec M stored hst j⟩

/-- The expression the code evaluates for `dphi` equals `−(D²x)ᵀ H⁻¹ (D²x) / ‖D x‖`. -/
theorem dphi_formula {J : Matrix (Fin m) (Fin n) ℝ} {d : Fin n → ℝ} {lam : ℝ} {x y : Fin n → ℝ}
    (hd : ∀ j, 0 < d j) (hl : 0 < lam) (hy : H J d lam *ᵥ y = C10Deriv.dq d x) :
    C10Deriv.dphiCode d x y
      = -(scale d (scale d x) ⬝ᵥ ((H J d lam)⁻¹ *ᵥ scale d (scale d x))) / Real.sqrt (nsq (scale d x)) :=
  C10Deriv.dphi_formula hd hl hy

/-- `dphi` is the derivative of `λ ↦ ‖D x(λ)‖`, `x(λ) = −H(λ)⁻¹ Jᵀ r`, wherever `x(λ) ≠ 0`. -/
theorem dphi_is_derivative (J : Matrix (Fin m) (Fin n) ℝ) {d : Fin n → ℝ} (r : Fin m → ℝ) {lam : ℝ}
    (hd : ∀ j, 0 < d j) (hl : 0 < lam) (hx0 : C10Deriv.xOf J d r lam ≠ 0) :
    HasDerivAt (fun mu => Real.sqrt (nsq (scale d (C10Deriv.xOf J d r mu))))
      (-(scale d (scale d (C10Deriv.xOf J d r lam)) ⬝ᵥ
          ((H J d lam)⁻¹ *ᵥ scale d (scale d (C10Deriv.xOf J d r lam))))
        / Real.sqrt (nsq (scale d (C10Deriv.xOf J d r lam)))) lam :=
  C10Deriv.hasDerivAt_norm hd hl hx0

/-! ### non-vacuity: a rank-deficient `J`, positive `d`, `λ = 1`, explicit solution -/

example : NormalEq (!![1, 1; 1, 1] : Matrix (Fin 2) (Fin 2) ℝ) ![1, 1] ![-2, -2] 1 ![4 / 5, 4 / 5] := by
  unfold NormalEq H
  funext i
  fin_cases i <;>
    simp [Matrix.mulVec, dotProduct, Fin.sum_univ_two, Matrix.add_apply, Matrix.mul_apply,
      Matrix.diagonal_apply] <;> norm_num

example : (∀ j : Fin 2, 0 < (![1, 1] : Fin 2 → ℝ) j) ∧ (0:ℝ) < 1 := by
  refine ⟨fun j => ?_, one_pos⟩
  fin_cases j <;> simp

/-- the rank of the example Jacobian is deficient: its determinant vanishes -/
example : (!![1, 1; 1, 1] : Matrix (Fin 2) (Fin 2) ℝ).det = 0 := by
  simp [Matrix.det_fin_two]

end C10
