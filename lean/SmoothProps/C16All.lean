/- aggregator: property theorems of C16 plus the source-tie theorems of the part accessors of `include/smooth/bundle.hpp`
   (both `part<Idx>()` overloads, `PartStart`, `PartDof`, the constructor from parts), regenerated from the C++ on every check
   (tools/gen_bundle.py) -/
import SmoothProps.C16
import SmoothProps.SrcTieBundlePub
