/- aggregator: property theorems of C14 plus the source-tie theorems of the scalar decision logic regenerated from the C++ -/
import SmoothProps.C14
import SmoothProps.SrcTieLogic
import SmoothProps.SrcTieFitSpec
