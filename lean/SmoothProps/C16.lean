/-
  C16 — Map views are interchangeable with values and write only their own memory
  (property theorems about the buffer model `SmoothModel/Mem.lean`).

  The model is tied to the code by SmoothProofs/Gen/ViewLayout.lean (observed write-set of every
  accessor = `Mem.subview`, T2) and by the op-script correspondence of tools/props/c16.py (T1).
  Not modelled: C++ aliasing / lifetime rules (a view into a destroyed buffer, plain assignment
  between partially overlapping views).
-/
import SmoothProofs.C16Mem

open Mem

namespace C16

/-- group types that have sub-part accessors -/
def HasParts : GDesc → Prop
  | .se2 | .se3 | .gal | .sek3 _ | .bundle _ => True
  | _ => False

/-- the sub-views of every such group type tile `[0, RepSize)` end to end -/
theorem subviews_tile (d : GDesc) (h : HasParts d) : Tiles (subviews d) 0 (repSize d) := by
  rw [subviews_eq_spec]
  cases d with
  | so2 => cases h
  | so3 => cases h
  | c1 => cases h
  | tn n => cases h
  | se2 => exact Tiles.cons 0 2 _ _ (Tiles.cons 2 2 _ _ (Tiles.nil 4))
  | se3 => exact Tiles.cons 0 3 _ _ (Tiles.cons 3 4 _ _ (Tiles.nil 7))
  | gal =>
    exact Tiles.cons 0 3 _ _ (Tiles.cons 3 3 _ _ (Tiles.cons 6 1 _ _ (Tiles.cons 7 4 _ _ (Tiles.nil 11))))
  | sek3 k =>
    have h1 := tiles_r3 k 0
    have h2 : Tiles [(3 * k, 4)] (0 + 3 * k) (repSize (.sek3 k)) := by
      have : repSize (.sek3 k) = 3 * k + 4 := by simp [repSize]; omega
      rw [this, Nat.zero_add]
      exact Tiles.cons (3 * k) 4 _ _ (Tiles.nil _)
    simpa [subviewsSpec] using h1.append h2
  | bundle ps => exact tiles_bundle ps

/-- **subviews_partition**: for SE2, SE3, Galilei, SE_K_3 for every `k`, and every Bundle list, the
    sub-views (`r2 so2`, `r3 so3`, `r3_v r3_p r1_t so3`, `r3<0..k-1> so3`, `part<0..n-1>`) lie inside
    `[0, RepSize)`, are pairwise disjoint, and their union is all of `[0, RepSize)` — assigning all
    parts sets every coefficient and nothing else. -/
theorem subviews_partition (d : GDesc) (h : HasParts d) :
    (∀ v ∈ subviews d, v.1 + v.2 ≤ repSize d)
    ∧ (subviews d).Pairwise (fun a b => a.1 + a.2 ≤ b.1)
    ∧ (∀ i, i < repSize d → ∃ v ∈ subviews d, v.1 ≤ i ∧ i < v.1 + v.2) :=
  have ht := subviews_tile d h
  ⟨fun v hv => (ht.inside v hv).2, ht.disjoint, fun i hi => ht.cover i (Nat.zero_le _) hi⟩

section frame
variable {α : Type} [Scalar α] [WordRep α]

/-- **frame**: a word outside the view an op writes through is unchanged, for every mutating op
    (`setIdentity`, `coeffs() =`, `part<i>() =`, `so3() =` …, `=`, `*=`, `+=`, cast-assign), whatever
    values the op computes; the buffer size never changes. -/
theorem frame (conv : Word → Word) (d : GDesc) (op : Op) (b : Buf) (i : Nat)
    (h : ∀ w ∈ op.writeSet d, i < w.1 ∨ w.1 + w.2 ≤ i) :
    (step (α := α) conv d op b)[i]? = b[i]? ∧ (step (α := α) conv d op b).size = b.size := by
  unfold step
  cases ht : op.target d with
  | none => exact ⟨rfl, rfl⟩
  | some t =>
    simp only []
    refine ⟨?_, write_size _ _ _⟩
    apply write_frame
    have hw : (t.off, t.len) ∈ op.writeSet d := by simp [Op.writeSet, ht]
    have := h _ hw
    simp only at this
    rw [List.length_take]
    omega

/-- **frame_history**: after ANY list of ops on arbitrary (overlapping) views of one buffer, a word
    outside the union of the views written through is unchanged. -/
theorem frame_history (conv : Word → Word) (d : GDesc) (ops : List Op) (b : Buf) (i : Nat)
    (h : ∀ op ∈ ops, ∀ w ∈ op.writeSet d, i < w.1 ∨ w.1 + w.2 ≤ i) :
    (run (α := α) conv d ops b)[i]? = b[i]? ∧ (run (α := α) conv d ops b).size = b.size := by
  induction ops generalizing b with
  | nil => exact ⟨rfl, rfl⟩
  | cons op ops ih =>
    have h1 := frame (α := α) conv d op b i (h op List.mem_cons_self)
    have h2 := ih (step (α := α) conv d op b) (fun o ho => h o (List.mem_cons_of_mem _ ho))
    simp only [run, List.foldl_cons] at h2 ⊢
    exact ⟨h2.1.trans h1.1, h2.2.trans h1.2⟩

/-- **const views never write**: an op whose destination is a `Map<const G>` has an empty write-set
    and leaves the whole buffer as it is. -/
theorem const_view_no_write (conv : Word → Word) (d : GDesc) (op : Op) (b : Buf)
    (h : op.dst.1.writable = false) :
    op.writeSet d = [] ∧ step (α := α) conv d op b = b := by
  have ht : op.target d = none := by
    cases op <;> simp only [Op.dst] at h <;> simp only [Op.target, Op.dst, resolve]
    all_goals (cases resolvePath d _ <;> simp [h])
  exact ⟨by simp [Op.writeSet, ht], by simp [step, ht]⟩

/-- reading operands (the second operand of `=`, `*=`, cast, through any kind of view, const or
    not) contributes nothing to the write-set: it only depends on the destination. -/
theorem writeSet_only_dst (d : GDesc) (op : Op) :
    op.writeSet d = match op.target d with | some t => [(t.off, t.len)] | none => [] := rfl

/-- **map_eq_value** (refinement `load ∘ op_view = op_value ∘ load`): an op applied through a view
    stores exactly the coefficients the value-level op returns on the coefficients loaded from the
    view (both call the same `Impl` on the same words). -/
theorem map_eq_value (conv : Word → Word) (d : GDesc) (op : Op) (b : Buf) (t : Target)
    (ht : op.target d = some t) (hb : t.off + t.len ≤ b.size)
    (hlen : (opValue (α := α) conv (GDesc.model t.desc) op (load b t.off t.len)
        (match op.srcRange d with | some r => load b r.1 r.2 | none => [])).length = t.len) :
    load (step (α := α) conv d op b) t.off t.len
      = opValue (α := α) conv (GDesc.model t.desc) op (load b t.off t.len)
          (match op.srcRange d with | some r => load b r.1 r.2 | none => []) := by
  unfold step
  simp only [ht]
  generalize hv : opValue (α := α) conv (GDesc.model t.desc) op (load b t.off t.len)
      (match op.srcRange d with | some r => load b r.1 r.2 | none => []) = vals at hlen ⊢
  have e : vals.take t.len = vals := by rw [← hlen]; exact List.take_length
  rw [e]
  have := load_write b t.off vals (by omega)
  rwa [hlen] at this


/-- the value-level op returns exactly `t.len` coefficients (for a literal assignment: when the
    literal has the size of the target, which the C++ type system enforces) -/
theorem opValue_length (conv : Word → Word) (d : GDesc) (op : Op) (b : Buf) (t : Target)
    (ht : op.target d = some t)
    (hlit : ∀ l p ws, op = .setCoeffs l p ws → ws.length = t.len) :
    (opValue (α := α) conv (GDesc.model t.desc) op (load b t.off t.len)
        (match op.srcRange d with | some r => load b r.1 r.2 | none => [])).length = t.len := by
  -- for the ops that write through an accessor chain, the target's length is the RepSize of its descriptor
  have hres : ∀ (l : Loc) (p : List Acc), op.dst = (l, p) →
      (∀ x y z, op ≠ .readSub x y z) → (∀ x y z, op ≠ .readLog x y z) →
      (GDesc.model (α := α) t.desc).rep = t.len := by
    intro l p hd h1 h2
    have hr : ∃ o, resolvePath d p = some (o, t.len, t.desc) := by
      have ht' : (match resolve d l p with
          | some t => if t.writable then some t else none
          | none => none) = some t := by
        cases op <;> simp_all [Op.target, Op.dst]
        all_goals exact ht
      unfold resolve at ht'
      cases hr : resolvePath d p with
      | none => simp [hr] at ht'
      | some r =>
        obtain ⟨o, len, sd⟩ := r
        simp only [hr] at ht'
        split at ht'
        · simp only [Option.some.injEq] at ht'; subst ht'; exact ⟨o, rfl⟩
        · cases ht'
    obtain ⟨o, hr⟩ := hr
    rw [model_rep, resolvePath_len _ _ _ _ _ hr]
  cases op with
  | setIdentity l p =>
    simp only [opValue]; rw [valIdentity_length]; exact hres l p rfl (by intros; simp) (by intros; simp)
  | setCoeffs l p ws => simp only [opValue]; exact hlit l p ws rfl
  | mulLit l p ws =>
    simp only [opValue]; rw [valCompose_length]; exact hres l p rfl (by intros; simp) (by intros; simp)
  | mulLoc dst src =>
    simp only [opValue]; rw [valCompose_length]; exact hres dst [] rfl (by intros; simp) (by intros; simp)
  | plusLit l p a =>
    simp only [opValue]; rw [valPlus_length]; exact hres l p rfl (by intros; simp) (by intros; simp)
  | assign dst src =>
    have := hres dst [] rfl (by intros; simp) (by intros; simp)
    have hl : t.len = repSize d := by
      simp only [Op.target, Op.dst, resolve, resolvePath] at ht
      split at ht
      · simp only [Option.some.injEq] at ht; subst ht; rfl
      · cases ht
    simp only [opValue, Op.srcRange, load_length]; exact hl.symm
  | castRt dst src =>
    have hl : t.len = repSize d := by
      simp only [Op.target, Op.dst, resolve, resolvePath] at ht
      split at ht
      · simp only [Option.some.injEq] at ht; subst ht; rfl
      · cases ht
    simp only [opValue, Op.srcRange, List.length_map, load_length]; exact hl.symm
  | readSub dst src p =>
    simp only [Op.target] at ht
    cases hr : resolve d src p with
    | none => simp [hr] at ht
    | some ts =>
      simp only [hr] at ht
      split at ht
      · simp only [Option.some.injEq] at ht; subst ht
        simp [opValue, Op.srcRange, hr, load_length]
      · cases ht
  | readLog dst src p =>
    simp only [Op.target] at ht
    cases hr : resolve d src p with
    | none => simp [hr] at ht
    | some ts =>
      simp only [hr] at ht
      split at ht
      · simp only [Option.some.injEq] at ht; subst ht
        simp only [opValue]
        rw [wordsOfVec_length, model_dof]
      · cases ht

/-- **map_eq_value** without the side condition: for every op of the script language whose target
    lies inside the buffer, `load ∘ op_view = op_value ∘ load`. -/
theorem map_eq_value_total (conv : Word → Word) (d : GDesc) (op : Op) (b : Buf) (t : Target)
    (ht : op.target d = some t) (hb : t.off + t.len ≤ b.size)
    (hlit : ∀ l p ws, op = .setCoeffs l p ws → ws.length = t.len) :
    load (step (α := α) conv d op b) t.off t.len
      = opValue (α := α) conv (GDesc.model t.desc) op (load b t.off t.len)
          (match op.srcRange d with | some r => load b r.1 r.2 | none => []) :=
  map_eq_value (α := α) conv d op b t ht hb (opValue_length (α := α) conv d op b t ht hlit)

/-- **const read window**: reading a sub-part through the const overload of an accessor chain
    (`Map<const G>`, const value, `std::as_const(Map<G>)`) returns exactly the words
    `[off + sub.off, off + sub.off + sub.len)` of the model's sub-view — the SAME window the mutable
    overload writes (the resolved range does not depend on the `writable` flag of the view). -/
theorem const_read_window (conv : Word → Word) (d : GDesc) (dst src : Loc) (p : List Acc) (b : Buf)
    (ts : Target) (hs : resolve d src p = some ts) (hw : dst.writable = true)
    (hb : dst.off + ts.len ≤ b.size) :
    load (step (α := α) conv d (.readSub dst src p) b) dst.off ts.len = load b ts.off ts.len
    ∧ (resolve d ⟨src.off, !src.writable⟩ p).map (fun t => (t.off, t.len)) = some (ts.off, ts.len) := by
  constructor
  · have ht : (Op.readSub dst src p).target d = some ⟨dst.off, ts.len, ts.desc, true⟩ := by
      simp [Op.target, hs, hw]
    have := map_eq_value_total (α := α) conv d (.readSub dst src p) b _ ht hb (by intros; simp_all)
    simpa [opValue, Op.srcRange, hs] using this
  · unfold resolve at hs ⊢
    cases hr : resolvePath d p with
    | none => simp [hr] at hs
    | some r =>
      obtain ⟨o, len, sd⟩ := r
      simp only [hr, Option.some.injEq] at hs
      subst hs
      simp

/-- **assign_verbatim**: construction / assignment between value, Map and const-Map storage copies
    the `RepSize` coefficients verbatim — whatever the overlap of the two regions (the model reads
    before it writes), and touches nothing else. -/
theorem assign_verbatim (conv : Word → Word) (d : GDesc) (dst src : Loc) (b : Buf)
    (hw : dst.writable = true) (hb : dst.off + repSize d ≤ b.size) :
    load (step (α := α) conv d (.assign dst src) b) dst.off (repSize d) = load b src.off (repSize d)
    ∧ ∀ i, (i < dst.off ∨ dst.off + repSize d ≤ i) →
        (step (α := α) conv d (.assign dst src) b)[i]? = b[i]? := by
  have ht : (Op.assign dst src).target d = some ⟨dst.off, repSize d, d, true⟩ := by
    simp [Op.target, resolve, resolvePath, Op.dst, hw]
  constructor
  · have := map_eq_value (α := α) conv d (.assign dst src) b _ ht (by simpa using hb)
      (by simp [opValue, Op.srcRange, load_length])
    simpa [opValue, Op.srcRange] using this
  · intro i hi
    exact (frame (α := α) conv d (.assign dst src) b i (by
      intro w hw'
      simp [Op.writeSet, ht] at hw'
      subst hw'
      exact hi)).1

end frame

/-- **cast_no_reorder**: `cast<S>()` converts coefficient `i` to coefficient `i` — same length, same
    order, each word through the scalar conversion. -/
theorem cast_no_reorder (conv : Word → Word) (ws : List Word) :
    (castWords conv ws).length = ws.length ∧ ∀ i : Nat, (castWords conv ws)[i]? = (ws[i]?).map conv := by
  simp [castWords]

/- ### non-vacuity: concrete scripts on a concrete buffer (Float model, evaluated by the kernel-free
   `decide` on the structural parts) -/

/-- SE_K_3 with k = 2: three tiles `[0,3) [3,6) [6,10)` -/
example : subviews (.sek3 2) = [(0, 3), (3, 3), (6, 4)] := by decide
example : HasParts (.sek3 2) := trivial
example : subviews (.bundle [.so3, .tn 2, .se2]) = [(0, 4), (4, 2), (6, 4)] := by decide
/-- a write through `part<1>().so3()` of `Bundle<T2, SE3>` at word offset 5 touches words `[10, 14)` -/
example : (Op.setIdentity ⟨5, true⟩ [.part 1, .so3]).writeSet (.bundle [.tn 2, .se3]) = [(10, 4)] := by decide
/-- the same through a const view writes nothing -/
example : (Op.setIdentity ⟨5, false⟩ [.part 1, .so3]).writeSet (.bundle [.tn 2, .se3]) = [] := by decide
/-- two overlapping views: word 3 lies in both write-sets, word 9 in neither -/
example : (Op.assign ⟨1, true⟩ ⟨3, false⟩).writeSet .se2 = [(1, 4)]
    ∧ (Op.assign ⟨3, true⟩ ⟨1, true⟩).writeSet .se2 = [(3, 4)] := by decide
/-- reading `part<1>()` of `Bundle<R3, SO3>` through a const view at word 2 sees words `[5, 9)` -/
example : (Op.readSub ⟨20, true⟩ ⟨2, false⟩ [.part 1]).srcRange (.bundle [.tn 3, .so3]) = some (5, 4) := by decide
example : write #[1, 2, 3, 4, 5] 1 [9, 8] = #[1, 9, 8, 4, 5] := by decide
example : load #[1, 2, 3, 4, 5] 1 3 = [2, 3, 4] := by decide

end C16
