/-
  SrcTie — the scalar coefficient code regenerated from the C++ source on every run
  (`SmoothModel/Gen/CoefSrc.lean`, written by tools/gen_src.py from detail/trig.hpp and the inline
  lambdas of detail/so3.hpp, se2.hpp, se3.hpp) IS the hand-written model the theorems of C02, C04 and
  C05 are about.  Every statement is over an arbitrary `[Scalar α]` (so it holds for Float, Float32
  and ℝ alike) and is proved by unfolding: a changed coefficient, threshold, sign, branch condition
  or operand order in the C++ makes the generated side differ and the proof fail.
-/
import SmoothModel
import SmoothModel.Gen.CoefSrc

open Scalar

namespace SrcTie
variable {α : Type} [Scalar α]

theorem trig_cos_2 (x2 : α) : CoefSrc.Trig_cos_2 x2 = Trig.cos_2 x2 := rfl
theorem trig_sin_3 (x2 : α) : CoefSrc.Trig_sin_3 x2 = Trig.sin_3 x2 := rfl
theorem trig_cos_4 (x2 : α) : CoefSrc.Trig_cos_4 x2 = Trig.cos_4 x2 := rfl
theorem trig_sin_5 (x2 : α) : CoefSrc.Trig_sin_5 x2 = Trig.sin_5 x2 := rfl
theorem trig_cos_6 (x2 : α) : CoefSrc.Trig_cos_6 x2 = Trig.cos_6 x2 := rfl

theorem so3_S1invA (th2 : α) : CoefSrc.SO3_S1invA th2 = SO3.S1invA th2 := rfl
theorem so3_logPhi (xyz2 w : α) : CoefSrc.SO3_logPhi xyz2 w = SO3.logPhi xyz2 w := rfl
theorem so3_expAB (th2 : α) : CoefSrc.SO3_expAB th2 = SO3.expAB th2 := rfl
theorem so3_d2rExpCoef (th2 : α) : CoefSrc.SO3_d2rExpCoef th2 = SO3.d2rExpCoef th2 := rfl
theorem so3_d2rExpinvCoef (th2 : α) : CoefSrc.SO3_d2rExpinvCoef th2 = SO3.d2rExpinvCoef th2 := rfl

theorem se2_logA (th2 B : α) : CoefSrc.SE2_logA th2 B = SE2.logA th2 B := rfl
theorem se2_expAB (th th2 : α) : CoefSrc.SE2_expAB th th2 = SE2.expAB th th2 := rfl
theorem se2_drExpinvA (th th2 : α) : CoefSrc.SE2_drExpinvA th th2 = SE2.drExpinvA th th2 := rfl
theorem se2_d2rExpCoef (wz : α) : CoefSrc.SE2_d2rExpCoef wz = SE2.d2rExpCoef wz := rfl
theorem se2_d2rExpinvCoef (wz : α) : CoefSrc.SE2_d2rExpinvCoef wz = SE2.d2rExpinvCoef wz := rfl

theorem se3_dQCoef (th2 : α) : CoefSrc.SE3_dQCoef th2 = SE3.dQCoef th2 := rfl

end SrcTie
