/- aggregator: property theorems of C04 plus the source-tie theorems regenerated from the C++ -/
import SmoothProps.C04
import SmoothProps.SrcTie
import SmoothProps.SrcTieImplC04
