/-
  SrcTieImplC02 — source ties (see SrcTieImpl.lean) for exp and log.
-/
import SmoothProps.SrcTieImplC01
import SmoothProps.SrcTieImplC04

open Scalar Lin EigenSem

namespace SrcTieImpl
variable {α : Type} [Scalar α]

theorem so2_log (g : Vec α 2) : ImplSrc.SO2.log g = SO2.log g := rfl
theorem so2_exp (a : Vec α 1) : ImplSrc.SO2.exp a = SO2.exp a := rfl
theorem c1_log (g : Vec α 2) : ImplSrc.C1.log g = C1.log g := rfl
theorem c1_exp (a : Vec α 2) : ImplSrc.C1.exp a = C1.exp a := rfl
theorem se2_log (g : Vec α 4) : ImplSrc.SE2.log g = SE2.log g := by tie_vec
theorem se2_exp (a : Vec α 3) : ImplSrc.SE2.exp a = SE2.exp a := by tie_vec
omit [Scalar α] in
theorem tn_log {n : Nat} (g : Vec α n) : ImplSrc.Tn.log g = Tn.log g := rfl
omit [Scalar α] in
theorem tn_exp {n : Nat} (a : Vec α n) : ImplSrc.Tn.exp a = Tn.exp a := rfl
theorem so3_log (g : Vec α 4) : ImplSrc.SO3.log g = SO3.log g := by tie_vec
theorem so3_exp (a : Vec α 3) : ImplSrc.SO3.exp a = SO3.exp a := rfl
theorem se3_log (g : Vec α 7) : ImplSrc.SE3.log g = SE3.log g := by
  simp only [ImplSrc.SE3.log, SE3.log, memoM_eq, memoV_eq, so3_log, so3_dr_expinv, so3_ad,
    tail3_setSegment, tail4_so3, head3_r3]
  tie_vec
theorem se3_exp (a : Vec α 6) : ImplSrc.SE3.exp a = SE3.exp a := by
  simp only [ImplSrc.SE3.exp, SE3.exp, memoM_eq, memoV_eq, so3_exp, so3_dr_exp, so3_Ad,
    tail4_setSegment, tail3_tw, head3_tv]
  tie_vec

end SrcTieImpl
