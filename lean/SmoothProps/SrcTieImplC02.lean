/-
  SrcTieImplC02 — source ties (see SrcTieImpl.lean) for exp and log of SO2, C1, Tn, SE2, SO3, SE3, Galilei, SE_K(3).
-/
import SmoothProps.SrcTieImplC01
import SmoothProps.SrcTieImplC04

open Scalar Lin EigenSem

set_option linter.unusedSectionVars false
namespace SrcTieImpl
variable {α : Type} [Scalar α]

theorem so2_log (g : Vec α 2) : ImplSrc.SO2.log g = SO2.log g := rfl
theorem so2_exp (a : Vec α 1) : ImplSrc.SO2.exp a = SO2.exp a := rfl
theorem c1_log (g : Vec α 2) : ImplSrc.C1.log g = C1.log g := rfl
theorem c1_exp (a : Vec α 2) : ImplSrc.C1.exp a = C1.exp a := rfl
theorem se2_log (g : Vec α 4) : ImplSrc.SE2.log g = SE2.log g := by tie_vec
theorem se2_exp (a : Vec α 3) : ImplSrc.SE2.exp a = SE2.exp a := by tie_vec
omit [Scalar α] in
theorem tn_log {n : Nat} (g : Vec α n) : ImplSrc.Tn.log g = Tn.log g := rfl
omit [Scalar α] in
theorem tn_exp {n : Nat} (a : Vec α n) : ImplSrc.Tn.exp a = Tn.exp a := rfl
theorem so3_log (g : Vec α 4) : ImplSrc.SO3.log g = SO3.log g := by tie_vec
theorem so3_exp (a : Vec α 3) : ImplSrc.SO3.exp a = SO3.exp a := rfl
theorem se3_log (g : Vec α 7) : ImplSrc.SE3.log g = SE3.log g := by
  simp only [ImplSrc.SE3.log, SE3.log, memoM_eq, memoV_eq, so3_log, so3_dr_expinv, so3_ad,
    tail3_setSegment, tail4_so3, head3_r3]
  tie_vec
theorem se3_exp (a : Vec α 6) : ImplSrc.SE3.exp a = SE3.exp a := by
  simp only [ImplSrc.SE3.exp, SE3.exp, memoM_eq, memoV_eq, so3_exp, so3_dr_exp, so3_Ad,
    tail4_setSegment, tail3_tw, head3_tv]
  tie_vec

/-! Galilei -/
theorem galilei_log (g : Vec α 11) : ImplSrc.Galilei.log g = Galilei.log g := by
  simp only [ImplSrc.Galilei.log, Galilei.log, memoM_eq, memoV_eq, so3_log, so3_calc_S1inv, so3_calc_S2,
    gal_tail3_set, gal_tail4]
  tie_vec
theorem galilei_exp (a : Vec α 10) : ImplSrc.Galilei.exp a = Galilei.exp a := by
  simp only [ImplSrc.Galilei.exp, Galilei.exp, memoM_eq, memoV_eq, so3_exp, so3_calc_S1, so3_calc_S2, gal_tail3]
  tie_vec

/-! SE_K(3), every `k` -/
theorem sek3_log {k : Nat} (g : Vec α (4 + 3 * k)) : ImplSrc.SEK3.log g = SEK3.log k g := by
  simp only [ImplSrc.SEK3.log, SEK3.log, memoM_eq, memoV_eq, so3_log, so3_dr_expinv, so3_ad, seg_gq]
  have e : segment 3 (3 * k) (setSegment (uninitV (3 + 3 * k)) (3 * k) (SO3.log (SEK3.gq k g))) = SO3.log (SEK3.gq k g) := by
    apply Vec.ext'; intro r; exact setSegment_hi _ _ _ r _
  rw [e]
  rw [forLoop_mkT _ _ (SO3.log (SEK3.gq k g)) (fun r => setSegment_hi _ _ _ r _)]
  rfl
theorem sek3_exp {k : Nat} (a : Vec α (3 + 3 * k)) : ImplSrc.SEK3.exp a = SEK3.exp k a := by
  simp only [ImplSrc.SEK3.exp, SEK3.exp, memoM_eq, memoV_eq, so3_exp, so3_dr_exp, so3_Ad, seg_tw]
  have e : segment 4 (3 * k) (setSegment (uninitV (4 + 3 * k)) (3 * k) (SO3.exp (SEK3.tw k a))) = SO3.exp (SEK3.tw k a) := by
    apply Vec.ext'; intro r; exact setSegment_hi _ _ _ r _
  rw [e]
  rw [forLoop_mkG _ _ (SO3.exp (SEK3.tw k a)) (fun r => setSegment_hi _ _ _ r _)]
  rfl

/-! ### generic layer: `log()`, `exp`, `operator+` (rplus), `operator+=`, `operator-` (rminus) of LieGroupBase (see SrcTieImpl.lean) -/
section base
variable (G : LieModel α)
theorem base_log (g : Vec α G.rep) : BaseSrc.log G g = G.log g := rfl
theorem base_exp (a : Vec α G.dof) : BaseSrc.exp G a = G.exp a := rfl
theorem base_rplus (g : Vec α G.rep) (a : Vec α G.dof) : BaseSrc.rplus G g a = G.rplus g a := rfl
theorem base_irplus (g : Vec α G.rep) (a : Vec α G.dof) : BaseSrc.irplus G g a = G.rplus g a := rfl
theorem base_rminus (g1 g2 : Vec α G.rep) : BaseSrc.rminus G g1 g2 = G.rminus g1 g2 := rfl
end base

end SrcTieImpl
