/- aggregator: property theorems of C06 (operation level and layout) plus the source-tie theorems of `detail/bundle.hpp`
   (`BundleImpl`, `utils::array_psum`) and of `traits::lie` for Eigen vectors / scalars / native groups, regenerated from the
   C++ on every check (tools/gen_bundle.py), plus what C06 says in rounded arithmetic (C06Round: Bundles add no arithmetic;
   Tn as the additive group in the standard model of floating-point arithmetic) -/
import SmoothProps.C06
import SmoothProps.C06Round
import SmoothProps.C06Layout
import SmoothProps.SrcTieBundle
import SmoothProps.SrcTieRn
