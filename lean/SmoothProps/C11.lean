/-
  C11 — Cumulative spline evaluation and its derivative outputs are exact (property theorems).

  Model: SmoothModel/CSpline.lean (`eval_vs`, `eval_gs`), SmoothModel/CSplineJac.lean
  (`eval_dg_dvs`, `eval_dg_dgs`), tied to cumulative_spline_impl.hpp by harness/cspline.cpp (T1).
  Lemmas: SmoothProofs/C11Alg.lean (differential algebra), C11Model.lean, C11Deriv.lean, C11Bridge.lean.
-/
import SmoothProofs.C11Alg
import SmoothProofs.C11Model
import SmoothProofs.C11Deriv
import SmoothProofs.C11Bridge
import SmoothProofs.C11Jac
import SmoothProofs.C11JacBridge
import Mathlib.Data.Matrix.Basic
import Mathlib.Tactic.FinCases
import Mathlib.Tactic.NormNum

open Lin Scalar

namespace C11

/-! ## value -/

/-- the ordered product `exp(b₁ v₁) ∘ exp(b₂ v₂) ∘ ⋯ ∘ exp(b_K v_K)` (left to right, starting
    from the identity) in the group operations of the model -/
def orderedProduct {α : Type} [Scalar α] (G : LieModel α) {K : Nat} (b : Fin K → α)
    (vs : Fin K → Vec α G.dof) : Vec α G.rep :=
  (List.finRange K).foldl (fun g j => G.composition g (G.exp (vsmul (b j) (vs j)))) G.identity

/-- the cumulative basis value `B̃_{j+1}(u) = uvec · Bcum.col(j+1)` the code uses for difference `j` -/
def basisValue {α : Type} [Scalar α] {K : Nat} (Bcum : Mat α (K + 1) (K + 1)) (u : α) (j : Fin K) : α :=
  CSpline.bdot (CSpline.monomial_derivative K u 0) Bcum ⟨j.val + 1, by omega⟩

/-- **C11 value.**  For every degree `K`, every group model, every basis matrix, every `u` and
    every scalar type (ℝ, but also the executable `Float` model): the `g` returned by
    `cspline_eval_vs` is the ordered product over `j` of `exp(B̃_j(u) v_j)`.  (By construction of
    the loop — a refactoring of the loop has to re-prove it.) -/
theorem value_is_product {α : Type} [Scalar α] (G : LieModel α) {K : Nat} (vs : Fin K → Vec α G.dof)
    (Bcum : Mat α (K + 1) (K + 1)) (u : α) :
    (CSpline.eval_vs G vs Bcum u).g = orderedProduct G (basisValue Bcum u) vs := by
  unfold CSpline.eval_vs orderedProduct basisValue
  simp only [memoV_eq]
  apply foldl_proj (p := fun s : CSpline.St α G => s.g)
  intro s j
  simp only [CSpline.step, memoV_eq]

/-- over ℝ the basis value is the polynomial `Σ_r u^r Bcum[r][j]` -/
theorem basis_value_is_polynomial {K : Nat} (Bcum : Mat ℝ (K + 1) (K + 1)) (u : ℝ) (j : Fin K) :
    basisValue Bcum u j = ∑ r : Fin (K + 1), u ^ r.val * Bcum r ⟨j.val + 1, by omega⟩ := by
  unfold basisValue
  rw [bdot_monomial_eq]
  apply Finset.sum_congr rfl
  intro r _
  simp [Nat.descFactorial_zero]

/-- the rows `dBj, d2Bj, d3Bj` the code uses are the successive `u`-derivatives of `Bj` (all `K`) -/
theorem basis_rows_are_derivatives {K : Nat} (Bcum : Mat ℝ (K + 1) (K + 1)) (j : Fin (K + 1)) (p : Nat) (u : ℝ) :
    HasDerivAt (fun u => CSpline.bdot (CSpline.monomial_derivative K u p) Bcum j)
      (CSpline.bdot (CSpline.monomial_derivative K u (p + 1)) Bcum j) u :=
  bdot_hasDerivAt Bcum j p u

/-- **C11 anchored variant.**  `cspline_eval_gs` is `g₀ ∘ cspline_eval_vs` on the differences
    `v_i = g_i ⊖ g_{i−1}`, with the same velocity, acceleration and jerk. -/
theorem gs_is_anchored {α : Type} [Scalar α] (G : LieModel α) {K : Nat} (gs : Fin (K + 1) → Vec α G.rep)
    (Bcum : Mat α (K + 1) (K + 1)) (u : α) :
    let vs : Fin K → Vec α G.dof := fun i => G.rminus (gs ⟨i.val + 1, by omega⟩) (gs ⟨i.val, by omega⟩)
    let s := CSpline.eval_vs G vs Bcum u
    CSpline.eval_gs G gs Bcum u = ⟨G.composition (gs ⟨0, by omega⟩) s.g, s.vel, s.acc, s.jer⟩ := by
  intro vs s
  unfold CSpline.eval_gs
  simp only [memoV_eq]
  rfl

/-! ## velocity, acceleration, jerk -/

/-- **C11 derivative recursion (every K).**  In any ring `𝔸` with an additive Leibniz map `D`
    (`D = d/du` on matrix-valued functions), for any list of factors `E_j` (units with
    `D E_j = E_j·(c1_j V_j)`, `D V_j = 0`, central scalars with `D c1 = c2`, `D c2 = c3`), the state
    produced by the code's recursion (`stepA`, i.e. `Ad_{E⁻¹}X = E⁻¹XE`, `ad_X Y = XY − YX`) is
    `g = ∏ E_j` and `vel = g⁻¹·D g`, `acc = D vel`, `jer = D acc`: body velocity, acceleration,
    jerk of the product curve. -/
theorem velocity_acceleration_jerk_recursion {𝔸 : Type*} [Ring 𝔸] (d : Deriv 𝔸) (Fs : List (Factor 𝔸 d)) :
    let s := Fs.foldl (fun s F => stepA F s) initA
    s.g = (Fs.map (·.E)).prod ∧ s.g * s.gi = 1 ∧ s.gi * s.g = 1 ∧
      s.vel = s.gi * d.D s.g ∧ s.acc = d.D s.vel ∧ s.jer = d.D s.acc := by
  intro s
  have h := good_foldl Fs initA (good_init (d := d))
  refine ⟨?_, h.g_gi, h.gi_g, h.vel, h.acc, h.jer⟩
  have := foldl_g Fs (initA (𝔸 := 𝔸)) (d := d)
  show (Fs.foldl (fun s F => stepA F s) initA).g = _
  rw [this]; simp [initA]

/-- non-vacuity: a non-commutative instance with `D E ≠ 0` — 2×2 rational matrices, `D X = A X − X A`
    (`A = e₁₂`), `E = diag(1,2)`, `V = e₁₂`, `c1 = 1` -/
example : ∃ (d : Deriv (Matrix (Fin 2) (Fin 2) ℚ)) (F : Factor (Matrix (Fin 2) (Fin 2) ℚ) d), d.D F.E ≠ 0 := by
  let A : Matrix (Fin 2) (Fin 2) ℚ := !![0, 1; 0, 0]
  let d : Deriv (Matrix (Fin 2) (Fin 2) ℚ) :=
    { D := fun X => A * X - X * A
      add := fun x y => by noncomm_ring
      mul := fun x y => by noncomm_ring }
  refine ⟨d, { E := !![1, 0; 0, 2], Ei := !![1, 0; 0, 1/2], V := A, c1 := 1, c2 := 0, c3 := 0,
               E_Ei := ?_, Ei_E := ?_, DV := ?_, DE := ?_, c1_central := ?_, c2_central := ?_,
               Dc1 := ?_, Dc2 := ?_ }, ?_⟩
  · ext i j; fin_cases i <;> fin_cases j <;> simp [Matrix.mul_apply, Fin.sum_univ_two]
  · ext i j; fin_cases i <;> fin_cases j <;> simp [Matrix.mul_apply, Fin.sum_univ_two]
  · show A * A - A * A = 0; simp
  · show A * !![1, 0; 0, 2] - !![1, 0; 0, 2] * A = !![1, 0; 0, 2] * (1 * A)
    ext i j; fin_cases i <;> fin_cases j <;> simp [A, Matrix.mul_apply, Fin.sum_univ_two] <;> norm_num
  · intro x; simp
  · intro x; simp
  · show A * 1 - 1 * A = 0; simp
  · show A * 0 - 0 * A = 0; simp
  · show A * !![1, 0; 0, 2] - !![1, 0; 0, 2] * A ≠ 0
    intro h
    have := congrFun (congrFun h 0) 1
    simp [A] at this
    norm_num at this

/-- **The model's loop body is that recursion step.**  For any linear representation `ρ` of the
    tangent space in an ℝ-algebra that turns the coordinate matrices into conjugation
    (`ρ(Ad(inverse e) x) = Ei·ρx·E` for `e = exp(Bj vj)`) and commutator (`ρ(ad x · y) = [ρx, ρy]`)
    — C03 for `ρ = hat` — the `vel`, `acc`, `jer` computed by `CSpline.step` are those of
    `stepFormula` with the scalars `dBj·1, d2Bj·1, d3Bj·1`. -/
theorem model_step_is_recursion_step (G : LieModel ℝ) {𝔸 : Type*} [Ring 𝔸] [Algebra ℝ 𝔸]
    (ρ : (Fin G.dof → ℝ) →ₗ[ℝ] 𝔸)
    (had : ∀ x y : Vec ℝ G.dof, ρ (mulVec (G.ad x) y).get = ρ x.get * ρ y.get - ρ y.get * ρ x.get)
    (Bj dBj d2Bj d3Bj : ℝ) (vj : Vec ℝ G.dof) (s : CSpline.St ℝ G) (E Ei g gi : 𝔸)
    (hAd : ∀ x : Vec ℝ G.dof,
      ρ (mulVec (G.Ad (G.inverse (G.exp (vsmul Bj vj)))) x).get = Ei * ρ x.get * E) :
    let s' := CSpline.step G Bj dBj d2Bj d3Bj vj s
    let a' := stepFormula E Ei (ρ vj.get) (algebraMap ℝ 𝔸 dBj) (algebraMap ℝ 𝔸 d2Bj) (algebraMap ℝ 𝔸 d3Bj)
                (img G ρ s g gi)
    ρ s'.vel.get = a'.vel ∧ ρ s'.acc.get = a'.acc ∧ ρ s'.jer.get = a'.jer :=
  step_is_stepFormula G ρ had Bj dBj d2Bj d3Bj vj s E Ei g gi hAd

/-- non-vacuity of the hypotheses of `model_step_is_recursion_step`: translations `T1`, `ρ x = x₀` -/
example : ∃ (ρ : (Fin 1 → ℝ) →ₗ[ℝ] ℝ),
    (∀ x y : Vec ℝ 1, ρ (mulVec ((Tn.model (α := ℝ) 1).ad x) y).get = ρ x.get * ρ y.get - ρ y.get * ρ x.get) ∧
    (∀ (e : Vec ℝ 1) (x : Vec ℝ 1), ρ (mulVec ((Tn.model (α := ℝ) 1).Ad e) x).get = 1 * ρ x.get * 1) ∧ ρ (fun _ => 2) = 2 := by
  refine ⟨LinearMap.proj (0 : Fin 1), ?_, ?_, rfl⟩
  · intro x y; simp [Tn.model, mulVec, vsum, mzero, Vec.of, LinearMap.proj_apply]; ring
  · intro e x; simp [Tn.model, mulVec, vsum, ident, Vec.of, LinearMap.proj_apply]

/-! ## Jacobians -/

/-- **C11 control-point Jacobian, chain rule.**  Let `D_j` be the blocks of a Jacobian with respect
    to the differences (`dg_dvs`, `dvel_dvs` or `dacc_dvs`) and `δ_i` perturbations of the control
    points.  The differences move by `δv_j = dr_expinv(v_j) δ_{j+1} − dl_expinv(v_j) δ_j`
    (right-Jacobians of `rminus`, C04).  Then the blocks computed by the loop of
    `cspline_eval_dg_dgs` — `−D_j·(−ad v_j + dr_expinv v_j)` on block `j`, `+D_j·dr_expinv v_j` on
    block `j+1`, and `Ad((∏exp)⁻¹) =: A` added to the first block — satisfy
    `Σ_i block_i δ_i = A δ_0 + Σ_j D_j δv_j`, provided `dl_expinv = −ad + dr_expinv`
    (the "cheaper formula", C04 `dlExpinv_eq`). -/
theorem dg_dgs_chain_rule (G : LieModel ℝ) (hdl : DlCheap G)
    (Ds : List (Mat ℝ G.dof G.dof)) (vs : List (Vec ℝ G.dof)) (A : Mat ℝ G.dof G.dof)
    (δ : Nat → Fin G.dof → ℝ) :
    applyBlocks (CSpline.addFirst G A (CSpline.chain G Ds vs)) δ 0
      = mv A (δ 0) + throughDiffs G (Ds.zip vs) δ 0
    ∧ applyBlocks (CSpline.chain G Ds vs) δ 0 = throughDiffs G (Ds.zip vs) δ 0 := by
  have h2 : applyBlocks (CSpline.chain G Ds vs) δ 0 = throughDiffs G (Ds.zip vs) δ 0 := by
    unfold CSpline.chain
    rw [chainAux_spec G hdl, mv_mzero, zero_add]
  refine ⟨?_, h2⟩
  have hne : CSpline.chain G Ds vs ≠ [] := chainAux_ne_nil G _ _
  rw [addFirst_spec G A _ hne, h2]

/-- non-vacuity of `DlCheap`: the translation groups satisfy `dl_expinv = −ad + dr_expinv` -/
example : DlCheap (Tn.model (α := ℝ) 3) := by
  intro v
  ext i j
  simp [LieModel.dl_expinv, Tn.model, madd, mneg, mzero, Mat.of]

/-- `cspline_eval_dg_dgs` is the chain of the three `dvs` Jacobians over the differences, plus
    `Ad(inverse(exp_series))` on the first block of `dg` only -/
theorem dg_dgs_is_chain (G : LieModel ℝ) {K : Nat} (gs : Fin (K + 1) → Vec ℝ G.rep)
    (Bcum : Mat ℝ (K + 1) (K + 1)) (u : ℝ) :
    ∃ (vs : Fin K → Vec ℝ G.dof) (vsl : List (Vec ℝ G.dof)),
      vsl = (List.finRange K).map (CSpline.diffs G gs) ∧ (∀ i : Fin K, vs i = CSpline.diffs G gs i) ∧
      let J := CSpline.eval_dg_dvs G vs Bcum u
      let A := G.Ad (G.inverse (CSpline.expSeries G vs Bcum u))
      (CSpline.eval_dg_dgs G gs Bcum u).dg = CSpline.addFirst G A (CSpline.chain G J.dg vsl) ∧
      (CSpline.eval_dg_dgs G gs Bcum u).dvel = CSpline.chain G J.dvel vsl ∧
      (CSpline.eval_dg_dgs G gs Bcum u).dacc = CSpline.chain G J.dacc vsl := by
  refine ⟨fun i => ((List.finRange K).map (fun i => CSpline.diffs G gs i)).getD i.val (vzero _),
    (List.finRange K).map (CSpline.diffs G gs), rfl, ?_, ?_⟩
  · intro i
    simp [List.getD_eq_getElem?_getD]
  · simp only [CSpline.eval_dg_dgs, memoV_eq, memoM_eq]
    trivial


/-! ## Jacobians with respect to the differences (`cspline_eval_dg_dvs`) -/

/-- factor data for the curve (`D = d/du`) and for a variation `δ` of the differences on the same
    factor -/
structure DFactor {𝔸 : Type*} [Ring 𝔸] (d δ : Deriv 𝔸) where
  F : Factor 𝔸 d
  J : VFactor 𝔸 δ
  hE : J.E = F.E
  hEi : J.Ei = F.Ei
  hV : J.V = F.V
  hc1 : J.c1 = F.c1
  hc2 : J.c2 = F.c2

/-- **C11 value Jacobian (every K).**  Let `δ` be any additive Leibniz map on the ring (a variation
    of the differences `v_j` in arbitrary directions) with `δE_j = E_j·R_j`
    (`R_j = (B_j·dr_exp(B_j v_j) δv_j)^`, the right Jacobian of exp — C04).  The accumulation
    `dg_dvs.leftCols.applyOnTheLeft(Adj); dg_dvs.middleCols += Bj·dr_exp(Bj vj)` — in the ring
    `X ← E⁻¹ X E + R` — yields `X = g⁻¹·δg` for `g = ∏ E_j`: `dg_dvs` is the right-Jacobian of the
    value with respect to the differences. -/
theorem dg_dvs_recursion {𝔸 : Type*} [Ring 𝔸] (δ : Deriv 𝔸) (Fs : List (VFactor 𝔸 δ)) :
    let s := Fs.foldl (fun s F => stepJ F s) initJ
    s.g * s.gi = 1 ∧ s.gi * s.g = 1 ∧ s.X = s.gi * δ.D s.g := by
  intro s
  have h := jgood_foldl Fs initJ (jgood_init (δ := δ))
  exact ⟨h.g_gi, h.gi_g, h.X⟩

/-- **C11 velocity / acceleration Jacobians (every K).**  With the code's identity
    `Ad(exp(−Bv))·dr_exp(−Bv) = dr_exp(Bv)` (`Ei·Rm·E = R`) and `δV_j = W_j`, `δ(basis scalars) = 0`:
    the accumulations of `dvel_dvs` (`Bj·Adj·ad(vel)·DrExp + dBj·I`, old blocks `Adj·`) and of
    `dacc_dvs` (`−dBj·ad(vj)·dvel_dvs`, `Bj·Adj·ad(acc)·DrExp`, `dBj·ad(vel)`, `d2Bj·I`) yield
    `Y = δ vel`, `Z = δ acc` for the `vel`, `acc` of the same loop. -/
theorem dvel_dacc_dvs_recursion {𝔸 : Type*} [Ring 𝔸] (δ : Deriv 𝔸) (Fs : List (VFactor 𝔸 δ)) :
    let s := Fs.foldl (fun s F => stepJ F s) initJ
    s.Y = δ.D s.vel ∧ s.Z = δ.D s.acc := by
  intro s
  have h := jgood_foldl Fs initJ (jgood_init (δ := δ))
  exact ⟨h.Y, h.Z⟩

/-- the Jacobian loop carries the same `g, g⁻¹, vel, acc` as the evaluation loop -/
theorem jacobian_loop_same_curve {𝔸 : Type*} [Ring 𝔸] (d δ : Deriv 𝔸) (Fs : List (DFactor d δ)) :
    let a := Fs.foldl (fun s F => stepA F.F s) initA
    let j := Fs.foldl (fun s F => stepJ F.J s) initJ
    j.g = a.g ∧ j.gi = a.gi ∧ j.vel = a.vel ∧ j.acc = a.acc := by
  intro a j
  suffices H : ∀ (Fs : List (DFactor d δ)) (a0 : AState 𝔸) (j0 : JState 𝔸),
      (j0.g = a0.g ∧ j0.gi = a0.gi ∧ j0.vel = a0.vel ∧ j0.acc = a0.acc) →
      ((Fs.foldl (fun s F => stepJ F.J s) j0).g = (Fs.foldl (fun s F => stepA F.F s) a0).g ∧
       (Fs.foldl (fun s F => stepJ F.J s) j0).gi = (Fs.foldl (fun s F => stepA F.F s) a0).gi ∧
       (Fs.foldl (fun s F => stepJ F.J s) j0).vel = (Fs.foldl (fun s F => stepA F.F s) a0).vel ∧
       (Fs.foldl (fun s F => stepJ F.J s) j0).acc = (Fs.foldl (fun s F => stepA F.F s) a0).acc) from
    H Fs initA initJ ⟨rfl, rfl, rfl, rfl⟩
  intro Fs
  induction Fs with
  | nil => intro a0 j0 h; exact h
  | cons F Fs ih =>
    intro a0 j0 h
    simp only [List.foldl_cons]
    apply ih
    obtain ⟨h1, h2, h3, h4⟩ := h
    simp only [stepJ, stepJFormula, stepA, stepFormula, F.hE, F.hEi, F.hV, F.hc1, F.hc2, h1, h2, h3, h4]
    trivial

/-- **Right-Jacobians of value, velocity and acceleration w.r.t. the differences, combined with the
    curve theorem**: `X = g⁻¹ δg`, `Y = δ(g⁻¹ D g)`, `Z = δ D(g⁻¹ D g)` for `g = ∏ E_j`. -/
theorem dvs_jacobians_of_the_curve {𝔸 : Type*} [Ring 𝔸] (d δ : Deriv 𝔸) (Fs : List (DFactor d δ)) :
    let j := Fs.foldl (fun s F => stepJ F.J s) initJ
    j.g = (Fs.map (·.F.E)).prod ∧ j.X = j.gi * δ.D j.g ∧
      j.Y = δ.D (j.gi * d.D j.g) ∧ j.Z = δ.D (d.D (j.gi * d.D j.g)) := by
  intro j
  obtain ⟨hg, hgi, hvel, hacc⟩ := jacobian_loop_same_curve d δ Fs
  have hA := velocity_acceleration_jerk_recursion d (Fs.map (·.F))
  simp only [List.foldl_map] at hA
  obtain ⟨hprod, _, _, hv, ha, _⟩ := hA
  have hJ := jgood_foldl (Fs.map (·.J)) initJ (jgood_init (δ := δ))
  simp only [List.foldl_map] at hJ
  refine ⟨?_, hJ.X, ?_, ?_⟩
  · show (Fs.foldl (fun s F => stepJ F.J s) initJ).g = _
    rw [hg, hprod, List.map_map]; rfl
  · show (Fs.foldl (fun s F => stepJ F.J s) initJ).Y = _
    rw [hJ.Y, hvel, hv, hgi, hg]
  · show (Fs.foldl (fun s F => stepJ F.J s) initJ).Z = _
    rw [hJ.Z, hacc, ha, hv, hgi, hg]

/-- non-vacuity: the 2×2 example again, now with a second inner derivation `δ X = C X − X C`
    (`C = e₁₂`), `E = diag(1,2)`: `δE = E·R` with `R = e₁₂`, and `Rm = 2e₁₂` satisfies `Ei·Rm·E = R` -/
example : ∃ (δ : Deriv (Matrix (Fin 2) (Fin 2) ℚ)) (F : VFactor (Matrix (Fin 2) (Fin 2) ℚ) δ), δ.D F.E ≠ 0 := by
  let A : Matrix (Fin 2) (Fin 2) ℚ := !![0, 1; 0, 0]
  let δ : Deriv (Matrix (Fin 2) (Fin 2) ℚ) :=
    { D := fun X => A * X - X * A
      add := fun x y => by noncomm_ring
      mul := fun x y => by noncomm_ring }
  refine ⟨δ, { E := !![1, 0; 0, 2], Ei := !![1, 0; 0, 1/2], V := 1, c1 := 1, c2 := 0, R := A, Rm := !![0, 1/2; 0, 0],
               W := 0, E_Ei := ?_, Ei_E := ?_, δE := ?_, δV := ?_, δc1 := ?_, δc2 := ?_, conj := ?_ }, ?_⟩
  · ext i j; fin_cases i <;> fin_cases j <;> simp [Matrix.mul_apply, Fin.sum_univ_two]
  · ext i j; fin_cases i <;> fin_cases j <;> simp [Matrix.mul_apply, Fin.sum_univ_two]
  · show A * !![1, 0; 0, 2] - !![1, 0; 0, 2] * A = !![1, 0; 0, 2] * A
    ext i j; fin_cases i <;> fin_cases j <;> simp [A, Matrix.mul_apply, Fin.sum_univ_two] <;> norm_num
  · show A * 1 - 1 * A = 0; simp
  · show A * 1 - 1 * A = 0; simp
  · show A * 0 - 0 * A = 0; simp
  · ext i j; fin_cases i <;> fin_cases j <;> simp [A, Matrix.mul_apply, Fin.sum_univ_two]
  · show A * !![1, 0; 0, 2] - !![1, 0; 0, 2] * A ≠ 0
    intro h
    have := congrFun (congrFun h 0) 1
    simp [A] at this
    norm_num at this

/-- **The model's Jacobian loop body is that step.**  Apply the block Jacobians of a `JSt` to one
    direction per block; through a linear `ρ` intertwining `Ad(exp(−Bj vj))` with conjugation and
    `ad` with the commutator, `CSpline.jstep` is `stepJFormula` with
    `R = ρ(Bj·dr_exp(Bj vj) w)`, `Rm = ρ(Bj·dr_exp(−Bj vj) w)`, `W = ρ w`. -/
theorem model_jstep_is_jacobian_step (G : LieModel ℝ) {𝔸 : Type*} [Ring 𝔸] [Algebra ℝ 𝔸]
    (ρ : (Fin G.dof → ℝ) →ₗ[ℝ] 𝔸)
    (had : ∀ (a : Vec ℝ G.dof) (y : Fin G.dof → ℝ), ρ (mv (G.ad a) y) = ρ a.get * ρ y - ρ y * ρ a.get)
    (Bj dBj d2Bj : ℝ) (vj : Vec ℝ G.dof) (s : CSpline.JSt ℝ G) (E Ei g gi : 𝔸)
    (hAd : ∀ x : Fin G.dof → ℝ, ρ (mv (G.Ad (G.exp (vsmul (-Bj) vj))) x) = Ei * ρ x * E)
    (ws : List (Fin G.dof → ℝ)) (w : Fin G.dof → ℝ)
    (h1 : s.dg.length = ws.length) (h2 : s.dvel.length = ws.length) (h3 : s.dacc.length = ws.length) :
    let s' := CSpline.jstep G Bj dBj d2Bj vj s
    let R := ρ (mv (msmul Bj (G.dr_exp (vsmul Bj vj))) w)
    let Rm := ρ (mv (msmul Bj (G.dr_exp (vsmul (-Bj) vj))) w)
    let j' := stepJFormula E Ei (ρ vj.get) (algebraMap ℝ 𝔸 dBj) (algebraMap ℝ 𝔸 d2Bj) R Rm (ρ w)
                (imgJ G ρ s ws g gi)
    ρ (applyL s'.dg (ws ++ [w])) = j'.X ∧ ρ (applyL s'.dvel (ws ++ [w])) = j'.Y ∧
    ρ (applyL s'.dacc (ws ++ [w])) = j'.Z ∧ ρ s'.vel.get = j'.vel ∧ ρ s'.acc.get = j'.acc :=
  jstep_is_stepJFormula G ρ had Bj dBj d2Bj vj s E Ei g gi hAd ws w h1 h2 h3

/-! ## fully analytic forms for a concrete group (not proved: they need the instantiation `ρ = hat`
    with C02 `D exp(bV) = exp(bV)·b'V`, C03 `Ad`/`ad` = conjugation/commutator, C04 `δ exp = exp·(dr_exp δv)^`
    and `Ad(exp(−a))·dr_exp(−a) = dr_exp(a)`; the algebraic content is proved above) -/

/-- right-Jacobian of the VALUE w.r.t. the differences: for every `j` and direction `w`,
    `d/dε|₀ matrix(eval_vs(v_j + ε w)) = matrix(eval_vs v)·hat(dg_dvs[j] w)` -/
def dg_dvs_recursion_statement : Prop :=
  ∀ (G : LieModel ℝ) (K : Nat) (vs : Fin K → Vec ℝ G.dof) (Bcum : Mat ℝ (K + 1) (K + 1)) (u : ℝ)
    (j : Fin K) (w : Vec ℝ G.dof) (a b : Fin G.dim),
    HasDerivAt (fun ε : ℝ =>
        G.matrix (CSpline.eval_vs G (fun i => if i = j then vadd (vs i) (vsmul ε w) else vs i) Bcum u).g a b)
      (mmul (G.matrix (CSpline.eval_vs G vs Bcum u).g)
        (G.hat (mulVec ((CSpline.eval_dg_dvs G vs Bcum u).dg.getD j.val (mzero _ _)) w)) a b) 0

/-- Jacobian of the VELOCITY w.r.t. the differences -/
def dvel_dvs_recursion_statement : Prop :=
  ∀ (G : LieModel ℝ) (K : Nat) (vs : Fin K → Vec ℝ G.dof) (Bcum : Mat ℝ (K + 1) (K + 1)) (u : ℝ)
    (j : Fin K) (w : Vec ℝ G.dof) (a : Fin G.dof),
    HasDerivAt (fun ε : ℝ =>
        (CSpline.eval_vs G (fun i => if i = j then vadd (vs i) (vsmul ε w) else vs i) Bcum u).vel a)
      (mulVec ((CSpline.eval_dg_dvs G vs Bcum u).dvel.getD j.val (mzero _ _)) w a) 0

/-- Jacobian of the ACCELERATION w.r.t. the differences -/
def dacc_dvs_recursion_statement : Prop :=
  ∀ (G : LieModel ℝ) (K : Nat) (vs : Fin K → Vec ℝ G.dof) (Bcum : Mat ℝ (K + 1) (K + 1)) (u : ℝ)
    (j : Fin K) (w : Vec ℝ G.dof) (a : Fin G.dof),
    HasDerivAt (fun ε : ℝ =>
        (CSpline.eval_vs G (fun i => if i = j then vadd (vs i) (vsmul ε w) else vs i) Bcum u).acc a)
      (mulVec ((CSpline.eval_dg_dvs G vs Bcum u).dacc.getD j.val (mzero _ _)) w a) 0

end C11
