/-
  C11 — Cumulative spline evaluation and its derivative outputs are exact (property theorems).

  Model: SmoothModel/CSpline.lean (`eval_vs`, `eval_gs`), SmoothModel/CSplineJac.lean
  (`eval_dg_dvs`, `eval_dg_dgs`), tied to cumulative_spline_impl.hpp by harness/cspline.cpp (T1).
  Lemmas: SmoothProofs/C11Alg.lean (differential algebra), C11Model.lean, C11Deriv.lean, C11Bridge.lean.
  Concrete instantiation (last section): SmoothProofs/C11InstSmooth.lean (the ring of C^∞ matrix-valued
  functions with d/du), C11InstModel.lean (`LieCalculus`, model ↔ abstract loop), C11InstGroups.lean
  (instances from C01–C03), C11InstDexp.lean (Duhamel), C11InstJac*.lean (Jacobians, `LieCalculusJ`,
  instances from C04), C11InstFinal.lean.
-/
import SmoothProofs.C11Alg
import SmoothProofs.C11Model
import SmoothProofs.C11Deriv
import SmoothProofs.C11Bridge
import SmoothProofs.C11Jac
import SmoothProofs.C11JacBridge
import SmoothProofs.C11InstFinal
import Mathlib.Data.Matrix.Basic
import Mathlib.Tactic.FinCases
import Mathlib.Tactic.NormNum

open Lin Scalar

namespace C11

/-! ## value -/

/-- the ordered product `exp(b₁ v₁) ∘ exp(b₂ v₂) ∘ ⋯ ∘ exp(b_K v_K)` (left to right, starting
    from the identity) in the group operations of the model -/
def orderedProduct {α : Type} [Scalar α] (G : LieModel α) {K : Nat} (b : Fin K → α)
    (vs : Fin K → Vec α G.dof) : Vec α G.rep :=
  (List.finRange K).foldl (fun g j => G.composition g (G.exp (vsmul (b j) (vs j)))) G.identity

/-- the cumulative basis value `B̃_{j+1}(u) = uvec · Bcum.col(j+1)` the code uses for difference `j` -/
def basisValue {α : Type} [Scalar α] {K : Nat} (Bcum : Mat α (K + 1) (K + 1)) (u : α) (j : Fin K) : α :=
  CSpline.bdot (CSpline.monomial_derivative K u 0) Bcum ⟨j.val + 1, by omega⟩

/-- **C11 value.**  For every degree `K`, every group model, every basis matrix, every `u` and
    every scalar type (ℝ, but also the executable `Float` model): the `g` returned by
    `cspline_eval_vs` is the ordered product over `j` of `exp(B̃_j(u) v_j)`.  (By construction of
    the loop — a refactoring of the loop has to re-prove it.) -/
theorem value_is_product {α : Type} [Scalar α] (G : LieModel α) {K : Nat} (vs : Fin K → Vec α G.dof)
    (Bcum : Mat α (K + 1) (K + 1)) (u : α) :
    (CSpline.eval_vs G vs Bcum u).g = orderedProduct G (basisValue Bcum u) vs := by
  unfold CSpline.eval_vs orderedProduct basisValue
  simp only [memoV_eq]
  apply foldl_proj (p := fun s : CSpline.St α G => s.g)
  intro s j
  simp only [CSpline.step, memoV_eq]

/-- over ℝ the basis value is the polynomial `Σ_r u^r Bcum[r][j]` -/
theorem basis_value_is_polynomial {K : Nat} (Bcum : Mat ℝ (K + 1) (K + 1)) (u : ℝ) (j : Fin K) :
    basisValue Bcum u j = ∑ r : Fin (K + 1), u ^ r.val * Bcum r ⟨j.val + 1, by omega⟩ := by
  unfold basisValue
  rw [bdot_monomial_eq]
  apply Finset.sum_congr rfl
  intro r _
  simp [Nat.descFactorial_zero]

/-- the rows `dBj, d2Bj, d3Bj` the code uses are the successive `u`-derivatives of `Bj` (all `K`) -/
theorem basis_rows_are_derivatives {K : Nat} (Bcum : Mat ℝ (K + 1) (K + 1)) (j : Fin (K + 1)) (p : Nat) (u : ℝ) :
    HasDerivAt (fun u => CSpline.bdot (CSpline.monomial_derivative K u p) Bcum j)
      (CSpline.bdot (CSpline.monomial_derivative K u (p + 1)) Bcum j) u :=
  bdot_hasDerivAt Bcum j p u

/-- **C11 anchored variant.**  `cspline_eval_gs` is `g₀ ∘ cspline_eval_vs` on the differences
    `v_i = g_i ⊖ g_{i−1}`, with the same velocity, acceleration and jerk. -/
theorem gs_is_anchored {α : Type} [Scalar α] (G : LieModel α) {K : Nat} (gs : Fin (K + 1) → Vec α G.rep)
    (Bcum : Mat α (K + 1) (K + 1)) (u : α) :
    let vs : Fin K → Vec α G.dof := fun i => G.rminus (gs ⟨i.val + 1, by omega⟩) (gs ⟨i.val, by omega⟩)
    let s := CSpline.eval_vs G vs Bcum u
    CSpline.eval_gs G gs Bcum u = ⟨G.composition (gs ⟨0, by omega⟩) s.g, s.vel, s.acc, s.jer⟩ := by
  intro vs s
  unfold CSpline.eval_gs
  simp only [memoV_eq]
  rfl

/-! ## velocity, acceleration, jerk -/

/-- **C11 derivative recursion (every K).**  In any ring `𝔸` with an additive Leibniz map `D`
    (`D = d/du` on matrix-valued functions), for any list of factors `E_j` (units with
    `D E_j = E_j·(c1_j V_j)`, `D V_j = 0`, central scalars with `D c1 = c2`, `D c2 = c3`), the state
    produced by the code's recursion (`stepA`, i.e. `Ad_{E⁻¹}X = E⁻¹XE`, `ad_X Y = XY − YX`) is
    `g = ∏ E_j` and `vel = g⁻¹·D g`, `acc = D vel`, `jer = D acc`: body velocity, acceleration,
    jerk of the product curve. -/
theorem velocity_acceleration_jerk_recursion {𝔸 : Type*} [Ring 𝔸] (d : Deriv 𝔸) (Fs : List (Factor 𝔸 d)) :
    let s := Fs.foldl (fun s F => stepA F s) initA
    s.g = (Fs.map (·.E)).prod ∧ s.g * s.gi = 1 ∧ s.gi * s.g = 1 ∧
      s.vel = s.gi * d.D s.g ∧ s.acc = d.D s.vel ∧ s.jer = d.D s.acc := by
  intro s
  have h := good_foldl Fs initA (good_init (d := d))
  refine ⟨?_, h.g_gi, h.gi_g, h.vel, h.acc, h.jer⟩
  have := foldl_g Fs (initA (𝔸 := 𝔸)) (d := d)
  show (Fs.foldl (fun s F => stepA F s) initA).g = _
  rw [this]; simp [initA]

/-- non-vacuity: a non-commutative instance with `D E ≠ 0` — 2×2 rational matrices, `D X = A X − X A`
    (`A = e₁₂`), `E = diag(1,2)`, `V = e₁₂`, `c1 = 1` -/
example : ∃ (d : Deriv (Matrix (Fin 2) (Fin 2) ℚ)) (F : Factor (Matrix (Fin 2) (Fin 2) ℚ) d), d.D F.E ≠ 0 := by
  let A : Matrix (Fin 2) (Fin 2) ℚ := !![0, 1; 0, 0]
  let d : Deriv (Matrix (Fin 2) (Fin 2) ℚ) :=
    { D := fun X => A * X - X * A
      add := fun x y => by noncomm_ring
      mul := fun x y => by noncomm_ring }
  refine ⟨d, { E := !![1, 0; 0, 2], Ei := !![1, 0; 0, 1/2], V := A, c1 := 1, c2 := 0, c3 := 0,
               E_Ei := ?_, Ei_E := ?_, DV := ?_, DE := ?_, c1_central := ?_, c2_central := ?_,
               Dc1 := ?_, Dc2 := ?_ }, ?_⟩
  · ext i j; fin_cases i <;> fin_cases j <;> simp [Matrix.mul_apply, Fin.sum_univ_two]
  · ext i j; fin_cases i <;> fin_cases j <;> simp [Matrix.mul_apply, Fin.sum_univ_two]
  · show A * A - A * A = 0; simp
  · show A * !![1, 0; 0, 2] - !![1, 0; 0, 2] * A = !![1, 0; 0, 2] * (1 * A)
    ext i j; fin_cases i <;> fin_cases j <;> simp [A, Matrix.mul_apply, Fin.sum_univ_two] <;> norm_num
  · intro x; simp
  · intro x; simp
  · show A * 1 - 1 * A = 0; simp
  · show A * 0 - 0 * A = 0; simp
  · show A * !![1, 0; 0, 2] - !![1, 0; 0, 2] * A ≠ 0
    intro h
    have := congrFun (congrFun h 0) 1
    simp [A] at this
    norm_num at this

/-- **The model's loop body is that recursion step.**  For any linear representation `ρ` of the
    tangent space in an ℝ-algebra that turns the coordinate matrices into conjugation
    (`ρ(Ad(inverse e) x) = Ei·ρx·E` for `e = exp(Bj vj)`) and commutator (`ρ(ad x · y) = [ρx, ρy]`)
    — C03 for `ρ = hat` — the `vel`, `acc`, `jer` computed by `CSpline.step` are those of
    `stepFormula` with the scalars `dBj·1, d2Bj·1, d3Bj·1`. -/
theorem model_step_is_recursion_step (G : LieModel ℝ) {𝔸 : Type*} [Ring 𝔸] [Algebra ℝ 𝔸]
    (ρ : (Fin G.dof → ℝ) →ₗ[ℝ] 𝔸)
    (had : ∀ x y : Vec ℝ G.dof, ρ (mulVec (G.ad x) y).get = ρ x.get * ρ y.get - ρ y.get * ρ x.get)
    (Bj dBj d2Bj d3Bj : ℝ) (vj : Vec ℝ G.dof) (s : CSpline.St ℝ G) (E Ei g gi : 𝔸)
    (hAd : ∀ x : Vec ℝ G.dof,
      ρ (mulVec (G.Ad (G.inverse (G.exp (vsmul Bj vj)))) x).get = Ei * ρ x.get * E) :
    let s' := CSpline.step G Bj dBj d2Bj d3Bj vj s
    let a' := stepFormula E Ei (ρ vj.get) (algebraMap ℝ 𝔸 dBj) (algebraMap ℝ 𝔸 d2Bj) (algebraMap ℝ 𝔸 d3Bj)
                (img G ρ s g gi)
    ρ s'.vel.get = a'.vel ∧ ρ s'.acc.get = a'.acc ∧ ρ s'.jer.get = a'.jer :=
  step_is_stepFormula G ρ had Bj dBj d2Bj d3Bj vj s E Ei g gi hAd

/-- non-vacuity of the hypotheses of `model_step_is_recursion_step`: translations `T1`, `ρ x = x₀` -/
example : ∃ (ρ : (Fin 1 → ℝ) →ₗ[ℝ] ℝ),
    (∀ x y : Vec ℝ 1, ρ (mulVec ((Tn.model (α := ℝ) 1).ad x) y).get = ρ x.get * ρ y.get - ρ y.get * ρ x.get) ∧
    (∀ (e : Vec ℝ 1) (x : Vec ℝ 1), ρ (mulVec ((Tn.model (α := ℝ) 1).Ad e) x).get = 1 * ρ x.get * 1) ∧ ρ (fun _ => 2) = 2 := by
  refine ⟨LinearMap.proj (0 : Fin 1), ?_, ?_, rfl⟩
  · intro x y; simp [Tn.model, mulVec, vsum, mzero, Vec.of, LinearMap.proj_apply]; ring
  · intro e x; simp [Tn.model, mulVec, vsum, ident, Vec.of, LinearMap.proj_apply]

/-! ## Jacobians -/

/-- **C11 control-point Jacobian, chain rule.**  Let `D_j` be the blocks of a Jacobian with respect
    to the differences (`dg_dvs`, `dvel_dvs` or `dacc_dvs`) and `δ_i` perturbations of the control
    points.  The differences move by `δv_j = dr_expinv(v_j) δ_{j+1} − dl_expinv(v_j) δ_j`
    (right-Jacobians of `rminus`, C04).  Then the blocks computed by the loop of
    `cspline_eval_dg_dgs` — `−D_j·(−ad v_j + dr_expinv v_j)` on block `j`, `+D_j·dr_expinv v_j` on
    block `j+1`, and `Ad((∏exp)⁻¹) =: A` added to the first block — satisfy
    `Σ_i block_i δ_i = A δ_0 + Σ_j D_j δv_j`, provided `dl_expinv = −ad + dr_expinv`
    (the "cheaper formula", C04 `dlExpinv_eq`). -/
theorem dg_dgs_chain_rule (G : LieModel ℝ) (hdl : DlCheap G)
    (Ds : List (Mat ℝ G.dof G.dof)) (vs : List (Vec ℝ G.dof)) (A : Mat ℝ G.dof G.dof)
    (δ : Nat → Fin G.dof → ℝ) :
    applyBlocks (CSpline.addFirst G A (CSpline.chain G Ds vs)) δ 0
      = mv A (δ 0) + throughDiffs G (Ds.zip vs) δ 0
    ∧ applyBlocks (CSpline.chain G Ds vs) δ 0 = throughDiffs G (Ds.zip vs) δ 0 := by
  have h2 : applyBlocks (CSpline.chain G Ds vs) δ 0 = throughDiffs G (Ds.zip vs) δ 0 := by
    unfold CSpline.chain
    rw [chainAux_spec G hdl, mv_mzero, zero_add]
  refine ⟨?_, h2⟩
  have hne : CSpline.chain G Ds vs ≠ [] := chainAux_ne_nil G _ _
  rw [addFirst_spec G A _ hne, h2]

/-- non-vacuity of `DlCheap`: the translation groups satisfy `dl_expinv = −ad + dr_expinv` -/
example : DlCheap (Tn.model (α := ℝ) 3) := by
  intro v
  ext i j
  simp [LieModel.dl_expinv, Tn.model, madd, mneg, mzero, Mat.of]

/-- `cspline_eval_dg_dgs` is the chain of the three `dvs` Jacobians over the differences, plus
    `Ad(inverse(exp_series))` on the first block of `dg` only -/
theorem dg_dgs_is_chain (G : LieModel ℝ) {K : Nat} (gs : Fin (K + 1) → Vec ℝ G.rep)
    (Bcum : Mat ℝ (K + 1) (K + 1)) (u : ℝ) :
    ∃ (vs : Fin K → Vec ℝ G.dof) (vsl : List (Vec ℝ G.dof)),
      vsl = (List.finRange K).map (CSpline.diffs G gs) ∧ (∀ i : Fin K, vs i = CSpline.diffs G gs i) ∧
      let J := CSpline.eval_dg_dvs G vs Bcum u
      let A := G.Ad (G.inverse (CSpline.expSeries G vs Bcum u))
      (CSpline.eval_dg_dgs G gs Bcum u).dg = CSpline.addFirst G A (CSpline.chain G J.dg vsl) ∧
      (CSpline.eval_dg_dgs G gs Bcum u).dvel = CSpline.chain G J.dvel vsl ∧
      (CSpline.eval_dg_dgs G gs Bcum u).dacc = CSpline.chain G J.dacc vsl := by
  refine ⟨fun i => ((List.finRange K).map (fun i => CSpline.diffs G gs i)).getD i.val (vzero _),
    (List.finRange K).map (CSpline.diffs G gs), rfl, ?_, ?_⟩
  · intro i
    simp [List.getD_eq_getElem?_getD]
  · simp only [CSpline.eval_dg_dgs, memoV_eq, memoM_eq]
    trivial


/-! ## Jacobians with respect to the differences (`cspline_eval_dg_dvs`) -/

/-- factor data for the curve (`D = d/du`) and for a variation `δ` of the differences on the same
    factor -/
structure DFactor {𝔸 : Type*} [Ring 𝔸] (d δ : Deriv 𝔸) where
  F : Factor 𝔸 d
  J : VFactor 𝔸 δ
  hE : J.E = F.E
  hEi : J.Ei = F.Ei
  hV : J.V = F.V
  hc1 : J.c1 = F.c1
  hc2 : J.c2 = F.c2

/-- **C11 value Jacobian (every K).**  Let `δ` be any additive Leibniz map on the ring (a variation
    of the differences `v_j` in arbitrary directions) with `δE_j = E_j·R_j`
    (`R_j = (B_j·dr_exp(B_j v_j) δv_j)^`, the right Jacobian of exp — C04).  The accumulation
    `dg_dvs.leftCols.applyOnTheLeft(Adj); dg_dvs.middleCols += Bj·dr_exp(Bj vj)` — in the ring
    `X ← E⁻¹ X E + R` — yields `X = g⁻¹·δg` for `g = ∏ E_j`: `dg_dvs` is the right-Jacobian of the
    value with respect to the differences. -/
theorem dg_dvs_recursion {𝔸 : Type*} [Ring 𝔸] (δ : Deriv 𝔸) (Fs : List (VFactor 𝔸 δ)) :
    let s := Fs.foldl (fun s F => stepJ F s) initJ
    s.g * s.gi = 1 ∧ s.gi * s.g = 1 ∧ s.X = s.gi * δ.D s.g := by
  intro s
  have h := jgood_foldl Fs initJ (jgood_init (δ := δ))
  exact ⟨h.g_gi, h.gi_g, h.X⟩

/-- **C11 velocity / acceleration Jacobians (every K).**  With the code's identity
    `Ad(exp(−Bv))·dr_exp(−Bv) = dr_exp(Bv)` (`Ei·Rm·E = R`) and `δV_j = W_j`, `δ(basis scalars) = 0`:
    the accumulations of `dvel_dvs` (`Bj·Adj·ad(vel)·DrExp + dBj·I`, old blocks `Adj·`) and of
    `dacc_dvs` (`−dBj·ad(vj)·dvel_dvs`, `Bj·Adj·ad(acc)·DrExp`, `dBj·ad(vel)`, `d2Bj·I`) yield
    `Y = δ vel`, `Z = δ acc` for the `vel`, `acc` of the same loop. -/
theorem dvel_dacc_dvs_recursion {𝔸 : Type*} [Ring 𝔸] (δ : Deriv 𝔸) (Fs : List (VFactor 𝔸 δ)) :
    let s := Fs.foldl (fun s F => stepJ F s) initJ
    s.Y = δ.D s.vel ∧ s.Z = δ.D s.acc := by
  intro s
  have h := jgood_foldl Fs initJ (jgood_init (δ := δ))
  exact ⟨h.Y, h.Z⟩

/-- the Jacobian loop carries the same `g, g⁻¹, vel, acc` as the evaluation loop -/
theorem jacobian_loop_same_curve {𝔸 : Type*} [Ring 𝔸] (d δ : Deriv 𝔸) (Fs : List (DFactor d δ)) :
    let a := Fs.foldl (fun s F => stepA F.F s) initA
    let j := Fs.foldl (fun s F => stepJ F.J s) initJ
    j.g = a.g ∧ j.gi = a.gi ∧ j.vel = a.vel ∧ j.acc = a.acc := by
  intro a j
  suffices H : ∀ (Fs : List (DFactor d δ)) (a0 : AState 𝔸) (j0 : JState 𝔸),
      (j0.g = a0.g ∧ j0.gi = a0.gi ∧ j0.vel = a0.vel ∧ j0.acc = a0.acc) →
      ((Fs.foldl (fun s F => stepJ F.J s) j0).g = (Fs.foldl (fun s F => stepA F.F s) a0).g ∧
       (Fs.foldl (fun s F => stepJ F.J s) j0).gi = (Fs.foldl (fun s F => stepA F.F s) a0).gi ∧
       (Fs.foldl (fun s F => stepJ F.J s) j0).vel = (Fs.foldl (fun s F => stepA F.F s) a0).vel ∧
       (Fs.foldl (fun s F => stepJ F.J s) j0).acc = (Fs.foldl (fun s F => stepA F.F s) a0).acc) from
    H Fs initA initJ ⟨rfl, rfl, rfl, rfl⟩
  intro Fs
  induction Fs with
  | nil => intro a0 j0 h; exact h
  | cons F Fs ih =>
    intro a0 j0 h
    simp only [List.foldl_cons]
    apply ih
    obtain ⟨h1, h2, h3, h4⟩ := h
    simp only [stepJ, stepJFormula, stepA, stepFormula, F.hE, F.hEi, F.hV, F.hc1, F.hc2, h1, h2, h3, h4]
    trivial

/-- **Right-Jacobians of value, velocity and acceleration w.r.t. the differences, combined with the
    curve theorem**: `X = g⁻¹ δg`, `Y = δ(g⁻¹ D g)`, `Z = δ D(g⁻¹ D g)` for `g = ∏ E_j`. -/
theorem dvs_jacobians_of_the_curve {𝔸 : Type*} [Ring 𝔸] (d δ : Deriv 𝔸) (Fs : List (DFactor d δ)) :
    let j := Fs.foldl (fun s F => stepJ F.J s) initJ
    j.g = (Fs.map (·.F.E)).prod ∧ j.X = j.gi * δ.D j.g ∧
      j.Y = δ.D (j.gi * d.D j.g) ∧ j.Z = δ.D (d.D (j.gi * d.D j.g)) := by
  intro j
  obtain ⟨hg, hgi, hvel, hacc⟩ := jacobian_loop_same_curve d δ Fs
  have hA := velocity_acceleration_jerk_recursion d (Fs.map (·.F))
  simp only [List.foldl_map] at hA
  obtain ⟨hprod, _, _, hv, ha, _⟩ := hA
  have hJ := jgood_foldl (Fs.map (·.J)) initJ (jgood_init (δ := δ))
  simp only [List.foldl_map] at hJ
  refine ⟨?_, hJ.X, ?_, ?_⟩
  · show (Fs.foldl (fun s F => stepJ F.J s) initJ).g = _
    rw [hg, hprod, List.map_map]; rfl
  · show (Fs.foldl (fun s F => stepJ F.J s) initJ).Y = _
    rw [hJ.Y, hvel, hv, hgi, hg]
  · show (Fs.foldl (fun s F => stepJ F.J s) initJ).Z = _
    rw [hJ.Z, hacc, ha, hv, hgi, hg]

/-- non-vacuity: the 2×2 example again, now with a second inner derivation `δ X = C X − X C`
    (`C = e₁₂`), `E = diag(1,2)`: `δE = E·R` with `R = e₁₂`, and `Rm = 2e₁₂` satisfies `Ei·Rm·E = R` -/
example : ∃ (δ : Deriv (Matrix (Fin 2) (Fin 2) ℚ)) (F : VFactor (Matrix (Fin 2) (Fin 2) ℚ) δ), δ.D F.E ≠ 0 := by
  let A : Matrix (Fin 2) (Fin 2) ℚ := !![0, 1; 0, 0]
  let δ : Deriv (Matrix (Fin 2) (Fin 2) ℚ) :=
    { D := fun X => A * X - X * A
      add := fun x y => by noncomm_ring
      mul := fun x y => by noncomm_ring }
  refine ⟨δ, { E := !![1, 0; 0, 2], Ei := !![1, 0; 0, 1/2], V := 1, c1 := 1, c2 := 0, R := A, Rm := !![0, 1/2; 0, 0],
               W := 0, E_Ei := ?_, Ei_E := ?_, δE := ?_, δV := ?_, δc1 := ?_, δc2 := ?_, conj := ?_ }, ?_⟩
  · ext i j; fin_cases i <;> fin_cases j <;> simp [Matrix.mul_apply, Fin.sum_univ_two]
  · ext i j; fin_cases i <;> fin_cases j <;> simp [Matrix.mul_apply, Fin.sum_univ_two]
  · show A * !![1, 0; 0, 2] - !![1, 0; 0, 2] * A = !![1, 0; 0, 2] * A
    ext i j; fin_cases i <;> fin_cases j <;> simp [A, Matrix.mul_apply, Fin.sum_univ_two] <;> norm_num
  · show A * 1 - 1 * A = 0; simp
  · show A * 1 - 1 * A = 0; simp
  · show A * 0 - 0 * A = 0; simp
  · ext i j; fin_cases i <;> fin_cases j <;> simp [A, Matrix.mul_apply, Fin.sum_univ_two]
  · show A * !![1, 0; 0, 2] - !![1, 0; 0, 2] * A ≠ 0
    intro h
    have := congrFun (congrFun h 0) 1
    simp [A] at this
    norm_num at this

/-- **The model's Jacobian loop body is that step.**  Apply the block Jacobians of a `JSt` to one
    direction per block; through a linear `ρ` intertwining `Ad(exp(−Bj vj))` with conjugation and
    `ad` with the commutator, `CSpline.jstep` is `stepJFormula` with
    `R = ρ(Bj·dr_exp(Bj vj) w)`, `Rm = ρ(Bj·dr_exp(−Bj vj) w)`, `W = ρ w`. -/
theorem model_jstep_is_jacobian_step (G : LieModel ℝ) {𝔸 : Type*} [Ring 𝔸] [Algebra ℝ 𝔸]
    (ρ : (Fin G.dof → ℝ) →ₗ[ℝ] 𝔸)
    (had : ∀ (a : Vec ℝ G.dof) (y : Fin G.dof → ℝ), ρ (mv (G.ad a) y) = ρ a.get * ρ y - ρ y * ρ a.get)
    (Bj dBj d2Bj : ℝ) (vj : Vec ℝ G.dof) (s : CSpline.JSt ℝ G) (E Ei g gi : 𝔸)
    (hAd : ∀ x : Fin G.dof → ℝ, ρ (mv (G.Ad (G.exp (vsmul (-Bj) vj))) x) = Ei * ρ x * E)
    (ws : List (Fin G.dof → ℝ)) (w : Fin G.dof → ℝ)
    (h1 : s.dg.length = ws.length) (h2 : s.dvel.length = ws.length) (h3 : s.dacc.length = ws.length) :
    let s' := CSpline.jstep G Bj dBj d2Bj vj s
    let R := ρ (mv (msmul Bj (G.dr_exp (vsmul Bj vj))) w)
    let Rm := ρ (mv (msmul Bj (G.dr_exp (vsmul (-Bj) vj))) w)
    let j' := stepJFormula E Ei (ρ vj.get) (algebraMap ℝ 𝔸 dBj) (algebraMap ℝ 𝔸 d2Bj) R Rm (ρ w)
                (imgJ G ρ s ws g gi)
    ρ (applyL s'.dg (ws ++ [w])) = j'.X ∧ ρ (applyL s'.dvel (ws ++ [w])) = j'.Y ∧
    ρ (applyL s'.dacc (ws ++ [w])) = j'.Z ∧ ρ s'.vel.get = j'.vel ∧ ρ s'.acc.get = j'.acc :=
  jstep_is_stepJFormula G ρ had Bj dBj d2Bj vj s E Ei g gi hAd ws w h1 h2 h3

/-! ## fully analytic forms, literal statements.  As written they quantify over EVERY `LieModel` record
    (also records that are not groups) and every `u` (also where the model's `exp` is on its truncated
    Taylor branch), so they are kept as `def … : Prop`; what is PROVED is in the last section:
    `dg_dvs_recursion_partial`, `dvel_dvs_recursion_partial`, `dacc_dvs_recursion_partial` (the same
    conclusions for every group with a `LieCalculusJ`, under the exactness hypotheses `JacHyp`), with
    the instances `so3_dvs_jacobians`, `se2_dvs_jacobians`, `tn_dvs_jacobians` (Tn: no hypothesis). -/

/-- right-Jacobian of the VALUE w.r.t. the differences: for every `j` and direction `w`,
    `d/dε|₀ matrix(eval_vs(v_j + ε w)) = matrix(eval_vs v)·hat(dg_dvs[j] w)` -/
def dg_dvs_recursion_statement : Prop :=
  ∀ (G : LieModel ℝ) (K : Nat) (vs : Fin K → Vec ℝ G.dof) (Bcum : Mat ℝ (K + 1) (K + 1)) (u : ℝ)
    (j : Fin K) (w : Vec ℝ G.dof) (a b : Fin G.dim),
    HasDerivAt (fun ε : ℝ =>
        G.matrix (CSpline.eval_vs G (fun i => if i = j then vadd (vs i) (vsmul ε w) else vs i) Bcum u).g a b)
      (mmul (G.matrix (CSpline.eval_vs G vs Bcum u).g)
        (G.hat (mulVec ((CSpline.eval_dg_dvs G vs Bcum u).dg.getD j.val (mzero _ _)) w)) a b) 0

/-- Jacobian of the VELOCITY w.r.t. the differences -/
def dvel_dvs_recursion_statement : Prop :=
  ∀ (G : LieModel ℝ) (K : Nat) (vs : Fin K → Vec ℝ G.dof) (Bcum : Mat ℝ (K + 1) (K + 1)) (u : ℝ)
    (j : Fin K) (w : Vec ℝ G.dof) (a : Fin G.dof),
    HasDerivAt (fun ε : ℝ =>
        (CSpline.eval_vs G (fun i => if i = j then vadd (vs i) (vsmul ε w) else vs i) Bcum u).vel a)
      (mulVec ((CSpline.eval_dg_dvs G vs Bcum u).dvel.getD j.val (mzero _ _)) w a) 0

/-- Jacobian of the ACCELERATION w.r.t. the differences -/
def dacc_dvs_recursion_statement : Prop :=
  ∀ (G : LieModel ℝ) (K : Nat) (vs : Fin K → Vec ℝ G.dof) (Bcum : Mat ℝ (K + 1) (K + 1)) (u : ℝ)
    (j : Fin K) (w : Vec ℝ G.dof) (a : Fin G.dof),
    HasDerivAt (fun ε : ℝ =>
        (CSpline.eval_vs G (fun i => if i = j then vadd (vs i) (vsmul ε w) else vs i) Bcum u).acc a)
      (mulVec ((CSpline.eval_dg_dvs G vs Bcum u).dacc.getD j.val (mzero _ _)) w a) 0

/-! ## concrete instances: `HasDerivAt` statements on the model itself

The abstract theorems above are instantiated in the differential algebra of `C^∞` functions
`ℝ → Matrix`, `D = d/du` (resp. `d/dε`), with `ρ = hat`, for every group model that satisfies the
hypothesis record `LieCalculus` (C01 matrix homomorphism, C03 `hat` linear + injective, `Ad` =
conjugation, `ad` = commutator, C02 `matrix (exp a) = exp (hat a)` on the exactness domain `Dom`), resp.
`LieCalculusJ` (in addition C04: `dr_exp` is the right Jacobian of `exp`, `dr_exp(−a) = Ad(exp a)·dr_exp a`,
both DERIVED from C04's series characterisation of `dr_exp` by Duhamel's formula).  The records are
inhabited for SO3, SE2, SE3, Tn, SO2 by citing the C01–C04 theorems. -/

open scoped Topology

/-- the records are inhabited, with these exactness domains: SO3 `¬ ‖a‖² < eps2 ∨ ‖a‖² = 0`
    (closed-form branch or zero), SE2 `¬ θ² < eps2 ∨ θ = 0`, SE3 `eps2 < ‖ω‖²`, Tn / SO2 everything;
    the representation constraints are those of C01 (`SO3.Unit` …) -/
theorem lieCalculus_domains :
    (∀ a : Vec ℝ 3, so3Calculus.Dom a ↔ (¬ sqNorm a < Scalar.eps2 ∨ sqNorm a = 0)) ∧
    (∀ a : Vec ℝ 3, se2Calculus.Dom a ↔ (¬ a 2 * a 2 < Scalar.eps2 ∨ a 2 = 0)) ∧
    (∀ a : Vec ℝ 6, se3Calculus.Dom a ↔ Scalar.eps2 < sqNorm (SE3.tw a)) ∧
    (∀ (n : Nat) (a : Vec ℝ n), (tnCalculus n).Dom a) ∧ (∀ a : Vec ℝ 1, so2Calculus.Dom a) ∧
    (∀ g : Vec ℝ 4, so3Calculus.U g ↔ SO3.Unit g) :=
  ⟨fun _ => Iff.rfl, fun _ => Iff.rfl, fun _ => Iff.rfl, fun _ _ => trivial, fun _ => trivial, fun _ => Iff.rfl⟩

/-- domains of the C04 facts in `LieCalculusJ`: the closed-form branch (strict) for SO3 / SE2 / SE3,
    everything for Tn / SO2 -/
theorem lieCalculusJ_domains :
    (∀ a : Vec ℝ 3, so3CalculusJ.DomJ a ↔ Scalar.eps2 < sqNorm a) ∧
    (∀ a : Vec ℝ 3, se2CalculusJ.DomJ a ↔ Scalar.eps2 < a 2 * a 2) ∧
    (∀ a : Vec ℝ 6, se3CalculusJ.DomJ a ↔ Scalar.eps2 < sqNorm (SE3.tw a)) ∧
    (∀ (n : Nat) (a : Vec ℝ n), (tnCalculusJ n).DomJ a) ∧ (∀ a : Vec ℝ 1, so2CalculusJ.DomJ a) :=
  ⟨fun _ => Iff.rfl, fun _ => Iff.rfl, fun _ => Iff.rfl, fun _ _ => trivial, fun _ => trivial⟩

/-- **C11, first-order outputs, any group with a `LieCalculus`, every degree `K`.**  If every factor
    `exp(B̃_j(u')·v_j)` of the model is exact for `u'` near `u`, then for the state returned by the model
    of `cspline_eval_vs`: `d/du M(g) = M(g)·hat(vel)` (entrywise), `d/du vel = acc`, `d/du acc = jer`. -/
theorem eval_vs_derivatives {G : LieModel ℝ} (L : LieCalculus G) {K : Nat} (vs : Fin K → Vec ℝ G.dof)
    (Bcum : Mat ℝ (K + 1) (K + 1)) (u : ℝ)
    (hd : ∀ j : Fin K, ∀ᶠ u' in 𝓝 u, L.Dom (vsmul (basisValue Bcum u' j) (vs j))) :
    (∀ a b : Fin G.dim, HasDerivAt (fun u' => G.matrix (CSpline.eval_vs G vs Bcum u').g a b)
        (mmul (G.matrix (CSpline.eval_vs G vs Bcum u).g) (G.hat (CSpline.eval_vs G vs Bcum u).vel) a b) u) ∧
    (∀ i : Fin G.dof, HasDerivAt (fun u' => (CSpline.eval_vs G vs Bcum u').vel i)
        ((CSpline.eval_vs G vs Bcum u).acc i) u) ∧
    (∀ i : Fin G.dof, HasDerivAt (fun u' => (CSpline.eval_vs G vs Bcum u').acc i)
        ((CSpline.eval_vs G vs Bcum u).jer i) u) :=
  eval_vs_hasDerivAt L vs Bcum u hd

/-- **SO3** (non-commutative): at every `u` where each factor is in the closed-form branch
    (`eps2 < ‖B̃_j(u) v_j‖²`) or has a zero difference, velocity / acceleration / jerk of the model are the
    successive body derivatives of the model's value. -/
theorem so3_eval_vs_derivatives {K : Nat} (vs : Fin K → Vec ℝ 3) (Bcum : Mat ℝ (K + 1) (K + 1)) (u : ℝ)
    (h : ∀ j : Fin K, Scalar.eps2 < sqNorm (vsmul (basisValue Bcum u j) (vs j)) ∨ sqNorm (vs j) = 0) :
    let s := fun u' => CSpline.eval_vs (SO3.model : LieModel ℝ) vs Bcum u'
    (∀ a b : Fin 3, HasDerivAt (fun u' => SO3.matrix (s u').g a b)
        (mmul (SO3.matrix (s u).g) (SO3.hat (s u).vel) a b) u) ∧
    (∀ i : Fin 3, HasDerivAt (fun u' => (s u').vel i) ((s u).acc i) u) ∧
    (∀ i : Fin 3, HasDerivAt (fun u' => (s u').acc i) ((s u).jer i) u) :=
  eval_vs_hasDerivAt so3Calculus vs Bcum u (so3_hd vs Bcum u h)

/-- non-vacuity: `K = 2`, `v₀ = e₁`, `v₁ = e₂` (non-commuting), `Bcum` = all ones, `u = 0`: both
    factors are `exp(1·e_j)`, in the closed-form branch -/
example : ∃ (vs : Fin 2 → Vec ℝ 3) (Bcum : Mat ℝ 3 3) (u : ℝ),
    (∀ j : Fin 2, Scalar.eps2 < sqNorm (vsmul (basisValue Bcum u j) (vs j)) ∨ sqNorm (vs j) = 0) ∧
    mulVec (SO3.ad (vs 0)) (vs 1) ≠ vzero 3 := by
  refine ⟨fun j => if j = 0 then mk3 1 0 0 else mk3 0 1 0, .of (fun _ _ => 1), 0, ?_, ?_⟩
  · intro j
    left
    have hb : basisValue (K := 2) (.of (fun _ _ => (1 : ℝ))) 0 j = 1 := by
      rw [basis_value_is_polynomial]
      simp [Fin.sum_univ_three]
    rw [hb, C02.sqNorm3, C02.scalar_eps2]
    fin_cases j <;> simp [vsmul, mk3] <;> norm_num
  · intro h
    have := congrArg (fun v : Vec ℝ 3 => v 2) h
    simp [SO3.ad, SO3.hat, mulVec, vsum, mat3, mk3, vzero] at this

/-- **SE2**: the same, each factor in the closed-form branch (`eps2 < (B̃_j(u) θ_j)²`) or with angle `0` -/
theorem se2_eval_vs_derivatives {K : Nat} (vs : Fin K → Vec ℝ 3) (Bcum : Mat ℝ (K + 1) (K + 1)) (u : ℝ)
    (h : ∀ j : Fin K, Scalar.eps2 < (vsmul (basisValue Bcum u j) (vs j)) 2 * (vsmul (basisValue Bcum u j) (vs j)) 2
      ∨ (vs j) 2 = 0) :
    let s := fun u' => CSpline.eval_vs (SE2.model : LieModel ℝ) vs Bcum u'
    (∀ a b : Fin 3, HasDerivAt (fun u' => SE2.matrix (s u').g a b)
        (mmul (SE2.matrix (s u).g) (SE2.hat (s u).vel) a b) u) ∧
    (∀ i : Fin 3, HasDerivAt (fun u' => (s u').vel i) ((s u).acc i) u) ∧
    (∀ i : Fin 3, HasDerivAt (fun u' => (s u').acc i) ((s u).jer i) u) :=
  eval_vs_hasDerivAt se2Calculus vs Bcum u (se2_hd vs Bcum u h)

/-- non-vacuity: pure translations (`θ = 0`) satisfy the hypothesis at every `u` -/
example (Bcum : Mat ℝ 3 3) (u : ℝ) : ∀ j : Fin 2,
    Scalar.eps2 < (vsmul (basisValue Bcum u j) ((fun _ => mk3 (1 : ℝ) 2 0) j)) 2
        * (vsmul (basisValue Bcum u j) ((fun _ => mk3 (1 : ℝ) 2 0) j)) 2
      ∨ ((fun _ : Fin 2 => mk3 (1 : ℝ) 2 0) j) 2 = 0 := by
  intro j; right; simp [mk3]

/-- **Tn** (every `n`, `K`, `u`; no hypothesis) -/
theorem tn_eval_vs_derivatives (n : Nat) {K : Nat} (vs : Fin K → Vec ℝ n) (Bcum : Mat ℝ (K + 1) (K + 1)) (u : ℝ) :
    let s := fun u' => CSpline.eval_vs (Tn.model n : LieModel ℝ) vs Bcum u'
    (∀ a b : Fin (n + 1), HasDerivAt (fun u' => Tn.matrix (s u').g a b)
        (mmul (Tn.matrix (s u).g) (Tn.hat (s u).vel) a b) u) ∧
    (∀ i : Fin n, HasDerivAt (fun u' => (s u').vel i) ((s u).acc i) u) ∧
    (∀ i : Fin n, HasDerivAt (fun u' => (s u').acc i) ((s u).jer i) u) :=
  eval_vs_hasDerivAt (tnCalculus n) vs Bcum u (fun _ => Filter.Eventually.of_forall fun _ => trivial)

/-! ### Jacobians with respect to the differences -/

/-- **C11 Jacobians, total differential, any group with a `LieCalculusJ`.**  Vary all differences,
    `v_i(ε) = v_i + ε·w_i`; `applyL Ds ws = Σ_i Ds[i]·ws[i]`.  With `J = cspline_eval_dg_dvs(v)`:
    `d/dε|₀ M(g) = M(g)·hat(Σ J.dg[i] w_i)`, `d/dε|₀ vel = Σ J.dvel[i] w_i`, `d/dε|₀ acc = Σ J.dacc[i] w_i`.
    Hypotheses per factor (`FactorOK`): `exp(±b_i v_i)` exact, and `w_i = 0` or `b_i v_i` in the domain of the
    C04 facts; the perturbed factors exact for small `ε`. -/
theorem dvs_total_differential {G : LieModel ℝ} (L : LieCalculusJ G) {K : Nat} (vs ws : Fin K → Vec ℝ G.dof)
    (Bcum : Mat ℝ (K + 1) (K + 1)) (u : ℝ)
    (hok : ∀ i : Fin K, FactorOK L (basisValue Bcum u i) (vs i) (ws i))
    (hev : ∀ i : Fin K, ∀ᶠ ε in 𝓝 (0 : ℝ), L.Dom (vsmul (basisValue Bcum u i) (vadd (vs i) (vsmul ε (ws i))))) :
    let J := CSpline.eval_dg_dvs G vs Bcum u
    let wl := (List.finRange K).map (fun i => (ws i).get)
    let vsε := fun (ε : ℝ) (i : Fin K) => vadd (vs i) (vsmul ε (ws i))
    (∀ a b : Fin G.dim, HasDerivAt (fun ε => G.matrix (CSpline.eval_vs G (vsε ε) Bcum u).g a b)
        (mmul (G.matrix (CSpline.eval_vs G vs Bcum u).g) (G.hat (Vec.of (applyL J.dg wl))) a b) 0) ∧
    (∀ i : Fin G.dof, HasDerivAt (fun ε => (CSpline.eval_vs G (vsε ε) Bcum u).vel i) (applyL J.dvel wl i) 0) ∧
    (∀ i : Fin G.dof, HasDerivAt (fun ε => (CSpline.eval_vs G (vsε ε) Bcum u).acc i) (applyL J.dacc wl i) 0) :=
  eval_dvs_hasDerivAt L vs ws Bcum u hok hev

/-- **`dg_dvs_recursion_statement`, proved for every group with a `LieCalculusJ` under `JacHyp`**
    (all factors `exp(±B̃_i(u) v_i)` exact, `B̃_j(u) v_j` in the domain of the C04 facts, the varied factor
    exact for small `ε`): `dg_dvs[j]` is the right-Jacobian of the value w.r.t. `v_j`. -/
theorem dg_dvs_recursion_partial {G : LieModel ℝ} (L : LieCalculusJ G) {K : Nat} (vs : Fin K → Vec ℝ G.dof)
    (Bcum : Mat ℝ (K + 1) (K + 1)) (u : ℝ) (j : Fin K) (w : Vec ℝ G.dof) (h : JacHyp L vs Bcum u j w)
    (a b : Fin G.dim) :
    HasDerivAt (fun ε : ℝ =>
        G.matrix (CSpline.eval_vs G (fun i => if i = j then vadd (vs i) (vsmul ε w) else vs i) Bcum u).g a b)
      (mmul (G.matrix (CSpline.eval_vs G vs Bcum u).g)
        (G.hat (mulVec ((CSpline.eval_dg_dvs G vs Bcum u).dg.getD j.val (mzero _ _)) w)) a b) 0 :=
  (dvs_single_hasDerivAt L vs Bcum u j w h).1 a b

/-- **`dvel_dvs_recursion_statement` under the same hypotheses** -/
theorem dvel_dvs_recursion_partial {G : LieModel ℝ} (L : LieCalculusJ G) {K : Nat} (vs : Fin K → Vec ℝ G.dof)
    (Bcum : Mat ℝ (K + 1) (K + 1)) (u : ℝ) (j : Fin K) (w : Vec ℝ G.dof) (h : JacHyp L vs Bcum u j w)
    (a : Fin G.dof) :
    HasDerivAt (fun ε : ℝ =>
        (CSpline.eval_vs G (fun i => if i = j then vadd (vs i) (vsmul ε w) else vs i) Bcum u).vel a)
      (mulVec ((CSpline.eval_dg_dvs G vs Bcum u).dvel.getD j.val (mzero _ _)) w a) 0 :=
  (dvs_single_hasDerivAt L vs Bcum u j w h).2.1 a

/-- **`dacc_dvs_recursion_statement` under the same hypotheses** -/
theorem dacc_dvs_recursion_partial {G : LieModel ℝ} (L : LieCalculusJ G) {K : Nat} (vs : Fin K → Vec ℝ G.dof)
    (Bcum : Mat ℝ (K + 1) (K + 1)) (u : ℝ) (j : Fin K) (w : Vec ℝ G.dof) (h : JacHyp L vs Bcum u j w)
    (a : Fin G.dof) :
    HasDerivAt (fun ε : ℝ =>
        (CSpline.eval_vs G (fun i => if i = j then vadd (vs i) (vsmul ε w) else vs i) Bcum u).acc a)
      (mulVec ((CSpline.eval_dg_dvs G vs Bcum u).dacc.getD j.val (mzero _ _)) w a) 0 :=
  (dvs_single_hasDerivAt L vs Bcum u j w h).2.2 a

/-- **SO3: the three Jacobians of `cspline_eval_dg_dvs` are the derivatives of `cspline_eval_vs`**,
    every `K`, `j`, direction `w`, at every `u` where all factors are in the closed-form branch or have a
    zero difference and the varied factor is in the closed-form branch. -/
theorem so3_dvs_jacobians {K : Nat} (vs : Fin K → Vec ℝ 3) (Bcum : Mat ℝ (K + 1) (K + 1)) (u : ℝ) (j : Fin K)
    (w : Vec ℝ 3)
    (h : ∀ i : Fin K, Scalar.eps2 < sqNorm (vsmul (basisValue Bcum u i) (vs i)) ∨ sqNorm (vs i) = 0)
    (hj : Scalar.eps2 < sqNorm (vsmul (basisValue Bcum u j) (vs j))) :
    let G : LieModel ℝ := SO3.model
    let vsε := fun (ε : ℝ) (i : Fin K) => if i = j then vadd (vs i) (vsmul ε w) else vs i
    let J := CSpline.eval_dg_dvs G vs Bcum u
    (∀ a b : Fin 3, HasDerivAt (fun ε : ℝ => SO3.matrix (CSpline.eval_vs G (vsε ε) Bcum u).g a b)
      (mmul (SO3.matrix (CSpline.eval_vs G vs Bcum u).g) (SO3.hat (mulVec (J.dg.getD j.val (mzero _ _)) w)) a b) 0) ∧
    (∀ a : Fin 3, HasDerivAt (fun ε : ℝ => (CSpline.eval_vs G (vsε ε) Bcum u).vel a)
      (mulVec (J.dvel.getD j.val (mzero _ _)) w a) 0) ∧
    (∀ a : Fin 3, HasDerivAt (fun ε : ℝ => (CSpline.eval_vs G (vsε ε) Bcum u).acc a)
      (mulVec (J.dacc.getD j.val (mzero _ _)) w a) 0) :=
  dvs_single_hasDerivAt so3CalculusJ vs Bcum u j w (so3_jacHyp vs Bcum u j w h hj)

/-- non-vacuity of the hypotheses of `so3_dvs_jacobians` (same data as above, `j = 1`) -/
example : ∃ (vs : Fin 2 → Vec ℝ 3) (Bcum : Mat ℝ 3 3) (u : ℝ) (j : Fin 2),
    (∀ i : Fin 2, Scalar.eps2 < sqNorm (vsmul (basisValue Bcum u i) (vs i)) ∨ sqNorm (vs i) = 0) ∧
    Scalar.eps2 < sqNorm (vsmul (basisValue Bcum u j) (vs j)) := by
  have hb : ∀ i : Fin 2, basisValue (K := 2) (.of (fun _ _ => (1 : ℝ))) 0 i = 1 := by
    intro i
    rw [basis_value_is_polynomial]
    simp [Fin.sum_univ_three]
  have hc : ∀ i : Fin 2, Scalar.eps2 < sqNorm (vsmul (basisValue (K := 2) (.of (fun _ _ => (1 : ℝ))) 0 i)
      ((fun j : Fin 2 => if j = 0 then mk3 (1 : ℝ) 0 0 else mk3 0 1 0) i)) := by
    intro i
    rw [hb, C02.sqNorm3, C02.scalar_eps2]
    fin_cases i <;> simp [vsmul, mk3] <;> norm_num
  exact ⟨fun j => if j = 0 then mk3 1 0 0 else mk3 0 1 0, .of (fun _ _ => 1), 0, 1, fun i => Or.inl (hc i), hc 1⟩

/-- **SE2: the same** (closed-form branch or zero angle; varied factor in the closed-form branch) -/
theorem se2_dvs_jacobians {K : Nat} (vs : Fin K → Vec ℝ 3) (Bcum : Mat ℝ (K + 1) (K + 1)) (u : ℝ) (j : Fin K)
    (w : Vec ℝ 3)
    (h : ∀ i : Fin K, Scalar.eps2 < (vsmul (basisValue Bcum u i) (vs i)) 2 * (vsmul (basisValue Bcum u i) (vs i)) 2
      ∨ (vs i) 2 = 0)
    (hj : Scalar.eps2 < (vsmul (basisValue Bcum u j) (vs j)) 2 * (vsmul (basisValue Bcum u j) (vs j)) 2) :
    let G : LieModel ℝ := SE2.model
    let vsε := fun (ε : ℝ) (i : Fin K) => if i = j then vadd (vs i) (vsmul ε w) else vs i
    let J := CSpline.eval_dg_dvs G vs Bcum u
    (∀ a b : Fin 3, HasDerivAt (fun ε : ℝ => SE2.matrix (CSpline.eval_vs G (vsε ε) Bcum u).g a b)
      (mmul (SE2.matrix (CSpline.eval_vs G vs Bcum u).g) (SE2.hat (mulVec (J.dg.getD j.val (mzero _ _)) w)) a b) 0) ∧
    (∀ a : Fin 3, HasDerivAt (fun ε : ℝ => (CSpline.eval_vs G (vsε ε) Bcum u).vel a)
      (mulVec (J.dvel.getD j.val (mzero _ _)) w a) 0) ∧
    (∀ a : Fin 3, HasDerivAt (fun ε : ℝ => (CSpline.eval_vs G (vsε ε) Bcum u).acc a)
      (mulVec (J.dacc.getD j.val (mzero _ _)) w a) 0) :=
  dvs_single_hasDerivAt se2CalculusJ vs Bcum u j w (se2_jacHyp vs Bcum u j w h hj)

/-- non-vacuity: `θ = 1` for every difference, `Bcum` = all ones, `u = 0` -/
example : ∀ i : Fin 2,
    Scalar.eps2 < (vsmul (basisValue (K := 2) (.of (fun _ _ => (1 : ℝ))) 0 i) (mk3 (2 : ℝ) 3 1)) 2
      * (vsmul (basisValue (K := 2) (.of (fun _ _ => (1 : ℝ))) 0 i) (mk3 (2 : ℝ) 3 1)) 2 := by
  intro i
  have hb : basisValue (K := 2) (.of (fun _ _ => (1 : ℝ))) 0 i = 1 := by
    rw [basis_value_is_polynomial]
    simp [Fin.sum_univ_three]
  rw [hb, C02.scalar_eps2]
  simp [vsmul, mk3]; norm_num

/-- **Tn: the three `…_dvs_recursion_statement`s hold without any hypothesis** (every `n`, `K`, `u`, `j`, `w`) -/
theorem tn_dvs_jacobians (n : Nat) {K : Nat} (vs : Fin K → Vec ℝ n) (Bcum : Mat ℝ (K + 1) (K + 1)) (u : ℝ)
    (j : Fin K) (w : Vec ℝ n) :
    let G : LieModel ℝ := Tn.model n
    let vsε := fun (ε : ℝ) (i : Fin K) => if i = j then vadd (vs i) (vsmul ε w) else vs i
    let J := CSpline.eval_dg_dvs G vs Bcum u
    (∀ a b : Fin (n + 1), HasDerivAt (fun ε : ℝ => Tn.matrix (CSpline.eval_vs G (vsε ε) Bcum u).g a b)
      (mmul (Tn.matrix (CSpline.eval_vs G vs Bcum u).g) (Tn.hat (mulVec (J.dg.getD j.val (mzero _ _)) w)) a b) 0) ∧
    (∀ a : Fin n, HasDerivAt (fun ε : ℝ => (CSpline.eval_vs G (vsε ε) Bcum u).vel a)
      (mulVec (J.dvel.getD j.val (mzero _ _)) w a) 0) ∧
    (∀ a : Fin n, HasDerivAt (fun ε : ℝ => (CSpline.eval_vs G (vsε ε) Bcum u).acc a)
      (mulVec (J.dacc.getD j.val (mzero _ _)) w a) 0) :=
  dvs_single_hasDerivAt (tnCalculusJ n) vs Bcum u j w (tn_jacHyp n vs Bcum u j w)


end C11
