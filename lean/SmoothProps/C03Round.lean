/-
  C03Round — the ROUNDING side of C03 (hat, vee, Ad, ad, lie_bracket) in the standard model of floating-point
  arithmetic (SmoothProofs/RoundModel.lean: `fl(x∘y) = (x∘y)(1+δ)`, `|δ| ≤ u`, no overflow/underflow; negation,
  comparison and integer literals exact).  C03 states NO accuracy of its own (its identities are exact over ℝ,
  SmoothProps/C03.lean; the audit uses 1e-9 / 1e-3), so the bounds below are given relative to the natural
  scale of each map and then at `1e-12` (double) / `1e-5` (single), which is stronger than what the audit asks.

  Everything is about the MODEL'S OWN polymorphic definitions instantiated at `RF` (every operation rounded)
  versus the same definitions at ℝ on the same inputs.

  * `hat` performs no arithmetic: the `RF` result IS the ℝ result, for every group incl. Galilei and SE_K_3 ∀K.
  * `ad` of SO3, SE2, SE3 performs no arithmetic either (entries are `0` or `± a_i`): exact.
    `Ad` of SE2 is exact (entries of the rotation matrix of SO2 are `± q_i`); `Ad = 1`, `ad = 0` of the commutative
    groups are literals.
  * `vee`: translation coordinates are read off (exact); each rotation coordinate is `(A_ij − A_ji)/2`:
    relative error `θ₃` on `(|A_ij| + |A_ji|)/2`; `vee ∘ hat` returns `a` to relative error `θ₃` per coordinate.
  * `Ad` of SO3 (= `toRotationMatrix`): `θ₄(1+4‖q‖²)` per entry; `Ad` of SE3 (`[R, t̂R; 0, R]`): `θ₈` on the
    `t̂R` block, `θ₄` on the diagonal blocks, the zero block exact; `≤ 120.01·ū·max(1,T)`.
  * `lie_bracket a b = ad(a)·b` of SO3, SE2, SE3: `θ_{dof+1}·(|ad a|·|b|)_i ≤ θ_{dof+1}·dof·|a|_∞|b|_∞` — relative to the
    bilinear scale `|a||b|`, so it also holds when one argument is tiny.
-/
import SmoothProofs.RoundC03
import SmoothProofs.C03Cor

open Lin Scalar Rounding RF Round

set_option linter.unusedVariables false
set_option linter.unusedSectionVars false
set_option linter.unusedSimpArgs false
set_option linter.unnecessarySeqFocus false

noncomputable section
namespace C03Round

/-! ## Witnesses -/
def wA : Vec ℝ 3 := mk3 1000 (-1 / 3) (1 / 1000000)
def wB : Vec ℝ 3 := mk3 (-7) 250 (1 / 3)
def tA : Vec ℝ 6 := SE3.mk6 wA wB
def tB : Vec ℝ 6 := SE3.mk6 wB wA
def qC : Vec ℝ 4 := mk4 (1 / 2) (-1 / 2) (1 / 2) (1 / 2)
def gA : Vec ℝ 7 := SE3.mk7 (mk3 1000 (-250) 3) qC
theorem wA_bound (l : Fin 3) : |wA l| ≤ 1000 := by fin_cases l <;> simp [wA, mk3, Vec.of] <;> norm_num
theorem wB_bound (l : Fin 3) : |wB l| ≤ 250 := by fin_cases l <;> simp [wB, mk3, Vec.of] <;> norm_num
theorem tA_bound (l : Fin 6) : |tA l| ≤ 1000 := by
  fin_cases l <;> simp [tA, SE3.mk6, wA, wB, mk3, Vec.of] <;> norm_num
theorem tB_bound (l : Fin 6) : |tB l| ≤ 1000 := by
  fin_cases l <;> simp [tB, SE3.mk6, wA, wB, mk3, Vec.of] <;> norm_num
theorem qC_sqn : SO3.sqn qC = 1 := by simp [SO3.sqn, qC, mk4, Vec.of]; norm_num
theorem gA_so3 : SE3.so3 gA = qC := SE3.so3_mk7 _ _
theorem gA_trans (l : Fin 3) : |SE3.r3 gA l| ≤ 1000 := by
  fin_cases l <;> simp [SE3.r3, gA, SE3.mk7, mk3, Vec.of] <;> norm_num

section Main
variable [Rounding]

/-! ## hat: no arithmetic — the `RF` result is the ℝ result -/

theorem so2_hat_exact (a : Vec ℝ 1) : Mat.toR (SO2.hat (Vec.toRF a)) = SO2.hat a := by
  ext i j; fin_cases i <;> fin_cases j <;> simp [SO2.hat, mat2, Mat.of, Mat.toR]
theorem c1_hat_exact (a : Vec ℝ 2) : Mat.toR (C1.hat (Vec.toRF a)) = C1.hat a := by
  ext i j; fin_cases i <;> fin_cases j <;> simp [C1.hat, mat2, Mat.of, Mat.toR]
theorem tn_hat_exact {n : Nat} (a : Vec ℝ n) : Mat.toR (Tn.hat (Vec.toRF a)) = Tn.hat a := by
  ext i j
  simp only [Tn.hat, Mat.toR, Mat.of_get]
  split_ifs <;> simp
theorem so3_hat_exact (a : Vec ℝ 3) : Mat.toR (SO3.hat (Vec.toRF a)) = SO3.hat a := by
  ext i j; fin_cases i <;> fin_cases j <;> simp [SO3.hat, mat3, Mat.of, Mat.toR]
theorem se2_hat_exact (a : Vec ℝ 3) : Mat.toR (SE2.hat (Vec.toRF a)) = SE2.hat a := by
  ext i j; fin_cases i <;> fin_cases j <;> simp [SE2.hat, mat3, Mat.of, Mat.toR]
omit [Rounding] in
theorem se3_tw_toRF (a : Vec ℝ 6) : SE3.tw (Vec.toRF a) = Vec.toRF (SE3.tw a) := by ext l; fin_cases l <;> rfl
omit [Rounding] in
theorem se3_tv_toRF (a : Vec ℝ 6) : SE3.tv (Vec.toRF a) = Vec.toRF (SE3.tv a) := by ext l; fin_cases l <;> rfl
theorem so3_hat_entry (a : Vec ℝ 3) (i j : Fin 3) : toReal ((SO3.hat (Vec.toRF a)) i j) = (SO3.hat a) i j :=
  congrFun (congrFun (congrArg Mat.get (so3_hat_exact a)) i) j
theorem se3_hat_exact (a : Vec ℝ 6) : Mat.toR (SE3.hat (Vec.toRF a)) = SE3.hat a := by
  ext i j
  simp only [SE3.hat, Mat.toR, Mat.of_get]
  by_cases hi : i.val < 3
  · by_cases hj : j.val < 3
    · simp only [hi, hj, dite_true]
      rw [se3_tw_toRF]
      exact so3_hat_entry _ _ _
    · simp [hi, hj]
  · simp [hi]
theorem galilei_hat_exact (a : Vec ℝ 10) : Mat.toR (Galilei.hat (Vec.toRF a)) = Galilei.hat a := by
  ext i j
  simp only [Galilei.hat, Mat.toR, Mat.of_get]
  have etw : Galilei.tw (Vec.toRF a) = Vec.toRF (Galilei.tw a) := by ext l; fin_cases l <;> rfl
  by_cases hi : i.val < 3
  · by_cases hj : j.val < 3
    · simp only [hi, hj, dite_true]
      rw [etw]
      exact so3_hat_entry _ _ _
    · simp only [hi, hj, dite_true, dite_false]
      split_ifs <;> simp
  · simp only [hi, dite_false]
    split_ifs <;> simp
/-- SE_K_3, every K -/
theorem sek3_hat_exact (k : Nat) (a : Vec ℝ (3 + 3 * k)) : Mat.toR (SEK3.hat k (Vec.toRF a)) = SEK3.hat k a := by
  ext i j
  simp only [SEK3.hat, Mat.toR, Mat.of_get]
  by_cases hi : i.val < 3
  · by_cases hj : j.val < 3
    · simp only [hi, hj, dite_true]
      have e : SEK3.tw k (Vec.toRF a) = Vec.toRF (SEK3.tw k a) := by ext l; rfl
      rw [e]
      exact so3_hat_entry _ _ _
    · simp [hi, hj]
  · simp [hi]
example : SO3.hat wA ≠ mzero 3 3 := by
  intro h
  have := congrFun (congrFun (congrArg Mat.get h) 2) 1
  simp [SO3.hat, mat3, Mat.of, wA, mk3, Vec.of, mzero] at this

/-! ## ad of SO3, SE2, SE3: no arithmetic — exact; Ad of SE2 and of the commutative groups: exact -/

theorem so3_ad_exact (a : Vec ℝ 3) : Mat.toR (SO3.ad (Vec.toRF a)) = SO3.ad a := so3_hat_exact a
theorem se2_ad_exact (a : Vec ℝ 3) : Mat.toR (SE2.ad (Vec.toRF a)) = SE2.ad a := by
  ext i j; fin_cases i <;> fin_cases j <;> simp [SE2.ad, mat3, Mat.of, Mat.toR]
omit [Rounding] in
theorem se3_ad_unfold {α : Type} [Scalar α] (a : Vec α 6) :
    SE3.ad a = SE3.blk22 (SO3.hat (SE3.tw a)) (SO3.hat (SE3.tv a)) (mzero 3 3) (SO3.hat (SE3.tw a)) := rfl
theorem se3_ad_exact (a : Vec ℝ 6) : Mat.toR (SE3.ad (Vec.toRF a)) = SE3.ad a := by
  ext i j
  show toReal ((SE3.ad (Vec.toRF a)) i j) = (SE3.ad a) i j
  rw [se3_ad_unfold, se3_ad_unfold, se3_tw_toRF, se3_tv_toRF]
  revert i j
  apply fin6_cases
  · intro i j; rw [blk22_tl, blk22_tl]; exact so3_hat_entry _ _ _
  · intro i j; rw [blk22_tr, blk22_tr]; exact so3_hat_entry _ _ _
  · intro i j; rw [blk22_bl, blk22_bl]; simp [mzero]
  · intro i j; rw [blk22_br, blk22_br]; exact so3_hat_entry _ _ _
theorem se2_Ad_exact (g : Vec ℝ 4) : Mat.toR (SE2.Ad (Vec.toRF g)) = SE2.Ad g := by
  ext i j
  fin_cases i <;> fin_cases j <;> simp [SE2.Ad, SE2.so2, SO2.matrix, mat2, mat3, mk2, Mat.of, Vec.of, Mat.toR]
/-- commutative groups: `Ad = 1`, `ad = 0` are literals at the `LieModel` level -/
theorem so2_Ad_ad_exact (g : Vec ℝ 2) (a : Vec ℝ 1) :
    Mat.toR ((SO2.model : LieModel RF).Ad (Vec.toRF g)) = (SO2.model : LieModel ℝ).Ad g ∧
    Mat.toR ((SO2.model : LieModel RF).ad (Vec.toRF a)) = (SO2.model : LieModel ℝ).ad a := by
  constructor <;> (ext i j; fin_cases i; fin_cases j; simp [SO2.model, ident, mzero, Mat.of, Mat.toR])
theorem tn_Ad_ad_exact (n : Nat) (g a : Vec ℝ n) :
    Mat.toR ((Tn.model n : LieModel RF).Ad (Vec.toRF g)) = (Tn.model n : LieModel ℝ).Ad g ∧
    Mat.toR ((Tn.model n : LieModel RF).ad (Vec.toRF a)) = (Tn.model n : LieModel ℝ).ad a := by
  constructor
  · ext i j
    revert i j
    intro (i : Fin n) (j : Fin n)
    show toReal ((ident n : Mat RF n n) i j) = (ident n : Mat ℝ n n) i j
    by_cases h : i = j
    · subst h; simp [ident, Mat.of]
    · simp [ident, Mat.of, h]
  · ext i j
    revert i j
    intro (i : Fin n) (j : Fin n)
    show toReal ((mzero n n : Mat RF n n) i j) = (mzero n n : Mat ℝ n n) i j
    simp [mzero, Mat.of]

/-! ## vee -/

/-- `(|A₂₁|+|A₁₂|)/2`, … : majorant of SO3's `vee` -/
def veeAbs3 (A : Mat ℝ 3 3) : Vec ℝ 3 :=
  mk3 ((|A 2 1| + |A 1 2|) / 2) ((|A 0 2| + |A 2 0|) / 2) ((|A 1 0| + |A 0 1|) / 2)

theorem half_appr (x y : ℝ) :
    Appr 3 ((|x| + |y|) / 2) (fl (fl (x - y) / ((2 : ℕ) : ℝ))) ((x - y) / ((2 : ℕ) : ℝ)) := by
  have h := ((Appr.exact x).sub (Appr.exact y)).div (Appr.exact (((2 : ℕ) : ℝ))) (by norm_num)
    (divOK_le6 0 (by norm_num))
  have e : |(((2 : ℕ) : ℝ))| = 2 := by norm_num
  rw [e] at h
  exact h

/-- **SO3 `vee`, any 3×3 matrix**: each coordinate `(A_ij − A_ji)/2` carries at most 3 roundings -/
theorem so3_vee_round (A : Mat ℝ 3 3) (i : Fin 3) :
    |toReal ((SO3.vee (Mat.toRF A)) i) - (SO3.vee A) i| ≤ theta 3 * veeAbs3 A i := by
  fin_cases i <;>
    simp only [SO3.vee, mk3, Vec.of, veeAbs3, toReal_div, toReal_sub, toReal_nat, Mat.toRF_get, Scalar.nat_real]
  · exact (half_appr (A 2 1) (A 1 2)).err
  · exact (half_appr (A 0 2) (A 2 0)).err
  · exact (half_appr (A 1 0) (A 0 1)).err

/-- **`vee ∘ hat` of SO3 in rounded arithmetic returns `a` to relative error `θ₃` per coordinate** -/
theorem so3_vee_hat_round (a : Vec ℝ 3) (i : Fin 3) :
    |toReal ((SO3.vee (SO3.hat (Vec.toRF a))) i) - a i| ≤ theta 3 * |a i| := by
  have e : SO3.hat (Vec.toRF a) = Mat.toRF (SO3.hat a) := Mat.toRF_eq_of_toR _ _ (so3_hat_exact a)
  have h := so3_vee_round (SO3.hat a) i
  rw [← e, C03.SO3.vee_hat] at h
  refine h.trans (le_of_eq ?_)
  congr 1
  fin_cases i <;> simp [veeAbs3, SO3.hat, mat3, mk3, Mat.of, Vec.of]
example : wA 0 ≠ 0 := by simp [wA, mk3, Vec.of]

/-- SO2 `vee`: `(A₁₀ − A₀₁)/2` -/
theorem so2_vee_round (A : Mat ℝ 2 2) (i : Fin 1) :
    |toReal ((SO2.vee (Mat.toRF A)) i) - (SO2.vee A) i| ≤ theta 3 * ((|A 1 0| + |A 0 1|) / 2) := by
  simp only [SO2.vee, mk1, Vec.of, toReal_div, toReal_sub, toReal_nat, Mat.toRF_get, Scalar.nat_real]
  exact (half_appr (A 1 0) (A 0 1)).err

/-- SE2 `vee`: translation coordinates exact, angle coordinate `(A₁₀ − A₀₁)/2` -/
theorem se2_vee_round (A : Mat ℝ 3 3) :
    toReal ((SE2.vee (Mat.toRF A)) 0) = (SE2.vee A) 0 ∧ toReal ((SE2.vee (Mat.toRF A)) 1) = (SE2.vee A) 1 ∧
    |toReal ((SE2.vee (Mat.toRF A)) 2) - (SE2.vee A) 2| ≤ theta 3 * ((|A 1 0| + |A 0 1|) / 2) := by
  refine ⟨by simp [SE2.vee, mk3, Vec.of], by simp [SE2.vee, mk3, Vec.of], ?_⟩
  simp only [SE2.vee, mk3, Vec.of, toReal_div, toReal_sub, toReal_nat, Mat.toRF_get, Scalar.nat_real]
  exact (half_appr (A 1 0) (A 0 1)).err

/-- SE3 `vee`: translation coordinates exact, rotation coordinates as SO3 on the upper-left block -/
theorem se3_vee_round (A : Mat ℝ 4 4) :
    (∀ i : Fin 3, toReal ((SE3.vee (Mat.toRF A)) ⟨i.val, by omega⟩) = (SE3.vee A) ⟨i.val, by omega⟩) ∧
    ∀ i : Fin 3, |toReal ((SE3.vee (Mat.toRF A)) ⟨3 + i.val, by omega⟩) - (SE3.vee A) ⟨3 + i.val, by omega⟩|
      ≤ theta 3 * veeAbs3 (.of (fun i j => A ⟨i.val, by omega⟩ ⟨j.val, by omega⟩)) i := by
  constructor
  · intro i; fin_cases i <;> simp [SE3.vee, SE3.mk6, mk3, Vec.of]
  · intro i
    have h := so3_vee_round (.of (fun i j => A ⟨i.val, by omega⟩ ⟨j.val, by omega⟩)) i
    have e : (Mat.of (fun i j => (Mat.toRF A) ⟨i.val, by omega⟩ ⟨j.val, by omega⟩) : Mat RF 3 3)
        = Mat.toRF (.of (fun i j => A ⟨i.val, by omega⟩ ⟨j.val, by omega⟩)) := by ext i j; rfl
    fin_cases i <;> simpa [SE3.vee, SE3.mk6, e, Vec.of] using h

/-! ## Ad of SO3 and SE3 -/

/-- **SO3 `Ad` (= `toRotationMatrix`), all quaternions, componentwise**: 4 roundings -/
theorem so3_Ad_round (g : Vec ℝ 4) (i j : Fin 3) :
    |toReal ((SO3.Ad (Vec.toRF g)) i j) - (SO3.Ad g) i j| ≤ theta 4 * so3MatAbs (absV g) i j :=
  (rot_appr g i j).err

omit [Rounding] in
theorem so3MatAbs_absV_le (g : Vec ℝ 4) (i j : Fin 3) : so3MatAbs (absV g) i j ≤ 1 + 4 * SO3.sqn g := by
  have := so3MatAbs_le (absV g) (nrm4 g) (absV_nonneg g) (fun k => by simpa [absV, Vec.of] using abs_le_nrm4 g k) i j
  rwa [nrm4_sq] at this

theorem so3_Ad_round_norm (g : Vec ℝ 4) (i j : Fin 3) :
    |toReal ((SO3.Ad (Vec.toRF g)) i j) - (SO3.Ad g) i j| ≤ theta 4 * (1 + 4 * SO3.sqn g) := by
  refine (so3_Ad_round g i j).trans ?_
  have := so3MatAbs_absV_le g i j
  have := theta_nonneg 4
  gcongr

/-- approximately unit quaternion: `≤ 20.01·ū` per entry -/
theorem so3_Ad_acc (g : Vec ℝ 4) (hg : SO3.sqn g ≤ 1 + 1 / 10 ^ 8) (i j : Fin 3) :
    |toReal ((SO3.Ad (Vec.toRF g)) i j) - (SO3.Ad g) i j| ≤ 2001 / 100 * ubar := by
  refine (so3_Ad_round_norm g i j).trans ?_
  have := sqn_nonneg g
  exact theta_mul_le 4 (by norm_num) _ (1 + 4 * (1 + 1 / 10 ^ 8)) _ (by positivity) (by linarith) (by norm_num)
example : SO3.sqn qC ≤ 1 + 1 / 10 ^ 8 := by rw [qC_sqn]; norm_num

theorem so3_Ad_double (h : IsDouble) (g : Vec ℝ 4) (hg : SO3.sqn g ≤ 1 + 1 / 10 ^ 8) (i j : Fin 3) :
    |toReal ((SO3.Ad (Vec.toRF g)) i j) - (SO3.Ad g) i j| ≤ 1 / 10 ^ 12 := by
  have := so3_Ad_acc g hg i j
  have := ubar_double h
  norm_num at *; linarith
theorem so3_Ad_single (h : IsSingle) (g : Vec ℝ 4) (hg : SO3.sqn g ≤ 1 + 1 / 10 ^ 8) (i j : Fin 3) :
    |toReal ((SO3.Ad (Vec.toRF g)) i j) - (SO3.Ad g) i j| ≤ 1 / 10 ^ 5 := by
  have := so3_Ad_acc g hg i j
  have := ubar_single h
  norm_num at *; linarith

/-- `|t̂|` -/
def hatAbs (t : Vec ℝ 3) : Mat ℝ 3 3 := mat3 0 |t 2| |t 1| |t 2| 0 |t 0| |t 1| |t 0| 0

theorem so3_hat_appr (t : Vec ℝ 3) (i j : Fin 3) :
    Appr 0 (hatAbs t i j) (toReal ((SO3.hat (Vec.toRF t)) i j)) ((SO3.hat t) i j) := by
  fin_cases i <;> fin_cases j <;>
    simp only [SO3.hat, mat3, Mat.of, hatAbs, toReal_neg, toReal_nat, Vec.toRF_get, Scalar.nat_real] <;>
    first
    | exact (Appr.exact _).neg
    | exact Appr.exact _
    | (simpa using Appr.natCast 0)

omit [Rounding] in
theorem se3_Ad_unfold {α : Type} [Scalar α] (g : Vec α 7) :
    SE3.Ad g = SE3.blk22 (SO3.matrix (SE3.so3 g)) (mmul (SO3.hat (SE3.r3 g)) (SO3.matrix (SE3.so3 g))) (mzero 3 3)
      (SO3.matrix (SE3.so3 g)) := by
  simp only [SE3.Ad, memoM_eq]

/-- **SE3 `Ad = [R, t̂R; 0, R]`, all inputs, the `t̂R` block**: 8 roundings (4 in `R`, 1 product, 3 in the sum) -/
theorem se3_Ad_tr_round (g : Vec ℝ 7) (i j : Fin 3) :
    |toReal ((SE3.Ad (Vec.toRF g)) ⟨i.val, by omega⟩ ⟨3 + j.val, by omega⟩) - (SE3.Ad g) ⟨i.val, by omega⟩ ⟨3 + j.val, by omega⟩|
      ≤ theta 8 * vsum 3 (fun l => hatAbs (SE3.r3 g) i l * so3MatAbs (absV (SE3.so3 g)) l j) := by
  rw [se3_Ad_unfold, se3_Ad_unfold, blk22_tr, blk22_tr, se3_so3_toRF, se3_r3_toRF]
  exact (mmul_appr_gen _ _ _ _ _ _ (so3_hat_appr (SE3.r3 g)) (rot_appr (SE3.so3 g)) i j).err

/-- diagonal blocks: the rotation matrix, 4 roundings -/
theorem se3_Ad_diag_round (g : Vec ℝ 7) (i j : Fin 3) :
    |toReal ((SE3.Ad (Vec.toRF g)) ⟨i.val, by omega⟩ ⟨j.val, by omega⟩) - (SE3.Ad g) ⟨i.val, by omega⟩ ⟨j.val, by omega⟩|
      ≤ theta 4 * so3MatAbs (absV (SE3.so3 g)) i j ∧
    |toReal ((SE3.Ad (Vec.toRF g)) ⟨3 + i.val, by omega⟩ ⟨3 + j.val, by omega⟩) - (SE3.Ad g) ⟨3 + i.val, by omega⟩ ⟨3 + j.val, by omega⟩|
      ≤ theta 4 * so3MatAbs (absV (SE3.so3 g)) i j := by
  rw [se3_Ad_unfold, se3_Ad_unfold, blk22_tl, blk22_tl, blk22_br, blk22_br, se3_so3_toRF]
  exact ⟨(rot_appr _ i j).err, (rot_appr _ i j).err⟩

/-- zero block: exact -/
theorem se3_Ad_bl_exact (g : Vec ℝ 7) (i j : Fin 3) :
    toReal ((SE3.Ad (Vec.toRF g)) ⟨3 + i.val, by omega⟩ ⟨j.val, by omega⟩) = (SE3.Ad g) ⟨3 + i.val, by omega⟩ ⟨j.val, by omega⟩ := by
  rw [se3_Ad_unfold, se3_Ad_unfold, blk22_bl, blk22_bl]
  simp [mzero]

omit [Rounding] in
theorem hatAbs_le (t : Vec ℝ 3) (T : ℝ) (ht : ∀ l, |t l| ≤ T) (i j : Fin 3) : hatAbs t i j ≤ T := by
  have hT : 0 ≤ T := (abs_nonneg _).trans (ht 0)
  fin_cases i <;> fin_cases j <;> simp only [hatAbs, mat3, Mat.of] <;>
    first | exact hT | exact ht 0 | exact ht 1 | exact ht 2
omit [Rounding] in
theorem hatAbs_nonneg (t : Vec ℝ 3) (i j : Fin 3) : 0 ≤ hatAbs t i j := by
  fin_cases i <;> fin_cases j <;> simp [hatAbs, mat3, Mat.of]
omit [Rounding] in
theorem so3MatAbs_absV_nonneg (g : Vec ℝ 4) (i j : Fin 3) : 0 ≤ so3MatAbs (absV g) i j := by
  have a0 := absV_nonneg g 0; have a1 := absV_nonneg g 1; have a2 := absV_nonneg g 2; have a3 := absV_nonneg g 3
  fin_cases i <;> fin_cases j <;> simp only [so3MatAbs, mat3, Mat.of] <;> positivity

/-- SE3 `Ad`, whole 6×6 matrix, approximately unit rotation part, `|t|_∞ ≤ T`: `≤ 120.01·ū·max(1,T)` per entry -/
theorem se3_Ad_acc (g : Vec ℝ 7) (T : ℝ) (hg : SO3.sqn (SE3.so3 g) ≤ 1 + 1 / 10 ^ 8) (ht : ∀ l, |SE3.r3 g l| ≤ T) :
    ∀ i j : Fin 6, |toReal ((SE3.Ad (Vec.toRF g)) i j) - (SE3.Ad g) i j| ≤ 12001 / 100 * ubar * scale T := by
  have hs1 := one_le_scale T
  have hsT := le_scale T
  have hs0 := scale_nonneg T
  have hub := ubar_nonneg
  have hn := sqn_nonneg (SE3.so3 g)
  have hdiag : ∀ i j : Fin 3, theta 4 * so3MatAbs (absV (SE3.so3 g)) i j ≤ 12001 / 100 * ubar * scale T := by
    intro i j
    have := theta_mul_le 4 (by norm_num) _ (1 + 4 * (1 + 1 / 10 ^ 8)) (12001 / 100) (so3MatAbs_absV_nonneg _ i j)
      ((so3MatAbs_absV_le (SE3.so3 g) i j).trans (by linarith)) (by norm_num)
    refine this.trans ?_
    nlinarith [mul_nonneg hub (sub_nonneg.mpr hs1)]
  apply fin6_cases
  · intro i j; exact (se3_Ad_diag_round g i j).1.trans (hdiag i j)
  · intro i j
    refine (se3_Ad_tr_round g i j).trans ?_
    have hle : vsum 3 (fun l => hatAbs (SE3.r3 g) i l * so3MatAbs (absV (SE3.so3 g)) l j)
        ≤ (3 : ℕ) * (scale T * (1 + 4 * (1 + 1 / 10 ^ 8))) :=
      vsum_le_const 3 _ _ (fun l => mul_le_mul ((hatAbs_le _ T ht i l).trans hsT)
        ((so3MatAbs_absV_le (SE3.so3 g) l j).trans (by linarith)) (so3MatAbs_absV_nonneg _ l j) hs0)
    have h0 : 0 ≤ vsum 3 (fun l => hatAbs (SE3.r3 g) i l * so3MatAbs (absV (SE3.so3 g)) l j) :=
      vsum_nonneg 3 _ (fun l => mul_nonneg (hatAbs_nonneg _ i l) (so3MatAbs_absV_nonneg _ l j))
    have := theta_mul_le 8 (by norm_num) _ _ (12001 / 100 * scale T) h0 hle (by norm_num; nlinarith)
    calc _ ≤ _ := this
      _ = _ := by ring
  · intro i j
    rw [se3_Ad_bl_exact]
    simp only [sub_self, abs_zero]; positivity
  · intro i j; exact (se3_Ad_diag_round g i j).2.trans (hdiag i j)
example : SO3.sqn (SE3.so3 gA) ≤ 1 + 1 / 10 ^ 8 ∧ ∀ l, |SE3.r3 gA l| ≤ 1000 :=
  ⟨by rw [gA_so3, qC_sqn]; norm_num, gA_trans⟩

/-- **SE3 `Ad` in double: every entry to `1e-12·max(1,T)`** (C03 itself states no tolerance; the audit uses 1e-9) -/
theorem se3_Ad_double (h : IsDouble) (g : Vec ℝ 7) (T : ℝ) (hg : SO3.sqn (SE3.so3 g) ≤ 1 + 1 / 10 ^ 8)
    (ht : ∀ l, |SE3.r3 g l| ≤ T) (i j : Fin 6) :
    |toReal ((SE3.Ad (Vec.toRF g)) i j) - (SE3.Ad g) i j| ≤ 1 / 10 ^ 12 * scale T := by
  refine (se3_Ad_acc g T hg ht i j).trans ?_
  have := ubar_double h
  have := scale_nonneg T
  gcongr
  norm_num at *; linarith
theorem se3_Ad_single (h : IsSingle) (g : Vec ℝ 7) (T : ℝ) (hg : SO3.sqn (SE3.so3 g) ≤ 1 + 1 / 10 ^ 8)
    (ht : ∀ l, |SE3.r3 g l| ≤ T) (i j : Fin 6) :
    |toReal ((SE3.Ad (Vec.toRF g)) i j) - (SE3.Ad g) i j| ≤ 1 / 10 ^ 5 * scale T := by
  refine (se3_Ad_acc g T hg ht i j).trans ?_
  have := ubar_single h
  have := scale_nonneg T
  gcongr
  norm_num at *; linarith

/-! ## lie_bracket `a b = ad(a)·b` -/

/-- a matrix–vector product whose matrix and vector are stored exactly: `m + 1` roundings,
    majorant `Σ_l |A_il||b_l| ≤ m·α·β` -/
theorem exact_mulVec_round {n m : ℕ} (A : Mat ℝ n m) (b : Vec ℝ m) (α β : ℝ) (hA : ∀ i j, |A i j| ≤ α)
    (hb : ∀ l, |b l| ≤ β) (i : Fin n) :
    |toReal ((mulVec (Mat.toRF A) (Vec.toRF b)) i) - (mulVec A b) i| ≤ theta (m + 1) * (m * (α * β)) := by
  have h := mulVec_appr_gen (kA := 0) (kv := 0) (Mat.toRF A) A (.of (fun i j => |A i j|)) (Vec.toRF b) b (absV b)
    (fun i j => by simpa using Appr.exact (A i j)) (fun l => by simpa [absV, Vec.of] using Appr.exact (b l)) i
  refine h.err_le (by omega) ?_
  exact vsum_le_const m _ _ (fun l => by
    simp only [Mat.of_get]
    exact mul_le_mul (hA i l) (by simpa [absV, Vec.of] using hb l) (absV_nonneg b l) ((abs_nonneg _).trans (hA i l)))

example : ∀ i j, |(SO3.hat wA) i j| ≤ 1000 := by
  intro i j
  fin_cases i <;> fin_cases j <;> simp [SO3.hat, mat3, Mat.of, wA, mk3, Vec.of] <;> norm_num

omit [Rounding] in
theorem so3_hat_entry_le (t : Vec ℝ 3) (T : ℝ) (ht : ∀ l, |t l| ≤ T) (i j : Fin 3) : |(SO3.hat t) i j| ≤ T := by
  have hT : 0 ≤ T := (abs_nonneg _).trans (ht 0)
  fin_cases i <;> fin_cases j <;> simp only [SO3.hat, mat3, Mat.of, Scalar.nat_real, abs_neg] <;>
    first | exact ht 0 | exact ht 1 | exact ht 2 | (simpa using hT)
omit [Rounding] in
theorem se2_ad_entry_le (a : Vec ℝ 3) (A : ℝ) (ha : ∀ l, |a l| ≤ A) (i j : Fin 3) : |(SE2.ad a) i j| ≤ A := by
  have hA : 0 ≤ A := (abs_nonneg _).trans (ha 0)
  fin_cases i <;> fin_cases j <;> simp only [SE2.ad, mat3, Mat.of, Scalar.nat_real, abs_neg] <;>
    first | exact ha 0 | exact ha 1 | exact ha 2 | (simpa using hA)
omit [Rounding] in
theorem se3_ad_entry_le (a : Vec ℝ 6) (A : ℝ) (ha : ∀ l, |a l| ≤ A) : ∀ i j : Fin 6, |(SE3.ad a) i j| ≤ A := by
  have hA : 0 ≤ A := (abs_nonneg _).trans (ha 0)
  have hw : ∀ l, |SE3.tw a l| ≤ A := fun l => by
    fin_cases l <;> simp only [SE3.tw, mk3, Vec.of] <;> first | exact ha 3 | exact ha 4 | exact ha 5
  have hv : ∀ l, |SE3.tv a l| ≤ A := fun l => by
    fin_cases l <;> simp only [SE3.tv, mk3, Vec.of] <;> first | exact ha 0 | exact ha 1 | exact ha 2
  rw [se3_ad_unfold]
  apply fin6_cases
  · intro i j; rw [blk22_tl]; exact so3_hat_entry_le _ A hw i j
  · intro i j; rw [blk22_tr]; exact so3_hat_entry_le _ A hv i j
  · intro i j; rw [blk22_bl]; simpa [mzero] using hA
  · intro i j; rw [blk22_br]; exact so3_hat_entry_le _ A hw i j

/-- **SO3 `lie_bracket`, all tangents**: `|computed − ad(a)·b|_i ≤ θ₄·3·|a|_∞|b|_∞` — relative to the bilinear scale -/
theorem so3_bracket_round (a b : Vec ℝ 3) (A B : ℝ) (ha : ∀ l, |a l| ≤ A) (hb : ∀ l, |b l| ≤ B) (i : Fin 3) :
    |toReal (((SO3.model : LieModel RF).bracket (Vec.toRF a) (Vec.toRF b)) i)
        - ((SO3.model : LieModel ℝ).bracket a b) i| ≤ theta 4 * (3 * (A * B)) := by
  show |toReal ((mulVec (SO3.ad (Vec.toRF a)) (Vec.toRF b)) i) - (mulVec (SO3.ad a) b) i| ≤ _
  rw [Mat.toRF_eq_of_toR _ _ (so3_ad_exact a)]
  have := exact_mulVec_round (SO3.ad a) b A B (so3_hat_entry_le a A ha) hb i
  simpa using this

/-- **SE2 `lie_bracket`** -/
theorem se2_bracket_round (a b : Vec ℝ 3) (A B : ℝ) (ha : ∀ l, |a l| ≤ A) (hb : ∀ l, |b l| ≤ B) (i : Fin 3) :
    |toReal (((SE2.model : LieModel RF).bracket (Vec.toRF a) (Vec.toRF b)) i)
        - ((SE2.model : LieModel ℝ).bracket a b) i| ≤ theta 4 * (3 * (A * B)) := by
  show |toReal ((mulVec (SE2.ad (Vec.toRF a)) (Vec.toRF b)) i) - (mulVec (SE2.ad a) b) i| ≤ _
  rw [Mat.toRF_eq_of_toR _ _ (se2_ad_exact a)]
  have := exact_mulVec_round (SE2.ad a) b A B (se2_ad_entry_le a A ha) hb i
  simpa using this

/-- **SE3 `lie_bracket`**: 7 roundings (1 product, 6 in the left-to-right sum from 0) -/
theorem se3_bracket_round (a b : Vec ℝ 6) (A B : ℝ) (ha : ∀ l, |a l| ≤ A) (hb : ∀ l, |b l| ≤ B) (i : Fin 6) :
    |toReal (((SE3.model : LieModel RF).bracket (Vec.toRF a) (Vec.toRF b)) i)
        - ((SE3.model : LieModel ℝ).bracket a b) i| ≤ theta 7 * (6 * (A * B)) := by
  show |toReal ((mulVec (SE3.ad (Vec.toRF a)) (Vec.toRF b)) i) - (mulVec (SE3.ad a) b) i| ≤ _
  rw [Mat.toRF_eq_of_toR _ _ (se3_ad_exact a)]
  have := exact_mulVec_round (SE3.ad a) b A B (se3_ad_entry_le a A ha) hb i
  simpa using this
example : (∀ l, |tA l| ≤ 1000) ∧ ∀ l, |tB l| ≤ 1000 := ⟨tA_bound, tB_bound⟩

/-- explicit constants: `12.01·ū·|a||b|` (SO3, SE2), `42.01·ū·|a||b|` (SE3) -/
theorem so3_bracket_acc (a b : Vec ℝ 3) (A B : ℝ) (ha : ∀ l, |a l| ≤ A) (hb : ∀ l, |b l| ≤ B) (i : Fin 3) :
    |toReal (((SO3.model : LieModel RF).bracket (Vec.toRF a) (Vec.toRF b)) i)
        - ((SO3.model : LieModel ℝ).bracket a b) i| ≤ 1201 / 100 * ubar * (A * B) := by
  have hA : 0 ≤ A := (abs_nonneg _).trans (ha 0)
  have hB : 0 ≤ B := (abs_nonneg _).trans (hb 0)
  have hAB : 0 ≤ A * B := mul_nonneg hA hB
  refine (so3_bracket_round a b A B ha hb i).trans ?_
  have := theta_mul_le 4 (by norm_num) (3 * (A * B)) (3 * (A * B)) (1201 / 100 * (A * B)) (by positivity) (le_refl _)
    (by norm_num; nlinarith)
  calc _ ≤ _ := this
    _ = _ := by ring

theorem se2_bracket_acc (a b : Vec ℝ 3) (A B : ℝ) (ha : ∀ l, |a l| ≤ A) (hb : ∀ l, |b l| ≤ B) (i : Fin 3) :
    |toReal (((SE2.model : LieModel RF).bracket (Vec.toRF a) (Vec.toRF b)) i)
        - ((SE2.model : LieModel ℝ).bracket a b) i| ≤ 1201 / 100 * ubar * (A * B) := by
  have hA : 0 ≤ A := (abs_nonneg _).trans (ha 0)
  have hB : 0 ≤ B := (abs_nonneg _).trans (hb 0)
  have hAB : 0 ≤ A * B := mul_nonneg hA hB
  refine (se2_bracket_round a b A B ha hb i).trans ?_
  have := theta_mul_le 4 (by norm_num) (3 * (A * B)) (3 * (A * B)) (1201 / 100 * (A * B)) (by positivity) (le_refl _)
    (by norm_num; nlinarith)
  calc _ ≤ _ := this
    _ = _ := by ring

theorem se3_bracket_acc (a b : Vec ℝ 6) (A B : ℝ) (ha : ∀ l, |a l| ≤ A) (hb : ∀ l, |b l| ≤ B) (i : Fin 6) :
    |toReal (((SE3.model : LieModel RF).bracket (Vec.toRF a) (Vec.toRF b)) i)
        - ((SE3.model : LieModel ℝ).bracket a b) i| ≤ 4201 / 100 * ubar * (A * B) := by
  have hA : 0 ≤ A := (abs_nonneg _).trans (ha 0)
  have hB : 0 ≤ B := (abs_nonneg _).trans (hb 0)
  have hAB : 0 ≤ A * B := mul_nonneg hA hB
  refine (se3_bracket_round a b A B ha hb i).trans ?_
  have := theta_mul_le 7 (by norm_num) (6 * (A * B)) (6 * (A * B)) (4201 / 100 * (A * B)) (by positivity) (le_refl _)
    (by norm_num; nlinarith)
  calc _ ≤ _ := this
    _ = _ := by ring

/-- **`lie_bracket` of SO3 / SE2 / SE3 in double: `1e-12·|a|_∞|b|_∞`** (bilinear scale; C03 states no tolerance) -/
theorem bracket_double (h : IsDouble) :
    (∀ (a b : Vec ℝ 3) (A B : ℝ), (∀ l, |a l| ≤ A) → (∀ l, |b l| ≤ B) → ∀ i,
      |toReal (((SO3.model : LieModel RF).bracket (Vec.toRF a) (Vec.toRF b)) i)
        - ((SO3.model : LieModel ℝ).bracket a b) i| ≤ 1 / 10 ^ 12 * (A * B)) ∧
    (∀ (a b : Vec ℝ 3) (A B : ℝ), (∀ l, |a l| ≤ A) → (∀ l, |b l| ≤ B) → ∀ i,
      |toReal (((SE2.model : LieModel RF).bracket (Vec.toRF a) (Vec.toRF b)) i)
        - ((SE2.model : LieModel ℝ).bracket a b) i| ≤ 1 / 10 ^ 12 * (A * B)) ∧
    (∀ (a b : Vec ℝ 6) (A B : ℝ), (∀ l, |a l| ≤ A) → (∀ l, |b l| ≤ B) → ∀ i,
      |toReal (((SE3.model : LieModel RF).bracket (Vec.toRF a) (Vec.toRF b)) i)
        - ((SE3.model : LieModel ℝ).bracket a b) i| ≤ 1 / 10 ^ 12 * (A * B)) := by
  have hu := ubar_double h
  have key : ∀ (C A B : ℝ), C ≤ 4201 / 100 → 0 ≤ C → 0 ≤ A * B → C * ubar * (A * B) ≤ 1 / 10 ^ 12 * (A * B) := by
    intro C A B hC hC0 hAB
    have hub := ubar_nonneg
    have : C * ubar ≤ 1 / 10 ^ 12 := by nlinarith
    exact mul_le_mul_of_nonneg_right this hAB
  refine ⟨fun a b A B ha hb i => ?_, fun a b A B ha hb i => ?_, fun a b A B ha hb i => ?_⟩
  · exact (so3_bracket_acc a b A B ha hb i).trans (key _ A B (by norm_num) (by norm_num)
      (mul_nonneg ((abs_nonneg _).trans (ha 0)) ((abs_nonneg _).trans (hb 0))))
  · exact (se2_bracket_acc a b A B ha hb i).trans (key _ A B (by norm_num) (by norm_num)
      (mul_nonneg ((abs_nonneg _).trans (ha 0)) ((abs_nonneg _).trans (hb 0))))
  · exact (se3_bracket_acc a b A B ha hb i).trans (key _ A B (by norm_num) (by norm_num)
      (mul_nonneg ((abs_nonneg _).trans (ha 0)) ((abs_nonneg _).trans (hb 0))))

/-- … single: `1e-5·|a|_∞|b|_∞` -/
theorem bracket_single (h : IsSingle) :
    (∀ (a b : Vec ℝ 3) (A B : ℝ), (∀ l, |a l| ≤ A) → (∀ l, |b l| ≤ B) → ∀ i,
      |toReal (((SO3.model : LieModel RF).bracket (Vec.toRF a) (Vec.toRF b)) i)
        - ((SO3.model : LieModel ℝ).bracket a b) i| ≤ 1 / 10 ^ 5 * (A * B)) ∧
    (∀ (a b : Vec ℝ 3) (A B : ℝ), (∀ l, |a l| ≤ A) → (∀ l, |b l| ≤ B) → ∀ i,
      |toReal (((SE2.model : LieModel RF).bracket (Vec.toRF a) (Vec.toRF b)) i)
        - ((SE2.model : LieModel ℝ).bracket a b) i| ≤ 1 / 10 ^ 5 * (A * B)) ∧
    (∀ (a b : Vec ℝ 6) (A B : ℝ), (∀ l, |a l| ≤ A) → (∀ l, |b l| ≤ B) → ∀ i,
      |toReal (((SE3.model : LieModel RF).bracket (Vec.toRF a) (Vec.toRF b)) i)
        - ((SE3.model : LieModel ℝ).bracket a b) i| ≤ 1 / 10 ^ 5 * (A * B)) := by
  have hu := ubar_single h
  have key : ∀ (C A B : ℝ), C ≤ 4201 / 100 → 0 ≤ C → 0 ≤ A * B → C * ubar * (A * B) ≤ 1 / 10 ^ 5 * (A * B) := by
    intro C A B hC hC0 hAB
    have hub := ubar_nonneg
    have : C * ubar ≤ 1 / 10 ^ 5 := by nlinarith
    exact mul_le_mul_of_nonneg_right this hAB
  refine ⟨fun a b A B ha hb i => ?_, fun a b A B ha hb i => ?_, fun a b A B ha hb i => ?_⟩
  · exact (so3_bracket_acc a b A B ha hb i).trans (key _ A B (by norm_num) (by norm_num)
      (mul_nonneg ((abs_nonneg _).trans (ha 0)) ((abs_nonneg _).trans (hb 0))))
  · exact (se2_bracket_acc a b A B ha hb i).trans (key _ A B (by norm_num) (by norm_num)
      (mul_nonneg ((abs_nonneg _).trans (ha 0)) ((abs_nonneg _).trans (hb 0))))
  · exact (se3_bracket_acc a b A B ha hb i).trans (key _ A B (by norm_num) (by norm_num)
      (mul_nonneg ((abs_nonneg _).trans (ha 0)) ((abs_nonneg _).trans (hb 0))))

end Main
end C03Round

namespace C03Round

/-! ## Non-vacuity: instantiation at the genuinely rounding instances `Rounding.binary64` / `binary32` -/

example : @IsDouble Rounding.binary64 := le_refl _
example : @IsSingle Rounding.binary32 := le_refl _

/-- hat is exact in binary64 as well -/
example : Mat.toR (@SE3.hat RF (@instScalarRF Rounding.binary64) (Vec.toRF tA)) = SE3.hat tA :=
  @se3_hat_exact Rounding.binary64 tA

/-- SE3 bracket of two tangents with coordinates from 1e-6 to 1e3, binary64: `≤ 1e-12·1e6` -/
example (i : Fin 6) :
    |toReal ((@LieModel.bracket RF (@instScalarRF Rounding.binary64) (@SE3.model RF (@instScalarRF Rounding.binary64))
        (Vec.toRF tA) (Vec.toRF tB)) i) - ((SE3.model : LieModel ℝ).bracket tA tB) i| ≤ 1 / 10 ^ 12 * (1000 * 1000) :=
  (@bracket_double Rounding.binary64 (le_refl _)).2.2 tA tB 1000 1000 tA_bound tB_bound i

/-- SO3 bracket with a tiny second argument (bilinear scale), binary32 -/
example (i : Fin 3) :
    |toReal ((@LieModel.bracket RF (@instScalarRF Rounding.binary32) (@SO3.model RF (@instScalarRF Rounding.binary32))
        (Vec.toRF wA) (Vec.toRF wB)) i) - ((SO3.model : LieModel ℝ).bracket wA wB) i| ≤ 1 / 10 ^ 5 * (1000 * 250) :=
  (@bracket_single Rounding.binary32 (le_refl _)).1 wA wB 1000 250 wA_bound wB_bound i

/-- SE3 `Ad` of an element with translation up to 1e3, binary64 -/
example (i j : Fin 6) :
    |toReal ((@SE3.Ad RF (@instScalarRF Rounding.binary64) (Vec.toRF gA)) i j) - (SE3.Ad gA) i j| ≤ 1 / 10 ^ 12 * scale 1000 :=
  @se3_Ad_double Rounding.binary64 (le_refl _) gA 1000 (by rw [gA_so3, qC_sqn]; norm_num) gA_trans i j

/-- `vee ∘ hat` in binary32 -/
example (i : Fin 3) :
    |toReal ((@SO3.vee RF (@instScalarRF Rounding.binary32) (@SO3.hat RF (@instScalarRF Rounding.binary32) (Vec.toRF wA))) i) - wA i|
      ≤ @theta Rounding.binary32 3 * |wA i| :=
  @so3_vee_hat_round Rounding.binary32 wA i

end C03Round
end
