/- aggregator: property theorems of C09 plus the source-tie theorems of the scalar decision logic regenerated from the C++ -/
import SmoothProps.C09
import SmoothProps.SrcTieLogic
