/-
  C18 — Non-mutating operations are safe to run concurrently (property theorems).

  What a theorem can carry here: the LOGIC underneath thread-safety — a non-mutating operation reads
  shared state and writes only thread-private state, except for write-once initialisation that the
  language serialises.  Model: SmoothModel/Conc.lean (interleavings of atomic steps over shared cells).
  Tie to the code: `SmoothProofs/Gen/SharedState.lean` is the inventory of every cell of
  /repo/include/smooth that can be shared behind a const interface, regenerated from the source on
  every run; the `Gen.*` theorems below are re-checked against it.
  Outside the theorems (partial): the C++ memory model, Eigen / libstdc++ internals, allocator
  thread-safety; on the implementation schedules are SAMPLED (TSan stress run), not quantified.
-/
import SmoothModel.Conc
import SmoothProofs.C18Conc
import SmoothProofs.C18Inventory
import SmoothProofs.Gen.SharedState

namespace C18
open Conc

/-- **Write-free threads are schedule independent (prefix form).**  If no thread contains a `write`
    (only `read` / `loc` / `initOnce` with the cell's own deterministic initialiser), then after EVERY
    schedule — any list of thread ids, any number of threads, complete or not — every thread is in
    exactly the state its solo run from the same initial shared state reaches after the same number
    of its own steps. -/
theorem readonly_schedule_independent_prefix (ini : Cell → Val) (threads : List (List Step)) (s0 : Shared)
    (hwf : ∀ p ∈ threads, WriteFree ini p) (sched : List Nat) (i : Nat) :
    (run sched threads s0).th i = (solo (threads.getD i []) s0 (cnt i sched)).2 :=
  run_agrees_with_solo ini threads s0 hwf sched i

/-- **Write-free threads are schedule independent.**  Under the same hypothesis, for every schedule in
    which thread `i` runs to completion, its result equals the result of the sequential (solo) run. -/
theorem readonly_schedule_independent (ini : Cell → Val) (threads : List (List Step)) (s0 : Shared)
    (hwf : ∀ p ∈ threads, WriteFree ini p) (sched : List Nat) (i : Nat)
    (hdone : (threads.getD i []).length ≤ cnt i sched) :
    result sched threads s0 i = soloResult (threads.getD i []) s0 := by
  unfold result soloResult
  rw [run_agrees_with_solo ini threads s0 hwf sched i, solo_complete _ _ _ hdone]

/-- non-vacuity: three threads that read a shared cell and race on the first use of a once-cell are
    write-free; the theorem applies to the schedule 2 0 1 1 0 2 (and to every other one). -/
example :
    let f : Unit → Val := fun _ => 7
    let threads : List (List Step) := [[.read 0, .initOnce 1 f], [.initOnce 1 f, .read 0], [.initOnce 1 f, .loc (fun l => l)]]
    (∀ p ∈ threads, WriteFree (fun _ => 7) p) ∧
      result [2, 0, 1, 1, 0, 2] threads zeroShared 0 = soloResult [.read 0, .initOnce 1 f] zeroShared ∧
      result [2, 0, 1, 1, 0, 2] threads zeroShared 0 = [7, 0] := by
  refine ⟨?_, by decide, by decide⟩
  intro p hp s hs
  simp at hp
  rcases hp with rfl | rfl | rfl <;> simp at hs <;> rcases hs with rfl | rfl <;> simp [Step.admissible]

/-- **A shared scratch cell breaks it.**  Two threads each write their argument to one shared scratch
    cell and read it back (the shape of `SubManifold::rplus` before the fix 34c8743): there is a schedule in which a
    thread obtains a result different from its sequential run. -/
theorem scratch_breaks_it :
    ∃ sched, result sched [scratchOp 0 1, scratchOp 0 2] zeroShared 0 ≠ soloResult (scratchOp 0 1) zeroShared :=
  ⟨[0, 1, 1, 0], by decide⟩

/-- the same for every cell, every pair of distinct arguments and every initial shared state -/
theorem scratch_breaks_it_general (c : Cell) (a b : Val) (hab : a ≠ b) (s0 : Shared) :
    ∃ sched, result sched [scratchOp c a, scratchOp c b] s0 0 ≠ soloResult (scratchOp c a) s0 :=
  ⟨[0, 1, 1, 0], scratch_counter_schedule c a b hab s0⟩

/-- **Lifted to the inventory.**  Any inventory entry classified `writtenByConst` yields a counter
    schedule: two threads running the const operation induced by that entry on the shared object with
    different arguments, one of them observing the other's argument. -/
theorem writtenByConst_yields_counter_schedule (e : Entry) (he : e.cls = .writtenByConst) (c : Cell) (s0 : Shared) :
    ∃ sched, result sched [e.steps c 1, e.steps c 2] s0 0 ≠ soloResult (e.steps c 1) s0 := by
  have h1 : e.steps c 1 = scratchOp c 1 := by simp [Entry.steps, he]
  have h2 : e.steps c 2 = scratchOp c 2 := by simp [Entry.steps, he]
  rw [h1, h2]
  exact scratch_breaks_it_general c 1 2 (by decide) s0

/-- **An inventory without `writtenByConst` cells is safe.**  Any number of threads, each running the
    const operation induced by the inventory (touching every cell) with its own argument: for every
    schedule every completed thread has its sequential result. -/
theorem inventory_ops_schedule_independent (inv : List Entry) (h : ∀ e ∈ inv, e.cls ≠ .writtenByConst)
    (args : List Val) (s0 : Shared) (sched : List Nat) (i : Nat)
    (hdone : ((args.map (opSteps inv 0)).getD i []).length ≤ cnt i sched) :
    result sched (args.map (opSteps inv 0)) s0 i = soloResult ((args.map (opSteps inv 0)).getD i []) s0 := by
  apply readonly_schedule_independent iniOf _ s0 _ sched i hdone
  intro p hp
  obtain ⟨a, _, rfl⟩ := List.mem_map.1 hp
  exact opSteps_writeFree inv h 0 a

namespace Gen

/-- **Tie (T2/T3).**  The inventory scanned from the current source equals the committed classified
    inventory.  A new `mutable`, a new non-constexpr static / inline / thread_local variable, or a const
    member function that assigns to an inventory cell changes the left-hand side and breaks this. -/
theorem inventory_eq_expected : C18.Gen.inventory = expectedInventory := by decide

/-- **No cell is written by const operations.**  No cell of the scanned inventory is classified
    `writtenByConst`, and no function assigns any cell after its initialisation — except `perObject`
    cells, which are mutated only inside an argument object owned by the individual call
    (`MinimizeOptions::strat`). -/
theorem no_cell_written_by_const :
    ∀ e ∈ C18.Gen.inventory, e.cls ≠ .writtenByConst ∧ (e.writers = [] ∨ e.cls = .perObject) := by decide

/-- there is no exception list: the known findings are empty (the former `SubManifold::m_calc` defect is
    fixed in the tree, and the scan no longer finds the cell) -/
theorem no_known_findings :
    knownFindings = [] ∧ ∀ e ∈ C18.Gen.inventory, e.name ≠ "SubManifold::m_calc" := by decide

/-- The const operations of the library as the scanned inventory describes them — the WHOLE inventory,
    nothing removed — are schedule independent for any number of threads and every schedule. -/
theorem scanned_ops_schedule_independent (args : List Val) (s0 : Shared) (sched : List Nat) (i : Nat)
    (hdone : ((args.map (opSteps C18.Gen.inventory 0)).getD i []).length ≤ cnt i sched) :
    result sched (args.map (opSteps C18.Gen.inventory 0)) s0 i =
      soloResult ((args.map (opSteps C18.Gen.inventory 0)).getD i []) s0 :=
  inventory_ops_schedule_independent C18.Gen.inventory (by decide) args s0 sched i hdone

/-- Sensitivity of the tie: putting the former defect back into the scanned inventory (what the scanner
    emits when a const member writes a `mutable` member) falsifies the hypothesis of the safety theorem and
    yields a counter schedule in the model. -/
theorem reintroduced_scratch_has_counter_schedule :
    let e : Entry := ⟨"SubManifold::m_calc", .mutableMember, false, .writtenByConst, ["SubManifold::rplus", "SubManifold::rminus"]⟩
    (¬ ∀ x ∈ e :: C18.Gen.inventory, x.cls ≠ .writtenByConst) ∧
      ∀ (c : Cell) (s0 : Shared), ∃ sched, result sched [e.steps c 1, e.steps c 2] s0 0 ≠ soloResult (e.steps c 1) s0 := by
  refine ⟨by decide, fun c s0 => writtenByConst_yields_counter_schedule _ rfl c s0⟩

/-- non-vacuity of `scanned_ops_schedule_independent`: 3 threads, a concrete complete schedule -/
example : (opSteps C18.Gen.inventory 0 5).length = 16 ∧
    result (List.replicate 16 2 ++ List.replicate 16 0 ++ List.replicate 16 1)
        ([5, 6, 7].map (opSteps C18.Gen.inventory 0)) zeroShared 1
      = soloResult (opSteps C18.Gen.inventory 0 6) zeroShared := by
  refine ⟨by decide, ?_⟩
  exact scanned_ops_schedule_independent [5, 6, 7] zeroShared _ 1 (by decide)

end Gen

end C18
