/-
  SrcTieBundle — `include/smooth/detail/bundle.hpp` (`BundleImpl<GsImpl...>`) and `utils::array_psum`, regenerated from
  the C++ source on every run (`SmoothModel/Gen/BundleSrc.lean`, written by tools/gen_bundle.py), ARE the hand-written
  `Bundle.psum`, `Bundle.prod`, `Bundle.bundle`, `Bundle.hessPlace` (SmoothModel/Bundle.lean) the theorems of C06 — and of
  C01–C05 for Bundles — are about.

  Shape of the statements.  The generated functions act on BUFFERS (`BundleSem.VBuf / MBuf`: total functions of the index,
  no size), with every segment length, block size and prefix-sum offset copied from the source.  A tie theorem says: for
  EVERY list of part models `Gs`, run on the buffers of model-typed inputs and on an ARBITRARY initial content `init` of
  the output, the generated function returns the model's result laid over `init`
  (`overV r init = r inside [0, size), init outside`).  Hence, all at once: every part reads its own segments, writes
  its own segment / diagonal block, every coefficient of the result is written (nothing of `init` survives inside the
  result: no missing `setZero`, no skipped part) and nothing is written outside.
  Proofs: induction over the list of parts (`BundleTie.loopV_step / loopM_step`: the loop for `p :: ps` is part 0
  followed by the loop for `ps` on the shifted buffers), `rfl` on the part functions; no arithmetic on scalars, any
  `[Scalar α]`.  The commutative short-cuts (`if constexpr (!PartImpl<i>::IsCommutative) … else setIdentity()`) are tied
  under `LieModel.ShortCut` of the parts (BaseSem.lean: the record of a commutative part holds the short-cut constants).
  The two Hessians are tied the same way (`Bundle.prodD2rExp` takes, row by row, one of the two placements — the model
  was changed to this form by this tie: it used to ADD the placements, arithmetic the C++ does not perform).

  Theorem prefix `bundle_`.  Set of translated functions: `bundle_manifest`.
-/
import SmoothProofs.BundleTie
import SmoothProofs.BundleTieHess
import SmoothProofs.C06Psum
import SmoothModel.Gen.BundleSrc
import SmoothModel.Groups

open Scalar Lin BundleSem BundleTie
set_option linter.unusedSectionVars false
set_option linter.unusedSimpArgs false
set_option linter.unusedVariables false

namespace SrcTieBundle
variable {α : Type} [Scalar α]

/-! ## 1. `utils::array_psum` and the layout constants -/

/-- the three statements of `array_psum` produce `[0, x₀, x₀+x₁, …]` -/
theorem bundle_array_psum_steps (x : List Nat) : BundleSrc.array_psum x = 0 :: partialSum x := psum_steps x

theorem scanl_eq_partialSumFrom (acc : Nat) (l : List Nat) :
    l.scanl (· + ·) acc = acc :: partialSumFrom acc l := by
  induction l generalizing acc with
  | nil => rfl
  | cons x xs ih => simp [List.scanl_cons, partialSumFrom, ih]

/-- **`utils::array_psum` is the model's `Bundle.psum`** -/
theorem bundle_array_psum (x : List Nat) : BundleSrc.array_psum x = Bundle.psum x := by
  rw [bundle_array_psum_steps, Bundle.psum_eq_scanl, scanl_eq_partialSumFrom]
  cases x with
  | nil => rfl
  | cons y ys => simp [partialSum, partialSumFrom]

/-- the three prefix-sum arrays are `Bundle.psum` of the part sizes -/
theorem bundle_psum_arrays (Gs : List (LieModel α)) :
    BundleSrc.RepSizesPsum Gs = Bundle.psum (Gs.map LieModel.rep) ∧
    BundleSrc.DofsPsum Gs = Bundle.psum (Gs.map LieModel.dof) ∧
    BundleSrc.DimsPsum Gs = Bundle.psum (Gs.map LieModel.dim) :=
  ⟨bundle_array_psum _, bundle_array_psum _, bundle_array_psum _⟩

section layout
variable (p : LieModel α) (ps : List (LieModel α)) (i : Nat)

theorem PartImpl_zero : BundleSrc.PartImpl (p :: ps) 0 = p := rfl
theorem PartImpl_succ : BundleSrc.PartImpl (p :: ps) (i + 1) = BundleSrc.PartImpl ps i := rfl
theorem sizeofPack_cons : sizeofPack (p :: ps) = sizeofPack ps + 1 := rfl

theorem RepSizes_zero : stdGet 0 (BundleSrc.RepSizes (p :: ps)) = p.rep := rfl
theorem RepSizes_succ : stdGet (i + 1) (BundleSrc.RepSizes (p :: ps)) = stdGet i (BundleSrc.RepSizes ps) := rfl
theorem Dofs_zero : stdGet 0 (BundleSrc.Dofs (p :: ps)) = p.dof := rfl
theorem Dofs_succ : stdGet (i + 1) (BundleSrc.Dofs (p :: ps)) = stdGet i (BundleSrc.Dofs ps) := rfl
theorem Dims_zero : stdGet 0 (BundleSrc.Dims (p :: ps)) = p.dim := rfl
theorem Dims_succ : stdGet (i + 1) (BundleSrc.Dims (p :: ps)) = stdGet i (BundleSrc.Dims ps) := rfl

theorem RepSizesPsum_zero : stdGet 0 (BundleSrc.RepSizesPsum (p :: ps)) = 0 := by
  simp only [BundleSrc.RepSizesPsum, bundle_array_psum_steps]; rfl
theorem RepSizesPsum_succ (h : i < sizeofPack ps) :
    stdGet (i + 1) (BundleSrc.RepSizesPsum (p :: ps)) = p.rep + stdGet i (BundleSrc.RepSizesPsum ps) := by
  simp only [BundleSrc.RepSizesPsum, bundle_array_psum_steps]
  exact get_psum_succ p.rep _ i (by simp [BundleSrc.RepSizes, sizeofPack] at *; omega)
theorem DofsPsum_zero : stdGet 0 (BundleSrc.DofsPsum (p :: ps)) = 0 := by
  simp only [BundleSrc.DofsPsum, bundle_array_psum_steps]; rfl
theorem DofsPsum_succ (h : i < sizeofPack ps) :
    stdGet (i + 1) (BundleSrc.DofsPsum (p :: ps)) = p.dof + stdGet i (BundleSrc.DofsPsum ps) := by
  simp only [BundleSrc.DofsPsum, bundle_array_psum_steps]
  exact get_psum_succ p.dof _ i (by simp [BundleSrc.Dofs, sizeofPack] at *; omega)
theorem DimsPsum_zero : stdGet 0 (BundleSrc.DimsPsum (p :: ps)) = 0 := by
  simp only [BundleSrc.DimsPsum, bundle_array_psum_steps]; rfl
theorem DimsPsum_succ (h : i < sizeofPack ps) :
    stdGet (i + 1) (BundleSrc.DimsPsum (p :: ps)) = p.dim + stdGet i (BundleSrc.DimsPsum ps) := by
  simp only [BundleSrc.DimsPsum, bundle_array_psum_steps]
  exact get_psum_succ p.dim _ i (by simp [BundleSrc.Dims, sizeofPack] at *; omega)

theorem RepSize_cons : BundleSrc.RepSize (p :: ps) = p.rep + BundleSrc.RepSize ps := by
  simp only [BundleSrc.RepSize, BundleSrc.RepSizesPsum, bundle_array_psum_steps]; exact back_psum_cons _ _
theorem Dof_cons : BundleSrc.Dof (p :: ps) = p.dof + BundleSrc.Dof ps := by
  simp only [BundleSrc.Dof, BundleSrc.DofsPsum, bundle_array_psum_steps]; exact back_psum_cons _ _
theorem Dim_cons : BundleSrc.Dim (p :: ps) = p.dim + BundleSrc.Dim ps := by
  simp only [BundleSrc.Dim, BundleSrc.DimsPsum, bundle_array_psum_steps]; exact back_psum_cons _ _
end layout

/-- **`RepSize = RepSizesPsum.back()`, `Dof`, `Dim`, `IsCommutative`, `BundleSize`** are the sizes / the flag of the
    model `Bundle.bundle Gs`, for every list of parts -/
theorem bundle_RepSize (Gs : List (LieModel α)) : BundleSrc.RepSize Gs = (Bundle.bundle Gs).rep := by
  induction Gs with
  | nil => rfl
  | cons p ps ih => rw [RepSize_cons, ih]; rfl
theorem bundle_Dof (Gs : List (LieModel α)) : BundleSrc.Dof Gs = (Bundle.bundle Gs).dof := by
  induction Gs with
  | nil => rfl
  | cons p ps ih => rw [Dof_cons, ih]; rfl
theorem bundle_Dim (Gs : List (LieModel α)) : BundleSrc.Dim Gs = (Bundle.bundle Gs).dim := by
  induction Gs with
  | nil => rfl
  | cons p ps ih => rw [Dim_cons, ih]; rfl
theorem bundle_IsCommutative (Gs : List (LieModel α)) : BundleSrc.IsCommutative Gs = (Bundle.bundle Gs).comm := by
  induction Gs with
  | nil => rfl
  | cons p ps ih =>
    show (p.comm && foldAnd (ps.map (fun G => G.comm))) = (p.comm && (Bundle.bundle ps).comm)
    rw [← ih]; rfl
theorem bundle_BundleSize (Gs : List (LieModel α)) : BundleSrc.BundleSize Gs = Gs.length := rfl
/-- `PartImpl<Idx>` is part `Idx` of the list; `RepSizes / Dofs / Dims` list the parts' sizes -/
theorem bundle_PartImpl (Gs : List (LieModel α)) (i : Nat) (h : i < Gs.length) : BundleSrc.PartImpl Gs i = Gs[i] := by
  induction Gs generalizing i with
  | nil => simp at h
  | cons p ps ih =>
    cases i with
    | zero => rfl
    | succ j => exact ih j (by simpa using h)
theorem bundle_size_arrays (Gs : List (LieModel α)) :
    BundleSrc.RepSizes Gs = Gs.map LieModel.rep ∧ BundleSrc.Dofs Gs = Gs.map LieModel.dof ∧
    BundleSrc.Dims Gs = Gs.map LieModel.dim := ⟨rfl, rfl, rfl⟩

/-- the set of translated functions, and what is pinned instead -/
theorem bundle_manifest :
    BundleSrc.manifest = ["setIdentity", "matrix", "composition", "inverse", "log", "Ad", "exp", "hat", "vee", "ad",
      "dr_exp", "dr_expinv", "d2r_exp", "d2r_expinv"] ∧ BundleSrc.notTranslated = ["setRandom"] := ⟨rfl, rfl⟩

/-- the `Ref` aliases (sizes of the parameters; `setZero()` clears exactly these) -/
theorem bundle_refAliases : BundleSrc.refAliases =
    [("GRefIn", "RepSize", "1", false), ("GRefOut", "RepSize", "1", true), ("TRefIn", "Dof", "1", false),
     ("TRefOut", "Dof", "1", true), ("TMapRefIn", "Dof", "Dof", false), ("TMapRefOut", "Dof", "Dof", true),
     ("THessRefOut", "Dof", "Dof * Dof", true), ("MRefIn", "Dim", "Dim", false), ("MRefOut", "Dim", "Dim", true)] := rfl

/-! ## 2. Vector-valued functions -/

theorem overV_nil (v : Vec α 0) (init : VBuf α) : overV v init = init := by
  funext k
  simp [overV, copySegment]

section step
variable (p : LieModel α) (ps : List (LieModel α))

theorem bundle_setIdentity_step
    (ih : ∀ init : VBuf α, BundleSrc.setIdentity ps init = overV (Bundle.bundle ps).identity init) (init : VBuf α) :
    BundleSrc.setIdentity (p :: ps) init = overV (vcat p.identity (Bundle.bundle ps).identity) init := by
  simp only [BundleSrc.setIdentity, sizeofPack_cons]
  rw [loopV_step p.rep (sizeofPack ps) _ (fun i g_out => BundleSrc.setIdentity_body ps i g_out)]
  · have e : staticFor (sizeofPack ps) (fun i g_out => BundleSrc.setIdentity_body ps i g_out)
        = overV (Bundle.bundle ps).identity := by funext o; exact ih o
    rw [e]
    simp only [BundleSrc.setIdentity_body, PartImpl_zero, RepSizes_zero, RepSizesPsum_zero]
    exact liftV_overV _ _ init
  · intro i hi
    funext g_out
    simp only [BundleSrc.setIdentity_body, RepSizes_succ, RepSizesPsum_succ p ps i hi, copySegment_shift]
    rfl

theorem bundle_composition_step
    (ih : ∀ (a b : Vec α (Bundle.bundle ps).rep) (init : VBuf α),
      BundleSrc.composition ps (ofVec a) (ofVec b) init = overV ((Bundle.bundle ps).composition a b) init)
    (a b : Vec α (p.rep + (Bundle.bundle ps).rep)) (init : VBuf α) :
    BundleSrc.composition (p :: ps) (ofVec a) (ofVec b) init
      = overV (Bundle.prodComposition p (Bundle.bundle ps) a b) init := by
  simp only [BundleSrc.composition, sizeofPack_cons]
  rw [loopV_step p.rep (sizeofPack ps) _
    (fun i g_out => BundleSrc.composition_body ps i (ofVec (Bundle.snd a)) (ofVec (Bundle.snd b)) g_out)]
  · have e : staticFor (sizeofPack ps)
        (fun i g_out => BundleSrc.composition_body ps i (ofVec (Bundle.snd a)) (ofVec (Bundle.snd b)) g_out)
        = overV ((Bundle.bundle ps).composition (Bundle.snd a) (Bundle.snd b)) := by funext o; exact ih _ _ o
    rw [e]
    simp only [BundleSrc.composition_body, PartImpl_zero, RepSizes_zero, RepSizesPsum_zero, asVec_fst]
    exact liftV_overV _ _ init
  · intro i hi
    funext g_out
    simp only [BundleSrc.composition_body, RepSizes_succ, RepSizesPsum_succ p ps i hi,
      viewSegment_shift, copySegment_shift, shiftV_ofVec]
    rfl

theorem bundle_inverse_step
    (ih : ∀ (g : Vec α (Bundle.bundle ps).rep) (init : VBuf α),
      BundleSrc.inverse ps (ofVec g) init = overV ((Bundle.bundle ps).inverse g) init)
    (g : Vec α (p.rep + (Bundle.bundle ps).rep)) (init : VBuf α) :
    BundleSrc.inverse (p :: ps) (ofVec g) init = overV (Bundle.prodInverse p (Bundle.bundle ps) g) init := by
  simp only [BundleSrc.inverse, sizeofPack_cons]
  rw [loopV_step p.rep (sizeofPack ps) _ (fun i g_out => BundleSrc.inverse_body ps i (ofVec (Bundle.snd g)) g_out)]
  · have e : staticFor (sizeofPack ps) (fun i g_out => BundleSrc.inverse_body ps i (ofVec (Bundle.snd g)) g_out)
        = overV ((Bundle.bundle ps).inverse (Bundle.snd g)) := by funext o; exact ih _ o
    rw [e]
    simp only [BundleSrc.inverse_body, PartImpl_zero, RepSizes_zero, RepSizesPsum_zero, asVec_fst]
    exact liftV_overV _ _ init
  · intro i hi
    funext g_out
    simp only [BundleSrc.inverse_body, RepSizes_succ, RepSizesPsum_succ p ps i hi,
      viewSegment_shift, copySegment_shift, shiftV_ofVec]
    rfl

theorem bundle_log_step
    (ih : ∀ (g : Vec α (Bundle.bundle ps).rep) (init : VBuf α),
      BundleSrc.log ps (ofVec g) init = overV ((Bundle.bundle ps).log g) init)
    (g : Vec α (p.rep + (Bundle.bundle ps).rep)) (init : VBuf α) :
    BundleSrc.log (p :: ps) (ofVec g) init = overV (Bundle.prodLog p (Bundle.bundle ps) g) init := by
  simp only [BundleSrc.log, sizeofPack_cons]
  rw [loopV_step p.dof (sizeofPack ps) _ (fun i a_out => BundleSrc.log_body ps i (ofVec (Bundle.snd g)) a_out)]
  · have e : staticFor (sizeofPack ps) (fun i a_out => BundleSrc.log_body ps i (ofVec (Bundle.snd g)) a_out)
        = overV ((Bundle.bundle ps).log (Bundle.snd g)) := by funext o; exact ih _ o
    rw [e]
    simp only [BundleSrc.log_body, PartImpl_zero, RepSizes_zero, RepSizesPsum_zero, Dofs_zero, DofsPsum_zero, asVec_fst]
    exact liftV_overV _ _ init
  · intro i hi
    funext a_out
    simp only [BundleSrc.log_body, RepSizes_succ, RepSizesPsum_succ p ps i hi, Dofs_succ, DofsPsum_succ p ps i hi,
      viewSegment_shift, copySegment_shift, shiftV_ofVec]
    rfl

theorem bundle_exp_step
    (ih : ∀ (a : Vec α (Bundle.bundle ps).dof) (init : VBuf α),
      BundleSrc.exp ps (ofVec a) init = overV ((Bundle.bundle ps).exp a) init)
    (a : Vec α (p.dof + (Bundle.bundle ps).dof)) (init : VBuf α) :
    BundleSrc.exp (p :: ps) (ofVec a) init = overV (Bundle.prodExp p (Bundle.bundle ps) a) init := by
  simp only [BundleSrc.exp, sizeofPack_cons]
  rw [loopV_step p.rep (sizeofPack ps) _ (fun i g_out => BundleSrc.exp_body ps i (ofVec (Bundle.snd a)) g_out)]
  · have e : staticFor (sizeofPack ps) (fun i g_out => BundleSrc.exp_body ps i (ofVec (Bundle.snd a)) g_out)
        = overV ((Bundle.bundle ps).exp (Bundle.snd a)) := by funext o; exact ih _ o
    rw [e]
    simp only [BundleSrc.exp_body, PartImpl_zero, RepSizes_zero, RepSizesPsum_zero, Dofs_zero, DofsPsum_zero, asVec_fst]
    exact liftV_overV _ _ init
  · intro i hi
    funext g_out
    simp only [BundleSrc.exp_body, RepSizes_succ, RepSizesPsum_succ p ps i hi, Dofs_succ, DofsPsum_succ p ps i hi,
      viewSegment_shift, copySegment_shift, shiftV_ofVec]
    rfl

theorem bundle_vee_step
    (ih : ∀ (M : Mat α (Bundle.bundle ps).dim (Bundle.bundle ps).dim) (init : VBuf α),
      BundleSrc.vee ps (ofMat M) init = overV ((Bundle.bundle ps).vee M) init)
    (M : Mat α (p.dim + (Bundle.bundle ps).dim) (p.dim + (Bundle.bundle ps).dim)) (init : VBuf α) :
    BundleSrc.vee (p :: ps) (ofMat M) init = overV (Bundle.prodVee p (Bundle.bundle ps) M) init := by
  simp only [BundleSrc.vee, sizeofPack_cons]
  rw [loopV_step p.dof (sizeofPack ps) _ (fun i a_out => BundleSrc.vee_body ps i (ofMat (Bundle.br M)) a_out)]
  · have e : staticFor (sizeofPack ps) (fun i a_out => BundleSrc.vee_body ps i (ofMat (Bundle.br M)) a_out)
        = overV ((Bundle.bundle ps).vee (Bundle.br M)) := by funext o; exact ih _ o
    rw [e]
    simp only [BundleSrc.vee_body, PartImpl_zero, Dims_zero, DimsPsum_zero, Dofs_zero, DofsPsum_zero, asMat_tl]
    exact liftV_overV _ _ init
  · intro i hi
    funext a_out
    simp only [BundleSrc.vee_body, Dims_succ, DimsPsum_succ p ps i hi, Dofs_succ, DofsPsum_succ p ps i hi,
      viewBlock_shift, copySegment_shift, shiftM_ofMat]
    rfl

end step

/-- **`BundleImpl::setIdentity`** writes the model's identity element -/
theorem bundle_setIdentity (Gs : List (LieModel α)) (init : VBuf α) :
    BundleSrc.setIdentity Gs init = overV (Bundle.bundle Gs).identity init := by
  induction Gs generalizing init with
  | nil => exact (overV_nil _ init).symm
  | cons p ps ih => exact bundle_setIdentity_step p ps ih init

/-- **`BundleImpl::composition`** -/
theorem bundle_composition (Gs : List (LieModel α)) (a b : Vec α (Bundle.bundle Gs).rep) (init : VBuf α) :
    BundleSrc.composition Gs (ofVec a) (ofVec b) init = overV ((Bundle.bundle Gs).composition a b) init := by
  induction Gs generalizing init with
  | nil => exact (overV_nil _ init).symm
  | cons p ps ih => exact bundle_composition_step p ps ih a b init

/-- **`BundleImpl::inverse`** -/
theorem bundle_inverse (Gs : List (LieModel α)) (g : Vec α (Bundle.bundle Gs).rep) (init : VBuf α) :
    BundleSrc.inverse Gs (ofVec g) init = overV ((Bundle.bundle Gs).inverse g) init := by
  induction Gs generalizing init with
  | nil => exact (overV_nil _ init).symm
  | cons p ps ih => exact bundle_inverse_step p ps ih g init

/-- **`BundleImpl::log`** -/
theorem bundle_log (Gs : List (LieModel α)) (g : Vec α (Bundle.bundle Gs).rep) (init : VBuf α) :
    BundleSrc.log Gs (ofVec g) init = overV ((Bundle.bundle Gs).log g) init := by
  induction Gs generalizing init with
  | nil => exact (overV_nil _ init).symm
  | cons p ps ih => exact bundle_log_step p ps ih g init

/-- **`BundleImpl::exp`** -/
theorem bundle_exp (Gs : List (LieModel α)) (a : Vec α (Bundle.bundle Gs).dof) (init : VBuf α) :
    BundleSrc.exp Gs (ofVec a) init = overV ((Bundle.bundle Gs).exp a) init := by
  induction Gs generalizing init with
  | nil => exact (overV_nil _ init).symm
  | cons p ps ih => exact bundle_exp_step p ps ih a init

/-- **`BundleImpl::vee`** (any input matrix: only the diagonal blocks are read) -/
theorem bundle_vee (Gs : List (LieModel α)) (M : Mat α (Bundle.bundle Gs).dim (Bundle.bundle Gs).dim) (init : VBuf α) :
    BundleSrc.vee Gs (ofMat M) init = overV ((Bundle.bundle Gs).vee M) init := by
  induction Gs generalizing init with
  | nil => exact (overV_nil _ init).symm
  | cons p ps ih => exact bundle_vee_step p ps ih M init

/-! ## 3. Matrix-valued functions: block diagonal, zero elsewhere -/

theorem overM_nil (M : Mat α 0 0) (init : MBuf α) : overM M init = init := by
  funext r c
  simp [overM, copyBlock]

theorem setZeroM_zero (init : MBuf α) : setZeroM 0 0 init = init := by
  funext r c
  simp [setZeroM]

section stepM
variable (p : LieModel α) (ps : List (LieModel α))

theorem bundle_matrix_step
    (ih : ∀ (g : Vec α (Bundle.bundle ps).rep) (init : MBuf α),
      BundleSrc.matrix ps (ofVec g) init = overM ((Bundle.bundle ps).matrix g) init)
    (g : Vec α (p.rep + (Bundle.bundle ps).rep)) (init : MBuf α) :
    BundleSrc.matrix (p :: ps) (ofVec g) init = overM (Bundle.prodMatrix p (Bundle.bundle ps) g) init := by
  have e0 : ∀ W, BundleSrc.matrix_body (p :: ps) 0 (ofVec g) W
      = copyBlock W p.dim p.dim 0 0 (ofMat (p.matrix (Bundle.fst g))) := fun W => by
    simp only [BundleSrc.matrix_body, PartImpl_zero, Dims_zero, DimsPsum_zero, RepSizes_zero, RepSizesPsum_zero, asVec_fst]
  simp only [BundleSrc.matrix, sizeofPack_cons, Dim_cons, bundle_Dim ps]
  rw [loopM_step p.dim p.dim (sizeofPack ps) _ (fun i m_out => BundleSrc.matrix_body ps i (ofVec (Bundle.snd g)) m_out)]
  · simp only [e0]
    exact stepM_bdiag _ _ _ (fun W => by
      have := ih (Bundle.snd g) W
      simpa only [BundleSrc.matrix, bundle_Dim] using this) init
  · intro i hi
    funext m_out
    simp only [BundleSrc.matrix_body, Dims_succ, DimsPsum_succ p ps i hi, RepSizes_succ, RepSizesPsum_succ p ps i hi,
      viewSegment_shift, copyBlock_shift, shiftV_ofVec]
    rfl

theorem bundle_hat_step
    (ih : ∀ (a : Vec α (Bundle.bundle ps).dof) (init : MBuf α),
      BundleSrc.hat ps (ofVec a) init = overM ((Bundle.bundle ps).hat a) init)
    (a : Vec α (p.dof + (Bundle.bundle ps).dof)) (init : MBuf α) :
    BundleSrc.hat (p :: ps) (ofVec a) init = overM (Bundle.prodHat p (Bundle.bundle ps) a) init := by
  have e0 : ∀ W, BundleSrc.hat_body (p :: ps) 0 (ofVec a) W
      = copyBlock W p.dim p.dim 0 0 (ofMat (p.hat (Bundle.fst a))) := fun W => by
    simp only [BundleSrc.hat_body, PartImpl_zero, Dims_zero, DimsPsum_zero, Dofs_zero, DofsPsum_zero, asVec_fst]
  simp only [BundleSrc.hat, sizeofPack_cons, Dim_cons, bundle_Dim ps]
  rw [loopM_step p.dim p.dim (sizeofPack ps) _ (fun i A_out => BundleSrc.hat_body ps i (ofVec (Bundle.snd a)) A_out)]
  · simp only [e0]
    exact stepM_bdiag _ _ _ (fun W => by
      have := ih (Bundle.snd a) W
      simpa only [BundleSrc.hat, bundle_Dim] using this) init
  · intro i hi
    funext A_out
    simp only [BundleSrc.hat_body, Dims_succ, DimsPsum_succ p ps i hi, Dofs_succ, DofsPsum_succ p ps i hi,
      viewSegment_shift, copyBlock_shift, shiftV_ofVec]
    rfl

theorem bundle_Ad_step (hp : p.ShortCut)
    (ih : ∀ (g : Vec α (Bundle.bundle ps).rep) (init : MBuf α),
      BundleSrc.Ad ps (ofVec g) init = overM ((Bundle.bundle ps).Ad g) init)
    (g : Vec α (p.rep + (Bundle.bundle ps).rep)) (init : MBuf α) :
    BundleSrc.Ad (p :: ps) (ofVec g) init = overM (Bundle.prodAd p (Bundle.bundle ps) g) init := by
  have e0 : ∀ W, BundleSrc.Ad_body (p :: ps) 0 (ofVec g) W
      = copyBlock W p.dof p.dof 0 0 (ofMat (p.Ad (Bundle.fst g))) := fun W => by
    simp only [BundleSrc.Ad_body, PartImpl_zero, Dofs_zero, DofsPsum_zero, RepSizes_zero, RepSizesPsum_zero, asVec_fst]
    cases hc : p.comm
    · simp only [Bool.not_false, if_true]
    · simp only [Bool.not_true, Bool.false_eq_true, if_false, copyBlock_identBuf, hp.Ad hc]
  have hF : ∀ W, staticFor (sizeofPack ps) (fun i A_out => BundleSrc.Ad_body ps i (ofVec (Bundle.snd g)) A_out)
      (setZeroM (Bundle.bundle ps).dof (Bundle.bundle ps).dof W) = overM ((Bundle.bundle ps).Ad (Bundle.snd g)) W := fun W => by
    have := ih (Bundle.snd g) W
    simpa only [BundleSrc.Ad, bundle_Dof] using this
  simp only [BundleSrc.Ad, sizeofPack_cons, Dof_cons, bundle_Dof ps]
  rw [loopM_step p.dof p.dof (sizeofPack ps) _ (fun i A_out => BundleSrc.Ad_body ps i (ofVec (Bundle.snd g)) A_out)]
  · simp only [e0]
    exact stepM_bdiag _ _ _ hF init
  · intro i hi
    funext A_out
    simp only [BundleSrc.Ad_body, Dofs_succ, DofsPsum_succ p ps i hi, RepSizes_succ, RepSizesPsum_succ p ps i hi,
      viewSegment_shift, copyBlock_shift, shiftV_ofVec]
    show (if (!(BundleSrc.PartImpl ps i).comm) = true then _ else _) = _
    cases (BundleSrc.PartImpl ps i).comm <;> rfl

theorem bundle_dr_exp_step (hp : p.ShortCut)
    (ih : ∀ (a : Vec α (Bundle.bundle ps).dof) (init : MBuf α),
      BundleSrc.dr_exp ps (ofVec a) init = overM ((Bundle.bundle ps).dr_exp a) init)
    (a : Vec α (p.dof + (Bundle.bundle ps).dof)) (init : MBuf α) :
    BundleSrc.dr_exp (p :: ps) (ofVec a) init = overM (Bundle.prodDrExp p (Bundle.bundle ps) a) init := by
  have e0 : ∀ W, BundleSrc.dr_exp_body (p :: ps) 0 (ofVec a) W
      = copyBlock W p.dof p.dof 0 0 (ofMat (p.dr_exp (Bundle.fst a))) := fun W => by
    simp only [BundleSrc.dr_exp_body, PartImpl_zero, Dofs_zero, DofsPsum_zero, asVec_fst]
    cases hc : p.comm
    · simp only [Bool.not_false, if_true]
    · simp only [Bool.not_true, Bool.false_eq_true, if_false, copyBlock_identBuf, hp.dr_exp hc]
  have hF : ∀ W, staticFor (sizeofPack ps) (fun i A_out => BundleSrc.dr_exp_body ps i (ofVec (Bundle.snd a)) A_out)
      (setZeroM (Bundle.bundle ps).dof (Bundle.bundle ps).dof W) = overM ((Bundle.bundle ps).dr_exp (Bundle.snd a)) W := fun W => by
    have := ih (Bundle.snd a) W
    simpa only [BundleSrc.dr_exp, bundle_Dof] using this
  simp only [BundleSrc.dr_exp, sizeofPack_cons, Dof_cons, bundle_Dof ps]
  rw [loopM_step p.dof p.dof (sizeofPack ps) _ (fun i A_out => BundleSrc.dr_exp_body ps i (ofVec (Bundle.snd a)) A_out)]
  · simp only [e0]
    exact stepM_bdiag _ _ _ hF init
  · intro i hi
    funext A_out
    simp only [BundleSrc.dr_exp_body, Dofs_succ, DofsPsum_succ p ps i hi, viewSegment_shift, copyBlock_shift, shiftV_ofVec]
    show (if (!(BundleSrc.PartImpl ps i).comm) = true then _ else _) = _
    cases (BundleSrc.PartImpl ps i).comm <;> rfl

theorem bundle_dr_expinv_step (hp : p.ShortCut)
    (ih : ∀ (a : Vec α (Bundle.bundle ps).dof) (init : MBuf α),
      BundleSrc.dr_expinv ps (ofVec a) init = overM ((Bundle.bundle ps).dr_expinv a) init)
    (a : Vec α (p.dof + (Bundle.bundle ps).dof)) (init : MBuf α) :
    BundleSrc.dr_expinv (p :: ps) (ofVec a) init = overM (Bundle.prodDrExpinv p (Bundle.bundle ps) a) init := by
  have e0 : ∀ W, BundleSrc.dr_expinv_body (p :: ps) 0 (ofVec a) W
      = copyBlock W p.dof p.dof 0 0 (ofMat (p.dr_expinv (Bundle.fst a))) := fun W => by
    simp only [BundleSrc.dr_expinv_body, PartImpl_zero, Dofs_zero, DofsPsum_zero, asVec_fst]
    cases hc : p.comm
    · simp only [Bool.not_false, if_true]
    · simp only [Bool.not_true, Bool.false_eq_true, if_false, copyBlock_identBuf, hp.dr_expinv hc]
  have hF : ∀ W, staticFor (sizeofPack ps) (fun i A_out => BundleSrc.dr_expinv_body ps i (ofVec (Bundle.snd a)) A_out)
      (setZeroM (Bundle.bundle ps).dof (Bundle.bundle ps).dof W) = overM ((Bundle.bundle ps).dr_expinv (Bundle.snd a)) W := fun W => by
    have := ih (Bundle.snd a) W
    simpa only [BundleSrc.dr_expinv, bundle_Dof] using this
  simp only [BundleSrc.dr_expinv, sizeofPack_cons, Dof_cons, bundle_Dof ps]
  rw [loopM_step p.dof p.dof (sizeofPack ps) _ (fun i A_out => BundleSrc.dr_expinv_body ps i (ofVec (Bundle.snd a)) A_out)]
  · simp only [e0]
    exact stepM_bdiag _ _ _ hF init
  · intro i hi
    funext A_out
    simp only [BundleSrc.dr_expinv_body, Dofs_succ, DofsPsum_succ p ps i hi, viewSegment_shift, copyBlock_shift, shiftV_ofVec]
    show (if (!(BundleSrc.PartImpl ps i).comm) = true then _ else _) = _
    cases (BundleSrc.PartImpl ps i).comm <;> rfl

theorem bundle_ad_step (hp : p.ShortCut)
    (ih : ∀ (a : Vec α (Bundle.bundle ps).dof) (init : MBuf α),
      BundleSrc.ad ps (ofVec a) init = overM ((Bundle.bundle ps).ad a) init)
    (a : Vec α (p.dof + (Bundle.bundle ps).dof)) (init : MBuf α) :
    BundleSrc.ad (p :: ps) (ofVec a) init = overM (Bundle.prodad p (Bundle.bundle ps) a) init := by
  -- a commutative part writes nothing: its block of the zeroed output IS the model's `ad = 0`
  have e0 : BundleSrc.ad_body (p :: ps) 0 (ofVec a)
        (setZeroM (p.dof + (Bundle.bundle ps).dof) (p.dof + (Bundle.bundle ps).dof) init)
      = copyBlock (setZeroM (p.dof + (Bundle.bundle ps).dof) (p.dof + (Bundle.bundle ps).dof) init) p.dof p.dof 0 0
          (ofMat (p.ad (Bundle.fst a))) := by
    simp only [BundleSrc.ad_body, PartImpl_zero, Dofs_zero, DofsPsum_zero, asVec_fst]
    cases hc : p.comm
    · simp only [Bool.not_false, if_true]
    · simp only [Bool.not_true, Bool.false_eq_true, if_false, hp.ad hc, copyBlock_mzero]
  have hF : ∀ W, staticFor (sizeofPack ps) (fun i A_out => BundleSrc.ad_body ps i (ofVec (Bundle.snd a)) A_out)
      (setZeroM (Bundle.bundle ps).dof (Bundle.bundle ps).dof W) = overM ((Bundle.bundle ps).ad (Bundle.snd a)) W := fun W => by
    have := ih (Bundle.snd a) W
    simpa only [BundleSrc.ad, bundle_Dof] using this
  simp only [BundleSrc.ad, sizeofPack_cons, Dof_cons, bundle_Dof ps]
  rw [loopM_step p.dof p.dof (sizeofPack ps) _ (fun i A_out => BundleSrc.ad_body ps i (ofVec (Bundle.snd a)) A_out)]
  · simp only [e0]
    exact stepM_bdiag _ _ _ hF init
  · intro i hi
    funext A_out
    simp only [BundleSrc.ad_body, Dofs_succ, DofsPsum_succ p ps i hi, viewSegment_shift, copyBlock_shift, shiftV_ofVec]
    show (if (!(BundleSrc.PartImpl ps i).comm) = true then _ else _) = _
    cases (BundleSrc.PartImpl ps i).comm
    · rfl
    · funext r c
      by_cases h : r < p.dof ∨ c < p.dof
      · simp [BundleTie.liftM, h]
      · have h' : ¬ r < p.dof ∧ ¬ c < p.dof := by simpa [not_or] using h
        simp only [BundleTie.liftM, h, if_false, BundleTie.shiftM, Bool.not_true, Bool.false_eq_true]
        congr 1 <;> omega

end stepM

/-- **`BundleImpl::matrix`** -/
theorem bundle_matrix (Gs : List (LieModel α)) (g : Vec α (Bundle.bundle Gs).rep) (init : MBuf α) :
    BundleSrc.matrix Gs (ofVec g) init = overM ((Bundle.bundle Gs).matrix g) init := by
  induction Gs generalizing init with
  | nil => exact (setZeroM_zero init).trans (overM_nil _ init).symm
  | cons p ps ih => exact bundle_matrix_step p ps ih g init

/-- **`BundleImpl::hat`** -/
theorem bundle_hat (Gs : List (LieModel α)) (a : Vec α (Bundle.bundle Gs).dof) (init : MBuf α) :
    BundleSrc.hat Gs (ofVec a) init = overM ((Bundle.bundle Gs).hat a) init := by
  induction Gs generalizing init with
  | nil => exact (setZeroM_zero init).trans (overM_nil _ init).symm
  | cons p ps ih => exact bundle_hat_step p ps ih a init

/-- **`BundleImpl::Ad`**: the part's `Ad` on the diagonal, the identity block for a commutative part -/
theorem bundle_Ad (Gs : List (LieModel α)) (hs : ∀ G ∈ Gs, G.ShortCut) (g : Vec α (Bundle.bundle Gs).rep) (init : MBuf α) :
    BundleSrc.Ad Gs (ofVec g) init = overM ((Bundle.bundle Gs).Ad g) init := by
  induction Gs generalizing init with
  | nil => exact (setZeroM_zero init).trans (overM_nil _ init).symm
  | cons p ps ih =>
    exact bundle_Ad_step p ps (hs p (List.mem_cons_self ..)) (ih (fun G hG => hs G (List.mem_cons_of_mem _ hG))) g init

/-- **`BundleImpl::ad`**: the part's `ad`, nothing written (zero block) for a commutative part -/
theorem bundle_ad (Gs : List (LieModel α)) (hs : ∀ G ∈ Gs, G.ShortCut) (a : Vec α (Bundle.bundle Gs).dof) (init : MBuf α) :
    BundleSrc.ad Gs (ofVec a) init = overM ((Bundle.bundle Gs).ad a) init := by
  induction Gs generalizing init with
  | nil => exact (setZeroM_zero init).trans (overM_nil _ init).symm
  | cons p ps ih =>
    exact bundle_ad_step p ps (hs p (List.mem_cons_self ..)) (ih (fun G hG => hs G (List.mem_cons_of_mem _ hG))) a init

/-- **`BundleImpl::dr_exp`** -/
theorem bundle_dr_exp (Gs : List (LieModel α)) (hs : ∀ G ∈ Gs, G.ShortCut) (a : Vec α (Bundle.bundle Gs).dof) (init : MBuf α) :
    BundleSrc.dr_exp Gs (ofVec a) init = overM ((Bundle.bundle Gs).dr_exp a) init := by
  induction Gs generalizing init with
  | nil => exact (setZeroM_zero init).trans (overM_nil _ init).symm
  | cons p ps ih =>
    exact bundle_dr_exp_step p ps (hs p (List.mem_cons_self ..)) (ih (fun G hG => hs G (List.mem_cons_of_mem _ hG))) a init

/-- **`BundleImpl::dr_expinv`** -/
theorem bundle_dr_expinv (Gs : List (LieModel α)) (hs : ∀ G ∈ Gs, G.ShortCut) (a : Vec α (Bundle.bundle Gs).dof) (init : MBuf α) :
    BundleSrc.dr_expinv Gs (ofVec a) init = overM ((Bundle.bundle Gs).dr_expinv a) init := by
  induction Gs generalizing init with
  | nil => exact (setZeroM_zero init).trans (overM_nil _ init).symm
  | cons p ps ih =>
    exact bundle_dr_expinv_step p ps (hs p (List.mem_cons_self ..)) (ih (fun G hG => hs G (List.mem_cons_of_mem _ hG))) a init

/-! ## 4. Hessians: `H[Bi + r, Dof·(Bi + j) + Bi + k] = Hi[r, Di·j + k]` for every non-commutative part, zero elsewhere -/

section hess
variable (sel : (G : LieModel α) → Vec α G.dof → Mat α G.dof (G.dof * G.dof))

/-- the loop body of `d2r_exp` / `d2r_expinv` with the stride `Dof` and a start offset as parameters -/
def hbodyG (D off : Nat) (Gs : List (LieModel α)) (i : Nat) (a : VBuf α) (H : MBuf α) : MBuf α :=
  hessW D (off + stdGet i (BundleSrc.DofsPsum Gs)) (stdGet i (BundleSrc.Dofs Gs))
    (ofMat (sel (BundleSrc.PartImpl Gs i)
      (asVec (viewSegment a (stdGet i (BundleSrc.Dofs Gs)) (stdGet i (BundleSrc.DofsPsum Gs))))))
    (BundleSrc.PartImpl Gs i).comm H

theorem hbodyG_zero (D off : Nat) (p : LieModel α) (ps : List (LieModel α)) (a : VBuf α) (H : MBuf α) :
    hbodyG sel D off (p :: ps) 0 a H
      = hessW D off p.dof (ofMat (sel p (asVec (viewSegment a p.dof 0)))) p.comm H := by
  simp only [hbodyG, PartImpl_zero, Dofs_zero, DofsPsum_zero, Nat.add_zero]

theorem hbodyG_succ (D off : Nat) (p : LieModel α) (ps : List (LieModel α)) (i : Nat) (hi : i < sizeofPack ps)
    (a : VBuf α) (H : MBuf α) :
    hbodyG sel D off (p :: ps) (i + 1) a H = hbodyG sel D (off + p.dof) ps i (shiftV p.dof a) H := by
  simp only [hbodyG, Dofs_succ, DofsPsum_succ p ps i hi, viewSegment_shift, Nat.add_assoc]
  rfl

theorem hloop_eq (D : Nat) (Gs : List (LieModel α)) (off : Nat) (a : VBuf α) (H : MBuf α) :
    staticFor (sizeofPack Gs) (fun i H => hbodyG sel D off Gs i a H) H = hessLoopG D sel off Gs a H := by
  induction Gs generalizing off a H with
  | nil => rfl
  | cons p ps ih =>
    simp only [sizeofPack_cons, staticFor]
    rw [staticFor_congr (sizeofPack ps) _ (fun i H => hbodyG sel D (off + p.dof) ps i (shiftV p.dof a) H)
      (fun i hi => by funext H; exact hbodyG_succ sel D off p ps i hi a H), ih, hbodyG_zero]
    rfl

/-- the whole function: zero the `Dof × Dof²` output, then run the part loop with stride `Dof` from offset 0 -/
theorem hess_total (hsum : RowPlacements sel) (Gs : List (LieModel α))
    (hsc : ∀ G ∈ Gs, G.comm = true → ∀ a, sel G a = mzero _ _) (a : Vec α (Bundle.bundle Gs).dof) (init : MBuf α) :
    hessLoopG (Bundle.bundle Gs).dof sel 0 Gs (ofVec a)
        (setZeroM (Bundle.bundle Gs).dof ((Bundle.bundle Gs).dof * (Bundle.bundle Gs).dof) init)
      = overM (sel (Bundle.bundle Gs) a) init := by
  funext R C
  have sp := hessLoopG_spec sel hsum Gs hsc (Bundle.bundle Gs).dof 0 a
    (setZeroM (Bundle.bundle Gs).dof ((Bundle.bundle Gs).dof * (Bundle.bundle Gs).dof) init) R C (by omega)
  by_cases h : R < (Bundle.bundle Gs).dof ∧ C < (Bundle.bundle Gs).dof * (Bundle.bundle Gs).dof
  · have hpos : 0 < (Bundle.bundle Gs).dof := by omega
    have hin : inB (Bundle.bundle Gs).dof 0 (Bundle.bundle Gs).dof R C :=
      ⟨Nat.zero_le _, by omega, Nat.zero_le _, by rw [Nat.zero_add]; exact Nat.div_lt_of_lt_mul h.2,
        Nat.zero_le _, by rw [Nat.zero_add]; exact Nat.mod_lt _ hpos⟩
    rw [sp.1 hin (by simp [setZeroM, h])]
    simp only [Nat.sub_zero, Nat.div_add_mod', overM, copyBlock, Nat.zero_le, true_and, Nat.zero_add, h, and_self, if_true]
  · have hout : ¬ inB (Bundle.bundle Gs).dof 0 (Bundle.bundle Gs).dof R C := by
      intro hin
      obtain ⟨_, b2, _, b4, _, b6⟩ := hin
      apply h
      refine ⟨by omega, ?_⟩
      have := Nat.div_add_mod C (Bundle.bundle Gs).dof
      calc C = (Bundle.bundle Gs).dof * (C / (Bundle.bundle Gs).dof) + C % (Bundle.bundle Gs).dof := this.symm
        _ < (Bundle.bundle Gs).dof * (C / (Bundle.bundle Gs).dof) + (Bundle.bundle Gs).dof := by omega
        _ = (Bundle.bundle Gs).dof * (C / (Bundle.bundle Gs).dof + 1) := by rw [Nat.mul_add, Nat.mul_one]
        _ ≤ (Bundle.bundle Gs).dof * (Bundle.bundle Gs).dof := Nat.mul_le_mul_left _ (by omega)
    rw [sp.2 hout]
    simp only [setZeroM, overM, copyBlock, Nat.zero_le, true_and, Nat.zero_add, h, if_false]

end hess

theorem d2r_exp_body_eq (Gs : List (LieModel α)) (i : Nat) (a : VBuf α) (H : MBuf α) :
    BundleSrc.d2r_exp_body Gs i a H = hbodyG (fun G => G.d2r_exp) (BundleSrc.Dof Gs) 0 Gs i a H := by
  simp only [BundleSrc.d2r_exp_body, hbodyG, hessW, placeLoop, Nat.zero_add]

theorem d2r_expinv_body_eq (Gs : List (LieModel α)) (i : Nat) (a : VBuf α) (H : MBuf α) :
    BundleSrc.d2r_expinv_body Gs i a H = hbodyG (fun G => G.d2r_expinv) (BundleSrc.Dof Gs) 0 Gs i a H := by
  simp only [BundleSrc.d2r_expinv_body, hbodyG, hessW, placeLoop, Nat.zero_add]

/-- **`BundleImpl::d2r_exp`**: the placed part Hessians (nothing for commutative parts), zero elsewhere -/
theorem bundle_d2r_exp (Gs : List (LieModel α)) (hs : ∀ G ∈ Gs, G.ShortCut)
    (a : Vec α (Bundle.bundle Gs).dof) (init : MBuf α) :
    BundleSrc.d2r_exp Gs (ofVec a) init = overM ((Bundle.bundle Gs).d2r_exp a) init := by
  simp only [BundleSrc.d2r_exp, d2r_exp_body_eq, bundle_Dof]
  rw [hloop_eq]
  exact hess_total (fun G => G.d2r_exp) (fun p B a R C => C06.prod_d2r_exp_ite p B a R C) Gs
    (fun G hG hc => (hs G hG).d2r_exp hc) a init

/-- **`BundleImpl::d2r_expinv`** -/
theorem bundle_d2r_expinv (Gs : List (LieModel α)) (hs : ∀ G ∈ Gs, G.ShortCut)
    (a : Vec α (Bundle.bundle Gs).dof) (init : MBuf α) :
    BundleSrc.d2r_expinv Gs (ofVec a) init = overM ((Bundle.bundle Gs).d2r_expinv a) init := by
  simp only [BundleSrc.d2r_expinv, d2r_expinv_body_eq, bundle_Dof]
  rw [hloop_eq]
  exact hess_total (fun G => G.d2r_expinv) (fun p B a R C => C06.prod_d2r_expinv_ite p B a R C) Gs
    (fun G hG hc => (hs G hG).d2r_expinv hc) a init

/-! ## 5. The hypotheses are satisfiable; nested Bundles -/

theorem hessPlace_mzero (D off d : Nat) (R : Fin D) (C : Fin (D * D)) :
    Bundle.hessPlace D off (mzero d (d * d) : Mat α d (d * d)) R C = nat 0 := by
  by_cases h : C06.InBlock D off d R C
  · rw [C06.hessPlace_in D off _ R C h]; rfl
  · exact C06.hessPlace_out D off _ R C h

/-- a Bundle of parts whose records hold the commutative short-cuts holds them itself — so a nested Bundle can be a part
    in the theorems above (its `Ad` is computed by `BundleImpl::Ad`, the outer level writes `setIdentity()`: the same matrix) -/
theorem bundle_shortCut (Gs : List (LieModel α)) (hs : ∀ G ∈ Gs, G.ShortCut) :
    (Bundle.bundle Gs).ShortCut := by
  induction Gs with
  | nil =>
    exact ⟨fun _ _ => by ext i; exact i.elim0, fun _ _ => by ext i; exact i.elim0, fun _ _ => by ext i; exact i.elim0,
      fun _ _ => by ext i; exact i.elim0, fun _ _ => by ext i; exact i.elim0, fun _ _ => by ext i; exact i.elim0⟩
  | cons p ps ih =>
    have hp := hs p (List.mem_cons_self ..)
    have hB := ih (fun G hG => hs G (List.mem_cons_of_mem _ hG))
    have hc2 : (Bundle.bundle (p :: ps)).comm = true → p.comm = true ∧ (Bundle.bundle ps).comm = true := fun h => by
      have h' : (p.comm && (Bundle.bundle ps).comm) = true := h
      simpa using h'
    refine ⟨fun hc g => ?_, fun hc a => ?_, fun hc a => ?_, fun hc a => ?_, fun hc a => ?_, fun hc a => ?_⟩
    · show Bundle.bdiag (p.Ad (Bundle.fst (n := p.rep) (m := (Bundle.bundle ps).rep) g))
        ((Bundle.bundle ps).Ad (Bundle.snd (n := p.rep) (m := (Bundle.bundle ps).rep) g)) = ident (p.dof + (Bundle.bundle ps).dof)
      rw [hp.Ad (hc2 hc).1, hB.Ad (hc2 hc).2, C06.bdiag_ident]
    · show Bundle.bdiag (p.ad (Bundle.fst (n := p.dof) (m := (Bundle.bundle ps).dof) a))
        ((Bundle.bundle ps).ad (Bundle.snd (n := p.dof) (m := (Bundle.bundle ps).dof) a)) = mzero _ _
      rw [hp.ad (hc2 hc).1, hB.ad (hc2 hc).2, C06.bdiag_mzero]
    · show Bundle.bdiag (p.dr_exp (Bundle.fst (n := p.dof) (m := (Bundle.bundle ps).dof) a))
        ((Bundle.bundle ps).dr_exp (Bundle.snd (n := p.dof) (m := (Bundle.bundle ps).dof) a)) = ident (p.dof + (Bundle.bundle ps).dof)
      rw [hp.dr_exp (hc2 hc).1, hB.dr_exp (hc2 hc).2, C06.bdiag_ident]
    · show Bundle.bdiag (p.dr_expinv (Bundle.fst (n := p.dof) (m := (Bundle.bundle ps).dof) a))
        ((Bundle.bundle ps).dr_expinv (Bundle.snd (n := p.dof) (m := (Bundle.bundle ps).dof) a)) = ident (p.dof + (Bundle.bundle ps).dof)
      rw [hp.dr_expinv (hc2 hc).1, hB.dr_expinv (hc2 hc).2, C06.bdiag_ident]
    · apply Mat.ext'
      intro R C
      refine (C06.prod_d2r_exp_ite p (Bundle.bundle ps) a R C).trans ?_
      rw [hp.d2r_exp (hc2 hc).1, hB.d2r_exp (hc2 hc).2]
      split
      · exact hessPlace_mzero _ _ _ R C
      · exact hessPlace_mzero _ _ _ R C
    · apply Mat.ext'
      intro R C
      refine (C06.prod_d2r_expinv_ite p (Bundle.bundle ps) a R C).trans ?_
      rw [hp.d2r_expinv (hc2 hc).1, hB.d2r_expinv (hc2 hc).2]
      split
      · exact hessPlace_mzero _ _ _ R C
      · exact hessPlace_mzero _ _ _ R C

/-- non-vacuity: the records of a non-commutative and of a commutative group hold the short-cuts -/
example : ∀ G ∈ [(SO3.model : LieModel ℝ), Tn.model 2, SE2.model, SO2.model], G.ShortCut := by
  intro G hG
  simp only [List.mem_cons, List.mem_nil_iff, or_false] at hG
  rcases hG with rfl | rfl | rfl | rfl
  · exact ⟨fun h => absurd h (by decide), fun h => absurd h (by decide), fun h => absurd h (by decide),
      fun h => absurd h (by decide), fun h => absurd h (by decide), fun h => absurd h (by decide)⟩
  · exact ⟨fun _ _ => rfl, fun _ _ => rfl, fun _ _ => rfl, fun _ _ => rfl, fun _ _ => rfl, fun _ _ => rfl⟩
  · exact ⟨fun h => absurd h (by decide), fun h => absurd h (by decide), fun h => absurd h (by decide),
      fun h => absurd h (by decide), fun h => absurd h (by decide), fun h => absurd h (by decide)⟩
  · exact ⟨fun _ _ => rfl, fun _ _ => rfl, fun _ _ => rfl, fun _ _ => rfl, fun _ _ => rfl, fun _ _ => rfl⟩

/-- concrete layout: `Bundle<SO3, R2, SE2>` -/
example : BundleSrc.RepSizesPsum [(SO3.model : LieModel ℝ), Tn.model 2, SE2.model] = [0, 4, 6, 10] := by decide
example : BundleSrc.DofsPsum [(SO3.model : LieModel ℝ), Tn.model 2, SE2.model] = [0, 3, 5, 8] := by decide
example : BundleSrc.DimsPsum [(SO3.model : LieModel ℝ), Tn.model 2, SE2.model] = [0, 3, 6, 9] := by decide

end SrcTieBundle
