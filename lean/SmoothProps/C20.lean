/-
  C20 — Polynomial, quadrature and search utilities equal their definitions.

  Three layers (DESIGN.md §3 C20):
  (A) theorems for EVERY degree / order / range / pivot, about the Poly / Search model at ℝ (or any linear
      order), proved by induction over the code's loops and recursions;
  (B) kernel-evaluated facts (K ≤ 10) about the model's exact rational tables: closed forms, recurrences,
      normalisations, orthogonality, partition of unity, Bernstein-form non-negativity certificates;
  (C) T2: the same kind of facts about the tables DUMPED from the running implementation
      (SmoothProofs/Gen/PolyTables.lean, regenerated on every run): the code's double tables are within
      1e-9·max|exact| of the model's exact tables; LGR nodes/weights are checked a posteriori.
  The tie of the run-time functions to the model is T1 (bit-level, tools/props/c20.py).

  Not proved here (stated in the plugin's `assumptions`): IEEE rounding of the run-time functions (audited);
  convergence of the LGR Newton iteration (replaced by the a-posteriori check (C)).
-/
import SmoothProofs.C20Bernstein
import SmoothProofs.C20Mono
import SmoothProofs.C20Search
import SmoothProofs.C20IntAbs
import SmoothProofs.C20Cert
import SmoothProofs.C20Lagrange
import SmoothProofs.C20ModelEq1
import SmoothProofs.C20ModelEq2
import SmoothProofs.C20ModelEq3
import SmoothProofs.C20ModelEq4
import SmoothProofs.C20ExactProps
import SmoothProofs.C20ExactOrtho
import SmoothProofs.C20Gen

set_option linter.unnecessarySeqFocus false

namespace C20
open Poly Finset C20T

/-! ## (A) general theorems -/

/-- **Bernstein closed form, every K**: `B_K[i][j] = (−1)^{i+j} C(K,i) C(i,j)`, 0 outside the table -/
theorem bernstein_closed (K i j : Nat) :
    (bernstein (α := ℝ) K).get i j = (-1) ^ (i + j) * (K.choose i : ℝ) * (i.choose j : ℝ) :=
  C20B.bernstein_get K i j

/-- the same in the form `(−1)^{i−j} C(K,j) C(K−j,i−j)` for `j ≤ i ≤ K` -/
theorem bernstein_closed' (K i j : Nat) (hji : j ≤ i) (_hiK : i ≤ K) :
    (bernstein (α := ℝ) K).get i j = (-1) ^ (i - j) * (K.choose j : ℝ) * ((K - j).choose (i - j) : ℝ) := by
  rw [bernstein_closed]
  have h1 : (-1 : ℝ) ^ (i + j) = (-1) ^ (i - j) := by
    rw [show i + j = (i - j) + 2 * j by omega, pow_add, pow_mul]; norm_num
  have h2 : (K.choose i : ℝ) * (i.choose j : ℝ) = (K.choose j : ℝ) * ((K - j).choose (i - j) : ℝ) := by
    exact_mod_cast Nat.choose_mul (n := K) (k := i) (s := j) hji
  rw [h1, mul_assoc, h2, mul_assoc]

example : (0 : Nat) ≤ 2 ∧ (2 : Nat) ≤ 3 := by decide

/-- column j of the Bernstein table evaluates to the Bernstein polynomial `C(K,j) u^j (1−u)^{K−j}` -/
theorem bernstein_eval (K j : Nat) (u : ℝ) (hj : j ≤ K) :
    evalCol (bernstein (α := ℝ) K) (K+1) j u = (K.choose j : ℝ) * u ^ j * (1 - u) ^ (K - j) :=
  C20B.bernstein_eval K j u hj

example : (1 : Nat) ≤ 3 := by decide

/-- **Bernstein bases sum to one** -/
theorem bernstein_partition_of_unity (K : Nat) (u : ℝ) :
    ∑ j ∈ range (K+1), evalCol (bernstein (α := ℝ) K) (K+1) j u = 1 := by
  rw [Finset.sum_congr rfl (fun j hj => C20B.bernstein_eval K j u (by have := Finset.mem_range.mp hj; omega))]
  exact C20B.sum_bernPoly K u

/-- **Bernstein bases are non-negative on [0,1]** -/
theorem bernstein_nonneg_on_unit_interval (K j : Nat) (u : ℝ) (hj : j ≤ K) (h0 : 0 ≤ u) (h1 : u ≤ 1) :
    0 ≤ evalCol (bernstein (α := ℝ) K) (K+1) j u := by
  rw [C20B.bernstein_eval K j u hj]; exact C20B.bernPoly_nonneg K j u h0 h1

example : (2 : Nat) ≤ 5 ∧ (0 : ℝ) ≤ 1/3 ∧ (1/3 : ℝ) ≤ 1 := by norm_num

/-- **cumulative Bernstein basis starts with the constant 1** -/
theorem cumulative_first_is_one (K : Nat) (u : ℝ) :
    evalCol (cumulativeBasis (α := ℝ) .Bernstein K) (K+1) 0 u = 1 :=
  C20B.cumulative_first_is_one K u

/-- **cumulative Bernstein functions j ≥ 1 run from 0 at u = 0 to 1 at u = 1** -/
theorem cumulative_bernstein_endpoints (K j : Nat) (hj1 : 1 ≤ j) (hjK : j ≤ K) :
    evalCol (cumulativeBasis (α := ℝ) .Bernstein K) (K+1) j 0 = 0 ∧
    evalCol (cumulativeBasis (α := ℝ) .Bernstein K) (K+1) j 1 = 1 :=
  ⟨C20B.cumulative_bernstein_at_zero K j hj1, C20B.cumulative_bernstein_at_one K j hjK⟩

example : (1 : Nat) ≤ 2 ∧ (2 : Nat) ≤ 3 := by decide

/-- **Σ_{j=1}^{K} B̃_j(u) = K·u** (needed by C12: ConstantVelocity) -/
theorem sum_cumulative (K : Nat) (u : ℝ) :
    ∑ j ∈ Ico 1 (K+1), evalCol (cumulativeBasis (α := ℝ) .Bernstein K) (K+1) j u = K * u :=
  C20B.sum_cumulative_bernstein K u

/-- **monomial_derivative_spec**: `monomial_derivative<K>(u,p)[k] = k!/(k−p)!·u^{k−p}`, every K, p, k ≤ K
    (the integer division `P2 /= i − p` of the loop is exact: `C20M.descFactorial_step`) -/
theorem monomial_derivative_closed (K : Nat) (u : ℝ) (p k : Nat) (hk : k ≤ K) :
    rget (monoDeriv K u p) k = (k.descFactorial p : ℝ) * u ^ (k - p) :=
  C20M.monoDeriv_get K u p k hk

/-- … which is `d^p/du^p u^k` -/
theorem monomial_derivative_spec (K : Nat) (u : ℝ) (p k : Nat) (hk : k ≤ K) :
    rget (monoDeriv K u p) k = iteratedDeriv p (fun x : ℝ => x ^ k) u :=
  C20M.monomial_derivative_spec K u p k hk

example : (3 : Nat) ≤ 10 := by decide

theorem monomial_derivatives_spec (K P : Nat) (u : ℝ) (p k : Nat) (hp : p ≤ P) (hk : k ≤ K) :
    (monoDerivs K P u).get p k = iteratedDeriv p (fun x : ℝ => x ^ k) u :=
  C20M.monomial_derivatives_spec K P u p k hp hk

example : (2 : Nat) ≤ 3 ∧ (7 : Nat) ≤ 10 := by decide

/-- **monomial_integral_spec**: `M[i][j] = ∫₀¹ (d^P/du^P u^i)(d^P/du^P u^j) du`, every K, P -/
theorem monomial_integral_spec (K P i j : Nat) (hi : i ≤ K) (hj : j ≤ K) :
    (monomialIntegral (α := ℝ) K P).get i j
      = ∫ u in (0:ℝ)..1, iteratedDeriv P (fun x : ℝ => x ^ i) u * iteratedDeriv P (fun x : ℝ => x ^ j) u :=
  C20M.monomial_integral_spec K P i j hi hj

example : (4 : Nat) ≤ 6 ∧ (5 : Nat) ≤ 6 := by decide

/-- **search_total_correct**: for every range sorted w.r.t. ≤ (repeats allowed), every query and EVERY
    pivot function (the model clamps the proposal to `[left, rght−2]`, the identity on admissible
    pivots — `search_admissible_unclamped`), `binary_interval_search` terminates (well-founded recursion
    on `rght − left`, no fuel) and returns per its four documented cases (`idx = n` is `end()`). -/
theorem search_total_correct {α : Type} [LinearOrder α] (r : Nat → α) (n : Nat) (t : α) (pv : Nat → Nat → Nat)
    (hs : C20S.SortedUpTo r n) :
    (n = 0 → (Search.search r n t pv).idx = n) ∧
    (0 < n → t < r 0 → (Search.search r n t pv).idx = n) ∧
    (0 < n → r (n - 1) ≤ t → (Search.search r n t pv).idx = n - 1) ∧
    (0 < n → r 0 ≤ t → t < r (n - 1) →
        (Search.search r n t pv).idx + 1 < n ∧ r (Search.search r n t pv).idx ≤ t ∧
          t < r ((Search.search r n t pv).idx + 1)) :=
  C20S.search_total_correct r n t pv hs

example : C20S.SortedUpTo C20S.exR 4 := by
  intro i j hij hj
  have : j ≤ 3 := by omega
  interval_cases j <;> interval_cases i <;> simp [C20S.exR]

theorem search_admissible_unclamped {pv : Nat → Nat → Nat} (h : C20S.Admissible pv) (l r : Nat) (hlr : l + 2 ≤ r) :
    Search.clampPivot l r (pv l r) = pv l r :=
  C20S.clampPivot_of_admissible h l r hlr

example : C20S.Admissible (fun l r => l + (r - 1 - l) / 2) := by
  intro l r h
  show l ≤ l + (r - 1 - l) / 2 ∧ l + (r - 1 - l) / 2 + 2 ≤ r
  constructor <;> omega

/-- the interpolation pivot of the C++ (any scalar type, NaN included) is admissible -/
theorem search_interp_pivot_admissible {β : Type} [Scalar β] (r : Nat → β) (t : β) :
    C20S.Admissible (Search.interpPivot r t) :=
  C20S.interpPivot_admissible r t

/-- under the loop invariant the interpolation fraction lies in [0,1): the `intptr_t` cast is defined -/
theorem search_interp_alpha_unit (r : Nat → ℝ) (t : ℝ) (left rght : Nat) (h1 : r left ≤ t) (h2 : t < r (rght - 1)) :
    0 ≤ (t - r left) / (r (rght - 1) - r left) ∧ (t - r left) / (r (rght - 1) - r left) < 1 :=
  C20S.interp_alpha_unit r t left rght h1 h2

example : (fun i : Nat => (i : ℝ)) 1 ≤ 1.5 ∧ (1.5 : ℝ) < (fun i : Nat => (i : ℝ)) (4 - 1) := by norm_num

/-- at most n − 1 loop iterations -/
theorem search_iters_le {α : Type} [LinearOrder α] (r : Nat → α) (n : Nat) (t : α) (pv : Nat → Nat → Nat) :
    (Search.search r n t pv).iters ≤ n - 1 :=
  C20S.search_iters_le r n t pv

/-- **integrate_absolute_polynomial_spec**: outside the threshold bands (`|A| ≥ thr`, or `A = 0` with
    `|B| > thr` or `B = 0`) and for `t0 ≤ t1` the result is `∫_{t0}^{t1} |A t² + B t + C| dt`
    (`thr` is the literal 1e-9; sign analysis between the clamped roots, exact antiderivative) -/
theorem integrate_absolute_polynomial_spec (thr t0 t1 A B C : ℝ) (hthr : 0 < thr) (h01 : t0 ≤ t1)
    (h : thr ≤ |A| ∨ (A = 0 ∧ (thr < |B| ∨ B = 0))) :
    integrateAbs thr t0 t1 A B C = ∫ t in t0..t1, |A * t^2 + B * t + C| :=
  C20I.integrate_absolute_polynomial_spec thr t0 t1 A B C hthr h01 h

example : (0:ℝ) < 1/1000000000 ∧ (-1:ℝ) ≤ 2 ∧
    ((1/1000000000 : ℝ) ≤ |(-3:ℝ)| ∨ ((-3:ℝ) = 0 ∧ ((1/1000000000 : ℝ) < |(0:ℝ)| ∨ (0:ℝ) = 0))) := by
  refine ⟨by norm_num, by norm_num, Or.inl ?_⟩; norm_num

/-- inside the band `|A| < thr < |B|` the code ignores the quadratic term when it locates the sign
    change; the error is at most `2|A| ∫ t²` — how "to 1e-9" is read there -/
theorem integrate_absolute_polynomial_band_error (thr t0 t1 A B C : ℝ) (h01 : t0 ≤ t1) (hA : |A| < thr) (hB : thr < |B|) :
    |integrateAbs thr t0 t1 A B C - (∫ t in t0..t1, |A * t^2 + B * t + C|)| ≤ 2 * |A| * ∫ t in t0..t1, t^2 :=
  C20I.threshold_band_error thr t0 t1 A B C h01 hA hB

example : |(1/2000000000 : ℝ)| < 1/1000000000 ∧ (1/1000000000 : ℝ) < |(1:ℝ)| ∧ (-1:ℝ) ≤ 1 := by
  refine ⟨?_, ?_, by norm_num⟩ <;> rw [abs_of_pos] <;> norm_num

/-- `|A|` EXACTLY equal to the threshold belongs to the quadratic branch.  (Up to /repo commit 863c150 the
    C++ tested `abs(A) < 1e-9` and `abs(A) > 1e-9`; `|A| = 1e-9` matched neither and the function returned
    `|∫ p|` — found by the audit of this property, replay (t0,t1,A,B,C) = (−1,1,1e-9,1,0), fixed with `>=`;
    the T1 stratum `A_at_thr` keeps sampling exactly this point.) -/
theorem integrate_absolute_polynomial_at_threshold (thr t0 t1 A B C : ℝ) (hthr : 0 < thr) (h01 : t0 ≤ t1)
    (hA : |A| = thr) :
    integrateAbs thr t0 t1 A B C = ∫ t in t0..t1, |A * t^2 + B * t + C| :=
  C20I.integrate_abs_at_threshold thr t0 t1 A B C hthr h01 hA

example : (0:ℝ) < 1/1000000000 ∧ (-1:ℝ) ≤ 1 ∧ |(-(1/1000000000) : ℝ)| = 1/1000000000 := by
  refine ⟨by norm_num, by norm_num, ?_⟩
  rw [abs_neg, abs_of_pos] <;> norm_num

/-- column i of `lagrange_basis<K>(ts)` is the i-th Lagrange polynomial `Π_{c ≠ i} (x − t_c)/(t_i − t_c)`
    (loop invariants of the two nested in-place loops), every K -/
theorem lagrange_eval (K : Nat) (ts : List ℝ) (i : Nat) (hi : i ≤ K) (x : ℝ) :
    evalCol (lagrange K ts) (K+1) i x
      = ∏ col ∈ (range (K+1)).filter (· ≠ i), (x - rget ts col) / (rget ts i - rget ts col) :=
  C20L.lagrange_eval K ts i hi x

example : (2 : Nat) ≤ 4 := by decide

/-- **lagrange_basis interpolates**: for pairwise distinct nodes `p_i(t_j) = 1 if i = j, 0 otherwise`, every K -/
theorem lagrange_interpolates (K : Nat) (ts : List ℝ)
    (hd : ∀ a b, a ≤ K → b ≤ K → a ≠ b → rget ts a ≠ rget ts b) (i j : Nat) (hi : i ≤ K) (hj : j ≤ K) :
    evalCol (lagrange K ts) (K+1) i (rget ts j) = if i = j then 1 else 0 :=
  C20L.lagrange_interpolates K ts hd i j hi hj

example : ∀ a b, a ≤ 2 → b ≤ 2 → a ≠ b → rget ([0, 1, 3] : List ℝ) a ≠ rget ([0, 1, 3] : List ℝ) b := by
  intro a b ha hb hab
  interval_cases a <;> interval_cases b <;> simp [rget] at hab ⊢

/-! ## (B) the model's exact tables, K ≤ 10 (kernel evaluation over `Rat`) -/

/-- the literal tables of SmoothProofs/C20Exact.lean are the model's tables -/
theorem basis_eq_exact (b : Basis) : ∀ K, K ≤ 10 → basis (α := Q) b K = Exact.basis b K := by
  cases b
  · exact basis_eq_exact_Bernstein
  · exact basis_eq_exact_Bspline
  · exact basis_eq_exact_Chebyshev1st
  · exact basis_eq_exact_Chebyshev2nd
  · exact basis_eq_exact_Hermite
  · exact basis_eq_exact_Laguerre
  · exact basis_eq_exact_Legendre
  · exact basis_eq_exact_Monomial

theorem cum_eq_exact (b : Basis) (K : Nat) (hK : K ≤ 10) : cumulativeBasis (α := Q) b K = Exact.cumBasis b K := by
  show cumulative (basis (α := Q) b K) = _
  rw [basis_eq_exact b K hK]; exact cum_exact b K hK

/-- Bernstein closed form on the rational tables (link between (A) at ℝ and the tables at ℚ) -/
theorem bernstein_closed_rat : ∀ K, K ≤ 10 → closedOK (basis (α := Q) .Bernstein K) K (bernClosed K) = true :=
  fun K hK => by rw [basis_eq_exact .Bernstein K hK]; exact bernstein_closed_exact K hK

/-- **B-spline table = uniform B-spline segment matrix**
    `M[i][j] = 1/K!·C(K,i)·Σ_{s=j}^{K} (−1)^{s−j} C(K+1,s−j)(K−s)^{K−i}` -/
theorem bspline_closed : ∀ K, K ≤ 10 → closedOK (basis (α := Q) .Bspline K) K (bsplineClosed K) = true :=
  fun K hK => by rw [basis_eq_exact .Bspline K hK]; exact bspline_closed_exact K hK

/-- **B-spline and Bernstein bases sum to one / cumulative bases start with the constant 1**
    (coefficientwise: `Σ_j B[i][j] = δ_{i0}`) -/
theorem cumulative_first_column : ∀ K, K ≤ 10 →
    cumFirstColOK (cumulativeBasis (α := Q) .Bspline K) K = true ∧
    cumFirstColOK (cumulativeBasis (α := Q) .Bernstein K) K = true :=
  fun K hK => by
    rw [cum_eq_exact .Bspline K hK, cum_eq_exact .Bernstein K hK]
    exact ⟨bspline_cum_first_exact K hK, bernstein_cum_first_exact K hK⟩

/-- cumulative Bernstein tables: end points and `Σ_j B̃_j = 1 + K u`, coefficientwise -/
theorem cumulative_bernstein_tables : ∀ K, K ≤ 10 →
    cumEndpointsOK (cumulativeBasis (α := Q) .Bernstein K) K = true ∧
    cumRowSumsOK (cumulativeBasis (α := Q) .Bernstein K) K = true :=
  fun K hK => by
    rw [cum_eq_exact .Bernstein K hK]
    exact ⟨bernstein_cum_endpoints_exact K hK, bernstein_cum_rowsums_exact K hK⟩

/-- **B-spline bases are non-negative on [0,1]** (K ≤ 10): every basis polynomial of the exact table has
    non-negative Bernstein-form coefficients (kernel-checked certificate) -/
theorem bspline_nonneg_on_unit_interval (K : Nat) (hK : K ≤ 10) (j : Nat) (hj : j ≤ K) (u : ℝ) (h0 : 0 ≤ u) (h1 : u ≤ 1) :
    0 ≤ ∑ i ∈ range (K+1), (((basis (α := Q) .Bspline K).get i j : Q) : ℝ) * u ^ i := by
  have hB := fun i j hi hj => C20C.bern_table_cast (Exact.basis .Bernstein K) K (bernstein_closed_exact K hK) i j hi hj
  have := C20C.nonneg_of_bernstein_certificate (Exact.basis .Bernstein K) (Exact.basis .Bspline K) K 0 hB
    (bspline_bernstein_cert_exact K hK) j hj u h0 h1
  rw [basis_eq_exact .Bspline K hK]
  simpa using this

example : (3 : Nat) ≤ 10 ∧ (1 : Nat) ≤ 3 ∧ (0:ℝ) ≤ 1/2 ∧ (1/2:ℝ) ≤ 1 := by norm_num

/-- **Legendre**: `P_0 = 1, P_1 = x`, `(k+1)P_{k+1} = (2k+1)xP_k − kP_{k−1}`, `P_k(1) = 1`, and the closed
    form `2^{−k} Σ_m (−1)^m C(k,m) C(2k−2m,k) x^{k−2m}` -/
theorem legendre_table : ∀ K, K ≤ 10 →
    startOK (basis (α := Q) .Legendre K) K 0 1 = true ∧
    recurrenceOK (basis (α := Q) .Legendre K) K (fun k => k+1) (fun k => 2*k+1) (fun _ => 0) (fun k => k) = true ∧
    valuesAt (basis (α := Q) .Legendre K) K 1 (fun _ => 1) = true ∧
    closedOK (basis (α := Q) .Legendre K) K legendreClosed = true :=
  fun K hK => by
    rw [basis_eq_exact .Legendre K hK]
    exact ⟨legendre_start_exact K hK, legendre_recurrence_exact K hK, legendre_at_one_exact K hK, legendre_closed_exact K hK⟩

/-- **Chebyshev, first kind**: `T_0 = 1, T_1 = x`, `T_{k+1} = 2xT_k − T_{k−1}`, `T_k(1) = 1`, closed form -/
theorem chebyshev1_table : ∀ K, K ≤ 10 →
    startOK (basis (α := Q) .Chebyshev1st K) K 0 1 = true ∧
    recurrenceOK (basis (α := Q) .Chebyshev1st K) K (fun _ => 1) (fun _ => 2) (fun _ => 0) (fun _ => 1) = true ∧
    valuesAt (basis (α := Q) .Chebyshev1st K) K 1 (fun _ => 1) = true ∧
    closedOK (basis (α := Q) .Chebyshev1st K) K cheb1Closed = true :=
  fun K hK => by
    rw [basis_eq_exact .Chebyshev1st K hK]
    exact ⟨cheb1_start_exact K hK, cheb1_recurrence_exact K hK, cheb1_at_one_exact K hK, cheb1_closed_exact K hK⟩

/-- **Chebyshev, second kind**: `U_0 = 1, U_1 = 2x`, `U_{k+1} = 2xU_k − U_{k−1}`, `U_k(1) = k+1`, closed form -/
theorem chebyshev2_table : ∀ K, K ≤ 10 →
    startOK (basis (α := Q) .Chebyshev2nd K) K 0 2 = true ∧
    recurrenceOK (basis (α := Q) .Chebyshev2nd K) K (fun _ => 1) (fun _ => 2) (fun _ => 0) (fun _ => 1) = true ∧
    valuesAt (basis (α := Q) .Chebyshev2nd K) K 1 (fun k => (k : Q) + 1) = true ∧
    closedOK (basis (α := Q) .Chebyshev2nd K) K cheb2Closed = true :=
  fun K hK => by
    rw [basis_eq_exact .Chebyshev2nd K hK]
    exact ⟨cheb2_start_exact K hK, cheb2_recurrence_exact K hK, cheb2_at_one_exact K hK, cheb2_closed_exact K hK⟩

/-- **Hermite (physicists')**: `H_0 = 1, H_1 = 2x`, `H_{k+1} = 2xH_k − 2kH_{k−1}`, leading coefficient `2^k`,
    closed form -/
theorem hermite_table : ∀ K, K ≤ 10 →
    startOK (basis (α := Q) .Hermite K) K 0 2 = true ∧
    recurrenceOK (basis (α := Q) .Hermite K) K (fun _ => 1) (fun _ => 2) (fun _ => 0) (fun k => 2 * (k : Q)) = true ∧
    leadingOK (basis (α := Q) .Hermite K) K (fun k => powQ 2 k) = true ∧
    closedOK (basis (α := Q) .Hermite K) K hermiteClosed = true :=
  fun K hK => by
    rw [basis_eq_exact .Hermite K hK]
    exact ⟨hermite_start_exact K hK, hermite_recurrence_exact K hK, hermite_leading_exact K hK, hermite_closed_exact K hK⟩

/-- **Laguerre**: `L_0 = 1, L_1 = 1 − x`, `(k+1)L_{k+1} = (2k+1−x)L_k − kL_{k−1}`, `L_k(0) = 1`, closed form -/
theorem laguerre_table : ∀ K, K ≤ 10 →
    startOK (basis (α := Q) .Laguerre K) K 1 (-1) = true ∧
    recurrenceOK (basis (α := Q) .Laguerre K) K (fun k => (k : Q) + 1) (fun _ => -1) (fun k => 2 * (k : Q) + 1) (fun k => k) = true ∧
    valuesAt (basis (α := Q) .Laguerre K) K 0 (fun _ => 1) = true ∧
    closedOK (basis (α := Q) .Laguerre K) K laguerreClosed = true :=
  fun K hK => by
    rw [basis_eq_exact .Laguerre K hK]
    exact ⟨laguerre_start_exact K hK, laguerre_recurrence_exact K hK, laguerre_at_zero_exact K hK, laguerre_closed_exact K hK⟩

/-- the tables for K < 10 are the top-left blocks of the K = 10 tables (column-by-column constructions) -/
theorem orthogonal_families_nested : ∀ K, K ≤ 10 →
    blockOf (basis (α := Q) .Legendre K) (basis (α := Q) .Legendre 10) K = true ∧
    blockOf (basis (α := Q) .Chebyshev1st K) (basis (α := Q) .Chebyshev1st 10) K = true ∧
    blockOf (basis (α := Q) .Chebyshev2nd K) (basis (α := Q) .Chebyshev2nd 10) K = true ∧
    blockOf (basis (α := Q) .Hermite K) (basis (α := Q) .Hermite 10) K = true ∧
    blockOf (basis (α := Q) .Laguerre K) (basis (α := Q) .Laguerre 10) K = true :=
  fun K hK => by
    rw [basis_eq_exact .Legendre K hK, basis_eq_exact .Chebyshev1st K hK, basis_eq_exact .Chebyshev2nd K hK,
      basis_eq_exact .Hermite K hK, basis_eq_exact .Laguerre K hK, basis_eq_exact .Legendre 10 (le_refl _),
      basis_eq_exact .Chebyshev1st 10 (le_refl _), basis_eq_exact .Chebyshev2nd 10 (le_refl _),
      basis_eq_exact .Hermite 10 (le_refl _), basis_eq_exact .Laguerre 10 (le_refl _)]
    exact ⟨legendre_block_exact K hK, cheb1_block_exact K hK, cheb2_block_exact K hK, hermite_block_exact K hK,
      laguerre_block_exact K hK⟩

/-- **orthogonality** (degrees ≤ 10) w.r.t. the moment functional of the respective weight:
    Legendre `∫_{-1}^{1}`, Chebyshev `(1/π)∫ ·/√(1−x²)` and `(1/π)∫ ·√(1−x²)`, Hermite `(1/√π)∫ ·e^{−x²}`,
    Laguerre `∫_0^∞ ·e^{−x}` (the moments are the closed forms `momLegendre … momLaguerre`) -/
theorem orthogonality :
    orthoOK (basis (α := Q) .Legendre 10) 10 momLegendre (fun n => 2 / (2 * (n : Q) + 1)) = true ∧
    orthoOK (basis (α := Q) .Chebyshev1st 10) 10 momCheb1 (fun n => if n = 0 then 1 else 1/2) = true ∧
    orthoOK (basis (α := Q) .Chebyshev2nd 10) 10 momCheb2 (fun _ => 1/2) = true ∧
    orthoOK (basis (α := Q) .Hermite 10) 10 momHermite (fun n => powQ 2 n * ((fact n : Nat) : Q)) = true ∧
    orthoOK (basis (α := Q) .Laguerre 10) 10 momLaguerre (fun _ => 1) = true := by
  rw [basis_eq_exact .Legendre 10 (le_refl _), basis_eq_exact .Chebyshev1st 10 (le_refl _),
    basis_eq_exact .Chebyshev2nd 10 (le_refl _), basis_eq_exact .Hermite 10 (le_refl _),
    basis_eq_exact .Laguerre 10 (le_refl _)]
  exact ⟨legendre_ortho_exact, cheb1_ortho_exact, cheb2_ortho_exact, hermite_ortho_exact, laguerre_ortho_exact⟩

/-- monomial basis is the identity; `monomial_integral` table equals `i!/(i−P)!·j!/(j−P)!/(i+j−2P+1)` -/
theorem monomial_tables : ∀ K, K ≤ 10 →
    closedOK (basis (α := Q) .Monomial K) K (fun i j => if i = j then 1 else 0) = true ∧
    ∀ P, P ≤ 4 → closedOK (monomialIntegral (α := Q) K P) K (monintSpec P) = true :=
  fun K hK => by
    rw [basis_eq_exact .Monomial K hK]
    exact ⟨monomial_exact K hK, fun P hP => by rw [monint_eq_exact K hK P hP]; exact monint_spec_exact K hK P hP⟩

/-! ## (C) T2 — the tables produced by the running implementation -/

/-- **every `polynomial_basis<B,K,double>()` the code produces (8 bases, K ≤ 10) is within
    `1e-9·max|exact|` of the model's exact table** — so (A),(B) transfer to the code's tables with that error -/
theorem code_basis_tables_close (b : Basis) : ∀ K, K ≤ 10 →
    closeTab (Gen.Poly.basis b K) (basis (α := Q) b K) tol = true :=
  fun K hK => by rw [basis_eq_exact b K hK]; exact dump_basis_close b K hK

/-- the same for `polynomial_cumulative_basis<B,K,double>()` -/
theorem code_cumulative_tables_close (b : Basis) : ∀ K, K ≤ 10 →
    closeTab (Gen.Poly.cumBasis b K) (cumulativeBasis (α := Q) b K) tol = true :=
  fun K hK => by rw [cum_eq_exact b K hK]; exact dump_cum_close b K hK

/-- integer-valued families are reproduced exactly by the code -/
theorem code_integer_tables_exact : ∀ K, K ≤ 10 →
    Gen.Poly.basis .Bernstein K = basis (α := Q) .Bernstein K ∧
    Gen.Poly.cumBasis .Bernstein K = cumulativeBasis (α := Q) .Bernstein K ∧
    Gen.Poly.basis .Hermite K = basis (α := Q) .Hermite K ∧
    Gen.Poly.basis .Monomial K = basis (α := Q) .Monomial K :=
  fun K hK => by
    rw [basis_eq_exact .Bernstein K hK, cum_eq_exact .Bernstein K hK, basis_eq_exact .Hermite K hK,
      basis_eq_exact .Monomial K hK]
    exact ⟨dump_bernstein_eq K hK, dump_bernstein_cum_eq K hK, dump_hermite_eq K hK, dump_monomial_eq K hK⟩

/-- `monomial_integral<K,P,double>()`, K ≤ 10, P ≤ 4 -/
theorem code_monomial_integral_close : ∀ K, K ≤ 10 → ∀ P, P ≤ 4 →
    closeTab (Gen.Poly.monint K P) (monomialIntegral (α := Q) K P) tol = true :=
  fun K hK P hP => by rw [monint_eq_exact K hK P hP]; exact dump_monint_close K hK P hP

/-- the code's B-spline tables sum to one up to 1e-9 (coefficientwise) -/
theorem code_bspline_partition_of_unity : ∀ K, K ≤ 10 →
    cumFirstColClose (Gen.Poly.cumBasis .Bspline K) K tol = true :=
  dump_bspline_cum_first

/-- the code's B-spline basis polynomials are ≥ −1e-9 on [0,1] -/
theorem code_bspline_nonneg (K : Nat) (hK : K ≤ 10) (j : Nat) (hj : j ≤ K) (u : ℝ) (h0 : 0 ≤ u) (h1 : u ≤ 1) :
    -(1 / 1000000000 : ℝ) ≤ ∑ i ∈ range (K+1), ((Tab.get (Gen.Poly.basis .Bspline K) i j : Q) : ℝ) * u ^ i := by
  have hB := fun i j hi hj => C20C.bern_table_cast (Exact.basis .Bernstein K) K (bernstein_closed_exact K hK) i j hi hj
  have := C20C.nonneg_of_bernstein_certificate (Exact.basis .Bernstein K) (Gen.Poly.basis .Bspline K) K (-tol) hB
    (dump_bspline_bernstein_cert K hK) j hj u h0 h1
  have ht : ((-tol : Q) : ℝ) = -(1 / 1000000000 : ℝ) := by simp [tol]
  rw [ht] at this
  exact this

example : (10 : Nat) ≤ 10 ∧ (4 : Nat) ≤ 10 ∧ (0:ℝ) ≤ 1 ∧ (1:ℝ) ≤ 1 := by norm_num

/-- **LGR quadrature, K = 1..16** (a-posteriori): the nodes/weights the code produces have `x₀ = −1`, are
    increasing in [−1,1), have positive weights and integrate every `x^m`, `m ≤ 2K−2`, over [−1,1] to 1e-9 -/
theorem code_lgr_nodes_exact_to_tolerance : ∀ K, K ≤ 15 →
    lgrOK (K+1) (Gen.Poly.lgrX (K+1)) (Gen.Poly.lgrW (K+1)) tol = true :=
  dump_lgr_ok

end C20
