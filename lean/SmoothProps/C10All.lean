/- aggregator: property theorems of C10 plus the source-tie theorems of the logic regenerated from the C++ (tools/gen_logic2.py) -/
import SmoothProps.C10
import SmoothProps.SrcTieLogicC10
