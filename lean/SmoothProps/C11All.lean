/- aggregator: property theorems of C11 plus the source-tie theorems of the logic regenerated from the C++ (tools/gen_logic2.py) -/
import SmoothProps.C11
import SmoothProps.SrcTieLogicC11
