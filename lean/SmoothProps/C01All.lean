/- aggregator: property theorems of C01 plus the source-tie theorems regenerated from the C++
   (whole functions setIdentity, matrix, composition, inverse; manifest of translated functions), plus the
   rounding theorems in the standard model of floating-point arithmetic (C01Round: SO2 C1 Tn SO3 SE2 SE3 composition and
   inverse; C01RoundB: the actions, Galilei, SE_K_3, associativity; C01RoundC: every nested Bundle) -/
import SmoothProps.C01
import SmoothProps.C01Round
import SmoothProps.C01RoundB
import SmoothProps.C01RoundC
import SmoothProps.SrcTieImpl
import SmoothProps.SrcTieImplC01
