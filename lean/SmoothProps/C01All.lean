/- aggregator: property theorems of C01 plus the source-tie theorems regenerated from the C++
   (whole functions setIdentity, matrix, composition, inverse; manifest of translated functions), plus the
   rounding theorems in the standard model of floating-point arithmetic (C01Round) -/
import SmoothProps.C01
import SmoothProps.C01Round
import SmoothProps.SrcTieImpl
import SmoothProps.SrcTieImplC01
