/- aggregator: property theorems of C01 plus the source-tie theorems regenerated from the C++
   (whole functions setIdentity, matrix, composition, inverse; manifest of translated functions) -/
import SmoothProps.C01
import SmoothProps.SrcTieImpl
import SmoothProps.SrcTieImplC01
