/-
  C04 — First-order derivative formulas are the true Jacobians (property theorems).

  Proved here (over ℝ, on the model = the expression trees of detail/so3.hpp, se2.hpp, se3.hpp,
  galilei.hpp, derivatives_impl.hpp):
  * `dr_exp a · dr_expinv a = I` and `dr_expinv a · dr_exp a = I` in the closed-form branch
    (`eps2 < θ²`, `sin θ ≠ 0`) for SO3, SE2, SE3 (SE3: block-triangular algebra, any `Q`);
  * `dl_exp a = dr_exp (−a)` (definition of the LieGroupBase members) and, for SO3,
    `dr_exp (−a) = Ad (exp a) · dr_exp a` (Rodrigues algebra, closed branch);
  * `dr_action g v · d = point (M g · hat d · embed v)` for SO3, SE3, Galilei (all g, v, d);
  * `dr_rminus`, `dr_rminus_squarednorm` unfold to `dr_expinv e`, `eᵀ·dr_expinv e`.
  Not proved here (kept as `…_statement`): the power-series / ODE characterisation of `dr_exp`
  and the Taylor-branch truncation bounds.
-/
import SmoothProofs.C04SO3
import SmoothProofs.C04SE2
import SmoothProofs.C04SE3
import SmoothProofs.C04Action
import Mathlib.Analysis.Calculus.Deriv.Basic

open Lin Scalar

namespace C04

/-- closed-form branch of the SO3 Jacobians: `θ² > eps2` (so both `dr_exp` and `dr_expinv` take
    their trigonometric branch) and `sin θ ≠ 0` (θ is not a multiple of π; in particular `θ < π`). -/
def SO3Closed (w : Vec ℝ 3) : Prop :=
  Scalar.eps2 < sqNorm w ∧ Real.sin (Real.sqrt (sqNorm w)) ≠ 0

/-- closed-form branch of the SE2 Jacobians (`θ = a 2`). -/
def SE2Closed (a : Vec ℝ 3) : Prop :=
  Scalar.eps2 < a 2 * a 2 ∧ Real.sin (a 2) ≠ 0

/-! ### `dr_expinv` is the matrix inverse of `dr_exp` -/

theorem so3_drExp_mul_drExpinv (a : Vec ℝ 3) (h : SO3Closed a) :
    mmul (SO3.dr_exp a) (SO3.dr_expinv a) = ident 3 :=
  C04SO3.drExp_mul_drExpinv a h.1 h.2

theorem so3_drExpinv_mul_drExp (a : Vec ℝ 3) (h : SO3Closed a) :
    mmul (SO3.dr_expinv a) (SO3.dr_exp a) = ident 3 :=
  C04SO3.drExpinv_mul_drExp a h.1 h.2

/-- non-vacuity: `a = (1, 0, 0)` (θ = 1) is in the closed branch -/
theorem so3Closed_e1 : SO3Closed (mk3 1 0 0) := by
  have h : sqNorm (mk3 (1:ℝ) 0 0) = 1 := by simp [C04Alg.sqNorm3, mk3]
  refine ⟨?_, ?_⟩
  · rw [h, C04SO3.eps2_real]; norm_num
  · rw [h, Real.sqrt_one]
    exact (Real.sin_pos_of_pos_of_lt_pi one_pos (by linarith [Real.two_le_pi])).ne'

example : mmul (SO3.dr_exp (mk3 1 0 0)) (SO3.dr_expinv (mk3 (1:ℝ) 0 0)) = ident 3 :=
  so3_drExp_mul_drExpinv _ so3Closed_e1

theorem se2_drExp_mul_drExpinv (a : Vec ℝ 3) (h : SE2Closed a) :
    mmul (SE2.dr_exp a) (SE2.dr_expinv a) = ident 3 :=
  C04SE2.drExp_mul_drExpinv a h.1 h.2

theorem se2_drExpinv_mul_drExp (a : Vec ℝ 3) (h : SE2Closed a) :
    mmul (SE2.dr_expinv a) (SE2.dr_exp a) = ident 3 :=
  C04SE2.drExpinv_mul_drExp a h.1 h.2

/-- non-vacuity: `a = (2, 3, 1)` -/
theorem se2Closed_ex : SE2Closed (mk3 2 3 1) := by
  refine ⟨?_, ?_⟩
  · show Scalar.eps2 < (1:ℝ) * 1
    rw [C04SO3.eps2_real]; norm_num
  · show Real.sin 1 ≠ 0
    exact (Real.sin_pos_of_pos_of_lt_pi one_pos (by linarith [Real.two_le_pi])).ne'

example : mmul (SE2.dr_exp (mk3 2 3 1)) (SE2.dr_expinv (mk3 (2:ℝ) 3 1)) = ident 3 :=
  se2_drExp_mul_drExpinv _ se2Closed_ex

/-- SE3: `[[J, Q],[0, J]] · [[J⁻¹, −J⁻¹QJ⁻¹],[0, J⁻¹]] = I` whenever the rotational part is in the
    closed branch; no condition on the translational part. -/
theorem se3_drExp_mul_drExpinv (a : Vec ℝ 6) (h : SO3Closed (SE3.tw a)) :
    mmul (SE3.dr_exp a) (SE3.dr_expinv a) = ident 6 :=
  C04SE3.drExp_mul_drExpinv a h.1 h.2

theorem se3_drExpinv_mul_drExp (a : Vec ℝ 6) (h : SO3Closed (SE3.tw a)) :
    mmul (SE3.dr_expinv a) (SE3.dr_exp a) = ident 6 :=
  C04SE3.drExpinv_mul_drExp a h.1 h.2

/-- non-vacuity: `a = (5, −7, 11; 1, 0, 0)` -/
example : mmul (SE3.dr_exp (SE3.mk6 (mk3 5 (-7) 11) (mk3 1 0 0)))
    (SE3.dr_expinv (SE3.mk6 (mk3 (5:ℝ) (-7) 11) (mk3 1 0 0))) = ident 6 :=
  se3_drExp_mul_drExpinv _ (by
    have : SE3.tw (SE3.mk6 (mk3 (5:ℝ) (-7) 11) (mk3 1 0 0)) = mk3 1 0 0 := by
      ext i; fin_cases i <;> rfl
    rw [this]; exact so3Closed_e1)

/-! ### left Jacobians -/

/-- `dl_exp a = dr_exp (−a)`, `dl_expinv a = dr_expinv (−a)` for every group model (the
    LieGroupBase members are defined this way). -/
theorem dlExp_def (G : LieModel ℝ) (a : Vec ℝ G.dof) :
    G.dl_exp a = G.dr_exp (vneg a) ∧ G.dl_expinv a = G.dr_expinv (vneg a) := ⟨rfl, rfl⟩

/-- SO3, closed branch: `dl_exp a = Ad (exp a) · dr_exp a`. -/
theorem so3_dlExp_eq_Ad_drExp (a : Vec ℝ 3) (h : Scalar.eps2 < sqNorm a) :
    (SO3.model (α := ℝ)).dl_exp a = mmul (SO3.Ad (SO3.exp a)) (SO3.dr_exp a) :=
  C04SO3.drExp_neg_eq_Ad_mul_drExp a h

example : (SO3.model (α := ℝ)).dl_exp (mk3 1 0 0)
    = mmul (SO3.Ad (SO3.exp (mk3 1 0 0))) (SO3.dr_exp (mk3 1 0 0)) :=
  so3_dlExp_eq_Ad_drExp _ so3Closed_e1.1

/-- the closed-branch SO3 Jacobians and `Ad (exp a)` are the polynomials in `â` of the textbook:
    `J_r = I − (1−cos θ)/θ²·â + (θ−sin θ)/θ³·â²`, `J_r⁻¹ = I + â/2 + (1/θ² − (1+cos θ)/(2θ sin θ))·â²`,
    `Ad(exp a) = I + (sin θ/θ)·â + ((1−cos θ)/θ²)·â²`. -/
theorem so3_closed_forms (a : Vec ℝ 3) (h : Scalar.eps2 < sqNorm a) :
    SO3.dr_exp a = C04Alg.poly2 (SO3.hat a) (C04SO3.αr (sqNorm a)) (C04SO3.βr (sqNorm a)) ∧
    SO3.dr_expinv a = C04Alg.poly2 (SO3.hat a) (1 / 2) (C04SO3.Ainv (sqNorm a)) ∧
    SO3.Ad (SO3.exp a) = C04Alg.poly2 (SO3.hat a) (C04SO3.ρr (sqNorm a)) (C04SO3.σr (sqNorm a)) :=
  ⟨C04SO3.dr_exp_closed a h, C04SO3.dr_expinv_closed a (not_lt.2 h.le),
    C04SO3.matrix_exp_closed a h⟩

/-! ### `dr_action` -/

/-- SO3: `dr_action g v · d = R·(hat d)·v` (`= −R·hat(v)·d = R·(d × v)`), all `g v d`. -/
theorem so3_dr_action_def (g : Vec ℝ 4) (v d : Vec ℝ 3) :
    mulVec (SO3.dr_action g v) d = mulVec (mmul (SO3.matrix g) (SO3.hat d)) v :=
  C04Action.so3_dr_action g v d

/-- SE3: `dr_action g v · d` = first three rows of `M(g)·hat(d)·(v,1)`; the fourth row is 0. -/
theorem se3_dr_action_def (g : Vec ℝ 7) (v : Vec ℝ 3) (d : Vec ℝ 6) :
    (∀ i : Fin 3, (mulVec (SE3.dr_action g v) d) i
      = (mulVec (mmul (SE3.matrix g) (SE3.hat d)) (C04Action.embed3 v)) ⟨i.val, by omega⟩) ∧
    (mulVec (mmul (SE3.matrix g) (SE3.hat d)) (C04Action.embed3 v)) 3 = 0 :=
  ⟨C04Action.se3_dr_action g v d, C04Action.se3_dr_action_row3 g v d⟩

/-- Galilei: `dr_action g x · d` = first four rows of `M(g)·hat(d)·(x,1)`; the fifth row is 0. -/
theorem galilei_dr_action_def (g : Vec ℝ 11) (x : Vec ℝ 4) (d : Vec ℝ 10) :
    (∀ i : Fin 4, (mulVec (Galilei.dr_action g x) d) i
      = (mulVec (mmul (Galilei.matrix g) (Galilei.hat d)) (C04Action.embed4 x)) ⟨i.val, by omega⟩) ∧
    (mulVec (mmul (Galilei.matrix g) (Galilei.hat d)) (C04Action.embed4 x)) 4 = 0 :=
  ⟨C04Action.galilei_dr_action g x d, C04Action.galilei_dr_action_row4 g x d⟩

/-! ### `dr_rminus`, `dr_rminus_squarednorm` -/

/-- `dr_rminus(e) = dr_expinv(e)` and `dr_rminus_squarednorm(e) = eᵀ·dr_expinv(e)` (entrywise, as
    the model's left-to-right sum). -/
theorem dr_rminus_def (G : LieModel ℝ) (e : Vec ℝ G.dof) :
    Derivs.dr_rminus G e = G.dr_expinv e := rfl

theorem dr_rminus_squarednorm_def (G : LieModel ℝ) (e : Vec ℝ G.dof) (j : Fin G.dof) :
    (Derivs.dr_rminus_squarednorm G e) j = ∑ l, e l * (G.dr_expinv e) l j := by
  simp only [Derivs.dr_rminus_squarednorm, Vec.of_get, C05Alg.vsum_eq_sum]

/-! ### statements not yet proved (targets of DESIGN.md §C04 kept for later rounds) -/

/-- the ODE characterisation `d/dt (t·J(t a)) = Ad(exp(−t a))` of the right Jacobian (SO3) -/
def so3_drExp_ode_statement : Prop :=
  ∀ (a : Vec ℝ 3) (t : ℝ), Scalar.eps2 < sqNorm (vsmul t a) → ∀ i j : Fin 3,
    HasDerivAt (fun u : ℝ => u * (SO3.dr_exp (vsmul u a)) i j)
      ((SO3.Ad (SO3.exp (vneg (vsmul t a)))) i j) t

/-- Taylor-branch truncation bound for the coefficient of `calc_S1inv` -/
def so3_S1invA_taylor_bound_statement : Prop :=
  ∀ x : ℝ, 0 < x → x < Scalar.eps2 →
    |SO3.S1invA x - C04SO3.Ainv x| ≤ 1 / 1000000000000

end C04
