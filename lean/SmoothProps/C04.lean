/-
  C04 — First-order derivative formulas are the true Jacobians (property theorems).

  Proved here (over ℝ, on the model = the expression trees of detail/so3.hpp, se2.hpp, se3.hpp,
  galilei.hpp, derivatives_impl.hpp):
  * `dr_exp a · dr_expinv a = I` and `dr_expinv a · dr_exp a = I` in the closed-form branch
    (`eps2 < θ²`, `sin θ ≠ 0`) for SO3, SE2, SE3, SE_K(3) (every k), Galilei (block algebra, any
    `Q`/`R`/`S2` blocks), and for every Bundle composition (`bundle_drExp_mul_drExpinv`, lifting by
    induction over the list of parts; `bundle_dlExp_eq_Ad_drExp` likewise);
  * `dl_exp a = dr_exp (−a)` (definition of the LieGroupBase members) and, for SO3,
    `dr_exp (−a) = Ad (exp a) · dr_exp a` (Rodrigues algebra, closed branch);
  * `dr_action g v · d = point (M g · hat d · embed v)` for SO3, SE3, Galilei (all g, v, d);
  * `dr_rminus`, `dr_rminus_squarednorm` unfold to `dr_expinv e`, `eᵀ·dr_expinv e`.
  * Taylor-branch truncation bounds for the `dr_expinv` coefficient (`SO3.S1invA`, `SE2.drExpinvA`)
    and the induced entrywise bounds.
  * SO3, SE2, SE3 and Galilei (all 100 entries, `calculate_r`/`S2` blocks included):
    `dr_exp a = Σ_k (−1)^k ad(a)^k/(k+1)!` (HasSum, closed branch); SO3 also
    `dr_exp a = ∫₀¹ Ad(exp(−s a)) ds` and `d/dt (t·dr_exp(t a)) = Ad(exp(−t a))`.
  (Truncation bounds for `dr_exp` itself in the series branch: `so3_/se2_dr_exp_taylor_bound`,
  `se3_calculate_q_taylor_bound`.)
-/
import SmoothProofs.C04SO3
import SmoothProofs.C04SE2
import SmoothProofs.C04SE3
import SmoothProofs.C04Action
import SmoothProofs.C04Taylor
import SmoothProofs.C04Ode
import SmoothProofs.C04Series
import SmoothProofs.C04SEK3
import SmoothProofs.C04Galilei
import SmoothProofs.C04Bundle
import SmoothProofs.C04SeriesSE3
import SmoothProofs.C04SeriesGalE
import SmoothProofs.C04TaylorExp
import Mathlib.Analysis.Calculus.Deriv.Basic

open Lin Scalar

namespace C04

/-- closed-form branch of the SO3 Jacobians: `θ² > eps2` (so both `dr_exp` and `dr_expinv` take
    their trigonometric branch) and `sin θ ≠ 0` (θ is not a multiple of π; in particular `θ < π`). -/
def SO3Closed (w : Vec ℝ 3) : Prop :=
  Scalar.eps2 < sqNorm w ∧ Real.sin (Real.sqrt (sqNorm w)) ≠ 0

/-- closed-form branch of the SE2 Jacobians (`θ = a 2`). -/
def SE2Closed (a : Vec ℝ 3) : Prop :=
  Scalar.eps2 < a 2 * a 2 ∧ Real.sin (a 2) ≠ 0

/-! ### `dr_expinv` is the matrix inverse of `dr_exp` -/

theorem so3_drExp_mul_drExpinv (a : Vec ℝ 3) (h : SO3Closed a) :
    mmul (SO3.dr_exp a) (SO3.dr_expinv a) = ident 3 :=
  C04SO3.drExp_mul_drExpinv a h.1 h.2

theorem so3_drExpinv_mul_drExp (a : Vec ℝ 3) (h : SO3Closed a) :
    mmul (SO3.dr_expinv a) (SO3.dr_exp a) = ident 3 :=
  C04SO3.drExpinv_mul_drExp a h.1 h.2

/-- non-vacuity: `a = (1, 0, 0)` (θ = 1) is in the closed branch -/
theorem so3Closed_e1 : SO3Closed (mk3 1 0 0) := by
  have h : sqNorm (mk3 (1:ℝ) 0 0) = 1 := by simp [C04Alg.sqNorm3, mk3]
  refine ⟨?_, ?_⟩
  · rw [h, C04SO3.eps2_real]; norm_num
  · rw [h, Real.sqrt_one]
    exact (Real.sin_pos_of_pos_of_lt_pi one_pos (by linarith [Real.two_le_pi])).ne'

example : mmul (SO3.dr_exp (mk3 1 0 0)) (SO3.dr_expinv (mk3 (1:ℝ) 0 0)) = ident 3 :=
  so3_drExp_mul_drExpinv _ so3Closed_e1

theorem se2_drExp_mul_drExpinv (a : Vec ℝ 3) (h : SE2Closed a) :
    mmul (SE2.dr_exp a) (SE2.dr_expinv a) = ident 3 :=
  C04SE2.drExp_mul_drExpinv a h.1 h.2

theorem se2_drExpinv_mul_drExp (a : Vec ℝ 3) (h : SE2Closed a) :
    mmul (SE2.dr_expinv a) (SE2.dr_exp a) = ident 3 :=
  C04SE2.drExpinv_mul_drExp a h.1 h.2

/-- non-vacuity: `a = (2, 3, 1)` -/
theorem se2Closed_ex : SE2Closed (mk3 2 3 1) := by
  refine ⟨?_, ?_⟩
  · show Scalar.eps2 < (1:ℝ) * 1
    rw [C04SO3.eps2_real]; norm_num
  · show Real.sin 1 ≠ 0
    exact (Real.sin_pos_of_pos_of_lt_pi one_pos (by linarith [Real.two_le_pi])).ne'

example : mmul (SE2.dr_exp (mk3 2 3 1)) (SE2.dr_expinv (mk3 (2:ℝ) 3 1)) = ident 3 :=
  se2_drExp_mul_drExpinv _ se2Closed_ex

/-- SE3: `[[J, Q],[0, J]] · [[J⁻¹, −J⁻¹QJ⁻¹],[0, J⁻¹]] = I` whenever the rotational part is in the
    closed branch; no condition on the translational part. -/
theorem se3_drExp_mul_drExpinv (a : Vec ℝ 6) (h : SO3Closed (SE3.tw a)) :
    mmul (SE3.dr_exp a) (SE3.dr_expinv a) = ident 6 :=
  C04SE3.drExp_mul_drExpinv a h.1 h.2

theorem se3_drExpinv_mul_drExp (a : Vec ℝ 6) (h : SO3Closed (SE3.tw a)) :
    mmul (SE3.dr_expinv a) (SE3.dr_exp a) = ident 6 :=
  C04SE3.drExpinv_mul_drExp a h.1 h.2

/-- non-vacuity: `a = (5, −7, 11; 1, 0, 0)` -/
example : mmul (SE3.dr_exp (SE3.mk6 (mk3 5 (-7) 11) (mk3 1 0 0)))
    (SE3.dr_expinv (SE3.mk6 (mk3 (5:ℝ) (-7) 11) (mk3 1 0 0))) = ident 6 :=
  se3_drExp_mul_drExpinv _ (by
    have : SE3.tw (SE3.mk6 (mk3 (5:ℝ) (-7) 11) (mk3 1 0 0)) = mk3 1 0 0 := by
      ext i; fin_cases i <;> rfl
    rw [this]; exact so3Closed_e1)

/-- SE_K(3), EVERY `k`: arrow block structure `J` on the diagonal, `Q_i` in the last block column;
    inverse `J⁻¹`, `−J⁻¹Q_iJ⁻¹`. -/
theorem sek3_drExp_mul_drExpinv (k : Nat) (a : Vec ℝ (3 + 3 * k)) (h : SO3Closed (SEK3.tw k a)) :
    mmul (SEK3.dr_exp k a) (SEK3.dr_expinv k a) = ident (3 + 3 * k) :=
  C04SEK3.drExp_mul_drExpinv a h.1 h.2

theorem sek3_drExpinv_mul_drExp (k : Nat) (a : Vec ℝ (3 + 3 * k)) (h : SO3Closed (SEK3.tw k a)) :
    mmul (SEK3.dr_expinv k a) (SEK3.dr_exp k a) = ident (3 + 3 * k) :=
  C04SEK3.drExpinv_mul_drExp a h.1 h.2

/-- non-vacuity: `k = 2`, `a = (v₁, v₂, ω) = (1,2,3, 4,5,6, 1,0,0)` -/
example : SO3Closed (SEK3.tw 2 (SEK3.mkT 2 (fun i => if i = 0 then mk3 1 2 3 else mk3 4 5 6) (mk3 (1:ℝ) 0 0))) := by
  rw [C03.SEK3.tw_mkT]; exact so3Closed_e1

/-- Galilei (10×10, blocks `b q s ω`): `dr_exp·dr_expinv = I` needs only `S1·S1inv = I` of the rotational
    part — it holds for ANY `S2`, `calculate_q`, `calculate_r` blocks. -/
theorem galilei_drExp_mul_drExpinv (a : Vec ℝ 10) (h : SO3Closed (Galilei.tw a)) :
    mmul (Galilei.dr_exp a) (Galilei.dr_expinv a) = ident 10 :=
  C04Galilei.drExp_mul_drExpinv a h.1 h.2

theorem galilei_drExpinv_mul_drExp (a : Vec ℝ 10) (h : SO3Closed (Galilei.tw a)) :
    mmul (Galilei.dr_expinv a) (Galilei.dr_exp a) = ident 10 :=
  C04Galilei.drExpinv_mul_drExp a h.1 h.2

/-- non-vacuity: `a = (b, q, s, ω) = (1,2,3, 4,5,6, 7, 1,0,0)` -/
example : SO3Closed (Galilei.tw (Galilei.mkT (mk3 1 2 3) (mk3 4 5 6) 7 (mk3 (1:ℝ) 0 0))) := by
  have : Galilei.tw (Galilei.mkT (mk3 1 2 3) (mk3 4 5 6) 7 (mk3 (1:ℝ) 0 0)) = mk3 1 0 0 := by
    ext i; fin_cases i <;> rfl
  rw [this]; exact so3Closed_e1

/-! ### left Jacobians -/

/-- `dl_exp a = dr_exp (−a)`, `dl_expinv a = dr_expinv (−a)` for every group model (the
    LieGroupBase members are defined this way). -/
theorem dlExp_def (G : LieModel ℝ) (a : Vec ℝ G.dof) :
    G.dl_exp a = G.dr_exp (vneg a) ∧ G.dl_expinv a = G.dr_expinv (vneg a) := ⟨rfl, rfl⟩

/-- SO3, closed branch: `dl_exp a = Ad (exp a) · dr_exp a`. -/
theorem so3_dlExp_eq_Ad_drExp (a : Vec ℝ 3) (h : Scalar.eps2 < sqNorm a) :
    (SO3.model (α := ℝ)).dl_exp a = mmul (SO3.Ad (SO3.exp a)) (SO3.dr_exp a) :=
  C04SO3.drExp_neg_eq_Ad_mul_drExp a h

example : (SO3.model (α := ℝ)).dl_exp (mk3 1 0 0)
    = mmul (SO3.Ad (SO3.exp (mk3 1 0 0))) (SO3.dr_exp (mk3 1 0 0)) :=
  so3_dlExp_eq_Ad_drExp _ so3Closed_e1.1

/-- the closed-branch SO3 Jacobians and `Ad (exp a)` are the polynomials in `â` of the textbook:
    `J_r = I − (1−cos θ)/θ²·â + (θ−sin θ)/θ³·â²`, `J_r⁻¹ = I + â/2 + (1/θ² − (1+cos θ)/(2θ sin θ))·â²`,
    `Ad(exp a) = I + (sin θ/θ)·â + ((1−cos θ)/θ²)·â²`. -/
theorem so3_closed_forms (a : Vec ℝ 3) (h : Scalar.eps2 < sqNorm a) :
    SO3.dr_exp a = C04Alg.poly2 (SO3.hat a) (C04SO3.αr (sqNorm a)) (C04SO3.βr (sqNorm a)) ∧
    SO3.dr_expinv a = C04Alg.poly2 (SO3.hat a) (1 / 2) (C04SO3.Ainv (sqNorm a)) ∧
    SO3.Ad (SO3.exp a) = C04Alg.poly2 (SO3.hat a) (C04SO3.ρr (sqNorm a)) (C04SO3.σr (sqNorm a)) :=
  ⟨C04SO3.dr_exp_closed a h, C04SO3.dr_expinv_closed a (not_lt.2 h.le),
    C04SO3.matrix_exp_closed a h⟩

/-! ### every Bundle composition -/

/-- `P` holds for every part of `Bundle.bundle ps` at the corresponding segment of `a` (a nested
    Bundle is a part `Bundle.bundle qs`, for which `P` follows again from its parts). -/
abbrev AllParts := @C04Bundle.AllParts

/-- both inverse relations at `a` -/
abbrev InvAt : C04Bundle.PointProp := C04Bundle.InvAt
/-- `dl_exp a = Ad (exp a) · dr_exp a` -/
abbrev DlAt : C04Bundle.PointProp := C04Bundle.DlAt

theorem allParts_nil (P : C04Bundle.PointProp) (a : Vec ℝ (Bundle.bundle ([] : List (LieModel ℝ))).dof) :
    AllParts P [] a := trivial

theorem allParts_cons (P : C04Bundle.PointProp) (p : LieModel ℝ) (ps : List (LieModel ℝ))
    (a : Vec ℝ (Bundle.bundle (p :: ps)).dof) :
    AllParts P (p :: ps) a ↔
      (P p (Bundle.fst (n := p.dof) (m := (Bundle.bundle ps).dof) a) ∧
        AllParts P ps (Bundle.snd (n := p.dof) (m := (Bundle.bundle ps).dof) a)) := Iff.rfl

/-- Bundle: `dr_exp·dr_expinv = I = dr_expinv·dr_exp` for `Bundle.bundle ps`, any list of parts (any
    order, repetition, nesting), as soon as it holds for the parts. -/
theorem bundle_drExp_mul_drExpinv (ps : List (LieModel ℝ)) (a : Vec ℝ (Bundle.bundle ps).dof)
    (h : AllParts InvAt ps a) :
    mmul ((Bundle.bundle ps).dr_exp a) ((Bundle.bundle ps).dr_expinv a) = ident (Bundle.bundle ps).dof ∧
    mmul ((Bundle.bundle ps).dr_expinv a) ((Bundle.bundle ps).dr_exp a) = ident (Bundle.bundle ps).dof :=
  C04Bundle.invAt_bundle ps a h

theorem prod_drExp_mul_drExpinv (A B : LieModel ℝ) (a : Vec ℝ (A.dof + B.dof))
    (hA : InvAt A (Bundle.fst a)) (hB : InvAt B (Bundle.snd a)) : InvAt (Bundle.prod A B) a :=
  C04Bundle.invAt_prod A B a hA hB

/-- Bundle: `dl_exp a = Ad(exp a)·dr_exp a` lifts from the parts. -/
theorem bundle_dlExp_eq_Ad_drExp (ps : List (LieModel ℝ)) (a : Vec ℝ (Bundle.bundle ps).dof)
    (h : AllParts DlAt ps a) :
    (Bundle.bundle ps).dl_exp a
      = mmul ((Bundle.bundle ps).Ad ((Bundle.bundle ps).exp a)) ((Bundle.bundle ps).dr_exp a) :=
  C04Bundle.dlAt_bundle ps a h

theorem prod_dlExp_eq_Ad_drExp (A B : LieModel ℝ) (a : Vec ℝ (A.dof + B.dof))
    (hA : DlAt A (Bundle.fst a)) (hB : DlAt B (Bundle.snd a)) : DlAt (Bundle.prod A B) a :=
  C04Bundle.dlAt_prod A B a hA hB

/-- the part facts that feed `AllParts`: the non-commutative groups in their closed branch … -/
theorem so3_invAt (a : Vec ℝ 3) (h : SO3Closed a) : InvAt (SO3.model : LieModel ℝ) a :=
  ⟨so3_drExp_mul_drExpinv a h, so3_drExpinv_mul_drExp a h⟩
theorem se2_invAt (a : Vec ℝ 3) (h : SE2Closed a) : InvAt (SE2.model : LieModel ℝ) a :=
  ⟨se2_drExp_mul_drExpinv a h, se2_drExpinv_mul_drExp a h⟩
theorem se3_invAt (a : Vec ℝ 6) (h : SO3Closed (SE3.tw a)) : InvAt (SE3.model : LieModel ℝ) a :=
  ⟨se3_drExp_mul_drExpinv a h, se3_drExpinv_mul_drExp a h⟩
theorem galilei_invAt (a : Vec ℝ 10) (h : SO3Closed (Galilei.tw a)) :
    InvAt (Galilei.model : LieModel ℝ) a :=
  ⟨galilei_drExp_mul_drExpinv a h, galilei_drExpinv_mul_drExp a h⟩
theorem sek3_invAt (k : Nat) (a : Vec ℝ (3 + 3 * k)) (h : SO3Closed (SEK3.tw k a)) :
    InvAt (SEK3.model k : LieModel ℝ) a :=
  ⟨sek3_drExp_mul_drExpinv k a h, sek3_drExpinv_mul_drExp k a h⟩
theorem so3_dlAt (a : Vec ℝ 3) (h : Scalar.eps2 < sqNorm a) : DlAt (SO3.model : LieModel ℝ) a :=
  so3_dlExp_eq_Ad_drExp a h

/-- … and the commutative groups / vectors / scalars everywhere (`J = Ad = I`). -/
theorem comm_invAt_dlAt :
    (∀ a, InvAt (SO2.model : LieModel ℝ) a ∧ DlAt (SO2.model : LieModel ℝ) a) ∧
    (∀ a, InvAt (C1.model : LieModel ℝ) a ∧ DlAt (C1.model : LieModel ℝ) a) ∧
    (∀ (n : Nat) a, InvAt (Tn.model n : LieModel ℝ) a ∧ DlAt (Tn.model n : LieModel ℝ) a) :=
  ⟨fun a => ⟨C04Bundle.invAt_of_ident _ a rfl rfl, C04Bundle.dlAt_of_ident _ a (fun _ => rfl) (fun _ => rfl)⟩,
   fun a => ⟨C04Bundle.invAt_of_ident _ a rfl rfl, C04Bundle.dlAt_of_ident _ a (fun _ => rfl) (fun _ => rfl)⟩,
   fun _ a => ⟨C04Bundle.invAt_of_ident _ a rfl rfl, C04Bundle.dlAt_of_ident _ a (fun _ => rfl) (fun _ => rfl)⟩⟩

/-- non-vacuity: the nested bundle `B[SO3, B[T2, SO3]]` at `a = (1,0,0 | 5,6 | 1,0,0)` satisfies
    the hypothesis of `bundle_drExp_mul_drExpinv`. -/
example : AllParts InvAt
    [(SO3.model : LieModel ℝ), Bundle.bundle [(Tn.model 2 : LieModel ℝ), (SO3.model : LieModel ℝ)]]
    (vcat (mk3 (1:ℝ) 0 0) (vcat (vcat (mk2 (5:ℝ) 6) (vcat (mk3 (1:ℝ) 0 0) (vzero 0))) (vzero 0))) := by
  refine ⟨?_, ?_, trivial⟩
  · erw [C06.fst_vcat]; exact so3_invAt _ so3Closed_e1
  · erw [C06.snd_vcat, C06.fst_vcat]
    refine C04Bundle.invAt_bundle _ _ ⟨?_, ?_, trivial⟩
    · erw [C06.fst_vcat]; exact (comm_invAt_dlAt.2.2 2 _).1
    · erw [C06.snd_vcat, C06.fst_vcat]; exact so3_invAt _ so3Closed_e1

/-! ### `dr_action` -/

/-- SO3: `dr_action g v · d = R·(hat d)·v` (`= −R·hat(v)·d = R·(d × v)`), all `g v d`. -/
theorem so3_dr_action_def (g : Vec ℝ 4) (v d : Vec ℝ 3) :
    mulVec (SO3.dr_action g v) d = mulVec (mmul (SO3.matrix g) (SO3.hat d)) v :=
  C04Action.so3_dr_action g v d

/-- SE3: `dr_action g v · d` = first three rows of `M(g)·hat(d)·(v,1)`; the fourth row is 0. -/
theorem se3_dr_action_def (g : Vec ℝ 7) (v : Vec ℝ 3) (d : Vec ℝ 6) :
    (∀ i : Fin 3, (mulVec (SE3.dr_action g v) d) i
      = (mulVec (mmul (SE3.matrix g) (SE3.hat d)) (C04Action.embed3 v)) ⟨i.val, by omega⟩) ∧
    (mulVec (mmul (SE3.matrix g) (SE3.hat d)) (C04Action.embed3 v)) 3 = 0 :=
  ⟨C04Action.se3_dr_action g v d, C04Action.se3_dr_action_row3 g v d⟩

/-- Galilei: `dr_action g x · d` = first four rows of `M(g)·hat(d)·(x,1)`; the fifth row is 0. -/
theorem galilei_dr_action_def (g : Vec ℝ 11) (x : Vec ℝ 4) (d : Vec ℝ 10) :
    (∀ i : Fin 4, (mulVec (Galilei.dr_action g x) d) i
      = (mulVec (mmul (Galilei.matrix g) (Galilei.hat d)) (C04Action.embed4 x)) ⟨i.val, by omega⟩) ∧
    (mulVec (mmul (Galilei.matrix g) (Galilei.hat d)) (C04Action.embed4 x)) 4 = 0 :=
  ⟨C04Action.galilei_dr_action g x d, C04Action.galilei_dr_action_row4 g x d⟩

/-! ### `dr_rminus`, `dr_rminus_squarednorm` -/

/-- `dr_rminus(e) = dr_expinv(e)` and `dr_rminus_squarednorm(e) = eᵀ·dr_expinv(e)` (entrywise, as
    the model's left-to-right sum). -/
theorem dr_rminus_def (G : LieModel ℝ) (e : Vec ℝ G.dof) :
    Derivs.dr_rminus G e = G.dr_expinv e := rfl

theorem dr_rminus_squarednorm_def (G : LieModel ℝ) (e : Vec ℝ G.dof) (j : Fin G.dof) :
    (Derivs.dr_rminus_squarednorm G e) j = ∑ l, e l * (G.dr_expinv e) l j := by
  simp only [Derivs.dr_rminus_squarednorm, Vec.of_get, C05Alg.vsum_eq_sum]

/-! ### `dr_exp` is the right Jacobian of `exp`: `J(a) = ∫₀¹ Ad(exp(−s a)) ds` (SO3) -/

/-- entry `(j, r)` of the Rodrigues rotation `exp(−u·â) = I − (sin uθ/θ)·â + ((1−cos uθ)/θ²)·â²` -/
noncomputable abbrev Rod (a : Vec ℝ 3) (j r : Fin 3) (u : ℝ) : ℝ := C04Ode.Rod a j r u

/-- wherever the code evaluates `exp(−u a)` in its closed branch (`eps2 < u²θ²`), `Rod a · · u` is
    the model's `Ad (exp (−u a))` -/
theorem so3_Rod_eq_Ad_exp (a : Vec ℝ 3) (u : ℝ) (h : Scalar.eps2 < sqNorm (vsmul u a)) (j r : Fin 3) :
    Rod a j r u = (SO3.Ad (SO3.exp (vneg (vsmul u a)))) j r :=
  C04Ode.Rod_eq_Ad_exp a u h j r

/-- SO3, closed branch: `dr_exp a = ∫₀¹ exp(−s·â) ds` entrywise — the textbook definition of the
    right Jacobian (equal to `Σ (−1)^k ad(a)^k/(k+1)!`). -/
theorem so3_drExp_eq_integral (a : Vec ℝ 3) (h : Scalar.eps2 < sqNorm a) (j r : Fin 3) :
    (SO3.dr_exp a) j r = ∫ s in (0:ℝ)..1, Rod a j r s :=
  C04Ode.drExp_eq_integral a h j r

/-- SO3: the ODE form on the model itself, `d/du (u·dr_exp(u a))|_{u=t} = Ad(exp(−t a))`, at every `t`
    whose scaled argument `t a` is in the closed branch. -/
theorem so3_drExp_ode (a : Vec ℝ 3) (t : ℝ) (h : Scalar.eps2 < sqNorm (vsmul t a)) (j r : Fin 3) :
    HasDerivAt (fun u => u * (SO3.dr_exp (vsmul u a)) j r)
      ((SO3.Ad (SO3.exp (vneg (vsmul t a)))) j r) t :=
  C04Ode.drExp_ode a t h j r

/-- non-vacuity: `a = (1,0,0)`, `t = 1` -/
example : Scalar.eps2 < sqNorm (vsmul (1:ℝ) (mk3 (1:ℝ) 0 0)) := by
  have h : sqNorm (vsmul (1:ℝ) (mk3 (1:ℝ) 0 0)) = 1 := by simp [C04Alg.sqNorm3, mk3, vsmul]
  rw [h, C04SO3.eps2_real]; norm_num

/-- SO3, closed branch: `dr_exp a = Σ_k (−1)^k ad(a)^k/(k+1)!` entrywise (`ad a = â`, matrix powers
    in Mathlib's `Matrix`), the power-series definition of the right Jacobian. -/
theorem so3_drExp_eq_series (a : Vec ℝ 3) (h : Scalar.eps2 < sqNorm a) (j r : Fin 3) :
    HasSum (fun k : ℕ => (-1 : ℝ) ^ k / ((k + 1).factorial : ℝ)
      * ((Matrix.of (SO3.ad a).get : Matrix (Fin 3) (Fin 3) ℝ) ^ k) j r) ((SO3.dr_exp a) j r) :=
  C04Series.drExp_hasSum a h j r

/-- SE2, closed branch: the same power series with the SE2 `ad a`. -/
theorem se2_drExp_eq_series (a : Vec ℝ 3) (h : Scalar.eps2 < a 2 * a 2) (j r : Fin 3) :
    HasSum (fun k : ℕ => (-1 : ℝ) ^ k / ((k + 1).factorial : ℝ)
      * ((Matrix.of (SE2.ad a).get : Matrix (Fin 3) (Fin 3) ℝ) ^ k) j r) ((SE2.dr_exp a) j r) :=
  C04Series.se2_drExp_hasSum a h j r

/-- non-vacuity: `a = (2, 3, 1)` -/
example : Scalar.eps2 < (mk3 (2:ℝ) 3 1) 2 * (mk3 (2:ℝ) 3 1) 2 := se2Closed_ex.1

/-- SE3, closed branch: `dr_exp a = Σ_k (−1)^k ad(a)^k/(k+1)!` entrywise, all 36 entries — in
    particular the `calculate_q(−v, −ω)` block is the (1,2) block of the series.
    (`ad a = [[W,V],[0,W]]` satisfies `(X²+θ²)·X²·(X²+θ²) = 0`, so the even/odd powers are affine in
    `m` times `(−θ²)^m`; the four resulting scalar series are summed from the cos/sin series.) -/
theorem se3_drExp_eq_series (a : Vec ℝ 6) (h : Scalar.eps2 < sqNorm (SE3.tw a)) (j r : Fin 6) :
    HasSum (fun k : ℕ => (-1 : ℝ) ^ k / ((k + 1).factorial : ℝ)
      * ((Matrix.of (SE3.ad a).get : Matrix (Fin 6) (Fin 6) ℝ) ^ k) j r) ((SE3.dr_exp a) j r) :=
  C04SeriesSE3.se3_drExp_hasSum a h j r

/-! ### Galilei: the series characterisation (formerly stated only) -/

/-- the Galilei analogue of the series characterisation, as a statement (proved below:
    `galilei_drExp_series`) -/
def galilei_drExp_series_statement : Prop :=
  ∀ (a : Vec ℝ 10), Scalar.eps2 < sqNorm (Galilei.tw a) → ∀ j r : Fin 10,
    HasSum (fun k : ℕ => (-1 : ℝ) ^ k / ((k + 1).factorial : ℝ)
      * ((Matrix.of (Galilei.ad a).get : Matrix (Fin 10) (Fin 10) ℝ) ^ k) j r) ((Galilei.dr_exp a) j r)

/-- **Galilei, closed branch: `dr_exp a = Σ_k (−1)^k ad(a)^k/(k+1)!` entrywise, all 100 entries** —
    in particular the `calculate_r(−b, −ω)` block (with its `sin_5`, `cos_6` coefficients), the
    `s·(S1 − S2)` block and the `−S2·b` column ARE the corresponding blocks of the power series.
    (`X = ad a` has the three-step chain `ω → b → q`; it satisfies `X²(X² + θ²)³ = 0`
    (`C04SeriesGal.Z3_eq`), so `X^(2m+2) = (−θ²)^m (X² + m·Y₁ + m(m−1)/2·Y₂)`; the six resulting scalar
    series — two of them new, with weight `m(m−1)/2` — are summed from the cos/sin series and the
    closed form is compared with the model block by block.) -/
theorem galilei_drExp_eq_series (a : Vec ℝ 10) (h : Scalar.eps2 < sqNorm (Galilei.tw a)) (j r : Fin 10) :
    HasSum (fun k : ℕ => (-1 : ℝ) ^ k / ((k + 1).factorial : ℝ)
      * ((Matrix.of (Galilei.ad a).get : Matrix (Fin 10) (Fin 10) ℝ) ^ k) j r) ((Galilei.dr_exp a) j r) :=
  C04SeriesGal.gal_drExp_hasSum a h j r

theorem galilei_drExp_series : galilei_drExp_series_statement :=
  fun a h j r => galilei_drExp_eq_series a h j r

/-- the minimal-polynomial fact behind it, for the record: `X²·(X² + |ω|²)³ = 0` for
    `X = ad a`, every Galilei tangent `a` (any branch) -/
theorem galilei_ad_minimal_relation (a : Vec ℝ 10) :
    let X : Matrix (Fin 10) (Fin 10) ℝ := Matrix.of (Galilei.ad a).get
    let P := X ^ 2 + sqNorm (Galilei.tw a) • (1 : Matrix (Fin 10) (Fin 10) ℝ)
    X ^ 2 * (P * P * P) = 0 := by
  intro X P
  have hA : Galilei.ad a = C04SeriesGal.Xg (Galilei.tb a) (Galilei.tq a) (Galilei.tw a) (Galilei.ts a) :=
    C04SeriesGal.ad_gsh a
  have hX2 : X ^ 2 = toM (C04SeriesGal.X2g (Galilei.tb a) (Galilei.tq a) (Galilei.tw a) (Galilei.ts a)) := by
    show (toM (Galilei.ad a)) ^ 2 = _
    rw [hA, pow_two, ← toM_mmul, C04SeriesGal.X_sq]
  have hZ1 : X ^ 2 * P = toM (C04SeriesGal.Z1g (Galilei.tb a) (Galilei.tq a) (Galilei.tw a) (Galilei.ts a)) := by
    rw [← C04SeriesGal.Z1_eq, toM_madd, toM_mmul, C04SeriesGal.toM_msmul', ← hX2]
    simp only [P, Matrix.mul_add, Matrix.mul_smul, Matrix.mul_one]
  have hZ2 : X ^ 2 * P * P = toM (C04SeriesGal.Z2g (Galilei.tb a) (Galilei.tw a) (Galilei.ts a)) := by
    rw [← C04SeriesGal.Z2_eq, toM_madd, toM_mmul, C04SeriesGal.toM_msmul', ← hX2, ← hZ1]
    simp only [P, Matrix.mul_add, Matrix.add_mul, Matrix.mul_smul, Matrix.smul_mul, Matrix.mul_one]
    noncomm_ring
  have hZ3 := C04SeriesGal.Z3_eq (Galilei.tb a) (Galilei.tq a) (Galilei.tw a) (Galilei.ts a)
  have hZ3' : X ^ 2 * P * P * P = 0 := by
    have := congrArg toM hZ3
    rw [toM_madd, toM_mmul, C04SeriesGal.toM_msmul', ← hX2, ← hZ2, toM_mzero] at this
    rw [← this]
    simp only [P, Matrix.mul_add, Matrix.add_mul, Matrix.mul_smul, Matrix.smul_mul, Matrix.mul_one]
    noncomm_ring
  rw [← hZ3']
  noncomm_ring

/-- non-vacuity: `a = (1, …, 1)` is in the closed branch (`|ω|² = 3`) -/
example : Scalar.eps2 < sqNorm (Galilei.tw (.of (fun _ => 1) : Vec ℝ 10)) := by
  rw [C04Alg.sqNorm3, C04SO3.eps2_real]
  simp [Galilei.tw, mk3, Vec.of]
  norm_num

/-! ### Taylor-branch truncation bounds (series branch vs closed form) -/

/-- the `dr_expinv` coefficient `A(θ) = 1/θ² − (1+cos θ)/(2θ sin θ)` differs from the series
    `1/12 + θ²/720` used by the code by at most `θ⁴/10000` for `0 < θ ≤ 1/10` (true constant 1/30240). -/
theorem drExpinv_coefficient_taylor (θ : ℝ) (h0 : 0 < θ) (h1 : θ ≤ 1 / 10) :
    |(1 / θ ^ 2 - (1 + Real.cos θ) / (2 * θ * Real.sin θ)) - (1 / 12 + θ ^ 2 / 720)|
      ≤ θ ^ 4 / 10000 :=
  C04Taylor.Ainv_taylor θ h0 h1

/-- `SO3.S1invA` (argument `x = θ²`): series branch within `x²/10000 ≤ 1e-20` of the closed form. -/
theorem so3_S1invA_taylor_bound {x : ℝ} (h0 : 0 < x) (h1 : x < Scalar.eps2) :
    |SO3.S1invA x - C04SO3.Ainv x| ≤ x ^ 2 / 10000 :=
  C04Taylor.S1invA_series_bound h0 h1

/-- `SE2.drExpinvA`: series branch within `θ⁴/10000` of the closed form (`θ ≠ 0`, `θ² < eps2`). -/
theorem se2_drExpinvA_taylor_bound {θ : ℝ} (h0 : θ ≠ 0) (h1 : θ * θ < Scalar.eps2) :
    |SE2.drExpinvA θ (θ * θ) - C04SE2.Ae θ| ≤ θ ^ 4 / 10000 :=
  C04Taylor.drExpinvA_series_bound h0 h1

/-- non-vacuity: `x = 1e-10`, `θ = 1e-5` are in the series branch -/
example : (0:ℝ) < 1 / 10000000000 ∧ (1 / 10000000000 : ℝ) < Scalar.eps2 := by
  rw [C04SO3.eps2_real]; constructor <;> norm_num
example : (1 / 100000 : ℝ) ≠ 0 ∧ (1 / 100000 : ℝ) * (1 / 100000) < Scalar.eps2 := by
  rw [C04SO3.eps2_real]; constructor <;> norm_num

/-- entrywise: SO3 `dr_expinv` as computed in the series branch vs the closed form
    `I + â/2 + A(θ²)·â²` (which is the inverse of the closed-form `dr_exp` wherever `sin θ ≠ 0`). -/
theorem so3_dr_expinv_taylor_bound (a : Vec ℝ 3) (h0 : 0 < sqNorm a) (h1 : sqNorm a < Scalar.eps2)
    (i j : Fin 3) :
    |(SO3.dr_expinv a) i j - (C04Alg.poly2 (SO3.hat a) (1 / 2) (C04SO3.Ainv (sqNorm a))) i j|
      ≤ sqNorm a ^ 2 / 10000 * |(mmul (SO3.hat a) (SO3.hat a)) i j| :=
  C04Taylor.so3_dr_expinv_series_bound a h0 h1 i j

theorem se2_dr_expinv_taylor_bound (a : Vec ℝ 3) (h0 : a 2 ≠ 0) (h1 : a 2 * a 2 < Scalar.eps2)
    (i j : Fin 3) :
    |(SE2.dr_expinv a) i j - (C04Alg.poly2 (SE2.ad a) (1 / 2) (C04SE2.Ae (a 2))) i j|
      ≤ (a 2) ^ 4 / 10000 * |(mmul (SE2.ad a) (SE2.ad a)) i j| :=
  C04Taylor.se2_dr_expinv_series_bound a h0 h1 i j

/-! #### `dr_exp` itself in the series branch -/

/-- SO3 `dr_exp`, series branch (`0 < θ² ≤ eps2`): entrywise within
    `θ⁶·(9/322560)·|â| + θ⁶·(10/3265920)·|â²|` of the closed form `I + α·â + β·â²`
    (whose series / integral characterisation is `so3_drExp_eq_series`). -/
theorem so3_dr_exp_taylor_bound (a : Vec ℝ 3) (h0 : 0 < sqNorm a) (h1 : sqNorm a ≤ Scalar.eps2)
    (i j : Fin 3) :
    |(SO3.dr_exp a) i j - (C04Alg.poly2 (SO3.hat a) (C04SO3.αr (sqNorm a)) (C04SO3.βr (sqNorm a))) i j|
      ≤ sqNorm a ^ 3 * (9 / 322560) * |(SO3.hat a) i j|
        + sqNorm a ^ 3 * (10 / 3265920) * |(mmul (SO3.hat a) (SO3.hat a)) i j| :=
  C04TaylorExp.so3_dr_exp_series_bound a h0 h1 i j

/-- SE2 `dr_exp`, series branch (`θ = a_2 ≠ 0`, `θ² ≤ eps2`). -/
theorem se2_dr_exp_taylor_bound (a : Vec ℝ 3) (h0 : a 2 ≠ 0) (h1 : a 2 * a 2 ≤ Scalar.eps2)
    (i j : Fin 3) :
    |(SE2.dr_exp a) i j - (C04Alg.poly2 (SE2.ad a)
        ((Real.cos (Real.sqrt (a 2 * a 2)) - 1) / (a 2 * a 2))
        (-((Real.sin (Real.sqrt (a 2 * a 2)) - Real.sqrt (a 2 * a 2))
            / (a 2 * a 2 * Real.sqrt (a 2 * a 2))))) i j|
      ≤ (a 2 * a 2) ^ 3 * (9 / 322560) * |(SE2.ad a) i j|
        + (a 2 * a 2) ^ 3 * (10 / 3265920) * |(mmul (SE2.ad a) (SE2.ad a)) i j| :=
  C04TaylorExp.se2_dr_exp_series_bound a h0 h1 i j

/-- SE3: the `calculate_q` block (the diagonal blocks are `so3_dr_exp_taylor_bound`), series branch
    vs `Qclosed` — the closed-coefficient formula, which the model returns in the closed branch
    (`se3_calculate_q_closed`) and which is the (1,2) block of the power series there. -/
theorem se3_calculate_q_taylor_bound (v w : Vec ℝ 3) (h0 : 0 < sqNorm w) (h1 : sqNorm w ≤ Scalar.eps2)
    (i j : Fin 3) :
    |(SE3.calculate_q v w) i j - (C04TaylorExp.Qclosed v w) i j|
      ≤ sqNorm w ^ 3 * (10 / 3265920)
          * |(-((mmul (SO3.hat w) (SO3.hat v)) i j) - (mmul (SO3.hat v) (SO3.hat w)) i j)
              + dot v w * (SO3.hat w) i j|
        + sqNorm w ^ 3 * (11 / 36288000)
          * |((mmul (SO3.hat w) (mmul (SO3.hat w) (SO3.hat v))) i j
                + (mmul (mmul (SO3.hat v) (SO3.hat w)) (SO3.hat w)) i j)
              + dot v w * (3 * (SO3.hat w) i j - (mmul (SO3.hat w) (SO3.hat w)) i j)|
        + sqNorm w ^ 3 * (12 / 439084800)
          * |3 * dot v w * (mmul (SO3.hat w) (SO3.hat w)) i j| :=
  C04TaylorExp.calculate_q_series_bound v w h0 h1 i j

theorem se3_calculate_q_closed (v w : Vec ℝ 3) (h : Scalar.eps2 < sqNorm w) (i j : Fin 3) :
    (SE3.calculate_q v w) i j = (C04TaylorExp.Qclosed v w) i j :=
  C04TaylorExp.calculate_q_closed v w h i j

/-- non-vacuity: `a = (0, 0, 1e-5)` -/
example : (0:ℝ) < sqNorm (mk3 (0:ℝ) 0 (1 / 100000)) ∧ sqNorm (mk3 (0:ℝ) 0 (1 / 100000)) < Scalar.eps2 := by
  have h : sqNorm (mk3 (0:ℝ) 0 (1 / 100000)) = 1 / 10000000000 := by
    simp [C04Alg.sqNorm3, mk3]; norm_num
  rw [h, C04SO3.eps2_real]; constructor <;> norm_num

end C04
