/-
  SrcTieLogicC11 — `spline/detail/cumulative_spline_impl.hpp` regenerated from the C++ source on every run
  (`SmoothModel/Gen/LogicSrcC11.lean`, written by tools/gen_logic2.py) IS the hand-written model
  `SmoothModel/CSpline.lean` / `CSplineJac.lean` the theorems of C11 are about: the recursion of `cspline_eval_vs`
  (value, vel, acc, jerk update statements and their order), of `cspline_eval_dg_dvs` (the three block Jacobians and the
  running vel / acc), `cspline_eval_gs`, and the loop body / final correction of `cspline_eval_dg_dgs`.

  The ties are stated with all optional outputs requested (as the model is).  `memoV` / `memoM` of the model are the
  identity (`memoV_eq`, `memoM_eq`); after removing them both sides coincide definitionally — no arithmetic law is used, so
  operands, signs, coefficients and the ORDER of the update statements coincide.

  Theorem prefix: `cspline_`.
-/
import SmoothModel.CSpline
import SmoothModel.CSplineJac
import SmoothModel.Gen.LogicSrcC11

open Scalar Lin

namespace SrcTieLogic
variable {α : Type} [Scalar α] {K : Nat}

section cspline
open CSpline
variable (G : LieModel α)

/-- one iteration of `cspline_eval_vs`: `g`, then `vel` (Ad-transport, `+= dBj vj`), `acc` (three statements), `jer`
    (five statements), each using the already-updated lower-order quantities exactly as the source does -/
theorem cspline_eval_vs_step (U0 U1 U2 U3 : Vec α (K + 1)) (Bcum : Mat α (K + 1) (K + 1)) (j : Fin (K + 1)) (vj : Vec α G.dof)
    (s : St α G) :
    step G (bdot U0 Bcum j) (bdot U1 Bcum j) (bdot U2 Bcum j) (bdot U3 Bcum j) vj s =
      LogicSrc.CSpline_eval_vs_body G U0 U1 U2 U3 Bcum j vj s := by
  unfold step LogicSrc.CSpline_eval_vs_body
  simp only [memoV_eq, memoM_eq]
  rfl

/-- `cspline_eval_vs`: rows 0..3 of `monomial_derivatives<K,3>(u)`, zero-initialised outputs, identity start, the loop
    pairing `vs[i]` with column `i + 1` of `Bcum` -/
theorem cspline_eval_vs (vs : Fin K → Vec α G.dof) (Bcum : Mat α (K + 1) (K + 1)) (u : α) :
    eval_vs G vs Bcum u = LogicSrc.CSpline_eval_vs G vs Bcum u := by
  unfold eval_vs LogicSrc.CSpline_eval_vs
  simp only [memoV_eq, cspline_eval_vs_step]

/-- `cspline_eval_gs`: differences `rminus(g_{i+1}, g_i)` and the final left composition with `g_0` -/
theorem cspline_eval_gs (gs : Fin (K + 1) → Vec α G.rep) (Bcum : Mat α (K + 1) (K + 1)) (u : α) :
    eval_gs G gs Bcum u = LogicSrc.CSpline_eval_gs G gs Bcum u := by
  unfold eval_gs LogicSrc.CSpline_eval_gs LogicSrc.CSpline_sub diffs
  simp only [memoV_eq, cspline_eval_vs]

/-- one iteration of `cspline_eval_dg_dvs` -/
theorem cspline_dg_dvs_step (U0 U1 U2 : Vec α (K + 1)) (Bcum : Mat α (K + 1) (K + 1)) (j : Fin (K + 1)) (vj : Vec α G.dof)
    (s : JSt α G) :
    jstep G (bdot U0 Bcum j) (bdot U1 Bcum j) (bdot U2 Bcum j) vj s =
      LogicSrc.CSpline_eval_dg_dvs_body G U0 U1 U2 Bcum j vj s := by
  unfold jstep LogicSrc.CSpline_eval_dg_dvs_body
  simp only [memoV_eq, memoM_eq]
  rfl

/-- `cspline_eval_dg_dvs` -/
theorem cspline_eval_dg_dvs (vs : Fin K → Vec α G.dof) (Bcum : Mat α (K + 1) (K + 1)) (u : α) :
    eval_dg_dvs G vs Bcum u = LogicSrc.CSpline_eval_dg_dvs G vs Bcum u := by
  unfold eval_dg_dvs LogicSrc.CSpline_eval_dg_dvs
  simp only [memoV_eq, cspline_dg_dvs_step]

/-- `cspline_eval_dg_dgs`, loop body on one Jacobian: iteration `j` finishes block `j` (`−= D_j · DlExpinv`, with
    `DlExpinv = −ad(v_j) + DrExpinv`) and starts block `j + 1` (`+= D_j · DrExpinv`) — the model's `chainAux` -/
theorem cspline_dg_dgs_chain (U0 : Vec α (K + 1)) (Bcum : Mat α (K + 1) (K + 1)) (jcol : Fin (K + 1)) (v : Vec α G.dof)
    (D D' D'' cur cur' cur'' : Mat α G.dof G.dof) (es : Vec α G.rep) (rest : List (Mat α G.dof G.dof × Vec α G.dof)) :
    chainAux G ((D, v) :: rest) cur =
      (LogicSrc.CSpline_eval_dg_dgs_body G U0 Bcum jcol v D D' D'' cur cur' cur'' es).1.1 ::
        chainAux G rest (LogicSrc.CSpline_eval_dg_dgs_body G U0 Bcum jcol v D D' D'' cur cur' cur'' es).1.2 ∧
    chainAux G ((D', v) :: rest) cur' =
      (LogicSrc.CSpline_eval_dg_dgs_body G U0 Bcum jcol v D D' D'' cur cur' cur'' es).2.1.1 ::
        chainAux G rest (LogicSrc.CSpline_eval_dg_dgs_body G U0 Bcum jcol v D D' D'' cur cur' cur'' es).2.1.2 ∧
    chainAux G ((D'', v) :: rest) cur'' =
      (LogicSrc.CSpline_eval_dg_dgs_body G U0 Bcum jcol v D D' D'' cur cur' cur'' es).2.2.1.1 ::
        chainAux G rest (LogicSrc.CSpline_eval_dg_dgs_body G U0 Bcum jcol v D D' D'' cur cur' cur'' es).2.2.1.2 := by
  refine ⟨?_, ?_, ?_⟩ <;>
  · rw [chainAux]
    simp only [memoM_eq, LogicSrc.CSpline_eval_dg_dgs_body]

/-- `cspline_eval_dg_dgs`, loop body: `exp_series = composition(exp_series, exp(B̃_{1+j}(u) v_j))` -/
theorem cspline_dg_dgs_expSeries (vs : Fin K → Vec α G.dof) (Bcum : Mat α (K + 1) (K + 1)) (u : α) :
    expSeries G vs Bcum u =
      (List.finRange K).foldl (fun es j =>
        (LogicSrc.CSpline_eval_dg_dgs_body G (monomial_derivative K u 0) Bcum ⟨j.val + 1, by omega⟩ (vs j)
          (mzero _ _) (mzero _ _) (mzero _ _) (mzero _ _) (mzero _ _) (mzero _ _) es).2.2.2) G.identity := by
  unfold expSeries
  simp only [memoV_eq, LogicSrc.CSpline_eval_dg_dgs_body]

/-- `dg_dgs.leftCols<Dof>() += Ad(inverse(exp_series))` — the model's `addFirst` -/
theorem cspline_dg_dgs_first (B : Mat α G.dof G.dof) (r : List (Mat α G.dof G.dof)) (es : Vec α G.rep) :
    addFirst G (G.Ad (G.inverse es)) (B :: r) = LogicSrc.CSpline_eval_dg_dgs_first G B es :: r := by
  simp only [addFirst, memoM_eq, LogicSrc.CSpline_eval_dg_dgs_first]

end cspline
end SrcTieLogic
