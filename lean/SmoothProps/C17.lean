/-
  C17 — Relations and conversions between groups hold for all elements (property theorems).

  Model: SmoothModel/Convert.lean (+ `SO3.ofQuat`, `SO3.rot_x/y/z`, `C1.scaling/so2/angle`).
  Over ℝ, `atan2 y x = Complex.arg ⟨x, y⟩` (SmoothProofs/Real.lean).  Lemmas: SmoothProofs/C17*.lean
  (namespace `C17P`).  Hypotheses are the representation constraints (`SO2.Unit`, `SO3.Unit`,
  `C1.Valid`, `SO3.sqn q ≠ 0`) and, for `exp`, the closed-form branch of the rotation part; each
  theorem is followed by a non-vacuity example.

  History: on the pinned tree `angle_cw` at `(qz, qw) = (+0, −1)` was `+π ∉ [−2π, 0]` (and in floats
  `angle_ccw` at `(−0, −1)` was `−π`); fixed in /repo by commit 38a157c, the model follows the fixed
  code and `angle_cw_range_statement` is now a theorem without any hypothesis.
-/
import SmoothProofs.C17Angles
import SmoothProofs.C17Lift
import SmoothProofs.C17Rot
import SmoothProofs.C17Iso
import SmoothProofs.C17Sek1
import SmoothProofs.C17Sek2
import SmoothProofs.C17Sek2Maps
import SmoothProofs.C17Sek2Series

open Lin Scalar

namespace C17

/-! ## SE_K_3<1> = SE3 -/

/-- **SE_K_3 with K = 1 coincides with SE3 operation for operation**: under the identity on
    coefficients (`Conv.sek1_to_se3`, a bijection) and on tangents (`Conv.sek1T_to_se3`) every
    function of `SEK3.* 1` is the SE3 function — for ALL coefficient vectors, no constraint. -/
theorem sek3_1_eq_se3 :
    (∀ g : Vec ℝ (4 + 3 * 1), Conv.se3_to_sek1 (Conv.sek1_to_se3 g) = g) ∧
    (∀ g : Vec ℝ 7, Conv.sek1_to_se3 (Conv.se3_to_sek1 g) = g) ∧
    Conv.sek1_to_se3 (SEK3.identity 1 : Vec ℝ (4 + 3 * 1)) = SE3.identity ∧
    (∀ a b : Vec ℝ (4 + 3 * 1),
      Conv.sek1_to_se3 (SEK3.composition 1 a b) = SE3.composition (Conv.sek1_to_se3 a) (Conv.sek1_to_se3 b)) ∧
    (∀ g : Vec ℝ (4 + 3 * 1), Conv.sek1_to_se3 (SEK3.inverse 1 g) = SE3.inverse (Conv.sek1_to_se3 g)) ∧
    (∀ g : Vec ℝ (4 + 3 * 1), Conv.sek1T_to_se3 (SEK3.log 1 g) = SE3.log (Conv.sek1_to_se3 g)) ∧
    (∀ a : Vec ℝ (3 + 3 * 1), Conv.sek1_to_se3 (SEK3.exp 1 a) = SE3.exp (Conv.sek1T_to_se3 a)) ∧
    (∀ (g : Vec ℝ (4 + 3 * 1)) (i j : Fin 4), (SEK3.matrix 1 g) i j = (SE3.matrix (Conv.sek1_to_se3 g)) i j) ∧
    (∀ (a : Vec ℝ (3 + 3 * 1)) (i j : Fin 4), (SEK3.hat 1 a) i j = (SE3.hat (Conv.sek1T_to_se3 a)) i j) ∧
    (∀ A : Mat ℝ 4 4, Conv.sek1T_to_se3 (SEK3.vee 1 A) = SE3.vee A) ∧
    (∀ g : Vec ℝ (4 + 3 * 1), SEK3.Ad 1 g = SE3.Ad (Conv.sek1_to_se3 g)) ∧
    (∀ a : Vec ℝ (3 + 3 * 1), SEK3.ad 1 a = SE3.ad (Conv.sek1T_to_se3 a)) ∧
    (∀ a : Vec ℝ (3 + 3 * 1), SEK3.dr_exp 1 a = SE3.dr_exp (Conv.sek1T_to_se3 a)) ∧
    (∀ a : Vec ℝ (3 + 3 * 1), SEK3.dr_expinv 1 a = SE3.dr_expinv (Conv.sek1T_to_se3 a)) :=
  ⟨C17P.se3_to_sek1_to_se3, C17P.sek1_to_se3_to_sek1, C17P.sek1_identity, C17P.sek1_composition,
    C17P.sek1_inverse, C17P.sek1_log, C17P.sek1_exp, C17P.sek1_matrix, C17P.sek1_hat, C17P.sek1_vee,
    C17P.sek1_Ad, C17P.sek1_ad, C17P.sek1_dr_exp, C17P.sek1_dr_expinv⟩

/-- non-vacuity / non-triviality: the identification moves actual data (here the identity element's `q_w`) -/
example : (Conv.sek1_to_se3 (SEK3.identity 1 : Vec ℝ (4 + 3 * 1))) 6 = 1 := by
  rw [C17P.sek1_identity]; simp [SE3.identity, SE3.mk7, SO3.identity, mk4, Vec.of]

/-! ## SE_K_3<2> ⊂ Galilei (zero-time subgroup) -/

/-- **SE_K_3 with K = 2 is the zero-time subgroup of Galilei**: `ι = Conv.sek2_to_gal`
    (`(p₁,p₂,q) ↦ (v,p,τ=0,q)`) is injective and commutes with identity, composition, inverse,
    matrix (same 5×5 matrix), hat and log (with `ι_* = Conv.sek2T_to_gal`, `s = 0`) for ALL
    coefficient vectors; the tangent maps Ad, ad, dr_exp, dr_expinv of Galilei at embedded arguments,
    restricted to the `s = 0` subspace (`Conv.restrictT`), ARE the SE_K_3<2> maps, and their `s`-row
    vanishes there (the subspace is invariant). -/
theorem sek3_2_embeds_galilei :
    (∀ a b : Vec ℝ (4 + 3 * 2), Conv.sek2_to_gal a = Conv.sek2_to_gal b → a = b) ∧
    (∀ a b : Vec ℝ (3 + 3 * 2), Conv.sek2T_to_gal a = Conv.sek2T_to_gal b → a = b) ∧
    (∀ g : Vec ℝ (4 + 3 * 2), Galilei.gt (Conv.sek2_to_gal g) = 0) ∧
    Conv.sek2_to_gal (SEK3.identity 2 : Vec ℝ (4 + 3 * 2)) = Galilei.identity ∧
    (∀ a b : Vec ℝ (4 + 3 * 2),
      Conv.sek2_to_gal (SEK3.composition 2 a b) = Galilei.composition (Conv.sek2_to_gal a) (Conv.sek2_to_gal b)) ∧
    (∀ g : Vec ℝ (4 + 3 * 2), Conv.sek2_to_gal (SEK3.inverse 2 g) = Galilei.inverse (Conv.sek2_to_gal g)) ∧
    (∀ (g : Vec ℝ (4 + 3 * 2)) (i j : Fin 5), (SEK3.matrix 2 g) i j = (Galilei.matrix (Conv.sek2_to_gal g)) i j) ∧
    (∀ (a : Vec ℝ (3 + 3 * 2)) (i j : Fin 5), (SEK3.hat 2 a) i j = (Galilei.hat (Conv.sek2T_to_gal a)) i j) ∧
    (∀ g : Vec ℝ (4 + 3 * 2), Conv.sek2T_to_gal (SEK3.log 2 g) = Galilei.log (Conv.sek2_to_gal g)) ∧
    (∀ g : Vec ℝ (4 + 3 * 2), Conv.restrictT (Galilei.Ad (Conv.sek2_to_gal g)) = SEK3.Ad 2 g
      ∧ ∀ j : Fin 9, (Galilei.Ad (Conv.sek2_to_gal g)) 6 (Conv.eT j) = 0) ∧
    (∀ a : Vec ℝ (3 + 3 * 2), Conv.restrictT (Galilei.ad (Conv.sek2T_to_gal a)) = SEK3.ad 2 a
      ∧ ∀ j : Fin 9, (Galilei.ad (Conv.sek2T_to_gal a)) 6 (Conv.eT j) = 0) ∧
    (∀ a : Vec ℝ (3 + 3 * 2), Conv.restrictT (Galilei.dr_exp (Conv.sek2T_to_gal a)) = SEK3.dr_exp 2 a
      ∧ ∀ j : Fin 9, (Galilei.dr_exp (Conv.sek2T_to_gal a)) 6 (Conv.eT j) = 0) ∧
    (∀ a : Vec ℝ (3 + 3 * 2), Conv.restrictT (Galilei.dr_expinv (Conv.sek2T_to_gal a)) = SEK3.dr_expinv 2 a
      ∧ ∀ j : Fin 9, (Galilei.dr_expinv (Conv.sek2T_to_gal a)) 6 (Conv.eT j) = 0) :=
  ⟨C17P.sek2_to_gal_injective, C17P.sek2T_to_gal_injective, C17P.gt2, C17P.sek2_identity,
    C17P.sek2_composition, C17P.sek2_inverse, C17P.sek2_matrix, C17P.sek2_hat, C17P.sek2_log,
    C17P.sek2_Ad, C17P.sek2_ad, C17P.sek2_dr_exp, C17P.sek2_dr_expinv⟩

/-- the exact statement for `exp`: ι commutes with exp on every tangent with `s = 0`.
    As an EXACT identity over ℝ this is FALSE (`sek3_2_exp_statement_false`): in the series branch
    of the rotation part (`‖ω‖² ≤ eps2`) the two sides are different polynomial truncations
    (SE_K_3: `Ad(q)·dr_exp(ω)·v` with `q` the truncated quaternion; Galilei: `S1(ω)·b`).
    What holds: exact equality in the closed-form branch (`sek3_2_exp_partial`), and for ALL
    tangents agreement of every coefficient up to `(3/50)·‖ω‖⁵·‖v‖∞ ≤ 6·10⁻²²·‖v‖∞`
    (`sek3_2_exp_series`, `sek3_2_exp_all`).
    The agreement on the implementation is audited every run (`pair_ulp|SEK2:GAL|exp`). -/
def sek3_2_exp_statement : Prop :=
  ∀ a : Vec ℝ (3 + 3 * 2), Conv.sek2_to_gal (SEK3.exp 2 a) = Galilei.exp (Conv.sek2T_to_gal a)

/-- **the exact identity fails**: witness `ω = (10⁻⁵, 0, 0)`, `v₁ = (0, 1, 0)`, `v₂ = 0` (series
    branch, `‖ω‖² = 10⁻¹⁰ < eps2`): the `v_z` coefficients of the two sides differ (by `E₁·10⁻⁵`,
    `E₁ ≈ −‖ω‖⁴/320`, i.e. about `3·10⁻²⁸`) -/
theorem sek3_2_exp_statement_false : ¬ sek3_2_exp_statement :=
  fun h => C17P.sek2_exp_not_exact (h C17P.wit)

/-- **series side, quantitative**: for `‖ω‖² ≤ eps2` (the point `ω = 0` and the switch point
    included — there `SO3.exp` is already closed-form while `cos_2`, `sin_3` are still series) every
    one of the 11 coefficients of `ι(exp a)` and `exp(ι_* a)` differs by at most
    `(3/50)·‖ω‖⁵·V`, where `V` bounds the linear components `|v₁|, |v₂|` — from the truncation
    bounds of C02 (`so3_expA_real`, `so3_expB_real`, `trig_cos_2_series`, `trig_sin_3_series`) and
    the exact coefficient identities of C04 (`coef_p_ad`, `coef_q_ad`). -/
theorem sek3_2_exp_series (a : Vec ℝ (3 + 3 * 2)) (h : sqNorm (SEK3.tw 2 a) ≤ Scalar.eps2) (V : ℝ)
    (hV : ∀ (k : Fin 2) (c : Fin 3), |(SEK3.tv 2 a k) c| ≤ V) (i : Fin 11) :
    |(Conv.sek2_to_gal (SEK3.exp 2 a)) i - (Galilei.exp (Conv.sek2T_to_gal a)) i|
      ≤ 3 * (sqNorm (SEK3.tw 2 a) ^ 2 * Real.sqrt (sqNorm (SEK3.tw 2 a)) / 50 * V) :=
  C17P.sek2_exp_series a h V hV i

/-- **ALL tangents**: `ι ∘ exp = exp ∘ ι_*` holds coefficientwise up to `6·10⁻²²·V` for every
    tangent of SE_2(3) (exactly in the closed-form branch). -/
theorem sek3_2_exp_all (a : Vec ℝ (3 + 3 * 2)) (V : ℝ)
    (hV : ∀ (k : Fin 2) (c : Fin 3), |(SEK3.tv 2 a k) c| ≤ V) (i : Fin 11) :
    |(Conv.sek2_to_gal (SEK3.exp 2 a)) i - (Galilei.exp (Conv.sek2T_to_gal a)) i| ≤ 6 / 10 ^ 22 * V := by
  have hV0 : 0 ≤ V := le_trans (abs_nonneg _) (hV 0 0)
  by_cases hb : Scalar.eps2 < sqNorm (SEK3.tw 2 a)
  · rw [C17P.sek2_exp a hb, sub_self, abs_zero]; positivity
  · exact le_trans (C17P.sek2_exp_series a (not_lt.1 hb) V hV i)
      (C17P.series_bound_small (C17P.sqNorm3_nonneg _) (not_lt.1 hb) hV0)

/-- non-vacuity of `sek3_2_exp_series`: the witness of `sek3_2_exp_statement_false` lies on the
    series side with `V = 1` -/
example : sqNorm (SEK3.tw 2 C17P.wit) ≤ Scalar.eps2 ∧ ∀ (k : Fin 2) (c : Fin 3), |(SEK3.tv 2 C17P.wit k) c| ≤ 1 := by
  refine ⟨?_, ?_⟩
  · rw [C17P.wit_n, C02.scalar_eps2]; norm_num
  · intro k c
    fin_cases k <;> fin_cases c <;> simp [SEK3.tv, C17P.wit, Vec.of]

theorem sek3_2_exp_partial (a : Vec ℝ (3 + 3 * 2)) :
    (Scalar.eps2 < sqNorm (SEK3.tw 2 a) →
      Conv.sek2_to_gal (SEK3.exp 2 a) = Galilei.exp (Conv.sek2T_to_gal a)) ∧
    Galilei.gq (Galilei.exp (Conv.sek2T_to_gal a)) = SEK3.gq 2 (SEK3.exp 2 a) ∧
    Galilei.gt (Galilei.exp (Conv.sek2T_to_gal a)) = 0 :=
  ⟨C17P.sek2_exp a, (C17P.sek2_exp_rot a).1, (C17P.sek2_exp_rot a).2⟩

/-- non-vacuity: a tangent in the closed-form branch (`‖ω‖² = 3 > eps2`) -/
example : Scalar.eps2 < sqNorm (SEK3.tw 2 (.of (fun _ => 1) : Vec ℝ (3 + 3 * 2))) := by
  rw [C02.sqNorm3, C02.scalar_eps2]
  simp [SEK3.tw, Vec.of]
  norm_num

/-! ## lifts and projections -/

/-- **lift_matrix**: `matrix (lift_so3 g) = blockDiag(matrix g, 1)` for every unit `g` (half turn
    included); the lift is a unit quaternion in the canonical hemisphere.  SE2 → SE3 alike. -/
theorem lift_matrix :
    (∀ g : Vec ℝ 2, SO2.Unit g → SO3.matrix (Conv.lift_so3 g) = C17P.blockDiag21 (SO2.matrix g)) ∧
    (∀ g : Vec ℝ 2, SO3.Unit (Conv.lift_so3 g) ∧ SO3.Canon (Conv.lift_so3 g)) ∧
    (∀ g : Vec ℝ 4, C17P.SE2Unit g → SE3.matrix (Conv.lift_se3 g) = C17P.embedSE2 (SE2.matrix g)) ∧
    (∀ g : Vec ℝ 4, SE3.Unit (Conv.lift_se3 g)) :=
  ⟨C17P.lift_matrix, fun g => ⟨C17P.unit_lift_so3 g, C17P.canon_lift_so3 g⟩, C17P.lift_se3_matrix,
    C17P.unit_lift_se3⟩

/-- **lift_homomorphism**: the lift of a product is the product of the lifts — as rotation /
    rigid-motion matrices (the coefficient vectors can differ by the canonical sign) -/
theorem lift_homomorphism :
    (∀ a b : Vec ℝ 2, SO2.Unit a → SO2.Unit b →
      SO3.matrix (Conv.lift_so3 (SO2.composition a b))
        = mmul (SO3.matrix (Conv.lift_so3 a)) (SO3.matrix (Conv.lift_so3 b))) ∧
    (∀ a b : Vec ℝ 2, SO2.Unit a → SO2.Unit b →
      SO3.matrix (Conv.lift_so3 (SO2.composition a b))
        = SO3.matrix (SO3.composition (Conv.lift_so3 a) (Conv.lift_so3 b))) ∧
    SO3.matrix (Conv.lift_so3 (SO2.identity : Vec ℝ 2)) = ident 3 ∧
    (∀ a b : Vec ℝ 4, C17P.SE2Unit a → C17P.SE2Unit b →
      SE3.matrix (Conv.lift_se3 (SE2.composition a b))
        = SE3.matrix (SE3.composition (Conv.lift_se3 a) (Conv.lift_se3 b))) :=
  ⟨C17P.lift_homomorphism, C17P.lift_homomorphism', C17P.lift_identity, C17P.lift_se3_homomorphism⟩

/-- **lift_injective** -/
theorem lift_injective :
    (∀ a b : Vec ℝ 2, SO2.Unit a → SO2.Unit b → Conv.lift_so3 a = Conv.lift_so3 b → a = b) ∧
    (∀ a b : Vec ℝ 4, C17P.SE2Unit a → C17P.SE2Unit b → Conv.lift_se3 a = Conv.lift_se3 b → a = b) :=
  ⟨C17P.lift_injective, C17P.lift_se3_injective⟩

/-- **project_lift**: `project_so2 ∘ lift_so3 = id`, `project_se2 ∘ lift_se3 = id` on unit elements —
    the yaw `atan2(2wz, 1 − 2z²)` extracted from the lift is `angle g ∈ (−π, π]` for every `g`, the
    half turn (`yaw = π`, lift `(0,0,1,0)`) included; and `lift ∘ project = id` on canonical
    rotations about z. -/
theorem project_lift :
    (∀ g : Vec ℝ 2, Conv.yawOf (Conv.lift_so3 g) = Conv.angle g) ∧
    (∀ g : Vec ℝ 2, SO2.Unit g → Conv.project_so2 (Conv.lift_so3 g) = g) ∧
    (Conv.lift_so3 C17P.halfTurn = mk4 0 0 1 0 ∧ Conv.project_so2 (Conv.lift_so3 C17P.halfTurn) = C17P.halfTurn) ∧
    (∀ g : Vec ℝ 4, C17P.SE2Unit g → Conv.project_se2 (Conv.lift_se3 g) = g) ∧
    (∀ yaw : ℝ, -Real.pi < yaw → yaw ≤ Real.pi →
      Conv.lift_so3 (Conv.project_so2 (C17P.zQuat yaw)) = C17P.zQuat yaw) ∧
    (∀ q : Vec ℝ 4, SO2.Unit (Conv.project_so2 q)) :=
  ⟨C17P.yawOf_lift, C17P.project_lift, ⟨C17P.lift_halfTurn, C17P.project_lift_halfTurn⟩,
    C17P.project_lift_se, C17P.lift_project_zQuat, C17P.unit_project_so2⟩

/-- non-vacuity: the half turn is a unit element (the hypothesis of the four theorems above) -/
example : SO2.Unit C17P.halfTurn := by simp [SO2.Unit, C17P.halfTurn, mk2, Vec.of]
example : C17P.SE2Unit (mk4 3 (-2) 0 (-1) : Vec ℝ 4) := by
  simp [C17P.SE2Unit, SO2.Unit, SE2.so2, mk2, mk4, Vec.of]

/-! ## C1 = scaling · SO2 -/

/-- **c1_factorisation**: `matrix g = scaling g • matrix (so2 g)` with `scaling g > 0` and `so2 g` on
    the unit circle, for every non-zero `g`; `so2()` as the code computes it (`SO2(c1())`) is the
    model's `C1.so2`; `angle()` is the SO2 angle of the rotation factor. -/
theorem c1_factorisation (g : Vec ℝ 2) (h : C1.Valid g) :
    (∀ i j : Fin 2, (C1.matrix g) i j = C1.scaling g * (SO2.matrix (C1.so2 g)) i j) ∧
    0 < C1.scaling g ∧ SO2.Unit (C1.so2 g) ∧ Conv.c1_so2 g = C1.so2 g ∧ C1.angle g = Conv.angle (C1.so2 g) :=
  ⟨C17P.c1_factorisation g h, C17P.c1_scaling_pos g h, C17P.c1_so2_unit g h, C17P.c1_so2_eq g,
    C17P.c1_angle_eq g h⟩

example : C1.Valid (mk2 0 (-2) : Vec ℝ 2) := by simp [C1.Valid, mk2, Vec.of]

/-! ## rot_x / rot_y / rot_z = exp(t e_i) -/

/-- **rot_axis_eq_exp**: for ALL `t` (any number of turns) `matrix (rot_i t)` is the matrix
    exponential of `hat (t e_i)` and `rot_i t` is a unit quaternion in the canonical hemisphere;
    whenever `exp` evaluates its closed form (`t² ≥ eps2`) the coefficient vectors `exp (t e_i)` and
    `rot_i t` are EQUAL (both canonicalised, so also for `|t| > π` where the flip fires). -/
theorem rot_axis_eq_exp (i : Fin 3) (t : ℝ) :
    C02.toM (SO3.matrix (C17P.rotAxis i t)) = NormedSpace.exp (C02.toM (SO3.hat (Conv.axisTangent i t))) ∧
    SO3.Unit (C17P.rotAxis i t) ∧ SO3.Canon (C17P.rotAxis i t) ∧
    (¬ t * t < Scalar.eps2 → SO3.exp (Conv.axisTangent i t) = C17P.rotAxis i t) :=
  ⟨C17P.rotAxis_matrix_is_exp i t, C17P.unit_rotAxis i t, C17P.canon_rotAxis i t, C17P.exp_axis_eq_rotAxis i t⟩

/-- `rotAxis` is the three library functions -/
theorem rotAxis_def (t : ℝ) :
    C17P.rotAxis 0 t = SO3.rot_x t ∧ C17P.rotAxis 1 t = SO3.rot_y t ∧ C17P.rotAxis 2 t = SO3.rot_z t :=
  ⟨rfl, rfl, rfl⟩

example : ¬ ((4 * Real.pi) * (4 * Real.pi) < (Scalar.eps2 : ℝ)) := by
  rw [C02.scalar_eps2]
  have := Real.two_le_pi
  nlinarith

/-! ## constructors -/

/-- **SO3(quaternion)**: for every non-zero input (any norm, any sign of `w`) the result is a unit
    quaternion with `q_w ≥ 0` representing the rotation of the normalised input
    (`matrix = rotH q / ‖q‖²`); positive multiples give the same element, the antipode the same rotation. -/
theorem so3_ofQuat_spec (q : Vec ℝ 4) (h : SO3.sqn q ≠ 0) :
    SO3.Unit (SO3.ofQuat q) ∧ SO3.Canon (SO3.ofQuat q) ∧
    (∀ i j : Fin 3, (SO3.matrix (SO3.ofQuat q)) i j = (SO3.rotH q) i j / SO3.sqn q) ∧
    (SO3.Unit q → SO3.matrix (SO3.ofQuat q) = SO3.matrix q) ∧
    (∀ c : ℝ, 0 < c → SO3.ofQuat (vsmul c q) = SO3.ofQuat q) ∧
    SO3.matrix (SO3.ofQuat (vneg q)) = SO3.matrix (SO3.ofQuat q) :=
  ⟨C17P.unit_ofQuat q h, C17P.canon_ofQuat q, C17P.matrix_ofQuat q h, C17P.matrix_ofQuat_of_unit q,
    C17P.ofQuat_smul_pos q, C17P.matrix_ofQuat_neg q h⟩

/-- non-vacuity: an unnormalised quaternion with negative `w` -/
example : SO3.sqn (mk4 1 2 (-2) (-4) : Vec ℝ 4) ≠ 0 := by
  simp [SO3.sqn, mk4, Vec.of]; norm_num

/-- **SO2 constructors**: `SO2(qz,qw)` and `SO2(complex)` return the unit vector in the direction of
    the input (any non-zero input); `SO2(angle)` is unit with `angle (SO2 a) = a` on `(−π, π]` and
    `SO2 (angle g) = g`; `u1 / c1 / unit_complex / quat` are coefficient permutations whose
    constructors invert them. -/
theorem so2_constructors :
    (∀ qz qw : ℝ, qz ^ 2 + qw ^ 2 ≠ 0 →
      SO2.Unit (Conv.so2OfCoeffs qz qw) ∧
      ∃ n : ℝ, 0 < n ∧ n * (Conv.so2OfCoeffs qz qw) 0 = qz ∧ n * (Conv.so2OfCoeffs qz qw) 1 = qw) ∧
    (∀ re im : ℝ, Conv.so2OfComplex re im = Conv.so2OfCoeffs im re) ∧
    (∀ a : ℝ, SO2.Unit (Conv.so2OfAngle a)) ∧
    (∀ a : ℝ, -Real.pi < a → a ≤ Real.pi → Conv.angle (Conv.so2OfAngle a) = a) ∧
    (∀ g : Vec ℝ 2, SO2.Unit g → Conv.so2OfAngle (Conv.angle g) = g) ∧
    (∀ g : Vec ℝ 2, SO2.Unit g → Conv.so2OfComplex ((Conv.u1 g) 0) ((Conv.u1 g) 1) = g) ∧
    (∀ g : Vec ℝ 2, Conv.c1OfComplex ((Conv.c1 g) 0) ((Conv.c1 g) 1) = g) ∧
    (∀ g : Vec ℝ 4, Conv.ofWXYZ (Conv.quatWXYZ g) = g ∧ Conv.quat g = g) :=
  ⟨C17P.so2OfCoeffs_spec, C17P.so2OfComplex_eq, C17P.unit_so2OfAngle, C17P.angle_so2OfAngle,
    C17P.so2OfAngle_angle, C17P.so2OfComplex_u1, C17P.c1OfComplex_c1,
    fun g => ⟨C17P.ofWXYZ_quatWXYZ g, C17P.quat_id g⟩⟩

/-- **isometry / Euler glue**: `SE2::isometry()` has the group's matrix and `SE2(Isometry2)` reads it
    back exactly; `SE3(Isometry3)` / `eulerAngles()` round-trip to the same transformation GIVEN the
    contract of the Eigen routine (a parameter here, audited on the implementation), and the result is
    unit and canonical whatever Eigen returns. -/
theorem isometry_glue :
    (∀ g : Vec ℝ 4, C17P.SE2Unit g → Conv.se2_isometry g = SE2.matrix g) ∧
    (∀ g : Vec ℝ 4, C17P.SE2Unit g → Conv.se2_ofIsometry (Conv.se2_isometry g) = g) ∧
    (∀ T : Mat ℝ 3 3, (T 0 1 = -(T 1 0) ∧ T 1 1 = T 0 0) → (T 2 0 = 0 ∧ T 2 1 = 0 ∧ T 2 2 = 1) →
      SE2.matrix (Conv.se2_ofIsometry T) = T) ∧
    (∀ g : Vec ℝ 7, Conv.se3_isometry g = SE3.matrix g) ∧
    (∀ (quatOfMat : Mat ℝ 3 3 → Vec ℝ 4) (g : Vec ℝ 7),
      SO3.matrix (SO3.ofQuat (quatOfMat (SO3.matrix (SE3.so3 g)))) = SO3.matrix (SE3.so3 g) →
      SE3.matrix (Conv.se3_ofIsometry quatOfMat (Conv.se3_isometry g)) = SE3.matrix g) ∧
    (∀ (euler : Mat ℝ 3 3 → Vec ℝ 3) (g : Vec ℝ 4),
      SO3.matrix (Conv.ofEuler (euler (SO3.matrix g))) = SO3.matrix g →
      SO3.matrix (Conv.ofEuler (Conv.eulerAngles euler g)) = SO3.matrix g) :=
  ⟨C17P.se2_isometry_matrix, C17P.se2_ofIsometry_isometry, C17P.se2_ofIsometry_matrix,
    C17P.se3_isometry_matrix, C17P.se3_ofIsometry_isometry, C17P.euler_roundtrip⟩

/-! ## angle(), angle_cw(), angle_ccw() -/

/-- **angle_ranges**: `angle ∈ (−π, π]`, `angle_ccw ∈ [0, 2π]`, `angle_cw ∈ [−2π, 0]` for EVERY
    coefficient vector (no hypothesis); the three are congruent modulo 2π; on the unit circle
    `(sin, cos)(angle g) = (qz, qw)`. -/
theorem angle_ranges (g : Vec ℝ 2) :
    (-Real.pi < Conv.angle g ∧ Conv.angle g ≤ Real.pi) ∧
    (0 ≤ Conv.angle_ccw g ∧ Conv.angle_ccw g ≤ 2 * Real.pi) ∧
    (-(2 * Real.pi) ≤ Conv.angle_cw g ∧ Conv.angle_cw g ≤ 0) ∧
    (Conv.angle_cw g = Conv.angle g ∨ Conv.angle_cw g = Conv.angle g - 2 * Real.pi) ∧
    (Conv.angle_ccw g = Conv.angle g ∨ Conv.angle_ccw g = Conv.angle g + 2 * Real.pi) ∧
    (SO2.Unit g → Real.sin (Conv.angle g) = g 0 ∧ Real.cos (Conv.angle g) = g 1) :=
  ⟨C17P.angle_range g, C17P.angle_ccw_range g, C17P.angle_cw_range g, C17P.angle_cw_congr g,
    C17P.angle_ccw_congr g, fun h => ⟨C17P.sin_angle g h, C17P.cos_angle g h⟩⟩

/-- the property as written: `angle_cw ∈ [−2π, 0]` for every element of SO2 -/
theorem angle_cw_range_statement :
    ∀ g : Vec ℝ 2, SO2.Unit g → -(2 * Real.pi) ≤ Conv.angle_cw g ∧ Conv.angle_cw g ≤ 0 :=
  fun g _ => C17P.angle_cw_range g

/-- the former defect point, the half turn `(qz, qw) = (0, −1)` (a unit element): `angle = π`,
    `angle_cw = −π`, `angle_ccw = π` — all inside their ranges -/
theorem angle_at_half_turn :
    SO2.Unit C17P.halfTurn ∧ Conv.angle_cw C17P.halfTurn = -Real.pi ∧ Conv.angle_ccw C17P.halfTurn = Real.pi := by
  refine ⟨?_, C17P.angle_cw_halfTurn, C17P.angle_ccw_halfTurn⟩
  simp [SO2.Unit, C17P.halfTurn, mk2, Vec.of]

end C17
