/-
  SrcTieConv — the conversion members of the public group classes (so2.hpp, so3.hpp, c1.hpp, se2.hpp, se3.hpp),
  regenerated from the C++ source on every run (`SmoothModel/Gen/ConvSrc.lean`, written by tools/gen_conv.py), ARE the
  hand-written model the theorems of C17 are about (`SmoothModel/Convert.lean`, `SO3.ofQuat`, `SO3.rot_x/y/z`,
  `C1.angle/scaling/so2/ofScalingAngle`).

  Every statement is over an arbitrary `[Scalar α]` (so it holds at `Float`, `Float32` and `ℝ` alike) and is proved by
  unfolding both sides: no fact about the arithmetic of `α` is used.  The accessors whose meaning the translator takes from
  its fixed table (`quat()`, `so2()`, `r2()`, `so3()`, `r3()`, the two from-parts constructors) are pinned textually
  (`conv_pins`): a change there is reported, not interpreted.

  Theorem prefix: `conv_`.
-/
import SmoothModel.Convert
import SmoothModel.Gen.ConvSrc

set_option linter.unusedSectionVars false
open Scalar Lin

namespace SrcTieConv
variable {α : Type} [Scalar α]

/-! ### so2.hpp -/

/-- `angle()`: `Base::log().x()` -/
theorem conv_so2_angle (g : Vec α 2) : Conv.angle g = ConvSrc.SO2_angle g := rfl

/-- `angle_cw()`: `a = atan2(y, x); a > 0 ? a − 2π : a` with `x = coeffs().y()`, `y = coeffs().x()` -/
theorem conv_so2_angle_cw (g : Vec α 2) : Conv.angle_cw g = ConvSrc.SO2_angle_cw g := rfl

/-- `angle_ccw()`: `a < 0 ? a + 2π : a` -/
theorem conv_so2_angle_ccw (g : Vec α 2) : Conv.angle_ccw g = ConvSrc.SO2_angle_ccw g := rfl

/-- `u1()` and `unit_complex()`: `(re, im) = (coeffs().y(), coeffs().x())` -/
theorem conv_so2_u1 (g : Vec α 2) : Conv.u1 g = ConvSrc.SO2_u1 g ∧ Conv.u1 g = ConvSrc.SO2_unit_complex g := ⟨rfl, rfl⟩

/-- `SO2(qz, qw)` normalises by `sqrt(qw*qw + qz*qz)` -/
theorem conv_so2_ctor_coeffs (qz qw : α) : Conv.so2OfCoeffs qz qw = ConvSrc.SO2_ctor_coeffs qz qw := rfl

/-- `SO2(angle)` = `(sin angle, cos angle)` -/
theorem conv_so2_ctor_angle (a : α) : Conv.so2OfAngle a = ConvSrc.SO2_ctor_angle a := rfl

/-- `SO2(std::complex)` normalises by `sqrt(im*im + re*re)` — no early-out, whatever the modulus -/
theorem conv_so2_ctor_complex (re im : α) : Conv.so2OfComplex re im = ConvSrc.SO2_ctor_complex re im := rfl

/-! ### so3.hpp -/

/-- `SO3(quaternion)`: `normalized()` then the canonical sign `if (m_coeffs(3) < 0) m_coeffs *= −1` -/
theorem conv_so3_ctor_quat (q : Vec α 4) : SO3.ofQuat q = ConvSrc.SO3_ctor_quat q := rfl

/-- `rot_x/y/z(angle)`: `(sin(angle/2) e_i, cos(angle/2))`, sign flipped when `w < 0` -/
theorem conv_so3_rot (t : α) :
    SO3.rot_x t = ConvSrc.SO3_rot_x t ∧ SO3.rot_y t = ConvSrc.SO3_rot_y t ∧ SO3.rot_z t = ConvSrc.SO3_rot_z t :=
  ⟨rfl, rfl, rfl⟩

/-- `lift_so3()`: `yaw = log().x()`, `SO3(Quaternion(cos(yaw/2), 0, 0, sin(yaw/2)))` -/
theorem conv_so2_lift_so3 (g : Vec α 2) : Conv.lift_so3 g = ConvSrc.SO2_lift_so3 g := rfl

/-- `project_so2()`: `SO2(atan2(2(wz + xy), 1 − 2(yy + zz)))` -/
theorem conv_so3_project_so2 (q : Vec α 4) : Conv.project_so2 q = ConvSrc.SO3_project_so2 q := rfl

/-! ### c1.hpp -/

theorem conv_c1_angle (g : Vec α 2) : C1.angle g = ConvSrc.C1_angle g := rfl
theorem conv_c1_scaling (g : Vec α 2) : C1.scaling g = ConvSrc.C1_scaling g := rfl
theorem conv_c1_c1 (g : Vec α 2) : Conv.c1 g = ConvSrc.C1_c1 g := rfl

/-- `so2()` = `SO2(c1())`: the complex constructor of SO2 applied to `(re, im) = (g.y, g.x)`; both model spellings -/
theorem conv_c1_so2 (g : Vec α 2) : Conv.c1_so2 g = ConvSrc.C1_so2 g ∧ C1.so2 g = ConvSrc.C1_so2 g := ⟨rfl, rfl⟩

/-- `C1(scaling, angle)` = `(scaling·sin angle, scaling·cos angle)` -/
theorem conv_c1_ctor_scaling_angle (s t : α) : C1.ofScalingAngle s t = ConvSrc.C1_ctor_scaling_angle s t := rfl

/-! ### se2.hpp / se3.hpp -/

/-- `lift_se3()`: `SE3(so2().lift_so3(), (r2().x(), r2().y(), 0))` -/
theorem conv_se2_lift_se3 (g : Vec α 4) : Conv.lift_se3 g = ConvSrc.SE2_lift_se3 g := rfl

/-- `project_se2()`: `SE2(so3().project_so2(), r3().head<2>())` -/
theorem conv_se3_project_se2 (g : Vec α 7) : Conv.project_se2 g = ConvSrc.SE3_project_se2 g := rfl

/-! ### pinned accessors (meaning fixed in the translator's table) -/

theorem conv_pins :
    ConvSrc.pin_SO3_quat = "Eigen::Map<const Eigen::Quaternion<Scalar>> quat() const { return Eigen::Map<const Eigen::Quaternion<Scalar>>(static_cast<const _Derived &>(*this).data()); }"
    ∧ ConvSrc.pin_SO3_eulerAngles = "Eigen::Vector3<Scalar> eulerAngles(Eigen::Index i1 = 2, Eigen::Index i2 = 1, Eigen::Index i3 = 0) const { return quat().toRotationMatrix().eulerAngles(i1, i2, i3); }"
    ∧ ConvSrc.pin_SE2_so2 = "Map<const SO2<Scalar>> so2() const { return Map<const SO2<Scalar>>(static_cast<const _Derived &>(*this).data() + 2); }"
    ∧ ConvSrc.pin_SE2_r2 = "Eigen::Map<const Eigen::Vector2<Scalar>> r2() const { return Eigen::Map<const Eigen::Vector2<Scalar>>(static_cast<const _Derived &>(*this).data()); }"
    ∧ ConvSrc.pin_SE3_so3 = "Map<const SO3<Scalar>> so3() const { return Map<const SO3<Scalar>>(static_cast<const _Derived &>(*this).data() + 3); }"
    ∧ ConvSrc.pin_SE3_r3 = "Eigen::Map<const Eigen::Vector3<Scalar>> r3() const { return Eigen::Map<const Eigen::Vector3<Scalar>>(static_cast<const _Derived &>(*this).data()); }"
    ∧ ConvSrc.pin_SE2_ctor_parts = "SE2(const SO2Base<SO2Derived> & so2, const Eigen::MatrixBase<T2Derived> & r2) { Base::so2() = static_cast<const SO2Derived &>(so2); Base::r2() = static_cast<const T2Derived &>(r2); }"
    ∧ ConvSrc.pin_SE3_ctor_parts = "SE3(const SO3Base<SO3Derived> & so3, const Eigen::MatrixBase<T3Derived> & r3) { Base::so3() = static_cast<const SO3Derived &>(so3); Base::r3() = static_cast<const T3Derived &>(r3); }" := by
  exact ⟨rfl, rfl, rfl, rfl, rfl, rfl, rfl, rfl⟩

/-- from-parts constructors of `Galilei` and `SE_K_3` (layout compared bit for bit by `conv_gal_parts_ctor`, `conv_sek2_parts_ctor`):
    pinned bodies -/
theorem conv_pins_parts :
    ConvSrc.pin_Galilei_ctor_parts = "Galilei( const SO3Base<SO3Derived> & so3, const Eigen::MatrixBase<T1> & r3_v, const Eigen::MatrixBase<T2> & r3_p, double r1_t = 0) { Base::so3() = static_cast<const SO3Derived &>(so3); Base::r3_v() = static_cast<const T1 &>(r3_v); Base::r3_p() = static_cast<const T2 &>(r3_p); Base::r1_t().x() = r1_t; }"
    ∧ ConvSrc.pin_SEK3_ctor_parts = "SE_K_3(const SO3Base<SO3Derived> & so3, const Eigen::MatrixBase<RnDerived> &... r3s) requires(sizeof...(r3s) == K) { const auto tpl = std::forward_as_tuple(r3s...); Base::so3() = static_cast<const SO3Derived &>(so3); #ifdef __clang__ #pragma GCC diagnostic push #pragma GCC diagnostic ignored \"-Wunused-lambda-capture\" #endif utils::static_for<K>([this, &tpl](auto i) { Base::template r3<i>() = std::get<i>(tpl); }); #ifdef __clang__ #pragma GCC diagnostic pop #endif }" := ⟨rfl, rfl⟩

end SrcTieConv
