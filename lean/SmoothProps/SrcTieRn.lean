/-
  SrcTieRn — `traits::lie<G>` of include/smooth/lie_groups/rn.hpp (Eigen column vectors, static or run-time size),
  scalar.hpp (built-in scalars) and native.hpp (classes with the member interface), regenerated from the C++ source on
  every run (`SmoothModel/Gen/RnSrc.lean`, written by tools/gen_bundle.py), ARE the translation-group model `Tn.model n`
  (SmoothModel/Tn.lean, Groups.lean) the theorems of C06 §4 are about — composition is `+`, inverse is `−`, exp / log the
  identity map, `Ad = dr_exp = dr_expinv = I`, `ad = 0`, both Hessians zero — and, for native classes, the fields of the
  group's own record in the same argument order.  All by `rfl` / entry-wise `rfl` over an arbitrary `[Scalar α]`.

  Theorem prefixes `rn_`, `sc_`, `native_`.
-/
import SmoothModel.Groups
import SmoothModel.Manifold
import SmoothModel.Gen.RnSrc

open Scalar Lin
set_option linter.unusedSectionVars false
set_option linter.unusedVariables false

namespace SrcTieRn
variable {α : Type} [Scalar α]

/-! ### rn.hpp -/
section rn
variable (n : Nat)

theorem rn_IsCommutative : RnSrc.Rn_IsCommutative = (Tn.model n : LieModel α).comm := rfl
theorem rn_Identity : (RnSrc.Rn_Identity n : Vec α n) = (Tn.model n : LieModel α).identity := rfl
theorem rn_dof (g : Vec α n) : RnSrc.Rn_dof n g = (Tn.model n : LieModel α).dof := rfl
theorem rn_composition (g1 g2 : Vec α n) : RnSrc.Rn_composition n g1 g2 = (Tn.model n : LieModel α).composition g1 g2 := rfl
theorem rn_inverse (g : Vec α n) : RnSrc.Rn_inverse n g = (Tn.model n : LieModel α).inverse g := rfl
theorem rn_log (g : Vec α n) : RnSrc.Rn_log n g = (Tn.model n : LieModel α).log g := rfl
theorem rn_exp (a : Vec α n) : RnSrc.Rn_exp n a = (Tn.model n : LieModel α).exp a := rfl
theorem rn_Ad (g : Vec α n) : RnSrc.Rn_Ad n g = (Tn.model n : LieModel α).Ad g := rfl
theorem rn_ad (a : Vec α n) : RnSrc.Rn_ad n a = (Tn.model n : LieModel α).ad a := rfl
theorem rn_dr_exp (a : Vec α n) : RnSrc.Rn_dr_exp n a = (Tn.model n : LieModel α).dr_exp a := rfl
theorem rn_dr_expinv (a : Vec α n) : RnSrc.Rn_dr_expinv n a = (Tn.model n : LieModel α).dr_expinv a := rfl
theorem rn_d2r_exp (a : Vec α n) : RnSrc.Rn_d2r_exp n a = (Tn.model n : LieModel α).d2r_exp a := rfl
theorem rn_d2r_expinv (a : Vec α n) : RnSrc.Rn_d2r_expinv n a = (Tn.model n : LieModel α).d2r_expinv a := rfl

/-- the dynamic-size Manifold model of C07 (`Manif.vecX`: lists) has the same right-plus / right-minus, entry by entry:
    `rplus = composition(g, exp a)`, `rminus = log(composition(inverse g2, g1))` -/
theorem rn_vecX (g a g2 : Vec α n) :
    Manif.vecxRplus (Manif.listOfVec g) (Manif.listOfVec a)
      = Manif.listOfVec (RnSrc.Rn_composition n g (RnSrc.Rn_exp n a))
    ∧ Manif.vecxRminus (Manif.listOfVec g) (Manif.listOfVec g2)
      = .ok (Manif.listOfVec (RnSrc.Rn_log n (RnSrc.Rn_composition n (RnSrc.Rn_inverse n g2) g))) := by
  constructor
  · simp only [Manif.vecxRplus, Manif.listOfVec, RnSrc.Rn_composition, RnSrc.Rn_exp, vadd, Vec.of]
    apply List.ext_getElem <;> simp
  · simp only [Manif.vecxRminus, Manif.listOfVec, RnSrc.Rn_composition, RnSrc.Rn_inverse, RnSrc.Rn_log, vadd, vneg, Vec.of]
    congr 1
    apply List.ext_getElem <;> simp

theorem rn_manifest : RnSrc.Rn_manifest = ["IsCommutative", "Identity", "Ad", "composition", "dof", "inverse", "log", "ad", "exp",
    "dr_exp", "dr_expinv", "d2r_exp", "d2r_expinv"] := rfl
end rn

/-! ### scalar.hpp: a scalar `x` is the 1-vector `mk1 x` of `Tn.model 1` -/
section sc

theorem sc_consts : RnSrc.Sc_Dof = (Tn.model 1 : LieModel α).dof ∧ RnSrc.Sc_IsCommutative = (Tn.model 1 : LieModel α).comm := ⟨rfl, rfl⟩
theorem sc_Identity : mk1 (RnSrc.Sc_Identity : α) = (Tn.model 1 : LieModel α).identity := by
  ext i; rfl
theorem sc_dof (g : α) : RnSrc.Sc_dof g = (Tn.model 1 : LieModel α).dof := rfl
theorem sc_composition (g1 g2 : α) : mk1 (RnSrc.Sc_composition g1 g2) = (Tn.model 1 : LieModel α).composition (mk1 g1) (mk1 g2) := by
  ext i; rfl
theorem sc_inverse (g : α) : mk1 (RnSrc.Sc_inverse g) = (Tn.model 1 : LieModel α).inverse (mk1 g) := by
  ext i; rfl
theorem sc_log (g : α) (i : Fin 1) : RnSrc.Sc_log g i 0 = (Tn.model 1 : LieModel α).log (mk1 g) i := rfl
theorem sc_exp (a : Vec α 1) : mk1 (RnSrc.Sc_exp a) = (Tn.model 1 : LieModel α).exp a := by
  ext i
  have : i = 0 := Fin.ext (by omega)
  subst this; rfl
theorem sc_Ad (g : α) (i j : Fin 1) : RnSrc.Sc_Ad g i j = (Tn.model 1 : LieModel α).Ad (mk1 g) i j := by
  have hi : i = 0 := Fin.ext (by omega)
  have hj : j = 0 := Fin.ext (by omega)
  subst hi; subst hj; rfl
theorem sc_ad (a : Vec α 1) : RnSrc.Sc_ad a = (Tn.model 1 : LieModel α).ad a := rfl
theorem sc_dr_exp (a : Vec α 1) : RnSrc.Sc_dr_exp a = (Tn.model 1 : LieModel α).dr_exp a := rfl
theorem sc_dr_expinv (a : Vec α 1) : RnSrc.Sc_dr_expinv a = (Tn.model 1 : LieModel α).dr_expinv a := rfl
theorem sc_d2r_exp (a : Vec α 1) : RnSrc.Sc_d2r_exp a = (Tn.model 1 : LieModel α).d2r_exp a := rfl
theorem sc_d2r_expinv (a : Vec α 1) : RnSrc.Sc_d2r_expinv a = (Tn.model 1 : LieModel α).d2r_expinv a := rfl

/-- the scalar Manifold model of C07 (`Manif.scalar`) -/
theorem sc_manif (x y a : α) :
    (Manif.scalar : Manif.Man α α).rplus x [a] = RnSrc.Sc_composition x (RnSrc.Sc_exp (mk1 a))
    ∧ (Manif.scalar : Manif.Man α α).rminus x y
        = .ok [RnSrc.Sc_log (RnSrc.Sc_composition (RnSrc.Sc_inverse y) x) 0 0] := ⟨rfl, rfl⟩

theorem sc_manifest : RnSrc.Sc_manifest = ["Dof", "IsCommutative", "Identity", "Ad", "composition", "dof", "inverse", "log", "ad", "exp",
    "dr_exp", "dr_expinv", "d2r_exp", "d2r_expinv"] := rfl
end sc

/-! ### native.hpp: plain forwarding, argument order kept -/
section native
variable (G : LieModel α)

theorem native_consts : RnSrc.Native_Dof G = G.dof ∧ RnSrc.Native_IsCommutative G = G.comm := ⟨rfl, rfl⟩
theorem native_dof (g : Vec α G.rep) : RnSrc.Native_dof G g = G.dof := rfl
theorem native_composition (g1 g2 : Vec α G.rep) : RnSrc.Native_composition G g1 g2 = G.composition g1 g2 := rfl
theorem native_inverse (g : Vec α G.rep) : RnSrc.Native_inverse G g = G.inverse g := rfl
theorem native_log (g : Vec α G.rep) : RnSrc.Native_log G g = G.log g := rfl
theorem native_exp (a : Vec α G.dof) : RnSrc.Native_exp G a = G.exp a := rfl
theorem native_Ad (g : Vec α G.rep) : RnSrc.Native_Ad G g = G.Ad g := rfl
theorem native_ad (a : Vec α G.dof) : RnSrc.Native_ad G a = G.ad a := rfl
theorem native_dr_exp (a : Vec α G.dof) : RnSrc.Native_dr_exp G a = G.dr_exp a := rfl
theorem native_dr_expinv (a : Vec α G.dof) : RnSrc.Native_dr_expinv G a = G.dr_expinv a := rfl
theorem native_d2r_exp (a : Vec α G.dof) : RnSrc.Native_d2r_exp G a = G.d2r_exp a := rfl
theorem native_d2r_expinv (a : Vec α G.dof) : RnSrc.Native_d2r_expinv G a = G.d2r_expinv a := rfl
theorem native_manifest : RnSrc.Native_manifest = ["Dof", "IsCommutative", "Ad", "composition", "dof", "inverse", "log", "ad", "exp",
    "dr_exp", "dr_expinv", "d2r_exp", "d2r_expinv"] := rfl
end native

end SrcTieRn
