/-
  C01Round — the ROUNDING part of C01, proved in the standard model of floating-point arithmetic.

  C01 claims the group laws "to 1e-12 relative accuracy in double precision (1e-5 in single) for
  every element with moderate translation magnitude".  SmoothProps/C01.lean proves the laws over ℝ
  (exact arithmetic); the accuracy clause was so far only audited on sampled inputs.  Here it is
  PROVED for SO2, C1, Tn, SO3, SE2, SE3 composition and inverse, for ALL inputs, under the single
  assumption that the arithmetic follows the standard model (SmoothProofs/RoundModel.lean):

      fl(x ∘ y) = (x ∘ y)(1 + δ),  |δ| ≤ u,   ∘ ∈ {+, −, ×, ÷},   no overflow / underflow,

  negation, comparison and small integer literals exact.  The theorems are about the model's OWN
  polymorphic definitions instantiated at `RF` (ℝ with every operation followed by `fl`) — the same
  expression trees that run at `Float`/`Float32` and are compared bit-for-bit with the C++ — against
  the same definitions at ℝ on the same inputs.  `θ k = (1+u)^k − 1 ≤ k·u/(1 − k·u)` (`theta_le_gamma`).

  What is stated where:
  * componentwise bounds `|computed − exact| ≤ θ_k · (the same expression on absolute values)`, all inputs;
  * norm forms (`‖a‖·‖b‖`, "moderate translation" `T`);
  * SO3: coefficients UP TO A COMMON SIGN (`so3_composition_round_sign`; the canonical-sign decision may
    differ when `q_w ≈ 0`) and sign-free through the rotation matrix;
  * headline corollaries in the property's own terms for `u ≤ 2⁻⁵³` (1e-12) and `u ≤ 2⁻²⁴` (1e-5).
  Continued in SmoothProps/C01RoundB.lean (the group actions, Galilei, SE_K_3 for every K, associativity)
  and SmoothProps/C01RoundC.lean (every nested Bundle, every group descriptor).  Everything about
  overflow/underflow/subnormals is outside the standard model and remains audited.
-/
import SmoothProofs.RoundModel
import SmoothProofs.C01Small
import SmoothProofs.C01SO3
import SmoothProofs.C01SE3

open Lin Scalar Rounding RF Round

noncomputable section
namespace C01Round

/-! ## Witnesses used by the non-vacuity examples -/

/-- unit complex number (sin, cos) = (3/5, 4/5) -/
def zA : Vec ℝ 2 := mk2 (3 / 5) (4 / 5)
/-- unit quaternion with all coefficients non-zero -/
def qC : Vec ℝ 4 := mk4 (1 / 2) (-1 / 2) (1 / 2) (1 / 2)
/-- half turn about y (`q_w = 0`: the canonical-sign decision is at its threshold) -/
def qB : Vec ℝ 4 := mk4 0 1 0 0
/-- SE2 element with translation of norm ≈ 1e3 -/
def se2A : Vec ℝ 4 := mk4 600 (-800) (3 / 5) (4 / 5)
/-- SE3 element with translation coordinates up to 1e3 -/
def se3A : Vec ℝ 7 := SE3.mk7 (mk3 1000 (-250) 3) qC
/-- SE3 half-turn element -/
def se3B : Vec ℝ 7 := SE3.mk7 (mk3 (-999) 1000 (1 / 1000)) qB

theorem zA_nrm : nrm2 zA = 1 := by
  simp only [nrm2, zA, mk2, Vec.of]
  rw [show ((3 : ℝ) / 5) ^ 2 + (4 / 5) ^ 2 = 1 by norm_num, Real.sqrt_one]
theorem qC_unit : SO3.Unit qC := by simp [SO3.Unit, qC, mk4, Vec.of]; norm_num
theorem qB_unit : SO3.Unit qB := by simp [SO3.Unit, qB, mk4, Vec.of]
theorem se2A_unit : SE2.Unit se2A := by simp [SE2.Unit, se2A, mk4, Vec.of]; norm_num
theorem se2A_trans : nrm2 (SE2.r2 se2A) ≤ 1000 := by
  simp only [nrm2, SE2.r2, se2A, mk2, mk4, Vec.of]
  rw [show ((600 : ℝ)) ^ 2 + (-800) ^ 2 = 1000 ^ 2 by norm_num, Real.sqrt_sq (by norm_num)]
theorem se3A_unit : SE3.Unit se3A := by
  unfold SE3.Unit se3A; rw [SE3.so3_mk7]; exact qC_unit
theorem se3B_unit : SE3.Unit se3B := by
  unfold SE3.Unit se3B; rw [SE3.so3_mk7]; exact qB_unit
theorem se3A_trans (l : Fin 3) : |SE3.r3 se3A l| ≤ 1000 := by
  fin_cases l <;> simp [SE3.r3, se3A, SE3.mk7, mk3, Vec.of] <;> norm_num
theorem se3B_trans (l : Fin 3) : |SE3.r3 se3B l| ≤ 1000 := by
  fin_cases l <;> simp [SE3.r3, se3B, SE3.mk7, mk3, Vec.of] <;> norm_num

section Main
variable [Rounding]


/-! ## SO2 -/

/-- **SO2 composition, all inputs (unit or not), componentwise.**  Each coefficient of the computed
    product differs from the exact one by at most `θ₂ = 2u + u²` times the sum of the absolute values
    of the two products it is made of. -/
theorem so2_composition_round (a b : Vec ℝ 2) (i : Fin 2) :
    |toReal ((SO2.composition (Vec.toRF a) (Vec.toRF b)) i) - (SO2.composition a b) i|
      ≤ (2 * u + u ^ 2) * compAbs2 a b i := by
  rw [← theta_two]
  exact (so2_composition_appr a b i).err

/-- the same in norms: `≤ (2u + u²)·‖a‖·‖b‖` -/
theorem so2_composition_round_norm (a b : Vec ℝ 2) (i : Fin 2) :
    |toReal ((SO2.composition (Vec.toRF a) (Vec.toRF b)) i) - (SO2.composition a b) i|
      ≤ (2 * u + u ^ 2) * (nrm2 a * nrm2 b) := by
  refine (so2_composition_round a b i).trans ?_
  have := compAbs2_le a b i
  have hu := u_nonneg
  gcongr

/-- matrix form, in the property's terms: `matrix(fl(g₁∘g₂))` vs `matrix g₁ · matrix g₂` -/
theorem so2_matrix_composition_round (a b : Vec ℝ 2) (i j : Fin 2) :
    |(SO2.matrix (Vec.toR (SO2.composition (Vec.toRF a) (Vec.toRF b)))) i j
        - (mmul (SO2.matrix a) (SO2.matrix b)) i j| ≤ (2 * u + u ^ 2) * (nrm2 a * nrm2 b) := by
  rw [← SO2.matrix_composition]
  have h0 := so2_composition_round_norm a b 0
  have h1 := so2_composition_round_norm a b 1
  fin_cases i <;> fin_cases j <;> simp only [SO2.matrix, mat2, Mat.of, Vec.toR_get] <;>
    first
    | exact h0
    | exact h1
    | (rw [← abs_neg]; convert h0 using 2; simp; ring)

/-- SO2 inverse (conjugation) is exact: negation does not round -/
theorem so2_inverse_round (g : Vec ℝ 2) : Vec.toR (SO2.inverse (Vec.toRF g)) = SO2.inverse g :=
  so2_inverse_exact g

example : nrm2 (mk2 (3 / 5) (4 / 5)) = 1 := by
  simp only [nrm2, mk2, Vec.of]
  rw [show ((3 : ℝ) / 5) ^ 2 + (4 / 5) ^ 2 = 1 by norm_num, Real.sqrt_one]

/-! ## C1 -/

/-- C1 composition is the same expression as SO2 composition -/
theorem c1_composition_round (a b : Vec ℝ 2) (i : Fin 2) :
    |toReal ((C1.composition (Vec.toRF a) (Vec.toRF b)) i) - (C1.composition a b) i|
      ≤ (2 * u + u ^ 2) * compAbs2 a b i := by
  rw [← theta_two]
  exact (so2_composition_appr a b i).err

/-- **C1 inverse** `(−a, b)/(a² + b²)`, every non-zero element: relative error `θ₄ ≈ 4u` per coefficient -/
theorem c1_inverse_round (g : Vec ℝ 2) (h : C1.Valid g) (i : Fin 2) :
    |toReal ((C1.inverse (Vec.toRF g)) i) - (C1.inverse g) i|
      ≤ theta 4 * (|g i| / (g 0 ^ 2 + g 1 ^ 2)) :=
  (c1_inverse_appr g h i).err
example : C1.Valid (mk2 3 (-4) : Vec ℝ 2) := by simp [C1.Valid, mk2, Vec.of]; norm_num

/-- … which is a RELATIVE error on each coefficient of the exact inverse -/
theorem c1_inverse_round_rel (g : Vec ℝ 2) (h : C1.Valid g) (i : Fin 2) :
    |toReal ((C1.inverse (Vec.toRF g)) i) - (C1.inverse g) i| ≤ theta 4 * |(C1.inverse g) i| := by
  have hpos : 0 < g 0 ^ 2 + g 1 ^ 2 := lt_of_le_of_ne (by positivity) (Ne.symm h)
  refine (c1_inverse_round g h i).trans (le_of_eq ?_)
  congr 1
  have e : g 0 * g 0 + g 1 * g 1 = g 0 ^ 2 + g 1 ^ 2 := by ring
  fin_cases i <;> simp [C1.inverse, mk2, Vec.of, abs_div, e, abs_of_pos hpos]

/-! ## Tn -/

/-- **Tn composition** is one rounded addition per coordinate: relative error `u` -/
theorem tn_composition_round {n : Nat} (a b : Vec ℝ n) (i : Fin n) :
    |toReal ((Tn.composition (Vec.toRF a) (Vec.toRF b)) i) - (Tn.composition a b) i|
      ≤ u * |(Tn.composition a b) i| := tn_composition_err a b i

/-- Tn inverse (negation) is exact -/
theorem tn_inverse_round {n : Nat} (g : Vec ℝ n) : Vec.toR (Tn.inverse (Vec.toRF g)) = Tn.inverse g :=
  tn_inverse_exact g

/-- matrix form: every entry of `matrix(fl(a + b))` is within relative error `u` of the entry of
    `matrix a · matrix b` -/
theorem tn_matrix_composition_round {n : Nat} (a b : Vec ℝ n) (i j : Fin (n + 1)) :
    |(Tn.matrix (Vec.toR (Tn.composition (Vec.toRF a) (Vec.toRF b)))) i j
        - (mmul (Tn.matrix a) (Tn.matrix b)) i j| ≤ u * |(mmul (Tn.matrix a) (Tn.matrix b)) i j| := by
  rw [← Tn.matrix_composition]
  have hu := u_nonneg
  induction i using Fin.lastCases with
  | last =>
    induction j using Fin.lastCases with
    | last => simp [Tn.matrix_ll]; positivity
    | cast j => simp [Tn.matrix_lc]
  | cast i =>
    induction j using Fin.lastCases with
    | last => simpa [Tn.matrix_cl] using tn_composition_round a b i
    | cast j => simp [Tn.matrix_cc]; positivity


/-! ## SO3 -/

/-- **SO3 composition, coefficients, all quaternions: equal to the exact result UP TO A COMMON SIGN.**
    The canonical-sign step `if (q_w < 0) q = −q` is decided on the rounded `q_w`; when the exact
    `q_w` is within rounding error of 0 the two decisions may differ, so the coefficient vectors can
    differ by the overall sign (both represent the same rotation).  5 roundings: 4 in the Eigen
    quaternion product (one product, three additions per path) + the multiplication by −1. -/
theorem so3_composition_round_sign (a b : Vec ℝ 4) :
    ∃ s : ℝ, (s = 1 ∨ s = -1) ∧ ∀ i,
      |toReal ((SO3.composition (Vec.toRF a) (Vec.toRF b)) i) - s * (SO3.composition a b) i|
        ≤ theta 5 * (nrm4 a * nrm4 b) := by
  obtain ⟨s, hs, h⟩ := so3_composition_appr a b
  exact ⟨s, hs, fun i => ((h i).mono (le_refl _) (qabs_le a b i)).err⟩

/-- **SO3 composition through the rotation matrix (sign-free), all quaternions.**
    `matrix` is Eigen's `toRotationMatrix` applied exactly to the stored (rounded) coefficients, as in
    the audit. -/
theorem so3_composition_matrix_round (a b : Vec ℝ 4) (i j : Fin 3) :
    |(SO3.matrix (Vec.toR (SO3.composition (Vec.toRF a) (Vec.toRF b)))) i j
        - (SO3.matrix (SO3.composition a b)) i j|
      ≤ theta 10 * (1 + 4 * (SO3.sqn a * SO3.sqn b)) := by
  obtain ⟨s, hs, h⟩ := so3_composition_appr a b
  have h' : ∀ k, Appr 5 (qabs a b k) (toReal ((SO3.composition (Vec.toRF a) (Vec.toRF b)) k))
      ((Vec.of (fun k => s * (SO3.composition a b) k)) k) := h
  have hm := so3_matrix_appr0 _ _ _ h' i j
  rw [so3_matrix_sign s hs] at hm
  have hle : so3MatAbs (qabs a b) i j ≤ 1 + 4 * (SO3.sqn a * SO3.sqn b) := by
    have := so3MatAbs_le (qabs a b) (nrm4 a * nrm4 b) (qabs_nonneg a b) (qabs_le a b) i j
    rwa [mul_pow, nrm4_sq, nrm4_sq] at this
  exact hm.err_le (le_refl _) hle

/-- in the property's terms: for unit quaternions `matrix(fl(q₁∘q₂))` vs `matrix q₁ · matrix q₂` -/
theorem so3_matrix_composition_round (a b : Vec ℝ 4) (ha : SO3.Unit a) (hb : SO3.Unit b) (i j : Fin 3) :
    |(SO3.matrix (Vec.toR (SO3.composition (Vec.toRF a) (Vec.toRF b)))) i j
        - (mmul (SO3.matrix a) (SO3.matrix b)) i j| ≤ theta 10 * 5 := by
  rw [← SO3.matrix_composition a b ha hb]
  have := so3_composition_matrix_round a b i j
  have e1 : SO3.sqn a = 1 := ha
  have e2 : SO3.sqn b = 1 := hb
  rw [e1, e2] at this
  norm_num at this ⊢
  exact this
example : SO3.Unit qB ∧ SO3.Unit qC := ⟨qB_unit, qC_unit⟩

/-- **SO3 inverse** (Eigen `conjugate/squaredNorm`), all quaternions incl. 0: relative error `θ₇` -/
theorem so3_inverse_round (g : Vec ℝ 4) (i : Fin 4) :
    |toReal ((SO3.inverse (Vec.toRF g)) i) - (SO3.inverse g) i| ≤ theta 7 * (|g i| / SO3.sqn g) := by
  rw [← sqNorm_eq_sqn]
  exact (so3_inverse_appr g i).err

/-- SO3 inverse through the rotation matrix, all non-zero quaternions -/
theorem so3_inverse_matrix_round (g : Vec ℝ 4) (hg : SO3.sqn g ≠ 0) (i j : Fin 3) :
    |(SO3.matrix (Vec.toR (SO3.inverse (Vec.toRF g)))) i j - (SO3.matrix (SO3.inverse g)) i j|
      ≤ theta 14 * (1 + 4 / SO3.sqn g) := by
  have hpos : 0 < SO3.sqn g := lt_of_le_of_ne (sqn_nonneg g) (Ne.symm hg)
  have h : ∀ k, Appr 7 (qinvAbs g k) (toReal ((SO3.inverse (Vec.toRF g)) k)) ((SO3.inverse g) k) :=
    fun k => by simpa [qinvAbs, Vec.of] using so3_inverse_appr g k
  have hm := so3_matrix_appr0 _ _ _ h i j
  have hle : so3MatAbs (qinvAbs g) i j ≤ 1 + 4 / SO3.sqn g := by
    have := so3MatAbs_le (qinvAbs g) (nrm4 g / SO3.sqn g)
      (fun k => by simp only [qinvAbs, Vec.of, sqNorm_eq_sqn]; positivity)
      (fun k => by
        simp only [qinvAbs, Vec.of, sqNorm_eq_sqn]
        have := abs_le_nrm4 g k
        gcongr) i j
    have e : (nrm4 g / SO3.sqn g) ^ 2 = 1 / SO3.sqn g := by
      rw [div_pow, nrm4_sq]; field_simp
    rw [e] at this
    calc _ ≤ _ := this
      _ = _ := by ring
  exact hm.err_le (le_refl _) hle
example : SO3.sqn qC ≠ 0 := by rw [show SO3.sqn qC = 1 from qC_unit]; norm_num


/-! ## SE2 -/

/-- **SE2 composition, all inputs, componentwise**: translation `R(q₁)t₂ + t₁` with 4 roundings,
    rotation (SO2 product) with 2; majorant = the same expression on absolute values. -/
theorem se2_composition_round (a b : Vec ℝ 4) (i : Fin 4) :
    |toReal ((SE2.composition (Vec.toRF a) (Vec.toRF b)) i) - (SE2.composition a b) i|
      ≤ theta (se2CompK i) * se2CompAbs a b i := (se2_composition_appr a b i).err

/-- **SE2 inverse, all inputs**: translation `−R(q)ᵀ t` with 3 roundings, rotation part exact -/
theorem se2_inverse_round (g : Vec ℝ 4) (i : Fin 4) :
    |toReal ((SE2.inverse (Vec.toRF g)) i) - (SE2.inverse g) i|
      ≤ theta (se2InvK i) * se2InvAbs g i := (se2_inverse_appr g i).err

/-- matrix form with the bound in terms of the rotation-part norm `ρ` and the translation norm `T`
    ("moderate translation"): every entry of `matrix(fl(g₁∘g₂)) − matrix g₁·matrix g₂` is at most
    `θ₄·(ρ(ρ+T) + T)`.  No unit-norm hypothesis. -/
theorem se2_matrix_composition_round (a b : Vec ℝ 4) (ρ T : ℝ)
    (ha : nrm2 (SE2.so2 a) ≤ ρ) (hb : nrm2 (SE2.so2 b) ≤ ρ)
    (hta : nrm2 (SE2.r2 a) ≤ T) (htb : nrm2 (SE2.r2 b) ≤ T) (i j : Fin 3) :
    |(SE2.matrix (Vec.toR (SE2.composition (Vec.toRF a) (Vec.toRF b)))) i j
        - (mmul (SE2.matrix a) (SE2.matrix b)) i j| ≤ theta 4 * (ρ * (ρ + T) + T) := by
  rw [← SE2.matrix_composition]
  have hρ : 0 ≤ ρ := (nrm2_nonneg _).trans ha
  have hT : 0 ≤ T := (nrm2_nonneg _).trans hta
  have t4 := theta_nonneg 4
  have t24 : theta 2 ≤ theta 4 := theta_mono (by norm_num)
  have na := nrm2_nonneg (SE2.so2 a)
  -- coefficientwise bounds
  have key : ∀ k : Fin 4, |toReal ((SE2.composition (Vec.toRF a) (Vec.toRF b)) k) - (SE2.composition a b) k|
      ≤ theta 4 * (ρ * (ρ + T) + T) := by
    intro k
    refine (se2_composition_round a b k).trans ?_
    have hle := se2CompAbs_le a b k
    have hk : theta (se2CompK k) ≤ theta 4 := theta_mono (by fin_cases k <;> decide)
    have hX : se2CompAbs a b k ≤ ρ * (ρ + T) + T := by
      refine hle.trans ?_
      split_ifs with h
      · have h1 : nrm2 (SE2.so2 a) * nrm2 (SE2.r2 b) ≤ ρ * T := mul_le_mul ha htb (nrm2_nonneg _) hρ
        have h2 : |a k| ≤ T := by
          have : k = 0 ∨ k = 1 := by
            fin_cases k <;> simp at h ⊢
          rcases this with rfl | rfl
          · exact (abs_le_nrm2 (SE2.r2 a) 0).trans hta
          · exact (abs_le_nrm2 (SE2.r2 a) 1).trans hta
        nlinarith
      · have h1 : nrm2 (SE2.so2 a) * nrm2 (SE2.so2 b) ≤ ρ * ρ := mul_le_mul ha hb (nrm2_nonneg _) hρ
        nlinarith [mul_nonneg hρ hT]
    have hX0 : 0 ≤ se2CompAbs a b k := by
      fin_cases k <;> simp only [se2CompAbs, mk4, Vec.of] <;> positivity
    exact mul_le_mul hk hX hX0 t4
  have hpos : 0 ≤ theta 4 * (ρ * (ρ + T) + T) := by positivity
  have k0 := key 0; have k1 := key 1; have k2 := key 2; have k3 := key 3
  fin_cases i <;> fin_cases j <;>
    simp only [SE2.matrix, SE2.so2, SO2.matrix, mat3, mat2, mk2, Mat.of, Vec.of, Vec.toR_get]
  · exact k3
  · rw [neg_sub_neg, abs_sub_comm]; exact k2
  · exact k0
  · exact k2
  · exact k3
  · exact k1
  · simpa using hpos
  · simpa using hpos
  · simpa using hpos
example : nrm2 (SE2.so2 se2A) ≤ 1 ∧ nrm2 (SE2.r2 se2A) ≤ 1000 :=
  ⟨(nrm2_so2_of_unit _ se2A_unit).le, se2A_trans⟩


/-! ## SE3 -/

/-- **SE3 composition, translation part `R(q₁)t₂ + t₁`, all inputs, componentwise**: 9 roundings
    (4 in the entries of `toRotationMatrix`, 1 per product, 3 in the left-to-right sum from 0, 1 for
    `+ t₁`); majorant `|R|(|q₁|)·|t₂| + |t₁|` -/
theorem se3_composition_trans_round (a b : Vec ℝ 7) (i : Fin 3) :
    |toReal ((SE3.r3 (SE3.composition (Vec.toRF a) (Vec.toRF b))) i) - (SE3.r3 (SE3.composition a b)) i|
      ≤ theta 9 * se3TransAbs a b i := (se3_composition_trans_appr a b i).err

/-- the same with "moderate translation": `‖q₁‖² ≤ n`, `|t| ≤ T` coordinatewise ⇒ `≤ θ₉·((1+4n)T + T)` -/
theorem se3_composition_trans_round_T (a b : Vec ℝ 7) (n T : ℝ) (hn : SO3.sqn (SE3.so3 a) ≤ n)
    (ha : ∀ l, |SE3.r3 a l| ≤ T) (hb : ∀ l, |SE3.r3 b l| ≤ T) (i : Fin 3) :
    |toReal ((SE3.r3 (SE3.composition (Vec.toRF a) (Vec.toRF b))) i) - (SE3.r3 (SE3.composition a b)) i|
      ≤ theta 9 * ((1 + 4 * n) * T + T) := by
  refine (se3_composition_trans_round a b i).trans ?_
  have := se3TransAbs_le a b n T hn hb i (ha i)
  have := theta_nonneg 9
  gcongr
example : SO3.sqn (SE3.so3 se3A) ≤ 1 ∧ (∀ l, |SE3.r3 se3A l| ≤ 1000) ∧ ∀ l, |SE3.r3 se3B l| ≤ 1000 :=
  ⟨(show SO3.sqn (SE3.so3 se3A) = 1 from se3A_unit).le, se3A_trans, se3B_trans⟩

/-- **SE3 composition, rotation part, through the rotation matrix (sign-free), all inputs** -/
theorem se3_composition_rot_round (a b : Vec ℝ 7) (i j : Fin 3) :
    |(SO3.matrix (Vec.toR (SE3.so3 (SE3.composition (Vec.toRF a) (Vec.toRF b))))) i j
        - (SO3.matrix (SE3.so3 (SE3.composition a b))) i j|
      ≤ theta 10 * (1 + 4 * (SO3.sqn (SE3.so3 a) * SO3.sqn (SE3.so3 b))) := by
  rw [se3_comp_so3, se3_comp_so3, se3_so3_toRF, se3_so3_toRF]
  exact so3_composition_matrix_round _ _ i j

/-- **SE3 inverse, translation part `−R(q⁻¹)t`, all inputs, componentwise**: 22 roundings -/
theorem se3_inverse_trans_round (g : Vec ℝ 7) (i : Fin 3) :
    |toReal ((SE3.r3 (SE3.inverse (Vec.toRF g))) i) - (SE3.r3 (SE3.inverse g)) i|
      ≤ theta 22 * se3InvTransAbs g i := (se3_inverse_trans_appr g i).err

theorem se3_inverse_trans_round_T (g : Vec ℝ 7) (m T : ℝ) (hm0 : 0 < m) (hm : m ≤ SO3.sqn (SE3.so3 g))
    (hg : ∀ l, |SE3.r3 g l| ≤ T) (i : Fin 3) :
    |toReal ((SE3.r3 (SE3.inverse (Vec.toRF g))) i) - (SE3.r3 (SE3.inverse g)) i|
      ≤ theta 22 * ((1 + 4 / m) * T) := by
  refine (se3_inverse_trans_round g i).trans ?_
  have := se3InvTransAbs_le g m T hm0 hm hg i
  have := theta_nonneg 22
  gcongr
example : (0 : ℝ) < 1 ∧ 1 ≤ SO3.sqn (SE3.so3 se3B) ∧ ∀ l, |SE3.r3 se3B l| ≤ 1000 :=
  ⟨one_pos, (show SO3.sqn (SE3.so3 se3B) = 1 from se3B_unit).ge, se3B_trans⟩

/-- SE3 inverse, rotation part through the rotation matrix -/
theorem se3_inverse_rot_round (g : Vec ℝ 7) (hg : SO3.sqn (SE3.so3 g) ≠ 0) (i j : Fin 3) :
    |(SO3.matrix (Vec.toR (SE3.so3 (SE3.inverse (Vec.toRF g))))) i j
        - (SO3.matrix (SE3.so3 (SE3.inverse g))) i j|
      ≤ theta 14 * (1 + 4 / SO3.sqn (SE3.so3 g)) := by
  rw [se3_inv_so3, se3_inv_so3, se3_so3_toRF]
  exact so3_inverse_matrix_round _ hg i j
example : SO3.sqn (SE3.so3 se3B) ≠ 0 := by rw [show SO3.sqn (SE3.so3 se3B) = 1 from se3B_unit]; norm_num

/-! ## Headline: the accuracy clause of C01 in its own terms

  `ū = u/(1 − 32u)` bounds `θ_k/k` for every `k ≤ 32` (`theta_le_ubar`); `ū ≤ 1.12e-16` in double,
  `ū ≤ 5.97e-8` in single.  "Moderate" elements: rotation part of squared norm within `1e-8` of 1
  (every normalised float quaternion / complex number is far inside), translation coordinates
  bounded by `T`; the error is measured relative to `max(1, T)` (the audit's measure: it divides by
  `max(1, max|M g₁|·|M g₂|)`, and the property restricts `T ≤ 1e3`; nothing in the standard model
  depends on that restriction — it is where overflow is out of the question). -/

/-! ### SO2 -/

theorem so2_matrix_composition_acc (a b : Vec ℝ 2) (ha : nrm2 a ≤ 1 + 1 / 10 ^ 8)
    (hb : nrm2 b ≤ 1 + 1 / 10 ^ 8) (i j : Fin 2) :
    |(SO2.matrix (Vec.toR (SO2.composition (Vec.toRF a) (Vec.toRF b)))) i j
        - (mmul (SO2.matrix a) (SO2.matrix b)) i j| ≤ 201 / 100 * ubar := by
  refine (so2_matrix_composition_round a b i j).trans ?_
  rw [← theta_two]
  have h2 := theta_le_ubar 2 (by norm_num)
  have hub := ubar_nonneg
  have t0 := theta_nonneg 2
  have n1 := nrm2_nonneg a; have n2 := nrm2_nonneg b
  have hn : nrm2 a * nrm2 b ≤ (1 + 1 / 10 ^ 8) * (1 + 1 / 10 ^ 8) := mul_le_mul ha hb n2 (by norm_num)
  calc theta 2 * (nrm2 a * nrm2 b) ≤ ((2 : ℕ) * ubar) * ((1 + 1 / 10 ^ 8) * (1 + 1 / 10 ^ 8)) :=
        mul_le_mul h2 hn (by positivity) (by positivity)
    _ ≤ 201 / 100 * ubar := by norm_num; nlinarith
example : nrm2 zA ≤ 1 + 1 / 10 ^ 8 := by rw [zA_nrm]; norm_num

/-- **C01 accuracy clause, SO2, double**: `matrix(g₁*g₂)` vs `matrix g₁ · matrix g₂` to `1e-12` -/
theorem so2_matrix_composition_double (h : IsDouble) (a b : Vec ℝ 2) (ha : nrm2 a ≤ 1 + 1 / 10 ^ 8)
    (hb : nrm2 b ≤ 1 + 1 / 10 ^ 8) (i j : Fin 2) :
    |(SO2.matrix (Vec.toR (SO2.composition (Vec.toRF a) (Vec.toRF b)))) i j
        - (mmul (SO2.matrix a) (SO2.matrix b)) i j| ≤ 1 / 10 ^ 12 := by
  have := so2_matrix_composition_acc a b ha hb i j
  have := ubar_double h
  norm_num at *
  linarith

/-- … single: `1e-5` -/
theorem so2_matrix_composition_single (h : IsSingle) (a b : Vec ℝ 2) (ha : nrm2 a ≤ 1 + 1 / 10 ^ 8)
    (hb : nrm2 b ≤ 1 + 1 / 10 ^ 8) (i j : Fin 2) :
    |(SO2.matrix (Vec.toR (SO2.composition (Vec.toRF a) (Vec.toRF b)))) i j
        - (mmul (SO2.matrix a) (SO2.matrix b)) i j| ≤ 1 / 10 ^ 5 := by
  have := so2_matrix_composition_acc a b ha hb i j
  have := ubar_single h
  norm_num at *
  linarith

/-! ### C1 -/

/-- C1 composition: the error of every coefficient is at most `(2u + u²)` times the MODULUS of the exact
    product (scalings are arbitrary: genuinely relative) -/
theorem c1_composition_round_rel (a b : Vec ℝ 2) (i : Fin 2) :
    |toReal ((C1.composition (Vec.toRF a) (Vec.toRF b)) i) - (C1.composition a b) i|
      ≤ (2 * u + u ^ 2) * nrm2 (C1.composition a b) := by
  rw [nrm2_c1_composition]
  refine (c1_composition_round a b i).trans ?_
  have := compAbs2_le a b i
  have hu := u_nonneg
  gcongr

/-! ### SO3 -/

theorem so3_composition_matrix_acc (a b : Vec ℝ 4) (ha : SO3.sqn a ≤ 1 + 1 / 10 ^ 8)
    (hb : SO3.sqn b ≤ 1 + 1 / 10 ^ 8) (i j : Fin 3) :
    |(SO3.matrix (Vec.toR (SO3.composition (Vec.toRF a) (Vec.toRF b)))) i j
        - (SO3.matrix (SO3.composition a b)) i j| ≤ 5001 / 100 * ubar := by
  refine (so3_composition_matrix_round a b i j).trans ?_
  have n1 := sqn_nonneg a; have n2 := sqn_nonneg b
  have hn : SO3.sqn a * SO3.sqn b ≤ (1 + 1 / 10 ^ 8) * (1 + 1 / 10 ^ 8) := mul_le_mul ha hb n2 (by norm_num)
  apply theta_mul_le 10 (by norm_num) _ (1 + 4 * ((1 + 1 / 10 ^ 8) * (1 + 1 / 10 ^ 8)))
  · positivity
  · linarith
  · norm_num
example : SO3.sqn qB ≤ 1 + 1 / 10 ^ 8 ∧ SO3.sqn qC ≤ 1 + 1 / 10 ^ 8 := by
  rw [show SO3.sqn qB = 1 from qB_unit, show SO3.sqn qC = 1 from qC_unit]; norm_num

/-- **C01 accuracy clause, SO3 composition, double.**  For unit quaternions the matrix of the computed
    product is within `1e-12` (entrywise) of `matrix q₁ · matrix q₂`. -/
theorem so3_matrix_composition_double (h : IsDouble) (a b : Vec ℝ 4) (ha : SO3.Unit a) (hb : SO3.Unit b)
    (i j : Fin 3) :
    |(SO3.matrix (Vec.toR (SO3.composition (Vec.toRF a) (Vec.toRF b)))) i j
        - (mmul (SO3.matrix a) (SO3.matrix b)) i j| ≤ 1 / 10 ^ 12 := by
  rw [← SO3.matrix_composition a b ha hb]
  have e1 : SO3.sqn a = 1 := ha
  have e2 : SO3.sqn b = 1 := hb
  have := so3_composition_matrix_acc a b (by rw [e1]; norm_num) (by rw [e2]; norm_num) i j
  have := ubar_double h
  norm_num at *
  linarith

theorem so3_matrix_composition_single (h : IsSingle) (a b : Vec ℝ 4) (ha : SO3.Unit a) (hb : SO3.Unit b)
    (i j : Fin 3) :
    |(SO3.matrix (Vec.toR (SO3.composition (Vec.toRF a) (Vec.toRF b)))) i j
        - (mmul (SO3.matrix a) (SO3.matrix b)) i j| ≤ 1 / 10 ^ 5 := by
  rw [← SO3.matrix_composition a b ha hb]
  have e1 : SO3.sqn a = 1 := ha
  have e2 : SO3.sqn b = 1 := hb
  have := so3_composition_matrix_acc a b (by rw [e1]; norm_num) (by rw [e2]; norm_num) i j
  have := ubar_single h
  norm_num at *
  linarith

theorem so3_inverse_matrix_acc (g : Vec ℝ 4) (hg : 1 - 1 / 10 ^ 8 ≤ SO3.sqn g) (i j : Fin 3) :
    |(SO3.matrix (Vec.toR (SO3.inverse (Vec.toRF g)))) i j - (SO3.matrix (SO3.inverse g)) i j|
      ≤ 7001 / 100 * ubar := by
  have hpos : 0 < SO3.sqn g := lt_of_lt_of_le (by norm_num) hg
  refine (so3_inverse_matrix_round g hpos.ne' i j).trans ?_
  have h4 : 4 / SO3.sqn g ≤ 4 / (1 - 1 / 10 ^ 8) := by gcongr
  apply theta_mul_le 14 (by norm_num) _ (1 + 4 / (1 - 1 / 10 ^ 8))
  · positivity
  · linarith
  · norm_num
example : 1 - 1 / 10 ^ 8 ≤ SO3.sqn qC := by rw [show SO3.sqn qC = 1 from qC_unit]; norm_num

/-- **C01 accuracy clause, SO3 inverse, double**: the matrix of the computed inverse is within `1e-12`
    of a two-sided inverse of `matrix q` -/
theorem so3_matrix_inverse_double (h : IsDouble) (g : Vec ℝ 4) (hg : SO3.Unit g) :
    ∃ Minv : Mat ℝ 3 3, mmul Minv (SO3.matrix g) = ident 3 ∧ mmul (SO3.matrix g) Minv = ident 3 ∧
      ∀ i j, |(SO3.matrix (Vec.toR (SO3.inverse (Vec.toRF g)))) i j - Minv i j| ≤ 1 / 10 ^ 12 := by
  refine ⟨SO3.matrix (SO3.inverse g), SO3.matrix_inverse_left g hg, SO3.matrix_inverse_right g hg, fun i j => ?_⟩
  have e1 : SO3.sqn g = 1 := hg
  have := so3_inverse_matrix_acc g (by rw [e1]; norm_num) i j
  have := ubar_double h
  norm_num at *
  linarith

theorem so3_matrix_inverse_single (h : IsSingle) (g : Vec ℝ 4) (hg : SO3.Unit g) :
    ∃ Minv : Mat ℝ 3 3, mmul Minv (SO3.matrix g) = ident 3 ∧ mmul (SO3.matrix g) Minv = ident 3 ∧
      ∀ i j, |(SO3.matrix (Vec.toR (SO3.inverse (Vec.toRF g)))) i j - Minv i j| ≤ 1 / 10 ^ 5 := by
  refine ⟨SO3.matrix (SO3.inverse g), SO3.matrix_inverse_left g hg, SO3.matrix_inverse_right g hg, fun i j => ?_⟩
  have e1 : SO3.sqn g = 1 := hg
  have := so3_inverse_matrix_acc g (by rw [e1]; norm_num) i j
  have := ubar_single h
  norm_num at *
  linarith

/-! ### SE2 -/

/-- SE2 inverse, matrix form: rotation entries exact, translation entries within `θ₃·ρ·T` -/
theorem se2_matrix_inverse_round (g : Vec ℝ 4) (ρ T : ℝ) (hg : nrm2 (SE2.so2 g) ≤ ρ)
    (ht : nrm2 (SE2.r2 g) ≤ T) (i j : Fin 3) :
    |(SE2.matrix (Vec.toR (SE2.inverse (Vec.toRF g)))) i j - (SE2.matrix (SE2.inverse g)) i j|
      ≤ theta 3 * (ρ * T) := by
  have hρ : 0 ≤ ρ := (nrm2_nonneg _).trans hg
  have hT : 0 ≤ T := (nrm2_nonneg _).trans ht
  have t3 := theta_nonneg 3
  have hpos : 0 ≤ theta 3 * (ρ * T) := by positivity
  have key : ∀ k : Fin 4, |toReal ((SE2.inverse (Vec.toRF g)) k) - (SE2.inverse g) k| ≤ theta 3 * (ρ * T) := by
    intro k
    refine (se2_inverse_round g k).trans ?_
    by_cases hk : k.val < 2
    · have hle := se2InvAbs_le g k
      rw [if_pos hk] at hle
      have hK : se2InvK k = 3 := by simp [se2InvK, hk]
      rw [hK]
      have : nrm2 (SE2.so2 g) * nrm2 (SE2.r2 g) ≤ ρ * T := mul_le_mul hg ht (nrm2_nonneg _) hρ
      gcongr
      exact hle.trans this
    · have hK : se2InvK k = 0 := by simp [se2InvK, hk]
      rw [hK, theta_zero, zero_mul]; exact hpos
  have k0 := key 0; have k1 := key 1; have k2 := key 2; have k3 := key 3
  fin_cases i <;> fin_cases j <;>
    simp only [SE2.matrix, SE2.so2, SO2.matrix, mat3, mat2, mk2, Mat.of, Vec.of, Vec.toR_get]
  · exact k3
  · rw [neg_sub_neg, abs_sub_comm]; exact k2
  · exact k0
  · exact k2
  · exact k3
  · exact k1
  · simpa using hpos
  · simpa using hpos
  · simpa using hpos

theorem se2_matrix_composition_acc (a b : Vec ℝ 4) (T : ℝ)
    (ha : nrm2 (SE2.so2 a) ≤ 1 + 1 / 10 ^ 8) (hb : nrm2 (SE2.so2 b) ≤ 1 + 1 / 10 ^ 8)
    (hta : nrm2 (SE2.r2 a) ≤ T) (htb : nrm2 (SE2.r2 b) ≤ T) (i j : Fin 3) :
    |(SE2.matrix (Vec.toR (SE2.composition (Vec.toRF a) (Vec.toRF b)))) i j
        - (mmul (SE2.matrix a) (SE2.matrix b)) i j| ≤ 1201 / 100 * ubar * scale T := by
  have hT : 0 ≤ T := (nrm2_nonneg _).trans hta
  have hm1 := one_le_scale T
  have hmT := le_scale T
  refine (se2_matrix_composition_round a b (1 + 1 / 10 ^ 8) (scale T) ha hb (hta.trans hmT) (htb.trans hmT) i j).trans ?_
  have := theta_mul_le 4 (by norm_num) ((1 + 1 / 10 ^ 8) * ((1 + 1 / 10 ^ 8) + scale T) + scale T)
    (3001 / 1000 * scale T) (1201 / 100 * scale T) (by have := scale_nonneg T; positivity) (by nlinarith) (by norm_num; nlinarith)
  calc _ ≤ _ := this
    _ = _ := by ring

/-- **C01 accuracy clause, SE2 composition, double**: relative to `max(1, T)`, `T ≥ ‖t₁‖, ‖t₂‖` -/
theorem se2_matrix_composition_double (h : IsDouble) (a b : Vec ℝ 4) (T : ℝ)
    (ha : nrm2 (SE2.so2 a) ≤ 1 + 1 / 10 ^ 8) (hb : nrm2 (SE2.so2 b) ≤ 1 + 1 / 10 ^ 8)
    (hta : nrm2 (SE2.r2 a) ≤ T) (htb : nrm2 (SE2.r2 b) ≤ T) (i j : Fin 3) :
    |(SE2.matrix (Vec.toR (SE2.composition (Vec.toRF a) (Vec.toRF b)))) i j
        - (mmul (SE2.matrix a) (SE2.matrix b)) i j| ≤ 1 / 10 ^ 12 * scale T := by
  refine (se2_matrix_composition_acc a b T ha hb hta htb i j).trans ?_
  have := ubar_double h
  have : (0 : ℝ) ≤ scale T := scale_nonneg T
  gcongr
  norm_num at *; linarith

theorem se2_matrix_composition_single (h : IsSingle) (a b : Vec ℝ 4) (T : ℝ)
    (ha : nrm2 (SE2.so2 a) ≤ 1 + 1 / 10 ^ 8) (hb : nrm2 (SE2.so2 b) ≤ 1 + 1 / 10 ^ 8)
    (hta : nrm2 (SE2.r2 a) ≤ T) (htb : nrm2 (SE2.r2 b) ≤ T) (i j : Fin 3) :
    |(SE2.matrix (Vec.toR (SE2.composition (Vec.toRF a) (Vec.toRF b)))) i j
        - (mmul (SE2.matrix a) (SE2.matrix b)) i j| ≤ 1 / 10 ^ 5 * scale T := by
  refine (se2_matrix_composition_acc a b T ha hb hta htb i j).trans ?_
  have := ubar_single h
  have : (0 : ℝ) ≤ scale T := scale_nonneg T
  gcongr
  norm_num at *; linarith

theorem se2_matrix_inverse_acc (g : Vec ℝ 4) (T : ℝ) (hg : nrm2 (SE2.so2 g) ≤ 1 + 1 / 10 ^ 8)
    (ht : nrm2 (SE2.r2 g) ≤ T) (i j : Fin 3) :
    |(SE2.matrix (Vec.toR (SE2.inverse (Vec.toRF g)))) i j - (SE2.matrix (SE2.inverse g)) i j|
      ≤ 301 / 100 * ubar * scale T := by
  have hT : 0 ≤ T := (nrm2_nonneg _).trans ht
  have hm1 := one_le_scale T
  have hmT := le_scale T
  refine (se2_matrix_inverse_round g (1 + 1 / 10 ^ 8) (scale T) hg (ht.trans hmT) i j).trans ?_
  have := theta_mul_le 3 (by norm_num) ((1 + 1 / 10 ^ 8) * scale T)
    ((1 + 1 / 10 ^ 8) * scale T) (301 / 100 * scale T) (by positivity) (le_refl _)
    (by norm_num; nlinarith)
  calc _ ≤ _ := this
    _ = _ := by ring

/-- **C01 accuracy clause, SE2 inverse, double** -/
theorem se2_matrix_inverse_double (h : IsDouble) (g : Vec ℝ 4) (hg : SE2.Unit g) (T : ℝ)
    (ht : nrm2 (SE2.r2 g) ≤ T) :
    ∃ Minv : Mat ℝ 3 3, mmul Minv (SE2.matrix g) = ident 3 ∧ mmul (SE2.matrix g) Minv = ident 3 ∧
      ∀ i j, |(SE2.matrix (Vec.toR (SE2.inverse (Vec.toRF g)))) i j - Minv i j| ≤ 1 / 10 ^ 12 * scale T := by
  refine ⟨SE2.matrix (SE2.inverse g), SE2.matrix_inverse_left g hg, SE2.matrix_inverse_right g hg, fun i j => ?_⟩
  refine (se2_matrix_inverse_acc g T (by rw [nrm2_so2_of_unit g hg]; norm_num) ht i j).trans ?_
  have := ubar_double h
  have : (0 : ℝ) ≤ scale T := scale_nonneg T
  gcongr
  norm_num at *; linarith

theorem se2_matrix_inverse_single (h : IsSingle) (g : Vec ℝ 4) (hg : SE2.Unit g) (T : ℝ)
    (ht : nrm2 (SE2.r2 g) ≤ T) :
    ∃ Minv : Mat ℝ 3 3, mmul Minv (SE2.matrix g) = ident 3 ∧ mmul (SE2.matrix g) Minv = ident 3 ∧
      ∀ i j, |(SE2.matrix (Vec.toR (SE2.inverse (Vec.toRF g)))) i j - Minv i j| ≤ 1 / 10 ^ 5 * scale T := by
  refine ⟨SE2.matrix (SE2.inverse g), SE2.matrix_inverse_left g hg, SE2.matrix_inverse_right g hg, fun i j => ?_⟩
  refine (se2_matrix_inverse_acc g T (by rw [nrm2_so2_of_unit g hg]; norm_num) ht i j).trans ?_
  have := ubar_single h
  have : (0 : ℝ) ≤ scale T := scale_nonneg T
  gcongr
  norm_num at *; linarith

/-! ### SE3 -/

/-- SE3 composition, whole 4×4 matrix, approximately-unit rotation parts, translations bounded by `T`
    coordinatewise: every entry of `matrix(fl(g₁∘g₂)) − matrix(g₁∘g₂)` is at most `54.01·ū·max(1,T)` -/
theorem se3_matrix_composition_acc (a b : Vec ℝ 7) (T : ℝ)
    (hna : SO3.sqn (SE3.so3 a) ≤ 1 + 1 / 10 ^ 8) (hnb : SO3.sqn (SE3.so3 b) ≤ 1 + 1 / 10 ^ 8)
    (hta : ∀ l, |SE3.r3 a l| ≤ T) (htb : ∀ l, |SE3.r3 b l| ≤ T) :
    ∀ i j : Fin 4, |(SE3.matrix (Vec.toR (SE3.composition (Vec.toRF a) (Vec.toRF b)))) i j
        - (SE3.matrix (SE3.composition a b)) i j| ≤ 5401 / 100 * ubar * scale T := by
  have hs1 := one_le_scale T
  have hsT := le_scale T
  have hs0 := scale_nonneg T
  have hub := ubar_nonneg
  apply fin4_cases
  · intro i j
    rw [se3_matrix_rot, se3_matrix_rot, se3_so3_toR]
    refine (se3_composition_rot_round a b i j).trans ?_
    have n1 := sqn_nonneg (SE3.so3 a); have n2 := sqn_nonneg (SE3.so3 b)
    have hn : SO3.sqn (SE3.so3 a) * SO3.sqn (SE3.so3 b) ≤ (1 + 1 / 10 ^ 8) * (1 + 1 / 10 ^ 8) :=
      mul_le_mul hna hnb n2 (by norm_num)
    have := theta_mul_le 10 (by norm_num) (1 + 4 * (SO3.sqn (SE3.so3 a) * SO3.sqn (SE3.so3 b)))
      (1 + 4 * ((1 + 1 / 10 ^ 8) * (1 + 1 / 10 ^ 8))) (5401 / 100) (by positivity) (by linarith) (by norm_num)
    refine this.trans ?_
    nlinarith [mul_nonneg hub (sub_nonneg.mpr hs1)]
  · intro i
    rw [se3_matrix_trans, se3_matrix_trans, se3_r3_toR]
    refine (se3_composition_trans_round_T a b (1 + 1 / 10 ^ 8) (scale T) hna
      (fun l => (hta l).trans hsT) (fun l => (htb l).trans hsT) i).trans ?_
    have := theta_mul_le 9 (by norm_num) ((1 + 4 * (1 + 1 / 10 ^ 8)) * scale T + scale T)
      (6001 / 1000 * scale T) (5401 / 100 * scale T) (by positivity) (by nlinarith) (by norm_num; nlinarith)
    calc _ ≤ _ := this
      _ = _ := by ring
  · intro j
    rw [se3_matrix_last _ (SE3.composition a b)]
    simp only [sub_self, abs_zero]
    positivity
example : SO3.sqn (SE3.so3 se3A) ≤ 1 + 1 / 10 ^ 8 := by
  rw [show SO3.sqn (SE3.so3 se3A) = 1 from se3A_unit]; norm_num

/-- **C01 accuracy clause, SE3 composition, double**: for unit rotation parts and translation
    coordinates bounded by `T`, `matrix(g₁*g₂)` agrees with `matrix g₁ · matrix g₂` to `1e-12·max(1,T)`
    in every entry -/
theorem se3_matrix_composition_double (h : IsDouble) (a b : Vec ℝ 7) (ha : SE3.Unit a) (hb : SE3.Unit b)
    (T : ℝ) (hta : ∀ l, |SE3.r3 a l| ≤ T) (htb : ∀ l, |SE3.r3 b l| ≤ T) (i j : Fin 4) :
    |(SE3.matrix (Vec.toR (SE3.composition (Vec.toRF a) (Vec.toRF b)))) i j
        - (mmul (SE3.matrix a) (SE3.matrix b)) i j| ≤ 1 / 10 ^ 12 * scale T := by
  rw [← SE3.matrix_composition a b ha hb]
  have e1 : SO3.sqn (SE3.so3 a) = 1 := ha
  have e2 : SO3.sqn (SE3.so3 b) = 1 := hb
  refine (se3_matrix_composition_acc a b T (by rw [e1]; norm_num) (by rw [e2]; norm_num) hta htb i j).trans ?_
  have := ubar_double h
  have := scale_nonneg T
  gcongr
  norm_num at *; linarith

/-- … single: `1e-5·max(1,T)` -/
theorem se3_matrix_composition_single (h : IsSingle) (a b : Vec ℝ 7) (ha : SE3.Unit a) (hb : SE3.Unit b)
    (T : ℝ) (hta : ∀ l, |SE3.r3 a l| ≤ T) (htb : ∀ l, |SE3.r3 b l| ≤ T) (i j : Fin 4) :
    |(SE3.matrix (Vec.toR (SE3.composition (Vec.toRF a) (Vec.toRF b)))) i j
        - (mmul (SE3.matrix a) (SE3.matrix b)) i j| ≤ 1 / 10 ^ 5 * scale T := by
  rw [← SE3.matrix_composition a b ha hb]
  have e1 : SO3.sqn (SE3.so3 a) = 1 := ha
  have e2 : SO3.sqn (SE3.so3 b) = 1 := hb
  refine (se3_matrix_composition_acc a b T (by rw [e1]; norm_num) (by rw [e2]; norm_num) hta htb i j).trans ?_
  have := ubar_single h
  have := scale_nonneg T
  gcongr
  norm_num at *; linarith

/-- SE3 inverse, whole matrix: `≤ 110.01·ū·max(1,T)` -/
theorem se3_matrix_inverse_acc (g : Vec ℝ 7) (T : ℝ) (hlo : 1 - 1 / 10 ^ 8 ≤ SO3.sqn (SE3.so3 g))
    (ht : ∀ l, |SE3.r3 g l| ≤ T) :
    ∀ i j : Fin 4, |(SE3.matrix (Vec.toR (SE3.inverse (Vec.toRF g)))) i j
        - (SE3.matrix (SE3.inverse g)) i j| ≤ 11001 / 100 * ubar * scale T := by
  have hs1 := one_le_scale T
  have hsT := le_scale T
  have hs0 := scale_nonneg T
  have hub := ubar_nonneg
  have hpos : 0 < SO3.sqn (SE3.so3 g) := lt_of_lt_of_le (by norm_num) hlo
  apply fin4_cases
  · intro i j
    rw [se3_matrix_rot, se3_matrix_rot, se3_so3_toR]
    refine (se3_inverse_rot_round g hpos.ne' i j).trans ?_
    have h4 : 4 / SO3.sqn (SE3.so3 g) ≤ 4 / (1 - 1 / 10 ^ 8) := by gcongr
    have := theta_mul_le 14 (by norm_num) (1 + 4 / SO3.sqn (SE3.so3 g)) (1 + 4 / (1 - 1 / 10 ^ 8))
      (11001 / 100) (by positivity) (by linarith) (by norm_num)
    refine this.trans ?_
    nlinarith [mul_nonneg hub (sub_nonneg.mpr hs1)]
  · intro i
    rw [se3_matrix_trans, se3_matrix_trans, se3_r3_toR]
    refine (se3_inverse_trans_round_T g (1 - 1 / 10 ^ 8) (scale T) (by norm_num) hlo
      (fun l => (ht l).trans hsT) i).trans ?_
    have := theta_mul_le 22 (by norm_num) ((1 + 4 / (1 - 1 / 10 ^ 8)) * scale T)
      ((1 + 4 / (1 - 1 / 10 ^ 8)) * scale T) (11001 / 100 * scale T) (by positivity) (le_refl _)
      (by norm_num; nlinarith)
    calc _ ≤ _ := this
      _ = _ := by ring
  · intro j
    rw [se3_matrix_last _ (SE3.inverse g)]
    simp only [sub_self, abs_zero]
    positivity
example : 1 - 1 / 10 ^ 8 ≤ SO3.sqn (SE3.so3 se3B) := by
  rw [show SO3.sqn (SE3.so3 se3B) = 1 from se3B_unit]; norm_num

/-- **C01 accuracy clause, SE3 inverse, double** -/
theorem se3_matrix_inverse_double (h : IsDouble) (g : Vec ℝ 7) (hg : SE3.Unit g) (T : ℝ)
    (ht : ∀ l, |SE3.r3 g l| ≤ T) :
    ∃ Minv : Mat ℝ 4 4, mmul Minv (SE3.matrix g) = ident 4 ∧ mmul (SE3.matrix g) Minv = ident 4 ∧
      ∀ i j, |(SE3.matrix (Vec.toR (SE3.inverse (Vec.toRF g)))) i j - Minv i j| ≤ 1 / 10 ^ 12 * scale T := by
  refine ⟨SE3.matrix (SE3.inverse g), SE3.matrix_inverse_left g hg, SE3.matrix_inverse_right g hg, fun i j => ?_⟩
  have e1 : SO3.sqn (SE3.so3 g) = 1 := hg
  refine (se3_matrix_inverse_acc g T (by rw [e1]; norm_num) ht i j).trans ?_
  have := ubar_double h
  have := scale_nonneg T
  gcongr
  norm_num at *; linarith

theorem se3_matrix_inverse_single (h : IsSingle) (g : Vec ℝ 7) (hg : SE3.Unit g) (T : ℝ)
    (ht : ∀ l, |SE3.r3 g l| ≤ T) :
    ∃ Minv : Mat ℝ 4 4, mmul Minv (SE3.matrix g) = ident 4 ∧ mmul (SE3.matrix g) Minv = ident 4 ∧
      ∀ i j, |(SE3.matrix (Vec.toR (SE3.inverse (Vec.toRF g)))) i j - Minv i j| ≤ 1 / 10 ^ 5 * scale T := by
  refine ⟨SE3.matrix (SE3.inverse g), SE3.matrix_inverse_left g hg, SE3.matrix_inverse_right g hg, fun i j => ?_⟩
  have e1 : SO3.sqn (SE3.so3 g) = 1 := hg
  refine (se3_matrix_inverse_acc g T (by rw [e1]; norm_num) ht i j).trans ?_
  have := ubar_single h
  have := scale_nonneg T
  gcongr
  norm_num at *; linarith

end Main

/-! ## Non-vacuity: the headline theorems instantiated at the genuinely rounding instances
    `Rounding.binary64` / `Rounding.binary32` (RoundModel.lean: round-to-nearest on 53- / 24-digit binary
    significands, `binary64_lossy`, `binary32_lossy`) and at concrete elements with large translations -/

example : @IsDouble Rounding.binary64 := le_refl _
example : @IsSingle Rounding.binary32 := le_refl _
/-- every single-precision statement also holds in double precision -/
example : @IsSingle Rounding.binary64 := by
  show ((1 : ℝ) / 2) ^ 53 ≤ (1 / 2) ^ 24
  norm_num

example (i j : Fin 2) :
    |(@SO2.matrix ℝ _ (Vec.toR (@SO2.composition RF (@instScalarRF Rounding.binary64) (Vec.toRF zA) (Vec.toRF zA)))) i j
        - (mmul (SO2.matrix zA) (SO2.matrix zA)) i j| ≤ 1 / 10 ^ 12 :=
  @so2_matrix_composition_double Rounding.binary64 (le_refl _) zA zA (by rw [zA_nrm]; norm_num)
    (by rw [zA_nrm]; norm_num) i j

/-- half-turn times generic element, in binary64 -/
example (i j : Fin 3) :
    |(@SO3.matrix ℝ _ (Vec.toR (@SO3.composition RF (@instScalarRF Rounding.binary64) (Vec.toRF qB) (Vec.toRF qC)))) i j
        - (mmul (SO3.matrix qB) (SO3.matrix qC)) i j| ≤ 1 / 10 ^ 12 :=
  @so3_matrix_composition_double Rounding.binary64 (le_refl _) qB qC qB_unit qC_unit i j

example (i j : Fin 3) :
    |(@SE2.matrix ℝ _ (Vec.toR (@SE2.composition RF (@instScalarRF Rounding.binary64) (Vec.toRF se2A) (Vec.toRF se2A)))) i j
        - (mmul (SE2.matrix se2A) (SE2.matrix se2A)) i j| ≤ 1 / 10 ^ 12 * scale 1000 :=
  @se2_matrix_composition_double Rounding.binary64 (le_refl _) se2A se2A 1000
    (by rw [nrm2_so2_of_unit _ se2A_unit]; norm_num) (by rw [nrm2_so2_of_unit _ se2A_unit]; norm_num)
    se2A_trans se2A_trans i j

/-- SE3, translations up to 1e3, generic × half-turn element: double … -/
example (i j : Fin 4) :
    |(@SE3.matrix ℝ _ (Vec.toR (@SE3.composition RF (@instScalarRF Rounding.binary64) (Vec.toRF se3A) (Vec.toRF se3B)))) i j
        - (mmul (SE3.matrix se3A) (SE3.matrix se3B)) i j| ≤ 1 / 10 ^ 12 * scale 1000 :=
  @se3_matrix_composition_double Rounding.binary64 (le_refl _) se3A se3B se3A_unit se3B_unit 1000
    se3A_trans se3B_trans i j

/-- … and single -/
example (i j : Fin 4) :
    |(@SE3.matrix ℝ _ (Vec.toR (@SE3.composition RF (@instScalarRF Rounding.binary32) (Vec.toRF se3A) (Vec.toRF se3B)))) i j
        - (mmul (SE3.matrix se3A) (SE3.matrix se3B)) i j| ≤ 1 / 10 ^ 5 * scale 1000 :=
  @se3_matrix_composition_single Rounding.binary32 (le_refl _) se3A se3B se3A_unit se3B_unit 1000
    se3A_trans se3B_trans i j

example : ∃ Minv : Mat ℝ 4 4, mmul Minv (SE3.matrix se3B) = ident 4 ∧ mmul (SE3.matrix se3B) Minv = ident 4 ∧
    ∀ i j, |(@SE3.matrix ℝ _ (Vec.toR (@SE3.inverse RF (@instScalarRF Rounding.binary32) (Vec.toRF se3B)))) i j
      - Minv i j| ≤ 1 / 10 ^ 5 * scale 1000 :=
  @se3_matrix_inverse_single Rounding.binary32 (le_refl _) se3B se3B_unit 1000 se3B_trans

/-- `scale 1000 = 1000`: the absolute error of an SE3 product with translations up to 1e3 is ≤ 1e-9 in double -/
example : scale 1000 = 1000 := by simp [scale]

end C01Round
end
