/-
  C12 — Spline construction, concatenation and cropping preserve the curve (property theorems).

  Object: the state machine `SmoothModel/Spline.lean` (transcription of spline_impl.hpp at the tree with the
  fixes ea1d6c4, b6aa840, 05ac857, f9964cd; tied to the code by the op-sequence correspondence of
  tools/props/c12.py), over ANY linearly ordered field `τ` of times and ANY group `G` of values; the
  segment curve `C.cev` is an arbitrary function with `c_V(0) = 1` (`GroupKer`).

  (`ConstVelKer`, the hypothesis of the constant-velocity law, is defined in SmoothProofs/C12More.lean and is a
  THEOREM for the cumulative Bernstein basis: `constant_velocity_law_bernstein`.)
  Proved: the invariant after every constructor, under concatenation AND crop, for any operation list
  (`reachable_inv_ops`); which segment is evaluated, values outside the range, continuity at knots; the
  two concatenation laws; the crop law in all cases (any segments, knots, localised or not);
  ConstantVelocity for every K; FixedCubic end pose; arclength(t ≤ 0) = 0.
-/
import SmoothProofs.C12Witness
import SmoothProofs.C12Ops
import SmoothProofs.C12More
import SmoothProofs.C12Bernstein
import SmoothProofs.C12Arc

set_option linter.unusedSectionVars false

open SplineSM SplineSM.TimeOps

namespace C12

attribute [local instance] fieldTime

section General
variable {τ : Type} [Field τ] [LinearOrder τ] [IsStrictOrderedRing τ]
variable {G W : Type} [Group G] {C : Ker τ G W}

/-! ## Invariant -/

/-- every constructor establishes the invariant -/
theorem inv_after_constructors (hK : GroupKer C) :
    (∀ ga : G, Inv C (SplineSM.empty ga : Spline τ G W)) ∧
    (∀ (T : τ) (V : List W) (ga : G), 0 < T → Inv C (ctor C T V ga)) ∧
    (∀ (T : τ) (vs : List W) (ga : G), 0 < T → Inv C (ctorVs C T vs ga)) ∧
    (∀ (v : W) (T : τ) (ga : G), Inv C (constantVelocity C v T ga)) ∧
    (∀ (gb : G) (T : τ) (ga : G), Inv C (constantVelocityGoal C gb T ga)) ∧
    (∀ (gb : G) (va vb : W) (T : τ) (ga : G), 0 < T → Inv C (fixedCubic C gb va vb T ga)) :=
  ⟨inv_empty, fun _ V ga hT => inv_ctor hK hT V ga, fun _ V ga hT => inv_ctorVs hK hT V ga,
   inv_constantVelocity hK, inv_constantVelocityGoal hK, fun gb va vb _ ga hT => inv_fixedCubic hK gb va vb hT ga⟩

/-- `+=` / `concat_local` preserves the invariant (appended spline in the local frame: starts at 1) -/
theorem concat_local_inv (hK : GroupKer C) {s o : Spline τ G W} (hs : Inv C s) (ho : Inv C o)
    (h : s.segs = [] ∨ o.g0 = 1) : Inv C (concatLocal C s o) := inv_concatLocal hK hs ho h

/-- `concat_global` preserves the invariant (appended spline starts where the first one ends) -/
theorem concat_global_inv {s o : Spline τ G W} (hs : Inv C s) (ho : Inv C o)
    (h : s.segs = [] ∨ o.g0 = endG s) : Inv C (concatGlobal s o) := inv_concatGlobal hs ho h

/-- any history of constructors and concatenations yields a spline satisfying the invariant -/
theorem reachable_inv (hK : GroupKer C) {s : Spline τ G W} (h : Reachable C s) : Inv C s := reachable_inv' hK h

/-- the same over operation LISTS on a register file (the driver's `spl_script` machine): after any
    list of constructors, `+=`, `concat_global` and crops (any arguments), every register satisfies `Inv` -/
theorem reachable_inv_ops (hK : GroupKer C) (ops : List (Op τ G W)) :
    ∀ s ∈ ops.foldl (step C) [], Inv C s :=
  ops_inv hK ops [] (fun _ h => by cases h)

/-- end times are positive and strictly increasing (read off the invariant) -/
theorem inv_times_increasing (s : Spline τ G W) (hI : Inv C s) (pre post : List (Seg τ G W)) (a b : Seg τ G W)
    (hs : s.segs = pre ++ a :: b :: post) : 0 < a.tEnd ∧ a.tEnd < b.tEnd := by
  have h : InvFrom C s.g0 0 (pre ++ a :: b :: post) := by simpa [Inv, hs] using hI
  rw [InvFrom_append] at h
  exact ⟨lt_of_le_of_lt (InvFrom_le_lastT C _ _ _ h.1) h.2.1, h.2.2.2.1⟩

/-! ## Evaluation -/

/-- the segment containing t is the one evaluated, and the value is `g_start ∘ c(T0)⁻¹ ∘ c(u(t))` with
    `u(t) = T0 + Del (t − t_start)/(t_end − t_start)` (no clamping inside the segment) -/
theorem eval_on_segment (hK : GroupKer C) (s : Spline τ G W) (hI : Inv C s) (pre post : List (Seg τ G W)) (sg : Seg τ G W)
    (hs : s.segs = pre ++ sg :: post) {t : τ} (h1 : lastT 0 pre ≤ t) (h2 : t < sg.tEnd ∨ (post = [] ∧ t ≤ sg.tEnd)) :
    eval C s t = evalSeg C (lastG s.g0 pre) (lastT 0 pre) sg t ∧
    val C s t = lastG s.g0 pre * (C.c sg.V sg.T0)⁻¹ *
      C.c sg.V (sg.T0 + sg.Del * (t - lastT 0 pre) / (sg.tEnd - lastT 0 pre)) := by
  have he := eval_on_segment' s hI pre post sg hs h1 h2
  refine ⟨he, ?_⟩
  have h : InvFrom C s.g0 0 (pre ++ sg :: post) := by simpa [Inv, hs] using hI
  rw [InvFrom_append] at h
  obtain ⟨_, hT, ⟨h0, hD, h11, _⟩, _⟩ := h
  unfold val
  rw [he]
  exact evalSeg_val hK h0 hD h11 hT h1 (by rcases h2 with h2 | ⟨_, h2⟩; exact le_of_lt h2; exact h2)

/-- outside `[0, t_max]`: `start()` / `end()` with zero velocity and acceleration -/
theorem eval_outside (s : Spline τ G W) {t : τ} :
    (t < 0 → eval C s t = (start s, C.wzero, C.wzero)) ∧
    (0 ≤ t → tMax s < t → eval C s t = (endG s, C.wzero, C.wzero)) :=
  ⟨fun h => eval_before s h, fun h0 h => eval_after s h0 h⟩

/-- continuity at an interior knot: the value computed on the segment ending there (left limit)
    equals the value returned at the knot (computed on the next segment) -/
theorem eval_continuous_at_knots (hK : GroupKer C) (s : Spline τ G W) (hI : Inv C s) (pre post : List (Seg τ G W))
    (a b : Seg τ G W) (hs : s.segs = pre ++ a :: b :: post) :
    (evalSeg C (lastG s.g0 pre) (lastT 0 pre) a a.tEnd).1 = val C s a.tEnd := by
  have h : InvFrom C s.g0 0 (pre ++ a :: b :: post) := by simpa [Inv, hs] using hI
  rw [InvFrom_append] at h
  obtain ⟨_, hTa, hoka, hTb, hokb, _⟩ := h
  rw [evalSeg_at_end hK hTa hoka]
  have hs' : s.segs = (pre ++ [a]) ++ b :: post := by simp [hs]
  have he := eval_on_segment' s hI (pre ++ [a]) post b hs' (t := a.tEnd)
    (by simp [lastT_append, lastT]) (Or.inl hTb)
  unfold val
  rw [he]
  simp only [lastT_append, lastG_append, lastT, lastG]
  exact (evalSeg_at_start hK hTb hokb).symm

/-- the value at `t_max` is `end()` -/
theorem eval_at_t_max (hK : GroupKer C) (s : Spline τ G W) (hI : Inv C s) (hne : s.segs ≠ []) :
    val C s (tMax s) = endG s := by
  obtain ⟨pre, sg, hs⟩ : ∃ pre sg, s.segs = pre ++ [sg] := by
    rcases List.eq_nil_or_concat s.segs with h | ⟨l, a, h⟩
    · exact absurd h hne
    · exact ⟨l, a, by simpa using h⟩
  have h : InvFrom C s.g0 0 (pre ++ [sg]) := by simpa [Inv, hs] using hI
  rw [InvFrom_append] at h
  obtain ⟨hpre, hT, hok, _⟩ := h
  have htm : tMax s = sg.tEnd := by rw [tMax_eq, hs, lastT_append]; rfl
  have hen : endG s = sg.gEnd := by rw [endG_eq, hs, lastG_append]; rfl
  have he := eval_on_segment' s hI pre [] sg hs (t := sg.tEnd) (le_of_lt hT) (Or.inr ⟨rfl, le_refl _⟩)
  unfold val
  rw [htm, hen, he]
  exact evalSeg_at_end hK hT hok

/-! ## Concatenation laws -/

/-- `y = x₁ += x₂`:  `y(t) = x₁(t)` on `[0, t₁)` and `y(t) = x₁(t₁) ∘ x₂(t − t₁)` from `t₁` on, with the
    velocity and acceleration of `x₂`; `t_max` adds. -/
theorem concat_local_law (hK : GroupKer C) (s o : Spline τ G W) (hs : Inv C s) (ho : Inv C o) {t : τ} :
    tMax (concatLocal C s o) = tMax s + tMax o ∧
    (0 ≤ t → t < tMax s → eval C (concatLocal C s o) t = eval C s t) ∧
    (s.segs ≠ [] → o.segs ≠ [] → tMax s ≤ t →
      eval C (concatLocal C s o) t =
        (endG s * val C o (t - tMax s), (eval C o (t - tMax s)).2.1, (eval C o (t - tMax s)).2.2)) :=
  ⟨tMax_concatLocal hK s o, fun h0 ht => concat_local_first hK s o ho h0 ht,
   fun hsne hone ht => concat_local_second hK s o hs ho hsne hone ht⟩

/-- `y = x₁.concat_global(x₂)`: `y(t) = x₁(t)` on `[0, t₁)`, `y(t) = x₂(t − t₁)` from `t₁` on. -/
theorem concat_global_law (hK : GroupKer C) (s o : Spline τ G W) (hs : Inv C s) (ho : Inv C o) {t : τ} :
    tMax (concatGlobal s o) = tMax s + tMax o ∧
    (0 ≤ t → t < tMax s → eval C (concatGlobal s o) t = eval C s t) ∧
    (s.segs ≠ [] → o.segs ≠ [] → tMax s ≤ t → eval C (concatGlobal s o) t = eval C o (t - tMax s)) :=
  ⟨tMax_concatGlobal hK s o, fun h0 ht => concat_global_first hK s o ho h0 ht,
   fun hsne hone ht => concat_global_second hK s o hs ho hsne hone ht⟩

/-! ## ConstantVelocity, FixedCubic -/

/-- `ConstantVelocity(v,T,ga)(t) = ga ∘ exp(t v)` on `[0,T]`, for every degree K ≥ 1 -/
theorem constant_velocity_law (hK : GroupKer C) (expo : τ → W → G) (hKpos : 0 < C.K) (hcv : ConstVelKer C expo)
    (v : W) {T : τ} (hT : 0 < T) (ga : G) {t : τ} (ht0 : 0 ≤ t) (ht : t ≤ T) :
    val C (constantVelocity C v T ga) t = ga * expo t v :=
  constant_velocity_general hK expo hKpos hcv v hT ga ht0 ht

/-- `ConstantVelocityGoal(gb,T,ga)` is `ConstantVelocity((gb − ga)/T, T, ga)`; it ends at
    `ga ∘ exp(T·(gb−ga)/T)`, which is `gb` when `exp(T·(w/T)) = exp(w)` and `exp ∘ log = id` -/
theorem constant_velocity_goal_law (hK : GroupKer C) (expo : τ → W → G) (hKpos : 0 < C.K) (hcv : ConstVelKer C expo)
    (gb : G) {T : τ} (hT : 0 < T) (ga : G)
    (hlog : expo T (C.wdivs (C.log (C.mul (C.inv ga) gb)) T) = ga⁻¹ * gb) :
    val C (constantVelocityGoal C gb T ga) T = gb := by
  unfold constantVelocityGoal
  rw [constant_velocity_general hK expo hKpos hcv _ hT ga (le_of_lt hT) (le_refl _), hlog]
  group

/-- the hypothesis `ConstVelKer` follows from the product formula of the cumulative spline, additivity of
    `exp` along a line and the basis identity `Σⱼ B̃ⱼ(u) = K·u` (`C20.sum_cumulative` for the Bernstein basis) -/
theorem const_vel_ker_of_basis_sum (expo : τ → W → G) (B : Nat → τ → τ)
    (hzero : ∀ v, expo 0 v = 1) (hadd : ∀ a b v, expo (a + b) v = expo a v * expo b v)
    (hsum : ∀ u, ((List.range C.K).map fun j => B j u).sum = (C.K : τ) * u)
    (hprod : ∀ (s : τ) (v : W) (u : τ), C.c (List.replicate C.K (C.wsmul s v)) u =
      ((List.range C.K).map fun j => expo (B j u * s) v).prod) : ConstVelKer C expo :=
  constVel_of_product expo B hzero hadd hsum hprod

/-- FixedCubic reaches `gb`: with the product formula at u = 1 (`B̃ⱼ(1) = 1`) and `exp ∘ log = id` -/
theorem fixed_cubic_end_pose (hK : GroupKer C)
    (hexp : ∀ g : G, C.exp (C.log g) = g) (hneg : ∀ w : W, C.exp (C.wneg w) = (C.exp w)⁻¹)
    (hc1 : ∀ a b c : W, C.c [a, b, c] 1 = C.exp a * C.exp b * C.exp c)
    (gb : G) (va vb : W) (T : τ) (ga : G) :
    endG (fixedCubic C gb va vb T ga) = gb ∧ start (fixedCubic C gb va vb T ga) = ga := by
  refine ⟨?_, rfl⟩
  simp only [fixedCubic, ctor, endG, List.getLast?_singleton, tone, hK.mul_eq, hK.inv_eq, hc1, hexp, hneg]
  group

/-- FixedCubic has body velocity `va` at `t = 0` and `vb` at `t = T`, given `c_V'(0) = 3·V₀`, `c_V'(1) = 3·V₂`
    (cubic cumulative Bernstein basis: `B̃₁'(0) = B̃₃'(1) = 3`, the other `B̃ⱼ'` vanish there; the adjoint terms of
    C11's velocity recursion drop out because `exp(B̃ⱼ vⱼ) = 1` at those points) -/
theorem fixed_cubic_end_velocities [AddCommGroup W] [Module τ W] (hsm : ∀ (s : τ) (v : W), C.wsmul s v = s • v)
    (hdv : ∀ (v : W) (s : τ), C.wdivs v s = s⁻¹ • v)
    (hc0 : ∀ a b c : W, (C.cev [a, b, c] 0).2.1 = (3 : τ) • a) (hc1 : ∀ a b c : W, (C.cev [a, b, c] 1).2.1 = (3 : τ) • c)
    (gb : G) (va vb : W) {T : τ} (hT : 0 < T) (ga : G) :
    (eval C (fixedCubic C gb va vb T ga) 0).2.1 = va ∧ (eval C (fixedCubic C gb va vb T ga) T).2.1 = vb :=
  fixedCubic_velocities hsm hdv hc0 hc1 gb va vb hT ga

/-! ## make_local -/

/-- what `make_local()` guarantees (it only resets `m_g0`): start at the identity, same `t_max` and `end()`;
    on the FIRST segment `y(t) = x.start()⁻¹ ∘ x(t)` with the velocity and acceleration of `x`; from the first
    knot on `y(t) = x(t)` unchanged.  Hence `y = x` (and the invariant is kept) iff `x` started at the identity;
    otherwise the curve jumps by `x.start()` at the first knot (at `t_max` for a single segment: `end()` is kept). -/
theorem make_local_law (hK : GroupKer C) (x : Spline τ G W) (sg : Seg τ G W) (post : List (Seg τ G W))
    (hx : x.segs = sg :: post) (hI : Inv C x) :
    start (makeLocal C x) = 1 ∧ tMax (makeLocal C x) = tMax x ∧ endG (makeLocal C x) = endG x ∧
    (∀ t, 0 ≤ t → (t < sg.tEnd ∨ (post = [] ∧ t ≤ sg.tEnd)) →
      eval C (makeLocal C x) t = (x.g0⁻¹ * val C x t, (eval C x t).2.1, (eval C x t).2.2)) ∧
    (∀ t, sg.tEnd ≤ t → post ≠ [] → eval C (makeLocal C x) t = eval C x t) ∧
    (x.g0 = 1 → makeLocal C x = x ∧ Inv C (makeLocal C x)) := by
  obtain ⟨h1, h2, h3, h4, h5⟩ := makeLocal_spec hK x sg post hx hI
  refine ⟨h1, h2, h3, h4, h5, fun hg => ?_⟩
  have := makeLocal_of_identity hK x hg
  exact ⟨this, by rw [this]; exact hI⟩

/-! ## arclength -/

/-- within the first segment `arclength(t)` is the single term `absint V ua (ua + Del·t/T)` (the code's
    `integrate_absolute_polynomial` of the derivative coefficients, property C20); that this term is
    `∫|velocity|` for commutative groups is audited against exact antiderivatives, not proved here. -/
theorem arclength_first_segment (s : Spline τ G W) (sg : Seg τ G W) (post : List (Seg τ G W)) (hs : s.segs = sg :: post)
    {t : τ} (h0 : 0 ≤ t) (ht : t ≤ sg.tEnd) :
    arclength C s t = C.wadd C.wzero (C.absint sg.V sg.T0 (sg.T0 + sg.Del * (t - 0) / (sg.tEnd - 0))) := by
  unfold arclength
  rw [hs, tmax_zero h0]
  have hmin : tmin t sg.tEnd = t := tmin_left ht
  cases post with
  | nil => simp [arcFrom, hmin]
  | cons b r => simp [arcFrom, hmin, ht]

/-- `arclength(t) = 0` for `t ≤ 0` (fix f9964cd: `t = max(t, 0)`), given that the code's per-segment
    integral over an empty parameter interval is 0 (true for `integrate_absolute_polynomial(a, a, …)`) -/
theorem arclength_nonpos (s : Spline τ G W) (hI : Inv C s) (habs : ∀ V (a : τ), C.absint V a a = C.wzero)
    (hw : C.wadd C.wzero C.wzero = C.wzero) {t : τ} (ht : t ≤ 0) : arclength C s t = C.wzero :=
  arclength_nonpos' s hI habs hw ht

/-! ## Crop -/

/-- **crop law** for `0 ≤ ta < tb ≤ t_max`, every segment configuration (ta, tb in any segments or on
    knots), `h = x(ta)⁻¹` when localised and `h = 1` otherwise:
    the result satisfies the invariant, lasts `tb − ta`, starts at `h·x(ta)` (the identity when localised,
    `x(ta)` otherwise), ends at `h·x(tb)`; `y(t) = h·x(ta+t)` on the CLOSED interval `[0, tb−ta]`, and the
    velocity and acceleration are those of `x` at `ta+t` on `[0, tb−ta)` (at `t = tb−ta` the velocity of `y`
    is the left-sided one, while `x` at an interior knot `tb` reports the right-sided one). -/
theorem crop_law (hK : GroupKer C) (x : Spline τ G W) (hI : Inv C x) {ta tb : τ} (loc : Bool)
    (h0 : 0 ≤ ta) (hab : ta < tb) (hb : tb ≤ tMax x) :
    Inv C (crop C x ta tb loc) ∧ tMax (crop C x ta tb loc) = tb - ta ∧
    start (crop C x ta tb loc) = (if loc then 1 else val C x ta) ∧
    endG (crop C x ta tb loc) = cropH C x ta loc * val C x tb ∧
    (∀ t, 0 ≤ t → t ≤ tb - ta → val C (crop C x ta tb loc) t = cropH C x ta loc * val C x (ta + t)) ∧
    (∀ t, 0 ≤ t → t < tb - ta →
      (eval C (crop C x ta tb loc) t).2 = (eval C x (ta + t)).2) := by
  obtain ⟨i1, i2, i3, i4, _, i6⟩ := crop_spec hK x hI loc h0 hab hb
  refine ⟨i1, i2, ?_, i4, fun t ht0 ht => crop_val hK x hI loc h0 hab hb ht0 ht, fun t ht0 ht => ?_⟩
  · rw [i3]; cases loc <;> simp [cropH]
  · rw [i6 t ht0 ht]; rfl

/-- crop never leaves the invariant, whatever its arguments (clamping, empty results included) -/
theorem crop_inv_all (hK : GroupKer C) (x : Spline τ G W) (hI : Inv C x) (ta tb : τ) (loc : Bool) :
    Inv C (crop C x ta tb loc) := crop_inv hK x hI ta tb loc

/-- degenerate intervals give the empty spline at the identity (`return Spline()`) -/
theorem crop_empty (x : Spline τ G W) (ta tb : τ) (loc : Bool) (h : tmin tb (tMax x) ≤ tmax ta (TimeOps.zero : τ)) :
    crop C x ta tb loc = SplineSM.empty C.one := by
  unfold crop; simp only [if_pos h]

end General

/-! ## Times in ℝ: Bernstein kernel, arclength as an integral -/

section RealTime
variable {G W : Type} [Group G]

/-- `ConstantVelocity(v,T,ga)(t) = ga ∘ exp(t v)` for every degree K ≥ 1 WITHOUT the hypothesis `ConstVelKer`:
    for a segment curve that is the ordered product `Πⱼ exp(B̃ⱼ(u) vⱼ)` (C11.value_is_product) with the code's
    cumulative Bernstein basis `B̃ⱼ` (`Poly.cumulativeBasis .Bernstein K`), `ConstVelKer` follows from
    `C20.sum_cumulative` (`Σⱼ B̃ⱼ(u) = K u`). -/
theorem constant_velocity_law_bernstein (C : Ker ℝ G W) (hK : GroupKer C) (hKpos : 0 < C.K) (expo : ℝ → W → G)
    (hzero : ∀ v, expo 0 v = 1) (hadd : ∀ a b v, expo (a + b) v = expo a v * expo b v)
    (hprod : ∀ (s : ℝ) (v : W) (u : ℝ), C.c (List.replicate C.K (C.wsmul s v)) u =
      ((List.range C.K).map fun j => expo (bernCum C.K j u * s) v).prod)
    (v : W) {T : ℝ} (hT : 0 < T) (ga : G) {t : ℝ} (ht0 : 0 ≤ t) (ht : t ≤ T) :
    val C (constantVelocity C v T ga) t = ga * expo t v :=
  constant_velocity_general hK expo hKpos (constVelKer_bernstein C expo hzero hadd hprod) v hT ga ht0 ht

/-- **arclength is the integral of the component-wise absolute body velocity** (vector-valued tangents
    `W = ι → ℝ`, i.e. vector spaces and other commutative groups): for every spline satisfying the invariant and
    every t, `arclength(t)` = Σ over the segments that start before `max(t,0)` of
    `∫_{t_start}^{min(t, t_end)} |(Del/T)·c_V'(T0 + Del (s − t_start)/T)| ds` — the integrand is the body velocity
    the spline reports on that segment.  Hypothesis `habs`: the per-segment integrator returns `∫_{ua}^{ub}|c_V'|`
    (`arclength_integrator_of_C20`). -/
theorem arclength_is_integral {ι : Type} (C : Ker ℝ G (ι → ℝ)) (σ : List (ι → ℝ) → ℝ → ι → ℝ)
    (hadd : ∀ a b, C.wadd a b = a + b) (hzero : C.wzero = 0)
    (habs : ∀ V (a b : ℝ) k, a ≤ b → C.absint V a b k = ∫ u in a..b, |σ V u k|)
    (s : Spline ℝ G (ι → ℝ)) (hI : Inv C s) (t : ℝ) :
    arclength C s t = arcSpec σ (max t 0) true 0 s.segs := by
  have hmax : tmax t (TimeOps.zero : ℝ) = max t 0 := by
    unfold tmax
    simp only [tzero]
    by_cases h : t < 0
    · rw [if_pos h, max_eq_right (le_of_lt h)]
    · rw [if_neg h, max_eq_left (not_lt.1 h)]
  unfold arclength
  rw [hmax]
  simp only [tzero]
  rw [arcFrom_eq C σ hadd habs (max t 0) s.segs s.g0 0 true C.wzero hI (fun _ => le_max_right _ _), hzero, zero_add]

/-- `habs` holds for the code's integrator `integrate_absolute_polynomial` (model `Poly.integrateAbs`, property
    C20) when `c_V'` is the quadratic it is given and its coefficients are outside the 1e-9 threshold bands -/
theorem arclength_integrator_of_C20 {ι : Type} (C : Ker ℝ G (ι → ℝ)) (σ : List (ι → ℝ) → ℝ → ι → ℝ) (thr : ℝ) (hthr : 0 < thr)
    (qA qB qC : List (ι → ℝ) → ι → ℝ)
    (hint : ∀ V (a b : ℝ) k, C.absint V a b k = Poly.integrateAbs thr a b (qA V k) (qB V k) (qC V k))
    (hσ : ∀ V u k, σ V u k = qA V k * u ^ 2 + qB V k * u + qC V k)
    (hband : ∀ V k, thr ≤ |qA V k| ∨ (qA V k = 0 ∧ (thr < |qB V k| ∨ qB V k = 0))) :
    ∀ V (a b : ℝ) k, a ≤ b → C.absint V a b k = ∫ u in a..b, |σ V u k| :=
  absint_of_C20 C σ thr hthr qA qB qC hint hσ hband

end RealTime

/-! ## The former defects, now theorems about concrete instances (G = (ℚ,+), regression of the fixes) -/

/-- x = [t on [0,1]; 1+2(t−1) on [1,2]]; crop(5/4, 7/4) from the SECOND segment: y(1/4) = x(3/2) − x(5/4) = 1/2
    (the unfixed code returned −3/4) -/
theorem crop_later_segment_instance :
    Multiplicative.toAdd (val (kerQ 1) (crop (kerQ 1) X (5/4) (7/4) true) (1/4)) = 1/2 := by decide +kernel

/-- non-localised crop over two segments: crop(1/2, 3/2, false): y(3/4) = x(5/4) = 3/2, end() = x(3/2) = 2
    (the unfixed code returned 1 and 3/2) -/
theorem crop_nonlocal_instance :
    Multiplicative.toAdd (val (kerQ 1) (crop (kerQ 1) X (1/2) (3/2) false) (3/4)) = 3/2 ∧
    Multiplicative.toAdd (endG (crop (kerQ 1) X (1/2) (3/2) false)) = 2 := by
  constructor <;> decide +kernel

/-- `ta` on a knot: crop(1, 3/2): y(1/4) = 1/2 and no division by zero: the re-parameterisation of the
    first segment divides by `m_end_t[1] − m_end_t[0] = 1` (the unfixed code computed 0/0) -/
theorem crop_on_knot_instance :
    Multiplicative.toAdd (val (kerQ 1) (crop (kerQ 1) X 1 (3/2) true) (1/4)) = 1/2 ∧
    findIdx X 1 = 1 ∧ endT X 1 - endT X 0 = 1 := by
  refine ⟨?_, ?_, ?_⟩ <;> decide +kernel

/-- K = 2, v = 1, T = 3: ConstantVelocity ends at T·v = 3 (the unfixed code: (K/3)·T·v = 2) -/
theorem constant_velocity_K2_instance :
    Multiplicative.toAdd (endG (constantVelocity (kerQ 2) (1 : ℚ) 3 1)) = 3 ∧
    Multiplicative.toAdd (val (kerQ 2) (constantVelocity (kerQ 2) 1 3 1) (3/2)) = 3/2 := by
  constructor <;> decide +kernel

/-! ## Non-vacuity: the hypotheses are satisfiable by concrete, non-trivial objects -/

example : GroupKer (kerQ 5) ∧ ConstVelKer (kerQ 5) expoQ ∧ 0 < (kerQ 5).K := ⟨kerQ_group 5, kerQ_hcv 5, by decide⟩
example : Inv (kerQ 1) X ∧ X.segs.length = 2 ∧ tMax X = 2 := ⟨X_inv, by decide +kernel, by decide +kernel⟩
example : Reachable (kerQ 1) X :=
  Reachable.concatLocal (Reachable.ctor 1 one_pos [1] 1) (Reachable.ctor 1 one_pos [2] 1) (Or.inr rfl)
/-- the operation-list machine reaches the two-segment spline X in three steps -/
example : X ∈ [Op.ctorV 1 [1] 1, Op.ctorV 1 [2] 1, Op.concatLocal 0 1].foldl (step (kerQ 1)) [] := by
  have h : (ctor (kerQ 1) (1 : ℚ) [1] 1).segs = [] ∨ (ctor (kerQ 1) (1 : ℚ) [2] 1).g0 = 1 := Or.inr rfl
  simp [step, X, h]
/-- the hypotheses of `crop_law` hold for a crop that starts in the second segment and ends at t_max -/
example : Inv (kerQ 1) X ∧ (0 : ℚ) ≤ 5/4 ∧ (5/4 : ℚ) < 2 ∧ (2 : ℚ) ≤ tMax X := ⟨X_inv, by norm_num, by norm_num, by decide +kernel⟩
/-- hypotheses of `arclength_nonpos` hold for the ℚ kernel -/
example : (∀ V (a : ℚ), (kerQ 3).absint V a a = (kerQ 3).wzero) ∧ (kerQ 3).wadd (kerQ 3).wzero (kerQ 3).wzero = (kerQ 3).wzero :=
  ⟨fun _ _ => rfl, by decide +kernel⟩
/-- concat law instance: X(3/2) = x₁(1) ∘ x₂(1/2) = 1 + 1 = 2 -/
example : Multiplicative.toAdd (val (kerQ 1) X (3/2)) = 2 := by decide +kernel
/-- hypotheses of `fixed_cubic_end_pose` hold in (ℚ,+) with c[a,b,c](1) = a+b+c -/
example : (∀ g, (kerQ 3).exp ((kerQ 3).log g) = g) ∧ (∀ w, (kerQ 3).exp ((kerQ 3).wneg w) = ((kerQ 3).exp w)⁻¹) ∧
    (∀ a b c : ℚ, (kerQ 3).c [a, b, c] 1 = (kerQ 3).exp a * (kerQ 3).exp b * (kerQ 3).exp c) := by
  refine ⟨fun g => rfl, fun w => rfl, fun a b c => ?_⟩
  simp [Ker.c, kerQ, ofAdd_add, mul_assoc]

/-- hypotheses of `constant_velocity_law_bernstein`: the kernel `kerBern K` over (ℝ,+) is an ordered product
    with the cumulative Bernstein basis -/
example : GroupKer (kerBern 4) ∧ (∀ v : ℝ, Multiplicative.ofAdd ((0 : ℝ) * v) = 1) ∧
    (∀ s v u : ℝ, (kerBern 4).c (List.replicate (kerBern 4).K ((kerBern 4).wsmul s v)) u =
      ((List.range (kerBern 4).K).map fun j => Multiplicative.ofAdd (bernCum (kerBern 4).K j u * s * v)).prod) :=
  ⟨⟨rfl, fun _ _ => rfl, fun _ => rfl, fun V => by simp [Ker.c, kerBern, bernCum, C20B.cumulative_bernstein_at_zero, List.prod_eq_one]⟩,
   fun v => by simp, kerBern_prod 4⟩
/-- hypotheses of `arclength_is_integral` hold for the constant-speed kernel `kerArc` -/
example : (∀ a b, kerArc.wadd a b = a + b) ∧ kerArc.wzero = 0 ∧
    (∀ V (a b : ℝ) k, a ≤ b → kerArc.absint V a b k =
      ∫ u in a..b, |(fun (V : List (Fin 1 → ℝ)) (_ : ℝ) (_ : Fin 1) => (V.map (· 0)).sum) V u k|) :=
  ⟨fun _ _ => rfl, rfl, fun V a b k h => kerArc_abs V a b k h⟩
/-- hypotheses of `fixed_cubic_end_velocities` in (ℚ,+): a kernel whose velocity output is `3·V₀` at 0, `3·V₂` at 1 -/
example : ∃ C : Ker ℚ (Multiplicative ℚ) ℚ, (∀ s v, C.wsmul s v = s • v) ∧ (∀ v s, C.wdivs v s = s⁻¹ • v) ∧
    (∀ a b c : ℚ, (C.cev [a, b, c] 0).2.1 = (3 : ℚ) • a) ∧ (∀ a b c : ℚ, (C.cev [a, b, c] 1).2.1 = (3 : ℚ) • c) :=
  ⟨{ kerQ 3 with wdivs := fun v s => s⁻¹ * v,
                 cev := fun V u => (Multiplicative.ofAdd (u * V.sum), (1 - u) * (3 * V.getD 0 0) + u * (3 * V.getD 2 0), 0) },
   fun _ _ => rfl, fun _ _ => rfl, fun a b c => by simp, fun a b c => by simp⟩
/-- `make_local_law` applies to X (two segments, starts at the identity) -/
example : X.segs ≠ [] ∧ X.g0 = 1 := ⟨by decide +kernel, rfl⟩

end C12
