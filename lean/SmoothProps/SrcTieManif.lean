/-
  SrcTieManif — the Manifold adaptors of pettni/smooth, regenerated from the C++ source on every run
  (`SmoothModel/Gen/ManifSrc.lean`, written by tools/gen_bundle.py from concepts/lie_group.hpp `traits::man<LieGroup>`,
  manifolds/vector.hpp, manifolds/submanifold.hpp; the forwarding free functions of concepts/manifold.hpp are pinned), ARE
  the hand-written models of SmoothModel/Manifold.lean the theorems of C07 are about: `Manif.ofLie`, `Manif.vector`
  (`vectorDof / vectorDefault / vectorCast / vectorRplus / vectorRminus`), `Manif.sub` (`SubMan.ctor / subDof / subRplus /
  subRminus / subCast`).

  The generated definitions are the C++ statement sequences (`List.foldl` / `List.foldlM` over the range with the tuple of
  assigned variables as state, `Except` for calls that can throw); the models are list recursions.  The ties are inductions
  over the traversed list / index range, no arithmetic on scalars, any `[Scalar α]`.

  Theorem prefixes `manlie_`, `vec_`, `sub_`.
-/
import SmoothModel.Manifold
import SmoothModel.Gen.ManifSrc

open Scalar Lin ManifSem
set_option linter.unusedSectionVars false
set_option linter.unusedVariables false
set_option linter.unusedSimpArgs false

namespace SrcTieManif
variable {α : Type} [Scalar α] {M : Type}

/-! ### the meaning table's list helpers are the model's -/
theorem segment_eq (a : List α) (o l : Nat) : ManifSem.segment a o l = Manif.segment a o l := rfl
theorem writeSeg_eq (b : List α) (o l : Nat) (d : List α) : ManifSem.writeSeg b o l d = Manif.writeSeg b o l d := rfl

theorem insertNat_eq (x : Nat) (l : List Nat) : ManifSem.insertNat x l = Manif.insertSorted x l := by
  induction l with
  | nil => rfl
  | cons y ys ih => simp [ManifSem.insertNat, Manif.insertSorted, ih]

theorem sortNat_eq (l : List Nat) : ManifSem.sortNat l = Manif.isort l := by
  induction l with
  | nil => rfl
  | cons x xs ih => simp [ManifSem.sortNat, Manif.isort, ih, insertNat_eq]

/-! ## 1. `traits::man<G>` for a LieGroup (concepts/lie_group.hpp) -/
section manlie
variable (L : LieModel α)

/-- `rplus(g, a) = composition(g, exp(a))`, `rminus(g1, g2) = log(composition(inverse(g2), g1))`: the `LieModel` operations -/
theorem manlie_rplus (g : Vec α L.rep) (a : Vec α L.dof) : ManifSrc.ManLie_rplus L g a = L.rplus g a := rfl
theorem manlie_rminus (g1 g2 : Vec α L.rep) : ManifSrc.ManLie_rminus L g1 g2 = L.rminus g1 g2 := rfl

/-- … and the fields of the Manifold model `Manif.ofLie L` -/
theorem manlie_ofLie :
    (Manif.ofLie L).sdof = some (ManifSrc.ManLie_Dof L)
    ∧ (∀ g, (Manif.ofLie L).dof g = ManifSrc.ManLie_dof L g)
    ∧ (∀ g a, (Manif.ofLie L).rplus g a = ManifSrc.ManLie_rplus L g (tanOfList a))
    ∧ (∀ g1 g2, (Manif.ofLie L).rminus g1 g2 = .ok (listOfTan (ManifSrc.ManLie_rminus L g1 g2)))
    ∧ (∀ g, (Manif.ofLie L).cast g = .ok (ManifSrc.ManLie_cast L g))
    ∧ (∀ n, (Manif.ofLie L).default n = .ok (ManifSrc.ManLie_Default L n)) :=
  ⟨rfl, fun _ => rfl, fun _ _ => rfl, fun _ _ => rfl, fun _ => rfl, fun _ => rfl⟩

theorem manlie_manifest : ManifSrc.ManLie_manifest = ["Dof", "Default", "dof", "cast", "rplus", "rminus"] := rfl
end manlie

/-! ## 2. `std::vector<M>` (manifolds/vector.hpp) -/
section vector
variable (A : Manif.Man α M)

theorem staticDof_some (d : Nat) (h : A.sdof = some d) : staticDof A = (d : Int) := by simp [staticDof, h]
theorem staticDof_none (h : A.sdof = none) : staticDof A = -1 := by simp [staticDof, h]

theorem vec_Dof : (ManifSrc.Vec_Dof : Option Nat) = (Manif.vector A).sdof := rfl

/-- `dof`: `size · Dof` for a static element size, the accumulated run-time sizes otherwise.  (`Dof = 0` does not occur:
    a static `Dof` is positive, −1 means dynamic; the model's `some 0` case is excluded.) -/
theorem vec_dof (h0 : A.sdof ≠ some 0) (m : List M) : ManifSrc.Vec_dof A m = Manif.vectorDof A m := by
  unfold ManifSrc.Vec_dof Manif.vectorDof
  cases h : A.sdof with
  | none => simp [staticDof_none A h]
  | some d =>
    have hd : 0 < d := Nat.pos_of_ne_zero (fun e => h0 (by rw [h, e]))
    have hpos : (staticDof A) > (0 : Int) := by rw [staticDof_some A d h]; exact_mod_cast hd
    rw [if_pos hpos, staticDof_some A d h]
    simp only
    rw [← Int.natCast_mul, Int.toNat_natCast]

theorem vec_Default (dof : Nat) : ManifSrc.Vec_Default A dof = Manif.vectorDefault A dof := by
  unfold ManifSrc.Vec_Default Manif.vectorDefault
  cases h : A.sdof with
  | none => simp [staticDof_none A h]
  | some d =>
    have hne : ¬ ((d : Int) = -1) := by omega
    simp [staticDof_some A d h, hne]

theorem vec_cast (m : List M) : ManifSrc.Vec_cast A m = Manif.vectorCast A m := by
  unfold ManifSrc.Vec_cast
  induction m with
  | nil => rfl
  | cons x xs ih =>
    rw [List.mapM_cons, ih]
    rfl

theorem rplus_loop (a : List α) (m : List M) (acc : List M) (c : Nat) :
    (List.foldl (fun (_st : List M × Nat) mi =>
      let (m_plus_a, dof_cntr) := _st
      let dof_i := A.dof mi
      let m_plus_a := m_plus_a ++ [A.rplus mi (segment a dof_cntr dof_i)]
      let dof_cntr := dof_cntr + dof_i
      (m_plus_a, dof_cntr)) (acc, c) m).1 = acc ++ Manif.vectorRplusLoop A m c a := by
  induction m generalizing acc c with
  | nil => simp [Manif.vectorRplusLoop]
  | cons x xs ih =>
    simp only [List.foldl_cons]
    rw [ih]
    simp [Manif.vectorRplusLoop, segment_eq]

/-- **`rplus`**: element `i` gets the segment of `a` that starts at the sum of the sizes of the elements before it -/
theorem vec_rplus (m : List M) (a : List α) : ManifSrc.Vec_rplus A m a = Manif.vectorRplus A m a := by
  unfold ManifSrc.Vec_rplus Manif.vectorRplus
  have := rplus_loop A a m [] 0
  simpa using this

theorem rminus_size (h0 : A.sdof ≠ some 0) (m1 : List M) :
    (if staticDof A > (0 : Int) then (staticDof A * ((m1.length : Nat) : Int)).toNat
      else List.foldl (fun (dof_cnts : Nat) m1_i => dof_cnts + A.dof m1_i) 0 m1) = Manif.vectorRminusSize A m1 := by
  unfold Manif.vectorRminusSize
  cases h : A.sdof with
  | none => simp [staticDof_none A h]
  | some d =>
    have hd : 0 < d := Nat.pos_of_ne_zero (fun e => h0 (by rw [h, e]))
    have hpos : (staticDof A) > (0 : Int) := by rw [staticDof_some A d h]; exact_mod_cast hd
    rw [if_pos hpos, staticDof_some A d h]
    simp only
    rw [← Int.natCast_mul, Int.toNat_natCast]

theorem rminus_loop (m1 m2 : List M) (ret : List α) (idx : Nat) :
    (do
      let (ret, idx) ← List.foldlM (fun (_st : List α × Nat) (x : M × M) => do
        let (ret, idx) := _st
        let size_i := A.dof x.1
        let _t1 ← A.rminus x.1 x.2
        let ret := writeSeg ret idx size_i _t1
        let idx := idx + size_i
        pure (ret, idx)) (ret, idx) (List.zip m1 m2)
      pure ret : Except String (List α)) = Manif.vectorRminusLoop A m1 m2 idx ret := by
  induction m1 generalizing m2 ret idx with
  | nil => simp [Manif.vectorRminusLoop]
  | cons x xs ih =>
    cases m2 with
    | nil => simp [Manif.vectorRminusLoop]
    | cons y ys =>
      simp only [List.zip_cons_cons, List.foldlM_cons, Manif.vectorRminusLoop, bind_assoc]
      cases hr : A.rminus x y with
      | error e => rfl
      | ok d =>
        have := ih ys (writeSeg ret idx (A.dof x) d) (idx + A.dof x)
        simpa [writeSeg_eq, bind, Except.bind, pure, Except.pure] using this

/-- **`rminus`**: the return vector is allocated uninitialised with the size computed from `m1`, the loop over
    `zip(m1, m2)` writes consecutive segments (an exception of an element's `rminus` propagates) -/
theorem vec_rminus (h0 : A.sdof ≠ some 0) (uninit : Nat → α) (m1 m2 : List M) :
    ManifSrc.Vec_rminus A uninit m1 m2 = Manif.vectorRminus A uninit m1 m2 := by
  unfold ManifSrc.Vec_rminus Manif.vectorRminus
  have hs := rminus_size A h0 m1
  have hl := rminus_loop A m1 m2 (uninitVec uninit (Manif.vectorRminusSize A m1)) 0
  simp only [uninitVec] at hl
  rw [← hl]
  simp only [hs, uninitVec]

theorem vec_manifest : ManifSrc.Vec_manifest = ["Dof", "dof", "Default", "cast", "rplus", "rminus"]
    ∧ ManifSrc.Vec_pinned = ["rplus: m_plus_a . reserve ( m . size ( ) ) ;"] := ⟨rfl, rfl⟩

end vector

/-! ## 3. `SubManifold<M>` (manifolds/submanifold.hpp) -/
section sub
variable (A : Manif.Man α M)

/-- the constructor sorts the fixed dimensions -/
theorem sub_ctor (m0 m : M) (fixed : List Nat) : ManifSrc.Sub_ctor m0 m fixed = Manif.SubMan.ctor m0 m fixed := by
  simp only [ManifSrc.Sub_ctor, Manif.SubMan.ctor, sortNat_eq]
theorem sub_ctor2 (m0 : M) (fixed : List Nat) : ManifSrc.Sub_ctor2 m0 fixed = Manif.SubMan.ctor m0 m0 fixed := sub_ctor m0 m0 fixed
theorem sub_accessors (s : Manif.SubMan M) :
    ManifSrc.Sub_m s = s.m ∧ ManifSrc.Sub_m0 s = s.m0 ∧ ManifSrc.Sub_fixed_dims s = s.fixed := ⟨rfl, rfl, rfl⟩
theorem sub_dof (s : Manif.SubMan M) : ManifSrc.Sub_dof A s = Manif.subDof A s := rfl

/-! #### the scatter loop of `rplus` -/
def scatterStep (fixed : List Nat) (a : List α) (_st : List α × Nat × Nat) (i : Nat) : List α × Nat × Nat :=
  let (m_calc, j, k) := _st
  let (m_calc, j, k) :=
    if k ≥ fixed.length ∨ i ≠ (getN fixed k) then
      let m_calc := setAtT m_calc i (getT a j)
      let j := j + 1
      (m_calc, j, k)
    else
      let k := k + 1
      (m_calc, j, k)
  (m_calc, j, k)

theorem set_append_mid (pre : List α) (x y : α) (rest : List α) :
    (pre ++ x :: rest).set pre.length y = pre ++ y :: rest := by
  induction pre with
  | nil => rfl
  | cons p ps ih => simp [ih]

theorem headD_drop (a : List α) (j : Nat) (d : α) : (a.drop j).headD d = a.getD j d := by
  induction a generalizing j with
  | nil => simp
  | cons x xs ih =>
    cases j with
    | zero => rfl
    | succ j => simp [ih j]

theorem scatter_loop (fixed : List Nat) (a : List α) (rem i0 j k : Nat) (pre : List α) (hp : pre.length = i0) :
    (List.foldl (scatterStep fixed a) (pre ++ zeros rem, j, k) (List.range' i0 rem)).1
      = pre ++ Manif.scatterLoop (nat 0) rem i0 (fixed.drop k) (a.drop j) := by
  induction rem generalizing i0 j k pre with
  | zero => simp [zeros, Manif.scatterLoop]
  | succ rem ih =>
    have hz : (zeros (rem + 1) : List α) = nat 0 :: zeros rem := by simp [zeros, List.replicate_succ]
    rw [List.range'_succ, List.foldl_cons, hz]
    by_cases hk : k < fixed.length
    · have hd : fixed.drop k = fixed[k] :: fixed.drop (k + 1) := List.drop_eq_getElem_cons hk
      have hg : getN fixed k = fixed[k] := by simp [getN, List.getD_eq_getElem?_getD, List.getElem?_eq_getElem hk]
      by_cases hi : i0 ≠ fixed[k]
      · have hc : k ≥ fixed.length ∨ i0 ≠ getN fixed k := Or.inr (by rw [hg]; exact hi)
        have e : scatterStep fixed a (pre ++ nat 0 :: zeros rem, j, k) i0
            = ((pre ++ [getT a j]) ++ zeros rem, j + 1, k) := by
          simp only [scatterStep, if_pos hc, setAtT]
          rw [← hp, set_append_mid]; simp
        rw [e, ih (i0 + 1) (j + 1) k (pre ++ [getT a j]) (by simp [hp]), hd]
        simp only [Manif.scatterLoop, if_pos hi, List.append_assoc, List.singleton_append, headD_drop, getT, List.tail_drop]
      · have hc : ¬ (k ≥ fixed.length ∨ i0 ≠ getN fixed k) := by
          rw [hg]; intro h; rcases h with h | h
          · omega
          · exact hi h
        have e : scatterStep fixed a (pre ++ nat 0 :: zeros rem, j, k) i0
            = ((pre ++ [nat 0]) ++ zeros rem, j, k + 1) := by
          simp only [scatterStep, if_neg hc]; simp
        rw [e, ih (i0 + 1) j (k + 1) (pre ++ [nat 0]) (by simp [hp]), hd]
        simp only [Manif.scatterLoop, if_neg hi, List.append_assoc, List.singleton_append]
    · have hd : fixed.drop k = [] := List.drop_eq_nil_of_le (by omega)
      have hc : k ≥ fixed.length ∨ i0 ≠ getN fixed k := Or.inl (by omega)
      have e : scatterStep fixed a (pre ++ nat 0 :: zeros rem, j, k) i0
          = ((pre ++ [getT a j]) ++ zeros rem, j + 1, k) := by
        simp only [scatterStep, if_pos hc, setAtT]
        rw [← hp, set_append_mid]; simp
      rw [e, ih (i0 + 1) (j + 1) k (pre ++ [getT a j]) (by simp [hp]), hd]
      simp only [Manif.scatterLoop, List.append_assoc, List.singleton_append, headD_drop, getT, List.tail_drop]

/-- **`SubManifold::rplus`**: the tangent of the embedding manifold gets the coordinates of `a` on the free dimensions and
    zero on the fixed ones; it is added to the CURRENT value `m_m`; origin and fixed dimensions are kept -/
theorem sub_rplus (s : Manif.SubMan M) (a : List α) : ManifSrc.Sub_rplus A s a = Manif.subRplus A s a := by
  have key : ManifSrc.Sub_rplus A s a = ManifSrc.Sub_ctor s.m0 (A.rplus s.m
      (List.foldl (scatterStep s.fixed a) (zeros (A.dof s.m0), 0, 0) (List.range (zeros (A.dof s.m0) : List α).length)).1) s.fixed := rfl
  have h := scatter_loop s.fixed a (A.dof s.m0) 0 0 0 [] rfl
  have hl : (zeros (A.dof s.m0) : List α).length = A.dof s.m0 := by simp [zeros]
  simp only [List.nil_append, List.drop_zero] at h
  rw [key, hl, List.range_eq_range', h, sub_ctor]
  rfl

/-! #### the gather loop of `rminus` -/
def gatherStep (fixed : List Nat) (m_calc : List α) (_st : List α × Nat × Nat) (i : Nat) : List α × Nat × Nat :=
  let (ret, j, k) := _st
  let (ret, j, k) :=
    if k ≥ fixed.length ∨ i ≠ (getN fixed k) then
      let ret := setAtT ret j (getT m_calc i)
      let j := j + 1
      (ret, j, k)
    else
      let k := k + 1
      (ret, j, k)
  (ret, j, k)

theorem set_take_fill (g : List α) (D : Nat) (z c : α) :
    (List.take D (g ++ List.replicate D z)).set g.length c = List.take D ((g ++ [c]) ++ List.replicate D z) := by
  apply List.ext_getElem?
  intro i
  simp only [List.getElem?_set, List.getElem?_take, List.getElem?_append, List.getElem?_replicate, List.length_take,
    List.length_append, List.length_replicate, List.length_cons, List.length_nil]
  by_cases h1 : i < D
  · by_cases h2 : i < g.length
    · have : g.length ≠ i := by omega
      have h3 : i < g.length + 1 := by omega
      simp [h1, h2, this, h3]
    · by_cases h3 : i = g.length
      · subst h3
        simp [h1]
      · have : g.length ≠ i := fun e => h3 e.symm
        have h4 : ¬ i < g.length + 1 := by omega
        have h5 : i - g.length < D := by omega
        have h6 : i - (g.length + 1) < D := by omega
        simp [h1, h2, this, h4, h5, h6]
  · by_cases h3 : g.length = i
    · subst h3; simp [h1]
    · simp [h1, h3]

theorem getT_append_mid (cp : List α) (c : α) (cs : List α) : getT (cp ++ c :: cs) cp.length = c := by
  simp [getT]

theorem gather_loop (fixed : List Nat) (D : Nat) (c_rest : List α) (i0 k : Nat) (g c_pre : List α) (hp : c_pre.length = i0) :
    (List.foldl (gatherStep fixed (c_pre ++ c_rest)) (List.take D (g ++ zeros D), g.length, k) (List.range' i0 c_rest.length)).1
      = List.take D ((g ++ Manif.gatherLoop i0 (fixed.drop k) c_rest) ++ zeros D) := by
  induction c_rest generalizing i0 k g c_pre with
  | nil => simp [Manif.gatherLoop]
  | cons c cs ih =>
    rw [List.length_cons, List.range'_succ, List.foldl_cons]
    have hcat : c_pre ++ c :: cs = (c_pre ++ [c]) ++ cs := by simp
    have hget : getT (c_pre ++ c :: cs) i0 = c := by rw [← hp]; exact getT_append_mid _ _ _
    have estep_t : k ≥ fixed.length ∨ i0 ≠ getN fixed k →
        gatherStep fixed (c_pre ++ c :: cs) (List.take D (g ++ zeros D), g.length, k) i0
          = (List.take D ((g ++ [c]) ++ zeros D), (g ++ [c]).length, k) := by
      intro hc
      simp only [gatherStep, if_pos hc, setAtT, hget, zeros, set_take_fill]
      simp
    have estep_f : ¬ (k ≥ fixed.length ∨ i0 ≠ getN fixed k) →
        gatherStep fixed (c_pre ++ c :: cs) (List.take D (g ++ zeros D), g.length, k) i0
          = (List.take D (g ++ zeros D), g.length, k + 1) := by
      intro hc
      simp only [gatherStep, if_neg hc]
    by_cases hk : k < fixed.length
    · have hd : fixed.drop k = fixed[k] :: fixed.drop (k + 1) := List.drop_eq_getElem_cons hk
      have hg : getN fixed k = fixed[k] := by simp [getN, List.getD_eq_getElem?_getD, List.getElem?_eq_getElem hk]
      by_cases hi : i0 ≠ fixed[k]
      · rw [estep_t (Or.inr (by rw [hg]; exact hi)), hcat, ih (i0 + 1) k (g ++ [c]) (c_pre ++ [c]) (by simp [hp]), hd]
        simp only [Manif.gatherLoop, if_pos hi, List.append_assoc, List.singleton_append]
      · have hc : ¬ (k ≥ fixed.length ∨ i0 ≠ getN fixed k) := by
          rw [hg]; intro h; rcases h with h | h
          · omega
          · exact hi h
        rw [estep_f hc, hcat, ih (i0 + 1) (k + 1) g (c_pre ++ [c]) (by simp [hp]), hd]
        simp only [Manif.gatherLoop, if_neg hi]
    · have hd : fixed.drop k = [] := List.drop_eq_nil_of_le (by omega)
      rw [estep_t (Or.inl (by omega)), hcat, ih (i0 + 1) k (g ++ [c]) (c_pre ++ [c]) (by simp [hp]), hd]
      simp only [Manif.gatherLoop, List.append_assoc, List.singleton_append]

/-- **`SubManifold::rminus`**: the full difference `rminus(m_m, other.m())` restricted to the free dimensions, in a
    zero-initialised vector of size `dof()` -/
theorem sub_rminus (s o : Manif.SubMan M) : ManifSrc.Sub_rminus A s o = Manif.subRminus A s o := by
  unfold ManifSrc.Sub_rminus Manif.subRminus
  show (A.rminus s.m o.m >>= fun c => _) = (A.rminus s.m o.m >>= fun c => _)
  congr 1
  funext c
  have h := gather_loop s.fixed (Manif.subDof A s) c 0 0 [] [] rfl
  simp only [List.nil_append, List.drop_zero, List.length_nil] at h
  have hz : List.take (Manif.subDof A s) (zeros (Manif.subDof A s) : List α) = zeros (Manif.subDof A s) := by
    simp [zeros]
  rw [hz] at h
  simp only [Manif.fitZero, Manif.gather]
  show pure _ = pure _
  congr 1
  rw [List.range_eq_range']
  exact h

/-! #### `traits::man<SubManifold<M>>` -/
theorem sub_man_cast (s : Manif.SubMan M) : ManifSrc.SubMan_cast A s = Manif.subCast A s := by
  unfold ManifSrc.SubMan_cast Manif.subCast
  simp only [ManifSrc.Sub_m0, ManifSrc.Sub_m, ManifSrc.Sub_fixed_dims, sub_ctor]

/-- every field of the Manifold model `Manif.sub A` that the source defines (`Default` is ill-formed in the source: pinned) -/
theorem sub_man :
    (Manif.sub A).sdof = ManifSrc.SubMan_Dof
    ∧ (∀ s, (Manif.sub A).dof s = ManifSrc.SubMan_dof A s)
    ∧ (∀ s a, (Manif.sub A).rplus s a = ManifSrc.SubMan_rplus A s a)
    ∧ (∀ s o, (Manif.sub A).rminus s o = ManifSrc.SubMan_rminus A s o)
    ∧ (∀ s, (Manif.sub A).cast s = ManifSrc.SubMan_cast A s) := by
  refine ⟨rfl, fun _ => rfl, fun s a => (sub_rplus A s a).symm, fun s o => ?_, fun s => (sub_man_cast A s).symm⟩
  show Manif.subRminus A s o = ManifSrc.SubMan_rminus A s o
  unfold ManifSrc.SubMan_rminus
  rw [sub_rminus]

theorem sub_manifest : ManifSrc.Sub_manifest = ["SubManifold(m0, m, fixed_dims)", "SubManifold(m0, fixed_dims)", "m", "m0",
    "fixed_dims", "dof", "rplus", "rminus", "man::Dof", "man::dof", "man::cast", "man::rplus", "man::rminus"] := rfl

end sub

/-- the Manifold model `Manif.vector A` field by field (static element sizes are positive) -/
theorem vec_man (A : Manif.Man α M) (h0 : A.sdof ≠ some 0) (uninit : Nat → α) :
    (∀ m, (Manif.vector A uninit).dof m = ManifSrc.Vec_dof A m)
    ∧ (∀ m a, (Manif.vector A uninit).rplus m a = ManifSrc.Vec_rplus A m a)
    ∧ (∀ m1 m2, (Manif.vector A uninit).rminus m1 m2 = ManifSrc.Vec_rminus A uninit m1 m2)
    ∧ (∀ m, (Manif.vector A uninit).cast m = ManifSrc.Vec_cast A m)
    ∧ (∀ n, (Manif.vector A uninit).default n = ManifSrc.Vec_Default A n) :=
  ⟨fun m => (vec_dof A h0 m).symm, fun m a => (vec_rplus A m a).symm, fun m1 m2 => (vec_rminus A h0 uninit m1 m2).symm,
   fun m => (vec_cast A m).symm, fun n => (vec_Default A n).symm⟩

/-! ## 4. `std::variant<Ms...>` (manifolds/variant.hpp) and `AnyManifold` (manifolds/any.hpp) -/
section variant
variable {ι : Type} [DecidableEq ι] {Ms : ι → Type} (A : ∀ i, Manif.Man α (Ms i))

theorem var_rminus (v w : Σ i, Ms i) : ManifSrc.Var_rminus A v w = Manif.variantRminus A v w := by
  unfold ManifSrc.Var_rminus Manif.variantRminus variantGet
  by_cases h : w.1 = v.1
  · simp only [dif_pos h]
    rfl
  · simp only [dif_neg h]
    rfl

theorem var_cast (v : Σ i, Ms i) : ManifSrc.Var_cast A v = Manif.variantCast A v := rfl
theorem var_Default (first : ι) (d : Nat) : ManifSrc.Var_Default A first d = Manif.variantDefault A first d := rfl

/-- every field of the Manifold model `Manif.variant A first`: `std::visit` dispatches on the alternative held; `rminus` throws
    `bad_variant_access` unless the second argument holds the same alternative; `Default` is that of alternative 0 -/
theorem var_man (first : ι) :
    (Manif.variant A first).sdof = ManifSrc.Var_Dof
    ∧ (∀ v, (Manif.variant A first).dof v = ManifSrc.Var_dof A v)
    ∧ (∀ v a, (Manif.variant A first).rplus v a = ManifSrc.Var_rplus A v a)
    ∧ (∀ v w, (Manif.variant A first).rminus v w = ManifSrc.Var_rminus A v w)
    ∧ (∀ v, (Manif.variant A first).cast v = ManifSrc.Var_cast A v)
    ∧ (∀ d, (Manif.variant A first).default d = ManifSrc.Var_Default A first d) :=
  ⟨rfl, fun _ => rfl, fun _ _ => rfl, fun v w => (var_rminus A v w).symm, fun _ => rfl, fun _ => rfl⟩

theorem var_manifest : ManifSrc.Var_manifest = ["Dof", "dof", "Default", "cast", "rplus", "rminus"] := rfl

theorem any_rminus (v w : Σ i, Ms i) : ManifSrc.Any_rminus A v w = Manif.anyRminus A v w := by
  unfold ManifSrc.Any_rminus ManifSrc.Any_wrapper_rminus Manif.anyRminus anyCast
  by_cases h : w.1 = v.1
  · simp only [dif_pos h]
    rfl
  · simp only [dif_neg h]
    rfl

/-- every field of the Manifold model `Manif.any A`, the throwing default constructor, and `clone` (a copy holds an equal
    value of the same type: what `AnyHeap.copy` allocates) -/
theorem any_man :
    (Manif.any A).sdof = ManifSrc.AnyMan_Dof
    ∧ (∀ v, (Manif.any A).dof v = ManifSrc.AnyMan_dof A v)
    ∧ (∀ v a, (Manif.any A).rplus v a = ManifSrc.AnyMan_rplus A v a)
    ∧ (∀ v w, (Manif.any A).rminus v w = ManifSrc.AnyMan_rminus A v w)
    ∧ (∀ v, (Manif.any A).cast v = ManifSrc.AnyMan_cast A v)
    ∧ (∀ d, (Manif.any A).default d = ManifSrc.AnyMan_Default A d)
    ∧ (Manif.anyDefaultCtor : Except String (Σ i, Ms i)) = ManifSrc.Any_defaultCtor A
    ∧ (∀ v : Σ i, Ms i, ManifSrc.Any_wrapper_clone A v.1 v.2 = v) :=
  ⟨rfl, fun _ => rfl, fun _ _ => rfl, fun v w => (any_rminus A v w).symm, fun _ => rfl, fun _ => rfl, rfl, fun _ => rfl⟩

theorem any_manifest : ManifSrc.Any_manifest = ["AnyManifold()", "dof", "rplus", "rminus", "wrapper::dof", "wrapper::rplus",
    "wrapper::rminus", "wrapper::clone", "man::Dof", "man::dof", "man::Default", "man::cast", "man::rplus", "man::rminus"] := rfl
end variant

end SrcTieManif
