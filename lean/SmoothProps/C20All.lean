/- aggregator: property theorems of C20 plus the source-tie theorems of the scalar decision logic regenerated from the C++ -/
import SmoothProps.C20
import SmoothProps.SrcTieLogic
