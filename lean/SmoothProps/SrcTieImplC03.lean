/-
  SrcTieImplC03 — source ties (see SrcTieImpl.lean) for Ad, ad, hat, vee of SO2, C1, Tn, SE2, SO3, SE3,
  Galilei, SE_K(3).
-/
import SmoothProps.SrcTieImplC01

open Scalar Lin EigenSem

set_option linter.unusedSectionVars false
namespace SrcTieImpl
variable {α : Type} [Scalar α]

theorem so2_hat (a : Vec α 1) : ImplSrc.SO2.hat a = SO2.hat a := rfl
theorem so2_vee (A : Mat α 2 2) : ImplSrc.SO2.vee A = SO2.vee A := rfl
theorem c1_hat (a : Vec α 2) : ImplSrc.C1.hat a = C1.hat a := rfl
theorem c1_vee (A : Mat α 2 2) : ImplSrc.C1.vee A = C1.vee A := rfl
theorem se2_Ad (g : Vec α 4) : ImplSrc.SE2.Ad g = SE2.Ad g := by tie_mat
theorem se2_hat (a : Vec α 3) : ImplSrc.SE2.hat a = SE2.hat a := by tie_mat
theorem se2_vee (A : Mat α 3 3) : ImplSrc.SE2.vee A = SE2.vee A := by tie_vec
theorem se2_ad (a : Vec α 3) : ImplSrc.SE2.ad a = SE2.ad a := by tie_mat
theorem tn_hat {n : Nat} (a : Vec α n) : ImplSrc.Tn.hat a = Tn.hat a := by
  apply Mat.ext'; intro i j
  simp only [ImplSrc.Tn.hat, Tn.hat, setBlockCol, mzero, Mat.of]
  have hi := i.isLt; have hj := j.isLt
  split_ifs <;> first | rfl | (exfalso; omega)
theorem tn_vee {n : Nat} (A : Mat α (n + 1) (n + 1)) : ImplSrc.Tn.vee A = Tn.vee A := by
  apply Vec.ext'; intro i
  simp only [ImplSrc.Tn.vee, Tn.vee, blockCol, Vec.of, Nat.zero_add]
/-- `TnImpl::ad` is the zero matrix — the `ad` field of the LieModel record of `T<n>` -/
theorem tn_ad {n : Nat} (a : Vec α n) : ImplSrc.Tn.ad a = (Tn.model n : LieModel α).ad a := rfl
theorem so3_hat (a : Vec α 3) : ImplSrc.SO3.hat a = SO3.hat a := rfl
theorem so3_vee (A : Mat α 3 3) : ImplSrc.SO3.vee A = SO3.vee A := rfl
theorem so3_ad (a : Vec α 3) : ImplSrc.SO3.ad a = SO3.ad a := rfl
theorem so3_Ad (g : Vec α 4) : ImplSrc.SO3.Ad g = SO3.Ad g := rfl
theorem se3_Ad (g : Vec α 7) : ImplSrc.SE3.Ad g = SE3.Ad g := by
  simp only [SE3.Ad, memoM_eq]; tie_mat
theorem se3_hat (a : Vec α 6) : ImplSrc.SE3.hat a = SE3.hat a := by tie_mat
theorem se3_vee (A : Mat α 4 4) : ImplSrc.SE3.vee A = SE3.vee A := by tie_vec
theorem se3_ad (a : Vec α 6) : ImplSrc.SE3.ad a = SE3.ad a := by tie_mat

/-! Galilei -/
theorem galilei_Ad (g : Vec α 11) : ImplSrc.Galilei.Ad g = Galilei.Ad g := by
  simp only [Galilei.Ad, memoM_eq]; tie_mat
theorem galilei_ad (a : Vec α 10) : ImplSrc.Galilei.ad a = Galilei.ad a := by tie_mat
theorem galilei_hat (a : Vec α 10) : ImplSrc.Galilei.hat a = Galilei.hat a := by tie_mat
theorem galilei_vee (A : Mat α 5 5) : ImplSrc.Galilei.vee A = Galilei.vee A := by tie_vec

/-! SE_K(3), every `k` -/
theorem sek3_Ad {k : Nat} (g : Vec α (4 + 3 * k)) : ImplSrc.SEK3.Ad g = SEK3.Ad k g := by
  simp only [ImplSrc.SEK3.Ad, SEK3.Ad, memoM_eq, so3_hat, so3_matrix, seg_gq]
  rw [forLoop_blocks _ (SO3.matrix (SEK3.gq k g))
    (fun i hi => mmul (SO3.hat (segment 3 (3 * i) g)) (SO3.matrix (SEK3.gq k g)))]
  · rfl
  · intro i hi M hM

    rw [blockM_setBlock_same, blockM_setBlock_disj _ _ _ _ _ _ _ _ (by omega), hM, setBlock_setBlock_same,
      blockM_setBlock_disj _ _ _ _ _ _ _ _ (by omega), hM]
theorem sek3_ad {k : Nat} (a : Vec α (3 + 3 * k)) : ImplSrc.SEK3.ad a = SEK3.ad k a := by
  simp only [ImplSrc.SEK3.ad, SEK3.ad, so3_hat, seg_tw]
  rw [forLoop_blocks _ (SO3.hat (SEK3.tw k a)) (fun i hi => SO3.hat (segment 3 (3 * i) a))]
  · rfl
  · intro i hi M hM

    rw [blockM_setBlock_disj _ _ _ _ _ _ _ _ (by omega), hM]
theorem sek3_hat {k : Nat} (a : Vec α (3 + 3 * k)) : ImplSrc.SEK3.hat a = SEK3.hat k a := by
  simp only [ImplSrc.SEK3.hat, SEK3.hat, so3_hat, seg_tw]
  apply Mat.ext'; intro r c
  rw [forLoop_setBlockCol_get]
  simp only [setBlock, mzero, Mat.of, segment, Vec.of]
  have hr := r.isLt; have hc := c.isLt
  split_ifs <;> first | rfl | (exfalso; omega)
theorem sek3_vee {k : Nat} (A : Mat α (3 + k) (3 + k)) : ImplSrc.SEK3.vee A = SEK3.vee k A := by
  simp only [ImplSrc.SEK3.vee, SEK3.vee, so3_vee]
  rw [forLoop_mkT _ _ (SO3.vee (blockM 3 3 0 0 A)) (fun r => setSegment_hi _ _ _ r _)]
  simp only [blockCol, blockM, Nat.zero_add]

/-! ### generic layer: `hat`, `vee`, `Ad()`, `ad`, `lie_bracket` of LieGroupBase (see SrcTieImpl.lean) -/
section base
variable (G : LieModel α)
theorem base_hat (a : Vec α G.dof) : BaseSrc.hat G a = G.hat a := rfl
theorem base_vee (A : Mat α G.dim G.dim) : BaseSrc.vee G A = G.vee A := rfl
theorem base_Ad (h : G.ShortCut) (g : Vec α G.rep) : BaseSrc.Ad G g = G.Ad g := by
  unfold BaseSrc.Ad
  cases hc : G.comm
  · rfl
  · exact (h.Ad hc g).symm
theorem base_ad (h : G.ShortCut) (a : Vec α G.dof) : BaseSrc.ad G a = G.ad a := by
  unfold BaseSrc.ad
  cases hc : G.comm
  · rfl
  · exact (h.ad hc a).symm
/-- `lie_bracket`: for a non-commutative group the source and the model both compute `ad(a)·b` -/
theorem base_lie_bracket (hc : G.comm = false) (a b : Vec α G.dof) : BaseSrc.lie_bracket G a b = G.bracket a b := by
  unfold BaseSrc.lie_bracket BaseSrc.ad LieModel.bracket
  rw [hc]; rfl
/-- for a commutative group the source returns the literal zero vector; the model's `bracket` is `ad(a)·b` with
    `ad(a) = 0` (`bracket_comm_model`), i.e. the sums `Σ_l 0·b_l` — equal to zero over ℝ and for finite floats, not
    syntactically (and NaN instead of 0 for a non-finite `b`): a recorded deviation of the model, see DESIGN §8.1 -/
theorem base_lie_bracket_comm (hc : G.comm = true) (a b : Vec α G.dof) : BaseSrc.lie_bracket G a b = vzero G.dof := by
  unfold BaseSrc.lie_bracket
  rw [hc]; rfl
theorem bracket_comm_model (h : G.ShortCut) (hc : G.comm = true) (a b : Vec α G.dof) :
    G.bracket a b = mulVec (mzero G.dof G.dof) b := by
  unfold LieModel.bracket; rw [h.ad hc a]
end base

end SrcTieImpl
