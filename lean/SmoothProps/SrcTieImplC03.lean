/-
  SrcTieImplC03 — source ties (see SrcTieImpl.lean) for Ad, ad, hat, vee of SO2, C1, Tn, SE2, SO3, SE3.
-/
import SmoothProps.SrcTieImpl

open Scalar Lin EigenSem

namespace SrcTieImpl
variable {α : Type} [Scalar α]

theorem so2_hat (a : Vec α 1) : ImplSrc.SO2.hat a = SO2.hat a := rfl
theorem so2_vee (A : Mat α 2 2) : ImplSrc.SO2.vee A = SO2.vee A := rfl
theorem c1_hat (a : Vec α 2) : ImplSrc.C1.hat a = C1.hat a := rfl
theorem c1_vee (A : Mat α 2 2) : ImplSrc.C1.vee A = C1.vee A := rfl
theorem se2_Ad (g : Vec α 4) : ImplSrc.SE2.Ad g = SE2.Ad g := by tie_mat
theorem se2_hat (a : Vec α 3) : ImplSrc.SE2.hat a = SE2.hat a := by tie_mat
theorem se2_vee (A : Mat α 3 3) : ImplSrc.SE2.vee A = SE2.vee A := by tie_vec
theorem se2_ad (a : Vec α 3) : ImplSrc.SE2.ad a = SE2.ad a := by tie_mat
theorem tn_hat {n : Nat} (a : Vec α n) : ImplSrc.Tn.hat a = Tn.hat a := by
  apply Mat.ext'; intro i j
  simp only [ImplSrc.Tn.hat, Tn.hat, setBlockCol, mzero, Mat.of]
  have hi := i.isLt; have hj := j.isLt
  split_ifs <;> first | rfl | (exfalso; omega)
theorem tn_vee {n : Nat} (A : Mat α (n + 1) (n + 1)) : ImplSrc.Tn.vee A = Tn.vee A := by
  apply Vec.ext'; intro i
  simp only [ImplSrc.Tn.vee, Tn.vee, blockCol, Vec.of, Nat.zero_add]
/-- `TnImpl::ad` is the zero matrix — the `ad` field of the LieModel record of `T<n>` -/
theorem tn_ad {n : Nat} (a : Vec α n) : ImplSrc.Tn.ad a = (Tn.model n : LieModel α).ad a := rfl
theorem so3_hat (a : Vec α 3) : ImplSrc.SO3.hat a = SO3.hat a := rfl
theorem so3_vee (A : Mat α 3 3) : ImplSrc.SO3.vee A = SO3.vee A := rfl
theorem so3_ad (a : Vec α 3) : ImplSrc.SO3.ad a = SO3.ad a := rfl
theorem so3_Ad (g : Vec α 4) : ImplSrc.SO3.Ad g = SO3.Ad g := rfl
theorem se3_Ad (g : Vec α 7) : ImplSrc.SE3.Ad g = SE3.Ad g := by
  simp only [SE3.Ad, memoM_eq]; tie_mat
theorem se3_hat (a : Vec α 6) : ImplSrc.SE3.hat a = SE3.hat a := by tie_mat
theorem se3_vee (A : Mat α 4 4) : ImplSrc.SE3.vee A = SE3.vee A := by tie_vec
theorem se3_ad (a : Vec α 6) : ImplSrc.SE3.ad a = SE3.ad a := by tie_mat

end SrcTieImpl
