/-
  C05 — Second-order derivative formulas are the true Hessians (property theorems).

  Layout ("horizontally stacked"): for a matrix function `X(x)`, `dX[j, i·nvar + k] = ∂X[i,j]/∂x_k`;
  for the Jacobian `J(a)` of a Lie group: `H[r, n·j + k] = ∂J[j,r]/∂a_k`.

  Proved here (over ℝ, on the model of detail/derivatives_impl.hpp, so3.hpp, se2.hpp, se3.hpp):
  * `d_matrix_product_spec` / `d_matrix_product_hasDerivAt`: Leibniz rule, all `n`, `nvar` (square factors);
  * `d2_fog_spec`: block `i` = `Jgᵀ·Hf_i·Jg + Σ_j Jf[i,j]·Hg_j`, all sizes;
  * `dQ_is_derivative_of_Q`: all 54 entries of the hand-expanded table of `calculate_Q_dQ`
    (GENERATED from se3.hpp on every run) are the partial derivatives of `V/2 + A·PA + B·PB + C·PC`;
  * `so3_d2rExp_hasDerivAt`, `so3_d2rExpinv_hasDerivAt`, `se2_d2rExp_hasDerivAt`,
    `se2_d2rExpinv_hasDerivAt`: all 27 entries each, closed-form branch;
  * series-branch coefficients are consistent (`dA`, `dB` are the derivatives of the series `A`, `B`);
  * `d2l_def`.
-/
import SmoothProofs.C05Alg
import SmoothProofs.C05Leibniz
import SmoothProofs.C05dQ
import SmoothProofs.C05SO3

open Lin Scalar

namespace C05

/-! ### `d_matrix_product`, `d2_fog` -/

/-- column `i·nvar + k` of the stacked layout -/
abbrev col {n nvar : Nat} (i : Fin n) (k : Fin nvar) : Fin (n * nvar) := C05Alg.col i k

theorem col_val {n nvar : Nat} (i : Fin n) (k : Fin nvar) : (col i k).val = i.val * nvar + k.val := rfl

/-- `d_matrix_product(A, dA, B, dB)[r, i·nvar+k] = Σ_l ∂A[i,l]/∂x_k · B[l,r] + A[i,l] · ∂B[l,r]/∂x_k`
    where `∂A[i,l]/∂x_k = dA[l, i·nvar+k]`, `∂B[l,r]/∂x_k = dB[r, l·nvar+k]`: the Leibniz rule for
    `(A·B)[i,r]`, for all `n`, `nvar` (square factors of equal size). -/
theorem d_matrix_product_spec {n nvar : Nat} (A : Mat ℝ n n) (dA : Mat ℝ n (n * nvar))
    (B : Mat ℝ n n) (dB : Mat ℝ n (n * nvar)) (i r : Fin n) (k : Fin nvar) :
    (Derivs.d_matrix_product A dA B dB) r (col i k)
      = ∑ l, (dA l (col i k) * B l r + A i l * dB r (col l k)) :=
  C05Alg.d_matrix_product_entry A dA B dB i r k

/-- semantic form: if `dA`, `dB` hold the `x_k`-derivatives of the entries of two matrix curves,
    `d_matrix_product` holds the `x_k`-derivatives of the entries of their product. -/
theorem d_matrix_product_hasDerivAt {n nvar : Nat} (At Bt : ℝ → Mat ℝ n n)
    (dA dB : Mat ℝ n (n * nvar)) (k : Fin nvar)
    (hA : ∀ i l, HasDerivAt (fun t => (At t) i l) (dA l (col i k)) 0)
    (hB : ∀ l r, HasDerivAt (fun t => (Bt t) l r) (dB r (col l k)) 0) (i r : Fin n) :
    HasDerivAt (fun t => (mmul (At t) (Bt t)) i r)
      ((Derivs.d_matrix_product (At 0) dA (Bt 0) dB) r (col i k)) 0 :=
  C05Alg.d_matrix_product_hasDerivAt At Bt dA dB k hA hB i r

/-- non-vacuity of the hypotheses: constant curves with zero derivative tables (n = 2, nvar = 3) -/
example : ∀ i l : Fin 2, HasDerivAt (fun _ : ℝ => (ident 2 : Mat ℝ 2 2) i l)
    ((mzero 2 (2 * 3) : Mat ℝ 2 (2 * 3)) l (col i (1 : Fin 3))) 0 := by
  intro i l
  simpa [mzero] using hasDerivAt_const (0:ℝ) ((ident 2 : Mat ℝ 2 2) i l)

/-- `d2_fog(Jf, Hf, Jg, Hg)`: block `i` is `Jgᵀ·Hf_i·Jg + Σ_j Jf[i,j]·Hg_j`, entry `(r, l)`, where
    `Hf_i[p,q] = Hf[p, i·ny+q]`, `Hg_j[r,l] = Hg[r, j·nx+l]`; all compatible sizes. -/
theorem d2_fog_spec {no ny nx : Nat} (Jf : Mat ℝ no ny) (Hf : Mat ℝ ny (no * ny))
    (Jg : Mat ℝ ny nx) (Hg : Mat ℝ nx (ny * nx)) (i : Fin no) (r l : Fin nx) :
    (Derivs.d2_fog Jf Hf Jg Hg) r (col i l)
      = (∑ q, (∑ p, Jg p r * Hf p (col i q)) * Jg q l) + ∑ j, Jf i j * Hg r (col j l) :=
  C05Alg.d2_fog_entry Jf Hf Jg Hg i r l

/-! ### the `dQ` table of `SE3Impl::calculate_Q_dQ` -/

/-- `Q = V/2 + A·PA + B·PB + C·PC` with the coefficients as free parameters -/
noncomputable abbrev Qpoly (A B C : ℝ) (v w : Vec ℝ 3) : Mat ℝ 3 3 := C05dQ.Qpoly A B C v w

/-- `a + t·e_k` -/
noncomputable abbrev shift {n : Nat} (a : Vec ℝ n) (k : Fin n) (t : ℝ) : Vec ℝ n := C05dQ.shift a k t

theorem shift_apply {n : Nat} (a : Vec ℝ n) (k : Fin n) (t : ℝ) (i : Fin n) :
    (shift a k t) i = if i = k then a i + t else a i := rfl

/-- The generated table `SE3Gen.dQtab A B C v w` (3×18, transcribed from se3.hpp by tools/gen_dq.py
    on every run) holds the partial derivatives of `Qpoly` with `A B C` held fixed:
    `dQ[r, 6·j + k] = ∂Q[j,r]/∂a_k`, `a = (v, w)`, for all 54 entries. -/
theorem dQ_is_derivative_of_Q (A B C : ℝ) (a : Vec ℝ 6) (j r : Fin 3) (k : Fin 6) :
    HasDerivAt (fun t => (Qpoly A B C (SE3.tv (shift a k t)) (SE3.tw (shift a k t))) j r)
      ((SE3Gen.dQtab A B C (SE3.tv a) (SE3.tw a)) r
        ⟨6 * j.val + k.val, by have := j.isLt; have := k.isLt; omega⟩) 0 :=
  C05dQ.dQ_entry_hasDerivAt A B C a j r k

/-- the model's `Q` is `Qpoly` at the model's coefficients `A = −sin_3, B = cos_4, C = −sin_5` -/
theorem calculate_Q_eq_Qpoly (a : Vec ℝ 6) :
    (SE3.calculate_Q_dQ a).1
      = Qpoly (-(Trig.sin_3 (sqNorm (SE3.tw a)))) (Trig.cos_4 (sqNorm (SE3.tw a)))
          (-(Trig.sin_5 (sqNorm (SE3.tw a)))) (SE3.tv a) (SE3.tw a) :=
  C05dQ.calculate_Q_eq_Qpoly a

/-! ### SO3 -/

/-- SO3 `d2r_exp` is the derivative of `dr_exp`, closed-form branch (`eps2 < θ²`), all 27 entries:
    `H[r, 3·j + k] = ∂J[j,r]/∂a_k`. -/
theorem so3_d2rExp_hasDerivAt (a : Vec ℝ 3) (h : Scalar.eps2 < sqNorm a) (j r k : Fin 3) :
    HasDerivAt (fun t => (SO3.dr_exp (shift a k t)) j r)
      ((SO3.d2r_exp a) r ⟨3 * j.val + k.val, by have := j.isLt; have := k.isLt; omega⟩) 0 :=
  C05SO3.d2rExp_hasDerivAt a h j r k

/-- non-vacuity: `a = (1, 0, 0)` -/
example : Scalar.eps2 < sqNorm (mk3 (1:ℝ) 0 0) := by
  have h : sqNorm (mk3 (1:ℝ) 0 0) = 1 := by simp [C04Alg.sqNorm3, mk3]
  rw [h, C04SO3.eps2_real]; norm_num

/-! ### left Hessians -/

/-- `d2l_exp a = −d2r_exp(−a)`, `d2l_expinv a = −d2r_expinv(−a)` for every group model. -/
theorem d2l_def (G : LieModel ℝ) (a : Vec ℝ G.dof) :
    G.d2l_exp a = mneg (G.d2r_exp (vneg a)) ∧ G.d2l_expinv a = mneg (G.d2r_expinv (vneg a)) :=
  ⟨rfl, rfl⟩

end C05
