/-
  C05 — Second-order derivative formulas are the true Hessians (property theorems).

  Layout ("horizontally stacked"): for a matrix function `X(x)`, `dX[j, i·nvar + k] = ∂X[i,j]/∂x_k`;
  for the Jacobian `J(a)` of a Lie group: `H[r, n·j + k] = ∂J[j,r]/∂a_k`.

  Proved here (over ℝ, on the model of detail/derivatives_impl.hpp, so3.hpp, se2.hpp, se3.hpp):
  * `d_matrix_product_spec` / `d_matrix_product_hasDerivAt`: Leibniz rule, all `n`, `nvar` (square factors);
  * `d2_fog_spec`: block `i` = `Jgᵀ·Hf_i·Jg + Σ_j Jf[i,j]·Hg_j`, all sizes;
  * `dQ_is_derivative_of_Q`: all 54 entries of the hand-expanded table of `calculate_Q_dQ`
    (GENERATED from se3.hpp on every run) are the partial derivatives of `V/2 + A·PA + B·PB + C·PC`;
  * `se3_calculate_Q_dQ_hasDerivAt`: the full `dQ` (table + `dA,dB,dC` loop) is the derivative of `Q`
    (closed branch, 54 entries); `se3_d2rExp_hasDerivAt`, `se3_d2rExpinv_hasDerivAt`: all 216 entries of SE3
    `d2r_exp` / `d2r_expinv`;
  * `so3_d2rExp_hasDerivAt`, `so3_d2rExpinv_hasDerivAt`, `se2_d2rExp_hasDerivAt`,
    `se2_d2rExpinv_hasDerivAt`: all 27 entries each, closed-form branch;
  * series-branch coefficients are consistent (`dA`, `dB` are the derivatives of the series `A`, `B`);
  * `so3_d2r_taylor_bound`, `se2_d2r_taylor_bound`: series-branch Hessians within explicit bounds of
    the closed-form formula;
  * Bundle: `bundle_d2rExp_hasDerivAt`, `bundle_d2rExpinv_hasDerivAt` lift the Hessian statement from
    the parts to every Bundle composition;
  * `d2l_def`, `d2r_rminus_def`, `d2r_rminus_squarednorm_def`.
-/
import SmoothProofs.C05Alg
import SmoothProofs.C05Leibniz
import SmoothProofs.C05dQ
import SmoothProofs.C05SO3
import SmoothProofs.C05SE2
import SmoothProofs.C05Series
import SmoothProofs.C05SE3
import SmoothProofs.C05SE3H
import SmoothProofs.C05SE3Hinv
import SmoothProofs.C05Bundle
import SmoothProofs.C05TaylorH

open Lin Scalar

namespace C05

/-! ### `d_matrix_product`, `d2_fog` -/

/-- column `i·nvar + k` of the stacked layout -/
abbrev col {n nvar : Nat} (i : Fin n) (k : Fin nvar) : Fin (n * nvar) := C05Alg.col i k

theorem col_val {n nvar : Nat} (i : Fin n) (k : Fin nvar) : (col i k).val = i.val * nvar + k.val := rfl

/-- `d_matrix_product(A, dA, B, dB)[r, i·nvar+k] = Σ_l ∂A[i,l]/∂x_k · B[l,r] + A[i,l] · ∂B[l,r]/∂x_k`
    where `∂A[i,l]/∂x_k = dA[l, i·nvar+k]`, `∂B[l,r]/∂x_k = dB[r, l·nvar+k]`: the Leibniz rule for
    `(A·B)[i,r]`, for all `n`, `nvar` (square factors of equal size). -/
theorem d_matrix_product_spec {n nvar : Nat} (A : Mat ℝ n n) (dA : Mat ℝ n (n * nvar))
    (B : Mat ℝ n n) (dB : Mat ℝ n (n * nvar)) (i r : Fin n) (k : Fin nvar) :
    (Derivs.d_matrix_product A dA B dB) r (col i k)
      = ∑ l, (dA l (col i k) * B l r + A i l * dB r (col l k)) :=
  C05Alg.d_matrix_product_entry A dA B dB i r k

/-- semantic form: if `dA`, `dB` hold the `x_k`-derivatives of the entries of two matrix curves,
    `d_matrix_product` holds the `x_k`-derivatives of the entries of their product. -/
theorem d_matrix_product_hasDerivAt {n nvar : Nat} (At Bt : ℝ → Mat ℝ n n)
    (dA dB : Mat ℝ n (n * nvar)) (k : Fin nvar)
    (hA : ∀ i l, HasDerivAt (fun t => (At t) i l) (dA l (col i k)) 0)
    (hB : ∀ l r, HasDerivAt (fun t => (Bt t) l r) (dB r (col l k)) 0) (i r : Fin n) :
    HasDerivAt (fun t => (mmul (At t) (Bt t)) i r)
      ((Derivs.d_matrix_product (At 0) dA (Bt 0) dB) r (col i k)) 0 :=
  C05Alg.d_matrix_product_hasDerivAt At Bt dA dB k hA hB i r

/-- non-vacuity of the hypotheses: constant curves with zero derivative tables (n = 2, nvar = 3) -/
example : ∀ i l : Fin 2, HasDerivAt (fun _ : ℝ => (ident 2 : Mat ℝ 2 2) i l)
    ((mzero 2 (2 * 3) : Mat ℝ 2 (2 * 3)) l (col i (1 : Fin 3))) 0 := by
  intro i l
  simpa [mzero] using hasDerivAt_const (0:ℝ) ((ident 2 : Mat ℝ 2 2) i l)

/-- `d2_fog(Jf, Hf, Jg, Hg)`: block `i` is `Jgᵀ·Hf_i·Jg + Σ_j Jf[i,j]·Hg_j`, entry `(r, l)`, where
    `Hf_i[p,q] = Hf[p, i·ny+q]`, `Hg_j[r,l] = Hg[r, j·nx+l]`; all compatible sizes. -/
theorem d2_fog_spec {no ny nx : Nat} (Jf : Mat ℝ no ny) (Hf : Mat ℝ ny (no * ny))
    (Jg : Mat ℝ ny nx) (Hg : Mat ℝ nx (ny * nx)) (i : Fin no) (r l : Fin nx) :
    (Derivs.d2_fog Jf Hf Jg Hg) r (col i l)
      = (∑ q, (∑ p, Jg p r * Hf p (col i q)) * Jg q l) + ∑ j, Jf i j * Hg r (col j l) :=
  C05Alg.d2_fog_entry Jf Hf Jg Hg i r l

/-! ### the `dQ` table of `SE3Impl::calculate_Q_dQ` -/

/-- `Q = V/2 + A·PA + B·PB + C·PC` with the coefficients as free parameters -/
noncomputable abbrev Qpoly (A B C : ℝ) (v w : Vec ℝ 3) : Mat ℝ 3 3 := C05dQ.Qpoly A B C v w

/-- `a + t·e_k` -/
noncomputable abbrev shift {n : Nat} (a : Vec ℝ n) (k : Fin n) (t : ℝ) : Vec ℝ n := C05dQ.shift a k t

theorem shift_apply {n : Nat} (a : Vec ℝ n) (k : Fin n) (t : ℝ) (i : Fin n) :
    (shift a k t) i = if i = k then a i + t else a i := rfl

/-- The generated table `SE3Gen.dQtab A B C v w` (3×18, transcribed from se3.hpp by tools/gen_dq.py
    on every run) holds the partial derivatives of `Qpoly` with `A B C` held fixed:
    `dQ[r, 6·j + k] = ∂Q[j,r]/∂a_k`, `a = (v, w)`, for all 54 entries. -/
theorem dQ_is_derivative_of_Q (A B C : ℝ) (a : Vec ℝ 6) (j r : Fin 3) (k : Fin 6) :
    HasDerivAt (fun t => (Qpoly A B C (SE3.tv (shift a k t)) (SE3.tw (shift a k t))) j r)
      ((SE3Gen.dQtab A B C (SE3.tv a) (SE3.tw a)) r
        ⟨6 * j.val + k.val, by have := j.isLt; have := k.isLt; omega⟩) 0 :=
  C05dQ.dQ_entry_hasDerivAt A B C a j r k

/-- the model's `Q` is `Qpoly` at the model's coefficients `A = −sin_3, B = cos_4, C = −sin_5` -/
theorem calculate_Q_eq_Qpoly (a : Vec ℝ 6) :
    (SE3.calculate_Q_dQ a).1
      = Qpoly (-(Trig.sin_3 (sqNorm (SE3.tw a)))) (Trig.cos_4 (sqNorm (SE3.tw a)))
          (-(Trig.sin_5 (sqNorm (SE3.tw a)))) (SE3.tv a) (SE3.tw a) :=
  C05dQ.calculate_Q_eq_Qpoly a

/-- `calculate_Q_dQ(a)` returns `(Q, dQ)` with `dQ` the derivative of `Q` — generated table plus the
    `dA_over_th, dB_over_th, dC_over_th` loop — for all 54 entries, in the closed branch
    (`eps2 < |w|²`): `dQ[r, 6·j + k] = ∂Q[j,r]/∂a_k`. -/
theorem se3_calculate_Q_dQ_hasDerivAt (a : Vec ℝ 6) (h : Scalar.eps2 < sqNorm (SE3.tw a))
    (j r : Fin 3) (k : Fin 6) :
    HasDerivAt (fun t => (SE3.calculate_Q_dQ (shift a k t)).1 j r)
      ((SE3.calculate_Q_dQ a).2 r ⟨6 * j.val + k.val, by have := j.isLt; have := k.isLt; omega⟩) 0 :=
  C05SE3.Q_dQ_hasDerivAt a h j r k

/-- non-vacuity: `a = (5, −7, 11; 1, 0, 0)` -/
example : Scalar.eps2 < sqNorm (SE3.tw (SE3.mk6 (mk3 (5:ℝ) (-7) 11) (mk3 1 0 0))) := by
  have : SE3.tw (SE3.mk6 (mk3 (5:ℝ) (-7) 11) (mk3 1 0 0)) = mk3 1 0 0 := by
    ext i; fin_cases i <;> rfl
  have h : sqNorm (mk3 (1:ℝ) 0 0) = 1 := by simp [C04Alg.sqNorm3, mk3]
  rw [this, h, C04SO3.eps2_real]; norm_num

/-- SE3 `d2r_exp` is the derivative of `dr_exp`, closed branch (`eps2 < |w|²`), all 216 entries:
    `H[R, 6·J + k] = ∂Jac[J,R]/∂a_k` (SO3 Hessian blocks, the `−dQ(−a)` block, zero blocks). -/
theorem se3_d2rExp_hasDerivAt (a : Vec ℝ 6) (h : Scalar.eps2 < sqNorm (SE3.tw a)) (J R k : Fin 6) :
    HasDerivAt (fun t => (SE3.dr_exp (shift a k t)) J R)
      ((SE3.d2r_exp a) R ⟨6 * J.val + k.val, by have := J.isLt; have := k.isLt; omega⟩) 0 :=
  C05SE3H.d2rExp_hasDerivAt a h J R k

/-- SE3 `d2r_expinv` is the derivative of `dr_expinv`, closed branch (`eps2 < |w|²`, `sin θ ≠ 0`), all
    216 entries; the `−J⁻¹QJ⁻¹` block goes through the code's two `d_matrix_product` calls. -/
theorem se3_d2rExpinv_hasDerivAt (a : Vec ℝ 6) (h : Scalar.eps2 < sqNorm (SE3.tw a))
    (hs : Real.sin (Real.sqrt (sqNorm (SE3.tw a))) ≠ 0) (J R k : Fin 6) :
    HasDerivAt (fun t => (SE3.dr_expinv (shift a k t)) J R)
      ((SE3.d2r_expinv a) R ⟨6 * J.val + k.val, by have := J.isLt; have := k.isLt; omega⟩) 0 :=
  C05SE3Hinv.d2rExpinv_hasDerivAt a h hs J R k

/-- non-vacuity: `a = (5, −7, 11; 1, 0, 0)`: `θ = 1` -/
example : Scalar.eps2 < sqNorm (SE3.tw (SE3.mk6 (mk3 (5:ℝ) (-7) 11) (mk3 1 0 0))) ∧
    Real.sin (Real.sqrt (sqNorm (SE3.tw (SE3.mk6 (mk3 (5:ℝ) (-7) 11) (mk3 1 0 0))))) ≠ 0 := by
  have : SE3.tw (SE3.mk6 (mk3 (5:ℝ) (-7) 11) (mk3 1 0 0)) = mk3 1 0 0 := by
    ext i; fin_cases i <;> rfl
  have h : sqNorm (mk3 (1:ℝ) 0 0) = 1 := by simp [C04Alg.sqNorm3, mk3]
  rw [this, h, C04SO3.eps2_real, Real.sqrt_one]
  exact ⟨by norm_num, (Real.sin_pos_of_pos_of_lt_pi one_pos (by linarith [Real.two_le_pi])).ne'⟩

/-! ### SO3 -/

/-- SO3 `d2r_exp` is the derivative of `dr_exp`, closed-form branch (`eps2 < θ²`), all 27 entries:
    `H[r, 3·j + k] = ∂J[j,r]/∂a_k`. -/
theorem so3_d2rExp_hasDerivAt (a : Vec ℝ 3) (h : Scalar.eps2 < sqNorm a) (j r k : Fin 3) :
    HasDerivAt (fun t => (SO3.dr_exp (shift a k t)) j r)
      ((SO3.d2r_exp a) r ⟨3 * j.val + k.val, by have := j.isLt; have := k.isLt; omega⟩) 0 :=
  C05SO3.d2rExp_hasDerivAt a h j r k

/-- non-vacuity: `a = (1, 0, 0)` -/
example : Scalar.eps2 < sqNorm (mk3 (1:ℝ) 0 0) := by
  have h : sqNorm (mk3 (1:ℝ) 0 0) = 1 := by simp [C04Alg.sqNorm3, mk3]
  rw [h, C04SO3.eps2_real]; norm_num

/-- SO3 `d2r_expinv` is the derivative of `dr_expinv`, closed-form branch (`eps2 < θ²`, `sin θ ≠ 0`),
    all 27 entries. -/
theorem so3_d2rExpinv_hasDerivAt (a : Vec ℝ 3) (h : Scalar.eps2 < sqNorm a)
    (hs : Real.sin (Real.sqrt (sqNorm a)) ≠ 0) (j r k : Fin 3) :
    HasDerivAt (fun t => (SO3.dr_expinv (shift a k t)) j r)
      ((SO3.d2r_expinv a) r ⟨3 * j.val + k.val, by have := j.isLt; have := k.isLt; omega⟩) 0 :=
  C05SO3.d2rExpinv_hasDerivAt a h hs j r k

/-- non-vacuity: `a = (1, 0, 0)`: `θ = 1`, `sin 1 ≠ 0` -/
example : Scalar.eps2 < sqNorm (mk3 (1:ℝ) 0 0) ∧ Real.sin (Real.sqrt (sqNorm (mk3 (1:ℝ) 0 0))) ≠ 0 := by
  have h : sqNorm (mk3 (1:ℝ) 0 0) = 1 := by simp [C04Alg.sqNorm3, mk3]
  rw [h, C04SO3.eps2_real, Real.sqrt_one]
  exact ⟨by norm_num,
    (Real.sin_pos_of_pos_of_lt_pi one_pos (by linarith [Real.two_le_pi])).ne'⟩

/-! ### SE2 -/

/-- SE2 `d2r_exp` is the derivative of `dr_exp`, closed-form branch (`eps2 < θ²`, `θ = a_2`),
    all 27 entries. -/
theorem se2_d2rExp_hasDerivAt (a : Vec ℝ 3) (h : Scalar.eps2 < a 2 * a 2) (j r k : Fin 3) :
    HasDerivAt (fun t => (SE2.dr_exp (shift a k t)) j r)
      ((SE2.d2r_exp a) r ⟨3 * j.val + k.val, by have := j.isLt; have := k.isLt; omega⟩) 0 :=
  C05SE2.d2rExp_hasDerivAt a h j r k

/-- SE2 `d2r_expinv` is the derivative of `dr_expinv`, closed-form branch, all 27 entries. -/
theorem se2_d2rExpinv_hasDerivAt (a : Vec ℝ 3) (h : Scalar.eps2 < a 2 * a 2)
    (hs : Real.sin (a 2) ≠ 0) (j r k : Fin 3) :
    HasDerivAt (fun t => (SE2.dr_expinv (shift a k t)) j r)
      ((SE2.d2r_expinv a) r ⟨3 * j.val + k.val, by have := j.isLt; have := k.isLt; omega⟩) 0 :=
  C05SE2.d2rExpinv_hasDerivAt a h hs j r k

/-- non-vacuity: `a = (2, 3, 1)` -/
example : Scalar.eps2 < (mk3 (2:ℝ) 3 1) 2 * (mk3 (2:ℝ) 3 1) 2 ∧ Real.sin ((mk3 (2:ℝ) 3 1) 2) ≠ 0 := by
  refine ⟨?_, ?_⟩
  · show Scalar.eps2 < (1:ℝ) * 1
    rw [C04SO3.eps2_real]; norm_num
  · show Real.sin 1 ≠ 0
    exact (Real.sin_pos_of_pos_of_lt_pi one_pos (by linarith [Real.two_le_pi])).ne'

/-! ### small-angle (series) branches: the returned coefficient derivatives are the derivatives of
    the returned coefficients -/

/-- SE2 `d2r_exp`, `wz² < eps2`: `dA_dwz = d/dwz (1/2 − wz²/24)`, `dB_dwz = d/dwz (1/6 − wz²/120)`.
    (False for the pre-fix coefficient `−wz/48`.) -/
theorem se2_d2rExp_series_consistent {wz : ℝ} (h : wz * wz < Scalar.eps2) :
    HasDerivAt (fun w => (SE2.d2rExpCoef w).1) (SE2.d2rExpCoef wz).2.2.1 wz ∧
    HasDerivAt (fun w => (SE2.d2rExpCoef w).2.1) (SE2.d2rExpCoef wz).2.2.2 wz :=
  C05Series.se2_d2rExp_series_consistent h

/-- SO3 `d2r_exp`, `θ² < eps2`: `θ·dA_over_th = dA/dθ`, `θ·dB_over_th = dB/dθ`.
    (False for the pre-fix coefficient `−1/48`.) -/
theorem so3_d2rExp_series_consistent {θ : ℝ} (h : θ * θ < Scalar.eps2) :
    HasDerivAt (fun w => (SO3.d2rExpCoef (w * w)).1) (θ * (SO3.d2rExpCoef (θ * θ)).2.2.1) θ ∧
    HasDerivAt (fun w => (SO3.d2rExpCoef (w * w)).2.1) (θ * (SO3.d2rExpCoef (θ * θ)).2.2.2) θ :=
  C05Series.so3_d2rExp_series_consistent h

/-- SO3 `d2r_expinv`, `θ² < eps2`: `θ·dA_over_th = dA/dθ`. -/
theorem so3_d2rExpinv_series_consistent {θ : ℝ} (h : θ * θ < Scalar.eps2) :
    HasDerivAt (fun w => (SO3.d2rExpinvCoef (w * w)).1) (θ * (SO3.d2rExpinvCoef (θ * θ)).2) θ :=
  C05Series.so3_d2rExpinv_series_consistent h

/-- non-vacuity of the series-branch hypotheses: `wz = 1/100000` -/
example : (1 / 100000 : ℝ) * (1 / 100000) < Scalar.eps2 := by
  rw [C04SO3.eps2_real]; norm_num

/-- NEGATION (observation on se2.hpp:252-256,282): in the series branch of SE2 `d2r_expinv` the
    returned `dA_dwz = 1/360` is not the derivative of the returned `A = 1/12 + wz²/720` (which is
    `wz/360`), for every `wz` of the branch.  The induced Hessian error is
    `(1/360 − wz/360)·ad²[j,r]`, about `3e-6` relative — inside the property's tolerance. -/
theorem se2_d2rExpinv_small_angle_coefficient_wrong {wz : ℝ} (h : wz * wz < Scalar.eps2) :
    ¬ HasDerivAt (fun w => (SE2.d2rExpinvCoef w).1) (SE2.d2rExpinvCoef wz).2 wz :=
  C05Series.se2_d2rExpinv_small_angle_coefficient_wrong h

theorem se2_d2rExpinv_series_inconsistent {wz : ℝ} (h : wz * wz < Scalar.eps2) :
    HasDerivAt (fun w => (SE2.d2rExpinvCoef w).1) (wz / 360) wz ∧
    (SE2.d2rExpinvCoef wz).2 = 1 / 360 ∧ wz / 360 ≠ 1 / 360 :=
  C05Series.se2_d2rExpinv_series_inconsistent h

/-- size of the effect of that constant on the Hessian: the code adds `(1/360)·ad²[j,r]` where the
    derivative of its own `A` requires `(wz/360)·ad²[j,r]`; the difference is at most `|ad²[j,r]|/359`
    with `ad² = [[−θ², 0, θx],[0, −θ², θy],[0,0,0]]`, i.e. `O(θ·|a|)` (≤ 2.8e-7·|a| in the branch). -/
theorem se2_d2rExpinv_series_error (a : Vec ℝ 3) (h : a 2 * a 2 < Scalar.eps2) (j r : Fin 3) :
    |(SE2.d2rExpinvCoef (a 2)).2 * (mmul (SE2.ad a) (SE2.ad a)) j r
        - (a 2 / 360) * (mmul (SE2.ad a) (SE2.ad a)) j r|
      ≤ |(mmul (SE2.ad a) (SE2.ad a)) j r| / 359 :=
  C05SE2.d2rExpinv_series_error a h j r

theorem se2_ad_sq (a : Vec ℝ 3) :
    mmul (SE2.ad a) (SE2.ad a)
      = mat3 (-(a 2 * a 2)) 0 (a 2 * a 0) 0 (-(a 2 * a 2)) (a 2 * a 1) 0 0 0 :=
  C05SE2.ad_sq a

/-! ### `d2r_taylor_bound`: series-branch Hessians vs the closed-form formula -/

/-- SO3 `d2r_exp`, series branch (`0 < θ² < eps2`): every entry is within
    `θ⁴/700·|E_k| + θ⁴/5000·|E_kM+ME_k| + θ²/170·|a_k M| + θ²/1000·|a_k M²|` (entries `(j,r)`) of the
    closed-branch formula `so3HessClosed` evaluated at the same `a` (which is the true derivative of the
    closed-form Jacobian; `so3HessClosed_eq` + `so3_d2rExp_hasDerivAt`). With `θ < 1e-4`, `|a_k| ≤ θ`:
    ≤ about `1e-13` absolute. -/
theorem so3_d2r_taylor_bound (a : Vec ℝ 3) (h0 : 0 < sqNorm a) (h1 : sqNorm a < Scalar.eps2)
    (j r k : Fin 3) :
    |(SO3.d2r_exp a) r ⟨3 * j.val + k.val, by have := j.isLt; have := k.isLt; omega⟩
        - C05TaylorH.so3HessClosed a j r k|
      ≤ sqNorm a ^ 2 / 700 * |(SO3.hat (C05SO3.e k)) j r| + sqNorm a ^ 2 / 5000 * |(C05SO3.EM a k) j r|
        + sqNorm a / 170 * |a k * (SO3.hat a) j r|
        + sqNorm a / 1000 * |a k * (mmul (SO3.hat a) (SO3.hat a)) j r| :=
  C05TaylorH.so3_d2rExp_series_bound a h0 h1 j r k

theorem so3HessClosed_eq (a : Vec ℝ 3) (h : Scalar.eps2 < sqNorm a) (j r k : Fin 3) :
    (SO3.d2r_exp a) r ⟨3 * j.val + k.val, by have := j.isLt; have := k.isLt; omega⟩
      = C05TaylorH.so3HessClosed a j r k :=
  C05TaylorH.so3HessClosed_eq a h j r k

/-- SE2 `d2r_exp`, series branch (`θ = a_2 ≠ 0`, `θ² < eps2`). This bound closes with the FIXED
    coefficient `−θ/12`; with the former `−θ/48` the third term would be `θ/16`, not `|θ|³/170`. -/
theorem se2_d2r_taylor_bound (a : Vec ℝ 3) (h0 : a 2 ≠ 0) (h1 : a 2 * a 2 < Scalar.eps2)
    (j r k : Fin 3) :
    |(SE2.d2r_exp a) r ⟨3 * j.val + k.val, by have := j.isLt; have := k.isLt; omega⟩
        - C05TaylorH.se2HessClosed a j r k|
      ≤ (a 2) ^ 4 / 700 * |(SE2.ad (C05SO3.e k)) j r| + (a 2) ^ 4 / 5000 * |(C05SE2.EM a k) j r|
        + |a 2| ^ 3 / 170 * |(C05SO3.e k) 2 * (SE2.ad a) j r|
        + |a 2| ^ 3 / 1000 * |(C05SO3.e k) 2 * (mmul (SE2.ad a) (SE2.ad a)) j r| :=
  C05TaylorH.se2_d2rExp_series_bound a h0 h1 j r k

theorem se2HessClosed_eq (a : Vec ℝ 3) (h : Scalar.eps2 < a 2 * a 2) (j r k : Fin 3) :
    (SE2.d2r_exp a) r ⟨3 * j.val + k.val, by have := j.isLt; have := k.isLt; omega⟩
      = C05TaylorH.se2HessClosed a j r k :=
  C05TaylorH.se2HessClosed_eq a h j r k

/-- the four coefficient bounds behind both (`A, B, dA/θ, dB/θ`; `0 < θ ≤ 1/10`) -/
theorem d2r_coefficient_taylor (θ : ℝ) (h0 : 0 < θ) (h1 : θ ≤ 1 / 10) :
    |(1 - Real.cos θ) / θ ^ 2 - (1 / 2 - θ ^ 2 / 24)| ≤ θ ^ 4 / 700 ∧
    |(θ - Real.sin θ) / θ ^ 3 - (1 / 6 - θ ^ 2 / 120)| ≤ θ ^ 4 / 5000 ∧
    |(Real.sin θ / θ ^ 3 + 2 * Real.cos θ / θ ^ 4 - 2 / θ ^ 4) - (-1 / 12)| ≤ θ ^ 2 / 170 ∧
    |(-Real.cos θ / θ ^ 4 - 2 / θ ^ 4 + 3 * Real.sin θ / θ ^ 5) - (-1 / 60)| ≤ θ ^ 2 / 1000 :=
  ⟨C05Taylor.A_taylor θ h0 h1, C05Taylor.B_taylor θ h0 h1, C05Taylor.dA_taylor θ h0 h1,
    C05Taylor.dB_taylor θ h0 h1⟩

/-- non-vacuity: `a = (0, 0, 1e-5)` is in the series branch with `a_2 ≠ 0` -/
example : (0:ℝ) < sqNorm (mk3 (0:ℝ) 0 (1 / 100000)) ∧ sqNorm (mk3 (0:ℝ) 0 (1 / 100000)) < Scalar.eps2 ∧
    (mk3 (0:ℝ) 0 (1 / 100000)) 2 ≠ 0 := by
  have h : sqNorm (mk3 (0:ℝ) 0 (1 / 100000)) = 1 / 10000000000 := by
    simp [C04Alg.sqNorm3, mk3]; norm_num
  rw [h, C04SO3.eps2_real]
  refine ⟨by norm_num, by norm_num, ?_⟩
  show (1 / 100000 : ℝ) ≠ 0
  norm_num

/-! ### every Bundle composition -/

/-- `G.d2r_exp a` holds all partial derivatives of `G.dr_exp` at `a`:
    `H[r, D·j + k] = ∂J[j,r]/∂a_k` for all `j r k` -/
abbrev HessAt : C04Bundle.PointProp := C05Bundle.HessAt
/-- the same for `d2r_expinv` / `dr_expinv` -/
abbrev HessInvAt : C04Bundle.PointProp := C05Bundle.HessInvAt

theorem hessAt_iff (G : LieModel ℝ) (a : Vec ℝ G.dof) :
    HessAt G a ↔ ∀ (j r k : Fin G.dof), HasDerivAt (fun t => (G.dr_exp (shift a k t)) j r)
      ((G.d2r_exp a) r ⟨G.dof * j.val + k.val, C06.col_lt j.isLt k.isLt⟩) 0 := Iff.rfl

/-- Bundle: the Hessian statement lifts from the parts to `Bundle.bundle ps` (block-diagonal Jacobian,
    `hessPlace` placement `H[off+r, D(off+j)+off+k] = Hᵢ[r, dᵢ j + k]`, zero cross blocks), for any
    list of parts — order, repetition, nesting. -/
theorem bundle_d2rExp_hasDerivAt (ps : List (LieModel ℝ)) (a : Vec ℝ (Bundle.bundle ps).dof)
    (h : C04Bundle.AllParts HessAt ps a) : HessAt (Bundle.bundle ps) a :=
  C05Bundle.hessAt_bundle ps a h

theorem bundle_d2rExpinv_hasDerivAt (ps : List (LieModel ℝ)) (a : Vec ℝ (Bundle.bundle ps).dof)
    (h : C04Bundle.AllParts HessInvAt ps a) : HessInvAt (Bundle.bundle ps) a :=
  C05Bundle.hessInvAt_bundle ps a h

theorem prod_d2rExp_hasDerivAt (A B : LieModel ℝ) (a : Vec ℝ (A.dof + B.dof))
    (hA : HessAt A (Bundle.fst a)) (hB : HessAt B (Bundle.snd a)) : HessAt (Bundle.prod A B) a :=
  C05Bundle.hessAt_prod A B a hA hB

theorem prod_d2rExpinv_hasDerivAt (A B : LieModel ℝ) (a : Vec ℝ (A.dof + B.dof))
    (hA : HessInvAt A (Bundle.fst a)) (hB : HessInvAt B (Bundle.snd a)) :
    HessInvAt (Bundle.prod A B) a :=
  C05Bundle.hessInvAt_prod A B a hA hB

/-- the part facts that feed `AllParts`: closed branch of the non-commutative groups … -/
theorem so3_hessAt (a : Vec ℝ 3) (h : Scalar.eps2 < sqNorm a) : HessAt (SO3.model : LieModel ℝ) a :=
  fun j r k => so3_d2rExp_hasDerivAt a h j r k
theorem so3_hessInvAt (a : Vec ℝ 3) (h : Scalar.eps2 < sqNorm a)
    (hs : Real.sin (Real.sqrt (sqNorm a)) ≠ 0) : HessInvAt (SO3.model : LieModel ℝ) a :=
  fun j r k => so3_d2rExpinv_hasDerivAt a h hs j r k
theorem se2_hessAt (a : Vec ℝ 3) (h : Scalar.eps2 < a 2 * a 2) : HessAt (SE2.model : LieModel ℝ) a :=
  fun j r k => se2_d2rExp_hasDerivAt a h j r k
theorem se2_hessInvAt (a : Vec ℝ 3) (h : Scalar.eps2 < a 2 * a 2) (hs : Real.sin (a 2) ≠ 0) :
    HessInvAt (SE2.model : LieModel ℝ) a :=
  fun j r k => se2_d2rExpinv_hasDerivAt a h hs j r k
theorem se3_hessAt (a : Vec ℝ 6) (h : Scalar.eps2 < sqNorm (SE3.tw a)) :
    HessAt (SE3.model : LieModel ℝ) a :=
  fun j r k => se3_d2rExp_hasDerivAt a h j r k
theorem se3_hessInvAt (a : Vec ℝ 6) (h : Scalar.eps2 < sqNorm (SE3.tw a))
    (hs : Real.sin (Real.sqrt (sqNorm (SE3.tw a))) ≠ 0) : HessInvAt (SE3.model : LieModel ℝ) a :=
  fun j r k => se3_d2rExpinv_hasDerivAt a h hs j r k

/-- … and the commutative groups / vectors / scalars everywhere (constant `J = I`, `H = 0`). -/
theorem comm_hessAt :
    (∀ a, HessAt (SO2.model : LieModel ℝ) a ∧ HessInvAt (SO2.model : LieModel ℝ) a) ∧
    (∀ a, HessAt (C1.model : LieModel ℝ) a ∧ HessInvAt (C1.model : LieModel ℝ) a) ∧
    (∀ (n : Nat) a, HessAt (Tn.model n : LieModel ℝ) a ∧ HessInvAt (Tn.model n : LieModel ℝ) a) :=
  ⟨fun a => ⟨C05Bundle.isHessOf_const _ _ a _ (fun _ => rfl) rfl,
      C05Bundle.isHessOf_const _ _ a _ (fun _ => rfl) rfl⟩,
   fun a => ⟨C05Bundle.isHessOf_const _ _ a _ (fun _ => rfl) rfl,
      C05Bundle.isHessOf_const _ _ a _ (fun _ => rfl) rfl⟩,
   fun _ a => ⟨C05Bundle.isHessOf_const _ _ a _ (fun _ => rfl) rfl,
      C05Bundle.isHessOf_const _ _ a _ (fun _ => rfl) rfl⟩⟩

/-- non-vacuity: the nested bundle `B[SO3, B[T2, SE2]]` at `a = (1,0,0 | 5,6 | 2,3,1)` -/
example : C04Bundle.AllParts HessAt
    [(SO3.model : LieModel ℝ), Bundle.bundle [(Tn.model 2 : LieModel ℝ), (SE2.model : LieModel ℝ)]]
    (vcat (mk3 (1:ℝ) 0 0) (vcat (vcat (mk2 (5:ℝ) 6) (vcat (mk3 (2:ℝ) 3 1) (vzero 0))) (vzero 0))) := by
  have h1 : Scalar.eps2 < sqNorm (mk3 (1:ℝ) 0 0) := by
    have h : sqNorm (mk3 (1:ℝ) 0 0) = 1 := by simp [C04Alg.sqNorm3, mk3]
    rw [h, C04SO3.eps2_real]; norm_num
  have h2 : Scalar.eps2 < (mk3 (2:ℝ) 3 1) 2 * (mk3 (2:ℝ) 3 1) 2 := by
    show Scalar.eps2 < (1:ℝ) * 1
    rw [C04SO3.eps2_real]; norm_num
  refine ⟨?_, ?_, trivial⟩
  · erw [C06.fst_vcat]; exact so3_hessAt _ h1
  · erw [C06.snd_vcat, C06.fst_vcat]
    refine C05Bundle.hessAt_bundle _ _ ⟨?_, ?_, trivial⟩
    · erw [C06.fst_vcat]; exact (comm_hessAt.2.2 2 _).1
    · erw [C06.snd_vcat, C06.fst_vcat]; exact se2_hessAt _ h2

/-! ### `d2r_rminus`, `d2r_rminus_squarednorm` -/

/-- `d2r_rminus(e)[r, n·j + k] = Σ_l d2r_expinv(e)[r, n·j + l] · dr_expinv(e)[l, k]` -/
theorem d2r_rminus_def (G : LieModel ℝ) (e : Vec ℝ G.dof) (r j k : Fin G.dof) :
    (Derivs.d2r_rminus G e) r (col j k)
      = ∑ l, (G.d2r_expinv e) r (col j l) * (G.dr_expinv e) l k :=
  C05Alg.d2r_rminus_entry G e r j k

/-- `d2r_rminus_squarednorm(e) = JᵀJ + Σ_j e_j·H_j`, `J = dr_expinv(e)`, `H_j` = block `j` of
    `d2r_rminus(e)` — the chain rule `d2_fog` for `½|·|² ∘ rminus`. -/
theorem d2r_rminus_squarednorm_def (G : LieModel ℝ) (e : Vec ℝ G.dof) (r c : Fin G.dof) :
    (Derivs.d2r_rminus_squarednorm G e) r c
      = (∑ q, (G.dr_expinv e) q r * (G.dr_expinv e) q c)
        + ∑ j, e j * (Derivs.d2r_rminus G e) r (col j c) :=
  C05Alg.d2r_rminus_squarednorm_entry G e r c

/-! ### left Hessians -/

/-- `d2l_exp a = −d2r_exp(−a)`, `d2l_expinv a = −d2r_expinv(−a)` for every group model. -/
theorem d2l_def (G : LieModel ℝ) (a : Vec ℝ G.dof) :
    G.d2l_exp a = mneg (G.d2r_exp (vneg a)) ∧ G.d2l_expinv a = mneg (G.d2r_expinv (vneg a)) :=
  ⟨rfl, rfl⟩

end C05
