/-
  SrcTieLogic — the non-Lie scalar / integer decision logic regenerated from the C++ source on every run
  (`SmoothModel/Gen/LogicSrc.lean`, written by tools/gen_logic.py from optim/tr_strategy.hpp, optim.hpp,
  detail/utils.hpp, spline/detail/bspline_impl.hpp, polynomial/basis.hpp, spline/detail/dubins_impl.hpp,
  spline/detail/reparameterize_impl.hpp) IS the hand-written model the theorems of C09, C13, C14 and C20 are about.  Every statement is over an arbitrary `[Scalar α]` (Float, Float32
  and ℝ alike) and is proved by unfolding and case analysis on the (decidable) branch conditions — no fact
  about the arithmetic of `α` is used.  A changed constant, comparison, sign, branch or operand order in the
  C++ makes the generated side differ and the proof fail.

  Theorem prefixes: `optim_` (C09), `search_`, `poly_` (C20), `bspline_` (C13), `dubins_`, `reparam_` (C14).
-/
import SmoothModel
import SmoothModel.Gen.LogicSrc

open Scalar Lin

namespace SrcTieLogic
variable {α : Type} [Scalar α]

/-! ## C09 — optim/tr_strategy.hpp, optim.hpp -/
section optim
open Optim

/-- `CeresStrategy{}`: `m_delta{10000}`, `m_reduce{2}` -/
theorem optim_ceres_init :
    (Strat.ceresInit : Strat α) = ⟨.ceres, LogicSrc.CeresStrategy_init_m_delta, LogicSrc.CeresStrategy_init_m_reduce⟩ := rfl

/-- `DisneyStrategy{}`: `m_delta{1000}` -/
theorem optim_disney_init :
    (Strat.disneyInit : Strat α).kind = .disney ∧ (Strat.disneyInit : Strat α).delta = LogicSrc.DisneyStrategy_init_m_delta :=
  ⟨rfl, rfl⟩

/-- `CeresStrategy::step_and_update(rho)` for a finite quotient `rho` (the model's `Rho.fin`; the values `±inf`, NaN
    of the IEEE quotient are the model's own explicit case analysis, see SmoothModel/Optim.lean) -/
theorem optim_ceres_step_and_update (d r x : α) :
    Strat.stepAndUpdate ⟨.ceres, d, r⟩ (.fin x) =
      (⟨.ceres, (LogicSrc.CeresStrategy_step_and_update d r x).1.1, (LogicSrc.CeresStrategy_step_and_update d r x).1.2⟩,
       (LogicSrc.CeresStrategy_step_and_update d r x).2) := by
  by_cases h : (nat 1 / nat 1000 : α) < x
  · simp only [Strat.stepAndUpdate, Rho.gt, LogicSrc.CeresStrategy_step_and_update, ceresDiv, h, decide_true, if_true]
  · simp only [Strat.stepAndUpdate, Rho.gt, LogicSrc.CeresStrategy_step_and_update, h, decide_false, if_false,
      Bool.false_eq_true]

/-- `DisneyStrategy::step_and_update(rho)` for a finite `rho` -/
theorem optim_disney_step_and_update (d r x : α) :
    Strat.stepAndUpdate ⟨.disney, d, r⟩ (.fin x) =
      (⟨.disney, (LogicSrc.DisneyStrategy_step_and_update d x).1, r⟩, (LogicSrc.DisneyStrategy_step_and_update d x).2) := by
  by_cases h : (nat 0 : α) < x
  · simp only [Strat.stepAndUpdate, Rho.gt, LogicSrc.DisneyStrategy_step_and_update, h, decide_true, if_true]
  · simp only [Strat.stepAndUpdate, Rho.gt, LogicSrc.DisneyStrategy_step_and_update, h, decide_false, if_false,
      Bool.false_eq_true]

/-- the enumerators of `SolveResult::Status` in declaration order -/
theorem optim_status_enum :
    [LogicSrc.Minimize_statusOfIndex 0, LogicSrc.Minimize_statusOfIndex 1, LogicSrc.Minimize_statusOfIndex 2,
     LogicSrc.Minimize_statusOfIndex 3] = [some Status.Ftol, some Status.Ptol, some Status.MaxIters, none] := rfl

omit [Scalar α] in
/-- loop guard `iter < opts.max_iter && !status.has_value()` -/
theorem optim_minimize_guard {X σ : Type} (opts : Opts α) (s : State X σ) :
    loopGuard opts s = true ↔ LogicSrc.Minimize_guard s.iter opts.maxIter s.status := by
  cases hs : s.status <;> simp [loopGuard, LogicSrc.Minimize_guard, hs]

/-- `return {.status = status.value_or(MaxIters), .iter = iter, …}` -/
theorem optim_minimize_result {X σ : Type} (s : State X σ) :
    ((finish s).status, (finish s).iter) = LogicSrc.Minimize_result s.status s.iter := rfl

/-- the diagonal-scaling clamp `std::clamp(el, 1e-6, 1e32)` -/
theorem optim_minimize_clamper (x : α) : clampScale x = LogicSrc.Minimize_clamper x := rfl

/-- `actu_red`, `pred_red` and `rho = actu_red / pred_red` of the loop body (plain quotient; the model wraps it in
    the IEEE case analysis `rhoOf`) -/
theorem optim_minimize_reductions (ftol ptol : α) (o : Obs α) (take : Bool) (st : Option Status) :
    (LogicSrc.Minimize_body ftol ptol o.rn o.fxpn o.linn o.ddxn o.n take st).1 = actuRed o ∧
    (LogicSrc.Minimize_body ftol ptol o.rn o.fxpn o.linn o.ddxn o.n take st).2.1 = predRed o ∧
    (LogicSrc.Minimize_body ftol ptol o.rn o.fxpn o.linn o.ddxn o.n take st).2.2.1 = actuRed o / predRed o := by
  unfold LogicSrc.Minimize_body actuRed predRed
  simp only []
  refine ⟨?_, ?_, ?_⟩ <;> (repeat' split) <;> rfl

/-- the accept condition `r_n == 0 || pred_red <= 0 || take_step` -/
theorem optim_minimize_accept (ftol ptol : α) (o : Obs α) (take : Bool) (st : Option Status) :
    (LogicSrc.Minimize_body ftol ptol o.rn o.fxpn o.linn o.ddxn o.n take st).2.2.2.1 = acceptRule o take := by
  unfold LogicSrc.Minimize_body acceptRule predRed IsZero
  simp only []
  by_cases h1 : (o.rn ≤ nat 0 ∧ nat 0 ≤ o.rn) <;> by_cases h2 : (nat 1 - sq (o.linn / o.rn) ≤ nat 0) <;> cases take <;>
    simp [h1, h2] <;> (repeat' split) <;> rfl

/-- Status chain and accept decision of one iteration: the model's `advance` decides what the generated loop body
    decides.  PARTIAL: the hypothesis excludes `pred_red == 0` with a non-zero residual, where the C++ quotient
    `rho` is `±inf`/NaN — values the generated definition over an arbitrary `α` cannot carry; there the model's
    explicit case analysis (`Optim.quot`, `Rho.le`) stands on its own (exercised by the T1 replay on Float). -/
theorem optim_minimize_body_partial {X σ : Type} (ops : StrategyOps σ α) (opts : Opts α) (s : State X σ) (o : Obs α) (xp xafter : X)
    (h : IsZero o.rn ∨ ¬ IsZero (predRed o)) :
    (advance ops opts s o xp xafter).1.status =
      (LogicSrc.Minimize_body opts.ftol opts.ptol o.rn o.fxpn o.linn o.ddxn o.n (ops.update s.strat (rhoOf o)).2 s.status).2.2.2.2 ∧
    (advance ops opts s o xp xafter).2.accepted =
      (LogicSrc.Minimize_body opts.ftol opts.ptol o.rn o.fxpn o.linn o.ddxn o.n (ops.update s.strat (rhoOf o)).2 s.status).2.2.2.1 := by
  generalize ht : (ops.update s.strat (rhoOf o)).2 = take
  have hr : ¬ IsZero o.rn → rhoOf o = .fin (actuRed o / predRed o) := by
    intro h0
    have hp : ¬ IsZero (predRed o) := h.resolve_left h0
    simp only [rhoOf, quot, if_neg h0, if_neg hp]
  unfold advance
  simp only [ht]
  by_cases h0 : IsZero o.rn
  · simp [LogicSrc.Minimize_body, acceptRule, ftolTest, zeroResidualConverged, h0]
  · rw [hr h0]
    by_cases h2 : predRed o ≤ nat 0 <;> cases take <;>
    by_cases h3 : Scalar.abs (actuRed o) < opts.ftol <;> by_cases h4 : predRed o < opts.ftol <;>
    by_cases h5 : actuRed o / predRed o ≤ nat 2 <;> by_cases h6 : o.ddxn < opts.ptol * nat o.n <;>
    simp [LogicSrc.Minimize_body, acceptRule, ftolTest, ptolTest, Rho.le, zeroResidualConverged, h0, h2, h3, h4, h5, h6] <;>
    simp_all [actuRed, predRed]

end optim

/-! ## C20 — detail/utils.hpp : binary_interval_search -/
section search

theorem search_floorNat_le (x : α) (b : Nat) : Search.floorNat x b ≤ b := by
  induction b with
  | zero => simp [Search.floorNat]
  | succ b ih => unfold Search.floorNat; split <;> omega

theorem search_pivot (r : Nat → α) (t : α) (left rght : Nat) (h : left + 1 < rght) :
    Search.clampPivot left rght (Search.interpPivot r t left rght) =
      left + Search.floorNat (((t - r left) / (r (rght - 1) - r left)) * nat (rght - 1 - left)) (rght - 2 - left) := by
  have := search_floorNat_le (((t - r left) / (r (rght - 1) - r left)) * nat (rght - 1 - left)) (rght - 2 - left)
  simp only [Search.clampPivot, Search.interpPivot, Nat.min_def, Nat.max_def]
  (repeat' split) <;> omega

theorem search_loop (r : Nat → α) (t : α) (fuel : Nat) : ∀ (left rght pivot iters calls chk : Nat), rght - left ≤ fuel →
    (Search.loop r t (Search.interpPivot r t) left rght pivot iters calls chk).idx =
      (LogicSrc.Search_binary_interval_search_loop r t fuel (left, rght, pivot)).2.2 := by
  induction fuel with
  | zero =>
    intro left rght pivot iters calls chk h
    rw [Search.loop]
    have : ¬ (left + 1 < rght) := by omega
    simp [this, LogicSrc.Search_binary_interval_search_loop]
  | succ fuel ih =>
    intro left rght pivot iters calls chk h
    rw [Search.loop]
    simp only [LogicSrc.Search_binary_interval_search_loop]
    by_cases hg : left + 1 < rght
    · have hp := search_pivot r t left rght hg
      have hb := search_floorNat_le (((t - r left) / (r (rght - 1) - r left)) * nat (rght - 1 - left)) (rght - 2 - left)
      simp only [hg, dite_true, if_true, hp]
      split
      · apply ih; omega
      · split
        · apply ih; omega
        · rfl
    · simp [hg]

theorem search_binary_interval_search (r : Nat → α) (n : Nat) (t : α) :
    (Search.search r n t (Search.interpPivot r t)).idx = LogicSrc.Search_binary_interval_search r n t := by
  unfold Search.search LogicSrc.Search_binary_interval_search
  by_cases h0 : n = 0
  · simp [h0]
  · by_cases h1 : t < r 0
    · simp [h0, h1]
    · by_cases h2 : r (n - 1) ≤ t
      · simp [h0, h1, h2]
      · simp only [h0, h1, h2, if_false, false_or]
        exact search_loop r t n 0 n 0 0 0 0 (by omega)

theorem search_searchInterp (xs : Array α) (t : α) :
    (Search.searchInterp xs t).idx = LogicSrc.Search_binary_interval_search (fun i => xs.getD i (nat 0)) xs.size t :=
  search_binary_interval_search _ _ _

end search

/-! ## C20 — polynomial/basis.hpp : integrate_absolute_polynomial -/
section poly

/-- `integrate_absolute_polynomial`.  PARTIAL in one respect: `Scalar` has no `+infinity`; the generated definition
    takes the value of `std::numeric_limits<double>::infinity()` as a parameter `inf` and the model encodes it as
    `none`.  The hypothesis is the only property of `+inf` the function uses: `std::clamp(+inf, lo, hi) = hi`. -/
theorem poly_integrate_absolute_polynomial_partial (inf t0 t1 A B C : α) (hinf : ∀ lo hi : α, Poly.clamp inf lo hi = hi) :
    LogicSrc.Poly_integrate_absolute_polynomial inf t0 t1 A B C = Poly.integrateAbs (nat 1 / nat 1000000000) t0 t1 A B C := by
  unfold LogicSrc.Poly_integrate_absolute_polynomial Poly.integrateAbs Poly.absPolyMids Poly.integ
  simp only []
  split
  · simp only [hinf]
  · split
    · split
      · rfl
      · simp only [hinf]
    · simp only [hinf]

end poly

/-! ## C20 — polynomial/basis.hpp : monomial_derivative(s) -/
section monoderiv
open Poly

/-- one iteration of the main loop of `monomial_derivative`: `P1 *= u; P2 *= i; P2 /= i - p; ret[0][i] = P1 * Scalar(P2)` -/
theorem poly_monoderiv_tail_step (K : Nat) (u : α) (p fuel i : Nat) (P1 : α) (P2 : Nat) :
    monoDerivLoop u p (fuel + 1) i P1 P2 =
      (LogicSrc.Poly_monoderiv_tail_step K p u i P1 P2).2.2 ::
        monoDerivLoop u p fuel ((LogicSrc.Poly_monoderiv_tail_step K p u i P1 P2).2.1 + 1)
          (LogicSrc.Poly_monoderiv_tail_step K p u i P1 P2).1.1 (LogicSrc.Poly_monoderiv_tail_step K p u i P1 P2).1.2 := rfl

/-- the factorial loop `for (j = 2; j <= p; ++j) P2 *= j` started from `P2 = 1` computes the model's `factorial p` -/
theorem poly_monoderiv_fact (K : Nat) (u P1 : α) (p : Nat) :
    factorial (p + 1) = LogicSrc.Poly_monoderiv_fact_step K (p + 1) u P1 (p + 1) (factorial p) ∧
    factorial 1 = (LogicSrc.Poly_monoderiv_init (α := α)).2 ∧
    LogicSrc.Poly_monoderiv_fact_range K p = (2, p + 1) := by
  refine ⟨?_, rfl, rfl⟩
  show (p + 1) * factorial p = factorial p * (p + 1)
  exact Nat.mul_comm _ _

/-- `if (p > K) { return ret; }` -/
theorem poly_monoderiv_zero_guard (K p : Nat) : LogicSrc.Poly_monoderiv_zero_guard K p ↔ K < p := Iff.rfl

/-- `monomial_derivative<K>(u, p)`: early return, leading zeros, entry `p`, and the main loop over `i = p+1 .. K` -/
theorem poly_monoDeriv (K : Nat) (u : α) (p : Nat) :
    monoDeriv K u p =
      if K < p then List.replicate (K + 1) (nat 0)   -- the guard: `poly_monoderiv_zero_guard`
      else
        List.replicate ((LogicSrc.Poly_monoderiv_head_range K p).2 - (LogicSrc.Poly_monoderiv_head_range K p).1)
            (LogicSrc.Poly_monoderiv_head_step K p u 0).2 ++
          ((LogicSrc.Poly_monoderiv_at_p p (LogicSrc.Poly_monoderiv_init (α := α)).1 (factorial p)).2 ::
            monoDerivLoop u p ((LogicSrc.Poly_monoderiv_tail_range K p).2 - (LogicSrc.Poly_monoderiv_tail_range K p).1)
              (LogicSrc.Poly_monoderiv_tail_range K p).1 (LogicSrc.Poly_monoderiv_init (α := α)).1 (factorial p)) := by
  unfold monoDeriv
  simp only [LogicSrc.Poly_monoderiv_head_range, LogicSrc.Poly_monoderiv_head_step,
    LogicSrc.Poly_monoderiv_at_p, LogicSrc.Poly_monoderiv_init, LogicSrc.Poly_monoderiv_tail_range, Nat.sub_zero,
    Nat.add_sub_add_right]

/-- `monomial_derivatives<K,P>(u)`: rows `p = 0 .. P` -/
theorem poly_monoDerivs (K P : Nat) (u : α) :
    monoDerivs K P u =
      (List.range ((LogicSrc.Poly_monoderivs_range P).2 - (LogicSrc.Poly_monoderivs_range P).1)).map
        (fun p => monoDeriv K u ((LogicSrc.Poly_monoderivs_range P).1 + p)) := by
  simp only [monoDerivs, LogicSrc.Poly_monoderivs_range, Nat.sub_zero, Nat.zero_add]

end monoderiv

/-! ## C13 — spline/detail/bspline_impl.hpp -/
section bspline
variable [ScalarTrunc α]

omit [Scalar α] [ScalarTrunc α] in
theorem bspline_t_min (K N : Nat) (t0 dt : α) : BSpline.t_min t0 = LogicSrc.BSpline_t_min K N t0 dt := rfl
omit [ScalarTrunc α] in
theorem bspline_t_max (K N : Nat) (t0 dt : α) : BSpline.t_max K N t0 dt = LogicSrc.BSpline_t_max K N t0 dt := rfl

theorem bspline_select (K N : Nat) (t0 dt t : α) :
    BSpline.select K N t0 dt t = ((LogicSrc.BSpline_select K N t0 dt t).1.toNat, (LogicSrc.BSpline_select K N t0 dt t).2) := by
  unfold BSpline.select LogicSrc.BSpline_select BSpline.rawIndex BSpline.clampQ
  simp only []
  generalize ScalarTrunc.trunc (BSpline.clamp ((t - t0) / dt) (-nat 1) (nat N)) = q
  have e : ((K + 1 : Nat) : Int) = (K : Int) + 1 := rfl
  by_cases h1 : q < 0
  · simp only [h1, if_true, Int.toNat_zero]
  · by_cases h2 : q + ((K : Int) + 1) > (N : Int)
    · simp only [h1, h2, e, if_true, if_false, Int.toNat_natCast]
    · simp only [h1, h2, e, if_false]

theorem bspline_eval_scaling (G : LieModel α) (K : Nat) (Bcum : Mat α (K + 1) (K + 1)) (t0 dt : α) (ctrl : List (Vec α G.rep)) (t : α) :
    BSpline.eval G K Bcum t0 dt ctrl t =
      (let sel := BSpline.select K ctrl.length t0 dt t
       let s := CSpline.eval_gs G (BSpline.window G.identity K ctrl sel.1) Bcum sel.2
       ⟨s.g, .of (fun i => s.vel i / LogicSrc.BSpline_vel_div dt), .of (fun i => s.acc i / LogicSrc.BSpline_acc_div dt)⟩) := rfl
end bspline

/-! ## C14 — spline/detail/dubins_impl.hpp -/
section dubins
open Dubins

/-- `dubins_angle(x1, x2, s)`: sign flip for right turns and the wrap `d >= 0 ? d : 2π + d` -/
theorem dubins_angle (x1 x2 : Vec α 2) (s : Seg) :
    Dubins.angle x1 x2 s = LogicSrc.Dubins_angle (so2minus x2 x1) s := by
  unfold Dubins.angle LogicSrc.Dubins_angle
  rfl

/-- the six candidate blocks of `dubins` in source order: calls, length formulas, stored descriptions -/
theorem dubins_candidates (target : Vec α 4) (R : α) :
    candidates target R =
      [LogicSrc.Dubins_cand1 target R, LogicSrc.Dubins_cand2 target R, LogicSrc.Dubins_cand3 target R,
       LogicSrc.Dubins_cand4 target R, LogicSrc.Dubins_cand5 target R, LogicSrc.Dubins_cand6 target R] := rfl

/-- `if (len < min_length)` of every block -/
theorem dubins_accept (len min_length : α) : LogicSrc.Dubins_accept len min_length ↔ len < min_length := Iff.rfl

/-- the scan starts from `min_length = +inf` -/
theorem dubins_scan (target : Vec α 4) (R : α) :
    Dubins.dubins target R =
      (scan (fun a b => decide (a < b)) LogicSrc.Dubins_min_length_init (candidates target R)).2 := rfl

/-- `dubins_curve`: the constant-velocity segment appended for each description entry -/
theorem dubins_emit (R : α) (c : Cand α) :
    emit R c = [LogicSrc.Dubins_emit R c.w.1 c.l.1, LogicSrc.Dubins_emit R c.w.2.1 c.l.2.1,
                LogicSrc.Dubins_emit R c.w.2.2 c.l.2.2] := by
  obtain ⟨⟨w1, w2, w3⟩, l, len⟩ := c
  cases w1 <;> cases w2 <;> cases w3 <;> rfl

/-- `dubins_ccc`: coincident-circle threshold, infeasibility test `4R < d13`, all angle formulas -/
theorem dubins_ccc (target : Vec α 4) (R : α) (c13 c2 : Seg) :
    Dubins.ccc target R c13 c2 = LogicSrc.Dubins_ccc target R c13 c2 := by
  unfold Dubins.ccc LogicSrc.Dubins_ccc sideR
  simp only [memoV_eq]
  cases c13 <;> rfl

/-- `dubins_csc`: coincident-circle threshold, infeasibility test `d13 < 2R`, tangent-angle formulas -/
theorem dubins_csc (target : Vec α 4) (R : α) (c1 c3 : Seg) :
    Dubins.csc target R c1 c3 = LogicSrc.Dubins_csc target R c1 c3 := by
  unfold Dubins.csc LogicSrc.Dubins_csc sideR
  simp only [memoV_eq]
  cases c1 <;> cases c3 <;> simp <;> (repeat' split) <;> rfl

end dubins

/-! ## C14 — spline/detail/reparameterize_impl.hpp -/
section reparam
open Reparam

theorem reparam_eps : (Reparam.eps : α) = LogicSrc.Reparam_eps := rfl

/-- lp2d status codes used by the model's `backward`: Optimal = 0, DualInfeasible = 2 -/
theorem reparam_lp_status :
    LogicSrc.Reparam_lp_status_index = [("Optimal", 0), ("PrimaryInfeasible", 1), ("DualInfeasible", 2)] := rfl

/-- `v2max(N)`: fold of the per-coordinate update over `j = 0 .. Dof-1` -/
theorem reparam_endV2 {n : Nat} (b : Bounds α n) (endVel : α) (p : Sample α n) (vi2 : α) :
    endV2 b endVel p =
      (List.finRange n).foldl (fun ret j =>
        LogicSrc.Reparam_endV2_step ret (p.vel j) (p.acc j) (b.vmax j) (b.vmin j) (b.amax j) (b.amin j) vi2)
        (LogicSrc.Reparam_endV2_init endVel) := rfl

/-- `ai`: fold of the per-coordinate update -/
theorem reparam_maxAcc {n : Nat} (b : Bounds α n) (ds v2next vi2 : α) (p : Sample α n) :
    maxAcc b ds v2next vi2 p =
      (List.finRange n).foldl (fun r j =>
        LogicSrc.Reparam_maxAcc_step r (p.vel j) (p.acc j) (b.vmax j) (b.vmin j) (b.amax j) (b.amin j) vi2)
        (LogicSrc.Reparam_maxAcc_init v2next vi2 ds) := rfl

/-- the rows of the linear programme, in the order of their indices `0`, `1 + j`, `1 + Dof + j`, `1 + 2 Dof + j` -/
theorem reparam_lpRows {n : Nat} (b : Bounds α n) (ds v2next : α) (p : Sample α n) :
    lpRows b ds v2next p =
      [LogicSrc.Reparam_lp_row0 ds v2next]
      ++ (List.finRange n).map (fun j => LogicSrc.Reparam_lp_row_vel (p.vel j) (p.acc j) (b.vmax j) (b.vmin j) (b.amax j) (b.amin j))
      ++ (List.finRange n).map (fun j => LogicSrc.Reparam_lp_row_acc_hi (p.vel j) (p.acc j) (b.vmax j) (b.vmin j) (b.amax j) (b.amin j))
      ++ (List.finRange n).map (fun j => LogicSrc.Reparam_lp_row_acc_lo (p.vel j) (p.acc j) (b.vmax j) (b.vmin j) (b.amax j) (b.amin j)) := rfl

omit [Scalar α] in
/-- row indices written by the C++ = positions in the concatenation above (blocks of length 1, Dof, Dof, Dof) -/
theorem reparam_lp_indices (dof j : Nat) :
    LogicSrc.Reparam_lp_idx_vel dof j = 1 + j ∧ LogicSrc.Reparam_lp_idx_acc_hi dof j = 1 + dof + j ∧
    LogicSrc.Reparam_lp_idx_acc_lo dof j = 1 + 2 * dof + j := ⟨rfl, rfl, rfl⟩

/-- backward pass: `v2max(i)` from the LP status / optimum -/
theorem reparam_backward (lpres : List (α × α × Nat)) (v2end : α) :
    backward lpres v2end = lpres.foldr (fun r acc => LogicSrc.Reparam_backward_value r.1 r.2.2 :: acc) [v2end] := rfl

/-- initial squared velocity of the forward pass -/
theorem reparam_v2m_init {n : Nat} (b : Bounds α n) (s0 ds startVel : α) (v2max : List α) (samples : List (Sample α n)) :
    forward b s0 ds startVel v2max samples =
      (samples.foldl (fstep b s0 ds v2max) (LogicSrc.Reparam_v2m_init startVel (v2max.headD (nat 0)), 0, [])).2.2 := rfl

/-- forward loop body: grid abscissa, `dt`, the emitted segment and the new `v2m` -/
theorem reparam_forward_step {n : Nat} (b : Bounds α n) (s0 ds : α) (v2max : List α) (st : α × Nat × List (SegOut α)) (p : Sample α n) :
    fwdStep b ds (s0 + ds * nat st.2.1) (v2max.getD (st.2.1 + 1) (nat 0)) st.1 p =
      LogicSrc.Reparam_forward_step s0 ds st.2.1 (maxAcc b ds (v2max.getD (st.2.1 + 1) (nat 0)) st.1 p) st.1 := by
  unfold fwdStep LogicSrc.Reparam_forward_step segDt mkSeg
  simp only []
  by_cases h : (Reparam.inf : α) ≤ maxAcc b ds (v2max.getD (st.2.1 + 1) (nat 0)) st.1 p
  · simp only [h, if_true, not_true_eq_false, if_false]
  · simp only [h, if_false, not_false_eq_true, if_true]
    rfl

end reparam
end SrcTieLogic
