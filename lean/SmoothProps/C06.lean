/-
  C06 — Bundle is the direct product; vectors and scalars are translation groups
  (property theorems).

  Model objects (SmoothModel/Bundle.lean, Groups.lean): `Bundle.prod A B` (binary product),
  `Bundle.bundle ps` (any list of part models, nested Bundles are lists containing `bundle qs`),
  `Bundle.psum` (= `utils::array_psum`), `Tn.model n` (detail/tn.hpp = lie_groups/rn.hpp =
  lie_groups/scalar.hpp for n = 1).  Helper lemmas: SmoothProofs/C06Base, C06Prod, C06List,
  C06Hess, C06Flatten, C06Iso, C06Assoc, C06Desc.

  Everything that involves no arithmetic is stated over ANY `[Scalar α]` (hence also for the
  executable `Float`/`Float32` instances); the Hessian placement needs `x + 0 = x` and is over ℝ.
-/
import SmoothProofs.C06Hess
import SmoothProofs.C06Flatten
import SmoothProofs.C06Desc

open Lin Scalar
set_option linter.unusedSectionVars false
set_option linter.unusedVariables false

namespace C06
variable {α : Type} [Scalar α]

/-! ## 1. The binary product `Bundle.prod A B` -/
section prod
variable (A B : LieModel α)

/-- sizes add, commutativity is the conjunction (`IsCommutative = (GsImpl::IsCommutative && ...)`) -/
theorem prod_sizes : (Bundle.prod A B).rep = A.rep + B.rep ∧ (Bundle.prod A B).dof = A.dof + B.dof ∧
    (Bundle.prod A B).dim = A.dim + B.dim ∧ (Bundle.prod A B).comm = (A.comm && B.comm) :=
  ⟨rfl, rfl, rfl, rfl⟩

/-- identity: the tuple of the identities -/
theorem prod_identity_parts :
    Bundle.fst (Bundle.prod A B).identity = A.identity ∧ Bundle.snd (Bundle.prod A B).identity = B.identity :=
  ⟨fst_vcat _ _, snd_vcat _ _⟩

/-- composition acts on the two parts separately -/
theorem prod_composition_parts (a b : Vec α (A.rep + B.rep)) :
    Bundle.fst ((Bundle.prod A B).composition a b) = A.composition (Bundle.fst a) (Bundle.fst b) ∧
    Bundle.snd ((Bundle.prod A B).composition a b) = B.composition (Bundle.snd a) (Bundle.snd b) :=
  ⟨fst_vcat _ _, snd_vcat _ _⟩

theorem prod_inverse_parts (g : Vec α (A.rep + B.rep)) :
    Bundle.fst ((Bundle.prod A B).inverse g) = A.inverse (Bundle.fst g) ∧
    Bundle.snd ((Bundle.prod A B).inverse g) = B.inverse (Bundle.snd g) :=
  ⟨fst_vcat _ _, snd_vcat _ _⟩

theorem prod_exp_parts (a : Vec α (A.dof + B.dof)) :
    Bundle.fst ((Bundle.prod A B).exp a) = A.exp (Bundle.fst a) ∧
    Bundle.snd ((Bundle.prod A B).exp a) = B.exp (Bundle.snd a) :=
  ⟨fst_vcat _ _, snd_vcat _ _⟩

theorem prod_log_parts (g : Vec α (A.rep + B.rep)) :
    Bundle.fst ((Bundle.prod A B).log g) = A.log (Bundle.fst g) ∧
    Bundle.snd ((Bundle.prod A B).log g) = B.log (Bundle.snd g) :=
  ⟨fst_vcat _ _, snd_vcat _ _⟩

/-- `M` is the block-diagonal arrangement of `X` and `Y`, stated entry by entry:
    the two diagonal blocks are `X` and `Y`, the two off-diagonal blocks are ZERO -/
structure IsBlockDiag {n m : Nat} (M : Mat α (n + m) (n + m)) (X : Mat α n n) (Y : Mat α m m) : Prop where
  tl : ∀ (i j : Fin (n + m)) (hi : i.val < n) (hj : j.val < n), M i j = X ⟨i.val, hi⟩ ⟨j.val, hj⟩
  br : ∀ (i j : Fin (n + m)) (hi : ¬ i.val < n) (hj : ¬ j.val < n),
    M i j = Y ⟨i.val - n, by omega⟩ ⟨j.val - n, by omega⟩
  tr : ∀ (i j : Fin (n + m)), i.val < n → ¬ j.val < n → M i j = nat 0
  bl : ∀ (i j : Fin (n + m)), ¬ i.val < n → j.val < n → M i j = nat 0

theorem bdiag_isBlockDiag {n m : Nat} (X : Mat α n n) (Y : Mat α m m) : IsBlockDiag (Bundle.bdiag X Y) X Y :=
  ⟨bdiag_tl X Y, bdiag_br X Y, bdiag_tr X Y, bdiag_bl X Y⟩

theorem prod_matrix_blockdiag (g : Vec α (A.rep + B.rep)) :
    IsBlockDiag ((Bundle.prod A B).matrix g) (A.matrix (Bundle.fst g)) (B.matrix (Bundle.snd g)) :=
  bdiag_isBlockDiag _ _

theorem prod_hat_blockdiag (a : Vec α (A.dof + B.dof)) :
    IsBlockDiag ((Bundle.prod A B).hat a) (A.hat (Bundle.fst a)) (B.hat (Bundle.snd a)) :=
  bdiag_isBlockDiag _ _

theorem prod_Ad_blockdiag (g : Vec α (A.rep + B.rep)) :
    IsBlockDiag ((Bundle.prod A B).Ad g) (A.Ad (Bundle.fst g)) (B.Ad (Bundle.snd g)) :=
  bdiag_isBlockDiag _ _

theorem prod_ad_blockdiag (a : Vec α (A.dof + B.dof)) :
    IsBlockDiag ((Bundle.prod A B).ad a) (A.ad (Bundle.fst a)) (B.ad (Bundle.snd a)) :=
  bdiag_isBlockDiag _ _

theorem prod_dr_exp_blockdiag (a : Vec α (A.dof + B.dof)) :
    IsBlockDiag ((Bundle.prod A B).dr_exp a) (A.dr_exp (Bundle.fst a)) (B.dr_exp (Bundle.snd a)) :=
  bdiag_isBlockDiag _ _

theorem prod_dr_expinv_blockdiag (a : Vec α (A.dof + B.dof)) :
    IsBlockDiag ((Bundle.prod A B).dr_expinv a) (A.dr_expinv (Bundle.fst a)) (B.dr_expinv (Bundle.snd a)) :=
  bdiag_isBlockDiag _ _

/-- `vee` of a block-diagonal matrix is the tuple of the parts' `vee` -/
theorem prod_vee_bdiag (X : Mat α A.dim A.dim) (Y : Mat α B.dim B.dim) :
    (Bundle.prod A B).vee (Bundle.bdiag X Y) = vcat (A.vee X) (B.vee Y) := by
  rw [prod_vee, tl_bdiag, br_bdiag]

/-- `vee (hat a)` on the product is `vee (hat ·)` on each part -/
theorem prod_vee_hat (a : Vec α (A.dof + B.dof)) :
    (Bundle.prod A B).vee ((Bundle.prod A B).hat a) =
      vcat (A.vee (A.hat (Bundle.fst a))) (B.vee (B.hat (Bundle.snd a))) := by
  rw [prod_hat, prod_vee_bdiag]

end prod

/-! ### Hessians of the binary product: placement `H[off+r, D(off+j)+off+k] = Hᵢ[r, d j + k]`, ℝ -/
section prodHess
variable (A B : LieModel ℝ)

/-- first part (block start 0): `H[r, D j + k] = H_A[r, d_A j + k]` -/
theorem prod_d2r_exp_fst (a : Vec ℝ (A.dof + B.dof)) (r j k : Fin A.dof) :
    (Bundle.prod A B).d2r_exp a (⟨r.val, by omega⟩ : Fin (A.dof + B.dof))
      (⟨(A.dof + B.dof) * j.val + k.val, col_lt (by omega) (by omega)⟩ : Fin ((A.dof + B.dof) * (A.dof + B.dof))) =
    A.d2r_exp (Bundle.fst a) r ⟨A.dof * j.val + k.val, col_lt j.isLt k.isLt⟩ := by
  rw [prod_d2r_exp_apply]
  exact placeSum_entry_fst _ _ _ _ r j k rfl rfl

/-- second part (block start `A.dof`): `H[d_A + r, D (d_A + j) + d_A + k] = H_B[r, d_B j + k]` -/
theorem prod_d2r_exp_snd (a : Vec ℝ (A.dof + B.dof)) (r j k : Fin B.dof) :
    (Bundle.prod A B).d2r_exp a (⟨A.dof + r.val, by omega⟩ : Fin (A.dof + B.dof))
      (⟨(A.dof + B.dof) * (A.dof + j.val) + (A.dof + k.val), col_lt (by omega) (by omega)⟩ :
        Fin ((A.dof + B.dof) * (A.dof + B.dof))) =
    B.d2r_exp (Bundle.snd a) r ⟨B.dof * j.val + k.val, col_lt j.isLt k.isLt⟩ := by
  rw [prod_d2r_exp_apply]
  exact placeSum_entry_snd _ _ _ _ r j k rfl rfl

/-- zero elsewhere: entries whose (row, outer column, inner column) are not all inside one and
    the same part's block vanish -/
theorem prod_d2r_exp_zero (a : Vec ℝ (A.dof + B.dof)) (R : Fin (A.dof + B.dof))
    (C : Fin ((A.dof + B.dof) * (A.dof + B.dof)))
    (hA : ¬ InBlock (A.dof + B.dof) 0 A.dof R C) (hB : ¬ InBlock (A.dof + B.dof) A.dof B.dof R C) :
    (Bundle.prod A B).d2r_exp a R C = 0 := by
  rw [prod_d2r_exp_apply]
  exact placeSum_zero _ _ R C hA hB

theorem prod_d2r_expinv_fst (a : Vec ℝ (A.dof + B.dof)) (r j k : Fin A.dof) :
    (Bundle.prod A B).d2r_expinv a (⟨r.val, by omega⟩ : Fin (A.dof + B.dof))
      (⟨(A.dof + B.dof) * j.val + k.val, col_lt (by omega) (by omega)⟩ : Fin ((A.dof + B.dof) * (A.dof + B.dof))) =
    A.d2r_expinv (Bundle.fst a) r ⟨A.dof * j.val + k.val, col_lt j.isLt k.isLt⟩ := by
  rw [prod_d2r_expinv_apply]
  exact placeSum_entry_fst _ _ _ _ r j k rfl rfl

theorem prod_d2r_expinv_snd (a : Vec ℝ (A.dof + B.dof)) (r j k : Fin B.dof) :
    (Bundle.prod A B).d2r_expinv a (⟨A.dof + r.val, by omega⟩ : Fin (A.dof + B.dof))
      (⟨(A.dof + B.dof) * (A.dof + j.val) + (A.dof + k.val), col_lt (by omega) (by omega)⟩ :
        Fin ((A.dof + B.dof) * (A.dof + B.dof))) =
    B.d2r_expinv (Bundle.snd a) r ⟨B.dof * j.val + k.val, col_lt j.isLt k.isLt⟩ := by
  rw [prod_d2r_expinv_apply]
  exact placeSum_entry_snd _ _ _ _ r j k rfl rfl

theorem prod_d2r_expinv_zero (a : Vec ℝ (A.dof + B.dof)) (R : Fin (A.dof + B.dof))
    (C : Fin ((A.dof + B.dof) * (A.dof + B.dof)))
    (hA : ¬ InBlock (A.dof + B.dof) 0 A.dof R C) (hB : ¬ InBlock (A.dof + B.dof) A.dof B.dof R C) :
    (Bundle.prod A B).d2r_expinv a R C = 0 := by
  rw [prod_d2r_expinv_apply]
  exact placeSum_zero _ _ R C hA hB

end prodHess

/-! ## 2. `Bundle.bundle ps` for ANY list of parts (order, repetition, nesting: a nested Bundle is
    a list entry `Bundle.bundle qs`) — induction over the list -/
section list
variable (ps : List (LieModel α))

/-- the start of part `i` in the coefficient / tangent / matrix layout is entry `i` of
    `utils::array_psum` of the corresponding size array (`RepSizesPsum`, `DofsPsum`, `DimsPsum`) -/
theorem part_offsets_are_psum (i : Nat) (h : i ≤ ps.length) :
    (Bundle.psum (ps.map LieModel.rep))[i]? = some (offs LieModel.rep ps i) ∧
    (Bundle.psum (ps.map LieModel.dof))[i]? = some (offs LieModel.dof ps i) ∧
    (Bundle.psum (ps.map LieModel.dim))[i]? = some (offs LieModel.dim ps i) :=
  ⟨offs_eq_psum _ ps i h, offs_eq_psum _ ps i h, offs_eq_psum _ ps i h⟩

/-- totals: `RepSize = RepSizesPsum.back()` etc., and every part lies inside the total -/
theorem part_layout_total :
    (Bundle.bundle ps).rep = offs LieModel.rep ps ps.length ∧
    (Bundle.bundle ps).dof = offs LieModel.dof ps ps.length ∧
    (Bundle.bundle ps).dim = offs LieModel.dim ps ps.length :=
  ⟨rep_total ps, dof_total ps, dim_total ps⟩

/-- `repPart ps i v` is the segment of `v` that starts at `offs rep ps i` (`part<i>()`) -/
theorem part_is_segment (i : Nat) (h : i < ps.length) (v : Vec α (Bundle.bundle ps).rep) (k : Fin (ps[i]).rep) :
    repPart ps i h v k = v ⟨offs LieModel.rep ps i + k.val, by have := rep_bound ps i h; omega⟩ := rfl

theorem bundle_part_identity (i : Nat) (h : i < ps.length) :
    repPart ps i h (Bundle.bundle ps).identity = (ps[i]).identity :=
  bundle_identity_part ps i h

theorem bundle_part_composition (i : Nat) (h : i < ps.length) (a b : Vec α (Bundle.bundle ps).rep) :
    repPart ps i h ((Bundle.bundle ps).composition a b) =
      (ps[i]).composition (repPart ps i h a) (repPart ps i h b) :=
  bundle_composition_part ps i h a b

theorem bundle_part_inverse (i : Nat) (h : i < ps.length) (g : Vec α (Bundle.bundle ps).rep) :
    repPart ps i h ((Bundle.bundle ps).inverse g) = (ps[i]).inverse (repPart ps i h g) :=
  bundle_inverse_part ps i h g

theorem bundle_part_exp (i : Nat) (h : i < ps.length) (a : Vec α (Bundle.bundle ps).dof) :
    repPart ps i h ((Bundle.bundle ps).exp a) = (ps[i]).exp (dofPart ps i h a) :=
  bundle_exp_part ps i h a

theorem bundle_part_log (i : Nat) (h : i < ps.length) (g : Vec α (Bundle.bundle ps).rep) :
    dofPart ps i h ((Bundle.bundle ps).log g) = (ps[i]).log (repPart ps i h g) :=
  bundle_log_part ps i h g

/-- `vee` reads the diagonal blocks only (any matrix `M`) -/
theorem bundle_part_vee (i : Nat) (h : i < ps.length) (M : Mat α (Bundle.bundle ps).dim (Bundle.bundle ps).dim) :
    dofPart ps i h ((Bundle.bundle ps).vee M) = (ps[i]).vee (dimBlock ps i i h h M) :=
  bundle_vee_part ps i h M

/-- `matrix`: diagonal block `i` is the part's matrix, every off-diagonal block is zero -/
theorem bundle_block_matrix (i j : Nat) (hi : i < ps.length) (hj : j < ps.length) (g : Vec α (Bundle.bundle ps).rep) :
    dimBlock ps i i hi hi ((Bundle.bundle ps).matrix g) = (ps[i]).matrix (repPart ps i hi g) ∧
    (i ≠ j → dimBlock ps i j hi hj ((Bundle.bundle ps).matrix g) = mzero _ _) :=
  ⟨bundle_matrix_diag ps i hi g, fun hij => bundle_matrix_offdiag ps i j hi hj hij g⟩

theorem bundle_block_hat (i j : Nat) (hi : i < ps.length) (hj : j < ps.length) (a : Vec α (Bundle.bundle ps).dof) :
    dimBlock ps i i hi hi ((Bundle.bundle ps).hat a) = (ps[i]).hat (dofPart ps i hi a) ∧
    (i ≠ j → dimBlock ps i j hi hj ((Bundle.bundle ps).hat a) = mzero _ _) :=
  ⟨bundle_hat_diag ps i hi a, fun hij => bundle_hat_offdiag ps i j hi hj hij a⟩

/-- `Ad`: the parts' API-level values (identity for commutative parts) on the diagonal -/
theorem bundle_block_Ad (i j : Nat) (hi : i < ps.length) (hj : j < ps.length) (g : Vec α (Bundle.bundle ps).rep) :
    dofBlock ps i i hi hi ((Bundle.bundle ps).Ad g) = (ps[i]).Ad (repPart ps i hi g) ∧
    (i ≠ j → dofBlock ps i j hi hj ((Bundle.bundle ps).Ad g) = mzero _ _) :=
  ⟨bundle_Ad_diag ps i hi g, fun hij => bundle_Ad_offdiag ps i j hi hj hij g⟩

theorem bundle_block_ad (i j : Nat) (hi : i < ps.length) (hj : j < ps.length) (a : Vec α (Bundle.bundle ps).dof) :
    dofBlock ps i i hi hi ((Bundle.bundle ps).ad a) = (ps[i]).ad (dofPart ps i hi a) ∧
    (i ≠ j → dofBlock ps i j hi hj ((Bundle.bundle ps).ad a) = mzero _ _) :=
  ⟨bundle_ad_diag ps i hi a, fun hij => bundle_ad_offdiag ps i j hi hj hij a⟩

theorem bundle_block_dr_exp (i j : Nat) (hi : i < ps.length) (hj : j < ps.length) (a : Vec α (Bundle.bundle ps).dof) :
    dofBlock ps i i hi hi ((Bundle.bundle ps).dr_exp a) = (ps[i]).dr_exp (dofPart ps i hi a) ∧
    (i ≠ j → dofBlock ps i j hi hj ((Bundle.bundle ps).dr_exp a) = mzero _ _) :=
  ⟨bundle_dr_exp_diag ps i hi a, fun hij => bundle_dr_exp_offdiag ps i j hi hj hij a⟩

theorem bundle_block_dr_expinv (i j : Nat) (hi : i < ps.length) (hj : j < ps.length) (a : Vec α (Bundle.bundle ps).dof) :
    dofBlock ps i i hi hi ((Bundle.bundle ps).dr_expinv a) = (ps[i]).dr_expinv (dofPart ps i hi a) ∧
    (i ≠ j → dofBlock ps i j hi hj ((Bundle.bundle ps).dr_expinv a) = mzero _ _) :=
  ⟨bundle_dr_expinv_diag ps i hi a, fun hij => bundle_dr_expinv_offdiag ps i j hi hj hij a⟩

/-- `IsCommutative` of a Bundle is the conjunction over its parts -/
theorem bundle_comm : (Bundle.bundle ps).comm = ps.all LieModel.comm := by
  induction ps with
  | nil => rfl
  | cons p ps ih =>
    show (p.comm && (Bundle.bundle ps).comm) = _
    rw [ih]; rfl

end list

/-! ## 2b. Nested Bundles have the coefficient layout — and the operations — of the flattened list -/
section nested

/-- layout (any `[Scalar α]`, each of the three size functions): equal totals; leaf `j` of the
    nested Bundle starts at the flat offset of leaf `|ps| + j` of the flattened list; the parts
    after the nested Bundle keep their offsets -/
theorem flatten_coeffs_layout (ps qs rs : List (LieModel α)) (j k : Nat) (hj : j ≤ qs.length) :
    ((Bundle.bundle (ps ++ Bundle.bundle qs :: rs)).rep = (Bundle.bundle (ps ++ (qs ++ rs))).rep ∧
     (Bundle.bundle (ps ++ Bundle.bundle qs :: rs)).dof = (Bundle.bundle (ps ++ (qs ++ rs))).dof ∧
     (Bundle.bundle (ps ++ Bundle.bundle qs :: rs)).dim = (Bundle.bundle (ps ++ (qs ++ rs))).dim) ∧
    (offs LieModel.rep (ps ++ Bundle.bundle qs :: rs) ps.length + offs LieModel.rep qs j
        = offs LieModel.rep (ps ++ (qs ++ rs)) (ps.length + j) ∧
     offs LieModel.dof (ps ++ Bundle.bundle qs :: rs) ps.length + offs LieModel.dof qs j
        = offs LieModel.dof (ps ++ (qs ++ rs)) (ps.length + j) ∧
     offs LieModel.dim (ps ++ Bundle.bundle qs :: rs) ps.length + offs LieModel.dim qs j
        = offs LieModel.dim (ps ++ (qs ++ rs)) (ps.length + j)) ∧
    (offs LieModel.rep (ps ++ Bundle.bundle qs :: rs) (ps.length + (1 + k))
        = offs LieModel.rep (ps ++ (qs ++ rs)) (ps.length + (qs.length + k)) ∧
     offs LieModel.dof (ps ++ Bundle.bundle qs :: rs) (ps.length + (1 + k))
        = offs LieModel.dof (ps ++ (qs ++ rs)) (ps.length + (qs.length + k)) ∧
     offs LieModel.dim (ps ++ Bundle.bundle qs :: rs) (ps.length + (1 + k))
        = offs LieModel.dim (ps ++ (qs ++ rs)) (ps.length + (qs.length + k))) :=
  ⟨⟨flatten_size sizeFn_rep ps qs rs, flatten_size sizeFn_dof ps qs rs, flatten_size sizeFn_dim ps qs rs⟩,
   ⟨flatten_offs_inside ps qs rs j hj, flatten_offs_inside ps qs rs j hj, flatten_offs_inside ps qs rs j hj⟩,
   ⟨flatten_offs_after sizeFn_rep ps qs rs k, flatten_offs_after sizeFn_dof ps qs rs k,
    flatten_offs_after sizeFn_dim ps qs rs k⟩⟩

/-- `flatten_coeffs` (ℝ): `Bundle (ps ++ [Bundle qs] ++ rs)` IS `Bundle (ps ++ qs ++ rs)` with every
    vector and matrix relabelled index for index (`LayoutIso`, SmoothProofs/C06Iso.lean): same sizes,
    same `IsCommutative`, and each of the 14 operations computes the same entries at the same flat
    positions -/
theorem flatten_coeffs (ps qs rs : List (LieModel ℝ)) :
    LayoutIso (Bundle.bundle (ps ++ Bundle.bundle qs :: rs)) (Bundle.bundle (ps ++ (qs ++ rs))) :=
  flatten_iso ps qs rs

/-- the product of two Bundles is the Bundle of the concatenation; products associate -/
theorem bundle_append_iso (qs rs : List (LieModel ℝ)) :
    LayoutIso (Bundle.prod (Bundle.bundle qs) (Bundle.bundle rs)) (Bundle.bundle (qs ++ rs)) :=
  bundle_append qs rs

theorem prod_assoc_iso (A B C : LieModel ℝ) :
    LayoutIso (Bundle.prod (Bundle.prod A B) C) (Bundle.prod A (Bundle.prod B C)) :=
  prod_assoc A B C

/-- nesting to ANY depth, for every descriptor list of the language used by driver and harness:
    `B[…]` is `LayoutIso` to the flat Bundle of its leaves -/
theorem flatten_all_depths (ds : List GDesc) :
    LayoutIso (Bundle.bundle (GDesc.models ds : List (LieModel ℝ)))
      (Bundle.bundle (GDesc.models (GDesc.leavesL ds))) :=
  GDesc.flatten_all ds

/-- spelled out for composition and for the Hessian: entry `k` of the nested result is entry `k`
    of the flat result on the relabelled inputs -/
theorem flatten_composition (ps qs rs : List (LieModel ℝ))
    (a b : Vec ℝ (Bundle.bundle (ps ++ Bundle.bundle qs :: rs)).rep)
    (k : Fin (Bundle.bundle (ps ++ Bundle.bundle qs :: rs)).rep) :
    (Bundle.bundle (ps ++ Bundle.bundle qs :: rs)).composition a b k =
      (Bundle.bundle (ps ++ (qs ++ rs))).composition
        (reidx (flatten_coeffs ps qs rs).sizes.1 a) (reidx (flatten_coeffs ps qs rs).sizes.1 b)
        ⟨k.val, by have := (flatten_coeffs ps qs rs).sizes.1; omega⟩ :=
  (flatten_coeffs ps qs rs).composition_eq a b k

theorem flatten_d2r_exp (ps qs rs : List (LieModel ℝ))
    (a : Vec ℝ (Bundle.bundle (ps ++ Bundle.bundle qs :: rs)).dof)
    (i : Fin (Bundle.bundle (ps ++ Bundle.bundle qs :: rs)).dof)
    (c : Fin ((Bundle.bundle (ps ++ Bundle.bundle qs :: rs)).dof * (Bundle.bundle (ps ++ Bundle.bundle qs :: rs)).dof)) :
    (Bundle.bundle (ps ++ Bundle.bundle qs :: rs)).d2r_exp a i c =
      (Bundle.bundle (ps ++ (qs ++ rs))).d2r_exp (reidx (flatten_coeffs ps qs rs).sizes.2.1 a)
        ⟨i.val, by have := (flatten_coeffs ps qs rs).sizes.2.1; omega⟩
        ⟨c.val, by have := sq_eq (flatten_coeffs ps qs rs).sizes.2.1; omega⟩ :=
  (flatten_coeffs ps qs rs).d2r_exp_eq a i c

end nested

/-! ### Hessians of `Bundle.bundle ps`, ℝ -/
section listHess
variable (ps : List (LieModel ℝ))

/-- placement for part `i`: `H[off+r, D(off+j)+off+k] = Hᵢ[r, dᵢ j + k]`, `off = DofsPsum[i]` -/
theorem bundle_hess_d2r_exp (i : Nat) (h : i < ps.length) (a : Vec ℝ (Bundle.bundle ps).dof) (r j k : Fin (ps[i]).dof) :
    (Bundle.bundle ps).d2r_exp a
      ⟨offs LieModel.dof ps i + r.val, by have := dof_bound ps i h; omega⟩
      ⟨(Bundle.bundle ps).dof * (offs LieModel.dof ps i + j.val) + (offs LieModel.dof ps i + k.val),
        col_lt (by have := dof_bound ps i h; omega) (by have := dof_bound ps i h; omega)⟩ =
    (ps[i]).d2r_exp (dofPart ps i h a) r ⟨(ps[i]).dof * j.val + k.val, col_lt j.isLt k.isLt⟩ :=
  d2rExpFamily.part ps i h a r.val j.val k.val r.isLt j.isLt k.isLt _ _ rfl rfl

/-- zero elsewhere -/
theorem bundle_hess_d2r_exp_zero (a : Vec ℝ (Bundle.bundle ps).dof) (R : Fin (Bundle.bundle ps).dof)
    (C : Fin ((Bundle.bundle ps).dof * (Bundle.bundle ps).dof)) (h : ¬ InSomeBlock ps R C) :
    (Bundle.bundle ps).d2r_exp a R C = 0 :=
  d2rExpFamily.zero ps a R C h

theorem bundle_hess_d2r_expinv (i : Nat) (h : i < ps.length) (a : Vec ℝ (Bundle.bundle ps).dof) (r j k : Fin (ps[i]).dof) :
    (Bundle.bundle ps).d2r_expinv a
      ⟨offs LieModel.dof ps i + r.val, by have := dof_bound ps i h; omega⟩
      ⟨(Bundle.bundle ps).dof * (offs LieModel.dof ps i + j.val) + (offs LieModel.dof ps i + k.val),
        col_lt (by have := dof_bound ps i h; omega) (by have := dof_bound ps i h; omega)⟩ =
    (ps[i]).d2r_expinv (dofPart ps i h a) r ⟨(ps[i]).dof * j.val + k.val, col_lt j.isLt k.isLt⟩ :=
  d2rExpinvFamily.part ps i h a r.val j.val k.val r.isLt j.isLt k.isLt _ _ rfl rfl

theorem bundle_hess_d2r_expinv_zero (a : Vec ℝ (Bundle.bundle ps).dof) (R : Fin (Bundle.bundle ps).dof)
    (C : Fin ((Bundle.bundle ps).dof * (Bundle.bundle ps).dof)) (h : ¬ InSomeBlock ps R C) :
    (Bundle.bundle ps).d2r_expinv a R C = 0 :=
  d2rExpinvFamily.zero ps a R C h

end listHess

/-! ## 3. Commutative short-cuts (`if constexpr (IsCommutative)` in LieGroupBase and BundleImpl) -/

/-- the API-level values of a commutative group: `Ad = dr_exp = dr_expinv = I`, `ad = 0`, `d2r_* = 0` -/
structure CommShortcut (G : LieModel α) : Prop where
  Ad : ∀ g, G.Ad g = ident G.dof
  ad : ∀ a, G.ad a = mzero G.dof G.dof
  dr_exp : ∀ a, G.dr_exp a = ident G.dof
  dr_expinv : ∀ a, G.dr_expinv a = ident G.dof
  d2r_exp : ∀ a, G.d2r_exp a = mzero G.dof (G.dof * G.dof)
  d2r_expinv : ∀ a, G.d2r_expinv a = mzero G.dof (G.dof * G.dof)

theorem so2_commShortcut : (SO2.model : LieModel α).comm = true ∧ CommShortcut (SO2.model : LieModel α) :=
  ⟨rfl, ⟨fun _ => rfl, fun _ => rfl, fun _ => rfl, fun _ => rfl, fun _ => rfl, fun _ => rfl⟩⟩

theorem c1_commShortcut : (C1.model : LieModel α).comm = true ∧ CommShortcut (C1.model : LieModel α) :=
  ⟨rfl, ⟨fun _ => rfl, fun _ => rfl, fun _ => rfl, fun _ => rfl, fun _ => rfl, fun _ => rfl⟩⟩

theorem tn_commShortcut (n : Nat) : (Tn.model n : LieModel α).comm = true ∧ CommShortcut (Tn.model n : LieModel α) :=
  ⟨rfl, ⟨fun _ => rfl, fun _ => rfl, fun _ => rfl, fun _ => rfl, fun _ => rfl, fun _ => rfl⟩⟩

/-- a product of commutative-short-cut parts has the short-cut values itself: the Bundle-level
    short-cut (`Bundle<…>::IsCommutative`) agrees with the block arrangement of the parts' -/
theorem prod_commShortcut {A B : LieModel ℝ} (hA : CommShortcut A) (hB : CommShortcut B) :
    CommShortcut (Bundle.prod A B) where
  Ad := fun g => by
    show Bundle.bdiag (A.Ad (Bundle.fst (n := A.rep) (m := B.rep) g)) (B.Ad (Bundle.snd (n := A.rep) (m := B.rep) g))
      = ident (A.dof + B.dof)
    rw [hA.Ad, hB.Ad, bdiag_ident]
  ad := fun a => by
    show Bundle.bdiag (A.ad (Bundle.fst (n := A.dof) (m := B.dof) a)) (B.ad (Bundle.snd (n := A.dof) (m := B.dof) a))
      = mzero (A.dof + B.dof) (A.dof + B.dof)
    rw [hA.ad, hB.ad, bdiag_mzero]
  dr_exp := fun a => by
    show Bundle.bdiag (A.dr_exp (Bundle.fst (n := A.dof) (m := B.dof) a)) (B.dr_exp (Bundle.snd (n := A.dof) (m := B.dof) a))
      = ident (A.dof + B.dof)
    rw [hA.dr_exp, hB.dr_exp, bdiag_ident]
  dr_expinv := fun a => by
    show Bundle.bdiag (A.dr_expinv (Bundle.fst (n := A.dof) (m := B.dof) a)) (B.dr_expinv (Bundle.snd (n := A.dof) (m := B.dof) a))
      = ident (A.dof + B.dof)
    rw [hA.dr_expinv, hB.dr_expinv, bdiag_ident]
  d2r_exp := fun a => by
    apply Mat.ext'
    intro (R : Fin (A.dof + B.dof)) (C : Fin ((A.dof + B.dof) * (A.dof + B.dof)))
    refine (prod_d2r_exp_apply A B a R C).trans ?_
    rw [hA.d2r_exp, hB.d2r_exp, hessPlace_mzero, hessPlace_mzero]
    simp [mzero, Mat.of]
  d2r_expinv := fun a => by
    apply Mat.ext'
    intro (R : Fin (A.dof + B.dof)) (C : Fin ((A.dof + B.dof) * (A.dof + B.dof)))
    refine (prod_d2r_expinv_apply A B a R C).trans ?_
    rw [hA.d2r_expinv, hB.d2r_expinv, hessPlace_mzero, hessPlace_mzero]
    simp [mzero, Mat.of]

theorem unit_commShortcut : CommShortcut (Bundle.unit : LieModel ℝ) where
  Ad := fun _ => by ext i; exact i.elim0
  ad := fun _ => by ext i; exact i.elim0
  dr_exp := fun _ => by ext i; exact i.elim0
  dr_expinv := fun _ => by ext i; exact i.elim0
  d2r_exp := fun _ => by ext i; exact i.elim0
  d2r_expinv := fun _ => by ext i; exact i.elim0

/-- a Bundle all of whose parts are commutative (vectors, scalars, SO2, C1, nested such Bundles) -/
theorem bundle_commShortcut (ps : List (LieModel ℝ)) (h : ∀ p ∈ ps, CommShortcut p) :
    CommShortcut (Bundle.bundle ps) := by
  induction ps with
  | nil => exact unit_commShortcut
  | cons p ps ih =>
    exact prod_commShortcut (h p (List.mem_cons_self ..)) (ih (fun q hq => h q (List.mem_cons_of_mem _ hq)))

/-! ## 4. Vectors and scalars are the additive group (`Tn.model n`, every `n`, static or run-time) -/
section tn
variable (n : Nat)

theorem tn_identity : (Tn.model n : LieModel α).identity = vzero n := rfl
/-- composition is `+`, entry by entry -/
theorem tn_composition (a b : Vec α n) (i : Fin n) : (Tn.model n : LieModel α).composition a b i = a i + b i := rfl
/-- inverse is `−` -/
theorem tn_inverse (g : Vec α n) (i : Fin n) : (Tn.model n : LieModel α).inverse g i = - g i := rfl
/-- exp and log are the identity map -/
theorem tn_exp (a : Vec α n) : (Tn.model n : LieModel α).exp a = a := rfl
theorem tn_log (g : Vec α n) : (Tn.model n : LieModel α).log g = g := rfl
/-- Ad and the exp-Jacobians are identity matrices -/
theorem tn_Ad (g : Vec α n) : (Tn.model n : LieModel α).Ad g = ident n := rfl
theorem tn_dr_exp (a : Vec α n) : (Tn.model n : LieModel α).dr_exp a = ident n := rfl
theorem tn_dr_expinv (a : Vec α n) : (Tn.model n : LieModel α).dr_expinv a = ident n := rfl
/-- hence also the left Jacobians `dl_exp(a) = dr_exp(−a)` -/
theorem tn_dl_exp (a : Vec α n) : (Tn.model n : LieModel α).dl_exp a = ident n ∧
    (Tn.model n : LieModel α).dl_expinv a = ident n := ⟨rfl, rfl⟩
/-- ad and the Hessians are zero -/
theorem tn_ad (a : Vec α n) : (Tn.model n : LieModel α).ad a = mzero n n := rfl
theorem tn_d2r_exp (a : Vec α n) : (Tn.model n : LieModel α).d2r_exp a = mzero n (n * n) := rfl
theorem tn_d2r_expinv (a : Vec α n) : (Tn.model n : LieModel α).d2r_expinv a = mzero n (n * n) := rfl
/-- sizes: `RepSize = Dof = n`, `Dim = n + 1`, commutative -/
theorem tn_sizes : (Tn.model n : LieModel α).rep = n ∧ (Tn.model n : LieModel α).dof = n ∧
    (Tn.model n : LieModel α).dim = n + 1 ∧ (Tn.model n : LieModel α).comm = true := ⟨rfl, rfl, rfl, rfl⟩

/-- over ℝ: `rplus`/`rminus` are `+`/`−` and the bracket vanishes -/
theorem tn_rplus_rminus_bracket (g h a b : Vec ℝ n) (i : Fin n) :
    (Tn.model n : LieModel ℝ).rplus g a i = g i + a i ∧
    (Tn.model n : LieModel ℝ).rminus g h i = g i - h i ∧
    (Tn.model n : LieModel ℝ).bracket a b i = 0 := by
  refine ⟨rfl, ?_, ?_⟩
  · show (-h i) + g i = g i - h i
    ring
  · show vsum n (fun l => (mzero n n : Mat ℝ n n) i l * b l) = 0
    have : ∀ (m : Nat) (f : Fin m → ℝ), (∀ l, f l = 0) → vsum m f = 0 := by
      intro m
      induction m with
      | zero => intro f _; simp [vsum]
      | succ m ih =>
        intro f hf
        show vsum m (fun l => f l.castSucc) + f (Fin.last m) = 0
        rw [ih _ (fun l => hf _), hf]; simp
    exact this n _ (fun l => by simp [mzero])

end tn

/-! ## 5. Non-vacuity: concrete compositions -/

/-- a mixed Bundle with a nested Bundle, repetition, commutative parts first/middle/last -/
noncomputable def exampleParts : List (LieModel ℝ) :=
  [Tn.model 2, SO3.model, Bundle.bundle [SE2.model, C1.model, SO3.model], SO2.model, SE3.model, Tn.model 1]

example : (Bundle.bundle exampleParts).rep = 26 ∧ (Bundle.bundle exampleParts).dof = 21 ∧
    (Bundle.bundle exampleParts).dim = 22 := ⟨rfl, rfl, rfl⟩
example : offs LieModel.rep exampleParts 2 = 6 ∧ offs LieModel.dof exampleParts 4 = 14 ∧
    offs LieModel.dim exampleParts 5 = 20 := ⟨rfl, rfl, rfl⟩
example : Bundle.psum (exampleParts.map LieModel.dof) = [0, 2, 5, 13, 14, 20, 21] := by
  simp [exampleParts, Bundle.psum, SO3.model, SE2.model, SE3.model, C1.model, SO2.model, Tn.model, Bundle.bundle, Bundle.prod, Bundle.unit]
example : (Bundle.bundle exampleParts).comm = false := rfl
/-- the theorems apply to it: the nested Bundle (part 2) composes by its own composition -/
example (a b : Vec ℝ (Bundle.bundle exampleParts).rep) :
    repPart exampleParts 2 (by decide) ((Bundle.bundle exampleParts).composition a b) =
      (Bundle.bundle [SE2.model, C1.model, SO3.model] : LieModel ℝ).composition
        (repPart exampleParts 2 (by decide) a) (repPart exampleParts 2 (by decide) b) :=
  bundle_part_composition exampleParts 2 (by decide) a b
/-- nesting: `B[T2,B[SE2,B[C1,T1]],SO3]` has the leaves `T2,SE2,C1,T1,SO3` -/
example : GDesc.leavesL [.tn 2, .bundle [.se2, .bundle [.c1, .tn 1]], .so3] = [.tn 2, .se2, .c1, .tn 1, .so3] := rfl
example : LayoutIso (Bundle.bundle (GDesc.models [.tn 2, .bundle [.se2, .bundle [.c1, .tn 1]], .so3] : List (LieModel ℝ)))
    (Bundle.bundle (GDesc.models [.tn 2, .se2, .c1, .tn 1, .so3])) :=
  flatten_all_depths [.tn 2, .bundle [.se2, .bundle [.c1, .tn 1]], .so3]
/-- an all-commutative Bundle (vectors, SO2, C1, nested) -/
example : CommShortcut (Bundle.bundle [Tn.model 3, SO2.model, Bundle.bundle [C1.model, Tn.model 1]] : LieModel ℝ) :=
  bundle_commShortcut _ (by
    intro p hp
    simp only [List.mem_cons, List.mem_nil_iff, or_false] at hp
    rcases hp with rfl | rfl | rfl
    · exact (tn_commShortcut 3).2
    · exact so2_commShortcut.2
    · exact bundle_commShortcut _ (by
        intro q hq
        simp only [List.mem_cons, List.mem_nil_iff, or_false] at hq
        rcases hq with rfl | rfl
        · exact c1_commShortcut.2
        · exact (tn_commShortcut 1).2))
/-- `InBlock`/`InSomeBlock` are inhabited and refutable: entry (0,0) of a 2-part Hessian is in
    block 0, entry (row 0, column `D·0 + 1`) with `d₀ = 1` is in no block -/
example : InBlock 4 0 1 (0 : Fin 4) (0 : Fin 16) := by decide
example : ¬ InBlock 4 0 1 (0 : Fin 4) (1 : Fin 16) ∧ ¬ InBlock 4 1 3 (0 : Fin 4) (1 : Fin 16) := by decide
/-- the additive group on a concrete vector -/
example : (Tn.model 2 : LieModel ℝ).composition (mk2 1 2) (mk2 3 (-5)) (1 : Fin 2) = -3 := by
  rw [tn_composition]; simp [mk2, Vec.of]; norm_num

end C06
