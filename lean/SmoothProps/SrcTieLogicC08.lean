/-
  SrcTieLogicC08 — `detail/diff_impl.hpp` regenerated from the C++ source on every run
  (`SmoothModel/Gen/LogicSrcC08.lean`, written by tools/gen_logic2.py) IS the hand-written model
  `SmoothModel/Diff.lean` the theorems of C08 are about: step-size rule (eps, `sqrt`/fourth root of the machine
  epsilon, the zero-coordinate fallback), the perturb / evaluate / quotient / restore schedule for K = 1 and the
  interleaved schedule for K = 2, the column offsets `I0 + j`, the Hessian layout `H(I0 + k0, j * nx + I1 + k1)`,
  and the dispatch chain of `dr<K, D>` including the concepts `diffable_order1/2`.

  All statements are over an arbitrary `[Scalar α]` and arbitrary `X`, `Y`, `f`, `rm`; the proofs unfold both sides and
  split on the (decidable) branch conditions — no fact about the arithmetic of `α` is used.

  Theorem prefix: `diff_`.
-/
import SmoothModel.Diff
import SmoothModel.Gen.LogicSrcC08
set_option linter.unusedSimpArgs false

open Scalar Lin

namespace SrcTieLogic
variable {α : Type} [Scalar α] {X Y : Type}

section diff
open Diff

/-- `const Scalar eps = sqrt(NumTraits<Scalar>::epsilon())` and, for K = 2, `sqrteps = sqrt(eps)` -/
theorem diff_eps : Diff.eps1 α = LogicSrc.Diff_eps ∧ Diff.eps2K α = Scalar.sqrt (LogicSrc.Diff_eps : α) := ⟨rfl, rfl⟩

omit [Scalar α] in
/-- `requires(K >= 1 && K <= 2)` -/
theorem diff_numerical_requires (K : Nat) : LogicSrc.Diff_numerical_requires K ↔ (K = 1 ∨ K = 2) := by
  unfold LogicSrc.Diff_numerical_requires; omega

/-- K = 1, one coordinate: step rule (with the `eps_j == 0` fallback to `eps`), perturbation `+eps_j e_j`, difference
    quotient written to column `I0 + j`, restoration `-eps_j e_j` -/
theorem diff_k1_coord (base : α) (rm : Y → Y → List α) (f : X → Y) (fval : Y) (s : Slot α X) (n I0 : Nat)
    (st : X × List (Nat × List α) × List X) (j : Nat) :
    coordStep1 base rm f fval s n I0 st j = LogicSrc.Diff_k1_w_j base rm f fval I0 s n st j := by
  unfold coordStep1 LogicSrc.Diff_k1_w_j stepSize isZero
  cases hc : s.coord with
  | none => rfl
  | some c =>
    simp only []
    by_cases h1 : base * Scalar.abs (c st.1 j) ≤ nat 0 <;> by_cases h2 : nat 0 ≤ base * Scalar.abs (c st.1 j) <;>
      simp [h1, h2]

/-- K = 1, one argument of the tuple: `nx_j = dof(w)` read once, all coordinates in order, `I0 += nx_j` -/
theorem diff_k1_slot (base : α) (rm : Y → Y → List α) (f : X → Y) (fval : Y)
    (st : X × Nat × List (Nat × List α) × List X) (s : Slot α X) :
    slotStep1 base rm f fval st s = LogicSrc.Diff_k1_w base rm f fval st s := by
  unfold slotStep1 LogicSrc.Diff_k1_w
  have : coordStep1 base rm f fval s (s.dof st.1) st.2.1 = LogicSrc.Diff_k1_w_j base rm f fval st.2.1 s (s.dof st.1) := by
    funext a b; exact diff_k1_coord ..
  simp only [this]

/-- `dr_numerical<1>` -/
theorem diff_k1 (base : α) (rm : Y → Y → List α) (f : X → Y) (slots : List (Slot α X)) (x : X) :
    drNumerical1 base rm f slots x = LogicSrc.Diff_k1 base rm f slots x := by
  unfold drNumerical1 LogicSrc.Diff_k1
  have : slotStep1 base rm f (f x) = LogicSrc.Diff_k1_w base rm f (f x) := by
    funext a b; exact diff_k1_slot ..
  simp only [this, List.nil_append]

/-- K = 2, innermost body: step rule for `eps1` (fallback `sqrteps`), the interleaved schedule `w1+, w0+, w0−, w1−`,
    the second difference `(rminus(F11, F01) − d1) / eps0 / eps1` and the layout `H(I0 + k0, j * nx + I1 + k1)` -/
theorem diff_k2_inner (base : α) (rm : Y → Y → List α) (f : X → Y) (nx : Nat) (s0 s1 : Slot α X)
    (n0 n1 I0 I1 k0 : Nat) (eps0 : α) (d1 : List α) (st : St2 α X) (k1 : Nat) :
    innerStep2 base rm f nx s0 s1 n0 n1 I0 I1 k0 eps0 d1 st k1 =
      LogicSrc.Diff_k2_w0_w1_k0_k1 rm f nx base I0 s0 n0 I1 s1 n1 k0 eps0 d1 st k1 := by
  unfold innerStep2 LogicSrc.Diff_k2_w0_w1_k0_k1 stepSize isZero
  cases hc : s1.coord with
  | none => simp
  | some c =>
    simp only []
    by_cases h1 : base * Scalar.abs (c st.x k1) ≤ nat 0 <;> by_cases h2 : nat 0 ≤ base * Scalar.abs (c st.x k1) <;>
      simp [h1, h2]

/-- K = 2, the `k0` loop body: step rule for `eps0`, first difference into column `I0 + k0`, then all `k1` -/
theorem diff_k2_mid (base : α) (rm : Y → Y → List α) (f : X → Y) (fval : Y) (nx : Nat) (s0 s1 : Slot α X)
    (n0 n1 I0 I1 : Nat) (st : St2 α X) (k0 : Nat) :
    midStep2 base rm f fval nx s0 s1 n0 n1 I0 I1 st k0 =
      LogicSrc.Diff_k2_w0_w1_k0 rm f nx fval base I0 s0 n0 I1 s1 n1 st k0 := by
  unfold midStep2 LogicSrc.Diff_k2_w0_w1_k0 stepSize isZero
  have hin : ∀ e d, innerStep2 base rm f nx s0 s1 n0 n1 I0 I1 k0 e d =
      LogicSrc.Diff_k2_w0_w1_k0_k1 rm f nx base I0 s0 n0 I1 s1 n1 k0 e d := by
    intro e d; funext a b; exact diff_k2_inner ..
  cases hc : s0.coord with
  | none => simp only [hin]
  | some c =>
    simp only [hin]
    by_cases h1 : base * Scalar.abs (c st.x k0) ≤ nat 0 <;> by_cases h2 : nat 0 ≤ base * Scalar.abs (c st.x k0) <;>
      simp [h1, h2]

/-- K = 2, inner `static_for` body: `nx_i1 = dof(w1)`, all `k0`, `I1 += nx_i1` -/
theorem diff_k2_slot1 (base : α) (rm : Y → Y → List α) (f : X → Y) (fval : Y) (nx : Nat) (s0 : Slot α X) (n0 I0 : Nat)
    (st : St2 α X × Nat) (s1 : Slot α X) :
    slot1Step2 base rm f fval nx s0 n0 I0 st s1 = LogicSrc.Diff_k2_w0_w1 rm f nx fval base I0 s0 n0 st s1 := by
  unfold slot1Step2 LogicSrc.Diff_k2_w0_w1
  have : midStep2 base rm f fval nx s0 s1 n0 (s1.dof st.1.x) I0 st.2 =
      LogicSrc.Diff_k2_w0_w1_k0 rm f nx fval base I0 s0 n0 st.2 s1 (s1.dof st.1.x) := by
    funext a b; exact diff_k2_mid ..
  simp only [this]

/-- K = 2, outer `static_for` body: `nx_i0 = dof(w0)`, `I1` restarts at 0, all `w1`, `I0 += nx_i0` -/
theorem diff_k2_slot0 (base : α) (rm : Y → Y → List α) (f : X → Y) (fval : Y) (nx : Nat) (slots : List (Slot α X))
    (st : St2 α X × Nat) (s0 : Slot α X) :
    slot0Step2 base rm f fval nx slots st s0 = LogicSrc.Diff_k2_w0 rm f slots nx fval base st s0 := by
  unfold slot0Step2 LogicSrc.Diff_k2_w0
  have : slot1Step2 base rm f fval nx s0 (s0.dof st.1.x) st.2 =
      LogicSrc.Diff_k2_w0_w1 rm f nx fval base st.2 s0 (s0.dof st.1.x) := by
    funext a b; exact diff_k2_slot1 ..
  simp only [this]

/-- `dr_numerical<2>`: the model run with `base` is the source run with `sqrteps = base` (`eps` itself is not used by
    the K = 2 block other than through `sqrteps = sqrt(eps)`) -/
theorem diff_k2 (eps : α) (rm : Y → Y → List α) (f : X → Y) (slots : List (Slot α X)) (x : X) :
    drNumerical2 (Scalar.sqrt eps) rm f slots x = LogicSrc.Diff_k2 eps rm f slots x := by
  unfold drNumerical2 LogicSrc.Diff_k2
  have : ∀ nx, slot0Step2 (Scalar.sqrt eps) rm f (f x) nx slots = LogicSrc.Diff_k2_w0 rm f slots nx (f x) (Scalar.sqrt eps) := by
    intro nx; funext a b; exact diff_k2_slot0 ..
  simp only [this, List.nil_append]

/-! ### dispatch of `dr<K, D>` -/

/-- the model's three modes as enumerators of `diff::Type` -/
def typeOfMode : Mode → LogicSrc.DrType
  | .numerical => .Numerical
  | .analytic => .Analytic
  | .default => .Default

variable {JT HT : Type}

/-- what a terminal route does, in the vocabulary of the model (`dr_numerical<K>` needs `1 ≤ K ≤ 2`; the Analytic
    branch calls the members, which must exist) -/
def execRoute (K : Nat) (c : Callable X Y JT HT) (rm : Y → Y → List α) (slots : List (Slot α X)) (x : X) :
    LogicSrc.DrRoute → Except String (DrOut α X Y JT HT)
  | .value => .ok (.value (c.f x))
  | .numerical =>
    if K = 1 then .ok (.num1 (LogicSrc.Diff_k1 LogicSrc.Diff_eps rm c.f slots x))
    else if K = 2 then .ok (.num2 (LogicSrc.Diff_k2 LogicSrc.Diff_eps rm c.f slots x))
    else .error "ill-formed: K > 2"
  | .analytic1 =>
    match c.jacobian with
    | some j => .ok (.ana1 (c.f x) (j x))
    | none => .error "ill-formed: no member jacobian"
  | .analytic2 =>
    match c.jacobian, c.hessian with
    | some j, some h => .ok (.ana2 (c.f x) (j x) (h x))
    | _, _ => .error "ill-formed: no member jacobian/hessian"
  | .redirect _ => .error "ill-formed: K > 2"
  | .illformed => .error "ill-formed: K > 2"

/-- follow one `return dr<K, t>(…)` -/
def resolveRoute (K : Nat) (o1 o2 : Bool) : LogicSrc.DrRoute → LogicSrc.DrRoute
  | .redirect t => LogicSrc.Diff_dr_route K t o1 o2
  | r => r

/-- `dr<K, D>(f, x)`: the model's dispatch is the source's `if constexpr` chain (with `diffable_order1/2` decided by the
    presence of the members `jacobian` / `hessian`), followed through one redirection, and the numerical branches are
    the regenerated `dr_numerical<1|2>` with the regenerated `eps` -/
theorem diff_dr_dispatch (K : Nat) (mode : Mode) (c : Callable X Y JT HT) (rm : Y → Y → List α)
    (slots : List (Slot α X)) (x : X) :
    Diff.dr K mode c rm slots x =
      let o1 := LogicSrc.Diff_diffable_order1 c.jacobian.isSome c.hessian.isSome
      let o2 := LogicSrc.Diff_diffable_order2 c.jacobian.isSome c.hessian.isSome
      execRoute K c rm slots x (resolveRoute K o1 o2 (LogicSrc.Diff_dr_route K (typeOfMode mode) o1 o2)) := by
  have e1 := fun (sl : List (Slot α X)) => diff_k1 (LogicSrc.Diff_eps : α) rm c.f sl x
  have e2 := fun (sl : List (Slot α X)) => diff_k2 (LogicSrc.Diff_eps : α) rm c.f sl x
  rcases K with _ | _ | _ | K
  · cases mode <;> rfl
  · cases mode <;> cases hj : c.jacobian <;> cases hh : c.hessian <;>
      simp [Diff.dr, LogicSrc.Diff_dr_route, LogicSrc.Diff_diffable_order1, LogicSrc.Diff_diffable_order2, typeOfMode,
        resolveRoute, execRoute, hj, hh, diff_eps.1, e1]
  · cases mode <;> cases hj : c.jacobian <;> cases hh : c.hessian <;>
      simp [Diff.dr, LogicSrc.Diff_dr_route, LogicSrc.Diff_diffable_order1, LogicSrc.Diff_diffable_order2, typeOfMode,
        resolveRoute, execRoute, hj, hh, Diff.eps2K, diff_eps.1, e2]
  · cases mode <;> cases hj : c.jacobian <;> cases hh : c.hessian <;>
      simp [Diff.dr, LogicSrc.Diff_dr_route, LogicSrc.Diff_diffable_order1, LogicSrc.Diff_diffable_order2, typeOfMode,
        resolveRoute, execRoute, hj, hh]

/-- `dr<K>(f, x)` forwards to `Type::Default` -/
theorem diff_dr_default : typeOfMode .default = LogicSrc.Diff_dr_default := rfl

end diff
end SrcTieLogic
