/-
  SrcTieImplC04 — source ties (see SrcTieImpl.lean) for dr_exp, dr_expinv and their helpers
  (SO3 calc_S1, calc_S2, calc_S1inv; SE3 calculate_q).
-/
import SmoothProps.SrcTieImplC03

open Scalar Lin EigenSem

namespace SrcTieImpl
variable {α : Type} [Scalar α]

/-- `I + cos_2·ad − (sin_3·ad)·ad`: the source order `sin_3(th2) * ad_a * ad_a` (the model was
    `sin_3·(ad·ad)` before this tie existed and has been corrected to the source) -/
theorem se2_dr_exp (a : Vec α 3) : ImplSrc.SE2.dr_exp a = SE2.dr_exp a := by
  simp only [SE2.dr_exp, memoM_eq]; tie_mat
theorem se2_dr_expinv (a : Vec α 3) : ImplSrc.SE2.dr_expinv a = SE2.dr_expinv a := by
  simp only [SE2.dr_expinv, memoM_eq]; tie_mat
/-- `I − cos_2·M − (sin_3·M)·M` (source order; model corrected, see `se2_dr_exp`) -/
theorem so3_calc_S1 (a : Vec α 3) : ImplSrc.SO3.calc_S1 a = SO3.calc_S1 a := by
  simp only [SO3.calc_S1, memoM_eq]; tie_mat
theorem so3_calc_S2 (a : Vec α 3) : ImplSrc.SO3.calc_S2 a = SO3.calc_S2 a := by
  simp only [SO3.calc_S2, memoM_eq]; tie_mat
theorem so3_calc_S1inv (a : Vec α 3) : ImplSrc.SO3.calc_S1inv a = SO3.calc_S1inv a := by
  simp only [SO3.calc_S1inv, memoM_eq]; tie_mat
theorem so3_dr_exp (a : Vec α 3) : ImplSrc.SO3.dr_exp a = SO3.dr_exp a := by
  simp only [ImplSrc.SO3.dr_exp, SO3.dr_exp, so3_calc_S1]
theorem so3_dr_expinv (a : Vec α 3) : ImplSrc.SO3.dr_expinv a = SO3.dr_expinv a := by
  simp only [ImplSrc.SO3.dr_expinv, SO3.dr_expinv, so3_calc_S1inv]; rfl
theorem se3_calculate_q (v w : Vec α 3) : ImplSrc.SE3.calculate_q v w = SE3.calculate_q v w := by
  simp only [SE3.calculate_q, memoM_eq]; tie_mat
theorem se3_dr_exp (a : Vec α 6) : ImplSrc.SE3.dr_exp a = SE3.dr_exp a := by
  simp only [ImplSrc.SE3.dr_exp, SE3.dr_exp, memoM_eq, so3_dr_exp, se3_calculate_q,
    block00_setBlock, tail3_tw, head3_tv]
  tie_mat
theorem se3_dr_expinv (a : Vec α 6) : ImplSrc.SE3.dr_expinv a = SE3.dr_expinv a := by
  simp only [ImplSrc.SE3.dr_expinv, SE3.dr_expinv, memoM_eq, so3_dr_expinv, se3_calculate_q,
    block00_setBlock, tail3_tw, head3_tv]
  tie_mat

end SrcTieImpl
