/-
  SrcTieImplC04 — source ties (see SrcTieImpl.lean) for dr_exp, dr_expinv and their helpers
  (SO3 calc_S1, calc_S2, calc_S1inv; SE3 and SE_K(3) calculate_q; Galilei calculate_r).
-/
import SmoothProps.SrcTieImplC03

open Scalar Lin EigenSem

set_option linter.unusedSectionVars false
namespace SrcTieImpl
variable {α : Type} [Scalar α]

/-- `I + cos_2·ad − (sin_3·ad)·ad`: the source order `sin_3(th2) * ad_a * ad_a` (the model was
    `sin_3·(ad·ad)` before this tie existed and has been corrected to the source) -/
theorem se2_dr_exp (a : Vec α 3) : ImplSrc.SE2.dr_exp a = SE2.dr_exp a := by
  simp only [SE2.dr_exp, memoM_eq]; tie_mat
theorem se2_dr_expinv (a : Vec α 3) : ImplSrc.SE2.dr_expinv a = SE2.dr_expinv a := by
  simp only [SE2.dr_expinv, memoM_eq]; tie_mat
/-- `I − cos_2·M − (sin_3·M)·M` (source order; model corrected, see `se2_dr_exp`) -/
theorem so3_calc_S1 (a : Vec α 3) : ImplSrc.SO3.calc_S1 a = SO3.calc_S1 a := by
  simp only [SO3.calc_S1, memoM_eq]; tie_mat
theorem so3_calc_S2 (a : Vec α 3) : ImplSrc.SO3.calc_S2 a = SO3.calc_S2 a := by
  simp only [SO3.calc_S2, memoM_eq]; tie_mat
theorem so3_calc_S1inv (a : Vec α 3) : ImplSrc.SO3.calc_S1inv a = SO3.calc_S1inv a := by
  simp only [SO3.calc_S1inv, memoM_eq]; tie_mat
theorem so3_dr_exp (a : Vec α 3) : ImplSrc.SO3.dr_exp a = SO3.dr_exp a := by
  simp only [ImplSrc.SO3.dr_exp, SO3.dr_exp, so3_calc_S1]
theorem so3_dr_expinv (a : Vec α 3) : ImplSrc.SO3.dr_expinv a = SO3.dr_expinv a := by
  simp only [ImplSrc.SO3.dr_expinv, SO3.dr_expinv, so3_calc_S1inv]; rfl
theorem se3_calculate_q (v w : Vec α 3) : ImplSrc.SE3.calculate_q v w = SE3.calculate_q v w := by
  simp only [SE3.calculate_q, memoM_eq]; tie_mat
theorem se3_dr_exp (a : Vec α 6) : ImplSrc.SE3.dr_exp a = SE3.dr_exp a := by
  simp only [ImplSrc.SE3.dr_exp, SE3.dr_exp, memoM_eq, so3_dr_exp, se3_calculate_q,
    block00_setBlock, tail3_tw, head3_tv]
  tie_mat
theorem se3_dr_expinv (a : Vec α 6) : ImplSrc.SE3.dr_expinv a = SE3.dr_expinv a := by
  simp only [ImplSrc.SE3.dr_expinv, SE3.dr_expinv, memoM_eq, so3_dr_expinv, se3_calculate_q,
    block00_setBlock, tail3_tw, head3_tv]
  tie_mat

/-! Galilei -/
/-- `Scalar(2) * W * WV` is `(2·W)·WV` in the source; the model had `2·(W·WV)` before this tie existed and
    has been corrected (the two are bit-identical in binary floating point: scaling by 2 is exact) -/
theorem galilei_calculate_r (v w : Vec α 3) : ImplSrc.Galilei.calculate_r v w = Galilei.calculate_r v w := by
  simp only [Galilei.calculate_r, memoM_eq]; tie_mat
theorem galilei_dr_exp (a : Vec α 10) : ImplSrc.Galilei.dr_exp a = Galilei.dr_exp a := by
  simp only [ImplSrc.Galilei.dr_exp, Galilei.dr_exp, memoM_eq, so3_calc_S1, so3_calc_S2, se3_calculate_q,
    galilei_calculate_r, gal_tail3, gal_head3, gal_seg3]
  tie_mat
theorem galilei_dr_expinv (a : Vec α 10) : ImplSrc.Galilei.dr_expinv a = Galilei.dr_expinv a := by
  simp only [ImplSrc.Galilei.dr_expinv, Galilei.dr_expinv, memoM_eq, so3_calc_S1inv, so3_calc_S2, se3_calculate_q,
    galilei_calculate_r, gal_tail3, gal_head3, gal_seg3]
  tie_mat

/-! SE_K(3), every `k` (its private copy of `calculate_q` is the SE3 one) -/
theorem sek3_calculate_q (v w : Vec α 3) : ImplSrc.SEK3.calculate_q v w = SE3.calculate_q v w := by
  simp only [SE3.calculate_q, memoM_eq]; tie_mat
theorem sek3_dr_exp {k : Nat} (a : Vec α (3 + 3 * k)) : ImplSrc.SEK3.dr_exp a = SEK3.dr_exp k a := by
  simp only [ImplSrc.SEK3.dr_exp, SEK3.dr_exp, memoM_eq, so3_dr_exp, sek3_calculate_q, seg_tw]
  rw [forLoop_blocks _ (SO3.dr_exp (SEK3.tw k a))
    (fun i hi => SE3.calculate_q (vneg (segment 3 (3 * i) a)) (vneg (SEK3.tw k a)))]
  · rfl
  · intro i hi M hM

    rw [blockM_setBlock_disj _ _ _ _ _ _ _ _ (by omega), hM]
theorem sek3_dr_expinv {k : Nat} (a : Vec α (3 + 3 * k)) : ImplSrc.SEK3.dr_expinv a = SEK3.dr_expinv k a := by
  simp only [ImplSrc.SEK3.dr_expinv, SEK3.dr_expinv, memoM_eq, so3_dr_expinv, sek3_calculate_q, seg_tw]
  rw [forLoop_blocks _ (SO3.dr_expinv (SEK3.tw k a))
    (fun i hi => mmul (mmul (mneg (SO3.dr_expinv (SEK3.tw k a)))
      (SE3.calculate_q (vneg (segment 3 (3 * i) a)) (vneg (SEK3.tw k a)))) (SO3.dr_expinv (SEK3.tw k a)))]
  · rfl
  · intro i hi M hM

    rw [hM, blockM_setBlock_disj _ _ _ _ _ _ _ _ (by omega), hM]

/-! ### generic layer: `dr_exp`, `dr_expinv`, `dl_exp`, `dl_expinv` of LieGroupBase; `dr_rminus`,
`dr_rminus_squarednorm` of derivatives_impl.hpp (see SrcTieImpl.lean) -/
section base
variable (G : LieModel α)
theorem base_dr_exp (h : G.ShortCut) (a : Vec α G.dof) : BaseSrc.dr_exp G a = G.dr_exp a := by
  unfold BaseSrc.dr_exp
  cases hc : G.comm
  · rfl
  · exact (h.dr_exp hc a).symm
theorem base_dr_expinv (h : G.ShortCut) (a : Vec α G.dof) : BaseSrc.dr_expinv G a = G.dr_expinv a := by
  unfold BaseSrc.dr_expinv
  cases hc : G.comm
  · rfl
  · exact (h.dr_expinv hc a).symm
theorem base_dl_exp (h : G.ShortCut) (a : Vec α G.dof) : BaseSrc.dl_exp G a = G.dl_exp a := by
  unfold BaseSrc.dl_exp LieModel.dl_exp; exact base_dr_exp G h _
theorem base_dl_expinv (h : G.ShortCut) (a : Vec α G.dof) : BaseSrc.dl_expinv G a = G.dl_expinv a := by
  unfold BaseSrc.dl_expinv LieModel.dl_expinv; exact base_dr_expinv G h _
theorem derivs_dr_rminus (h : G.ShortCut) (e : Vec α G.dof) : BaseSrc.dr_rminus G e = Derivs.dr_rminus G e := by
  unfold BaseSrc.dr_rminus Derivs.dr_rminus; exact base_dr_expinv G h _
theorem derivs_dr_rminus_squarednorm (h : G.ShortCut) (e : Vec α G.dof) :
    BaseSrc.dr_rminus_squarednorm G e = Derivs.dr_rminus_squarednorm G e := by
  unfold BaseSrc.dr_rminus_squarednorm Derivs.dr_rminus_squarednorm
  rw [base_dr_expinv G h]; rfl
end base

end SrcTieImpl
