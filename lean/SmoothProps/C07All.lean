/- aggregator: property theorems of C07 plus the source-tie theorems of the Manifold adaptors (`traits::man<LieGroup>`,
   manifolds/vector.hpp, submanifold.hpp, variant.hpp, any.hpp), regenerated from the C++ on every check (tools/gen_bundle.py) -/
import SmoothProps.C07
import SmoothProps.SrcTieManif
